(* C05, lemma (2): STORE LOCALITY.  The shared ArgLists (one per client command, Args keyed by node name) cannot carry information
   between devices whose node sets are disjoint: a device's statements read (ifon / ifoff, setresult's existence test) and write
   (setplugstate, setresult) only Args of nodes mapped to its own plugs.
   Stated with a MASK: [hid] marks some node names as hidden; [mask_store] resets every Arg of a hidden node to its initial value.
     - a device none of whose nodes is hidden COMMUTES with masking     (it neither reads nor writes hidden Args),
     - a device all of whose nodes are hidden is INVISIBLE under masking (it writes hidden Args only).
   Both are unary, equational statements, proved statement handler by handler and lifted to post_poll_one. *)
From Coq Require Import List NArith ZArith Bool Lia.
From PM Require Import Base.Bytes Base.Outcome Base.Dec Gen.GenConsts Gen.GenCbuf Model.ScriptAst Model.Enqueue Model.Script Model.Device
  Proofs.DeviceProofs Proofs.DeviceStmt Proofs.DeviceStmtG Proofs.DeviceInv Proofs.DeviceInvG.
Import ListNotations.
Local Open Scope Z_scope.

Section Mask.
  Variable hid : text -> bool.

  Definition mask_arg (x : arg) : arg := if hid (ar_node x) then mkArg (ar_node x) ST_UNKNOWN RT_NONE None else x.
  Definition mask (al : arglist) : arglist := map mask_arg al.
  Definition mask_store (st : list arglist) : list arglist := map mask st.

  (* none / all of the device's nodes are hidden *)
  Definition visible (plugs : list plug) : Prop := forall p n, In p plugs -> pl_node p = Some n -> hid n = false.
  Definition hidden (plugs : list plug) : Prop := forall p n, In p plugs -> pl_node p = Some n -> hid n = true.

  Lemma mask_arg_node x : ar_node (mask_arg x) = ar_node x.
  Proof. unfold mask_arg. destruct (hid (ar_node x)); reflexivity. Qed.

  Lemma arg_find_mask al node : arg_find (mask al) node = option_map mask_arg (arg_find al node).
  Proof.
    induction al as [|a r IH]; [reflexivity|]. cbn [mask map arg_find]. rewrite mask_arg_node.
    destruct (text_eqb (ar_node a) node); [reflexivity|exact IH].
  Qed.
  Lemma arg_find_node al node x : arg_find al node = Some x -> ar_node x = node.
  Proof.
    induction al as [|a r IH]; [discriminate|]. cbn [arg_find]. destruct (text_eqb (ar_node a) node) eqn:E; [|exact IH].
    intros H; inversion H; subst. now apply text_eqb_eq.
  Qed.
  Lemma arg_find_mask_vis al node : hid node = false -> arg_find (mask al) node = arg_find al node.
  Proof.
    intros Hv. rewrite arg_find_mask. destruct (arg_find al node) as [x|] eqn:E; [|reflexivity].
    apply arg_find_node in E. cbn [option_map]. unfold mask_arg. rewrite E, Hv. reflexivity.
  Qed.
  Lemma arg_update_mask_vis al node f : hid node = false -> (forall x, ar_node (f x) = ar_node x) ->
    arg_update (mask al) node f = mask (arg_update al node f).
  Proof.
    intros Hv Hf. induction al as [|a r IH]; [reflexivity|]. cbn [mask map arg_update]. rewrite mask_arg_node.
    destruct (text_eqb (ar_node a) node) eqn:E.
    - apply text_eqb_eq in E. cbn [map]. f_equal. unfold mask_arg. rewrite Hf, E, Hv. reflexivity.
    - cbn [map]. f_equal. exact IH.
  Qed.
  Lemma arg_update_mask_hid al node f : hid node = true -> (forall x, ar_node (f x) = ar_node x) ->
    mask (arg_update al node f) = mask al.
  Proof.
    intros Hh Hf. induction al as [|a r IH]; [reflexivity|]. cbn [mask map arg_update].
    destruct (text_eqb (ar_node a) node) eqn:E.
    - apply text_eqb_eq in E. cbn [map]. f_equal. unfold mask_arg. rewrite Hf, E, Hh. reflexivity.
    - cbn [map]. f_equal. exact IH.
  Qed.

  Lemma get_args_mask st a : get_args (mask_store st) a = option_map mask (get_args st a).
  Proof. unfold get_args, mask_store. destruct (a_args a) as [i|]; [|reflexivity]. apply nth_error_map. Qed.
  Lemma store_set_mask : forall st i al, store_set (mask_store st) i (mask al) = mask_store (store_set st i al).
  Proof. induction st as [|x r IH]; intros [|i] al; cbn [mask_store map store_set]; try reflexivity. f_equal. apply IH. Qed.
  Lemma store_set_same_mask : forall st i al al0, nth_error st i = Some al0 -> mask al = mask al0 -> mask_store (store_set st i al) = mask_store st.
  Proof.
    induction st as [|x r IH]; intros [|i] al al0 Hn Hm; cbn [mask_store map store_set nth_error] in *; try discriminate.
    - inversion Hn; subst. now rewrite Hm.
    - f_equal. eapply IH; eassumption.
  Qed.

  Lemma find_plug_in sd pn p node : find_plug sd pn = Some (p, node) -> In p (sd_plugs sd) /\ pl_node p = Some node.
  Proof.
    unfold find_plug. destruct (find_plug_any (sd_plugs sd) pn) as [q|] eqn:E; [|discriminate].
    destruct (pl_node q) as [n|] eqn:En; [|discriminate]. intros H; inversion H; subst. split; [|exact En].
    clear En H. induction (sd_plugs sd) as [|x r IH]; [discriminate|]. cbn [find_plug_any] in E.
    destruct (text_eqb (pl_name x) pn); [inversion E; subst; now left|right; now apply IH].
  Qed.

  (* ---------- results with the store mapped ---------- *)
  Definition mapst1 (f : list arglist -> list arglist) (r : outcome sres) : outcome sres :=
    match r with Ok (fin, sd, a, st, evs) => Ok (fin, sd, a, f st, evs) | x => x end.
  Definition mapst (f : list arglist -> list arglist) (r : outcome (sres * option Z)) : outcome (sres * option Z) :=
    match r with Ok ((fin, sd, a, st, evs), t) => Ok ((fin, sd, a, f st, evs), t) | x => x end.
  Lemma omap_mapst1 f r : omap (fun x : sres => (x, @None Z)) (mapst1 f r) = mapst f (omap (fun x : sres => (x, @None Z)) r).
  Proof. destruct r as [[[[[? ?] ?] ?] ?]| | | |]; reflexivity. Qed.

  Section Stmt.
    Variable rmatch : text -> text -> option pmatch.
    Variable compress : list text -> text.
    Variable sc : bool.

    Lemma setplugstate_vis sd a store e lit pmp smp ints : visible (sd_plugs sd) ->
      process_setplugstate rmatch sd a (mask_store store) e lit pmp smp ints = mapst1 mask_store (process_setplugstate rmatch sd a store e lit pmp smp ints).
    Proof.
      intros Hv. unfold process_setplugstate.
      destruct (match lit with Some l => Ok (Some l) | None => _ end) as [[pn|]| | | |]; try reflexivity.
      destruct (sub_strdup sd smp) as [[str|]| | | |]; try reflexivity; try (destruct (find_plug sd pn) as [[? ?]|]; reflexivity; fail).
      destruct (find_plug sd pn) as [[p node]|] eqn:Ef; [|reflexivity].
      apply find_plug_in in Ef as [Hin Hn]. pose proof (Hv p node Hin Hn) as Hvis.
      cbv zeta. rewrite get_args_mask. destruct (a_args a) as [i|]; [|reflexivity].
      destruct (get_args store a) as [al|]; [|reflexivity]. cbn [option_map mapst1].
      rewrite arg_update_mask_vis by (auto). rewrite store_set_mask. reflexivity.
    Qed.
    Lemma setplugstate_hid sd a store e lit pmp smp ints fin sd' a' store' evs : hidden (sd_plugs sd) ->
      process_setplugstate rmatch sd a store e lit pmp smp ints = Ok (fin, sd', a', store', evs) -> mask_store store' = mask_store store.
    Proof.
      intros Hh. unfold process_setplugstate.
      destruct (match lit with Some l => Ok (Some l) | None => _ end) as [[pn|]| | | |]; try discriminate; [|intros H; inversion H; reflexivity].
      destruct (sub_strdup sd smp) as [[str|]| | | |]; try discriminate; try (destruct (find_plug sd pn) as [[? ?]|]; intros H; inversion H; reflexivity; fail); try (intros H; inversion H; reflexivity; fail).
      destruct (find_plug sd pn) as [[p node]|] eqn:Ef; [|intros H; inversion H; reflexivity].
      apply find_plug_in in Ef as [Hin Hn]. pose proof (Hh p node Hin Hn) as Hhid.
      cbv zeta. unfold get_args. destruct (a_args a) as [i|]; [|intros H; inversion H; reflexivity].
      destruct (nth_error store i) as [al|] eqn:En; intros H; inversion H; subst; [|reflexivity].
      eapply store_set_same_mask; [exact En|]. apply arg_update_mask_hid; auto.
    Qed.

    Lemma setresult_vis sd a store e pmp smp ints : visible (sd_plugs sd) ->
      process_setresult rmatch sd a (mask_store store) e pmp smp ints = mapst1 mask_store (process_setresult rmatch sd a store e pmp smp ints).
    Proof.
      intros Hv. unfold process_setresult.
      destruct (sub_strdup sd pmp) as [[pn|]| | | |]; try reflexivity.
      destruct (sub_strdup sd smp) as [[str|]| | | |]; try reflexivity; try (destruct (find_plug sd pn) as [[? ?]|]; reflexivity; fail).
      destruct (find_plug sd pn) as [[p node]|] eqn:Ef; [|reflexivity].
      apply find_plug_in in Ef as [Hin Hn]. pose proof (Hv p node Hin Hn) as Hvis.
      cbv zeta. rewrite get_args_mask. destruct (a_args a) as [i|]; [|reflexivity].
      destruct (get_args store a) as [al|]; [|reflexivity]. cbn [option_map].
      rewrite arg_find_mask_vis by exact Hvis. destruct (arg_find al node); [|reflexivity].
      rewrite arg_update_mask_vis by (auto). rewrite store_set_mask.
      destruct (Z.eqb _ RT_SUCCESS); [reflexivity|]. destruct (a_hasdiag a); reflexivity.
    Qed.
    Lemma setresult_hid sd a store e pmp smp ints fin sd' a' store' evs : hidden (sd_plugs sd) ->
      process_setresult rmatch sd a store e pmp smp ints = Ok (fin, sd', a', store', evs) -> mask_store store' = mask_store store.
    Proof.
      intros Hh. unfold process_setresult.
      destruct (sub_strdup sd pmp) as [[pn|]| | | |]; try discriminate; [|intros H; inversion H; reflexivity].
      destruct (sub_strdup sd smp) as [[str|]| | | |]; try discriminate; try (destruct (find_plug sd pn) as [[? ?]|]; intros H; inversion H; reflexivity; fail); try (intros H; inversion H; reflexivity; fail).
      destruct (find_plug sd pn) as [[p node]|] eqn:Ef; [|intros H; inversion H; reflexivity].
      apply find_plug_in in Ef as [Hin Hn]. pose proof (Hh p node Hin Hn) as Hhid.
      cbv zeta. unfold get_args. destruct (a_args a) as [i|]; [|intros H; inversion H; reflexivity].
      destruct (nth_error store i) as [al|] eqn:En; [|intros H; inversion H; reflexivity].
      destruct (arg_find al node); [|intros H; inversion H; reflexivity].
      assert (G : mask_store (store_set store i (arg_update al node (fun x => mkArg (ar_node x) (ar_state x) (first_interp rmatch ints str RT_UNKNOWN) (Some str)))) = mask_store store).
      { eapply store_set_same_mask; [exact En|]. apply arg_update_mask_hid; auto. }
      destruct (Z.eqb _ RT_SUCCESS); [intros H; inversion H; subst; exact G|].
      destruct (a_hasdiag a); intros H; inversion H; subst; exact G.
    Qed.

    Lemma ifonoff_vis sd a store e rest want body : visible (sd_plugs sd) -> opt_incl (c_plugs e) (sd_plugs sd) ->
      process_ifonoff sd a (mask_store store) e rest want body = mapst1 mask_store (process_ifonoff sd a store e rest want body).
    Proof.
      intros Hv Hi. unfold process_ifonoff. destruct (c_processing e); [reflexivity|].
      assert (G : forall st, (let cond := (want && Z.eqb st ST_ON) || (negb want && Z.eqb st ST_OFF) in
                   let a1 := if negb cond && Z.eqb st ST_UNKNOWN then set_err ACT_EEXPFAIL a else a in
                   if cond then Ok (true, sd, set_exec (new_ctx body (match c_plugs e with Some ps => Some ps | None => Some [] end) :: set_processing true e :: rest) a1, mask_store store, @nil ev)
                   else Ok (true, sd, a1, mask_store store, [])) =
                  mapst1 mask_store (let cond := (want && Z.eqb st ST_ON) || (negb want && Z.eqb st ST_OFF) in
                   let a1 := if negb cond && Z.eqb st ST_UNKNOWN then set_err ACT_EEXPFAIL a else a in
                   if cond then Ok (true, sd, set_exec (new_ctx body (match c_plugs e with Some ps => Some ps | None => Some [] end) :: set_processing true e :: rest) a1, store, @nil ev)
                   else Ok (true, sd, a1, store, []))).
      { intros st. cbv zeta. destruct (_ || _); reflexivity. }
      destruct (c_plugs e) as [[|p ps]|] eqn:Ec; try apply G.
      destruct (pl_node p) as [n|] eqn:En; [|apply G].
      assert (Hvis : hid n = false) by (apply (Hv p n); [apply Hi; now left|exact En]).
      rewrite get_args_mask. destruct (get_args store a) as [al|]; cbn [option_map]; [|apply G].
      rewrite arg_find_mask_vis by exact Hvis. apply G.
    Qed.
    Lemma ifonoff_hid sd a store e rest want body fin sd' a' store' evs :
      process_ifonoff sd a store e rest want body = Ok (fin, sd', a', store', evs) -> store' = store.
    Proof.
      unfold process_ifonoff. destruct (c_processing e); [intros H; inversion H; reflexivity|].
      destruct (match c_plugs e with Some (p :: _) => _ | _ => Ok ST_UNKNOWN end) as [st| | | |]; try discriminate.
      cbv zeta. destruct (_ || _); intros H; inversion H; reflexivity.
    Qed.

    (* the handlers that only pass the store through *)
    Lemma expect_pass now sd a store re :
      process_expect rmatch now sd a (mask_store store) re = mapst1 mask_store (process_expect rmatch now sd a store re)
      /\ forall fin sd' a' store' evs, process_expect rmatch now sd a store re = Ok (fin, sd', a', store', evs) -> store' = store.
    Proof.
      unfold process_expect. cbn [sd_from set_xm]. destruct (sd_from sd); [split; [reflexivity|intros ? ? ? ? ? H; inversion H; reflexivity]|].
      destruct (rmatch re _) as [pm|]; [|split; [reflexivity|intros ? ? ? ? ? H; inversion H; reflexivity]].
      destruct (nth_error pm 0) as [[[so eo]|]|]; (split; [reflexivity|intros ? ? ? ? ? H; inversion H; reflexivity]).
    Qed.
    Lemma send_pass now sd a store e rest fmt :
      process_send compress now sd a (mask_store store) e rest fmt = mapst1 mask_store (process_send compress now sd a store e rest fmt)
      /\ forall fin sd' a' store' evs, process_send compress now sd a store e rest fmt = Ok (fin, sd', a', store', evs) -> store' = store.
    Proof.
      unfold process_send.
      destruct (if c_processing e then Ok (sd, []) else _) as [[d' evs0]| | | |]; try (split; [reflexivity|discriminate]).
      destruct (sd_to d'); (split; [reflexivity|intros ? ? ? ? ? H; inversion H; reflexivity]).
    Qed.
    Lemma delay_pass now sd a store e rest us :
      process_delay sc now sd a (mask_store store) e rest us = mapst mask_store (process_delay sc now sd a store e rest us)
      /\ forall fin sd' a' store' evs t, process_delay sc now sd a store e rest us = Ok ((fin, sd', a', store', evs), t) -> store' = store.
    Proof.
      unfold process_delay. destruct (c_processing e); cbv beta iota zeta; destruct (_ || _); (split; [reflexivity|intros ? ? ? ? ? ? H; inversion H; reflexivity]).
    Qed.
    Lemma foreach_pass sd a store e rest onlynodes body :
      process_foreach sd a (mask_store store) e rest onlynodes body = mapst1 mask_store (process_foreach sd a store e rest onlynodes body)
      /\ forall fin sd' a' store' evs, process_foreach sd a store e rest onlynodes body = Ok (fin, sd', a', store', evs) -> store' = store.
    Proof.
      unfold process_foreach.
      destruct (match c_plugitr e with Some _ => Ok e | None => _ end) as [e0| | | |]; try (split; [reflexivity|discriminate]).
      cbv zeta. destruct (next_plug _ _ _) as [[p i']|]; (split; [reflexivity|intros ? ? ? ? ? H; inversion H; reflexivity]).
    Qed.

    Lemma omap_inv (r : outcome sres) x t : omap (fun y : sres => (y, @None Z)) r = Ok (x, t) -> r = Ok x.
    Proof. destruct r; cbn; intros H; inversion H; reflexivity. Qed.

    (* ---------- one statement ---------- *)
    Lemma process_stmt_vis now sd a store : visible (sd_plugs sd) -> wf_action compress (sd_plugs sd) a ->
      process_stmt rmatch compress sc now sd (a) (mask_store store) = mapst mask_store (process_stmt rmatch compress sc now sd a store).
    Proof.
      intros Hv (Hne & Hctx & _). unfold process_stmt. destruct (a_exec a) as [|e rest]; [reflexivity|].
      inversion Hctx as [|? ? (_ & _ & Hi & _) _]; subst.
      destruct (cur e) as [s|]; [|reflexivity].
      destruct s as [fmt|re|lit pmp smp ints|pmp smp ints|us|body|body|body|body].
      - rewrite (proj1 (send_pass _ _ _ _ _ _ _)). apply omap_mapst1.
      - rewrite (proj1 (expect_pass _ _ _ _ _)). apply omap_mapst1.
      - rewrite setplugstate_vis by exact Hv. apply omap_mapst1.
      - rewrite setresult_vis by exact Hv. apply omap_mapst1.
      - apply (proj1 (delay_pass _ _ _ _ _ _ _)).
      - rewrite (proj1 (foreach_pass _ _ _ _ _ _ _)). apply omap_mapst1.
      - rewrite (proj1 (foreach_pass _ _ _ _ _ _ _)). apply omap_mapst1.
      - rewrite ifonoff_vis by assumption. apply omap_mapst1.
      - rewrite ifonoff_vis by assumption. apply omap_mapst1.
    Qed.

    Lemma process_stmt_hid now sd a store fin sd' a' store' evs t : hidden (sd_plugs sd) ->
      process_stmt rmatch compress sc now sd a store = Ok ((fin, sd', a', store', evs), t) -> mask_store store' = mask_store store.
    Proof.
      intros Hh. unfold process_stmt. destruct (a_exec a) as [|e rest]; [discriminate|].
      destruct (cur e) as [s|]; [|discriminate].
      destruct s as [fmt|re|lit pmp smp ints|pmp smp ints|us|body|body|body|body]; intros H.
      - apply omap_inv in H. now rewrite (proj2 (send_pass _ _ _ _ _ _ _) _ _ _ _ _ H).
      - apply omap_inv in H. now rewrite (proj2 (expect_pass _ _ _ _ _) _ _ _ _ _ H).
      - apply omap_inv in H. eapply setplugstate_hid; eassumption.
      - apply omap_inv in H. eapply setresult_hid; eassumption.
      - now rewrite (proj2 (delay_pass _ _ _ _ _ _ _) _ _ _ _ _ _ H).
      - apply omap_inv in H. now rewrite (proj2 (foreach_pass _ _ _ _ _ _ _) _ _ _ _ _ H).
      - apply omap_inv in H. now rewrite (proj2 (foreach_pass _ _ _ _ _ _ _) _ _ _ _ _ H).
      - apply omap_inv in H. now rewrite (ifonoff_hid _ _ _ _ _ _ _ _ _ _ _ _ H).
      - apply omap_inv in H. now rewrite (ifonoff_hid _ _ _ _ _ _ _ _ _ _ _ _ H).
    Qed.
  End Stmt.

  (* ---------- lifted to the device state machine ---------- *)
  Definition map_pa (f : list arglist -> list arglist) (r : outcome pa_res) : outcome pa_res :=
    match r with
    | Ok (PaDone d st w pl ev) => Ok (PaDone d (f st) w pl ev)
    | Ok (PaNext d st w ev) => Ok (PaNext d (f st) w ev)
    | x => x
    end.
  Definition map5 (f : list arglist -> list arglist) (r : outcome (device * list arglist * option Z * list cplan * list ev)) :=
    match r with Ok (d, st, w, pl, ev) => Ok (d, f st, w, pl, ev) | x => x end.
  Definition map_pp (f : list arglist -> list arglist) (r : outcome (device * list arglist * option Z * list ev)) :=
    match r with Ok (d, st, w, ev) => Ok (d, f st, w, ev) | x => x end.
  Definition store_of (r : pa_res) : list arglist := match r with PaDone _ st _ _ _ => st | PaNext _ st _ _ => st end.

  (* the part of post_poll_one that runs before _process_action: it never looks at the store *)
  Definition pp_front (now : Z) (d : device) (t : option Z) (pin : passin) : outcome (device * option Z * list cplan * list ev) :=
    match (if dv_has_fd d && any_flag pin then handle_ready d pin else Ok (false, d, [])) with
    | Ok (ioerr, d1, e1) =>
      match (if ioerr || Z.eqb (dv_cstate d1) DEV_NOT_CONNECTED then reconnect now d1 t (pi_plans pin) else Ok (d1, [], t, pi_plans pin)) with
      | Ok (d2, e2, t2, pl) =>
          let '(d3, t3) := if connected d2 then enqueue_ping now d2 t2 else (d2, t2) in Ok (d3, t3, pl, e1 ++ e2)
      | Exit c s => Exit c s | Abort s => Abort s | MemErr s => MemErr s | Hang s => Hang s
      end
    | Exit c s => Exit c s | Abort s => Abort s | MemErr s => MemErr s | Hang s => Hang s
    end.

  Section Lift.
    Variable rmatch : text -> text -> option pmatch.
    Variable compress : list text -> text.
    Variable sc : bool.

    Lemma pp_split now d st t pin :
      post_poll_one rmatch compress sc now d st t pin =
      match pp_front now d t pin with
      | Ok (d3, t3, pl, e12) =>
        match process_action rmatch compress sc (pa_fuel d3) now d3 st t3 pl e12 with
        | Ok (d4, st4, t4, _, evs) => Ok (d4, st4, t4, evs)
        | Exit c s => Exit c s | Abort s => Abort s | MemErr s => MemErr s | Hang s => Hang s
        end
      | Exit c s => Exit c s | Abort s => Abort s | MemErr s => MemErr s | Hang s => Hang s
      end.
    Proof.
      unfold post_poll_one, pp_front.
      destruct (if dv_has_fd d && any_flag pin then handle_ready d pin else Ok (false, d, [])) as [[[ioerr d1] e1]| | | |]; try reflexivity.
      destruct (if ioerr || Z.eqb (dv_cstate d1) DEV_NOT_CONNECTED then reconnect now d1 t (pi_plans pin) else Ok (d1, [], t, pi_plans pin)) as [[[[d2 e2] t2] pl]| | | |]; try reflexivity.
      destruct (if connected d2 then enqueue_ping now d2 t2 else (d2, t2)) as [d3 t3]. reflexivity.
    Qed.

    Lemma pp_front_inv now d t pin : DInvG compress d -> tmo_pos t -> 0 <= dv_retry_count d ->
      exists d3 t3 pl e12, pp_front now d t pin = Ok (d3, t3, pl, e12) /\ DInvG compress d3 /\ same_cfg d d3 /\ tmo_pos t3 /\ 0 <= dv_retry_count d3.
    Proof.
      intros I Hp Hrc. unfold pp_front.
      assert (H0 : exists ioerr d1 e1, (if dv_has_fd d && any_flag pin then handle_ready d pin else Ok (false, d, [])) = Ok (ioerr, d1, e1) /\
                   DInvG compress d1 /\ same_cfg d d1 /\ 0 <= dv_retry_count d1).
      { destruct (dv_has_fd d) eqn:Efd; cbn [andb]; [|exists false, d, []; split; [reflexivity|split; [exact I|split; [apply same_cfg_refl|exact Hrc]]]].
        destruct (any_flag pin); [|exists false, d, []; split; [reflexivity|split; [exact I|split; [apply same_cfg_refl|exact Hrc]]]].
        destruct (handle_ready_invG compress d pin I Efd) as (io & d1 & e1 & E & I1 & S1 & _ & _ & _ & R1 & _).
        exists io, d1, e1. split; [exact E|]. split; [exact I1|]. split; [exact S1|]. rewrite R1. exact Hrc. }
      destruct H0 as (ioerr & d1 & e1 & -> & I1 & S1 & Hrc1).
      assert (H2 : exists d2 e2 t2 pl, (if ioerr || Z.eqb (dv_cstate d1) DEV_NOT_CONNECTED then reconnect now d1 t (pi_plans pin) else Ok (d1, [], t, pi_plans pin)) = Ok (d2, e2, t2, pl) /\
                   DInvG compress d2 /\ same_cfg d1 d2 /\ tmo_pos t2 /\ 0 <= dv_retry_count d2).
      { destruct (ioerr || Z.eqb (dv_cstate d1) DEV_NOT_CONNECTED).
        - destruct (reconnect_invG compress now d1 t (pi_plans pin) (DInvG_QInvG compress d1 I1) (fun _ => I1) Hp) as (d2 & e2 & t2 & pl & E & I2 & S2 & _ & _ & P2 & _).
          exists d2, e2, t2, pl. split; [exact E|]. split; [exact I2|]. split; [exact S2|]. split; [exact P2|].
          eapply conn_rel_rc; [eapply reconnect_conn; exact E|exact Hrc1].
        - exists d1, [], t, (pi_plans pin). split; [reflexivity|]. split; [exact I1|]. split; [apply same_cfg_refl|]. split; [exact Hp|exact Hrc1]. }
      destruct H2 as (d2 & e2 & t2 & pl & -> & I2 & S2 & P2 & Hrc2).
      destruct (connected d2).
      - destruct (enqueue_ping now d2 t2) as [d3 t3] eqn:E.
        destruct (enqueue_ping_invG compress now d2 t2 d3 t3 I2 P2 E) as (I3 & S3 & _ & P3 & _ & _ & R3 & _).
        exists d3, t3, pl, (e1 ++ e2). split; [reflexivity|]. split; [exact I3|]. split; [eapply same_cfg_trans; [eapply same_cfg_trans|]; eassumption|].
        split; [exact P3|]. rewrite R3. exact Hrc2.
      - exists d2, t2, pl, (e1 ++ e2). split; [reflexivity|]. split; [exact I2|]. split; [eapply same_cfg_trans; eassumption|]. split; [exact P2|exact Hrc2].
    Qed.

    Lemma do_while_vis : forall fuel now sd a store acc tmo, visible (sd_plugs sd) -> wf_action compress (sd_plugs sd) a ->
      do_while rmatch compress sc fuel now sd a (mask_store store) acc tmo = mapst mask_store (do_while rmatch compress sc fuel now sd a store acc tmo).
    Proof.
      induction fuel as [|f IH]; intros now sd a store acc tmo Hv Hw; cbn [do_while]; [reflexivity|].
      rewrite (process_stmt_vis rmatch compress sc now sd a store Hv Hw).
      pose proof (process_stmt_propsG rmatch compress sc now sd a store Hw) as H1.
      destruct (process_stmt rmatch compress sc now sd a store) as [[[[[[fin sd1] a1] st1] evs1] t1]| | | |]; try contradiction. cbn [mapst].
      destruct (Nat.ltb (length (a_exec a)) (length (a_exec a1))); [|reflexivity].
      apply IH; rewrite (sg_plugs _ _ _ _ _ _ _ _ _ _ H1); [exact Hv|exact (sg_wf _ _ _ _ _ _ _ _ _ _ H1)].
    Qed.
    Lemma do_while_hid : forall fuel now sd a store acc tmo fin sd' a' store' evs t, hidden (sd_plugs sd) -> wf_action compress (sd_plugs sd) a ->
      do_while rmatch compress sc fuel now sd a store acc tmo = Ok ((fin, sd', a', store', evs), t) -> mask_store store' = mask_store store.
    Proof.
      induction fuel as [|f IH]; intros now sd a store acc tmo fin sd' a' store' evs t Hh Hw; cbn [do_while]; [discriminate|].
      pose proof (process_stmt_propsG rmatch compress sc now sd a store Hw) as H1.
      destruct (process_stmt rmatch compress sc now sd a store) as [[[[[[fin1 sd1] a1] st1] evs1] t1]| | | |] eqn:E1; try contradiction.
      pose proof (process_stmt_hid rmatch compress sc now sd a store _ _ _ _ _ _ Hh E1) as M1.
      destruct (Nat.ltb (length (a_exec a)) (length (a_exec a1))).
      - intros H. rewrite <- M1. eapply IH; [| |exact H]; rewrite (sg_plugs _ _ _ _ _ _ _ _ _ _ H1); [exact Hh|exact (sg_wf _ _ _ _ _ _ _ _ _ _ H1)].
      - intros H. inversion H; subst. exact M1.
    Qed.

    Lemma fail_and_reconnect_store f now d act rest st t pl pre :
      fail_and_reconnect now d act rest (f st) t pl pre = map_pa f (fail_and_reconnect now d act rest st t pl pre).
    Proof.
      unfold fail_and_reconnect. destruct (connected (set_acts [] d)); [|reflexivity].
      destruct (reconnect now (set_acts [] d) t pl) as [[[[d2 e2] t2] pl2]| | | |]; reflexivity.
    Qed.

    Lemma head_wf d act0 rest : DInvG compress d -> dv_acts d = act0 :: rest -> forall s, wf_action compress (sd_plugs (dv d)) (set_stamp s act0).
    Proof. intros I Ea s. pose proof (dg_acts _ d I) as Hw. rewrite Ea in Hw. inversion Hw; subst. assumption. Qed.

    Lemma pa_step_vis now d st t pl : visible (sd_plugs (dv d)) -> DInvG compress d ->
      pa_step rmatch compress sc now d (mask_store st) t pl = map_pa mask_store (pa_step rmatch compress sc now d st t pl).
    Proof.
      intros Hv I. unfold pa_step. destruct (dv_acts d) as [|act0 rest] eqn:Ea; [reflexivity|].
      destruct (a_exec act0); [reflexivity|].
      destruct (_ <=? now); [apply fail_and_reconnect_store|].
      destruct (negb (connected d)); [reflexivity|].
      rewrite do_while_vis; [|exact Hv|eapply head_wf; eassumption].
      destruct (do_while _ _ _ _ _ _ _ _ _ _) as [[[[[[fin sd'] act'] store'] evs] dt]| | | |]; try reflexivity. cbn [mapst].
      destruct (negb fin); [reflexivity|].
      destruct (Z.eqb (a_err act') ACT_ESUCCESS); [destruct (a_exec (advance act')); reflexivity|].
      apply fail_and_reconnect_store.
    Qed.

    Lemma fail_and_reconnect_same now d act rest st t pl pre r : fail_and_reconnect now d act rest st t pl pre = Ok r -> store_of r = st.
    Proof.
      unfold fail_and_reconnect. destruct (connected (set_acts [] d)); [|intros H; inversion H; reflexivity].
      destruct (reconnect now (set_acts [] d) t pl) as [[[[d2 e2] t2] pl2]| | | |]; intros H; inversion H; reflexivity.
    Qed.
    Lemma pa_step_hid now d st t pl r : hidden (sd_plugs (dv d)) -> DInvG compress d ->
      pa_step rmatch compress sc now d st t pl = Ok r -> mask_store (store_of r) = mask_store st.
    Proof.
      intros Hh I. unfold pa_step. destruct (dv_acts d) as [|act0 rest] eqn:Ea; [intros H; inversion H; reflexivity|].
      destruct (a_exec act0); [discriminate|].
      destruct (_ <=? now); [intros H; apply fail_and_reconnect_same in H; now rewrite H|].
      destruct (negb (connected d)); [intros H; inversion H; reflexivity|].
      destruct (do_while _ _ _ _ _ _ _ _ _ _) as [[[[[[fin sd'] act'] store'] evs] dt]| | | |] eqn:Ed; try discriminate.
      apply do_while_hid in Ed; [|exact Hh|eapply head_wf; eassumption].
      destruct (negb fin); [intros H; inversion H; exact Ed|].
      destruct (Z.eqb (a_err act') ACT_ESUCCESS).
      - destruct (a_exec (advance act')); intros H; inversion H; exact Ed.
      - intros H; apply fail_and_reconnect_same in H. now rewrite H.
    Qed.

    Lemma same_cfg_plugs d d' : same_cfg d d' -> sd_plugs (dv d') = sd_plugs (dv d).
    Proof. intros (_ & _ & _ & E & _). exact E. Qed.

    Lemma process_action_vis : forall fuel now d st t pl acc, visible (sd_plugs (dv d)) -> DInvG compress d -> tmo_pos t -> 0 <= dv_retry_count d ->
      process_action rmatch compress sc fuel now d (mask_store st) t pl acc = map5 mask_store (process_action rmatch compress sc fuel now d st t pl acc).
    Proof.
      induction fuel as [|f IH]; intros now d st t pl acc Hv I Hp Hrc; cbn [process_action]; [reflexivity|].
      rewrite (pa_step_vis now d st t pl Hv I).
      pose proof (pa_step_invG rmatch compress sc now d st t pl I Hp) as H.
      destruct (pa_step rmatch compress sc now d st t pl) as [[d1 st1 t1 pl1 e1|d1 st1 t1 e1]| | | |]; cbn [map_pa map5]; try reflexivity.
      apply IH.
      - rewrite (same_cfg_plugs _ _ (tg_cfg _ _ _ _ _ _ _ _ _ H)). exact Hv.
      - exact (tg_inv _ _ _ _ _ _ _ _ _ H).
      - exact (tg_pos _ _ _ _ _ _ _ _ _ H).
      - exact (conn_rel_rc _ _ _ _ (tg_conn _ _ _ _ _ _ _ _ _ H) Hrc).
    Qed.
    Lemma process_action_hid : forall fuel now d st t pl acc d' st' t' pl' evs, hidden (sd_plugs (dv d)) -> DInvG compress d -> tmo_pos t -> 0 <= dv_retry_count d ->
      process_action rmatch compress sc fuel now d st t pl acc = Ok (d', st', t', pl', evs) -> mask_store st' = mask_store st.
    Proof.
      induction fuel as [|f IH]; intros now d st t pl acc d' st' t' pl' evs Hh I Hp Hrc; cbn [process_action]; [discriminate|].
      pose proof (pa_step_invG rmatch compress sc now d st t pl I Hp) as H.
      destruct (pa_step rmatch compress sc now d st t pl) as [[d1 st1 t1 pl1 e1|d1 st1 t1 e1]| | | |] eqn:E; try contradiction; try discriminate.
      - apply pa_step_hid in E; [|exact Hh|exact I]. intros X; inversion X; subst. exact E.
      - apply pa_step_hid in E; [|exact Hh|exact I]. cbn [store_of] in E. intros X. rewrite <- E. eapply IH; [| | | |exact X].
        + rewrite (same_cfg_plugs _ _ (tg_cfg _ _ _ _ _ _ _ _ _ H)). exact Hh.
        + exact (tg_inv _ _ _ _ _ _ _ _ _ H).
        + exact (tg_pos _ _ _ _ _ _ _ _ _ H).
        + exact (conn_rel_rc _ _ _ _ (tg_conn _ _ _ _ _ _ _ _ _ H) Hrc).
    Qed.

    (* (2a) a device none of whose nodes is hidden neither reads nor writes hidden Args *)
    Theorem post_poll_one_vis now d st t pin : visible (sd_plugs (dv d)) -> DInvG compress d -> tmo_pos t -> 0 <= dv_retry_count d ->
      post_poll_one rmatch compress sc now d (mask_store st) t pin = map_pp mask_store (post_poll_one rmatch compress sc now d st t pin).
    Proof.
      intros Hv I Hp Hrc. rewrite !pp_split.
      destruct (pp_front_inv now d t pin I Hp Hrc) as (d3 & t3 & pl & e12 & -> & I3 & S3 & P3 & R3).
      rewrite process_action_vis; [|rewrite (same_cfg_plugs _ _ S3); exact Hv|exact I3|exact P3|exact R3].
      destruct (process_action _ _ _ _ _ _ _ _ _ _) as [[[[[d4 st4] t4] pl4] e4]| | | |]; reflexivity.
    Qed.
    (* (2b) a device all of whose nodes are hidden writes hidden Args only *)
    Theorem post_poll_one_hid now d st t pin d' st' t' evs : hidden (sd_plugs (dv d)) -> DInvG compress d -> tmo_pos t -> 0 <= dv_retry_count d ->
      post_poll_one rmatch compress sc now d st t pin = Ok (d', st', t', evs) -> mask_store st' = mask_store st.
    Proof.
      intros Hh I Hp Hrc. rewrite pp_split.
      destruct (pp_front_inv now d t pin I Hp Hrc) as (d3 & t3 & pl & e12 & -> & I3 & S3 & P3 & R3).
      destruct (process_action _ _ _ _ _ _ _ _ _ _) as [[[[[d4 st4] t4] pl4] e4]| | | |] eqn:E; try discriminate.
      intros X; inversion X; subst. eapply process_action_hid; [| | | |exact E]; auto. rewrite (same_cfg_plugs _ _ S3). exact Hh.
    Qed.
  End Lift.
End Mask.
