(* cbuf_grow keeps the invariant and the unread bytes; cbuf_writer for an arbitrary source (memory, or a
   descriptor with short reads / EOF / errors) appends exactly the bytes it took from the source, dropping the
   oldest ones beyond the capacity; cbuf_write and cbuf_write_from_fd follow. *)
From Coq Require Import List ZArith Bool Lia.
From PM Require Import Base.Bytes Gen.GenCbuf Model.Cbuf Spec.Fifo Proofs.CbufList Proofs.CbufInv Proofs.CbufRead.
Import ListNotations.
Local Open Scope Z_scope.

(* ---- the three shapes of cbuf_grow on the data array ---- *)
Lemma grow_abs_plain (data zs : list byte) i_out used : 0 <= i_out -> 0 <= used -> i_out + used <= zlen data ->
  ztake used (rot i_out (data ++ zs)) = ztake used (zdrop i_out data).
Proof.
  intros. unfold rot. rewrite zdrop_app_l by lia. rewrite <- app_assoc.
  apply ztake_app_l. rewrite zlen_zdrop. lia.
Qed.

Lemma abs_plain (data : list byte) i_out used : 0 <= i_out -> 0 <= used -> i_out + used <= zlen data ->
  ztake used (rot i_out data) = ztake used (zdrop i_out data).
Proof. intros. unfold rot. apply ztake_app_l. rewrite zlen_zdrop. lia. Qed.

Lemma grow_abs_low (data zs : list byte) mm i_rep i_out used :
  0 <= i_out -> 0 <= used -> i_out + used <= i_rep -> i_rep <= mm -> mm <= zlen data + zlen zs -> i_rep <= zlen data ->
  ztake used (rot i_out (ztake mm (data ++ zs) ++ zdrop i_rep data)) = ztake used (zdrop i_out data).
Proof.
  intros. unfold rot.
  assert (L1 : zlen (ztake mm (data ++ zs)) = mm) by (rewrite zlen_ztake, zlen_app; lia).
  rewrite zdrop_app_l by lia. rewrite <- app_assoc.
  rewrite ztake_app_l by (rewrite zlen_zdrop; lia).
  replace mm with (i_out + (mm - i_out)) by lia. rewrite zdrop_ztake by lia.
  rewrite ztake_ztake. rewrite Z.min_l by lia.
  rewrite zdrop_app_l by lia. apply ztake_app_l. rewrite zlen_zdrop. lia.
Qed.

Lemma abs_wrapped (data : list byte) i_out i_in : 0 <= i_in -> i_in <= i_out -> i_out <= zlen data ->
  ztake (zlen data - i_out + i_in) (rot i_out data) = zdrop i_out data ++ ztake i_in data.
Proof.
  intros. unfold rot.
  assert (L : zlen (zdrop i_out data) = zlen data - i_out) by (rewrite zlen_zdrop; lia).
  rewrite ztake_app_r by lia. f_equal. rewrite L.
  replace (zlen data - i_out + i_in - (zlen data - i_out)) with i_in by lia.
  rewrite ztake_ztake. f_equal. lia.
Qed.

Lemma grow_abs_high (data zs : list byte) mm i_rep i_out i_in g :
  0 <= i_in -> i_in < i_rep -> i_rep <= i_out -> i_out <= zlen data -> 0 <= g -> mm = i_rep + g -> g <= zlen zs ->
  ztake (zlen data - i_out + i_in) (rot (i_out + g) (ztake mm (data ++ zs) ++ zdrop i_rep data))
  = zdrop i_out data ++ ztake i_in data.
Proof.
  intros. unfold rot.
  assert (L1 : zlen (ztake mm (data ++ zs)) = mm) by (rewrite zlen_ztake, zlen_app; lia).
  rewrite zdrop_app_r by lia. rewrite L1.
  rewrite zdrop_zdrop by lia. replace (i_out + g - mm + i_rep) with i_out by lia.
  assert (L : zlen (zdrop i_out data) = zlen data - i_out) by (rewrite zlen_zdrop; lia).
  rewrite ztake_app_r by lia. f_equal. rewrite L.
  replace (zlen data - i_out + i_in - (zlen data - i_out)) with i_in by lia.
  rewrite ztake_app_r by lia. rewrite L1.
  rewrite ztake_app_l by lia. rewrite ztake_ztake. rewrite Z.min_l by lia.
  apply ztake_app_l. lia.
Qed.

(* ---- cbuf_grow ---- *)
Lemma grow_spec cb n cb' g : Inv cb -> 0 < n -> cb_size cb < cb_maxsize cb -> grow cb n = (cb', g) ->
  Inv cb' /\ abs cb' = abs cb /\ cb_used cb' = cb_used cb /\ cb_maxsize cb' = cb_maxsize cb
  /\ cb_minsize cb' = cb_minsize cb /\ cb_overwrite cb' = cb_overwrite cb
  /\ g = cb_size cb' - cb_size cb /\ cb_size cb < cb_size cb'
  /\ (cb_size cb' = cb_maxsize cb \/ cb_size cb + n <= cb_size cb').
Proof.
  intros H Hn Hlt. pose proof (Inv_valid _ H) as V. unfold valid_prop in V. cbv zeta in V.
  destruct H as (_ & Ldata & Halloc).
  unfold grow. replace (cb_size cb =? cb_maxsize cb) with false by (symmetry; apply Z.eqb_neq; lia).
  cbv zeta.
  pose proof chunk_pos as CP. pose proof meta_pos as MP.
  replace (cb_alloc cb - cb_size cb) with CBUF_META by lia.
  pose proof (Z.mod_pos_bound (cb_alloc cb + n) CBUF_CHUNK CP) as MB.
  set (r := (cb_alloc cb + n) mod CBUF_CHUNK) in *.
  set (m := Z.min (cb_alloc cb + n + (CBUF_CHUNK - r)) (cb_maxsize cb + CBUF_META)).
  assert (Hm : cb_alloc cb < m /\ m <= cb_maxsize cb + CBUF_META /\ (m = cb_maxsize cb + CBUF_META \/ cb_alloc cb + n < m)) by (unfold m; lia).
  clearbody m. clear MB. clearbody r.
  set (zs := zeros (m - cb_alloc cb)).
  assert (Lzs : zlen zs = m - cb_alloc cb) by (unfold zs; rewrite zlen_zeros; lia).
  clearbody zs.
  destruct (cb_i_in cb <? cb_i_rep cb) eqn:E1; [apply Z.ltb_lt in E1 | apply Z.ltb_ge in E1].
  - (* relocation of [i_rep, S) to the new end *)
    destruct (cb_i_rep cb <=? cb_i_out cb) eqn:E2; [apply Z.leb_le in E2 | apply Z.leb_gt in E2];
      intros E; inversion E; subst; clear E; proj_simpl.
    + split.
      { apply Inv_intro; proj_simpl; [| |lia].
        - unfold valid_prop. proj_simpl. cbv zeta. mod_split; intuition lia.
        - rewrite zlen_app, zlen_ztake, zlen_zdrop, zlen_app. lia. }
      split.
      { unfold abs. proj_simpl.
        fold (rot (cb_i_out cb + (m - CBUF_META + 1 - (cb_size cb + 1 - cb_i_rep cb) - cb_i_rep cb))
                  (ztake (m - CBUF_META + 1 - (cb_size cb + 1 - cb_i_rep cb)) (cb_data cb ++ zs) ++ zdrop (cb_i_rep cb) (cb_data cb))).
        fold (rot (cb_i_out cb) (cb_data cb)).
        assert (U : cb_used cb = zlen (cb_data cb) - cb_i_out cb + cb_i_in cb) by (mod_split; lia).
        rewrite U. rewrite abs_wrapped by lia.
        apply grow_abs_high with (i_rep := cb_i_rep cb); lia. }
      repeat split; lia.
    + split.
      { apply Inv_intro; proj_simpl; [| |lia].
        - unfold valid_prop. proj_simpl. cbv zeta. mod_split; intuition lia.
        - rewrite zlen_app, zlen_ztake, zlen_zdrop, zlen_app. lia. }
      split.
      { unfold abs. proj_simpl.
        fold (rot (cb_i_out cb)
                  (ztake (m - CBUF_META + 1 - (cb_size cb + 1 - cb_i_rep cb)) (cb_data cb ++ zs) ++ zdrop (cb_i_rep cb) (cb_data cb))).
        fold (rot (cb_i_out cb) (cb_data cb)).
        assert (U : cb_i_out cb + cb_used cb <= cb_i_in cb /\ cb_i_out cb <= cb_i_in cb) by (mod_split; lia).
        rewrite (abs_plain (cb_data cb)) by lia.
        apply grow_abs_low; lia. }
      repeat split; lia.
  - intros E; inversion E; subst; clear E; proj_simpl.
    split.
    { apply Inv_intro; proj_simpl; [| |lia].
      - unfold valid_prop. proj_simpl. cbv zeta. mod_split; intuition lia.
      - rewrite zlen_app. lia. }
    split.
    { unfold abs. proj_simpl.
      fold (rot (cb_i_out cb) (cb_data cb ++ zs)). fold (rot (cb_i_out cb) (cb_data cb)).
      assert (U : cb_i_out cb + cb_used cb <= cb_i_in cb /\ cb_i_out cb <= cb_i_in cb) by (mod_split; lia).
      rewrite (abs_plain (cb_data cb)) by lia. apply grow_abs_plain; lia. }
    repeat split; lia.
Qed.

(* ---- sources ---- *)
(* fd_bytes (every data byte a descriptor script holds) is defined in Model/Cbuf.v *)
Definition src_bytes (s : source) : list byte := match s with SrcMem bs => bs | SrcFd scr => fd_bytes scr end.
(* a memory source holds at least the bytes the caller asks for *)
Definition src_ok (s : source) (want : Z) : Prop := match s with SrcMem bs => want <= zlen bs | SrcFd _ => True end.
Definition is_fd (s : source) : Prop := match s with SrcFd _ => True | SrcMem _ => False end.

Lemma getf_spec src n want m bytes src' : 0 < n -> n <= want -> src_ok src want -> getf src n = (m, bytes, src') ->
  m <= n /\ zlen bytes = Z.max 0 m /\ src_bytes src = bytes ++ src_bytes src' /\ src_ok src' (want - Z.max 0 m)
  /\ (forall bs, src = SrcMem bs -> m = n /\ bytes = ztake n bs /\ src' = SrcMem (zdrop n bs))
  /\ (is_fd src -> is_fd src').
Proof.
  intros Hn Hw Hok. destruct src as [bs|[|[b| |] r]]; cbn [getf src_ok] in *.
  - intros E; inversion E; subst; clear E. cbn [src_bytes src_ok].
    rewrite zlen_ztake, zlen_zdrop, ztake_zdrop.
    split; [lia|]. split; [lia|]. split; [reflexivity|]. split; [lia|].
    split; [|intros []].
    intros bs' E; inversion E; subst. repeat split; reflexivity.
  - intros E; inversion E; subst; clear E. cbn. repeat split; try lia; try reflexivity; try discriminate; try exact I.
  - intros E; inversion E; subst; clear E. cbn [src_bytes src_ok fd_bytes flat_map].
    pose proof (zlen_nonneg b). rewrite !zlen_ztake.
    split; [lia|]. split; [lia|]. split.
    { rewrite <- (ztake_zdrop n b) at 1. rewrite <- app_assoc. f_equal.
      destruct (zdrop n b); cbn [fd_bytes flat_map app]; reflexivity. }
    split; [exact I|]. split; [intros; discriminate|]. intros _. exact I.
  - intros E; inversion E; subst; clear E. cbn. repeat split; try lia; try reflexivity; try discriminate; try exact I.
  - intros E; inversion E; subst; clear E. cbn. repeat split; try lia; try reflexivity; try discriminate; try exact I.
Qed.

(* ---- the copy loop of cbuf_writer ---- *)
Lemma wloop_gen fuel : forall S data i nleft src m0 data' i' nleft' src' m',
  zlen data = S -> 0 <= i < S -> 0 <= nleft -> src_ok src nleft -> nleft <= Z.of_nat fuel ->
  wloop fuel S data i nleft src m0 = (data', i', nleft', src', m') ->
  exists w, zlen w = nleft - nleft' /\ 0 <= nleft' <= nleft /\ zlen data' = S /\ 0 <= i' < S
    /\ i' = (i + zlen w) mod S
    /\ rot i' data' = zdrop (zlen w) (rot i data ++ w)
    /\ src_bytes src = w ++ src_bytes src'
    /\ (nleft' = nleft -> 0 < nleft -> m' <= 0)
    /\ (forall bs, src = SrcMem bs -> nleft' = 0 /\ w = ztake nleft bs)
    /\ (is_fd src -> is_fd src').
Proof.
  induction fuel as [|f IH]; intros S data i nleft src m0 data' i' nleft' src' m' LS Hi Hn Hok Hf.
  - cbn [wloop]. intros E; inversion E; subst; clear E. exists []. assert (nleft' = 0) by lia. subst.
    rewrite zlen_nil, Z.add_0_r, Z.mod_small, app_nil_r, zdrop_neg by lia.
    repeat split; try lia; try reflexivity; try (symmetry; apply ztake_neg; lia); auto.
  - cbn [wloop]. destruct (nleft <=? 0) eqn:E0; [apply Z.leb_le in E0 | apply Z.leb_gt in E0].
    { intros E; inversion E; subst; clear E. exists []. assert (nleft' = 0) by lia. subst.
      rewrite zlen_nil, Z.add_0_r, Z.mod_small, app_nil_r, zdrop_neg by lia.
      repeat split; try lia; try reflexivity; try (symmetry; apply ztake_neg; lia); auto. }
    set (n := Z.min nleft (S - i)).
    assert (Hn' : 0 < n /\ n <= nleft /\ n <= S - i) by (unfold n; lia).
    destruct (getf src n) as [[m bytes] src1] eqn:Eg.
    assert (Hn1 : 0 < n) by lia. assert (Hn2 : n <= nleft) by lia.
    destruct (getf_spec src n nleft m bytes src1 Hn1 Hn2 Hok Eg) as (G1 & G2 & G3 & G4 & G5 & G6).
    destruct (0 <? m) eqn:Em; [apply Z.ltb_lt in Em | apply Z.ltb_ge in Em].
    + rewrite Z.max_r in G2, G4 by lia.
      assert (SR : rot ((i + m) mod S) (splice data i bytes) = zdrop m (rot i data ++ bytes)).
      { rewrite <- G2. subst S. apply splice_rot; lia. }
      assert (LS' : zlen (splice data i bytes) = S) by (rewrite zlen_splice; lia).
      pose proof (Z.mod_pos_bound (i + m) S ltac:(lia)) as MB.
      destruct (n =? m) eqn:Enm; [apply Z.eqb_eq in Enm | apply Z.eqb_neq in Enm].
      * intros E. apply IH in E; try lia; try assumption.
        destruct E as (w1 & W1 & W2 & W3 & W4 & W5 & W6 & W7 & W8 & W9 & W10).
        exists (bytes ++ w1). rewrite zlen_app, G2.
        split; [lia|]. split; [lia|]. split; [assumption|]. split; [assumption|].
        split. { rewrite W5. rewrite Zplus_mod_idemp_l. f_equal. lia. }
        split.
        { rewrite W6, SR. pose proof (zlen_nonneg w1).
          rewrite <- (zdrop_app_l m (rot i data ++ bytes) w1) by (rewrite zlen_app, zlen_rot; lia).
          rewrite zdrop_zdrop by lia. rewrite <- app_assoc. f_equal. lia. }
        split. { rewrite G3, W7, app_assoc. reflexivity. }
        split; [intros; lia|].
        split; [|intros Hfd; apply W10, G6, Hfd].
        intros bs Hs. destruct (G5 bs Hs) as (Gm & Gb & Gs). destruct (W9 _ Gs) as (W91 & W92).
        split; [assumption|]. rewrite W92, Gb. rewrite <- Enm.
        rewrite <- ztake_split by lia. f_equal. lia.
      * intros E; inversion E; subst data' i' nleft' src' m'; clear E. exists bytes. rewrite G2.
        split; [lia|]. split; [lia|]. split; [assumption|]. split; [assumption|].
        split; [reflexivity|]. split; [assumption|]. split; [assumption|].
        split; [intros; lia|]. split; [|exact G6].
        intros bs Hs. destruct (G5 bs Hs). lia.
    + rewrite Z.max_l in G2, G4 by lia. apply zlen_0_nil in G2. subst bytes.
      intros E; inversion E; subst; clear E. exists [].
      rewrite zlen_nil, Z.add_0_r, Z.mod_small, app_nil_r, zdrop_neg by lia.
      split; [lia|]. split; [lia|]. split; [reflexivity|]. split; [lia|].
      split; [reflexivity|]. split; [reflexivity|]. split; [assumption|].
      split; [intros; lia|]. split; [|exact G6].
      intros bs Hs. destruct (G5 bs Hs). lia.
Qed.

(* ---- the metadata update ---- *)
Lemma commit_spec cb n i_dst data' w :
  Inv cb -> 0 < n -> zlen w = n ->
  zlen data' = cb_size cb + 1 -> 0 <= i_dst < cb_size cb + 1 ->
  i_dst = (cb_i_in cb + n) mod (cb_size cb + 1) ->
  rot i_dst data' = zdrop n (rot (cb_i_in cb) (cb_data cb) ++ w) ->
  let cb' := writer_commit cb (cb_size cb - cb_used cb) n i_dst data' in
  Inv cb' /\ abs cb' = fifo_write (cb_size cb) (abs cb) w
  /\ cb_used cb' = Z.min (cb_used cb + n) (cb_size cb)
  /\ cb_size cb' = cb_size cb /\ cb_maxsize cb' = cb_maxsize cb /\ cb_minsize cb' = cb_minsize cb
  /\ cb_overwrite cb' = cb_overwrite cb.
Proof.
  intros H Hn Lw Ld Hi Ei Hrot. pose proof (zlen_abs _ H) as LA.
  pose proof (Inv_valid _ H) as V. unfold valid_prop in V. cbv zeta in V.
  destruct H as (_ & Ldata & Halloc).
  set (S := cb_size cb + 1) in *.
  assert (Iin : (cb_i_out cb + cb_used cb) mod S = cb_i_in cb) by (subst S; mod_split; lia).
  cbv zeta. unfold writer_commit. fold S.
  set (nrepl := (cb_i_out cb - cb_i_rep cb + S) mod S).
  assert (Hnrepl : 0 <= nrepl < S) by (apply Z.mod_pos_bound; subst S; lia).
  set (nfree := cb_size cb - cb_used cb).
  set (wrap := nfree - nrepl <? n).
  set (i_rep' := if wrap then (i_dst + 1) mod S else cb_i_rep cb).
  set (i_out' := if nfree <? n then i_rep' else cb_i_out cb).
  set (used' := Z.min (cb_used cb + n) (cb_size cb)).
  proj_simpl.
  (* arithmetic of the new indices *)
  assert (A1 : 0 <= i_out' < S /\ 0 <= used' < S /\ (i_out' + used') mod S = i_dst).
  { subst i_out' i_rep' used' wrap nfree nrepl S.
    destruct (cb_size cb - cb_used cb <? n) eqn:Eo; [apply Z.ltb_lt in Eo | apply Z.ltb_ge in Eo].
    - replace (cb_size cb - cb_used cb - (cb_i_out cb - cb_i_rep cb + (cb_size cb + 1)) mod (cb_size cb + 1) <? n) with true
        by (symmetry; apply Z.ltb_lt; lia).
      clear Ei Hrot. mod_split; lia.
    - mod_split; lia. }
  destruct A1 as (A1 & A2 & A3).
  split.
  { apply Inv_intro; proj_simpl; [|assumption|assumption].
    unfold valid_prop. proj_simpl. cbv zeta. fold S.
    subst i_out' i_rep' used' wrap nfree nrepl.
    destruct (cb_size cb - cb_used cb <? n) eqn:Eo; [apply Z.ltb_lt in Eo | apply Z.ltb_ge in Eo].
    - replace (cb_size cb - cb_used cb - (cb_i_out cb - cb_i_rep cb + S) mod S <? n) with true
        by (symmetry; apply Z.ltb_lt; lia).
      clear Ei Hrot A3 Iin. subst S. mod_split; intuition lia.
    - destruct (cb_size cb - cb_used cb - (cb_i_out cb - cb_i_rep cb + S) mod S <? n) eqn:Ew;
        [apply Z.ltb_lt in Ew | apply Z.ltb_ge in Ew]; clear Hrot A3; subst S; mod_split; intuition lia. }
  split.
  { unfold abs. proj_simpl. fold (rot i_out' data'). fold (rot (cb_i_out cb) (cb_data cb)).
    assert (Ld' : zlen data' = S) by assumption.
    rewrite (abs_window data' i_out' used') by (rewrite Ld'; lia). rewrite Ld', A3, Hrot.
    set (R := rot (cb_i_in cb) (cb_data cb)).
    assert (LR : zlen R = S) by (unfold R; rewrite zlen_rot; assumption).
    assert (EA : ztake (cb_used cb) (rot (cb_i_out cb) (cb_data cb)) = zdrop (S - cb_used cb) R).
    { unfold R. rewrite (abs_window (cb_data cb) (cb_i_out cb) (cb_used cb)) by (rewrite Ldata; lia).
      rewrite Ldata, Iin. reflexivity. }
    rewrite EA.
    unfold fifo_write, qlast. change qskip with (@zdrop byte). change qlen with (@zlen byte).
    rewrite zdrop_zdrop by lia.
    rewrite <- (ztake_zdrop (S - cb_used cb) R) at 1. rewrite <- app_assoc.
    assert (LF : zlen (ztake (S - cb_used cb) R) = S - cb_used cb) by (rewrite zlen_ztake; lia).
    assert (LD : zlen (zdrop (S - cb_used cb) R) = cb_used cb) by (rewrite zlen_zdrop; lia).
    rewrite zdrop_app_r by (subst used'; lia). rewrite LF, zlen_app, LD, Lw.
    subst used'. destruct (Z_le_gt_dec (cb_used cb + n) (cb_size cb)).
    - rewrite Z.min_l by lia. rewrite (zdrop_neg (cb_used cb + n - cb_size cb)) by lia.
      rewrite zdrop_neg by (subst S; lia). reflexivity.
    - rewrite Z.min_r by lia. f_equal. subst S. lia. }
  repeat split; reflexivity.
Qed.

(* ---- spec-side facts ---- *)
Lemma fifo_write_fits cap (q w : list byte) : zlen q + zlen w <= cap -> fifo_write cap q w = q ++ w.
Proof.
  intros. unfold fifo_write, qlast. change qskip with (@zdrop byte). change qlen with (@zlen byte).
  apply zdrop_neg. rewrite zlen_app. lia.
Qed.

Lemma fifo_write_nil cap (q : list byte) : zlen q <= cap -> fifo_write cap q [] = q.
Proof. intros. rewrite fifo_write_fits by (rewrite zlen_nil; lia). apply app_nil_r. Qed.

Lemma fifo_dropped_nil cap (q : list byte) : zlen q <= cap -> fifo_dropped cap q [] = 0.
Proof. intros. unfold fifo_dropped, qlen, zlen in *. cbn [length]. lia. Qed.

(* ---- grow if needed ---- *)
Lemma prep_spec cb len cb1 nfree : Inv cb -> 0 < len -> writer_prep cb len = (cb1, nfree) ->
  Inv cb1 /\ abs cb1 = abs cb /\ cb_used cb1 = cb_used cb /\ cb_maxsize cb1 = cb_maxsize cb
  /\ cb_minsize cb1 = cb_minsize cb /\ cb_overwrite cb1 = cb_overwrite cb
  /\ nfree = cb_size cb1 - cb_used cb1 /\ (len <= nfree \/ cb_size cb1 = cb_maxsize cb1).
Proof.
  intros H Hl. pose proof (Inv_valid _ H) as V. unfold valid_prop in V. cbv zeta in V.
  unfold writer_prep.
  destruct ((cb_size cb - cb_used cb <? len) && (cb_size cb <? cb_maxsize cb)) eqn:E.
  - apply andb_true_iff in E. destruct E as (E1 & E2). apply Z.ltb_lt in E1, E2.
    destruct (grow cb (len - (cb_size cb - cb_used cb))) as [cb' g] eqn:Eg.
    intros E; inversion E; subst; clear E.
    apply grow_spec in Eg; [|assumption|lia|lia].
    destruct Eg as (G1 & G2 & G3 & G4 & G5 & G6 & G7 & G8 & G9).
    split; [assumption|]. repeat split; try assumption; try lia.
  - intros E'; inversion E'; subst; clear E'.
    apply andb_false_iff in E. split; [assumption|]. repeat split; try reflexivity.
    destruct E as [E|E]; apply Z.ltb_ge in E; lia.
Qed.

(* ---- cbuf_writer ---- *)
Lemma writer_spec cb len src cb' ret d src' : Inv cb -> 0 < len -> src_ok src len ->
  writer cb len src = (cb', ret, d, src') ->
  exists w, Inv cb' /\ src_bytes src = w ++ src_bytes src'
    /\ abs cb' = fifo_write (cb_maxsize cb) (abs cb) w
    /\ d = fifo_dropped (cb_maxsize cb) (abs cb) w
    /\ (0 < zlen w -> ret = zlen w) /\ (zlen w = 0 -> ret <= 0) /\ zlen w <= len
    /\ cb_maxsize cb' = cb_maxsize cb /\ cb_minsize cb' = cb_minsize cb /\ cb_overwrite cb' = cb_overwrite cb
    /\ (forall bs, src = SrcMem bs -> cb_overwrite cb = WRAP_MANY -> w = ztake len bs /\ ret = len)
    /\ (is_fd src -> is_fd src').
Proof.
  intros H Hl Hok. unfold writer.
  destruct (writer_prep cb len) as [cb1 nfree] eqn:Ep.
  apply prep_spec in Ep; [|assumption|assumption].
  destruct Ep as (I1 & A1 & U1 & M1 & N1 & O1 & F1 & C1).
  pose proof (Inv_valid _ I1) as V. unfold valid_prop in V. cbv zeta in V.
  pose proof (zlen_abs _ I1) as LA. rewrite A1 in LA.
  assert (D0 : fifo_dropped (cb_maxsize cb) (abs cb) [] = 0).
  { apply fifo_dropped_nil. lia. }
  destruct (writer_len cb1 len) as [len'|] eqn:El.
  2:{ intros E; inversion E; subst; clear E. exists [].
      split; [assumption|]. split; [reflexivity|].
      split; [rewrite fifo_write_nil by lia; assumption|].
      split; [symmetry; exact D0|]. change (zlen (@nil byte)) with 0.
      split; [lia|]. split; [lia|]. split; [lia|]. split; [assumption|]. split; [assumption|]. split; [assumption|].
      split; [|auto].
      intros bs _ Hw. unfold writer_len in El. rewrite O1, Hw in El. discriminate. }
  assert (Hl' : 0 < len' <= len /\ (cb_overwrite cb = WRAP_MANY -> len' = len)).
  { unfold writer_len in El. rewrite O1 in El. destruct (cb_overwrite cb).
    - destruct (Z.min len (cb_size cb1 - cb_used cb1) =? 0) eqn:E0; [discriminate|]. apply Z.eqb_neq in E0.
      inversion El; subst. split; [lia|discriminate].
    - inversion El; subst. split; [lia|discriminate].
    - inversion El; subst. split; [lia|reflexivity]. }
  destruct Hl' as (Hl' & Hmany).
  destruct (wloop (Z.to_nat len') (cb_size cb1 + 1) (cb_data cb1) (cb_i_in cb1) len' src 0)
    as [[[[data' i_dst] nleft'] src1] m] eqn:Ew.
  assert (Hok' : src_ok src len') by (destruct src; cbn [src_ok] in *; lia).
  destruct I1 as (Iv & Ldata1 & Halloc1).
  apply wloop_gen in Ew; try lia; try assumption.
  destruct Ew as (w & W1 & W2 & W3 & W4 & W5 & W6 & W7 & W8 & W9 & W10).
  assert (I1 : Inv cb1) by (split; [assumption|split; assumption]).
  destruct (len' - nleft' =? 0) eqn:En; [apply Z.eqb_eq in En | apply Z.eqb_neq in En].
  - intros E; inversion E; subst; clear E. assert (w = []) by (apply zlen_0_nil; lia). subst w.
    exists []. split; [assumption|]. split; [assumption|].
    split; [rewrite fifo_write_nil by lia; assumption|].
    split; [symmetry; exact D0|]. change (zlen (@nil byte)) with 0.
    split; [lia|]. split; [intros _; apply W8; lia|]. split; [lia|].
    split; [assumption|]. split; [assumption|]. split; [assumption|]. split; [|exact W10].
    intros bs Hs Hw. destruct (W9 bs Hs) as (W91 & _). lia.
  - intros E; inversion E; subst cb' ret d src' nfree; clear E. exists w.
    assert (Hpos : 0 < len' - nleft') by lia.
    rewrite W1 in W5, W6.
    pose proof (commit_spec cb1 (len' - nleft') i_dst data' w I1 Hpos W1 W3 W4 W5 W6) as C.
    cbv zeta in C. destruct C as (K1 & K2 & K3 & K4 & K5 & K6 & K7).
    split; [assumption|]. split; [assumption|].
    assert (FW : fifo_write (cb_size cb1) (abs cb) w = fifo_write (cb_maxsize cb) (abs cb) w
                 /\ Z.max 0 (len' - nleft' - (cb_size cb1 - cb_used cb1)) = fifo_dropped (cb_maxsize cb) (abs cb) w).
    { unfold fifo_dropped. change qlen with (@zlen byte). rewrite LA, W1.
      destruct C1 as [C1|C1].
      - rewrite !fifo_write_fits by lia. split; [reflexivity|lia].
      - rewrite C1, M1. split; [reflexivity|lia]. }
    destruct FW as (FW1 & FW2).
    split; [rewrite K2, A1; exact FW1|].
    split; [exact FW2|].
    split; [intros; lia|]. split; [intros; lia|]. split; [lia|].
    split; [lia|]. split; [lia|]. split; [congruence|]. split; [|exact W10].
    intros bs Hs Hw. destruct (W9 bs Hs) as (W91 & W92). specialize (Hmany Hw). subst len'.
    split; [assumption|lia].
Qed.

(* ---- cbuf_write (powerman's only overwrite mode is the default, CBUF_WRAP_MANY) ---- *)
Lemma write_spec cb bs cb' n d : Inv cb -> cb_overwrite cb = WRAP_MANY -> write cb bs = (cb', n, d) ->
  Inv cb' /\ n = zlen bs /\ abs cb' = fifo_write (cb_maxsize cb) (abs cb) bs
  /\ d = fifo_dropped (cb_maxsize cb) (abs cb) bs
  /\ cb_maxsize cb' = cb_maxsize cb /\ cb_overwrite cb' = WRAP_MANY.
Proof.
  intros H Hw. unfold write. pose proof (zlen_abs _ H) as LA.
  pose proof (Inv_valid _ H) as V. unfold valid_prop in V. cbv zeta in V.
  destruct (zlen bs =? 0) eqn:E0; [apply Z.eqb_eq in E0 | apply Z.eqb_neq in E0].
  - intros E; inversion E; subst; clear E. apply zlen_0_nil in E0. subst bs.
    split; [assumption|]. split; [reflexivity|]. split; [rewrite fifo_write_nil by lia; reflexivity|].
    split; [|split; [reflexivity|assumption]].
    symmetry. apply fifo_dropped_nil. lia.
  - destruct (writer cb (zlen bs) (SrcMem bs)) as [[[cb1 n1] d1] s1] eqn:Ew. intros E; inversion E; subst; clear E.
    pose proof (zlen_nonneg bs).
    apply writer_spec in Ew; [|assumption|lia|cbn; lia].
    destruct Ew as (w & W1 & W2 & W3 & W4 & W5 & W6 & W7 & W8 & W9 & W10 & W11 & _).
    destruct (W11 bs eq_refl Hw) as (Ww & Wn). rewrite ztake_all in Ww by lia. subst w.
    split; [assumption|]. split; [assumption|]. split; [assumption|]. split; [assumption|].
    split; [assumption|congruence].
Qed.

(* ---- cbuf_write_from_fd: the buffer receives exactly the bytes taken from the descriptor, in order ---- *)
Lemma write_from_fd_spec cb fd len cb' ret d fd' : Inv cb -> write_from_fd cb fd len = (cb', ret, d, fd') ->
  exists w, Inv cb' /\ fd_bytes fd = w ++ fd_bytes fd'
    /\ abs cb' = fifo_write (cb_maxsize cb) (abs cb) w
    /\ d = fifo_dropped (cb_maxsize cb) (abs cb) w
    /\ (0 < zlen w -> ret = zlen w) /\ (zlen w = 0 -> ret <= 0)
    /\ cb_maxsize cb' = cb_maxsize cb /\ cb_overwrite cb' = cb_overwrite cb.
Proof.
  intros H. unfold write_from_fd. pose proof (zlen_abs _ H) as LA.
  pose proof (Inv_valid _ H) as V. unfold valid_prop in V. cbv zeta in V.
  assert (Z0 : forall r, r <= 0 -> exists w, Inv cb /\ fd_bytes fd = w ++ fd_bytes fd
    /\ abs cb = fifo_write (cb_maxsize cb) (abs cb) w /\ 0 = fifo_dropped (cb_maxsize cb) (abs cb) w
    /\ (0 < zlen w -> r = zlen w) /\ (zlen w = 0 -> r <= 0)
    /\ cb_maxsize cb = cb_maxsize cb /\ cb_overwrite cb = cb_overwrite cb).
  { intros r Hr. exists []. split; [assumption|]. split; [reflexivity|].
    split; [rewrite fifo_write_nil by lia; reflexivity|].
    split; [symmetry; apply fifo_dropped_nil; lia|].
    change (zlen (@nil byte)) with 0. repeat split; lia. }
  destruct (len <? -1) eqn:E1; [apply Z.ltb_lt in E1 | apply Z.ltb_ge in E1].
  { intros E; inversion E; subst; clear E. apply Z0. lia. }
  set (l := if len =? -1 then (if cb_size cb - cb_used cb =? 0 then CBUF_CHUNK else cb_size cb - cb_used cb) else len).
  destruct (0 <? l) eqn:E2; [apply Z.ltb_lt in E2 | apply Z.ltb_ge in E2].
  2:{ intros E; inversion E; subst; clear E. apply Z0. lia. }
  destruct (writer cb l (SrcFd fd)) as [[[cb1 n1] d1] s1] eqn:Ew.
  apply writer_spec in Ew; [|assumption|lia|exact I].
  destruct Ew as (w & W1 & W2 & W3 & W4 & W5 & W6 & W7 & W8 & W9 & W10 & W11 & W12).
  destruct s1 as [bs1|fd1]; [destruct (W12 I)|].
  intros E; inversion E; subst cb' ret d fd'; clear E. exists w. cbn [src_bytes] in W2.
  split; [assumption|]. split; [assumption|]. split; [assumption|]. split; [assumption|].
  split; [assumption|]. split; [assumption|]. split; assumption.
Qed.
