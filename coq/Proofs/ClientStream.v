(* The output stream of one client (Model/Client.v driven by Model/CliWorld.v's single-client events) obeys the
   line protocol of Spec/Proto.v: shape (codes, order, prompts, one answer per line) for EVERY event list, and
   line well-formedness (no CR / LF inside a payload) under explicit cleanliness hypotheses on the names in the
   configuration, the host-list oracle and the texts handed over by the device layer.  Values captured from a
   device (arg->val) need NO hypothesis after the repair of F19. *)
From Coq Require Import List NArith ZArith Bool Lia.
From PM Require Import Base.Bytes Base.Outcome Base.Dec Gen.GenConsts Gen.GenClient Model.ScriptAst Model.Enqueue Model.Script
                       Model.Client Model.CliWorld Spec.Proto Proofs.ClientProto Proofs.ClientProofs.
Import ListNotations.
Local Open Scope N_scope.

Definition clean (t : text) : Prop := eol_free t = true.

(* ---------- classes of tokens ---------- *)
Definition info_code (c : N) : bool := documented c && is_info c.
Definition plain_term (c : N) : bool :=
  documented c && negb (is_info c) && is_terminal c && negb (N.eqb c code_busy) && negb (N.eqb c code_quit).
Definition info_tok (t : tok) : Prop := match t with TLine c _ => info_code c = true | TPrompt => False end.

Lemma render_one c p : render [TLine c p] = digits3 c ++ 32 :: p ++ [13; 10].
Proof. cbn [render flat_map render1]. apply app_nil_r. Qed.

Lemma render_flat {A} (f : A -> text) (g : A -> list tok) l :
  (forall x, f x = render (g x)) -> flat_map f l = render (flat_map g l).
Proof.
  intros H. induction l as [|x l IH]; [reflexivity|]. cbn [flat_map]. rewrite render_app, H, IH. reflexivity.
Qed.

(* ---------- the CP_* formats as token lists ---------- *)
Ltac fmt_tac := cbv [render flat_map render1 digits3]; rewrite ?app_nil_r; repeat (rewrite <- app_assoc || rewrite <- app_comm_cons); reflexivity.

Lemma fmt_version v : cprintf CP_VERSION [v] = render [TLine 1 v].
Proof. fmt_tac. Qed.
Lemma fmt_xstatus a b : cprintf CP_INFO_XSTATUS [a; b] = render [TLine 303 (a ++ bslit ": " ++ b)].
Proof. fmt_tac. Qed.
Lemma fmt_status a b c : cprintf CP_INFO_STATUS [a; b; c] =
  render [TLine 302 (bslit "on:      " ++ a); TLine 302 (bslit "off:     " ++ b); TLine 302 (bslit "unknown: " ++ c)].
Proof. fmt_tac. Qed.
Lemma fmt_nodes x : cprintf CP_INFO_NODES [x] = render [TLine 306 x].
Proof. fmt_tac. Qed.
Lemma fmt_xnodes x : cprintf CP_INFO_XNODES [x] = render [TLine 307 x].
Proof. fmt_tac. Qed.
Lemma fmt_acterror x : cprintf CP_INFO_ACTERROR [x] = render [TLine 308 x].
Proof. fmt_tac. Qed.
Lemma fmt_telemetry x : cprintf CP_INFO_TELEMETRY [x] = render [TLine 305 x].
Proof. fmt_tac. Qed.
Lemma fmt_diag x : cprintf CP_INFO_DIAG [x] = render [TLine 309 x].
Proof. fmt_tac. Qed.
Lemma fmt_nosuch x : cprintf CP_ERR_NOSUCHNODES [x] = render [TLine 209 (bslit "No such nodes: " ++ x)].
Proof. fmt_tac. Qed.
Lemma fmt_rsp_telemetry x : cprintf CP_RSP_TELEMETRY [x] = render [TLine 104 (bslit "Telemetry " ++ x)].
Proof. fmt_tac. Qed.
Lemma fmt_rsp_exprange x : cprintf CP_RSP_EXPRANGE [x] = render [TLine 105 (bslit "Hostrange expansion " ++ x)].
Proof. fmt_tac. Qed.
Lemma fmt_device n st r a sp h : cprintf CP_INFO_DEVICE [n; st; r; a; sp; h] =
  render [TLine 304 (n ++ bslit ": state=" ++ st ++ bslit " reconnects=" ++ r ++ bslit " actions=" ++ a ++ bslit " type=" ++ sp ++ bslit " hosts=" ++ h)].
Proof. fmt_tac. Qed.

(* constant lines *)
Definition payload_of (x : text) : text := match tokens x with Some [TLine _ p] => p | _ => [] end.
Definition const_line (x : text) (c : N) : Prop := x = render [TLine c (payload_of x)] /\ eol_free (payload_of x) = true.
Ltac const_tac := split; vm_compute; reflexivity.
Lemma c_toolong : const_line CP_ERR_TOOLONG 203. Proof. const_tac. Qed.
Lemma c_clibusy : const_line CP_ERR_CLIBUSY 208. Proof. const_tac. Qed.
Lemma c_unknown : const_line CP_ERR_UNKNOWN 201. Proof. const_tac. Qed.
Lemma c_quit : const_line CP_RSP_QUIT 101. Proof. const_tac. Qed.
Lemma c_unimpl : const_line CP_ERR_UNIMPL 213. Proof. const_tac. Qed.
Lemma c_com_ok : const_line CP_RSP_COM_COMPLETE 102. Proof. const_tac. Qed.
Lemma c_com_err : const_line CP_ERR_COM_COMPLETE 210. Proof. const_tac. Qed.
Lemma c_qry_ok : const_line CP_RSP_QRY_COMPLETE 103. Proof. const_tac. Qed.
Lemma c_qry_err : const_line CP_ERR_QRY_COMPLETE 211. Proof. const_tac. Qed.
Lemma c_hostlist : const_line (cprintf CP_ERR_HOSTLIST [bslit "invalid range"]) 205. Proof. const_tac. Qed.

Definition help_toks : list tok := match tokens CP_INFO_HELP with Some ts => ts | None => [] end.
Lemma c_help : CP_INFO_HELP = render help_toks /\ Forall wf_tok help_toks /\ Forall info_tok help_toks.
Proof.
  split; [vm_compute; reflexivity|]. split.
  - assert (H : tokens CP_INFO_HELP = Some help_toks) by (vm_compute; reflexivity). apply tokens_sound in H. apply H.
  - unfold help_toks. vm_compute. repeat (constructor; [reflexivity|]). constructor.
Qed.

(* the codes the model uses are documented in the current header and sit in the class the recogniser expects *)
Lemma codes_info : forallb info_code [301; 302; 303; 304; 305; 306; 307; 308; 309] = true.
Proof. vm_compute. reflexivity. Qed.
Lemma codes_term : forallb plain_term [102; 103; 104; 105; 201; 203; 205; 209; 210; 211; 213] = true.
Proof. vm_compute. reflexivity. Qed.

(* ---------- small facts ---------- *)
Lemma Forall_flat_map_intro {A B} (P : B -> Prop) (g : A -> list B) l :
  (forall x, In x l -> Forall P (g x)) -> Forall P (flat_map g l).
Proof.
  intros H. induction l as [|x l IH]; [constructor|]. cbn [flat_map]. apply Forall_app. split.
  - apply H. left; reflexivity.
  - apply IH. intros y Hy. apply H. right; exact Hy.
Qed.

Lemma clean_app a b : clean a -> clean b -> clean (a ++ b).
Proof. unfold clean. intros A B. rewrite eol_free_app, A, B. reflexivity. Qed.

Lemma cut_eol_clean v : clean (cut_eol v).
Proof.
  unfold clean. induction v as [|c r IH]; [reflexivity|]. cbn [cut_eol].
  destruct (N.eqb c 13 || N.eqb c 10)%bool eqn:E; [reflexivity|].
  rewrite eol_free_cons. unfold eol_byte. rewrite E. exact IH.
Qed.

Lemma cut_eol_id v : clean v -> cut_eol v = v.
Proof.
  unfold clean. induction v as [|c r IH]; [reflexivity|]. rewrite eol_free_cons. intros H.
  apply andb_true_iff in H as [H1 H2]. cbn [cut_eol]. unfold eol_byte in H1. apply negb_true_iff in H1. rewrite H1, (IH H2). reflexivity.
Qed.

Lemma space_eol c : is_space c = false -> eol_byte c = false.
Proof.
  unfold is_space, eol_byte. intros H. apply orb_false_iff in H as [_ H].
  destruct (N.eqb_spec c 13) as [->|]; [discriminate H|]. destruct (N.eqb_spec c 10) as [->|]; [discriminate H|]. reflexivity.
Qed.

Lemma take_word_clean s : clean (take_word s).
Proof.
  unfold clean. induction s as [|c r IH]; [reflexivity|]. cbn [take_word].
  destruct (is_space c) eqn:E; [reflexivity|]. rewrite eol_free_cons, (space_eol c E). exact IH.
Qed.

Lemma scan_kw_clean fmt s w : scan_kw fmt s = Some w -> clean w.
Proof.
  unfold scan_kw. destruct (is_prefix _ s); [|discriminate].
  pose proof (take_word_clean (drop_space (skipn (length (kw_of fmt)) s))) as H.
  destruct (take_word _); [discriminate|]. intros E; inversion E; subst. exact H.
Qed.

Lemma dec_fuel_ge f : forall n, Forall (fun c => 32 <= c) (dec_fuel f n).
Proof.
  induction f as [|f IH]; intros n; cbn [dec_fuel].
  - constructor; [lia|constructor].
  - destruct (n <? 10); [constructor; [lia|constructor]|]. apply Forall_app. split; [apply IH|constructor; [lia|constructor]].
Qed.

Lemma dec_pad_clean w n : clean (dec_pad w n).
Proof.
  unfold clean, dec_pad. apply eol_free_ge. apply Forall_app. split.
  - induction (w - length (dec n))%nat as [|k IH]; cbn [repeat]; constructor; [lia|exact IH].
  - apply dec_fuel_ge.
Qed.

Lemma state_word_clean st : clean (state_word st).
Proof. unfold state_word. destruct (Z.eqb st ST_ON); [reflexivity|]. destruct (Z.eqb st ST_OFF); reflexivity. Qed.
Lemma conn_word_clean st : clean (conn_word st).
Proof. unfold conn_word. destruct (Z.eqb st DEV_CONNECTED); [reflexivity|]. destruct (Z.eqb st DEV_CONNECTING); reflexivity. Qed.

Lemma arg_find_In al n a : arg_find al n = Some a -> In a al.
Proof.
  induction al as [|x r IH]; [discriminate|]. cbn [arg_find]. destruct (text_eqb (ar_node x) n).
  - intros E; inversion E; subst. left; reflexivity.
  - intros E. right. exact (IH E).
Qed.

Lemma args_iter_In al a : In a (args_iter al) -> In a al.
Proof.
  unfold args_iter. intros H. apply in_flat_map in H as [x [_ Hx]].
  destruct (arg_find al (ar_node x)) eqn:E; [|destruct Hx]. destruct Hx as [<-|[]]. exact (arg_find_In _ _ _ E).
Qed.

Definition al_clean (al : arglist) : Prop := Forall (fun a => clean (ar_node a)) al.

Lemma args_iter_clean al : al_clean al -> Forall (fun a => clean (ar_node a)) (args_iter al).
Proof.
  intros H. apply Forall_forall. intros a Ha. apply args_iter_In in Ha.
  unfold al_clean in H. rewrite Forall_forall in H. exact (H a Ha).
Qed.

(* ---------- replies ---------- *)
(* a reply proper: informational lines, then ONE terminal line that is neither 208 nor 101 *)
Definition reply_of (t : text) (d : list tok) : Prop :=
  exists infos c p, d = infos ++ [TLine c p] /\ t = render d /\ Forall info_tok infos /\ plain_term c = true.

Lemma const_wf x c : const_line x c -> c < 1000 -> wf_tok (TLine c (payload_of x)).
Proof. intros [_ H] Hc. split; assumption. Qed.

Lemma mk_reply t1 infos x c :
  t1 = render infos -> const_line x c -> Forall info_tok infos -> plain_term c = true ->
  reply_of (t1 ++ x) (infos ++ [TLine c (payload_of x)]).
Proof.
  intros E1 [E2 _] Hi Hc. exists infos, c, (payload_of x). repeat split; auto.
  rewrite render_app, <- E1, <- E2. reflexivity.
Qed.

Lemma mk_reply0 x c : const_line x c -> plain_term c = true -> reply_of x [TLine c (payload_of x)].
Proof. intros H Hc. exact (mk_reply [] [] x c eq_refl H (Forall_nil _) Hc). Qed.

Lemma wf_snoc infos t : Forall wf_tok infos -> wf_tok t -> Forall wf_tok (infos ++ [t]).
Proof. intros A B. apply Forall_app. split; [exact A|constructor; [exact B|constructor]]. Qed.

Section S.
  Variable expand_str : text -> option (list text).
  Variable ranged_sorted : list text -> text.
  Variable ranged_plain : list text -> text.
  Variable sorted : list text -> list text.

  (* what the theorems need of the host-list services (C14's side): no service invents a CR or LF *)
  Record oracle_ok : Prop := mkOracleOk {
    o_expand : forall a l, expand_str a = Some l -> clean a -> Forall clean l;
    o_rs : forall l, Forall clean l -> clean (ranged_sorted l);
    o_rp : forall l, Forall clean l -> clean (ranged_plain l);
    o_sorted : forall l, Forall clean l -> Forall clean (sorted l)
  }.

  Definition dev_clean (d : cdev) : Prop :=
    clean (ed_name (cd_edev d)) /\ clean (cd_spec d) /\ Forall clean (dev_nodes d).
  Definition conf_clean (cf : cconf) : Prop :=
    Forall clean (cf_nodes cf) /\ Forall (fun am => Forall clean (snd am)) (cf_aliases cf) /\ Forall dev_clean (cf_devs cf).
  Definition store_clean (store : list arglist) : Prop := Forall al_clean store.

  Lemma qry_term err : const_line (if err : bool then CP_ERR_QRY_COMPLETE else CP_RSP_QRY_COMPLETE) (if err then 211 else 103).
  Proof. destruct err; [exact c_qry_err|exact c_qry_ok]. Qed.

  Lemma reply_status_toks c al err :
    exists d, reply_of (reply_status ranged_sorted c al err) d /\ (oracle_ok -> al_clean al -> Forall wf_tok d).
  Proof.
    unfold reply_status. cbv zeta.
    assert (Ht : plain_term (if err then 211 else 103) = true) by (destruct err; reflexivity).
    assert (Hlt : (if err then 211 else 103) < 1000) by (destruct err; reflexivity).
    destruct (cl_exp c).
    - eexists. split.
      + apply mk_reply; [apply render_flat; intros a; apply fmt_xstatus|apply qry_term| |exact Ht].
        apply Forall_flat_map_intro. intros a _. constructor; [reflexivity|constructor].
      + intros O A. apply wf_snoc; [|exact (const_wf _ _ (qry_term err) Hlt)].
        apply Forall_flat_map_intro. intros a Ha. constructor; [|constructor]. split; [reflexivity|].
        pose proof (args_iter_clean al A) as Q. rewrite Forall_forall in Q.
        apply clean_app; [exact (Q a Ha)|]. apply clean_app; [reflexivity|apply state_word_clean].
    - eexists. split.
      + apply mk_reply; [apply fmt_status|apply qry_term| |exact Ht].
        repeat (constructor; [reflexivity|]). constructor.
      + intros O A. apply wf_snoc; [|exact (const_wf _ _ (qry_term err) Hlt)].
        pose proof (args_iter_clean al A) as Q.
        assert (P : forall f, Forall clean (map ar_node (filter f (args_iter al)))).
        { intros f. apply Forall_forall. intros n Hn. apply in_map_iff in Hn as [a [<- Ha]]. apply filter_In in Ha as [Ha _].
          rewrite Forall_forall in Q. exact (Q a Ha). }
        repeat (constructor; [split; [reflexivity|apply clean_app; [reflexivity|apply (o_rs O); apply P]]|]). constructor.
  Qed.

  Lemma reply_nointerp_toks c al err :
    exists d, reply_of (reply_nointerp ranged_sorted c al err) d /\ (oracle_ok -> al_clean al -> Forall wf_tok d).
  Proof.
    unfold reply_nointerp. cbv zeta.
    assert (Ht : plain_term (if err then 211 else 103) = true) by (destruct err; reflexivity).
    assert (Hlt : (if err then 211 else 103) < 1000) by (destruct err; reflexivity).
    set (it := args_iter al).
    set (g1 := fun a : arg => match ar_val a with Some v => [TLine 303 (ar_node a ++ bslit ": " ++ cut_eol v)] | None => [] end).
    set (l := map ar_node (filter (fun a => match ar_val a with None => true | Some _ => false end) it)).
    set (g2 := match l with [] => [] | _ => [TLine 303 (ranged_sorted l ++ bslit ": " ++ bslit "unknown")] end).
    exists ((flat_map g1 it ++ g2) ++ [TLine (if err then 211 else 103) (payload_of (if err then CP_ERR_QRY_COMPLETE else CP_RSP_QRY_COMPLETE))]).
    split.
    - rewrite app_assoc. apply mk_reply; [|apply qry_term| |exact Ht].
      + rewrite render_app. f_equal.
        * apply render_flat. intros a. unfold g1. destruct (ar_val a); [apply fmt_xstatus|reflexivity].
        * unfold g2. destruct l; [reflexivity|apply fmt_xstatus].
      + apply Forall_app. split.
        * apply Forall_flat_map_intro. intros a _. unfold g1. destruct (ar_val a); [constructor; [reflexivity|constructor]|constructor].
        * unfold g2. destruct l; constructor; [reflexivity|constructor].
    - intros O A. apply wf_snoc; [|exact (const_wf _ _ (qry_term err) Hlt)].
      pose proof (args_iter_clean al A) as Q. fold it in Q.
      apply Forall_app. split.
      + apply Forall_flat_map_intro. intros a Ha. unfold g1. destruct (ar_val a); [|constructor].
        constructor; [|constructor]. split; [reflexivity|]. rewrite Forall_forall in Q.
        apply clean_app; [exact (Q a Ha)|]. apply clean_app; [reflexivity|apply cut_eol_clean].
      + assert (P : Forall clean l).
        { apply Forall_forall. intros n Hn. apply in_map_iff in Hn as [a [<- Ha]]. apply filter_In in Ha as [Ha _].
          rewrite Forall_forall in Q. exact (Q a Ha). }
        unfold g2. destruct l as [|x l'] eqn:El; [constructor|]. rewrite <- El in *.
        constructor; [|constructor]. split; [reflexivity|]. apply clean_app; [apply (o_rs O); exact P|reflexivity].
  Qed.

  Lemma reply_power_toks al err :
    exists d, reply_of (reply_power al err) d /\ Forall wf_tok d.
  Proof.
    unfold reply_power. destruct (err || _)%bool.
    - eexists. split; [apply (mk_reply0 _ _ c_com_err); reflexivity|]. constructor; [apply (const_wf _ _ c_com_err); reflexivity|constructor].
    - eexists. split; [apply (mk_reply0 _ _ c_com_ok); reflexivity|]. constructor; [apply (const_wf _ _ c_com_ok); reflexivity|constructor].
  Qed.

  Lemma reply_nodes_toks cf c cf' t :
    reply_nodes ranged_plain sorted cf c = (cf', t) ->
    (exists d, reply_of t d /\ (oracle_ok -> conf_clean cf -> Forall wf_tok d))
    /\ (oracle_ok -> conf_clean cf -> conf_clean cf').
  Proof.
    unfold reply_nodes. intros E. inversion E; subst cf' t. clear E. split.
    - destruct (cl_exp c).
      + eexists. split.
        * apply mk_reply; [apply render_flat; intros n; apply fmt_xnodes|exact c_qry_ok| |reflexivity].
          apply Forall_flat_map_intro. intros n _. constructor; [reflexivity|constructor].
        * intros O [C _]. apply wf_snoc; [|apply (const_wf _ _ c_qry_ok); reflexivity].
          apply Forall_flat_map_intro. intros n Hn. constructor; [|constructor]. split; [reflexivity|].
          pose proof (o_sorted O _ C) as Q. rewrite Forall_forall in Q. exact (Q n Hn).
      + eexists. split.
        * apply mk_reply; [apply fmt_nodes|exact c_qry_ok| |reflexivity]. constructor; [reflexivity|constructor].
        * intros O [C _]. apply wf_snoc; [|apply (const_wf _ _ c_qry_ok); reflexivity].
          constructor; [|constructor]. split; [reflexivity|]. apply (o_rp O). apply (o_sorted O). exact C.
    - intros O [C [A D]]. repeat split; cbn [cf_nodes cf_aliases cf_devs]; auto. apply (o_sorted O). exact C.
  Qed.

  Lemma reply_device_toks cf arg :
    exists d, reply_of (reply_device expand_str ranged_sorted cf arg) d /\ (oracle_ok -> conf_clean cf -> Forall wf_tok d).
  Proof.
    unfold reply_device.
    set (show := fun d : cdev => match arg with
                  | None => true
                  | Some a => match expand_str a with
                              | Some t => existsb (fun n => existsb (text_eqb n) t) (dev_nodes d)
                              | None => false end
                  end).
    set (g := fun d : cdev => if show d then
               [TLine 304 (ed_name (cd_edev d) ++ bslit ": state=" ++ conn_word (cd_state d) ++ bslit " reconnects=" ++
                           dec_pad 3 (Z.to_N (if (0 <? cd_conn d)%Z then (cd_conn d - 1)%Z else 0%Z)) ++ bslit " actions=" ++
                           dec_pad 3 (Z.to_N (cd_acts d)) ++ bslit " type=" ++ cd_spec d ++ bslit " hosts=" ++ ranged_sorted (dev_nodes d))]
               else []).
    exists (flat_map g (cf_devs cf) ++ [TLine 103 (payload_of CP_RSP_QRY_COMPLETE)]). split.
    - apply mk_reply; [|exact c_qry_ok| |reflexivity].
      + apply render_flat. intros d. unfold g, show. destruct arg as [a|].
        * destruct (expand_str a); [|reflexivity]. destruct (existsb _ (dev_nodes d)); [apply fmt_device|reflexivity].
        * apply fmt_device.
      + apply Forall_flat_map_intro. intros d _. unfold g. destruct (show d); [constructor; [reflexivity|constructor]|constructor].
    - intros O [_ [_ D]]. apply wf_snoc; [|apply (const_wf _ _ c_qry_ok); reflexivity].
      apply Forall_flat_map_intro. intros d Hd. unfold g. destruct (show d); [|constructor].
      rewrite Forall_forall in D. destruct (D d Hd) as [D1 [D2 D3]].
      constructor; [|constructor]. split; [reflexivity|].
      repeat (apply clean_app; [first [assumption|reflexivity|apply conn_word_clean|apply dec_pad_clean]|]).
      apply (o_rs O). exact D3.
  Qed.
End S.

(* ---------- the recogniser on replies ---------- *)
Definition open (q : bool) (st : pstate) : Prop := st = PReady q \/ st = PIn q \/ (st = PTermQ /\ q = true).
Definition b2n (b : bool) : nat := if b then 1%nat else 0%nat.
Definition compat (c : client) (st : pstate) : Prop := open (cl_quit c) st /\ (busy c = false -> at_rest st = true).

Lemma info_not_terminal c : is_info c = true -> is_terminal c = false.
Proof.
  unfold is_info, is_terminal. assert (E : Z.to_N cp_failure_hi = 299) by reflexivity. rewrite E.
  intros H. apply andb_true_iff in H as [H _]. apply N.leb_le in H.
  destruct (c <=? 299) eqn:E2; [apply N.leb_le in E2; lia|]. apply andb_false_r.
Qed.

Lemma step_info q st c p : open q st -> info_code c = true -> step st (TLine c p) = Some (PIn q).
Proof.
  unfold info_code. intros O H. apply andb_true_iff in H as [D I].
  destruct O as [->|[->|[-> ->]]]; cbn [step]; unfold line_step; rewrite D, I; reflexivity.
Qed.

Lemma run_infos q st infos : open q st -> Forall info_tok infos ->
  exists st', run st infos = Some st' /\ open q st' /\ (infos = [] -> st' = st) /\ terminals infos = 0%nat.
Proof.
  intros O F. revert st O. induction F as [|t infos Ht _ IH]; intros st O.
  - exists st. repeat split; auto.
  - destruct t as [c p|]; [|destruct Ht]. cbn [info_tok] in Ht. cbn [run]. rewrite (step_info q st c p O Ht).
    destruct (IH (PIn q)) as [st' [R [O' [_ T]]]]; [right; left; reflexivity|].
    exists st'. repeat split; auto; [discriminate|].
    unfold terminals in *. cbn [filter is_term_tok]. unfold info_code in Ht. apply andb_true_iff in Ht as [_ I].
    rewrite (info_not_terminal c I). exact T.
Qed.

Lemma step_term q st c p : open q st -> plain_term c = true -> step st (TLine c p) = Some (if q then PTermQ else PNeedPrompt).
Proof.
  unfold plain_term. intros O H.
  apply andb_true_iff in H as [H Q]. apply andb_true_iff in H as [H B]. apply andb_true_iff in H as [H T]. apply andb_true_iff in H as [D I].
  apply negb_true_iff in Q, B, I.
  destruct O as [->|[->|[-> ->]]]; cbn [step]; unfold line_step; rewrite D, I, T, B, Q; try destruct q; reflexivity.
Qed.

Lemma plain_term_terminal c : plain_term c = true -> is_terminal c = true.
Proof. unfold plain_term. intros H. apply andb_true_iff in H as [H _]. apply andb_true_iff in H as [H _]. apply andb_true_iff in H as [_ T]. exact T. Qed.

Lemma run_reply q st t d : reply_of t d -> open q st ->
  run st d = Some (if q then PTermQ else PNeedPrompt) /\ terminals d = 1%nat.
Proof.
  intros [infos [c [p [-> [_ [F T]]]]]] O.
  destruct (run_infos q st infos O F) as [st1 [R [O1 [_ T0]]]].
  rewrite run_app, R. cbn [run]. rewrite (step_term q st1 c p O1 T). split; [reflexivity|].
  rewrite terminals_app, T0. unfold terminals. cbn [filter is_term_tok]. rewrite (plain_term_terminal c T). reflexivity.
Qed.

Lemma step_busy q st p : open q st -> exists st', step st (TLine 208 p) = Some st' /\ open q st' /\ (at_rest st = true -> at_rest st' = true).
Proof.
  intros [->|[->|[-> ->]]].
  - exists (PReady q). split; [destruct q; reflexivity|]. split; [left; reflexivity|auto].
  - exists (PIn q). split; [destruct q; reflexivity|]. split; [right; left; reflexivity|auto].
  - exists (PReady true). split; [reflexivity|]. split; [left; reflexivity|auto].
Qed.

Lemma step_quit q st p : open q st -> step st (TLine 101 p) = Some (PReady true).
Proof. intros [->|[->|[-> ->]]]; try destruct q; reflexivity. Qed.

(* ---------- the model, line by line ---------- *)
Definition valid_com (com : Z) : bool := existsb (Z.eqb com) (power_coms ++ query_coms).
Definition cmd_inv (c : client) : Prop :=
  match cl_cmd c with Some k => (0 < k_pending k)%Z /\ valid_com (k_com k) = true | None => True end.
Definition arg_clean (a : option text) : Prop := match a with Some x => clean x | None => True end.

Lemma classify_valid s com a : classify s = RCommand com a -> valid_com com = true /\ arg_clean a.
Proof.
  unfold classify.
  repeat match goal with
  | |- (if ?b then _ else _) = _ -> _ =>
      destruct b; [first [discriminate | (let H := fresh in intros H; inversion H; subst; split; [reflexivity|exact I])]|]
  | |- match scan_kw ?f ?x with _ => _ end = _ -> _ =>
      let E := fresh "E" in destruct (scan_kw f x) eqn:E;
      [let H := fresh in intros H; inversion H; subst; split; [reflexivity|exact (scan_kw_clean _ _ _ E)]|]
  end.
  destruct (scan_kw CP_DEVICE s); [discriminate|]. destruct (ci_prefix CP_DEVICE_ALL s); discriminate.
Qed.

Lemma mk_reply1 t c p : t = render [TLine c p] -> plain_term c = true -> reply_of t [TLine c p].
Proof. intros E T. exists [], c, p. repeat split; auto. Qed.

Lemma nth_al_clean store i : Forall al_clean store -> al_clean (nth i store []).
Proof.
  intros H. destruct (nth_in_or_default i store []) as [Hi|E].
  - rewrite Forall_forall in H. exact (H _ Hi).
  - rewrite E. constructor.
Qed.

Section S2.
  Variable expand_str : text -> option (list text).
  Variable ranged_sorted : list text -> text.
  Variable ranged_plain : list text -> text.
  Variable sorted : list text -> list text.
  Notation oracle := (oracle_ok expand_str ranged_sorted ranged_plain sorted).
  Notation parse := (parse_input expand_str ranged_sorted ranged_plain sorted).
  Notation finish := (act_finish ranged_sorted).

  Lemma final_reply_ok c k al : valid_com (k_com k) = true ->
    exists t d, final_reply ranged_sorted c k al = Ok t /\ reply_of t d /\ (oracle -> al_clean al -> Forall wf_tok d).
  Proof.
    intros V. unfold final_reply. cbv zeta.
    destruct (Z.eqb (k_com k) PM_STATUS_PLUGS || Z.eqb (k_com k) PM_STATUS_BEACON)%bool eqn:E1.
    { destruct (reply_status_toks expand_str ranged_sorted ranged_plain sorted c al (k_error k)) as [d [R W]]. eauto. }
    destruct (Z.eqb (k_com k) PM_STATUS_TEMP) eqn:E2.
    { destruct (reply_nointerp_toks expand_str ranged_sorted ranged_plain sorted c al (k_error k)) as [d [R W]]. eauto. }
    destruct (existsb (Z.eqb (k_com k)) power_coms) eqn:E3.
    { destruct (reply_power_toks al (k_error k)) as [d [R W]]. eauto. }
    exfalso. unfold valid_com in V. rewrite existsb_app, E3 in V. apply orb_false_iff in E1 as [A B].
    unfold query_coms in V. cbn [existsb orb] in V. rewrite A, E2, B in V. discriminate.
  Qed.

  Lemma is_alias_clean cf n m : conf_clean cf -> is_alias cf n = Some m -> Forall clean m.
  Proof.
    intros [_ [A _]]. unfold is_alias. induction (cf_aliases cf) as [|[a m'] r IH]; [discriminate|].
    inversion A as [|? ? A1 A2]; subst. destruct (text_eqb a n).
    - intros E; inversion E; subst. exact A1.
    - exact (IH A2).
  Qed.

  Lemma exp_aliases_clean cf names : conf_clean cf -> Forall clean names -> Forall clean (exp_aliases cf names).
  Proof.
    intros C N. unfold exp_aliases. apply Forall_app. split.
    - apply Forall_forall. intros n Hn. apply filter_In in Hn as [Hn _]. rewrite Forall_forall in N. exact (N n Hn).
    - apply Forall_flat_map_intro. intros n _. destruct (is_alias cf n) eqn:E; [exact (is_alias_clean cf n _ C E)|constructor].
  Qed.

  Lemma new_arglist_clean tg : Forall clean tg -> al_clean (new_arglist tg).
  Proof. intros H. unfold al_clean, new_arglist. apply Forall_map. exact H. Qed.

  Lemma create_command_toks cf n com arg :
    match create_command expand_str ranged_plain cf n com arg with
    | CRefused t => exists d, reply_of t d /\ (oracle -> conf_clean cf -> arg_clean arg -> Forall wf_tok d)
    | CQueued k al q => oracle -> conf_clean cf -> arg_clean arg -> al_clean al
    end.
  Proof.
    unfold create_command.
    assert (U : exists d, reply_of CP_ERR_UNIMPL d /\ (oracle -> conf_clean cf -> arg_clean arg -> Forall wf_tok d)).
    { eexists. split; [apply (mk_reply0 _ _ c_unimpl); reflexivity|]. intros _ _ _. constructor; [apply (const_wf _ _ c_unimpl); reflexivity|constructor]. }
    destruct arg as [a|].
    - destruct (expand_str a) as [names|] eqn:Ee.
      + destruct (filter (fun n0 => negb (node_exists cf n0)) (exp_aliases cf names)) as [|b0 bad] eqn:Eb.
        * destruct (check_actions _ com (exp_aliases cf names)); cbn [negb]; [|exact U].
          destruct (Nat.eqb (total _) 0); [exact U|].
          intros O C A. apply new_arglist_clean. apply exp_aliases_clean; [exact C|]. exact (o_expand _ _ _ _ O a names Ee A).
        * eexists. split; [apply mk_reply1; [apply fmt_nosuch|reflexivity]|].
          intros O C A. constructor; [|constructor]. split; [reflexivity|]. apply clean_app; [reflexivity|]. apply (o_rp _ _ _ _ O).
          rewrite <- Eb. apply Forall_forall. intros x Hx. apply filter_In in Hx as [Hx _].
          pose proof (exp_aliases_clean cf names C (o_expand _ _ _ _ O a names Ee A)) as Q. rewrite Forall_forall in Q. exact (Q x Hx).
      + eexists. split; [apply (mk_reply0 _ _ c_hostlist); reflexivity|].
        intros _ _ _. constructor; [apply (const_wf _ _ c_hostlist); reflexivity|constructor].
    - destruct (check_actions _ com (cf_nodes cf)); cbn [negb]; [|exact U].
      destruct (Nat.eqb (total _) 0); [exact U|].
      intros O [C _] _. apply new_arglist_clean. exact C.
  Qed.

  (* an immediate answer: reply, then the prompt unless the client has quit *)
  Lemma answered c c1 t d :
    cl_quit c1 = cl_quit c -> cl_cmd c1 = cl_cmd c -> cl_out c1 = cl_out c -> reply_of t d ->
    let c' := if cl_quit (emit t c1) then emit t c1 else emit CP_PROMPT (emit t c1) in
    let d' := d ++ (if cl_quit c then [] else [TPrompt]) in
    cl_out c' = cl_out c ++ render d'
    /\ (forall st, compat c st -> exists st', run st d' = Some st' /\ compat c' st')
    /\ terminals d' = 1%nat /\ cl_cmd c' = cl_cmd c.
  Proof.
    intros Q K Ou R. cbv zeta. cbn [emit cl_quit]. rewrite Q.
    assert (Et : t = render d) by (destruct R as [? [? [? [_ [E _]]]]]; exact E).
    destruct (cl_quit c) eqn:Eq.
    - rewrite app_nil_r. cbn [emit cl_out cl_cmd]. rewrite Ou, K, Et. repeat split; auto.
      + intros st [O _]. rewrite Eq in O. destruct (run_reply true st (render d) d) as [Rn _]; [rewrite <- Et; exact R|exact O|].
        exists PTermQ. split; [exact Rn|]. unfold compat. cbn [emit cl_quit busy cl_cmd]. rewrite Q.
        split; [right; right; auto|reflexivity].
      + apply (run_reply true (PReady true) t d R). left; reflexivity.
    - cbn [emit cl_out cl_cmd]. rewrite Ou, K, Et, render_app, <- app_assoc. repeat split; auto.
      + intros st [O _]. rewrite Eq in O. destruct (run_reply false st (render d) d) as [Rn _]; [rewrite <- Et; exact R|exact O|].
        exists (PReady false). rewrite run_app, Rn. split; [reflexivity|]. unfold compat. cbn [emit cl_quit busy cl_cmd]. rewrite Q.
        split; [left; reflexivity|reflexivity].
      + rewrite terminals_app. destruct (run_reply false (PReady false) t d R) as [_ T]; [left; reflexivity|]. rewrite T. reflexivity.
  Qed.

  Lemma busy_cmd c : busy c = match cl_cmd c with Some _ => true | None => false end.
  Proof. reflexivity. Qed.

  Lemma parse_input_toks cf store c line cf' store' c' q :
    parse cf store c line = (cf', store', c', q) ->
    cmd_inv c ->
    exists d, cl_out c' = cl_out c ++ render d
      /\ (forall st, compat c st -> exists st', run st d = Some st' /\ compat c' st')
      /\ (terminals d + b2n (busy c') = 1 + b2n (busy c))%nat
      /\ cmd_inv c'
      /\ (oracle -> conf_clean cf -> store_clean store -> Forall wf_tok d /\ conf_clean cf' /\ store_clean store').
  Proof.
    unfold parse_input. cbv zeta. intros E I.
    (* the shape shared by every immediate answer *)
    assert (IM : forall c1 t d cfx (W : oracle -> conf_clean cf -> store_clean store -> Forall wf_tok d /\ conf_clean cfx),
               cl_quit c1 = cl_quit c -> cl_cmd c1 = cl_cmd c -> cl_out c1 = cl_out c -> reply_of t d ->
               (cfx, store, (if cl_quit (emit t c1) then emit t c1 else emit CP_PROMPT (emit t c1)), @nil (text * list qact)) = (cf', store', c', q) ->
               exists d0, cl_out c' = cl_out c ++ render d0
                 /\ (forall st, compat c st -> exists st', run st d0 = Some st' /\ compat c' st')
                 /\ (terminals d0 + b2n (busy c') = 1 + b2n (busy c))%nat /\ cmd_inv c'
                 /\ (oracle -> conf_clean cf -> store_clean store -> Forall wf_tok d0 /\ conf_clean cf' /\ store_clean store')).
    { intros c1 t d cfx W Q K Ou R Eq.
      assert (X1 : cf' = cfx) by congruence. assert (X2 : store' = store) by congruence.
      assert (X3 : c' = (if cl_quit (emit t c1) then emit t c1 else emit CP_PROMPT (emit t c1))) by congruence.
      assert (X4 : q = []) by congruence. subst cf' store' c' q. clear Eq.
      destruct (answered c c1 t d Q K Ou R) as [A1 [A2 [A3 A4]]].
      eexists. split; [exact A1|]. split; [exact A2|]. split; [|split].
      - rewrite A3. rewrite !busy_cmd, A4. reflexivity.
      - unfold cmd_inv. rewrite A4. exact I.
      - intros O C S. destruct (W O C S) as [W1 W2]. split; [|split; [exact W2|exact S]].
        apply Forall_app. split; [exact W1|]. destruct (cl_quit c); [constructor|constructor; [exact Logic.I|constructor]]. }
    assert (K0 : forall d, Forall wf_tok d -> oracle -> conf_clean cf -> store_clean store -> Forall wf_tok d /\ conf_clean cf) by (intros; split; assumption).
    assert (TL : (cf, store, (if cl_quit (emit CP_ERR_TOOLONG c) then emit CP_ERR_TOOLONG c else emit CP_PROMPT (emit CP_ERR_TOOLONG c)), @nil (text * list qact)) = (cf', store', c', q) ->
                 exists d0, cl_out c' = cl_out c ++ render d0
                 /\ (forall st, compat c st -> exists st', run st d0 = Some st' /\ compat c' st')
                 /\ (terminals d0 + b2n (busy c') = 1 + b2n (busy c))%nat /\ cmd_inv c'
                 /\ (oracle -> conf_clean cf -> store_clean store -> Forall wf_tok d0 /\ conf_clean cf' /\ store_clean store')).
    { intros Eq.
      assert (R : reply_of CP_ERR_TOOLONG [TLine 203 (payload_of CP_ERR_TOOLONG)]) by (apply (mk_reply0 _ _ c_toolong); reflexivity).
      assert (W : Forall wf_tok [TLine 203 (payload_of CP_ERR_TOOLONG)]) by (constructor; [apply (const_wf _ _ c_toolong); reflexivity|constructor]).
      exact (IM c _ _ cf (K0 _ W) eq_refl eq_refl eq_refl R Eq). }
    destruct (CP_LINEMAX <=? _)%Z; [exact (TL E)|].
    destruct (cl_cmd c) as [k|] eqn:Ek.
    { (* busy: 208, no prompt *)
      assert (X1 : cf' = cf) by congruence. assert (X2 : store' = store) by congruence.
      assert (X3 : c' = emit CP_ERR_CLIBUSY c) by congruence. assert (X4 : q = []) by congruence. subst cf' store' c' q. clear E.
      destruct c_clibusy as [Eb Pb].
      exists [TLine 208 (payload_of CP_ERR_CLIBUSY)]. cbn [emit cl_out]. rewrite <- Eb. split; [reflexivity|]. split; [|split; [|split]].
      - intros st [O A]. destruct (step_busy (cl_quit c) st (payload_of CP_ERR_CLIBUSY) O) as [st' [S1 [S2 S3]]].
        exists st'. cbn [run]. rewrite S1. split; [reflexivity|]. unfold compat, busy. cbn [emit cl_quit cl_cmd]. rewrite Ek. split; [exact S2|discriminate].
      - unfold busy. cbn [emit cl_cmd]. rewrite Ek. reflexivity.
      - unfold cmd_inv in *. cbn [emit cl_cmd]. exact I.
      - intros O C S. split; [|split; assumption]. constructor; [split; [reflexivity|exact Pb]|constructor]. }
    destruct (classify (strip (cstr line))) as [| | | | | |com a|a|] eqn:Ec.
    - exact (TL E).
    - (* help *)
      destruct c_help as [H1 [H2 H3]].
      assert (R : reply_of (CP_INFO_HELP ++ CP_RSP_QRY_COMPLETE) (help_toks ++ [TLine 103 (payload_of CP_RSP_QRY_COMPLETE)])).
      { apply (mk_reply _ help_toks _ _ H1 c_qry_ok H3). reflexivity. }
      assert (W : Forall wf_tok (help_toks ++ [TLine 103 (payload_of CP_RSP_QRY_COMPLETE)])).
      { apply wf_snoc; [exact H2|apply (const_wf _ _ c_qry_ok); reflexivity]. }
      exact (IM c _ _ cf (K0 _ W) eq_refl Ek eq_refl R E).
    - (* nodes *)
      destruct (reply_nodes ranged_plain sorted cf c) as [cfn t] eqn:En.
      destruct (reply_nodes_toks expand_str ranged_sorted ranged_plain sorted cf c cfn t En) as [[d [R W]] Wc].
      refine (IM c t d cfn _ eq_refl Ek eq_refl R E). intros O C S. split; [exact (W O C)|exact (Wc O C)].
    - (* telemetry *)
      set (c1 := mkClient (cl_id c) None (negb (cl_tele c)) (cl_exp c) (cl_quit c) (cl_out c)) in *.
      set (x := if cl_tele c1 then bslit "ON" else bslit "OFF") in *.
      assert (R : reply_of (cprintf CP_RSP_TELEMETRY [x]) [TLine 104 (bslit "Telemetry " ++ x)]) by (apply mk_reply1; [apply fmt_rsp_telemetry|reflexivity]).
      assert (W : Forall wf_tok [TLine 104 (bslit "Telemetry " ++ x)]).
      { constructor; [|constructor]. split; [reflexivity|]. unfold x. destruct (cl_tele c1); reflexivity. }
      exact (IM c1 _ _ cf (K0 _ W) eq_refl eq_refl eq_refl R E).
    - (* exprange *)
      set (c1 := mkClient (cl_id c) None (cl_tele c) (negb (cl_exp c)) (cl_quit c) (cl_out c)) in *.
      set (x := if cl_exp c1 then bslit "ON" else bslit "OFF") in *.
      assert (R : reply_of (cprintf CP_RSP_EXPRANGE [x]) [TLine 105 (bslit "Hostrange expansion " ++ x)]) by (apply mk_reply1; [apply fmt_rsp_exprange|reflexivity]).
      assert (W : Forall wf_tok [TLine 105 (bslit "Hostrange expansion " ++ x)]).
      { constructor; [|constructor]. split; [reflexivity|]. unfold x. destruct (cl_exp c1); reflexivity. }
      exact (IM c1 _ _ cf (K0 _ W) eq_refl eq_refl eq_refl R E).
    - (* quit: 101, no prompt, the flag is set *)
      set (c1 := mkClient (cl_id c) None (cl_tele c) (cl_exp c) true (cl_out c)) in *.
      assert (X1 : cf' = cf) by congruence. assert (X2 : store' = store) by congruence.
      assert (X3 : c' = emit CP_RSP_QUIT c1) by congruence. assert (X4 : q = []) by congruence. subst cf' store' c' q. clear E.
      destruct c_quit as [Eb Pb].
      exists [TLine 101 (payload_of CP_RSP_QUIT)]. cbn [emit cl_out c1]. rewrite <- Eb. split; [reflexivity|]. split; [|split; [|split]].
      + intros st [O A]. exists (PReady true). cbn [run]. rewrite (step_quit (cl_quit c) st _ O). split; [reflexivity|].
        unfold compat. cbn [emit cl_quit c1]. split; [left; reflexivity|reflexivity].
      + rewrite (busy_cmd c), Ek. reflexivity.
      + exact Logic.I.
      + intros O C S. split; [|split; assumption]. constructor; [split; [reflexivity|exact Pb]|constructor].
    - (* a device command *)
      destruct (classify_valid _ _ _ Ec) as [V A].
      pose proof (create_command_toks cf (length store) com a) as T.
      pose proof (create_command_shape expand_str ranged_plain cf (length store) com a) as Sh.
      destruct (create_command expand_str ranged_plain cf (length store) com a) as [t|k al q0].
      + destruct T as [d [R W]].
        refine (IM c t d cf _ eq_refl Ek eq_refl R E). intros O C S. split; [exact (W O C A)|exact C].
      + assert (X1 : cf' = cf) by congruence. assert (X2 : store' = store ++ [al]) by congruence.
        assert (X3 : c' = set_cmd (Some k) c) by congruence. assert (X4 : q = q0) by congruence. subst cf' store' c' q. clear E.
        destruct Sh as [S1 [S2 [S3 [S4 [S5 [S6 _]]]]]].
        exists []. cbn [set_cmd cl_out render flat_map]. rewrite app_nil_r. split; [reflexivity|]. split; [|split; [|split]].
        * intros st [O _]. exists st. split; [reflexivity|]. unfold compat. cbn [set_cmd cl_quit busy cl_cmd]. split; [exact O|discriminate].
        * rewrite (busy_cmd c), Ek. reflexivity.
        * unfold cmd_inv. cbn [set_cmd cl_cmd]. rewrite S1, S6. split; [lia|exact V].
        * intros O C S. split; [constructor|]. split; [exact C|]. apply Forall_app. split; [exact S|]. constructor; [exact (T O C A)|constructor].
    - (* device *)
      destruct (reply_device_toks expand_str ranged_sorted ranged_plain sorted cf a) as [d [R W]].
      refine (IM c _ d cf _ eq_refl Ek eq_refl R E). intros O C S. split; [exact (W O C)|exact C].
    - (* unknown *)
      assert (R : reply_of CP_ERR_UNKNOWN [TLine 201 (payload_of CP_ERR_UNKNOWN)]) by (apply (mk_reply0 _ _ c_unknown); reflexivity).
      assert (W : Forall wf_tok [TLine 201 (payload_of CP_ERR_UNKNOWN)]) by (constructor; [apply (const_wf _ _ c_unknown); reflexivity|constructor]).
      exact (IM c _ _ cf (K0 _ W) eq_refl Ek eq_refl R E).
  Qed.
End S2.

(* ---------- completions, callbacks, whole event lists ---------- *)
Definition ev_clean (e : event) : Prop :=
  match e with EComplete _ m | ETele m | EDiag m => clean m | _ => True end.

Lemma arg_update_clean al n f : (forall x, ar_node (f x) = ar_node x) -> al_clean al -> al_clean (arg_update al n f).
Proof.
  intros Hf. induction al as [|a r IH]; intros H; [constructor|]. inversion H as [|? ? H1 H2]; subst.
  cbn [arg_update]. destruct (text_eqb (ar_node a) n).
  - constructor; [rewrite Hf; exact H1|exact H2].
  - constructor; [exact H1|exact (IH H2)].
Qed.

Lemma store_set_clean store : forall i al, Forall al_clean store -> al_clean al -> Forall al_clean (store_set store i al).
Proof.
  induction store as [|x r IH]; intros i al H A; [constructor|]. inversion H as [|? ? H1 H2]; subst.
  destruct i; cbn [store_set]; constructor; auto.
Qed.

Lemma write_slot_clean store i n f : (forall x, ar_node (f x) = ar_node x) -> Forall al_clean store -> Forall al_clean (write_slot store i n f).
Proof.
  intros Hf H. unfold write_slot. apply store_set_clean; [exact H|]. apply arg_update_clean; [exact Hf|]. apply nth_al_clean. exact H.
Qed.

Section S3.
  Variable expand_str : text -> option (list text).
  Variable ranged_sorted : list text -> text.
  Variable ranged_plain : list text -> text.
  Variable sorted : list text -> list text.
  Notation oracle := (oracle_ok expand_str ranged_sorted ranged_plain sorted).
  Notation finish := (act_finish ranged_sorted).
  Notation step := (step1 expand_str ranged_sorted ranged_plain sorted).
  Notation runm := (run1 expand_str ranged_sorted ranged_plain sorted).
  Notation evs_ok := (events_ok expand_str ranged_sorted ranged_plain sorted).

  Lemma act_finish_toks c store err msg : cmd_inv c -> busy c = true ->
    exists c' d, finish c store err msg = Ok c' /\ cl_out c' = cl_out c ++ render d
      /\ (forall st, compat c st -> exists st', run st d = Some st' /\ compat c' st')
      /\ (terminals d + b2n (busy c') = b2n (busy c))%nat
      /\ cmd_inv c'
      /\ (oracle -> store_clean store -> clean msg -> Forall wf_tok d).
  Proof.
    intros I Hb. rewrite busy_cmd in Hb. unfold cmd_inv in I. rewrite busy_cmd.
    destruct (cl_cmd c) as [k|] eqn:Ek; [|discriminate]. destruct I as [Hp Hv].
    unfold act_finish. rewrite Ek. cbv zeta. cbn [k_pending k_args].
    set (c1 := if Z.eqb err ACT_ESUCCESS then c else emit (cprintf CP_INFO_ACTERROR [msg]) c).
    set (d0 := if Z.eqb err ACT_ESUCCESS then [] else [TLine 308 msg]).
    set (k1 := mkCommand (k_com k) (k_targets k) (k_pending k - 1) (k_error k || negb (Z.eqb err ACT_ESUCCESS)) (k_args k)).
    assert (F1 : cl_out c1 = cl_out c ++ render d0) by (unfold c1, d0; destruct (Z.eqb err ACT_ESUCCESS); [cbn; rewrite app_nil_r; reflexivity|cbn [emit cl_out]; rewrite fmt_acterror; reflexivity]).
    assert (F2 : cl_quit c1 = cl_quit c) by (unfold c1; destruct (Z.eqb err ACT_ESUCCESS); reflexivity).
    assert (F3 : Forall info_tok d0) by (unfold d0; destruct (Z.eqb err ACT_ESUCCESS); [constructor|constructor; [reflexivity|constructor]]).
    assert (F4 : clean msg -> Forall wf_tok d0).
    { intros Hm. unfold d0. destruct (Z.eqb err ACT_ESUCCESS); [constructor|constructor; [split; [reflexivity|exact Hm]|constructor]]. }
    destruct (Z.eqb (k_pending k - 1) 0) eqn:E0.
    - (* the last completion: the reply, then the prompt *)
      destruct (final_reply_ok expand_str ranged_sorted ranged_plain sorted c1 k1 (nth (k_args k) store []) Hv) as [t [dr [Ef [R W]]]].
      rewrite Ef. eexists. exists (d0 ++ dr ++ [TPrompt]). split; [reflexivity|].
      assert (Et : t = render dr) by (destruct R as [? [? [? [_ [E _]]]]]; exact E).
      split; [|split; [|split; [|split]]].
      + cbn [emit set_cmd cl_out]. rewrite F1, Et, !render_app, <- !app_assoc. cbn [render flat_map render1]. rewrite app_nil_r. reflexivity.
      + intros st [O _]. destruct (run_infos (cl_quit c) st d0 O F3) as [st1 [R1 [O1 _]]].
        destruct (run_reply (cl_quit c) st1 t dr R O1) as [R2 _].
        exists (PReady (cl_quit c)). rewrite run_app, R1, run_app, R2. split; [destruct (cl_quit c); reflexivity|].
        unfold compat. cbn [emit set_cmd cl_quit]. rewrite F2. split; [left; reflexivity|reflexivity].
      + destruct (run_infos (cl_quit c) (PReady (cl_quit c)) d0 (or_introl eq_refl) F3) as [_ [_ [_ [_ T0]]]].
        destruct (run_reply (cl_quit c) (PReady (cl_quit c)) t dr R (or_introl eq_refl)) as [_ T1].
        rewrite !terminals_app, T0, T1. reflexivity.
      + exact Logic.I.
      + intros O S Hm. apply Forall_app. split; [exact (F4 Hm)|]. apply Forall_app. split; [|constructor; [exact Logic.I|constructor]].
        apply (W O). apply nth_al_clean. exact S.
    - (* more completions to come *)
      apply Z.eqb_neq in E0. eexists. exists d0. split; [reflexivity|]. split; [|split; [|split; [|split]]].
      + cbn [set_cmd cl_out]. exact F1.
      + intros st [O _]. destruct (run_infos (cl_quit c) st d0 O F3) as [st1 [R1 [O1 _]]].
        exists st1. split; [exact R1|]. unfold compat. cbn [set_cmd cl_quit busy cl_cmd]. rewrite F2. split; [exact O1|discriminate].
      + destruct (run_infos (cl_quit c) (PReady (cl_quit c)) d0 (or_introl eq_refl) F3) as [_ [_ [_ [_ T0]]]]. rewrite T0. reflexivity.
      + unfold cmd_inv. cbn [set_cmd cl_cmd k1 k_pending k_com]. split; [lia|exact Hv].
      + intros _ _ Hm. exact (F4 Hm).
  Qed.

  Lemma callback_toks c code m :
    info_code code = true -> busy c = true ->
    let c' := emit (render [TLine code m]) c in
    (forall st, compat c st -> exists st', run st [TLine code m] = Some st' /\ compat c' st')
    /\ (terminals [TLine code m] + b2n (busy c') = b2n (busy c))%nat.
  Proof.
    intros Hc Hb. cbv zeta. split.
    - intros st [O _]. exists (PIn (cl_quit c)). cbn [run]. rewrite (step_info _ _ _ _ O Hc). split; [reflexivity|].
      unfold compat. cbn [emit cl_quit]. split; [right; left; reflexivity|]. unfold busy in *. cbn [emit cl_cmd]. rewrite Hb. discriminate.
    - unfold terminals. cbn [filter is_term_tok]. unfold info_code in Hc. apply andb_true_iff in Hc as [_ Hi].
      rewrite (info_not_terminal _ Hi). reflexivity.
  Qed.

  Lemma step1_toks s e : cmd_inv (s_cl s) -> event_ok s e = true ->
    exists s' d, step s e = Ok s' /\ cl_out (s_cl s') = cl_out (s_cl s) ++ render d
      /\ (forall st, compat (s_cl s) st -> exists st', run st d = Some st' /\ compat (s_cl s') st')
      /\ (terminals d + b2n (busy (s_cl s')) = b2n (is_line e) + b2n (busy (s_cl s)))%nat
      /\ cmd_inv (s_cl s')
      /\ (oracle -> conf_clean (s_cf s) -> store_clean (s_store s) -> ev_clean e ->
          Forall wf_tok d /\ conf_clean (s_cf s') /\ store_clean (s_store s')).
  Proof.
    intros I Ev. destruct e as [l|err msg|m|m|n st0 v|n r v]; cbn [step1 event_ok is_line b2n] in *.
    - destruct (parse_input expand_str ranged_sorted ranged_plain sorted (s_cf s) (s_store s) (s_cl s) l) as [[[cf' st'] c'] q] eqn:E.
      destruct (parse_input_toks _ _ _ _ _ _ _ _ _ _ _ _ E I) as [d [A1 [A2 [A3 [A4 A5]]]]].
      eexists. exists d. split; [reflexivity|]. cbn [s_cl s_cf s_store].
      split; [exact A1|]. split; [exact A2|]. split; [exact A3|]. split; [exact A4|]. intros O C S _. exact (A5 O C S).
    - destruct (act_finish_toks (s_cl s) (s_store s) err msg I Ev) as [c' [d [A0 [A1 [A2 [A3 [A4 A5]]]]]]].
      rewrite A0. eexists. exists d. split; [reflexivity|]. cbn [s_cl s_cf s_store].
      split; [exact A1|]. split; [exact A2|]. split; [exact A3|]. split; [exact A4|]. intros O C S Hm. split; [exact (A5 O S Hm)|split; assumption].
    - destruct (callback_toks (s_cl s) 305 m eq_refl Ev) as [B1 B2].
      eexists. exists [TLine 305 m]. split; [reflexivity|]. cbn [s_cl s_cf s_store]. unfold telemetry. rewrite fmt_telemetry.
      split; [reflexivity|]. split; [exact B1|]. split; [exact B2|]. split; [exact I|].
      intros _ C S Hm. split; [|split; assumption]. constructor; [split; [reflexivity|exact Hm]|constructor].
    - destruct (callback_toks (s_cl s) 309 m eq_refl Ev) as [B1 B2].
      eexists. exists [TLine 309 m]. split; [reflexivity|]. cbn [s_cl s_cf s_store]. unfold diag. rewrite fmt_diag.
      split; [reflexivity|]. split; [exact B1|]. split; [exact B2|]. split; [exact I|].
      intros _ C S Hm. split; [|split; assumption]. constructor; [split; [reflexivity|exact Hm]|constructor].
    - eexists. exists []. split; [reflexivity|]. cbn [s_cl s_cf s_store render flat_map]. rewrite app_nil_r.
      split; [reflexivity|]. split; [intros st Hc; exists st; split; [reflexivity|exact Hc]|]. split; [reflexivity|]. split; [exact I|].
      intros _ C S _. split; [constructor|]. split; [exact C|].
      destruct (cur_slot (s_cl s)); [apply write_slot_clean; [reflexivity|exact S]|exact S].
    - eexists. exists []. split; [reflexivity|]. cbn [s_cl s_cf s_store render flat_map]. rewrite app_nil_r.
      split; [reflexivity|]. split; [intros st Hc; exists st; split; [reflexivity|exact Hc]|]. split; [reflexivity|]. split; [exact I|].
      intros _ C S _. split; [constructor|]. split; [exact C|].
      destruct (cur_slot (s_cl s)); [apply write_slot_clean; [reflexivity|exact S]|exact S].
  Qed.

  Theorem stream_inv evs : forall s toks st,
    cl_out (s_cl s) = render toks -> run PStart toks = Some st -> compat (s_cl s) st -> cmd_inv (s_cl s) ->
    evs_ok s evs = true ->
    exists s' toks' st',
      runm s evs = Ok s'
      /\ cl_out (s_cl s') = render (toks ++ toks') /\ run PStart (toks ++ toks') = Some st'
      /\ compat (s_cl s') st' /\ cmd_inv (s_cl s')
      /\ (terminals toks' + b2n (busy (s_cl s')) = lines_of evs + b2n (busy (s_cl s)))%nat
      /\ (oracle -> conf_clean (s_cf s) -> store_clean (s_store s) -> Forall ev_clean evs ->
          Forall wf_tok toks' /\ conf_clean (s_cf s') /\ store_clean (s_store s')).
  Proof.
    induction evs as [|e evs IH]; intros s toks st Ho Hr Hc Hi Hev.
    - exists s, [], st. rewrite app_nil_r. split; [reflexivity|]. split; [exact Ho|]. split; [exact Hr|]. split; [exact Hc|]. split; [exact Hi|].
      split; [reflexivity|]. intros _ C S _. split; [constructor|split; assumption].
    - cbn [events_ok] in Hev. apply andb_true_iff in Hev as [Hev1 Hev2].
      destruct (step1_toks s e Hi Hev1) as [s1 [d [A0 [A1 [A2 [A3 [A4 A5]]]]]]].
      rewrite A0 in Hev2. destruct (A2 st Hc) as [st1 [R1 C1]].
      destruct (IH s1 (toks ++ d) st1) as [s' [toks' [st' [B0 [B1 [B2 [B3 [B4 [B5 B6]]]]]]]]]; auto.
      { rewrite A1, Ho, render_app. reflexivity. }
      { rewrite run_app, Hr. exact R1. }
      exists s', (d ++ toks'), st'. cbn [run1]. rewrite A0, B0. rewrite app_assoc.
      split; [reflexivity|]. split; [exact B1|]. split; [exact B2|]. split; [exact B3|]. split; [exact B4|]. split.
      + rewrite terminals_app. unfold lines_of in *. cbn [filter]. destruct (is_line e); cbn [length b2n] in *; lia.
      + intros O C S F. inversion F as [|? ? F1 F2]; subst. destruct (A5 O C S F1) as [W1 [W2 W3]]. destruct (B6 O W2 W3 F2) as [W4 [W5 W6]].
        split; [apply Forall_app; split; assumption|split; assumption].
  Qed.

  (* the whole life of one client, from the banner on *)
  Theorem client_stream cf id version evs :
    let s0 := mkCstate cf [] (new_client id version) in
    evs_ok s0 evs = true ->
    exists s' toks st,
      runm s0 evs = Ok s'
      /\ cl_out (s_cl s') = render toks /\ run PStart toks = Some st
      /\ (busy (s_cl s') = false -> at_rest st = true)
      /\ (terminals toks + b2n (busy (s_cl s')) = lines_of evs)%nat
      /\ (oracle -> conf_clean cf -> clean version -> Forall ev_clean evs ->
          Forall wf_tok toks /\ ok (cl_out (s_cl s')) = true /\ (busy (s_cl s') = false -> ok_rest (cl_out (s_cl s')) = true)).
  Proof.
    cbv zeta. intros Hev.
    destruct (stream_inv evs (mkCstate cf [] (new_client id version)) [TLine 1 version; TPrompt] (PReady false)) as [s' [toks' [st' [B0 [B1 [B2 [B3 [B4 [B5 B6]]]]]]]]].
    - unfold new_client. cbn [s_cl cl_out]. rewrite fmt_version. cbn [render flat_map render1]. rewrite !app_nil_r. reflexivity.
    - reflexivity.
    - split; [left; reflexivity|reflexivity].
    - exact Logic.I.
    - exact Hev.
    - exists s', ([TLine 1 version; TPrompt] ++ toks'), st'. destruct B3 as [B3a B3b]. repeat split; auto.
      + rewrite terminals_app. cbn [s_cl new_client busy cl_cmd b2n] in B5. unfold terminals at 1. cbn [filter is_term_tok].
        change (is_terminal 1) with false. cbn [length]. lia.
      + apply Forall_app. split; [|apply B6; auto; constructor].
        constructor; [split; [reflexivity|assumption]|constructor; [exact Logic.I|constructor]].
      + assert (W : Forall wf_tok ([TLine 1 version; TPrompt] ++ toks')).
        { apply Forall_app. split; [|apply B6; auto; constructor]. constructor; [split; [reflexivity|assumption]|constructor; [exact Logic.I|constructor]]. }
        unfold ok. rewrite B1, (tokens_render _ W), B2. reflexivity.
      + intros Hb. assert (W : Forall wf_tok ([TLine 1 version; TPrompt] ++ toks')).
        { apply Forall_app. split; [|apply B6; auto; constructor]. constructor; [split; [reflexivity|assumption]|constructor; [exact Logic.I|constructor]]. }
        unfold ok_rest. rewrite B1, (tokens_render _ W), B2. exact (B3b Hb).
  Qed.
End S3.
