(* C19: the hypothesis [ts_covers] (every plug of the table has a test-status entry) holds initially and is kept by
   every line that is not stat/on/off. *)
From Coq Require Import List NArith ZArith Bool Lia.
From PM Require Import Base.Bytes Base.Outcome Gen.GenRfp Model.Redfish Spec.RedfishSpec Model.RedfishView
  Proofs.RedfishBase Proofs.RedfishSteps Proofs.RedfishSingle Proofs.RedfishMgmt Proofs.RedfishRules.
Import ListNotations.

Lemma covers_map tab n : name_valid tab n = true -> ts_lookup (map (fun p => (p_name p, SOff)) tab) n <> None.
Proof.
  unfold name_valid, ts_lookup. induction tab as [|q r IH]; cbn [existsb map find fst]; [discriminate|].
  destruct (text_eqb (p_name q) n); cbn [orb]; [discriminate | exact IH].
Qed.

Theorem ts_covers_init hosts fail v : ts_covers (init hosts fail v) /\ at_prompt (init hosts fail v).
Proof. split; [intros n NV; apply covers_map; exact NV | repeat split]. Qed.

Lemma name_valid_remove tab h n : name_valid (tab_remove tab h) n = true -> name_valid tab n = true.
Proof.
  unfold name_valid, tab_remove. induction tab as [|q r IH]; cbn [filter existsb]; [auto|].
  destruct (negb (text_eqb (p_name q) h)); cbn [existsb]; intros H.
  - apply orb_true_iff in H as [H|H]; [now rewrite H | rewrite (IH H); now rewrite orb_true_r].
  - rewrite (IH H). now rewrite orb_true_r.
Qed.

Lemma name_valid_fold_remove hs : forall tab n, name_valid (fold_left tab_remove hs tab) n = true -> name_valid tab n = true.
Proof. induction hs as [|h r IH]; intros tab n H; cbn [fold_left] in H; [exact H|]. apply (name_valid_remove _ h). now apply IH. Qed.

Lemma name_valid_add tab p n : name_valid (tab_add tab p) n = true -> n = p_name p \/ name_valid tab n = true.
Proof.
  unfold name_valid. induction tab as [|q r IH]; cbn [tab_add existsb].
  - rewrite orb_false_r. intros H. left. symmetry. now apply text_eqb_eq.
  - destruct (text_eqb (p_name q) (p_name p)) eqn:E; cbn [existsb]; intros H; apply orb_true_iff in H as [H|H].
    + left. symmetry. now apply text_eqb_eq.
    + right. rewrite H. now rewrite orb_true_r.
    + right. now rewrite H.
    + destruct (IH H) as [->|K]; [now left | right; rewrite K; now rewrite orb_true_r].
Qed.

Lemma ts_lookup_app ts e n : ts_lookup ts n <> None -> ts_lookup (ts ++ e) n <> None.
Proof.
  unfold ts_lookup. induction ts as [|x r IH]; cbn [app find]; [contradiction|]. unfold name in *.
  destruct (text_eqb (fst x) n); [intros _; cbv iota beta; discriminate | exact IH].
Qed.

Lemma ts_insert_keeps ts p s n : ts_lookup ts n <> None -> ts_lookup (ts_insert ts p s) n <> None.
Proof. unfold ts_insert. destruct (ts_lookup ts p); [auto | apply ts_lookup_app]. Qed.

Lemma ts_insert_has ts p s : ts_lookup (ts_insert ts p s) p <> None.
Proof.
  unfold ts_insert. destruct (ts_lookup ts p) eqn:E; [congruence|].
  unfold ts_lookup in *. induction ts as [|x r IH]; cbn [app find fst] in *; unfold name in *.
  - rewrite text_eqb_refl. cbv iota beta. discriminate.
  - destruct (text_eqb (fst x) p); [discriminate | now apply IH].
Qed.

Lemma setup_plug_covers st p idx par : ts_covers st -> ts_covers (fst (setup_plug st p idx par)).
Proof.
  intros CV. unfold setup_plug. destruct (strtol10 idx) as [[v er] rest].
  destruct (er || _ || _); [exact CV|]. destruct (nth_error _ _) as [h|]; [|exact CV].
  cbn [fst]. intros n NV. cbn [s_tab s_tstat set_tstat set_tab] in *.
  destruct (name_valid_add _ _ _ NV) as [->|K]; cbn [p_name]; [apply ts_insert_has | apply ts_insert_keeps, CV, K].
Qed.

Lemma setup_plugs_same_covers ps : forall st idx par, ts_covers st -> ts_covers (setup_plugs_same st ps idx par).
Proof.
  induction ps as [|p r IH]; intros st idx par CV; cbn [setup_plugs_same]; [exact CV|].
  pose proof (setup_plug_covers st p idx par CV) as H. destruct (setup_plug st p idx par) as [st' ok]. cbn [fst] in H.
  destruct ok; [now apply IH | exact H].
Qed.

Lemma setup_plugs_pair_covers ps : forall st is par, ts_covers st -> ts_covers (setup_plugs_pair st ps is par).
Proof.
  induction ps as [|p r IH]; intros st is par CV; cbn [setup_plugs_pair]; [exact CV|]. destruct is as [|i ri]; [exact CV|].
  pose proof (setup_plug_covers st p i par CV) as H. destruct (setup_plug st p i par) as [st' ok]. cbn [fst] in H.
  destruct ok; [now apply IH | exact H].
Qed.

Lemma remove_initial_covers st : ts_covers st -> ts_covers (remove_initial_plugs st).
Proof.
  intros CV. unfold remove_initial_plugs. destruct (s_initial st); [|exact CV].
  intros n NV. cbn [s_tab s_tstat set_initial set_tab] in *. apply CV. eapply name_valid_fold_remove. exact NV.
Qed.

Lemma name_valid_update tab p f n : (forall q, p_name (f q) = p_name q) -> name_valid (tab_update tab p f) n = name_valid tab n.
Proof.
  intros HF. unfold name_valid. induction tab as [|q r IH]; cbn [tab_update existsb]; [reflexivity|].
  destruct (text_eqb (p_name q) p); cbn [existsb]; [now rewrite HF | now rewrite IH].
Qed.

Lemma setpath_go_covers ps : forall st c path, ts_covers st -> ts_covers (setpath_go st ps c path).
Proof.
  induction ps as [|p r IH]; intros st c path CV; cbn [setpath_go]; [exact CV|].
  destruct (name_valid _ _); [|exact CV]. apply IH. intros n NV. cbn [s_tab s_tstat set_tab] in *.
  rewrite name_valid_update in NV by (intros q; destruct c; reflexivity). now apply CV.
Qed.

Section WithHostlist.
Variable hlc : text -> option (list text).

Lemma setplugs_covers st av : ts_covers st -> ts_covers (setplugs hlc st av).
Proof.
  intros CV. unfold setplugs. destruct av as [|a0 [|a1 rest]]; try exact CV.
  destruct (hlc a0) as [ps|]; [|exact CV]. destruct (hlc a1) as [is|]; [|exact CV].
  pose proof (remove_initial_covers st CV) as CV1.
  destruct (Nat.eqb _ _); [now apply setup_plugs_pair_covers|].
  destruct (_ && _); [|exact CV1]. destruct is; [exact CV1 | now apply setup_plugs_same_covers].
Qed.

Lemma setpath_covers st av : ts_covers st -> ts_covers (setpath hlc st av).
Proof.
  intros CV. unfold setpath. destruct av as [|a0 [|a1 [|a2 rest]]]; try exact CV.
  destruct (cmd_of_word a1); [|exact CV]. destruct (hlc a0); [now apply setpath_go_covers | exact CV].
Qed.

Lemma help_covers l : forall st, ts_covers st -> ts_covers (fold_left (fun s x => emit s TDiag x) l st).
Proof. induction l as [|x r IH]; intros st CV; cbn [fold_left]; [exact CV | apply IH; exact CV]. Qed.

(* every line that is not stat/on/off keeps the invariant (with C19_survives_management: and returns to the prompt) *)
Theorem ts_covers_management st ln sched st' q :
  at_prompt st -> ts_covers st -> (forall w args, argv ln = w :: args -> cmd_of_word w = None) ->
  run_line hlc st ln sched = Ok (st', q) -> ts_covers st'.
Proof.
  intros AP CV NP RL. unfold run_line in RL.
  set (st0 := set_log (set_out st []) []) in *.
  assert (CV0 : ts_covers st0) by exact CV.
  assert (AP0 : at_prompt st0) by exact AP.
  pose proof (process_cmd_mgmt_lists hlc st0 (argv ln) NP) as LS.
  assert (CV1 : ts_covers (fst (process_cmd hlc st0 (argv ln)))).
  { unfold process_cmd. destruct (argv ln) as [|w args] eqn:AV; [exact CV0|]. rewrite (NP w args eq_refl).
    destruct (text_eqb w _); [cbn [fst]; now apply help_covers|].
    destruct (text_eqb w _); [exact CV0|].
    destruct (text_eqb w _); [cbn [fst]; destruct args; exact CV0|].
    destruct (text_eqb w _); [exact CV0|].
    destruct (text_eqb w _); [exact CV0|].
    destruct (text_eqb w _); [exact CV0|].
    destruct (text_eqb w _); [exact CV0|].
    destruct (text_eqb w _); [cbn [fst]; now apply setplugs_covers|].
    destruct (text_eqb w _); [cbn [fst]; now apply setpath_covers|].
    destruct (text_eqb w _); [cbn [fst]; unfold settimeout; destruct args; [exact CV0|]; destruct (strtol10 _) as [[? ?] ?]; destruct (_ || _ || _); exact CV0|].
    exact CV0. }
  destruct (process_cmd hlc st0 (argv ln)) as [st1 q1]. cbn [fst] in *.
  pose proof (at_prompt_same _ _ AP0 LS) as AP1.
  destruct q1; [inversion RL; subst; exact CV1|].
  rewrite drain_idle in RL; [inversion RL; subst; exact CV1 | apply AP1 | now apply at_prompt_idle].
Qed.

Lemma ts_update_keeps ts x s n : ts_lookup ts n <> None -> ts_lookup (ts_update ts x s) n <> None.
Proof.
  intros H. destruct (text_eq_dec n x) as [->|NE]; [rewrite ts_lookup_update_same; discriminate | now rewrite ts_lookup_update_other].
Qed.

Lemma flip_ts_keeps b ts c x n : ts_lookup ts n <> None -> ts_lookup (flip_ts b ts c x) n <> None.
Proof.
  intros H. destruct c; cbn [flip_ts]; [exact H | now apply ts_update_keeps |].
  rewrite (ts_lookup_map_off (fun k => is_desc (s_tab b) k x)).
  pose proof (ts_update_keeps ts x SOff n H) as K. destruct (ts_lookup (ts_update ts x SOff) n); [discriminate | contradiction].
Qed.

(* ... and so does every single-target stat/on/off line inside the domain of the rules *)
Theorem ts_covers_single st ln sched w a rest c x st' q :
  at_prompt st -> ts_covers st -> argv ln = w :: a :: rest -> cmd_of_word w = Some c -> hlc a = Some [x] ->
  name_valid (s_tab st) x = true -> in_domain st c [x] = true ->
  run_line hlc st ln sched = Ok (st', q) -> ts_covers st' /\ at_prompt st'.
Proof.
  intros AP CV AV CW HL NV DOM RL.
  destruct (single_target_model hlc st ln sched w a rest c x AP CV AV CW HL NV DOM)
    as (st2 & pdx & l & Lx & Ch & Len & RL2 & AP2 & SC & RES & TS).
  rewrite RL in RL2. inversion RL2; subst st2. split; [|exact AP2].
  intros n NVn. destruct SC as (_ & _ & _ & ET & _). rewrite ET in NVn. specialize (CV n NVn). rewrite TS.
  unfold final_ts. destruct (blocker_m _ _ _); [exact CV|]. unfold own_ts. destruct (mem _ _); [exact CV | now apply flip_ts_keeps].
Qed.

End WithHostlist.
