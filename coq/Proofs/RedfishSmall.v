(* C19: the OPEN part of C19_rules (TEXT of the answers and status table for several targets on one line) decided by
   computation inside Coq on a small scope: the three example states of RedfishExamples.v (three levels R -> M -> L, second
   root S -> T on a failing host; everything off / R,M on / R,M,L on), every stat/on/off command, EVERY target list of
   length 1 or 2 over the five plugs and one unknown name and EVERY list of length 3 over R, M, L, T (repetitions and every
   order included), a slow release schedule of the delayed polls.
   This is a computed fact about the model and Spec/RedfishSpec.v, not the general theorem. *)
From Coq Require Import List NArith ZArith Bool Lia Permutation.
From PM Require Import Base.Bytes Base.Outcome Gen.GenRfp Model.Redfish Spec.RedfishSpec Model.RedfishView
  Proofs.RedfishBase Proofs.RedfishRules Proofs.RedfishExamples.
Import ListNotations.

Definition tcount (x : text) (l : list text) : nat := length (filter (text_eqb x) l).
Definition mset_eqb (a b : list text) : bool := forallb (fun x => Nat.eqb (tcount x a) (tcount x b)) (a ++ b).

Lemma tcount_count x l : tcount x l = count_occ text_eq_dec l x.
Proof.
  unfold tcount. induction l as [|y r IH]; [reflexivity|]. cbn [filter count_occ].
  destruct (text_eq_dec y x) as [->|NE].
  - rewrite text_eqb_refl. cbn [length]. now rewrite IH.
  - assert (text_eqb x y = false) as -> by (apply text_eqb_neq; congruence). exact IH.
Qed.

Lemma mset_eqb_perm a b : mset_eqb a b = true -> Permutation a b.
Proof.
  intros H. apply (Permutation_count_occ text_eq_dec). intros x. unfold mset_eqb in H. rewrite forallb_forall in H.
  destruct (in_dec text_eq_dec x (a ++ b)) as [I|NI].
  - specialize (H x I). apply Nat.eqb_eq in H. now rewrite !tcount_count in H.
  - assert (~ In x a /\ ~ In x b) as [Na Nb] by (split; intros I; apply NI; apply in_or_app; auto).
    rewrite (proj1 (count_occ_not_In text_eq_dec a x) Na), (proj1 (count_occ_not_In text_eq_dec b x) Nb). reflexivity.
Qed.

Definition sstat_eqb (a b : sstat) : bool :=
  match a, b with StOn, StOn | StOff, StOff | StErr, StErr => true | _, _ => false end.

Fixpoint join_commas (l : list text) : text :=
  match l with [] => [] | [x] => x | x :: r => x ++ 44%N :: join_commas r end.
Definition line_of (c : cmd) (ts : list name) : text := cmd_text c ++ 32%N :: join_commas ts.

(* the full statement of C19_rules, as a boolean *)
Definition rules_hold (st : state) (c : cmd) (ts : list name) (sched : list nat) : bool :=
  match run_line ex_hlc st (line_of c ts) sched with
  | Ok (st', false) =>
    idle st' && mset_eqb (out_text st') (fst (expected_of st c ts)) &&
    forallb (fun p => sstat_eqb (st_get (statmap_of (s_tstat st')) (p_name p)) (st_get (snd (expected_of st c ts)) (p_name p))) (s_tab st)
  | _ => false
  end.

Lemma rules_hold_sound st c ts sched : rules_hold st c ts sched = true ->
  exists st', run_line ex_hlc st (line_of c ts) sched = Ok (st', false) /\ idle st' = true /\
              Permutation (out_text st') (fst (expected_of st c ts)) /\
              forall p, In p (s_tab st) -> st_get (statmap_of (s_tstat st')) (p_name p) = st_get (snd (expected_of st c ts)) (p_name p).
Proof.
  unfold rules_hold. destruct (run_line ex_hlc st (line_of c ts) sched) as [[st' q]| | | |]; try discriminate. destruct q; [discriminate|].
  intros H. apply andb_true_iff in H as [H S]. apply andb_true_iff in H as [I M]. exists st'. split; [reflexivity|]. split; [exact I|].
  split; [now apply mset_eqb_perm|]. intros p Ip. rewrite forallb_forall in S. specialize (S p Ip).
  destruct (st_get _ _), (st_get _ _); cbn in S; congruence.
Qed.

Fixpoint lists_upto (n : nat) (xs : list name) : list (list name) :=
  match n with
  | O => [[]]
  | S k => [] :: flat_map (fun l => map (fun x => x :: l) xs) (lists_upto k xs)
  end.

Definition scope_names : list name := [bs "R"; bs "M"; bs "L"; bs "S"; bs "T"; bs "nosuch"]%string.
Definition scope_states : list state := [ex_off; ex_mid; ex_on].
Definition scope_cmds : list cmd := [CStat; COn; COff].
Definition scope_scheds : list (list nat) := [[0; 1; 0; 0; 1; 0; 1; 1]]%nat.
Definition scope_lists : list (list name) :=
  filter (fun l => match l with [] => false | _ => true end) (lists_upto 2 scope_names) ++
  filter (fun l => Nat.eqb (length l) 3) (lists_upto 3 [bs "R"; bs "M"; bs "L"; bs "T"]%string).

Definition scope_check : bool :=
  forallb (fun st => forallb (fun c => forallb (fun ts => forallb (fun sched => rules_hold st c ts sched) scope_scheds) scope_lists) scope_cmds) scope_states.

Lemma scope_check_true : scope_check = true.
Proof. vm_compute. reflexivity. Qed.

Theorem rules_small_scope st c ts sched :
  In st scope_states -> In c scope_cmds -> In ts scope_lists -> In sched scope_scheds ->
  in_domain st c ts = true /\
  exists st', run_line ex_hlc st (line_of c ts) sched = Ok (st', false) /\ idle st' = true /\
              Permutation (out_text st') (fst (expected_of st c ts)) /\
              forall p, In p (s_tab st) -> st_get (statmap_of (s_tstat st')) (p_name p) = st_get (snd (expected_of st c ts)) (p_name p).
Proof.
  intros Is Ic It Ih. pose proof scope_check_true as H. unfold scope_check in H.
  rewrite forallb_forall in H. specialize (H st Is). rewrite forallb_forall in H. specialize (H c Ic).
  rewrite forallb_forall in H. specialize (H ts It). rewrite forallb_forall in H. specialize (H sched Ih).
  split; [|now apply rules_hold_sound].
  assert (D : forallb (fun st => forallb (fun c => forallb (fun ts => in_domain st c ts) scope_lists) scope_cmds) scope_states = true) by (vm_compute; reflexivity).
  rewrite forallb_forall in D. specialize (D st Is). rewrite forallb_forall in D. specialize (D c Ic). rewrite forallb_forall in D. exact (D ts It).
Qed.
