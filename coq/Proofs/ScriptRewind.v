(* C08_fresh_start, second half: a rewound action and a freshly created one behave THE SAME.
   Two actions are related ([aeq]) when they agree on everything the interpreter reads: the static fields, and per
   context the plugs, block, position, iterator and processing flag.  They may differ in the time stamp, in the cached
   copy of the plug list of a ranged foreach (c_pluglist: under the invariant it is either absent or equal to c_plugs,
   and the iteration list is the same either way), and in delay_start as long as no delay is in progress.  Every
   handler maps related actions to related actions with identical (finished?, device, store, events, time-out). *)
From Coq Require Import List NArith ZArith Bool Lia.
From PM Require Import Base.Bytes Base.Outcome Base.Dec Gen.GenConsts Model.ScriptAst Model.Enqueue Model.Script
  Spec.ScriptSem Proofs.ScriptProofs Proofs.ScriptRefine Proofs.ScriptSim.
Import ListNotations.
Local Open Scope Z_scope.

Definition ceq (e e' : ctx) : Prop :=
  c_plugs e = c_plugs e' /\ c_block e = c_block e' /\ c_pos e = c_pos e' /\ c_plugitr e = c_plugitr e' /\ c_processing e = c_processing e'.
Definition afld (a a' : action) : Prop :=
  a_com a = a_com a' /\ a_client a = a_client a' /\ a_hascb a = a_hascb a' /\ a_tele a = a_tele a' /\
  a_hasdiag a = a_hasdiag a' /\ a_err a = a_err a' /\ a_args a = a_args a'.
Definition nodelay (e : ctx) : Prop := c_processing e = false \/ forall us, cur e <> Some (Delay us).
Definition dst (a a' : action) : Prop := a_delay_start a = a_delay_start a' \/ Forall nodelay (a_exec a).
Definition aeq (a a' : action) : Prop := afld a a' /\ Forall2 ceq (a_exec a) (a_exec a') /\ dst a a'.

Lemma ceq_cur e e' : ceq e e' -> cur e' = cur e.
Proof. intros (_ & Eb & Ep & _). unfold cur. now rewrite Eb, Ep. Qed.
Lemma ceq_refl e : ceq e e.
Proof. repeat split. Qed.

Lemma aeq_intro a a' a0 a0' stack stack' :
  afld a a' -> a_exec a0 = stack -> a_exec a0' = stack' ->
  afld a0 a0' -> Forall2 ceq stack stack' ->
  (a_delay_start a0 = a_delay_start a0' \/ Forall nodelay stack) -> aeq a0 a0'.
Proof. intros _ E1 E2 Hf H2 Hd. split; [exact Hf|]. rewrite E1, E2. split; [exact H2|]. unfold dst. rewrite E1. exact Hd. Qed.

Section Rel.
  Variable rmatch : text -> text -> option pmatch.
  Variable compress : list text -> text.
  Variable sc : bool.
  Variable ranged : bool.
  Variable devplugs : list plug.
  Variable script0 : list stmt.
  Variable ps0 : option (list plug).
  Variable args0 : option nat.
  Variable diag0 : bool.

  Notation ctx_ok := (ctx_ok ranged).
  Notation good := (good ranged devplugs script0 ps0 args0 diag0).
  Notation frame := (frame ranged script0 ps0 args0 diag0).

  Section H.
    Variables (now : Z) (d : sdev) (a a' : action) (store : list arglist) (e e' : ctx) (rest rest' : list ctx).
    Hypothesis Hf : afld a a'.
    Hypothesis He : ceq e e'.
    Hypothesis Hr : Forall2 ceq rest rest'.
    Hypothesis Hd : dst a a'.
    Hypothesis Ex : a_exec a = e :: rest.

    (* identical results, related actions; and when the round stops here at a delay statement the two delay_starts agree *)
    Definition dl_ok (a1 a1' : action) : Prop :=
      a_delay_start a1 = a_delay_start a1' \/ (forall e1 r1 us, a_exec a1 = e1 :: r1 -> cur e1 <> Some (Delay us))
      \/ (length (a_exec a) < length (a_exec a1))%nat.
    Definition rel_res (r r' : sres) : Prop :=
      let '(fin, d1, a1, st1, ev1) := r in let '(fin', d1', a1', st1', ev1') := r' in
      fin = fin' /\ d1 = d1' /\ st1 = st1' /\ ev1 = ev1' /\ aeq a1 a1' /\ dl_ok a1 a1'.
    Lemma rel_res_intro fin d0 st ev a1 a1' : aeq a1 a1' -> dl_ok a1 a1' -> rel_res (fin, d0, a1, st, ev) (fin, d0, a1', st, ev).
    Proof. intros H K. unfold rel_res. repeat split; try apply H. exact K. Qed.
    Lemma dl_top x e1 (a0 a0' : action) e1' r' : cur e1 = Some x -> (forall us, x <> Delay us) -> dl_ok (put_top e1 rest a0) (put_top e1' r' a0').
    Proof. intros Hc Hn. right. left. intros e2 r2 us E. injection E as <- _. rewrite Hc. intros K. injection K as K. exact (Hn us K). Qed.
    Lemma dl_same x a0' : cur e = Some x -> (forall us, x <> Delay us) -> a_exec a = e :: rest -> forall a0, a_exec a0 = a_exec a -> dl_ok a0 a0'.
    Proof. intros Hc Hn E a0 E0. right. left. intros e2 r2 us E2. rewrite E0, E in E2. injection E2 as <- _. rewrite Hc. intros K. injection K as K. exact (Hn us K). Qed.

    Lemma nodelay_rest : Forall nodelay (a_exec a) -> Forall nodelay rest.
    Proof. rewrite Ex. intros H. exact (Forall_inv_tail H). Qed.

    Lemma top_rel (e1 e1' : ctx) (a0 a0' : action) :
      afld a0 a0' -> ceq e1 e1' ->
      (a_delay_start a0 = a_delay_start a0' \/ (nodelay e1 /\ Forall nodelay rest)) ->
      aeq (put_top e1 rest a0) (put_top e1' rest' a0').
    Proof.
      intros F C D. split; [exact F|]. split; [constructor; assumption|].
      destruct D as [D|[D1 D2]]; [left; exact D|right; constructor; assumption].
    Qed.

    Lemma dst_rest (cond : nodelay e -> False) : a_delay_start a = a_delay_start a'.
    Proof. destruct Hd as [K|K]; [exact K|]. rewrite Ex in K. exfalso. exact (cond (Forall_inv K)). Qed.

    Lemma dst_keep e1 : nodelay e1 -> a_delay_start a = a_delay_start a' \/ (nodelay e1 /\ Forall nodelay rest).
    Proof. intros N. destruct Hd as [K|K]; [left; exact K|right; split; [exact N|apply nodelay_rest; exact K]]. Qed.

    (* send *)
    Lemma send_rel fmt r : cur e = Some (Send fmt) ->
      process_send compress now d a store e rest fmt = Ok r ->
      exists r', process_send compress now d a' store e' rest' fmt = Ok r' /\ rel_res r r'.
    Proof.
      intros Hx. pose proof He as (Epl & Eb & Ep & Ei & Epr). pose proof Hf as (F1 & F2 & F3 & F4 & F5 & F6 & F7).
      assert (Hnd : forall b, nodelay (set_processing b e)).
      { intros b. right. intros us. change (cur (set_processing b e)) with (cur e). rewrite Hx. discriminate. }
      assert (G : forall b fin d0 ev, rel_res (fin, d0, put_top (set_processing b e) rest a, store, ev) (fin, d0, put_top (set_processing b e') rest' a', store, ev)).
      { intros b fin d0 ev. apply rel_res_intro.
        - apply top_rel; [exact Hf|repeat split; assumption|apply dst_keep, Hnd].
        - apply (dl_top (Send fmt)); [exact Hx|discriminate]. }
      unfold process_send, send_arg, tele. rewrite <- Epr, <- Epl, <- F2, <- F4.
      destruct (c_processing e).
      - destruct (sd_to d); intros H; injection H as <-; eexists; (split; [reflexivity|apply G]).
      - destruct (hsprintf1 fmt _) as [str|]; [|discriminate].
        destruct (Nat.ltb _ _).
        + destruct SEND_OVERRUN_ASSERT; [discriminate|]. cbn [sd_to set_to].
          destruct (lastn _ _); intros H; injection H as <-; eexists; (split; [reflexivity|apply G]).
        + cbn [sd_to set_to].
          destruct (sd_to d ++ str); intros H; injection H as <-; eexists; (split; [reflexivity|apply G]).
    Qed.

    Hypothesis Ex' : a_exec a' = e' :: rest'.

    Lemma same_rel : aeq a a'.
    Proof. split; [exact Hf|]. split; [rewrite Ex, Ex'; constructor; assumption|exact Hd]. Qed.

    Lemma same_res x fin d0 st ev : cur e = Some x -> (forall us, x <> Delay us) ->
      rel_res (fin, d0, a, st, ev) (fin, d0, a', st, ev).
    Proof. intros Hx Hn. apply rel_res_intro; [apply same_rel|exact (dl_same x a' Hx Hn Ex a eq_refl)]. Qed.

    (* expect *)
    Lemma expect_rel re r : cur e = Some (Expect re) ->
      process_expect rmatch now d a store re = Ok r ->
      exists r', process_expect rmatch now d a' store re = Ok r' /\ rel_res r r'.
    Proof.
      intros Hx. pose proof Hf as (F1 & F2 & F3 & F4 & F5 & F6 & F7).
      assert (G : forall fin d0 st ev, rel_res (fin, d0, a, st, ev) (fin, d0, a', st, ev)).
      { intros. apply (same_res (Expect re)); [exact Hx|discriminate]. }
      unfold process_expect, tele. cbn [sd_from set_xm]. rewrite <- F2, <- F4.
      destruct (sd_from d); [intros H; injection H as <-; eexists; split; [reflexivity|apply G]|].
      destruct (rmatch re _) as [pm|]; [|intros H; injection H as <-; eexists; split; [reflexivity|apply G]].
      destruct (nth_error pm 0) as [[[so eo]|]|]; intros H; injection H as <-; eexists; (split; [reflexivity|apply G]).
    Qed.

    (* delay *)
    Lemma delay_rel us r t : cur e = Some (Delay us) ->
      process_delay sc now d a store e rest us = Ok (r, t) ->
      exists r', process_delay sc now d a' store e' rest' us = Ok (r', t) /\ rel_res r r'.
    Proof.
      intros Hx. pose proof He as (Epl & Eb & Ep & Ei & Epr). pose proof Hf as (F1 & F2 & F3 & F4 & F5 & F6 & F7).
      assert (G : forall (e1 e1' : ctx) (a0 a0' : action) fin ev, afld a0 a0' -> ceq e1 e1' -> a_delay_start a0 = a_delay_start a0' ->
                 rel_res (fin, d, put_top e1 rest a0, store, ev) (fin, d, put_top e1' rest' a0', store, ev)).
      { intros e1 e1' a0 a0' fin ev F C D. apply rel_res_intro; [apply top_rel; [exact F|exact C|left; exact D]|left; exact D]. }
      unfold process_delay, tele. rewrite <- Epr, <- F2, <- F4.
      destruct (c_processing e) eqn:Epe.
      - assert (Eds : a_delay_start a = a_delay_start a').
        { apply dst_rest. intros [K|K]; [congruence|exact (K us Hx)]. }
        rewrite <- Eds.
        destruct (sc || _); intros H; injection H as <- <-; eexists; (split; [reflexivity|]);
          (apply G; [exact Hf|first [exact He|repeat split; try assumption; reflexivity]|exact Eds]).
      - cbn [a_delay_start set_delay_start].
        destruct (sc || _); intros H; injection H as <- <-; eexists; (split; [reflexivity|]);
          (apply G; [exact Hf|first [exact He|repeat split; try assumption; reflexivity]|reflexivity]).
    Qed.

    (* setplugstate *)
    Lemma setplugstate_rel lit pmp smp ints r : cur e = Some (SetPlugState lit pmp smp ints) ->
      process_setplugstate rmatch d a store e lit pmp smp ints = Ok r ->
      exists r', process_setplugstate rmatch d a' store e' lit pmp smp ints = Ok r' /\ rel_res r r'.
    Proof.
      intros Hx. pose proof He as (Epl & _). pose proof Hf as (F1 & F2 & F3 & F4 & F5 & F6 & F7).
      assert (Eg : get_args store a' = get_args store a) by (apply get_args_same; symmetry; exact F7).
      rewrite (setplugstate_closed rmatch (sd_plugs d) (a_args a) d a store (mkSst (get_args store a) None) e eq_refl eq_refl eq_refl).
      rewrite (setplugstate_closed rmatch (sd_plugs d) (a_args a') d a' store (mkSst (get_args store a') None) e' eq_refl eq_refl eq_refl).
      intros H. injection H as <-. eexists. split; [reflexivity|]. cbn [ss_args]. rewrite Eg, <- Epl.
      unfold state_args. rewrite Eg, <- F7. apply (same_res (SetPlugState lit pmp smp ints)); [exact Hx|discriminate].
    Qed.

    (* setresult *)
    Lemma setresult_rel pmp smp ints r : cur e = Some (SetResult pmp smp ints) ->
      process_setresult rmatch d a store e pmp smp ints = Ok r ->
      exists r', process_setresult rmatch d a' store e' pmp smp ints = Ok r' /\ rel_res r r'.
    Proof.
      intros Hx. pose proof Hf as (F1 & F2 & F3 & F4 & F5 & F6 & F7).
      assert (Eg : get_args store a' = get_args store a) by (apply get_args_same; symmetry; exact F7).
      assert (G : forall fin d0 st ev, rel_res (fin, d0, a, st, ev) (fin, d0, a', st, ev)).
      { intros. apply (same_res (SetResult pmp smp ints)); [exact Hx|discriminate]. }
      unfold process_setresult. rewrite !sub_strdup_sem, Eg, <- F7, <- F5, <- F2.
      destruct (capture (model_xm d) pmp) as [pn|]; [|intros H; injection H as <-; eexists; split; [reflexivity|apply G]].
      destruct (capture (model_xm d) smp) as [str|]; [|intros H; injection H as <-; eexists; split; [reflexivity|apply G]].
      destruct (find_plug d pn) as [[p0 node]|]; [|intros H; injection H as <-; eexists; split; [reflexivity|apply G]].
      cbv zeta. destruct (a_args a); [|intros H; injection H as <-; eexists; split; [reflexivity|apply G]].
      destruct (get_args store a) as [al|]; [|intros H; injection H as <-; eexists; split; [reflexivity|apply G]].
      destruct (arg_find al node); [|intros H; injection H as <-; eexists; split; [reflexivity|apply G]].
      destruct (Z.eqb _ RT_SUCCESS); [intros H; injection H as <-; eexists; split; [reflexivity|apply G]|].
      destruct (a_hasdiag a); [|discriminate].
      intros H; injection H as <-; eexists; split; [reflexivity|apply G].
    Qed.

    (* foreach *)
    Lemma foreach_rel (on : bool) body r :
      cur e = Some (if on then ForeachNode body else ForeachPlug body) ->
      ctx_ok e -> ctx_ok e' -> is_ranged_com (a_com a) = ranged -> sd_plugs d = devplugs ->
      process_foreach d a store e rest on body = Ok r ->
      exists r', process_foreach d a' store e' rest' on body = Ok r' /\ rel_res r r'.
    Proof.
      intros Hx Hok Hok' Hrg Hdp H.
      pose proof He as (Epl & Eb & Ep & Ei & Epr). pose proof Hf as (F1 & F2 & F3 & F4 & F5 & F6 & F7).
      assert (Hrg' : is_ranged_com (a_com a') = ranged) by (rewrite <- F1; exact Hrg).
      destruct (foreach_total ranged d a' store e' rest' on body Hrg' (proj2 (proj2 (proj2 (proj2 Hok'))))) as (r' & H').
      exists r'. split; [exact H'|].
      destruct (foreach_closed ranged devplugs d a store e rest Hok Hrg Hdp on body r H) as (e0 & B0 & P0 & L0 & R0 & _ & _ & ->).
      destruct (foreach_closed ranged devplugs d a' store e' rest' Hok' Hrg' Hdp on body r' H') as (e0' & B0' & P0' & L0' & R0' & _ & _ & ->).
      assert (Eit : itr e' = itr e) by (unfold itr; rewrite Ei; reflexivity).
      rewrite <- Epl, Eit.
      assert (Hc0 : forall x, ceq (set_plugitr x e0) (set_plugitr x e0')).
      { intros x. unfold ceq. cbn [c_plugs c_block c_pos c_plugitr c_processing set_plugitr].
        rewrite L0, L0', B0, B0', P0, P0', R0, R0'. repeat split; assumption. }
      assert (Hn1 : forall x, nodelay (set_plugitr x e0)).
      { intros x. right. intros us. unfold cur. cbn [c_block c_pos set_plugitr]. rewrite B0, P0. fold (cur e). rewrite Hx. destruct on; discriminate. }
      destruct (next_plug on _ (itr e)) as [[p i']|]; apply rel_res_intro.
      - split; [exact Hf|]. cbn [a_exec set_exec]. split; [constructor; [apply ceq_refl|constructor; [apply Hc0|exact Hr]]|].
        destruct Hd as [K|K]; [left; exact K|right]. cbn [a_exec set_exec].
        constructor; [left; reflexivity|constructor; [apply Hn1|apply nodelay_rest; exact K]].
      - right. right. cbn [a_exec set_exec length]. rewrite Ex. cbn [length]. lia.
      - apply top_rel; [exact Hf|apply Hc0|apply dst_keep, Hn1].
      - apply (dl_top (if on then ForeachNode body else ForeachPlug body)); [|destruct on; discriminate].
        unfold cur. cbn [c_block c_pos set_plugitr]. rewrite B0, P0. exact Hx.
    Qed.

    (* ifon / ifoff *)
    Lemma ifonoff_rel (want : bool) body r :
      cur e = Some (if want then IfOn body else IfOff body) ->
      process_ifonoff d a store e rest want body = Ok r ->
      exists r', process_ifonoff d a' store e' rest' want body = Ok r' /\ rel_res r r'.
    Proof.
      intros Hx. pose proof He as (Epl & Eb & Ep & Ei & Epr). pose proof Hf as (F1 & F2 & F3 & F4 & F5 & F6 & F7).
      assert (Eg : get_args store a' = get_args store a) by (apply get_args_same; symmetry; exact F7).
      assert (Hnd : forall b, nodelay (set_processing b e)).
      { intros b. right. intros us. change (cur (set_processing b e)) with (cur e). rewrite Hx. destruct want; discriminate. }
      assert (Hce : forall b, ceq (set_processing b e) (set_processing b e')) by (intros b; repeat split; assumption).
      destruct (c_processing e) eqn:Epe.
      - rewrite (process_ifonoff_return d a store e rest want body Epe).
        rewrite (process_ifonoff_return d a' store e' rest' want body (eq_sym Epr)).
        intros H; injection H as <-. eexists. split; [reflexivity|]. apply rel_res_intro.
        { apply top_rel; [exact Hf|apply Hce|apply dst_keep, Hnd]. }
        apply (dl_top (if want then IfOn body else IfOff body)); [exact Hx|destruct want; discriminate].
      - rewrite (process_ifonoff_closed d a store e rest want body Epe).
        rewrite (process_ifonoff_closed d a' store e' rest' want body (eq_sym Epr)).
        cbv zeta. rewrite !plug_state_sem, Eg, <- Epl.
        assert (Hs : forall (b : bool), aeq (if b then set_err ACT_EEXPFAIL a else a) (if b then set_err ACT_EEXPFAIL a' else a')).
        { intros [|]; [|apply same_rel]. split; [repeat split; assumption|]. split; [cbn [a_exec set_err]; rewrite Ex, Ex'; constructor; assumption|exact Hd]. }
        destruct (_ || _).
        + cbn [negb andb]. intros H; injection H as <-. eexists. split; [reflexivity|]. apply rel_res_intro.
          { split; [exact Hf|]. cbn [a_exec set_exec]. split; [constructor; [apply ceq_refl|constructor; [apply Hce|exact Hr]]|].
            destruct Hd as [K|K]; [left; exact K|right]. cbn [a_exec set_exec].
            constructor; [left; reflexivity|constructor; [apply Hnd|apply nodelay_rest; exact K]]. }
          right. right. cbn [a_exec set_exec length]. rewrite Ex. cbn [length]. lia.
        + intros H; injection H as <-. eexists. split; [reflexivity|]. apply rel_res_intro; [apply Hs|].
          apply (dl_same (if want then IfOn body else IfOff body) _ Hx); [destruct want; discriminate|exact Ex|].
          match goal with |- context [if ?c then _ else _] => destruct c end; reflexivity.
    Qed.
  End H.

  Lemma Forall2_cons_inv {A B} (R : A -> B -> Prop) x l l2 :
    Forall2 R (x :: l) l2 -> exists y l', l2 = y :: l' /\ R x y /\ Forall2 R l l'.
  Proof. intros H. inversion H; subst. eauto. Qed.
  Lemma Forall2_len {A B} (R : A -> B -> Prop) l l2 : Forall2 R l l2 -> length l = length l2.
  Proof. induction 1; cbn [length]; congruence. Qed.

  (* one statement *)
  Lemma stmt_rel now d a a' store fin d1 a1 st1 ev1 t :
    aeq a a' -> Forall ctx_ok (a_exec a) -> Forall ctx_ok (a_exec a') -> is_ranged_com (a_com a) = ranged -> sd_plugs d = devplugs ->
    process_stmt rmatch compress sc now d a store = Ok ((fin, d1, a1, st1, ev1), t) ->
    exists a1', process_stmt rmatch compress sc now d a' store = Ok ((fin, d1, a1', st1, ev1), t) /\ aeq a1 a1' /\ dl_ok a a1 a1'.
  Proof.
    intros (Hf & H2 & Hd) Hc Hc' Hrg Hdp H. unfold process_stmt in *.
    destruct (a_exec a) as [|e rest] eqn:Ex; [discriminate|].
    destruct (Forall2_cons_inv _ _ _ _ H2) as (e' & rest' & Ex' & He & Hr). rewrite Ex'.
    rewrite (ceq_cur _ _ He). destruct (cur e) as [x|] eqn:Hx; [|discriminate].
    pose proof (Forall_inv Hc) as Hok. assert (Hok' : ctx_ok e') by (rewrite Ex' in Hc'; exact (Forall_inv Hc')).
    assert (Fin : forall (r r' : sres), rel_res a r r' -> forall tt, Ok (r, tt) = Ok ((fin, d1, a1, st1, ev1), t) ->
                  exists a1', Ok (r', tt) = Ok ((fin, d1, a1', st1, ev1), t) /\ aeq a1 a1' /\ dl_ok a a1 a1').
    { intros [[[[f0 d0] a0] s0] e0] [[[[f0' d0'] a0'] s0'] e0'] (<- & <- & <- & <- & Ha & Hl) tt K.
      injection K as <- <- <- <- <- <-. exists a0'. auto. }
    destruct x as [fmt|re|lit pmp smp ints|pmp smp ints|us|body|body|body|body].
    - destruct (process_send compress now d a store e rest fmt) as [r| | | |] eqn:E1; cbn [omap bind] in H; try discriminate H.
      eapply send_rel in E1; eauto. destruct E1 as (r' & E1' & Hrel). rewrite E1'. cbn [omap bind]. exact (Fin r r' Hrel None H).
    - destruct (process_expect rmatch now d a store re) as [r| | | |] eqn:E1; cbn [omap bind] in H; try discriminate H.
      eapply expect_rel in E1; eauto. destruct E1 as (r' & E1' & Hrel). rewrite E1'. cbn [omap bind]. exact (Fin r r' Hrel None H).
    - destruct (process_setplugstate rmatch d a store e lit pmp smp ints) as [r| | | |] eqn:E1; cbn [omap bind] in H; try discriminate H.
      eapply setplugstate_rel in E1; eauto. destruct E1 as (r' & E1' & Hrel). rewrite E1'. cbn [omap bind]. exact (Fin r r' Hrel None H).
    - destruct (process_setresult rmatch d a store e pmp smp ints) as [r| | | |] eqn:E1; cbn [omap bind] in H; try discriminate H.
      eapply setresult_rel in E1; eauto. destruct E1 as (r' & E1' & Hrel). rewrite E1'. cbn [omap bind]. exact (Fin r r' Hrel None H).
    - destruct (process_delay sc now d a store e rest us) as [[r tt]| | | |] eqn:E1; try discriminate H.
      eapply delay_rel in E1; eauto. destruct E1 as (r' & E1' & Hrel). rewrite E1'. exact (Fin r r' Hrel tt H).
    - destruct (process_foreach d a store e rest false body) as [r| | | |] eqn:E1; cbn [omap bind] in H; try discriminate H.
      eapply (foreach_rel) with (on := false) in E1; eauto. destruct E1 as (r' & E1' & Hrel). rewrite E1'. cbn [omap bind]. exact (Fin r r' Hrel None H).
    - destruct (process_foreach d a store e rest true body) as [r| | | |] eqn:E1; cbn [omap bind] in H; try discriminate H.
      eapply (foreach_rel) with (on := true) in E1; eauto. destruct E1 as (r' & E1' & Hrel). rewrite E1'. cbn [omap bind]. exact (Fin r r' Hrel None H).
    - destruct (process_ifonoff d a store e rest true body) as [r| | | |] eqn:E1; cbn [omap bind] in H; try discriminate H.
      eapply (ifonoff_rel) with (want := true) in E1; eauto. destruct E1 as (r' & E1' & Hrel). rewrite E1'. cbn [omap bind]. exact (Fin r r' Hrel None H).
    - destruct (process_ifonoff d a store e rest false body) as [r| | | |] eqn:E1; cbn [omap bind] in H; try discriminate H.
      eapply (ifonoff_rel) with (want := false) in E1; eauto. destruct E1 as (r' & E1' & Hrel). rewrite E1'. cbn [omap bind]. exact (Fin r r' Hrel None H).
  Qed.

  Notation stmt_sim := (stmt_sim rmatch compress sc ranged devplugs script0 ps0 args0 diag0).
  Notation Inv := (Inv rmatch compress sc ranged devplugs script0 ps0 args0 diag0).
  Notation outcome_ok := (outcome_ok rmatch compress sc ranged devplugs script0 ps0 args0 diag0).

  (* one do..while round *)
  Lemma do_while_rel : forall fuel now d a a' store s s' acc tmo fin d1 a1 st1 evs t,
    aeq a a' -> good d a -> srel s d a store -> good d a' -> srel s' d a' store ->
    do_while rmatch compress sc fuel now d a store acc tmo = Ok ((fin, d1, a1, st1, evs), t) ->
    exists a1', do_while rmatch compress sc fuel now d a' store acc tmo = Ok ((fin, d1, a1', st1, evs), t) /\ aeq a1 a1' /\
                (forall e1 r1 us, a_exec a1 = e1 :: r1 -> cur e1 = Some (Delay us) -> a_delay_start a1 = a_delay_start a1').
  Proof.
    induction fuel as [|f IH]; intros now d a a' store s s' acc tmo fin d1 a1 st1 evs t Ha Hg Hs Hg' Hs' H; [discriminate H|].
    cbn [do_while] in *.
    destruct (stmt_sim now d a store s Hg Hs) as (fin0 & d0 & a0 & st0 & ev0 & t0 & E & Hsim & Hxm).
    destruct (stmt_sim now d a' store s' Hg' Hs') as (fin0' & d0' & a0' & st0' & ev0' & t0' & E' & Hsim' & Hxm').
    rewrite E in H.
    pose proof Hg as (Hdg & Hdp & (Hrg & Hc & _) & Hne). pose proof Hg' as (_ & _ & (_ & Hc' & _) & Hne').
    destruct (stmt_rel now d a a' store fin0 d0 a0 st0 ev0 t0 Ha Hc Hc' Hrg Hdp E) as (b0 & E'' & Ha0 & Hdl0).
    rewrite E' in E''. injection E'' as -> -> -> -> -> ->. rewrite E'.
    assert (L0 : length (a_exec b0) = length (a_exec a0)) by (symmetry; apply (Forall2_len ceq), Ha0).
    assert (L : length (a_exec a') = length (a_exec a)) by (symmetry; apply (Forall2_len ceq), Ha).
    rewrite L, L0.
    destruct (Nat.ltb_spec (length (a_exec a)) (length (a_exec a0))) as [Lt|Ge].
    - destruct Hsim as [[_ Hp]|[Hl _]]; [|lia]. destruct Hsim' as [[_ Hp']|[Hl' _]]; [|lia].
      destruct Hp as (-> & -> & -> & Hfr & Hargs1 & _ & (c & r & _ & _ & Ea1 & _ & _)).
      destruct Hp' as (_ & _ & _ & Hfr' & Hargs1' & _ & (c' & r' & _ & _ & Ea1' & _ & _)).
      destruct Hs as (Hsa & _). destruct Hs' as (Hsa' & _).
      apply (IH now d a0 b0 store s s' (acc ++ []) (min_tmo tmo t0) fin d1 a1 st1 evs t Ha0); auto.
      + split; [exact Hdg|split; [exact Hdp|split; [exact Hfr|rewrite Ea1; discriminate]]].
      + split; [rewrite Hsa; symmetry; apply get_args_same; exact Hargs1|right; apply Hxm; exact Lt].
      + split; [exact Hdg|split; [exact Hdp|split; [exact Hfr'|rewrite Ea1'; discriminate]]].
      + split; [rewrite Hsa'; symmetry; apply get_args_same; exact Hargs1'|right; apply Hxm'; lia].
    - injection H as <- <- <- <- <- <-. exists b0. split; [reflexivity|]. split; [exact Ha0|].
      intros e1 r1 us E1 C1. destruct Hdl0 as [K|[K|K]]; [exact K|exfalso; exact (K e1 r1 us E1 C1)|lia].
  Qed.

  Lemma delay_start_advance a : a_delay_start (advance a) = a_delay_start a.
  Proof. unfold advance. destruct (a_exec a) as [|e r]; [reflexivity|]. cbv zeta. destruct (cur _); reflexivity. Qed.

  Lemma advance_exec a e rest : a_exec a = e :: rest ->
    a_exec (advance a) = match cur (set_pos (S (c_pos e)) e) with Some _ => set_pos (S (c_pos e)) e :: rest | None => rest end.
  Proof. intros Ex. unfold advance. rewrite Ex. cbv zeta. destruct (cur _); reflexivity. Qed.
  Lemma advance_nil a : a_exec a = [] -> a_exec (advance a) = [].
  Proof. intros Ex. unfold advance. rewrite Ex. exact Ex. Qed.

  Lemma advance_rel a a' : aeq a a' -> (forall e1 r1, a_exec a = e1 :: r1 -> c_processing e1 = false) -> aeq (advance a) (advance a').
  Proof.
    intros (Hf & H2 & Hd) Hcl. destruct (advance_fields a) as (G1 & G2 & G3 & G4). destruct (advance_fields a') as (G1' & G2' & G3' & G4').
    split; [|split].
    - destruct Hf as (F1 & F2 & F3 & F4 & F5 & F6 & F7).
      assert (K : forall x, a_client (advance x) = a_client x /\ a_hascb (advance x) = a_hascb x /\ a_tele (advance x) = a_tele x).
      { intros x. unfold advance. destruct (a_exec x) as [|e r]; [auto|]. cbv zeta. destruct (cur _); auto. }
      destruct (K a) as (K1 & K2 & K3). destruct (K a') as (K1' & K2' & K3').
      unfold afld. rewrite G1, G2, G3, G4, G1', G2', G3', G4', K1, K2, K3, K1', K2', K3'. repeat split; assumption.
    - destruct (a_exec a) as [|e rest] eqn:Ex.
      + destruct (a_exec a') as [|z zs] eqn:Ex'; [|inversion H2]. rewrite (advance_nil a Ex), (advance_nil a' Ex'). constructor.
      + destruct (Forall2_cons_inv _ _ _ _ H2) as (e' & rest' & Ex' & He & Hr).
        rewrite (advance_exec a e rest Ex), (advance_exec a' e' rest' Ex').
        pose proof He as (Epl & Eb & Ep & Ei & Epr).
        assert (Ec : cur (set_pos (S (c_pos e')) e') = cur (set_pos (S (c_pos e)) e)) by (unfold cur; cbn [c_block c_pos set_pos]; rewrite Eb, Ep; reflexivity).
        rewrite Ec. destruct (cur (set_pos (S (c_pos e)) e)); [|exact Hr].
        constructor; [|exact Hr]. unfold ceq. cbn [c_plugs c_block c_pos c_plugitr c_processing set_pos]. rewrite Ep. repeat split; assumption.
    - unfold dst. rewrite !delay_start_advance. destruct Hd as [K|K]; [left; exact K|right].
      destruct (a_exec a) as [|e rest] eqn:Ex.
      + rewrite (advance_nil a Ex). constructor.
      + rewrite (advance_exec a e rest Ex). destruct (cur (set_pos (S (c_pos e)) e)); [|exact (Forall_inv_tail K)].
        constructor; [|exact (Forall_inv_tail K)]. left. cbn [c_processing set_pos]. exact (Hcl e rest eq_refl).
  Qed.

  Lemma step_obs_rel now d fin a1 a1' st evs :
    aeq a1 a1' -> (forall e1 r1 us, a_exec a1 = e1 :: r1 -> cur e1 = Some (Delay us) -> a_delay_start a1 = a_delay_start a1') ->
    step_obs now d fin a1' st evs = step_obs now d fin a1 st evs.
  Proof.
    intros (Hf & H2 & _) Hdl. unfold step_obs. destruct (a_exec a1) as [|e rest] eqn:Ex.
    - destruct (a_exec a1') as [|z zs]; [reflexivity|inversion H2].
    - destruct (Forall2_cons_inv _ _ _ _ H2) as (e' & rest' & -> & He & _). rewrite (ceq_cur _ _ He).
      destruct (cur e) as [[]|] eqn:Hx; try reflexivity.
      + rewrite (get_args_same st a1 a1'); [reflexivity|]. symmetry. apply Hf.
      + rewrite (get_args_same st a1 a1'); [reflexivity|]. symmetry. apply Hf.
      + rewrite (Hdl e rest _ eq_refl Hx). reflexivity.
  Qed.

  (* one step of [run] *)
  Lemma step1_rel s0 s0' i d a a' store tr tr' :
    Inv s0 d a store tr -> Inv s0' d a' store tr' -> aeq a a' ->
    exists st d' a2 a2' store' o evs,
      step1 rmatch compress sc (i_now i) (env_step i d) a store = Ok (st, d', a2, store', o, evs) /\
      step1 rmatch compress sc (i_now i) (env_step i d) a' store = Ok (st, d', a2', store', o, evs) /\
      aeq a2 a2' /\ outcome_ok s0 st d' a2 store' (tr ++ o) /\ outcome_ok s0' st d' a2' store' (tr' ++ o).
  Proof.
    intros HI HI' Ha.
    destruct (step1_sim rmatch compress sc ranged devplugs script0 ps0 args0 diag0 s0 i d a store tr HI) as (st & d' & a2 & store' & o & evs & E & Hout & _).
    destruct (step1_sim rmatch compress sc ranged devplugs script0 ps0 args0 diag0 s0' i d a' store tr' HI') as (st' & d'' & a2' & store'' & o' & evs' & E' & Hout' & _).
    destruct HI as (Hg & s & Hs & _). destruct HI' as (Hg' & s' & Hs' & _).
    exists st, d', a2, a2', store', o, evs. split; [exact E|].
    unfold step1 in E, E' |- *.
    destruct (do_while rmatch compress sc 8 (i_now i) (env_step i d) a store [] None) as [[[[[[fin d1] a1] st1] ev1] t]| | | |] eqn:Edw; try discriminate E.
    destruct (do_while_rel 8 (i_now i) (env_step i d) a a' store s s' [] None fin d1 a1 st1 ev1 t Ha Hg Hs Hg' Hs' Edw) as (a1' & Edw' & Ha1 & Hdl).
    rewrite Edw' in E' |- *. cbv zeta in E, E' |- *.
    rewrite (step_obs_rel (i_now i) (env_step i d) fin a1 a1' st1 ev1 Ha1 Hdl) in E' |- *.
    assert (Eerr : a_err a1' = a_err a1) by (symmetry; apply Ha1). rewrite Eerr in E' |- *.
    destruct fin; cbn [negb] in *.
    - destruct (Z.eqb (a_err a1) ACT_ESUCCESS) eqn:Ee.
      + (* the finished statement left its flag clear: from the simulation of this very round *)
        assert (Hcl : forall e1 r1, a_exec a1 = e1 :: r1 -> c_processing e1 = false).
        { destruct (do_while_sim rmatch compress sc ranged devplugs script0 ps0 args0 diag0 8 (i_now i) (env_step i d) a store s [] None Hg Hs
                      (top_levels ranged devplugs script0 ps0 args0 diag0 _ _ Hg)) as (f2 & d2 & a2x & st2 & ev2 & t2 & E2 & Hstep).
          rewrite Edw in E2. injection E2 as <- <- <- <- <- <-.
          unfold step_post in Hstep. cbv zeta in Hstep. destruct Hstep as (_ & _ & Hstep). rewrite Ee in Hstep.
          destruct Hstep as (_ & _ & _ & _ & (e1 & r1 & Ex1 & Hp1)). intros e2 r2 Ex2. rewrite Ex1 in Ex2. injection Ex2 as <- _. exact Hp1. }
        pose proof (advance_rel a1 a1' Ha1 Hcl) as Hadv.
        assert (Elen : length (a_exec (advance a1')) = length (a_exec (advance a1))) by (symmetry; apply (Forall2_len ceq), Hadv).
        destruct (a_exec (advance a1)) as [|x1 y1] eqn:Ea; destruct (a_exec (advance a1')) as [|x1' y1'] eqn:Ea'; try discriminate Elen;
          injection E as <- <- <- <- <- <-; injection E' as <- <- <- <- <- <-; (split; [reflexivity|]); (split; [exact Hadv|]); split; assumption.
      + injection E as <- <- <- <- <- <-; injection E' as <- <- <- <- <- <-. split; [reflexivity|]. split; [exact Ha1|]. split; assumption.
    - injection E as <- <- <- <- <- <-; injection E' as <- <- <- <- <- <-. split; [reflexivity|]. split; [exact Ha1|]. split; assumption.
  Qed.

  Lemma run_rel s0 s0' : forall ins d a a' store tr tr' raw,
    Inv s0 d a store tr -> Inv s0' d a' store tr' -> aeq a a' ->
    forall st d' a2 store' trf rawf,
    run rmatch compress sc ins d a store tr raw = Ok (st, d', a2, store', trf, rawf) ->
    exists a2' o, trf = tr ++ o /\ aeq a2 a2' /\
      run rmatch compress sc ins d a' store tr' raw = Ok (st, d', a2', store', tr' ++ o, rawf).
  Proof.
    induction ins as [|i r IH]; intros d a a' store tr tr' raw HI HI' Ha st d' a2 store' trf rawf H; cbn [run] in *.
    - injection H as <- <- <- <- <- <-. exists a', []. rewrite !app_nil_r. auto.
    - destruct (step1_rel s0 s0' i d a a' store tr tr' HI HI' Ha) as (st1 & d1 & b & b' & store1 & o & evs & E & E' & Hb & Hout & Hout').
      rewrite E in H. rewrite E'. destruct st1.
      + cbn [outcome_ok] in Hout, Hout'.
        destruct (IH d1 b b' store1 (tr ++ o) (tr' ++ o) (raw ++ evs) Hout Hout' Hb st d' a2 store' trf rawf H) as (a2' & o2 & -> & Ha2 & Hr).
        exists a2', (o ++ o2). rewrite !app_assoc. auto.
      + injection H as <- <- <- <- <- <-. exists b', o. auto.
      + injection H as <- <- <- <- <- <-. exists b', o. auto.
  Qed.
End Rel.
