(* C08_fresh_start, second half: a rewound action and a freshly created one behave THE SAME.
   Two actions are related ([aeq]) when they agree on everything the interpreter reads: the static fields, and per
   context the plugs, block, position, iterator and processing flag.  They may differ in the time stamp, in the cached
   copy of the plug list of a ranged foreach (c_pluglist: under the invariant it is either absent or equal to c_plugs,
   and the iteration list is the same either way), and in delay_start as long as no delay is in progress.  Every
   handler maps related actions to related actions with identical (finished?, device, store, events, time-out). *)
From Coq Require Import List NArith ZArith Bool Lia.
From PM Require Import Base.Bytes Base.Outcome Base.Dec Gen.GenConsts Model.ScriptAst Model.Enqueue Model.Script
  Spec.ScriptSem Proofs.ScriptProofs Proofs.ScriptRefine Proofs.ScriptSim.
Import ListNotations.
Local Open Scope Z_scope.

Definition ceq (e e' : ctx) : Prop :=
  c_plugs e = c_plugs e' /\ c_block e = c_block e' /\ c_pos e = c_pos e' /\ c_plugitr e = c_plugitr e' /\ c_processing e = c_processing e'.
Definition afld (a a' : action) : Prop :=
  a_com a = a_com a' /\ a_client a = a_client a' /\ a_hascb a = a_hascb a' /\ a_tele a = a_tele a' /\
  a_hasdiag a = a_hasdiag a' /\ a_err a = a_err a' /\ a_args a = a_args a'.
Definition nodelay (e : ctx) : Prop := c_processing e = false \/ forall us, cur e <> Some (Delay us).
Definition dst (a a' : action) : Prop := a_delay_start a = a_delay_start a' \/ Forall nodelay (a_exec a).
Definition aeq (a a' : action) : Prop := afld a a' /\ Forall2 ceq (a_exec a) (a_exec a') /\ dst a a'.

Lemma ceq_cur e e' : ceq e e' -> cur e' = cur e.
Proof. intros (_ & Eb & Ep & _). unfold cur. now rewrite Eb, Ep. Qed.
Lemma ceq_refl e : ceq e e.
Proof. repeat split. Qed.

Lemma aeq_intro a a' a0 a0' stack stack' :
  afld a a' -> a_exec a0 = stack -> a_exec a0' = stack' ->
  afld a0 a0' -> Forall2 ceq stack stack' ->
  (a_delay_start a0 = a_delay_start a0' \/ Forall nodelay stack) -> aeq a0 a0'.
Proof. intros _ E1 E2 Hf H2 Hd. split; [exact Hf|]. rewrite E1, E2. split; [exact H2|]. unfold dst. rewrite E1. exact Hd. Qed.

Section Rel.
  Variable rmatch : text -> text -> option pmatch.
  Variable compress : list text -> text.
  Variable sc : bool.
  Variable ranged : bool.
  Variable devplugs : list plug.

  Notation ctx_ok := (ctx_ok ranged).

  (* result shape shared by the handlers that only touch the flags of the top context *)
  Definition rel_res (r r' : sres) : Prop :=
    let '(fin, d1, a1, st1, ev1) := r in let '(fin', d1', a1', st1', ev1') := r' in
    fin = fin' /\ d1 = d1' /\ st1 = st1' /\ ev1 = ev1' /\ aeq a1 a1'.

  Section H.
    Variables (now : Z) (d : sdev) (a a' : action) (store : list arglist) (e e' : ctx) (rest rest' : list ctx).
    Hypothesis Hf : afld a a'.
    Hypothesis He : ceq e e'.
    Hypothesis Hr : Forall2 ceq rest rest'.
    Hypothesis Hd : dst a a'.
    Hypothesis Ex : a_exec a = e :: rest.

    Lemma nodelay_rest : Forall nodelay (a_exec a) -> Forall nodelay rest.
    Proof. rewrite Ex. intros H. exact (Forall_inv_tail H). Qed.

    Lemma top_rel (e1 e1' : ctx) (a0 a0' : action) :
      afld a0 a0' -> ceq e1 e1' ->
      (a_delay_start a0 = a_delay_start a0' \/ (nodelay e1 /\ Forall nodelay rest)) ->
      aeq (put_top e1 rest a0) (put_top e1' rest' a0').
    Proof.
      intros F C D. split; [exact F|]. split; [constructor; assumption|].
      destruct D as [D|[D1 D2]]; [left; exact D|right; constructor; assumption].
    Qed.

    Lemma dst_rest (cond : nodelay e -> False) : a_delay_start a = a_delay_start a'.
    Proof. destruct Hd as [K|K]; [exact K|]. rewrite Ex in K. exfalso. exact (cond (Forall_inv K)). Qed.

    Lemma dst_keep e1 : nodelay e1 -> a_delay_start a = a_delay_start a' \/ (nodelay e1 /\ Forall nodelay rest).
    Proof. intros N. destruct Hd as [K|K]; [left; exact K|right; split; [exact N|apply nodelay_rest; exact K]]. Qed.

    (* send *)
    Lemma send_rel fmt r : cur e = Some (Send fmt) ->
      process_send compress now d a store e rest fmt = Ok r ->
      exists r', process_send compress now d a' store e' rest' fmt = Ok r' /\ rel_res r r'.
    Proof.
      intros Hx. pose proof He as (Epl & Eb & Ep & Ei & Epr). pose proof Hf as (F1 & F2 & F3 & F4 & F5 & F6 & F7).
      assert (Hnd : forall b, nodelay (set_processing b e)).
      { intros b. right. intros us. change (cur (set_processing b e)) with (cur e). rewrite Hx. discriminate. }
      unfold process_send, send_arg, tele. rewrite <- Epr, <- Epl, <- F2, <- F4.
      destruct (c_processing e).
      - destruct (sd_to d); intros H; injection H as <-; eexists; (split; [reflexivity|]); repeat split;
          try (apply top_rel; [exact Hf|repeat split; assumption|apply dst_keep, Hnd]).
      - destruct (hsprintf1 fmt _) as [str|]; [|discriminate].
        destruct (Nat.ltb _ _).
        + destruct SEND_OVERRUN_ASSERT; [discriminate|]. cbn [sd_to set_to].
          destruct (lastn _ _); intros H; injection H as <-; eexists; (split; [reflexivity|]); repeat split;
            try (apply top_rel; [exact Hf|repeat split; assumption|apply dst_keep, Hnd]).
        + cbn [sd_to set_to].
          destruct (sd_to d ++ str); intros H; injection H as <-; eexists; (split; [reflexivity|]); repeat split;
            try (apply top_rel; [exact Hf|repeat split; assumption|apply dst_keep, Hnd]).
    Qed.

    Hypothesis Ex' : a_exec a' = e' :: rest'.

    Lemma same_rel : aeq a a'.
    Proof. split; [exact Hf|]. split; [rewrite Ex, Ex'; constructor; assumption|exact Hd]. Qed.

    (* expect *)
    Lemma expect_rel re r :
      process_expect rmatch now d a store re = Ok r ->
      exists r', process_expect rmatch now d a' store re = Ok r' /\ rel_res r r'.
    Proof.
      pose proof Hf as (F1 & F2 & F3 & F4 & F5 & F6 & F7).
      unfold process_expect, tele. cbn [sd_from set_xm]. rewrite <- F2, <- F4.
      destruct (sd_from d); [intros H; injection H as <-; eexists; split; [reflexivity|]; repeat split; apply same_rel|].
      destruct (rmatch re _) as [pm|]; [|intros H; injection H as <-; eexists; split; [reflexivity|]; repeat split; apply same_rel].
      destruct (nth_error pm 0) as [[[so eo]|]|]; intros H; injection H as <-; eexists; (split; [reflexivity|]); repeat split; apply same_rel.
    Qed.

    (* delay *)
    Lemma delay_rel us r t : cur e = Some (Delay us) ->
      process_delay sc now d a store e rest us = Ok (r, t) ->
      exists r', process_delay sc now d a' store e' rest' us = Ok (r', t) /\ rel_res r r'.
    Proof.
      intros Hx. pose proof He as (Epl & Eb & Ep & Ei & Epr). pose proof Hf as (F1 & F2 & F3 & F4 & F5 & F6 & F7).
      unfold process_delay, tele. rewrite <- Epr, <- F2, <- F4.
      destruct (c_processing e) eqn:Epe.
      - assert (Eds : a_delay_start a = a_delay_start a').
        { apply dst_rest. intros [K|K]; [congruence|exact (K us Hx)]. }
        rewrite <- Eds.
        destruct (sc || _); intros H; injection H as <- <-; eexists; (split; [reflexivity|]); repeat split;
          (apply top_rel; [exact Hf|first [exact He|repeat split; try assumption; reflexivity]|left; exact Eds]).
      - cbn [a_delay_start set_delay_start].
        destruct (sc || _); intros H; injection H as <- <-; eexists; (split; [reflexivity|]); repeat split;
          (apply top_rel; [exact Hf|first [exact He|repeat split; try assumption; reflexivity]|left; reflexivity]).
    Qed.

    (* setplugstate *)
    Lemma setplugstate_rel lit pmp smp ints r :
      process_setplugstate rmatch d a store e lit pmp smp ints = Ok r ->
      exists r', process_setplugstate rmatch d a' store e' lit pmp smp ints = Ok r' /\ rel_res r r'.
    Proof.
      pose proof He as (Epl & _). pose proof Hf as (F1 & F2 & F3 & F4 & F5 & F6 & F7).
      assert (Eg : get_args store a' = get_args store a) by (apply get_args_same; symmetry; exact F7).
      rewrite (setplugstate_closed rmatch (sd_plugs d) (a_args a) d a store (mkSst (get_args store a) None) e eq_refl eq_refl eq_refl).
      rewrite (setplugstate_closed rmatch (sd_plugs d) (a_args a') d a' store (mkSst (get_args store a') None) e' eq_refl eq_refl eq_refl).
      intros H. injection H as <-. eexists. split; [reflexivity|]. cbn [ss_args]. rewrite Eg, <- Epl.
      unfold state_args. rewrite Eg, <- F7. repeat split. apply same_rel.
    Qed.

    (* setresult *)
    Lemma setresult_rel pmp smp ints r :
      process_setresult rmatch d a store e pmp smp ints = Ok r ->
      exists r', process_setresult rmatch d a' store e' pmp smp ints = Ok r' /\ rel_res r r'.
    Proof.
      pose proof Hf as (F1 & F2 & F3 & F4 & F5 & F6 & F7).
      assert (Eg : get_args store a' = get_args store a) by (apply get_args_same; symmetry; exact F7).
      unfold process_setresult. rewrite !sub_strdup_sem, Eg, <- F7, <- F5, <- F2.
      destruct (capture (model_xm d) pmp) as [pn|]; [|intros H; injection H as <-; eexists; split; [reflexivity|]; repeat split; apply same_rel].
      destruct (capture (model_xm d) smp) as [str|]; [|intros H; injection H as <-; eexists; split; [reflexivity|]; repeat split; apply same_rel].
      destruct (find_plug d pn) as [[p0 node]|]; [|intros H; injection H as <-; eexists; split; [reflexivity|]; repeat split; apply same_rel].
      cbv zeta. destruct (a_args a); [|intros H; injection H as <-; eexists; split; [reflexivity|]; repeat split; apply same_rel].
      destruct (get_args store a) as [al|]; [|intros H; injection H as <-; eexists; split; [reflexivity|]; repeat split; apply same_rel].
      destruct (arg_find al node); [|intros H; injection H as <-; eexists; split; [reflexivity|]; repeat split; apply same_rel].
      destruct (Z.eqb _ RT_SUCCESS); [intros H; injection H as <-; eexists; split; [reflexivity|]; repeat split; apply same_rel|].
      destruct (a_hasdiag a); [|discriminate].
      intros H; injection H as <-; eexists; split; [reflexivity|]; repeat split; apply same_rel.
    Qed.

    (* foreach *)
    Lemma foreach_rel (on : bool) body r :
      cur e = Some (if on then ForeachNode body else ForeachPlug body) ->
      ctx_ok e -> ctx_ok e' -> is_ranged_com (a_com a) = ranged -> sd_plugs d = devplugs ->
      process_foreach d a store e rest on body = Ok r ->
      exists r', process_foreach d a' store e' rest' on body = Ok r' /\ rel_res r r'.
    Proof.
      intros Hx Hok Hok' Hrg Hdp H.
      pose proof He as (Epl & Eb & Ep & Ei & Epr). pose proof Hf as (F1 & F2 & F3 & F4 & F5 & F6 & F7).
      assert (Hrg' : is_ranged_com (a_com a') = ranged) by (rewrite <- F1; exact Hrg).
      destruct (foreach_total ranged d a' store e' rest' on body Hrg' (proj2 (proj2 (proj2 (proj2 Hok'))))) as (r' & H').
      exists r'. split; [exact H'|].
      destruct (foreach_closed ranged devplugs d a store e rest Hok Hrg Hdp on body r H) as (e0 & B0 & P0 & L0 & R0 & _ & _ & ->).
      destruct (foreach_closed ranged devplugs d a' store e' rest' Hok' Hrg' Hdp on body r' H') as (e0' & B0' & P0' & L0' & R0' & _ & _ & ->).
      assert (Eit : itr e' = itr e) by (unfold itr; rewrite Ei; reflexivity).
      rewrite <- Epl, Eit.
      assert (Hc0 : forall x, ceq (set_plugitr x e0) (set_plugitr x e0')).
      { intros x. unfold ceq. cbn [c_plugs c_block c_pos c_plugitr c_processing set_plugitr].
        rewrite L0, L0', B0, B0', P0, P0', R0, R0'. repeat split; assumption. }
      assert (Hn1 : forall x, nodelay (set_plugitr x e0)).
      { intros x. right. intros us. unfold cur. cbn [c_block c_pos set_plugitr]. rewrite B0, P0. fold (cur e). rewrite Hx. destruct on; discriminate. }
      destruct (next_plug on _ (itr e)) as [[p i']|]; unfold rel_res; repeat split.
      - split; [exact Hf|]. cbn [a_exec set_exec]. split; [constructor; [apply ceq_refl|constructor; [apply Hc0|exact Hr]]|].
        destruct Hd as [K|K]; [left; exact K|right]. cbn [a_exec set_exec].
        constructor; [left; reflexivity|constructor; [apply Hn1|apply nodelay_rest; exact K]].
      - apply top_rel; [exact Hf|apply Hc0|apply dst_keep, Hn1].
    Qed.

    (* ifon / ifoff *)
    Lemma ifonoff_rel (want : bool) body r :
      cur e = Some (if want then IfOn body else IfOff body) ->
      process_ifonoff d a store e rest want body = Ok r ->
      exists r', process_ifonoff d a' store e' rest' want body = Ok r' /\ rel_res r r'.
    Proof.
      intros Hx. pose proof He as (Epl & Eb & Ep & Ei & Epr). pose proof Hf as (F1 & F2 & F3 & F4 & F5 & F6 & F7).
      assert (Eg : get_args store a' = get_args store a) by (apply get_args_same; symmetry; exact F7).
      assert (Hnd : forall b, nodelay (set_processing b e)).
      { intros b. right. intros us. change (cur (set_processing b e)) with (cur e). rewrite Hx. destruct want; discriminate. }
      assert (Hce : forall b, ceq (set_processing b e) (set_processing b e')) by (intros b; repeat split; assumption).
      destruct (c_processing e) eqn:Epe.
      - rewrite (process_ifonoff_return d a store e rest want body Epe).
        rewrite (process_ifonoff_return d a' store e' rest' want body (eq_trans (eq_sym Epr) Epe)).
        intros H; injection H as <-. eexists. split; [reflexivity|]. repeat split.
        apply top_rel; [exact Hf|apply Hce|apply dst_keep, Hnd].
      - rewrite (process_ifonoff_closed d a store e rest want body Epe).
        rewrite (process_ifonoff_closed d a' store e' rest' want body (eq_trans (eq_sym Epr) Epe)).
        cbv zeta. rewrite !plug_state_sem, Eg, <- Epl.
        assert (Hs : forall (b : bool), aeq (if b then set_err ACT_EEXPFAIL a else a) (if b then set_err ACT_EEXPFAIL a' else a')).
        { intros [|]; [|apply same_rel]. split; [repeat split; assumption|]. split; [cbn [a_exec set_err]; rewrite Ex, Ex'; constructor; assumption|exact Hd]. }
        destruct (_ || _).
        + cbn [negb andb]. intros H; injection H as <-. eexists. split; [reflexivity|]. repeat split.
          split; [exact Hf|]. cbn [a_exec set_exec]. split; [constructor; [apply ceq_refl|constructor; [apply Hce|exact Hr]]|].
          destruct Hd as [K|K]; [left; exact K|right]. cbn [a_exec set_exec].
          constructor; [left; reflexivity|constructor; [apply Hnd|apply nodelay_rest; exact K]].
        + intros H; injection H as <-. eexists. split; [reflexivity|]. repeat split. apply Hs.
    Qed.
  End H.
End Rel.
