(* C14: count, nth, delete_nth, find (soundness) against the expansion *)
From Coq Require Import List Arith NArith ZArith Lia Bool.
From PM Require Import Base.Bytes Base.Outcome Gen.GenHL Model.HL Spec.HLSpec Proofs.HLArith Proofs.HLProofs.
From Coq Require Import ZifyBool ZifyNat ZifyN.
Import ListNotations.
Local Open Scope N_scope.
Ltac Zify.zify_post_hook ::= Z.div_mod_to_equations.

Lemma to_int_small z : (-2147483648 <= z < 2147483648)%Z -> to_int z = z.
Proof. unfold to_int. lia. Qed.

Lemma sub64_small a b : b <= a -> a < W64 -> sub64 a b = a - b.
Proof. unfold sub64, W64. intros. lia. Qed.

Lemma add64_small a b : a + b < W64 -> add64 a b = a + b.
Proof. unfold add64, W64. intros. lia. Qed.

Lemma wrap64_small z : (0 <= z < 18446744073709551616)%Z -> wrap64 z = Z.to_N z.
Proof. unfold wrap64, W64. intros. f_equal. lia. Qed.

Lemma hr_count_wf r : wf_range r -> hr_count r = N.of_nat (length (names r)).
Proof.
  intros Hwf. rewrite names_length by assumption. unfold hr_count, wf_range, rcount in *.
  destruct (hr_single r); [reflexivity|]. destruct Hwf as [H1 H2]. unfold ULONG_MAX in H2.
  rewrite sub64_small by (unfold W64; lia). rewrite add64_small by (unfold W64; lia). lia.
Qed.

Lemma small_cons r h : small (r :: h) -> small h /\ (Z.of_nat (length (names r)) + Z.of_nat (length (expand h)) < 2147483648)%Z.
Proof. unfold small. rewrite expand_cons, app_length. lia. Qed.

(* ---------------------------------------------------------------- count *)
Lemma count_fold h : forall c, wf h -> (0 <= c)%Z -> (c + Z.of_nat (length (expand h)) < 2147483648)%Z ->
  fold_left (fun c r => to_int (c + Z.of_N (hr_count r))%Z) h c = (c + Z.of_nat (length (expand h)))%Z.
Proof.
  induction h as [|r h IH]; intros c Hwf Hc Hs; cbn [fold_left]; [cbn; lia|].
  inversion Hwf as [|? ? Hr Hh]; subst. rewrite expand_cons, app_length in *.
  rewrite hr_count_wf by assumption. rewrite to_int_small by lia. rewrite IH by (auto; lia). lia.
Qed.

Theorem count_sound h : wf h -> small h -> count h = Z.of_nat (length (expand h)).
Proof. intros Hwf Hs. unfold count. rewrite count_fold; auto; unfold small in Hs; lia. Qed.

(* ---------------------------------------------------------------- nth *)
Lemma names_nth r i : wf_range r -> (i < length (names r))%nat ->
  nth_error (names r) i = Some (hr_prefix r ++ (if hr_single r then [] else pad (hr_width r) (hr_lo r + N.of_nat i))).
Proof.
  intros Hwf Hi. rewrite names_length in Hi by assumption. unfold names.
  destruct (hr_single r).
  - destruct i; [|lia]. cbn. now rewrite app_nil_r.
  - rewrite nth_error_map. fold (rcount r). rewrite nseq_nth by assumption. reflexivity.
Qed.

Lemma HRSTR_consts : N.to_nat GenHL.HRSTR_LIMIT = 79%nat /\ (GenHL.HRSTR_BUF_SIZE <? GenHL.HRSTR_LIMIT) = false.
Proof. split; reflexivity. Qed.

Lemma hostrange_string_sound r i : wf_range r -> short_range r -> (i < length (names r))%nat ->
  exists s, nth_error (names r) i = Some s /\ hostrange_string r (Z.of_nat i) = Ok s.
Proof.
  intros Hwf Hsh Hi. rewrite (names_nth r i Hwf Hi). eexists; split; [reflexivity|].
  unfold hostrange_string, short_range in *. destruct HRSTR_consts as [E1 E2]. rewrite E1 in *. rewrite E2.
  rewrite names_length in Hi by assumption. unfold wf_range in Hwf.
  destruct (hr_single r).
  - rewrite firstn_all2 by lia. now rewrite app_nil_r.
  - destruct Hwf as [Hlo Hhi]. unfold rcount in Hi. unfold ULONG_MAX in Hhi.
    destruct (79 <? length (hr_prefix r))%nat eqn:Ea; [apply Nat.ltb_lt in Ea; lia|].
    destruct (Nat.eqb (length (hr_prefix r)) 79) eqn:Eb; [apply Nat.eqb_eq in Eb; lia|].
    rewrite wrap64_small by lia. rewrite add64_small by (unfold W64; lia).
    replace (Z.to_N (Z.of_nat i)) with (N.of_nat i) by lia.
    rewrite firstn_all2; [reflexivity|].
    assert (Hf : fits (hr_lo r + N.of_nat i)) by (apply W64_fits; unfold W64; lia).
    rewrite pad_len by assumption.
    assert ((ndigits (hr_lo r + N.of_nat i) <= ndigits (hr_hi r))%nat).
    { apply ndigits_mono; [lia|]. apply W64_fits; unfold W64; lia. }
    lia.
Qed.

Lemma nth_loop_sound h : forall i cnt, wf h -> short h -> (0 <= cnt)%Z ->
  (cnt + Z.of_nat (length (expand h)) < 2147483648)%Z ->
  nth_loop h (cnt + Z.of_nat i) cnt = Ok (nth_error (expand h) i).
Proof.
  induction h as [|r h IH]; intros i cnt Hwf Hsh Hc Hs; cbn [nth_loop].
  - now destruct i.
  - inversion Hwf as [|? ? Hr Hh]; subst. inversion Hsh as [|? ? Sr Sh]; subst.
    rewrite expand_cons, app_length in Hs. rewrite expand_cons.
    unfold int_of_ulong. rewrite hr_count_wf by assumption. rewrite to_int_small by lia.
    destruct (Z.leb_spec (cnt + Z.of_nat i) (Z.of_N (N.of_nat (length (names r))) - 1 + cnt)) as [Hle|Hgt].
    + assert (Hi : (i < length (names r))%nat) by lia.
      replace (cnt + Z.of_nat i - cnt)%Z with (Z.of_nat i) by lia.
      destruct (hostrange_string_sound r i Hr Sr Hi) as (s & Hs1 & Hs2). rewrite Hs2. cbn [bind].
      rewrite nth_error_app1 by assumption. now rewrite Hs1.
    + assert (Hi : (length (names r) <= i)%nat) by lia.
      rewrite nth_error_app2 by assumption. rewrite to_int_small by lia.
      replace (cnt + Z.of_nat i)%Z with ((cnt + Z.of_N (N.of_nat (length (names r)))) + Z.of_nat (i - length (names r)))%Z by lia.
      apply IH; auto; lia.
Qed.

Theorem nth_sound h i : wf h -> short h -> small h -> nth h (Z.of_nat i) = Ok (nth_error (expand h) i).
Proof. intros. unfold nth. apply (nth_loop_sound h i 0%Z); auto; unfold small in *; lia. Qed.

(* ---------------------------------------------------------------- delete_nth *)
Lemma remove_at_app1 {A} (a b : list A) i : (i < length a)%nat -> remove_at i (a ++ b) = remove_at i a ++ b.
Proof.
  revert i; induction a as [|x a IH]; intros i Hi; cbn [length] in Hi; [lia|].
  destruct i; cbn [remove_at app]; [reflexivity|]. f_equal. apply IH. lia.
Qed.

Lemma remove_at_app2 {A} (a b : list A) i : (length a <= i)%nat -> remove_at i (a ++ b) = a ++ remove_at (i - length a) b.
Proof.
  revert i; induction a as [|x a IH]; intros i Hi; cbn [length app] in *; [now rewrite Nat.sub_0_r|].
  destruct i; [lia|]. cbn [remove_at Nat.sub]. f_equal. apply IH. lia.
Qed.

Lemma remove_at_map {A B} (f : A -> B) l i : remove_at i (map f l) = map f (remove_at i l).
Proof. revert i; induction l as [|x l IH]; intros [|i]; cbn [remove_at map]; auto. now rewrite IH. Qed.

Lemma remove_at_nseq lo c j : (j < c)%nat ->
  remove_at j (nseq lo c) = nseq lo j ++ nseq (lo + N.of_nat j + 1) (c - j - 1).
Proof.
  revert lo j; induction c as [|c IH]; intros lo j Hj; [lia|].
  destruct j as [|j]; cbn [nseq remove_at app].
  - replace (S c - 0 - 1)%nat with c by lia. f_equal. lia.
  - f_equal. rewrite IH by lia. f_equal. replace (S c - S j - 1)%nat with (c - j - 1)%nat by lia. f_equal. lia.
Qed.

Lemma names_mk r lo hi : hr_single r = false ->
  names (with_hi (with_lo r lo) hi) = map (fun k => hr_prefix r ++ pad (hr_width r) k) (nseq lo (N.to_nat (hi + 1 - lo))).
Proof. intros Es. unfold names, with_hi, with_lo; cbn [hr_single hr_prefix hr_width hr_lo hr_hi]. now rewrite Es. Qed.

Lemma with_lo_as r lo : with_lo r lo = with_hi (with_lo r lo) (hr_hi r).
Proof. reflexivity. Qed.
Lemma with_hi_as r hi : with_hi r hi = with_hi (with_lo r (hr_lo r)) hi.
Proof. destruct r; reflexivity. Qed.

Lemma NDEBUG_0 : (GenHL.NDEBUG =? 0) = true.
Proof. reflexivity. Qed.

Lemma delete_range_sound r j rest i :
  wf_range r -> hr_single r = false -> (j < length (names r))%nat ->
  exists l, delete_in_range r (hr_lo r + N.of_nat j) rest i
            = Ok (l ++ rest, match l with [] => EvDel i | [_] => EvNone | _ => EvIns (i + 1)%Z end)
         /\ expand l = remove_at j (names r) /\ wf l.
Proof.
  intros Hwf Es Hj. set (num := hr_lo r + N.of_nat j). pose proof Hwf as Hwf0. unfold wf_range in Hwf. rewrite Es in Hwf. destruct Hwf as [Hlo Hhi].
  rewrite names_length in Hj by assumption. rewrite Es in Hj. unfold rcount in Hj. unfold ULONG_MAX in Hhi.
  unfold delete_in_range. rewrite NDEBUG_0. cbn [andb].
  destruct (N.ltb_spec num (hr_lo r)) as [?|_]; [unfold num in *; lia|].
  destruct (N.ltb_spec (hr_hi r) num) as [?|_]; [unfold num in *; lia|]. cbn [orb].
  rewrite (names_range r Es), remove_at_map. fold (rcount r). unfold rcount.
  rewrite remove_at_nseq by assumption.
  destruct (N.eqb_spec num (hr_lo r)) as [E1|E1].
  - assert (j = 0)%nat by (unfold num in E1; lia). subst j. cbv zeta.
    rewrite add64_small by (unfold W64; lia).
    unfold hr_empty, with_lo; cbn [hr_hi hr_lo].
    destruct (N.ltb_spec (hr_hi r) (hr_lo r + 1)) as [Hlt|Hge]; cbn [orb].
    + exists []. repeat split; [|constructor]. cbn [expand flat_map nseq app].
      replace (N.to_nat (hr_hi r + 1 - hr_lo r) - 0 - 1)%nat with 0%nat by lia. reflexivity.
    + destruct (N.eqb_spec (hr_hi r) ULONG_MAX) as [Hu|Hu]; [unfold ULONG_MAX in Hu; lia|].
      eexists [_]. repeat split.
      * cbn [expand flat_map nseq app]. rewrite app_nil_r.
        change {| hr_prefix := hr_prefix r; hr_lo := hr_lo r + 1; hr_hi := hr_hi r; hr_width := hr_width r; hr_single := hr_single r |}
          with (with_hi (with_lo r (hr_lo r + 1)) (hr_hi r)).
        rewrite names_mk by assumption. f_equal. f_equal; lia.
      * repeat constructor. unfold wf_range; cbn [hr_single hr_lo hr_hi]. rewrite Es. unfold ULONG_MAX. lia.
  - destruct (N.eqb_spec num (hr_hi r)) as [E2|E2].
    + cbv zeta. rewrite sub64_small by (unfold W64; lia).
      unfold hr_empty, with_hi; cbn [hr_hi hr_lo].
      assert (hr_lo r < hr_hi r) by (unfold num in *; lia).
      destruct (N.ltb_spec (hr_hi r - 1) (hr_lo r)) as [Hlt|Hge]; [lia|]. cbn [orb].
      destruct (N.eqb_spec (hr_hi r - 1) ULONG_MAX) as [Hu|Hu]; [unfold ULONG_MAX in Hu; lia|].
      eexists [_]. repeat split.
      * cbn [expand flat_map]. rewrite app_nil_r.
        change {| hr_prefix := hr_prefix r; hr_lo := hr_lo r; hr_hi := hr_hi r - 1; hr_width := hr_width r; hr_single := hr_single r |}
          with (with_hi r (hr_hi r - 1)).
        rewrite (with_hi_as r (hr_hi r - 1)). rewrite names_mk by assumption.
        replace (N.to_nat (hr_hi r + 1 - hr_lo r) - j - 1)%nat with 0%nat by (unfold num in *; lia).
        cbn [nseq]. rewrite app_nil_r. f_equal. f_equal. unfold num in *. lia.
      * repeat constructor. unfold wf_range; cbn [hr_single hr_lo hr_hi]. rewrite Es. unfold ULONG_MAX. lia.
    + assert (hr_lo r < num < hr_hi r) by (unfold num in *; lia).
      rewrite sub64_small by (unfold W64; lia). rewrite add64_small by (unfold W64; lia).
      eexists [_; _]. repeat split.
      * cbn [expand flat_map]. rewrite app_nil_r, map_app.
        rewrite (with_hi_as r (num - 1)), (with_lo_as r (num + 1)). rewrite !names_mk by assumption.
        f_equal; f_equal; f_equal; unfold num in *; lia.
      * repeat constructor; unfold wf_range; cbn [hr_single hr_lo hr_hi with_hi with_lo]; rewrite Es; unfold ULONG_MAX; lia.
Qed.

Lemma delete_loop_sound h : forall j cnt i, wf h -> (0 <= cnt)%Z ->
  (cnt + Z.of_nat (length (expand h)) < 2147483648)%Z -> (j < length (expand h))%nat ->
  exists h' ev, delete_loop h (cnt + Z.of_nat j) cnt i = Ok (h', ev) /\ expand h' = remove_at j (expand h) /\ wf h'.
Proof.
  induction h as [|r h IH]; intros j cnt i Hwf Hc Hs Hj; [cbn in Hj; lia|].
  inversion Hwf as [|? ? Hr Hh]; subst. rewrite expand_cons, app_length in Hs, Hj. rewrite expand_cons.
  cbn [delete_loop]. unfold int_of_ulong. rewrite hr_count_wf by assumption. rewrite to_int_small by lia.
  destruct (Z.leb_spec (cnt + Z.of_nat j) (Z.of_N (N.of_nat (length (names r))) - 1 + cnt)) as [Hle|Hgt].
  - assert (Hjr : (j < length (names r))%nat) by lia.
    rewrite remove_at_app1 by assumption.
    replace (cnt + Z.of_nat j - cnt)%Z with (Z.of_nat j) by lia.
    destruct (hr_single r) eqn:Es.
    + exists h, (EvDel i). split; [reflexivity|]. split; auto.
      rewrite names_single in * by assumption. cbn [length] in Hjr. destruct j; [reflexivity|lia].
    + pose proof Hr as Hr0. unfold wf_range in Hr0. rewrite Es in Hr0. destruct Hr0 as [Hlo Hhi]. unfold ULONG_MAX in Hhi.
      pose proof Hjr as Hjr'. rewrite names_length in Hjr' by assumption. rewrite Es in Hjr'. unfold rcount in Hjr'.
      rewrite wrap64_small by lia. rewrite add64_small by (unfold W64; lia).
      replace (Z.to_N (Z.of_nat j)) with (N.of_nat j) by lia.
      destruct (delete_range_sound r j h i Hr Es Hjr) as (l & Hl & He & Hw).
      rewrite Hl. eexists _, _. split; [reflexivity|]. split.
      * now rewrite expand_app, He.
      * apply Forall_app. auto.
  - assert (Hjr : (length (names r) <= j)%nat) by lia.
    rewrite remove_at_app2 by assumption. rewrite to_int_small by lia.
    replace (cnt + Z.of_nat j)%Z with ((cnt + Z.of_N (N.of_nat (length (names r)))) + Z.of_nat (j - length (names r)))%Z by lia.
    destruct (IH (j - length (names r))%nat (cnt + Z.of_N (N.of_nat (length (names r))))%Z (i + 1)%Z Hh) as (h' & ev & H1 & H2 & H3); try lia.
    rewrite H1. cbn [bind fst snd]. exists (r :: h'), ev. split; [reflexivity|]. split.
    + now rewrite expand_cons, H2.
    + now constructor.
Qed.

Theorem delete_nth_sound h i : wf h -> small h -> (i < length (expand h))%nat ->
  exists h', delete_nth h (Z.of_nat i) = Ok h' /\ expand h' = remove_at i (expand h) /\ wf h'.
Proof.
  intros Hwf Hs Hi. unfold delete_nth, delete_nth_ev. rewrite NDEBUG_0. cbn [andb].
  rewrite (count_sound h Hwf Hs). unfold small in Hs.
  destruct (Z.ltb_spec (Z.of_nat i) 0) as [?|_]; [lia|].
  destruct (Z.ltb_spec (Z.of_nat (length (expand h))) (Z.of_nat i)) as [?|_]; [lia|]. cbn [orb].
  destruct (delete_loop_sound h i 0%Z 0%Z Hwf) as (h' & ev & H1 & H2 & H3); try lia.
  cbn [Z.add] in H1. rewrite H1. cbn [bind fst]. eauto.
Qed.
