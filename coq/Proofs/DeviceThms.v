(* Final statements of the device-layer theorems (C05 C07 C10 C12) with their proofs; Properties/Cxx.v restates each and closes it by `exact`. *)
From Coq Require Import List NArith ZArith Bool Lia.
From PM Require Import Base.Bytes Base.Outcome Base.Dec Gen.GenConsts Gen.GenCbuf Model.ScriptAst Model.Enqueue Model.Script Model.Device
  Model.DevHarness Proofs.DeviceProofs Proofs.DeviceStmt Proofs.DeviceInv Proofs.DeviceRun Proofs.DeviceTimer Proofs.DeviceLocal.
Import ListNotations.
Local Open Scope Z_scope.

Lemma p_C07_total : forall (rmatch : text -> text -> option pmatch) (compress : list text -> text) (sc : bool) (cfgs : list (text * list plug * list (Z * list stmt) * Z * Z)) (pre ops : list hop),
  Forall (fun c => let '(name, plugs, scripts, timeout, ping) := c in cfg_ok compress (mk_device name plugs scripts timeout ping)) cfgs ->
  Forall setup_op pre -> Forall valid_op ops ->
  no_crash (run rmatch compress sc
              (mkH 0 (map (fun c => let '(name, plugs, scripts, timeout, ping) := c in (mk_device name plugs scripts timeout ping, peer0)) cfgs) [])
              (pre ++ HInit :: ops)).
Proof.
  intros rmatch compress sc cfgs pre ops Hc Hs Hv.
  assert (Hf : Fresh compress (mkH 0 (map (fun c => let '(name, plugs, scripts, timeout, ping) := c in (mk_device name plugs scripts timeout ping, peer0)) cfgs) [])).
  { unfold Fresh. cbn [h_devs]. apply Forall_map. eapply Forall_impl; [|exact Hc]. intros [[[[n p] s] t] pg] H. cbn [fst].
    now apply mk_device_inv. }
  pose proof (run_setup_init rmatch compress sc pre _ ops Hf Hs Hv) as H.
  destruct (run _ _ _ _ _) as [[h' outs]| | | |]; try contradiction; exact Logic.I.
Qed.

Lemma p_C07_total_from : forall (rmatch : text -> text -> option pmatch) (compress : list text -> text) (sc : bool) (h : hstate) (ops : list hop),
  HInv compress h -> Forall valid_op ops ->
  match run rmatch compress sc h ops with
  | Ok (h', outs) => HInv compress h' /\ length outs = length ops
  | Hang _ => True
  | _ => False
  end.
Proof.
  intros rmatch compress sc h ops Hh Hv. pose proof (run_inv rmatch compress sc ops h Hh Hv) as H.
  destruct (run _ _ _ _ _) as [[h' outs]| | | |]; try contradiction; [|exact Logic.I]. destruct H as (H1 & H2 & _). auto.
Qed.

Lemma p_C07_fd_state : forall (rmatch : text -> text -> option pmatch) (compress : list text -> text) (sc : bool) (h h' : hstate) (ops : list hop) (outs : list hout) k d p,
  HInv compress h -> Forall valid_op ops -> run rmatch compress sc h ops = Ok (h', outs) ->
  nth_error (h_devs h') k = Some (d, p) ->
  (dv_has_fd d = false <-> dv_cstate d = DEV_NOT_CONNECTED) /\ (dv_logged_in d = true -> dv_cstate d = DEV_CONNECTED).
Proof.
  intros rmatch compress sc h h' ops outs k d p Hh Hv E Hn. pose proof (run_inv rmatch compress sc ops h Hh Hv) as H. rewrite E in H.
  destruct H as (H1 & _). unfold HInv in H1. rewrite Forall_forall in H1. apply nth_error_In in Hn. destruct (H1 _ Hn) as [I _]. cbn [fst] in I.
  split; [exact (di_fd _ d I)|exact (di_li _ d I)].
Qed.

Lemma p_C07_statement_total : forall (rmatch : text -> text -> option pmatch) (compress : list text -> text) (sc : bool) now sd a store,
  wf_action compress (sd_plugs sd) a -> inv_to sd a ->
  match process_stmt rmatch compress sc now sd a store with
  | Ok ((fin, sd', a', store', evs), t) => wf_action compress (sd_plugs sd') a' /\ same_id a a' /\ (fin = true -> sd_to sd' = [])
  | _ => False
  end.
Proof.
  intros rmatch compress sc now sd a store Hw Ht. pose proof (process_stmt_props rmatch compress sc now sd a store Hw Ht) as H.
  destruct (process_stmt _ _ _ _ _ _ _) as [[[[[[fin sd'] a'] st'] evs] t]| | | |]; try contradiction.
  destruct H as [w1 p1 n1 fi1 stl1 i1 v1 m1 s1 q1]. split; [rewrite p1; exact w1|]. split; [exact i1|exact fi1].
Qed.

Lemma p_C07_output_buffer : forall (rmatch : text -> text -> option pmatch) (compress : list text -> text) (sc : bool) (h h' : hstate) (ops : list hop) (outs : list hout) k d p,
  HInv compress h -> Forall valid_op ops -> run rmatch compress sc h ops = Ok (h', outs) ->
  nth_error (h_devs h') k = Some (d, p) ->
  (dv_cstate d <> DEV_CONNECTED -> sd_to (dv d) = []) /\
  match dv_acts d with hd :: _ => inv_to (dv d) hd | [] => sd_to (dv d) = [] end.
Proof.
  intros rmatch compress sc h h' ops outs k d p Hh Hv E Hn. pose proof (run_inv rmatch compress sc ops h Hh Hv) as H. rewrite E in H.
  destruct H as (H1 & _). unfold HInv in H1. rewrite Forall_forall in H1. apply nth_error_In in Hn. destruct (H1 _ Hn) as [I _]. cbn [fst] in I.
  split; [exact (di_to _ d I)|exact (di_to_head _ d I)].
Qed.

Lemma p_C10_fifo : forall (rmatch : text -> text -> option pmatch) (compress : list text -> text) (sc : bool) (h h' : hstate) (ops : list hop) (outs : list hout) k d p,
  HInv compress h -> Forall valid_op ops -> run rmatch compress sc h ops = Ok (h', outs) ->
  nth_error (h_devs h) k = Some (d, p) ->
  exists d' p', nth_error (h_devs h') k = Some (d', p') /\
    comps k outs ++ queued d' = queued d ++ enqs (edev_of d) ops.
Proof.
  intros rmatch compress sc h h' ops outs k d p Hh Hv E Hn. pose proof (run_inv rmatch compress sc ops h Hh Hv) as H. rewrite E in H.
  destruct H as (_ & _ & K). destruct (K k d p Hn) as (d' & p' & E' & _ & F). eauto.
Qed.

Lemma p_C10_login_first : forall (rmatch : text -> text -> option pmatch) (compress : list text -> text) (sc : bool) (h h' : hstate) (ops : list hop) (outs : list hout) k d p,
  HInv compress h -> Forall valid_op ops -> run rmatch compress sc h ops = Ok (h', outs) ->
  nth_error (h_devs h') k = Some (d, p) ->
  ((exists l r, dv_acts d = l :: r /\ is_login l = true) <-> (dv_cstate d = DEV_CONNECTED /\ dv_logged_in d = false)) /\
  Forall (fun a => is_login a = false) (tl (dv_acts d)) /\
  (dv_cstate d <> DEV_CONNECTED -> Forall (fun a => is_login a = false) (dv_acts d)) /\
  Forall (fun a => a_hascb a = true -> is_login a = false) (dv_acts d).
Proof.
  intros rmatch compress sc h h' ops outs k d p Hh Hv E Hn. pose proof (run_inv rmatch compress sc ops h Hh Hv) as H. rewrite E in H.
  destruct H as (H1 & _). unfold HInv in H1. rewrite Forall_forall in H1. apply nth_error_In in Hn. destruct (H1 _ Hn) as [I _]. cbn [fst] in I.
  split; [exact (di_head _ d I)|]. split; [exact (di_tail _ d I)|]. split; [intros Hc; exact (no_login_when_unconnected compress d I Hc)|exact (di_cb _ d I)].
Qed.

Lemma p_C10_bytes_by_statements_only : forall (rmatch : text -> text -> option pmatch) (compress : list text -> text) (sc : bool) fuel now sd a store fin sd' a' store' evs t,
  wf_action compress (sd_plugs sd) a -> inv_to sd a ->
  do_while rmatch compress sc fuel now sd a store [] None = Ok ((fin, sd', a', store', evs), t) ->
  ((length (sd_to sd ++ sent_bytes evs) <= Z.to_nat MAX_DEV_BUF)%nat -> sd_to sd' = sd_to sd ++ sent_bytes evs) /\ forallb ev_script evs = true /\ same_id a a' .
Proof.
  intros rmatch compress sc fuel now sd a store fin sd' a' store' evs t Hw Ht E.
  pose proof (do_while_props rmatch compress sc fuel now sd a store [] None Hw Ht) as H. rewrite E in H.
  destruct H as (e1 & t1 & Ee & _ & SP). cbn [app] in Ee. subst e1.
  destruct SP as [w1 p1 n1 fi1 stl1 i1 v1 m1 s1 q1]. split; [exact s1|]. split; [exact v1|exact i1].
Qed.

Lemma p_C12_backoff_pass : forall (rmatch : text -> text -> option pmatch) (compress : list text -> text) (sc : bool) (h : hstate),
  HInv compress h ->
  match hstep rmatch compress sc h HPass with
  | Ok (h', o) =>
      tmo_pos (o_tmo o) /\
      forall k d p, nth_error (h_devs h) k = Some (d, p) ->
        exists d', nth_error (h_devs h') k = Some (d', apply_evs p (evs_of k (o_evs o))) /\
                   conn_rel (h_now h) d d' (evs_of k (o_evs o))
  | Hang _ => True
  | _ => False
  end.
Proof.
  intros rmatch compress sc h Hh. pose proof (hpass_ok rmatch compress sc h Hh) as H.
  destruct (hstep _ _ _ _ _) as [[h' o]| | | |]; try contradiction; [|exact Logic.I].
  destruct H as (P & _ & K). split; [exact P|]. intros k d p Hn. destruct (K k d p Hn) as (d' & E & (_ & _ & _ & C & _)). eauto.
Qed.

Lemma p_C12_keep_on_io_error : forall (rmatch : text -> text -> option pmatch) (compress : list text -> text) (sc : bool) now d tmo plans,
  DInv compress d -> tmo_pos tmo ->
  exists d' evs tmo' pl', reconnect now d tmo plans = Ok (d', evs, tmo', pl') /\
    DInv compress d' /\ queued d' = queued d /\ completions evs = [] /\
    (dv_cstate d' <> DEV_CONNECTED -> dv_acts d' = after_disc d) /\
    (dv_cstate d' = DEV_CONNECTED -> exists s, assoc_script PM_LOG_IN (dv_scripts d) = Some s /\
       dv_acts d' = create_action s PM_LOG_IN None 0 false false false None
                      :: (match after_disc d with [] => [] | h :: r => rewind_action h :: r end)).
Proof.
  intros rmatch compress sc now d tmo plans I Hp.
  destruct (reconnect_inv compress now d tmo plans (DInv_QInv _ d I) (fun _ => I) Hp) as (d' & evs & tmo' & pl & E & I' & _ & Q & C & _ & _ & _ & A1 & A2).
  exists d', evs, tmo', pl. auto 10.
Qed.

Lemma p_C12_reconnect_attempted : forall (rmatch : text -> text -> option pmatch) (compress : list text -> text) (sc : bool) now d tmo plans,
  DInv compress d -> tmo_pos tmo ->
  dv_retry_count d <= 0 \/ dv_last_retry d + backoff (dv_retry_count d) <= now ->
  exists d' evs tmo' pl, reconnect now d tmo plans = Ok (d', evs, tmo', pl) /\ nconn evs = 1%nat /\
    dv_last_retry d' = now /\ dv_retry_count d' = dv_retry_count d + 1 /\
    (hd ConnFail plans = ConnNow -> dv_cstate d' = DEV_CONNECTED /\ dv_logged_in d' = false /\
       exists l r, dv_acts d' = l :: r /\ is_login l = true).
Proof.
  intros rmatch compress sc. exact (reconnect_attempts compress).
Qed.

Lemma p_C05_dev_local : forall (rmatch : text -> text -> option pmatch) (compress : list text -> text) (sc : bool) now i d p r store tmo,
  pass_devs rmatch compress sc now i ((d, p) :: r) store tmo =
    match post_poll_one rmatch compress sc now d store tmo (passin_of d p) with
    | Ok (d', store', tmo', evs) =>
      match pass_devs rmatch compress sc now (S i) r store' tmo' with
      | Ok (r', store'', tmo'', evs') => Ok ((d', apply_evs p evs) :: r', store'', tmo'', map (fun e => (i, e)) evs ++ evs')
      | Exit c s => Exit c s | Abort s => Abort s | MemErr s => MemErr s | Hang s => Hang s
      end
    | Exit c s => Exit c s | Abort s => Abort s | MemErr s => MemErr s | Hang s => Hang s
    end.
Proof.
  reflexivity.
Qed.

