(* C13, token side of the end-to-end statement: what every parse function of Model/Lexer.v CONSUMES.
   Token-tracking version of the sp lemmas of Proofs/LexerLoad.v: instead of "the remainder is shorter" they say which
   tokens were taken, and conclude that a parse function other than the `node` alternative of parse_items never takes
   the keyword `node` -- so the node lines read off the token stream by ConfSpec.node_lines are the same before and
   after it.  No assumption on how the stream ends ([lend] arbitrary): the predicate only speaks about Ok results.
   The one source fact used: the keyword `node` is not a script name (GenLex.script_table, read from parse_tab.y). *)
From Coq Require Import List NArith ZArith Bool Lia.
From PM Require Import Base.Bytes Base.Outcome Gen.GenLex Model.Lexer Spec.ConfSpec.
Import ListNotations.

(* "if Ok then P" *)
Definition okp {A} (P : A -> Prop) (o : outcome A) : Prop :=
  match o with
  | Ok a => P a
  | _ => True
  end.

Lemma okp_bind {A B} (P : A -> Prop) (Q : B -> Prop) (x : outcome A) (f : A -> outcome B) :
  okp P x -> (forall a, P a -> okp Q (f a)) -> okp Q (bind x f).
Proof. destruct x; cbn [okp bind]; intros H K; try exact I. apply K; assumption. Qed.

Lemma okp_weaken {A} (P Q : A -> Prop) (o : outcome A) : okp P o -> (forall a, P a -> Q a) -> okp Q o.
Proof. destruct o; cbn [okp]; intros H K; try exact I. apply K; assumption. Qed.

Lemma okp_any {A} (o : outcome A) : okp (fun _ => True) o.
Proof. destruct o; exact I. Qed.

Lemma okp_self {A} (o : outcome A) : okp (fun a => o = Ok a) o.
Proof. destruct o; cbn [okp]; [reflexivity | | | |]; exact I. Qed.

Lemma okp_fail {A} (P : A -> Prop) c s : okp P (@fail A c s).
Proof. exact I. Qed.

Lemma okp_elim {A} (P : A -> Prop) (o : outcome A) a : okp P o -> o = Ok a -> P a.
Proof. intros H E. rewrite E in H. exact H. Qed.

(* ------------------------------------------------------------------ node_lines and single tokens *)
Definition is_node_kw (k : kw) : bool := match k with TOK_NODE => true | _ => false end.

Lemma is_node_kw_true k : is_node_kw k = true -> k = TOK_NODE.
Proof. destruct k; intros H; try discriminate H. reflexivity. Qed.

Lemma is_node_kw_false k : is_node_kw k = false -> k <> TOK_NODE.
Proof. intros H E. subst k. discriminate H. Qed.

Lemma nl_kw k r : k <> TOK_NODE -> node_lines (TKw k :: r) = node_lines r.
Proof. intros H. destruct k; try reflexivity. exfalso. apply H. reflexivity. Qed.

Lemma nl_skip t r : (forall k, t <> TKw k) -> node_lines (t :: r) = node_lines r.
Proof. intros H. destruct t; try reflexivity. exfalso. apply (H k). reflexivity. Qed.

(* a node line with two strings / with three strings *)
Definition not_str_tok (r : list token) : Prop := match r with TStr _ :: _ => False | _ => True end.

Lemma nl_node2 a b r : not_str_tok r ->
  node_lines (TKw TOK_NODE :: TStr a :: TStr b :: r) = (a, b, None) :: node_lines r.
Proof. intros H. destruct r as [|t r]; [reflexivity|]. destruct t; try reflexivity. destruct H. Qed.

Lemma nl_node3 a b p r : node_lines (TKw TOK_NODE :: TStr a :: TStr b :: TStr p :: r) = (a, b, Some p) :: node_lines r.
Proof. reflexivity. Qed.

(* the keyword `node` does not name a script: `script node { .. }` is a parse error (fact of the CURRENT parse_tab.y) *)
Lemma gen_node_not_script : assoc_kw TOK_NODE script_table = None.
Proof. reflexivity. Qed.

Section Seg.
  Variable stale_erange : text -> bool.
  Variable lend : lex_end.

  Notation next := (next lend).

  Lemma next_nl toks :
    okp (fun p => match fst p with Some t => toks = t :: snd p | None => toks = [] /\ snd p = [] end) (next toks).
  Proof.
    unfold Lexer.next. destruct toks as [|t r]; [|cbn [okp fst snd]; reflexivity].
    destruct lend; cbn [okp fst snd]; auto.
  Qed.

  Lemma expect_str_nl c toks : okp (fun p => toks = TStr (fst p) :: snd p) (expect_str lend c toks).
  Proof.
    unfold expect_str. pose proof (next_nl toks) as N. destruct (next toks) as [[t r]| | | |]; cbn [okp] in *; try exact I.
    destruct t as [[]|]; try exact I. cbn [okp fst snd] in *. exact N.
  Qed.

  Lemma expect_num_nl c toks : okp (fun p => toks = TNum (fst p) :: snd p) (expect_num lend c toks).
  Proof.
    unfold expect_num. pose proof (next_nl toks) as N. destruct (next toks) as [[t r]| | | |]; cbn [okp] in *; try exact I.
    destruct t as [[]|]; try exact I. cbn [okp fst snd] in *. exact N.
  Qed.

  Lemma expect_tok_nl c want toks : okp (fun r => exists t, toks = t :: r /\ want t = true) (expect_tok lend c want toks).
  Proof.
    unfold expect_tok. pose proof (next_nl toks) as N. destruct (next toks) as [[t r]| | | |]; cbn [okp] in *; try exact I.
    destruct t as [t|]; [|exact I]. destruct (want t) eqn:W; [|exact I]. cbn [okp fst snd] in *. exists t. split; assumption.
  Qed.

  (* the three token classes expect_tok is used with: none of them is a keyword *)
  Lemma begin_tok t : is_begin t = true -> t = TBegin.
  Proof. destruct t; intros H; try discriminate H. reflexivity. Qed.
  Lemma equals_tok t : is_equals t = true -> t = TEquals.
  Proof. destruct t; intros H; try discriminate H. reflexivity. Qed.
  Lemma matchpos_tok t : is_matchpos t = true -> t = TMatchpos.
  Proof. destruct t; intros H; try discriminate H. reflexivity. Qed.

  Ltac bind_with L := eapply okp_bind; [apply L|]; cbn beta.
  Ltac nl_done := subst; cbn [node_lines fst snd] in *; first [reflexivity | assumption | congruence].

  Definition same_nl {A} (toks : list token) (p : A * list token) : Prop := node_lines toks = node_lines (snd p).

  Lemma parse_state_interps_nl : forall n c toks acc, okp (same_nl toks) (parse_state_interps lend n c toks acc).
  Proof.
    unfold same_nl. induction n as [|n IH]; intros c toks acc; [exact I|].
    cbn [parse_state_interps]. bind_with next_nl. intros [t r] H; cbn [fst snd] in H.
    assert (D : okp (fun p : list (bool * text) * list token => node_lines toks = node_lines (snd p)) (Ok (acc, toks))) by reflexivity.
    destruct t as [[k| | | | | | | |]|]; try exact D.
    destruct k; try exact D.
    - bind_with expect_tok_nl. intros r1 (t1 & E1 & W1). apply equals_tok in W1.
      bind_with expect_str_nl. intros [s r2] E2; cbn [fst snd] in E2.
      eapply okp_weaken; [apply IH|]. intros p Hp; cbn beta in Hp. rewrite <- Hp. nl_done.
    - bind_with expect_tok_nl. intros r1 (t1 & E1 & W1). apply equals_tok in W1.
      bind_with expect_str_nl. intros [s r2] E2; cbn [fst snd] in E2.
      eapply okp_weaken; [apply IH|]. intros p Hp; cbn beta in Hp. rewrite <- Hp. nl_done.
  Qed.

  Lemma parse_result_interps_nl : forall n c toks acc, okp (same_nl toks) (parse_result_interps lend n c toks acc).
  Proof.
    unfold same_nl. induction n as [|n IH]; intros c toks acc; [exact I|].
    cbn [parse_result_interps]. bind_with next_nl. intros [t r] H; cbn [fst snd] in H.
    assert (D : okp (fun p : list text * list token => node_lines toks = node_lines (snd p)) (Ok (acc, toks))) by reflexivity.
    destruct t as [[k| | | | | | | |]|]; try exact D.
    destruct k; try exact D.
    bind_with expect_tok_nl. intros r1 (t1 & E1 & W1). apply equals_tok in W1.
    bind_with expect_str_nl. intros [s r2] E2; cbn [fst snd] in E2.
    eapply okp_weaken; [apply IH|]. intros p Hp; cbn beta in Hp. rewrite <- Hp. nl_done.
  Qed.

  (* a statement without sub-block, entered after its keyword: takes no keyword `node` (and [k] is not `node`) *)
  Lemma parse_simple_nl n c k r : okp (fun p => k <> TOK_NODE /\ same_nl r p) (parse_simple stale_erange lend n c k r).
  Proof.
    unfold same_nl, parse_simple. destruct k; try exact I.
    - (* delay *)
      bind_with expect_num_nl. intros [s r1] E1; cbn [fst snd] in E1. bind_with (@okp_any unit). intros _ _.
      cbn [okp snd]. split; [discriminate | nl_done].
    - (* expect *)
      bind_with expect_str_nl. intros [s r1] E1; cbn [fst snd] in E1. cbn [okp snd]. split; [discriminate | nl_done].
    - (* send *)
      bind_with expect_str_nl. intros [s r1] E1; cbn [fst snd] in E1. cbn [okp snd]. split; [discriminate | nl_done].
    - (* setplugstate *)
      bind_with next_nl. intros [t1 r1] H1; cbn [fst snd] in H1.
      destruct t1 as [[k| |lit| | | | | |]|]; try exact I.
      + bind_with expect_tok_nl. intros r2 (t2 & E2 & W2). apply matchpos_tok in W2.
        bind_with expect_num_nl. intros [m2 r3] E3; cbn [fst snd] in E3.
        bind_with parse_state_interps_nl. intros [il r4] E4; unfold same_nl in E4; cbn [snd] in E4.
        bind_with (@okp_any Z). intros mp2 _. cbn [okp snd]. split; [discriminate | nl_done].
      + bind_with expect_num_nl. intros [ma r2] E2; cbn [fst snd] in E2.
        bind_with next_nl. intros [t2 r3] H3; cbn [fst snd] in H3.
        destruct t2 as [[]|];
          try (bind_with parse_state_interps_nl; intros [il r4] E4; unfold same_nl in E4; cbn [snd] in E4;
               bind_with (@okp_any Z); intros mp2 _; cbn [okp snd]; split; [discriminate | nl_done]).
        bind_with expect_num_nl. intros [mb r4] E4; cbn [fst snd] in E4.
        bind_with parse_state_interps_nl. intros [il r5] E5; unfold same_nl in E5; cbn [snd] in E5.
        bind_with (@okp_any Z). intros mp1 _. bind_with (@okp_any Z). intros mp2 _. cbn [okp snd]. split; [discriminate | nl_done].
    - (* setresult *)
      bind_with expect_tok_nl. intros r1 (t1 & E1 & W1). apply matchpos_tok in W1.
      bind_with expect_num_nl. intros [ma r2] E2; cbn [fst snd] in E2.
      bind_with expect_tok_nl. intros r3 (t3 & E3 & W3). apply matchpos_tok in W3.
      bind_with expect_num_nl. intros [mb r4] E4; cbn [fst snd] in E4.
      bind_with parse_result_interps_nl. intros [il r5] E5; unfold same_nl in E5; cbn [snd] in E5.
      destruct il; [exact I|].
      bind_with (@okp_any Z). intros mp1 _. bind_with (@okp_any Z). intros mp2 _. cbn [okp snd]. split; [discriminate | nl_done].
  Qed.

  Lemma parse_stmts_nl : forall n c toks acc, okp (same_nl toks) (parse_stmts stale_erange lend n c toks acc).
  Proof.
    unfold same_nl. induction n as [|n IH]; intros c toks acc; [exact I|].
    cbn [parse_stmts]. bind_with next_nl. intros [t r] H; cbn [fst snd] in H.
    destruct t as [t|]; [|exact I].
    destruct t; try exact I.
    - destruct (is_block_kw k) eqn:B.
      + assert (K : k <> TOK_NODE) by (intros ->; discriminate B).
        bind_with expect_tok_nl. intros r1 (t1 & E1 & W1). apply begin_tok in W1.
        eapply okp_bind; [apply IH|]. intros [b r2] E2; cbn [snd] in E2.
        eapply okp_weaken; [apply IH|]. intros p Hp; cbn beta in Hp. rewrite <- Hp, <- E2. subst.
        rewrite (nl_kw _ _ K). reflexivity.
      + eapply okp_bind; [apply parse_simple_nl|]. intros [s r1] [K E1]; unfold same_nl in E1; cbn [snd] in E1.
        eapply okp_weaken; [apply IH|]. intros p Hp; cbn beta in Hp. rewrite <- Hp, <- E1. subst.
        apply nl_kw, K.
    - destruct acc; [exact I|]. cbn [okp snd]. nl_done.
  Qed.

  Lemma parse_strings_nl : forall n c toks acc, okp (same_nl toks) (parse_strings lend n c toks acc).
  Proof.
    unfold same_nl. induction n as [|n IH]; intros c toks acc; [exact I|].
    cbn [parse_strings]. bind_with next_nl. intros [t r] H; cbn [fst snd] in H.
    destruct t as [t|]; [|exact I].
    destruct t; try exact I.
    - destruct (plugnames_checked && mem_text s acc); [exact I|].
      eapply okp_weaken; [apply IH|]. intros p Hp; cbn beta in Hp. rewrite <- Hp. nl_done.
    - destruct acc; [exact I|]. cbn [okp snd]. nl_done.
  Qed.

  (* the body of a specification: no node line inside *)
  Lemma parse_spec_items_nl : forall n c toks sp0 k, okp (same_nl toks) (parse_spec_items stale_erange lend n c toks sp0 k).
  Proof.
    unfold same_nl. induction n as [|n IH]; intros c toks sp0 k; [exact I|].
    cbn [parse_spec_items]. bind_with next_nl. intros [t r] H; cbn [fst snd] in H.
    destruct t as [t|]; [|exact I].
    destruct t as [kw0| | | | | | | |]; try exact I.
    - destruct kw0; try exact I.
      + (* timeout *)
        bind_with expect_num_nl. intros [s r1] E1; cbn [fst snd] in E1. bind_with (@okp_any unit). intros _ _.
        eapply okp_weaken; [apply IH|]. intros p Hp; cbn beta in Hp. rewrite <- Hp. nl_done.
      + (* pingperiod *)
        bind_with expect_num_nl. intros [s r1] E1; cbn [fst snd] in E1. bind_with (@okp_any unit). intros _ _.
        eapply okp_weaken; [apply IH|]. intros p Hp; cbn beta in Hp. rewrite <- Hp. nl_done.
      + (* script <name> { ... } *)
        bind_with next_nl. intros [t1 r1] H1; cbn [fst snd] in H1.
        destruct t1 as [[k1| | | | | | | |]|]; try exact I.
        destruct (assoc_kw k1 script_table) as [i|] eqn:A; [|exact I].
        assert (K : k1 <> TOK_NODE) by (intros ->; rewrite gen_node_not_script in A; discriminate A).
        bind_with expect_tok_nl. intros r2 (t2 & E2 & W2). apply begin_tok in W2.
        eapply okp_bind; [apply parse_stmts_nl|]. intros [b r3] E3; unfold same_nl in E3; cbn [snd] in E3.
        destruct (has_script i (ss_scripts sp0)); [exact I|].
        eapply okp_weaken; [apply IH|]. intros p Hp; cbn beta in Hp. rewrite <- Hp, <- E3. subst.
        rewrite (nl_kw TOK_SCRIPT) by discriminate. rewrite (nl_kw _ _ K). reflexivity.
    - (* plug name { ... } *)
      bind_with expect_tok_nl. intros r1 (t1 & E1 & W1). apply begin_tok in W1.
      eapply okp_bind; [apply parse_strings_nl|]. intros [l r2] E2; unfold same_nl in E2; cbn [snd] in E2.
      destruct (ss_plugs sp0); [exact I|].
      eapply okp_weaken; [apply IH|]. intros p Hp; cbn beta in Hp. rewrite <- Hp, <- E2. nl_done.
    - destruct k; [exact I|]. cbn [okp snd]. nl_done.
  Qed.
End Seg.
