(* C19, several targets on one line: the command part (stat_cmd / power_cmd: one message per known target,
   phased_power_on_check, send_initial_parent_queries) establishes the invariant of RedfishLive.v at depth 0, and
   [fuel_for] covers the termination measure. *)
From Coq Require Import List NArith ZArith Bool Lia Permutation.
From PM Require Import Base.Bytes Base.Outcome Gen.GenRfp Model.Redfish Spec.RedfishSpec Model.RedfishView
  Proofs.RedfishBase Proofs.RedfishSteps Proofs.RedfishMgmt Proofs.RedfishRules Proofs.RedfishPhased
  Proofs.RedfishInv Proofs.RedfishLive Proofs.RedfishDrain.
Import ListNotations.

Lemma same_cfg_has_path_c st b c p : same_cfg st b -> has_path st c p = has_path b c p.
Proof. intros (_&_&_&E&_&E1&E2&E3). unfold has_path, get_path. now rewrite E, E1, E2, E3. Qed.

Lemma same_cfg_sym a b : same_cfg a b -> same_cfg b a.
Proof. unfold same_cfg. intros (?&?&?&?&?&?&?&?). repeat split; congruence. Qed.

(* ------------------------------------------------------------------ queueing the targets *)
Definition tstep (st st' : state) (acts wts : list pmsg) (unk : list name) : Prop :=
  keeps st st' /\ s_active st' = s_active st ++ acts /\ s_wait st' = s_wait st ++ wts /\
  tres (s_out st') = tres (s_out st) /\ tunk (s_out st') = tunk (s_out st) ++ unk.

Lemma tstep_trans a b c a1 w1 u1 a2 w2 u2 : tstep a b a1 w1 u1 -> tstep b c a2 w2 u2 -> tstep a c (a1 ++ a2) (w1 ++ w2) (u1 ++ u2).
Proof.
  intros (K1&A1&W1&R1&U1) (K2&A2&W2&R2&U2). split; [eapply keeps_trans; eassumption|].
  rewrite A2, A1, W2, W1, R2, R1, U2, U1, !app_assoc. auto.
Qed.

Lemma pmsg_eq_dec (x y : pmsg) : {x = y} + {x <> y}.
Proof. repeat decide equality. Qed.

Section Start.
Variables (b : state) (c : cmd).
Let tab := s_tab b.

Definition tgt (m : pmsg) : Prop := wfm b c m /\ m_out m = true /\ m_poll m = false /\ m_cmd m = c.

Lemma target_ok_okplug p : target_ok b c p = true -> okplug b p /\ has_path b c p = true.
Proof.
  unfold target_ok. intros H. apply andb_true_iff in H as [H ANC]. apply andb_true_iff in H as [H ROOT]. apply andb_true_iff in H as [HPc HPs].
  destruct (find_root (s_tab b) p) as [root| |] eqn:FR; try discriminate.
  destruct (find_root_chain _ _ _ FR) as (pd & l & L & Ch & _ & _). destruct (okchain_of_chain _ _ _ Ch) as [OK E].
  split; [|exact HPc]. split; [exact OK|]. intros a [<-|I]; [exact HPs|]. rewrite forallb_forall in ANC. apply ANC. exact I.
Qed.

Lemma target_one_spec st p : same_cfg st b -> (name_valid tab p = false \/ target_ok b c p = true) ->
  exists acts wts unk, tstep st (target_one c st p) acts wts unk /\
    ((name_valid tab p = false /\ acts = [] /\ wts = [] /\ unk = [p]) \/
     (name_valid tab p = true /\ unk = [] /\ exists m, tgt m /\ m_plug m = p /\
        ((anc tab p = [] /\ acts = [m] /\ wts = []) \/ (anc tab p <> [] /\ acts = [] /\ wts = [m])))).
Proof.
  intros CFG H. assert (ET : s_tab st = tab) by (destruct CFG as (_&_&_&E&_); exact E).
  unfold target_one. rewrite ET. destruct (name_valid tab p) eqn:NV.
  - destruct H as [H|OK]; [discriminate|]. destruct (target_ok_okplug p OK) as [[CH PS] HPc].
    rewrite <- (same_cfg_has_path_c st b c p CFG) in HPc. destruct (has_path_get _ _ _ HPc) as (pd & lp & L & GP).
    set (m := mkMsg c (p_host pd) p (p_parent pd) true false).
    assert (E : exists st', (if cmd_is_stat c then stat_cmd_plug st p true else power_cmd_plug st p c) = (st', Some m) /\
                            grows st st' [] [] /\ s_wait st' = s_wait st).
    { destruct c; [change (cmd_is_stat CStat) with true | change (cmd_is_stat COn) with false | change (cmd_is_stat COff) with false]; cbv iota;
        unfold stat_cmd_plug, power_cmd_plug; rewrite L, GP; destruct (s_verbose st); eexists; (split; [reflexivity|]);
        (split; [try apply grows_emit_diag; apply grows_refl | reflexivity]). }
    destruct E as (st' & -> & G & W).
    assert (TG : tgt m).
    { rewrite ET in L. split; [|auto]. split; cbn [m m_plug m_parent m_host m_out m_cmd m_poll]; [split; assumption | eauto | auto | discriminate | discriminate]. }
    pose proof (okchain_parent _ _ _ CH (eq_ind _ (fun t => lookup t p = Some pd) L _ ET)) as PAR.
    destruct G as (K & A & R & U). rewrite app_nil_r in *.
    unfold queue_target. cbn [m m_parent]. change (anc (s_tab b) p) with (anc tab p) in PAR. revert PAR. destruct (anc tab p) as [|a l] eqn:EA; intros PAR; rewrite PAR.
    + exists [m], [], []. split.
      * split; [exact K|]. cbn [add_active set_active s_active s_wait s_out]. rewrite A, W, R, U, !app_nil_r. auto.
      * right. split; [reflexivity|]. split; [reflexivity|]. exists m. split; [exact TG|]. split; [reflexivity|]. left. auto.
    + exists [], [m], []. split.
      * split; [exact K|]. cbn [add_wait set_wait s_active s_wait s_out]. rewrite A, W, R, U, !app_nil_r. auto.
      * right. split; [reflexivity|]. split; [reflexivity|]. exists m. split; [exact TG|]. split; [reflexivity|]. right. split; [discriminate | auto].
  - exists [], [], [p]. split.
    + split; [repeat split|]. cbn [emitf emit set_out s_active s_wait s_out]. repeat split; rewrite ?tres_app, ?tunk_app; cbn [tres tunk flat_map fst app]; now rewrite ?app_nil_r.
    + left. auto.
Qed.

Lemma targets_spec : forall ts st, same_cfg st b ->
  (forall p, In p ts -> name_valid tab p = false \/ target_ok b c p = true) ->
  exists acts wts, tstep st (fold_left (target_one c) ts st) acts wts (filter (fun p => negb (name_valid tab p)) ts) /\
    (forall m, In m acts -> tgt m /\ anc tab (m_plug m) = []) /\
    (forall m, In m wts -> tgt m /\ anc tab (m_plug m) <> []) /\
    (forall n, cnt n (pend (acts ++ wts)) = cnt n (filter (name_valid tab) ts)).
Proof.
  induction ts as [|p r IH]; intros st CFG H; cbn [fold_left filter].
  - exists [], []. split; [split; [apply keeps_refl | now rewrite !app_nil_r]|]. split; [intros m []|]. split; [intros m [] | reflexivity].
  - destruct (target_one_spec st p CFG (H p (or_introl eq_refl))) as (a1 & w1 & u1 & T1 & CASE).
    assert (CFG1 : same_cfg (target_one c st p) b) by (eapply same_cfg_trans; [apply T1 | exact CFG]).
    destruct (IH _ CFG1 (fun q I => H q (or_intror I))) as (a2 & w2 & T2 & A2 & W2 & C2).
    exists (a1 ++ a2), (w1 ++ w2). destruct CASE as [(NV & -> & -> & ->)|(NV & -> & m & TG & EP & [(EA & -> & ->)|(EA & -> & ->)])]; rewrite NV; cbn [negb app].
    + split; [apply (tstep_trans _ _ _ [] [] [p] _ _ _ T1 T2)|]. auto.
    + split; [apply (tstep_trans _ _ _ [m] [] [] _ _ _ T1 T2)|]. split; [|split; [exact W2|]].
      * intros x [<-|I]; [rewrite EP; auto | now apply A2].
      * intros n. specialize (C2 n). destruct TG as (_ & O & _). cbn [app]. rewrite pend_cons, cnt_app, C2, pend_one, O, EP. cbn [cnt count_occ].
        unfold cnt. cbn [count_occ]. destruct (text_eq_dec p n); lia.
    + split; [apply (tstep_trans _ _ _ [] [m] [] _ _ _ T1 T2)|]. split; [exact A2|]. split.
      * intros x [<-|I]; [rewrite EP; auto | now apply W2].
      * intros n. specialize (C2 n). destruct TG as (_ & O & _). rewrite pend_app in *. cbn [app]. rewrite (pend_cons m w2), !cnt_app in *. rewrite pend_one, O, EP.
        unfold cnt in *. cbn [count_occ]. destruct (text_eq_dec p n); lia.
Qed.

(* ------------------------------------------------------------------ send_initial_parent_queries *)
Lemma sipq_spec : forall fuel st k, s_tab st = tab ->
  (forall w, In w (s_wait st) -> exists R, find_root tab (m_plug w) = WFound R /\ has_path st CStat R = true) ->
  length (s_wait st) - k < fuel ->
  exists qs, grows st (sipq fuel st k) qs [] /\ s_wait (sipq fuel st k) = s_wait st /\
    (forall q, In q qs -> exists w pd, In w (s_wait st) /\ find_root tab (m_plug w) = WFound (p_name pd) /\
                                       lookup tab (p_name pd) = Some pd /\ q = qmsg_of pd) /\
    (forall w R, In w (skipn k (s_wait st)) -> find_root tab (m_plug w) = WFound R ->
                 plugname_active (s_active (sipq fuel st k)) R (m_cmd w) = true).
Proof.
  induction fuel as [|f IH]; intros st k ET HP LT; [lia|]. rewrite sipq_S.
  destruct (nth_error (s_wait st) k) as [w|] eqn:N.
  2:{ exists []. split; [apply grows_refl|]. split; [reflexivity|]. split; [intros q []|]. intros w R I. rewrite (skipn_none _ _ N) in I. destruct I. }
  assert (KL : k < length (s_wait st)) by (apply nth_error_Some; congruence).
  assert (Iw : In w (s_wait st)) by (eapply nth_error_In; eassumption).
  rewrite (skipn_nth _ _ _ N). rewrite ET. destruct (HP w Iw) as (R & FR & HPR). rewrite FR.
  destruct (plugname_active (s_active st) R (m_cmd w)) eqn:PA.
  - destruct (IH st (S k) ET HP ltac:(lia)) as (qs & G & W & Q & P). exists qs. split; [exact G|]. split; [exact W|]. split; [exact Q|].
    intros w' R' [<-|I] FR'; [|now apply P]. rewrite FR in FR'. inversion FR'; subst R'.
    destruct G as (_ & -> & _). now apply plugname_active_app.
  - destruct (scp_silent st R HPR) as (pd & st1 & L & E & G1 & W1). rewrite E.
    pose proof (lookup_name _ _ _ L) as NM.
    assert (ET2 : s_tab (add_active st1 (qmsg_of pd)) = tab) by (cbn [add_active set_active s_tab]; rewrite (keeps_tab _ _ (proj1 G1)); exact ET).
    assert (W2 : s_wait (add_active st1 (qmsg_of pd)) = s_wait st) by exact W1.
    destruct (IH (add_active st1 (qmsg_of pd)) (S k) ET2) as (qs & G & W & Q & P).
    { rewrite W2. intros w' I'. destruct (HP w' I') as (R' & F' & H'). exists R'. split; [exact F'|].
      change (has_path (add_active st1 (qmsg_of pd)) CStat R') with (has_path st1 CStat R'). now rewrite (keeps_has_path _ _ _ _ (proj1 G1)). }
    { rewrite W2. lia. }
    exists ([qmsg_of pd] ++ qs). split.
    { change ([qmsg_of pd] ++ qs) with (([] ++ [qmsg_of pd]) ++ qs). change (@nil name) with (([] ++ []) ++ @nil name).
      eapply grows_trans; [eapply grows_trans; [exact G1 | apply grows_add_active] | exact G]. }
    split; [congruence|]. split.
    + intros q [<-|I]; [|rewrite <- W2; now apply Q]. exists w, pd. rewrite NM. rewrite ET in L. auto.
    + rewrite W2 in P. intros w' R' [<-|I] FR'; [|now apply P]. rewrite FR in FR'. inversion FR'; subst R'.
      destruct G as (_ & -> & _). apply plugname_active_app. cbn [add_active set_active s_active].
      destruct G1 as (_ & -> & _). rewrite app_nil_r, <- NM. apply plugname_active_q.
Qed.

Lemma wsum_le l : wsum l <= 2 * length l.
Proof. induction l as [|m r IH]; [cbn; lia|]. rewrite wsum_cons. cbn [length]. unfold wgt. destruct (m_poll m), (cmd_is_stat (m_cmd m)); lia. Qed.

Lemma any_related_false l : any_related tab l = false ->
  forall m w, In m l -> In w l -> okchain tab (m_plug w) -> ~ In (m_plug m) (anc tab (m_plug w)).
Proof.
  intros AR m w Im Iw CW I. destruct (pmsg_eq_dec m w) as [->|NE].
  - eapply chain_not_in; [exact CW | exact I].
  - assert (any_related tab l = true); [|congruence].
    apply (any_related_pair tab l w m Iw Im); [congruence|]. now apply is_desc_anc.
Qed.


Lemma pend_all_out l : (forall m, In m l -> m_out m = true) -> pend l = map m_plug l.
Proof.
  induction l as [|m r IH]; intros H; [reflexivity|]. rewrite pend_cons, pend_one, (H m (or_introl eq_refl)), IH by (intros; apply H; now right). reflexivity.
Qed.

Lemma fold_emit_grows f L : forall st,
  grows st (fold_left (fun s m => emitf s (TResult (m_plug m)) f [m_plug m]) L st) [] (map m_plug L) /\
  s_wait (fold_left (fun s m => emitf s (TResult (m_plug m)) f [m_plug m]) L st) = s_wait st.
Proof.
  induction L as [|m r IH]; intros st; cbn [fold_left map]; [split; [apply grows_refl | reflexivity]|].
  destruct (IH (emitf st (TResult (m_plug m)) f [m_plug m])) as [G W]. split; [|exact W].
  change (@nil pmsg) with (@nil pmsg ++ []). change (m_plug m :: map m_plug r) with ([m_plug m] ++ map m_plug r).
  eapply grows_trans; [apply grows_emit_result | exact G].
Qed.

(* the state after the command part, before the first pass *)
Lemma start_assemble st1 acts wts U :
  same_cfg st1 b -> s_fault st1 = None -> s_active st1 = acts -> s_wait st1 = wts -> s_delayed st1 = [] ->
  (forall n, name_valid tab n = true -> ts_lookup (s_tstat st1) n <> None) -> tres (s_out st1) = [] -> tunk (s_out st1) = U ->
  s_tstat st1 = s_tstat b -> s_log st1 = [] ->
  (forall m, In m acts -> tgt m /\ anc tab (m_plug m) = []) -> (forall m, In m wts -> tgt m /\ anc tab (m_plug m) <> []) ->
  (c = COn -> wts <> [] -> any_related tab (acts ++ wts) = false) ->
  let st2 := match wts with [] => st1 | _ => send_initial_parent_queries st1 end in
  minv b c 0 [] (s_active st2) [] st2 (pend (acts ++ wts)) U /\ s_tstat st2 = s_tstat st1 /\ length (s_wait st2) = length wts /\ s_delayed st2 = [].
Proof.
  intros CFG FL EA EW ED COV RES UNK ETS ELOG HA HW REL st2.
  assert (ET : s_tab st1 = tab) by (destruct CFG as (_&_&_&E&_); exact E).
  assert (ROOT : forall w, In w wts -> exists R, find_root tab (m_plug w) = WFound R /\ In R (anc tab (m_plug w)) /\ anc tab R = [] /\ okplug b R).
  { intros w I. destruct (HW w I) as ((WF & _) & NE). pose proof (wf_plug _ _ _ WF) as OK. destruct OK as [CH PS].
    destruct (root_spec tab _ CH) as (FR & IN & AR). eexists. split; [exact FR|]. split; [now apply IN|]. split; [exact AR|].
    apply (okplug_anc b (m_plug w)); [split; assumption | now apply IN]. }
  assert (SQ : exists qs, grows st1 st2 qs [] /\ s_wait st2 = wts /\
            (forall q, In q qs -> exists w pd, In w wts /\ find_root tab (m_plug w) = WFound (p_name pd) /\ lookup tab (p_name pd) = Some pd /\ q = qmsg_of pd) /\
            (forall w R, In w wts -> find_root tab (m_plug w) = WFound R -> plugname_active (s_active st2) R (m_cmd w) = true)).
  { subst st2. destruct wts as [|w0 r0] eqn:EWT.
    - exists []. split; [apply grows_refl|]. split; [exact EW|]. split; [intros q [] | intros w R []].
    - rewrite <- EWT in *. unfold send_initial_parent_queries.
      destruct (sipq_spec (scan_fuel st1) st1 0 ET) as (qs & G & W & Q & P).
      { rewrite EW. intros w I. destruct (ROOT w I) as (R & FR & _ & _ & [_ PS]). exists R. split; [exact FR|].
        rewrite (same_cfg_has_path b st1 R CFG). apply PS. now left. }
      { unfold scan_fuel. lia. }
      rewrite EW in *. exists qs. split; [exact G|]. split; [exact W|]. split; [exact Q | exact P]. }
  destruct SQ as (qs & (KS & AS & RS & US) & W2 & Q & P).
  assert (QW : forall q, In q qs -> wfm b c q /\ m_poll q = false /\ m_out q = false /\ anc tab (m_plug q) = []).
  { intros q I. destruct (Q q I) as (w & pd & Iw & FR & L & ->). destruct (ROOT w Iw) as (R & FR' & _ & AR & OK). rewrite FR in FR'. inversion FR' as [E].
    split; [apply wfm_qmsg; [exact L | now rewrite E]|]. split; [reflexivity|]. split; [reflexivity|]. cbn [qmsg_of m_plug]. now rewrite E. }
  assert (DL2 : s_delayed st2 = []) by (destruct KS as (_&_&E&_); congruence).
  assert (TS2 : s_tstat st2 = s_tstat st1) by (destruct KS as (_&E&_); exact E).
  rewrite EA in AS. split; [|split; [exact TS2 | split; [now rewrite W2 | exact DL2]]].
  unfold tab in *. split; rewrite ?DL2, ?W2, ?AS, ?TS2; cbn [app]; rewrite ?app_nil_r.
  - eapply same_cfg_trans; [apply KS | exact CFG].
  - destruct KS as (_&_&_&_&E). congruence.
  - reflexivity.
  - exact COV.
  - intros m I. apply in_app_or in I as [I|I].
    + destruct (HA m I) as ((WF & _) & E). split; [exact WF|]. unfold dp. rewrite E. cbn. lia.
    + destruct (QW m I) as (WF & _ & _ & E). split; [exact WF|]. unfold dp. rewrite E. cbn. lia.
  - intros m I _. apply in_app_or in I as [I|I]; unfold dp; [destruct (HA m I) as (_ & ->) | destruct (QW m I) as (_ & _ & _ & ->)]; reflexivity.
  - intros m [].
  - intros m [].
  - intros m I PM. exfalso. apply in_app_or in I as [I|I]; [destruct (HA m I) as ((_ & _ & NP & _) & _) | destruct (QW m I) as (_ & NP & _)]; congruence.
  - intros w I. destruct (HW w I) as ((WF & O & NP & _) & NE). split; [exact WF|]. split; [exact O|]. split; [exact NP|].
    destruct (ROOT w I) as (R & FR & IR & _). pose proof (P w R I FR) as PA. apply plugname_active_in in PA as (h & Ih & Eh).
    exists h. split; [now rewrite AS in Ih | now rewrite Eh].
  - intros EC m w Im OM Iw. destruct (HW w Iw) as ((WF & _) & _).
    assert (NEW : wts <> []) by (intros E0; rewrite E0 in Iw; destruct Iw).
    apply (any_related_false _ (REL EC NEW) m w); [| apply in_or_app; now right | apply (wf_plug _ _ _ WF)].
    assert (NQ : ~ In m qs) by (intros I; destruct (QW m I) as (_ & _ & O & _); congruence). clear - Im NQ. inapp.
  - intros n. rewrite RS, RES, app_nil_r.
    assert (PQ : pend qs = []).
    { clear - QW. induction qs as [|q r IH]; [reflexivity|]. rewrite pend_cons, pend_one. destruct (QW q (or_introl eq_refl)) as (_ & _ & -> & _).
      apply IH. intros; apply QW; now right. }
    repeat first [rewrite pend_app | rewrite cnt_app]. rewrite PQ. cbn [cnt count_occ]. unfold cnt. cbn [count_occ]. lia.
  - now rewrite US.
  - intros _. exact ETS.
  - assert (s_log st2 = []) as -> by (destruct KS as (_&_&_&E&_); congruence). intros c' p [].
Qed.


(* phased_power_on_check refused everything: nothing is queued, every target has its line *)
Lemma refused_minv st1 acts wts U fa fw :
  same_cfg st1 b -> s_fault st1 = None -> s_active st1 = acts -> s_wait st1 = wts -> s_delayed st1 = [] ->
  (forall n, name_valid tab n = true -> ts_lookup (s_tstat st1) n <> None) -> tres (s_out st1) = [] -> tunk (s_out st1) = U ->
  s_tstat st1 = s_tstat b -> s_log st1 = [] ->
  (forall m, In m (acts ++ wts) -> m_out m = true) ->
  let st2 := set_wait (set_active (fold_left (fun s m => emitf s (TResult (m_plug m)) fw [m_plug m]) wts
                                     (fold_left (fun s m => emitf s (TResult (m_plug m)) fa [m_plug m]) acts st1)) []) [] in
  minv b c 0 [] (s_active st2) [] st2 (pend (acts ++ wts)) U /\ s_tstat st2 = s_tstat st1 /\ s_wait st2 = [] /\ s_delayed st2 = [] /\
  send_initial_parent_queries st2 = st2.
Proof.
  intros CFG FL EA EW ED COV RES UNK ETS ELOG OUT st2.
  destruct (fold_emit_grows fa acts st1) as [(K1 & A1 & R1 & U1) W1]. set (sa := fold_left _ acts st1) in *.
  destruct (fold_emit_grows fw wts sa) as [(K2 & A2 & R2 & U2) W2]. set (sw := fold_left _ wts sa) in *.
  assert (KK : keeps st1 sw) by (eapply keeps_trans; eassumption).
  assert (TS : s_tstat st2 = s_tstat st1) by (destruct KK as (_&E&_); exact E).
  assert (DL : s_delayed st2 = []) by (destruct KK as (_&_&E&_); cbn [st2 set_wait set_active s_delayed]; congruence).
  split; [|split; [exact TS | split; [reflexivity | split; [exact DL | reflexivity]]]].
  split; rewrite ?DL, ?TS; cbn [st2 set_wait set_active s_active s_wait s_out s_fault app].
  - eapply same_cfg_trans; [apply KK | exact CFG].
  - destruct KK as (_&_&_&_&E). congruence.
  - reflexivity.
  - exact COV.
  - intros m [].
  - intros m [].
  - intros m [].
  - intros m [].
  - intros m [].
  - intros m [].
  - intros _ m w [].
  - intros n. rewrite R2, R1, RES. cbn [app pend filter map cnt count_occ]. rewrite pend_all_out by exact OUT. now rewrite map_app.
  - now rewrite U2, U1.
  - intros _. exact ETS.
  - assert (EL : s_log sw = []) by (destruct KK as (_&_&_&E&_); congruence). cbn [s_log]. change (s_log st2) with (s_log sw). rewrite EL. intros c' p [].
Qed.

End Start.
