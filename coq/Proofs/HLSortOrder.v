(* C14: hostlist_sort sorts.  For lists whose numbered ranges are written in one zero-padding format per prefix
   ([fmt_ok W]: with W p the padded width used after prefix p, 0 or 1 = no padding), whose numbers stay below 2^31 and that
   denote at most SORT_MAX_NAMES names, the result of the model's sort denotes the names  render W k  for a list of keys
   k = (prefix, numbered?, number) that is sorted by prefix (byte order, as strcmp), plain name before numbered names, number.

   Without the format hypothesis the statement is false of the faithful model (hostrange_cmp falls back to comparing widths
   when _width_equiv refuses, which is not a consistent order): [sort_unsorted_mixed_width]. *)
From Coq Require Import List Arith NArith ZArith Lia Bool Permutation Sorted.
From PM Require Import Base.Bytes Base.Outcome Gen.GenHL Model.HL Spec.HLSpec Proofs.HLArith Proofs.HLProofs Proofs.HLIndex
  Proofs.HLSort Proofs.HLSortTerm.
From Coq Require Import ZifyBool ZifyNat ZifyN.
Import ListNotations.
Local Open Scope N_scope.
Ltac Zify.zify_post_hook ::= Z.div_mod_to_equations.

(* ================================================================ strcmp order *)
Lemma text_cmp_antisym a : forall b, text_cmp b a = CompOpp (text_cmp a b).
Proof.
  induction a as [|x a IH]; intros [|y b]; cbn [text_cmp CompOpp]; try reflexivity.
  rewrite (N.compare_antisym x y). destruct (x ?= y); cbn [CompOpp]; auto.
Qed.

Lemma text_cmp_lt_trans a : forall b c, text_cmp a b = Lt -> text_cmp b c = Lt -> text_cmp a c = Lt.
Proof.
  induction a as [|x a IH]; intros [|y b] [|z c]; cbn [text_cmp]; try discriminate; auto.
  destruct (N.compare_spec x y) as [E1|L1|G1]; try discriminate;
  destruct (N.compare_spec y z) as [E2|L2|G2]; try discriminate; intros H1 H2.
  - subst. rewrite N.compare_refl. eauto.
  - subst. apply N.compare_lt_iff in L2. now rewrite L2.
  - subst. apply N.compare_lt_iff in L1. now rewrite L1.
  - assert (L : x < z) by lia. apply N.compare_lt_iff in L. now rewrite L.
Qed.

Lemma text_cmp_lt_irrefl a : text_cmp a a <> Lt.
Proof. rewrite text_cmp_refl. discriminate. Qed.

(* ================================================================ keys *)
Definition key : Type := text * bool * N.        (* prefix, numbered?, number *)

(* prefix in strcmp order; a plain name before the numbered names of the same prefix; then the number *)
Definition kle (a b : key) : Prop :=
  let '(p1, s1, n1) := a in let '(p2, s2, n2) := b in
  text_cmp p1 p2 = Lt \/ (p1 = p2 /\ ((s1 = false /\ s2 = true) \/ (s1 = s2 /\ n1 <= n2))).

Lemma kle_refl a : kle a a.
Proof. destruct a as [[p s] n]. cbn. right. split; [reflexivity|]. right. split; [reflexivity|lia]. Qed.

Lemma kle_trans a b c : kle a b -> kle b c -> kle a c.
Proof.
  destruct a as [[p1 s1] n1], b as [[p2 s2] n2], c as [[p3 s3] n3]. cbn.
  intros [L1|[-> H1]] [L2|[-> H2]].
  - left. eapply text_cmp_lt_trans; eauto.
  - left. exact L1.
  - left. exact L2.
  - right. split; [reflexivity|].
    destruct H1 as [[-> ->]|[-> Hn1]], H2 as [[A B]|[-> Hn2]]; try discriminate; auto.
    right. split; [reflexivity|lia].
Qed.

Definition rkey (r : hrange) : key := (hr_prefix r, negb (hr_single r), hr_lo r).
Definition top (r : hrange) : key := (hr_prefix r, negb (hr_single r), hr_hi r).

Definition keys (r : hrange) : list key :=
  if hr_single r then [(hr_prefix r, false, 0)] else map (fun k => (hr_prefix r, true, k)) (rng (hr_lo r) (hr_hi r)).
Definition ekeys (h : hostlist) : list key := flat_map keys h.

Definition render (W : text -> nat) (k : key) : text := let '(p, nb, n) := k in if nb then p ++ pad (W p) n else p.

(* one zero-padding format per prefix: a numbered range prints every number it holds as width W(prefix) would;
   a plain name carries width 0 (hostrange_create_single) *)
Definition fmt_ok (W : text -> nat) (r : hrange) : Prop :=
  if hr_single r then hr_width r = 0%nat
  else Nat.max (hr_width r) (ndigits (hr_lo r)) = Nat.max (W (hr_prefix r)) (ndigits (hr_lo r)).
Definition fmt_okb (W : text -> nat) (r : hrange) : bool :=
  if hr_single r then Nat.eqb (hr_width r) 0
  else Nat.eqb (Nat.max (hr_width r) (ndigits (hr_lo r))) (Nat.max (W (hr_prefix r)) (ndigits (hr_lo r))).
Lemma fmt_okb_ok W r : fmt_okb W r = true -> fmt_ok W r.
Proof. unfold fmt_okb, fmt_ok. destruct (hr_single r); apply Nat.eqb_eq. Qed.
Lemma fmt_forallb W h : forallb (fmt_okb W) h = true -> Forall (fmt_ok W) h.
Proof. intros H. apply Forall_forall. intros r Hr. rewrite forallb_forall in H. now apply fmt_okb_ok, H. Qed.

Definition good (W : text -> nat) (r : hrange) : Prop := wf_range r /\ num31 r /\ fmt_ok W r.

Lemma B31_fits k : k < B31 -> fits k.
Proof. intros H. apply W64_fits. unfold B31, W64 in *. lia. Qed.

(* _width_equiv never refuses two numbers written in the same format *)
Lemma width_equiv_fmt w n wx m wy :
  Nat.max wx (ndigits n) = Nat.max w (ndigits n) -> Nat.max wy (ndigits m) = Nat.max w (ndigits m) ->
  exists a, width_equiv n wx m wy = Some (a, a) /\
            Nat.max a (ndigits n) = Nat.max w (ndigits n) /\ Nat.max a (ndigits m) = Nat.max w (ndigits m).
Proof.
  intros Hx Hy. unfold width_equiv, zp.
  destruct (Nat.eqb_spec (wx - ndigits n) (wy - ndigits n)) as [E1|E1];
  destruct (Nat.eqb_spec (wy - ndigits m) (wx - ndigits m)) as [E2|E2]; cbn [negb andb].
  - exists wy. split; [reflexivity|]. lia.
  - exists wy. split; [reflexivity|]. lia.
  - exists wx. split; [reflexivity|]. lia.
  - exfalso. lia.
Qed.

Lemma fmt_with_width W r w : hr_single r = false ->
  Nat.max w (ndigits (hr_lo r)) = Nat.max (W (hr_prefix r)) (ndigits (hr_lo r)) -> fmt_ok W (with_width r w).
Proof. intros Es H. unfold fmt_ok, with_width; cbn [hr_single hr_width hr_lo hr_prefix]. now rewrite Es. Qed.

Lemma width_combine_fmt W h1 h2 : hr_single h1 = false -> hr_single h2 = false -> hr_prefix h1 = hr_prefix h2 ->
  fmt_ok W h1 -> fmt_ok W h2 ->
  exists a, width_combine h1 h2 = Some (with_width h1 a, with_width h2 a) /\ fmt_ok W (with_width h1 a) /\ fmt_ok W (with_width h2 a).
Proof.
  intros S1 S2 Ep F1 F2. unfold fmt_ok in F1, F2. rewrite S1 in F1. rewrite S2 in F2. rewrite <- Ep in F2.
  destruct (width_equiv_fmt _ _ _ _ _ F1 F2) as (a & E & A1 & A2).
  exists a. unfold width_combine. rewrite E. split; [reflexivity|]. split; apply fmt_with_width; auto. now rewrite <- Ep.
Qed.

Lemma rkey_same_fields x y : same_fields x y -> rkey y = rkey x /\ top y = top x.
Proof. intros (A & B & C & D). unfold rkey, top. now rewrite A, B, C, D. Qed.

Lemma good_with_width W r w : good W r -> fmt_ok W (with_width r w) -> good W (with_width r w).
Proof. intros (A & B & C) F. split; [now apply wf_with_width|]. split; [exact B|exact F]. Qed.

(* hostrange_cmp on two ranges in format W decides the key order *)
Lemma cmp_fmt W y x c y' x' : hostrange_cmp y x = (c, y', x') -> good W y -> good W x ->
  (if (0 <? c)%Z then kle (rkey x) (rkey y) /\ ~ kle (rkey y) (rkey x) else kle (rkey y) (rkey x)) /\
  same_fields y y' /\ same_fields x x' /\ good W y' /\ good W x'.
Proof.
  intros H Gy Gx. pose proof Gy as (Wy & By & Fy). pose proof Gx as (Wx & Bx & Fx).
  assert (Hrefl : forall r, same_fields r r) by (intros r; unfold same_fields; auto).
  unfold hostrange_cmp, prefix_cmp in H. unfold rkey.
  destruct (text_cmp (hr_prefix y) (hr_prefix x)) eqn:Et.
  - apply text_cmp_eq in Et.
    destruct (hr_single y) eqn:Sy, (hr_single x) eqn:Sx; cbn [b2z negb] in *.
    + (* two plain names with the same text *)
      change ((0 - 0 =? 0)%Z) with true in H. cbn match in H.
      unfold wf_range in Wy, Wx. rewrite Sy in Wy. rewrite Sx in Wx. destruct Wy as [Ly _], Wx as [Lx _].
      unfold fmt_ok in Fy, Fx. rewrite Sy in Fy. rewrite Sx in Fx.
      unfold width_combine in H. rewrite Ly, Lx, Fy, Fx, width_equiv_refl in H.
      injection H as <- <- <-.
      change (int_of_ulong (sub64 (hr_lo (with_width y 0)) (hr_lo (with_width x 0)))) with (int_of_ulong (sub64 (hr_lo y) (hr_lo x))).
      rewrite Ly, Lx. change (0 <? int_of_ulong (sub64 0 0))%Z with false. cbn match.
      split; [cbn; right; split; [exact Et|right; split; [reflexivity|lia]]|].
      split; [apply same_fields_with_width|]. split; [apply same_fields_with_width|].
      split; apply good_with_width; try assumption; unfold fmt_ok, with_width; cbn [hr_single hr_width]; (rewrite Sy || rewrite Sx); reflexivity.
    + change ((0 - 1 =? 0)%Z) with false in H. cbn match in H. injection H as <- <- <-.
      change (0 <? 0 - 1)%Z with false. cbn match.
      split; [cbn; right; split; [exact Et|left; auto]|]. repeat split; auto.
    + change ((1 - 0 =? 0)%Z) with false in H. cbn match in H. injection H as <- <- <-.
      change (0 <? 1 - 0)%Z with true. cbn match.
      split; [|repeat split; auto]. split; [cbn; right; split; [now symmetry|left; auto]|].
      cbn. intros [L|[_ [[A _]|[A _]]]]; try discriminate. rewrite Et, text_cmp_refl in L. discriminate.
    + change ((0 - 0 =? 0)%Z) with true in H. cbn match in H.
      destruct (width_combine_fmt W y x Sy Sx Et Fy Fx) as (a & E & Fa & Fb). rewrite E in H. injection H as <- <- <-.
      change (hr_lo (with_width y a)) with (hr_lo y). change (hr_lo (with_width x a)) with (hr_lo x).
      unfold wf_range in Wy, Wx. rewrite Sy in Wy. rewrite Sx in Wx. unfold num31 in By, Bx.
      rewrite cmp_lo_sign by lia.
      split; [|split; [apply same_fields_with_width|split; [apply same_fields_with_width|split; apply good_with_width; assumption]]].
      destruct (N.ltb_spec (hr_lo x) (hr_lo y)) as [L|L].
      * split; [cbn; right; split; [now symmetry|right; split; [reflexivity|lia]]|].
        cbn. intros [L'|[_ [[A _]|[_ A]]]]; try discriminate; [|lia]. rewrite Et, text_cmp_refl in L'. discriminate.
      * cbn; right; split; [exact Et|right; split; [reflexivity|lia]].
  - injection H as <- <- <-. change (0 <? -1)%Z with false. cbn match.
    split; [cbn; left; exact Et|]. repeat split; auto.
  - injection H as <- <- <-. change (0 <? 1)%Z with true. cbn match.
    assert (Et' : text_cmp (hr_prefix x) (hr_prefix y) = Lt) by (rewrite text_cmp_antisym, Et; reflexivity).
    split; [|repeat split; auto]. split; [cbn; left; exact Et'|].
    cbn. intros [L|[E _]]; [rewrite L in Et; discriminate|]. rewrite E, text_cmp_refl in Et. discriminate.
Qed.

(* ================================================================ sorted lists *)
Lemma SS_app {A} (R : A -> A -> Prop) a b : StronglySorted R a -> StronglySorted R b ->
  (forall x y, In x a -> In y b -> R x y) -> StronglySorted R (a ++ b).
Proof.
  induction a as [|x a IH]; intros Ha Hb Hab; [exact Hb|]. apply StronglySorted_inv in Ha as [Ha Hx]. cbn [app].
  constructor.
  - apply IH; auto. intros x' y Hx' Hy. apply Hab; [now right|exact Hy].
  - apply Forall_app. split; [exact Hx|]. apply Forall_forall. intros y Hy. apply Hab; [now left|exact Hy].
Qed.

Lemma SS_app_inv {A} (R : A -> A -> Prop) a b : StronglySorted R (a ++ b) ->
  StronglySorted R a /\ StronglySorted R b /\ (forall x y, In x a -> In y b -> R x y).
Proof.
  induction a as [|x a IH]; intros H; [split; [constructor|split; [exact H|intros ? ? []]]|].
  cbn [app] in H. apply StronglySorted_inv in H as [H Hx]. apply IH in H as (Ha & Hb & Hab). apply Forall_app in Hx as [Hx1 Hx2].
  split; [constructor; assumption|]. split; [exact Hb|].
  intros x' y [<-|Hx'] Hy; [|now apply Hab]. rewrite Forall_forall in Hx2. now apply Hx2.
Qed.

Lemma SS_rev {A} (R : A -> A -> Prop) l : StronglySorted R l -> StronglySorted (fun a b => R b a) (rev l).
Proof.
  induction 1 as [|x l Hl IH Hx]; [constructor|]. cbn [rev]. apply SS_app; [exact IH|repeat constructor|].
  intros y z Hy [<-|[]]. apply in_rev in Hy. rewrite Forall_forall in Hx. now apply Hx.
Qed.

Lemma SS_map {A B} (f : A -> B) (R : B -> B -> Prop) l : StronglySorted (fun a b => R (f a) (f b)) l -> StronglySorted R (map f l).
Proof. induction 1 as [|x l Hl IH Hx]; cbn [map]; constructor; auto. now apply Forall_map. Qed.

Definition kdesc (l : hostlist) : Prop := StronglySorted (fun a b => kle (rkey b) (rkey a)) l.
Definition ksorted (l : hostlist) : Prop := StronglySorted (fun a b => kle (rkey a) (rkey b)) l.

(* ================================================================ the insertion sort sorts *)
Lemma ins_rev_sorted W revp : forall x, Forall (good W) revp -> good W x -> kdesc revp ->
  kdesc (ins_rev x revp) /\ Forall (good W) (ins_rev x revp) /\
  (forall Q : key -> Prop, Q (rkey x) -> Forall (fun z => Q (rkey z)) revp -> Forall (fun z => Q (rkey z)) (ins_rev x revp)).
Proof.
  induction revp as [|y rest IH]; intros x Hg Hx Hd; cbn [ins_rev].
  - split; [constructor; constructor|]. split; [constructor; [exact Hx|constructor]|]. intros Q HQ _. constructor; [exact HQ|constructor].
  - inversion Hg as [|? ? Gy Grest]; subst. apply StronglySorted_inv in Hd as [Hd Hy].
    destruct (hostrange_cmp y x) as [[c y'] x'] eqn:E.
    destruct (cmp_fmt W _ _ _ _ _ E Gy Hx) as (Hord & Sy & Sx & Gy' & Gx').
    destruct (rkey_same_fields _ _ Sy) as [Ky _]. destruct (rkey_same_fields _ _ Sx) as [Kx _].
    destruct (0 <? c)%Z.
    + destruct Hord as [Hle _]. destruct (IH x' Grest Gx' Hd) as (D & G & Tr).
      split; [|split].
      * constructor; [exact D|]. apply (Tr (fun k => kle k (rkey y'))); [rewrite Kx, Ky; exact Hle|]. rewrite Ky. exact Hy.
      * constructor; assumption.
      * intros Q HQ HF. inversion HF as [|? ? Q1 Q2]; subst. constructor; [rewrite Ky; exact Q1|]. apply Tr; [rewrite Kx; exact HQ|exact Q2].
    + split; [|split].
      * constructor; [constructor; [exact Hd|rewrite Ky; exact Hy]|]. constructor; [rewrite Kx, Ky; exact Hord|].
        eapply Forall_impl; [|exact Hy]. cbn beta. intros z Hz. rewrite Kx. eapply kle_trans; eauto.
      * constructor; [exact Gx'|]. constructor; [exact Gy'|exact Grest].
      * intros Q HQ HF. inversion HF as [|? ? Q1 Q2]; subst. constructor; [rewrite Kx; exact HQ|]. constructor; [rewrite Ky; exact Q1|exact Q2].
Qed.

Lemma isort_sorted W h : Forall (good W) h -> ksorted (isort h) /\ Forall (good W) (isort h).
Proof.
  intros Hg. unfold isort.
  assert (G : forall l acc, Forall (good W) acc -> Forall (good W) l -> kdesc acc ->
              kdesc (fold_left (fun acc x => ins_rev x acc) l acc) /\ Forall (good W) (fold_left (fun acc x => ins_rev x acc) l acc)).
  { induction l as [|x l IH]; intros acc Ha Hl Hd; cbn [fold_left]; [auto|].
    inversion Hl; subst. destruct (ins_rev_sorted W acc x Ha) as (D & G & _); auto. }
  destruct (G h [] (Forall_nil _) Hg (SSorted_nil _)) as [D Gd]. split.
  - apply (SS_rev _ _ D).
  - apply Forall_rev. exact Gd.
Qed.

(* ================================================================ hostlist_coalesce keeps the order *)
(* two neighbours of the same prefix do not overlap *)
Definition sep (x y : hrange) : Prop :=
  hr_prefix x = hr_prefix y -> hr_single x = false -> hr_single y = false -> hr_hi x <= hr_lo y.
Fixpoint adjsep (l : hostlist) : Prop :=
  match l with
  | x :: l' => match l' with y :: _ => sep x y | [] => True end /\ adjsep l'
  | [] => True
  end.

Lemma adjsep_short l : (length l <= 1)%nat -> adjsep l.
Proof. destruct l as [|x [|y l]]; cbn [length adjsep]; auto. lia. Qed.

Definition Ord (W : text -> nat) (st : hostlist * nat) : Prop :=
  Forall (fmt_ok W) (fst st) /\ ksorted (fst st) /\ adjsep (skipn (snd st) (fst st)).

Lemma prefix_cmp_same a b : hr_prefix a = hr_prefix b -> hr_single a = hr_single b -> prefix_cmp a b = 0%Z.
Proof. intros E S. unfold prefix_cmp. rewrite E, text_cmp_refl, S. destruct (hr_single b); reflexivity. Qed.

(* the last key of x is at most the first key of everything after it *)
Lemma top_le_later x l : ksorted (x :: l) -> adjsep (x :: l) -> wf_range x -> Forall (fun q => kle (top x) (rkey q)) l.
Proof.
  intros Hs Ha Wx. destruct l as [|q1 l]; [constructor|].
  apply StronglySorted_inv in Hs as [Hs Hx]. inversion Hx as [|? ? Hx1 Hx2]; subst.
  destruct Ha as [Hsep _].
  assert (H1 : kle (top x) (rkey q1)).
  { unfold top, rkey in *. cbn in Hx1. cbn. destruct Hx1 as [L|[E Hx1]]; [left; exact L|]. right. split; [exact E|].
    destruct Hx1 as [[A B]|[A B]]; [left; auto|]. right. split; [exact A|].
    destruct (hr_single x) eqn:Sx.
    - unfold wf_range in Wx. rewrite Sx in Wx. lia.
    - apply Hsep; auto. cbn [negb] in A. destruct (hr_single q1); [discriminate|reflexivity]. }
  constructor; [exact H1|].
  apply StronglySorted_inv in Hs as [_ Hq]. eapply Forall_impl; [|exact Hq]. cbn beta. intros z Hz. eapply kle_trans; eauto.
Qed.

Lemma intersect_fmt W h1 h2 nw hp hx : intersect h1 h2 = Ok (nw, hp, hx) -> good W h1 -> good W h2 ->
  fmt_ok W hp /\ fmt_ok W hx /\ (nw = None -> kle (rkey h1) (rkey h2) -> sep h1 h2).
Proof.
  unfold intersect. intros H G1 G2. pose proof G1 as (W1 & B1 & F1). pose proof G2 as (W2 & B2 & F2).
  destruct (hr_single h1 || hr_single h2) eqn:Es.
  { injection H as <- <- <-. split; [exact F1|]. split; [exact F2|]. intros _ _ _ S1 S2. rewrite S1, S2 in Es. discriminate. }
  apply orb_false_iff in Es as [S1 S2].
  rewrite intersect_cmp_evaluated in H. destruct (hostrange_cmp h1 h2) as [[c h1a] h2a] eqn:Ec.
  destruct (cmp_fmt W _ _ _ _ _ Ec G1 G2) as (Hord & Sa1 & Sa2 & (Wa1 & Ba1 & Fa1) & (Wa2 & Ba2 & Fa2)).
  destruct (0 <? c)%Z.
  { rewrite intersect_order_check in H. injection H as <- <- <-. split; [exact Fa1|]. split; [exact Fa2|].
    intros _ Hle. destruct Hord as [_ Hn]. contradiction. }
  destruct Sa1 as (P1 & L1 & H1 & SS1). destruct Sa2 as (P2 & L2 & H2 & SS2).
  destruct ((prefix_cmp h1a h2a =? 0)%Z && (hr_lo h2a <? hr_hi h1a)) eqn:Ei.
  - apply andb_true_iff in Ei as [Ep _]. apply prefix_cmp_0 in Ep as [Epfx _].
    destruct (width_combine_fmt W h1a h2a) as (a & E & Fa & Fb); try congruence.
    rewrite E in H. injection H as <- <- <-. split; [exact Fa|]. split; [exact Fb|]. discriminate.
  - injection H as <- <- <-. split; [exact Fa1|]. split; [exact Fa2|].
    intros _ _ Epfx T1 T2.
    rewrite prefix_cmp_same in Ei by congruence. cbn [Z.eqb andb] in Ei. apply N.ltb_ge in Ei. lia.
Qed.

Lemma ksorted_ext l l' : Forall2 (fun x y => rkey y = rkey x) l l' -> ksorted l -> ksorted l'.
Proof.
  induction 1 as [|x y l l' Hxy Hl IH]; intros H; [constructor|]. apply StronglySorted_inv in H as [H Hx].
  constructor; [now apply IH|]. clear IH H. induction Hl as [|a b l l' Hab Hl IH]; [constructor|].
  inversion Hx; subst. constructor; [rewrite Hxy, Hab; assumption|now apply IH].
Qed.

Lemma Forall2_refl {A} (R : A -> A -> Prop) l : (forall x, R x x) -> Forall2 R l l.
Proof. intros H. induction l; constructor; auto. Qed.

Lemma skipn_app_exact {A} (a b : list A) n : length a = n -> skipn n (a ++ b) = b.
Proof. intros <-. rewrite skipn_app, skipn_all, Nat.sub_diag. reflexivity. Qed.

Lemma fmt_lo_up W r lo' : hr_single r = false -> hr_lo r <= lo' -> lo' < B31 -> fmt_ok W r -> fmt_ok W (with_lo r lo').
Proof.
  intros S L B F. unfold fmt_ok in *. cbn [with_lo hr_single hr_width hr_lo hr_prefix]. rewrite S in *.
  pose proof (ndigits_mono _ _ L (B31_fits _ B)). lia.
Qed.

Lemma fmt_with_hi W r hi' : fmt_ok W r -> fmt_ok W (with_hi r hi').
Proof. unfold fmt_ok. cbn [with_hi hr_single hr_width hr_lo hr_prefix]. auto. Qed.

Lemma fmt_unit W hp k : hr_single hp = false -> hr_lo hp <= k -> k < B31 -> fmt_ok W hp -> fmt_ok W (unit_range hp k).
Proof.
  intros S L B F. unfold fmt_ok in *. unfold unit_range, mk_range. cbn [hr_single hr_width hr_lo hr_prefix]. rewrite S in *.
  pose proof (ndigits_mono _ _ L (B31_fits _ B)). lia.
Qed.

Lemma ins_list_units hp c m : Forall (fun y => exists k, y = unit_range hp k /\ c <= k <= m) (ins_list hp c m).
Proof.
  unfold ins_list, rng. apply Forall_forall. intros y Hy. apply in_flat_map in Hy as (k & Hk & Hy). apply nseq_In in Hk.
  exists k. split; [|lia].
  apply in_app_or in Hy as [Hy|Hy]; [destruct (c <? k)|destruct (k <? m)]; cbn [In] in Hy; intuition congruence.
Qed.

(* the keys of the pieces of a split, in order *)
Lemma split_mid_ksorted hp hx c m M : hr_single hp = false -> hr_single hx = false -> hr_prefix hx = hr_prefix hp ->
  hr_lo hp <= c -> c <= m -> ksorted (split_mid hp hx c m M).
Proof.
  intros Sp Sx Ep Hac Hcm. unfold split_mid, ksorted.
  assert (Hk : forall k1 k2, k1 <= k2 -> kle (hr_prefix hp, true, k1) (hr_prefix hp, true, k2)).
  { intros k1 k2 Hk. cbn. right. split; [reflexivity|]. right. split; [reflexivity|exact Hk]. }
  pose proof (ins_list_units hp c m) as U. destruct (ins_list_facts hp c m Hcm) as [C _].
  constructor.
  - apply SS_app.
    + (* the one-name ranges come in increasing order *)
      revert C U. generalize (ins_list hp c m). intros l. induction l as [|y l IH]; intros C U; [constructor|].
      destruct C as [C1 C2]. inversion U as [|? ? (k & -> & Hk1) U2]; subst. constructor; [now apply IH|].
      rewrite Forall_forall in C1, U2 |- *. intros z Hz. destruct (U2 z Hz) as (k' & -> & Hk'). specialize (C1 _ Hz).
      unfold rkey, unit_range, mk_range in *. cbn in *. apply Hk. exact C1.
    + repeat constructor.
    + intros y z Hy [<-|[]]. rewrite Forall_forall in U. destruct (U y Hy) as (k & -> & Hk1).
      unfold rkey, unit_range, mk_range. cbn [hr_prefix hr_single hr_lo with_lo with_hi negb]. rewrite Sx, Ep. apply Hk. lia.
  - apply Forall_app. split.
    + rewrite Forall_forall in U |- *. intros y Hy. destruct (U y Hy) as (k & -> & Hk1).
      unfold rkey, unit_range, mk_range. cbn [hr_prefix hr_single hr_lo with_lo with_hi negb]. rewrite Sp. apply Hk. lia.
    + constructor; [|constructor]. unfold rkey. cbn [hr_prefix hr_single hr_lo with_lo with_hi negb]. rewrite Sp, Sx, Ep. apply Hk. lia.
Qed.

Lemma split_mid_keys hp hx c m M y : hr_single hp = false -> hr_single hx = false -> hr_prefix hx = hr_prefix hp ->
  hr_lo hp <= c -> c <= m -> In y (split_mid hp hx c m M) ->
  exists k, rkey y = (hr_prefix hp, true, k) /\ hr_lo hp <= k <= m.
Proof.
  intros Sp Sx Ep Hac Hcm. unfold split_mid. intros [<-|Hy].
  - exists (hr_lo hp). unfold rkey. cbn [hr_prefix hr_single hr_lo with_hi negb]. rewrite Sp. split; [reflexivity|lia].
  - apply in_app_or in Hy as [Hy|[<-|[]]].
    + pose proof (ins_list_units hp c m) as U. rewrite Forall_forall in U. destruct (U y Hy) as (k & -> & Hk).
      exists k. split; [reflexivity|lia].
    + exists m. unfold rkey. cbn [hr_prefix hr_single hr_lo with_lo with_hi negb]. rewrite Sx, Ep. split; [reflexivity|lia].
Qed.

Lemma split_mid_fmt W hp hx c m M : hr_single hp = false -> hr_single hx = false -> hr_lo hp <= c -> hr_lo hx <= c -> c <= m -> m < B31 ->
  fmt_ok W hp -> fmt_ok W hx -> Forall (fmt_ok W) (split_mid hp hx c m M).
Proof.
  intros Sp Sx Hac Hxc Hcm HmB Fp Fx. unfold split_mid. constructor; [now apply fmt_with_hi|]. apply Forall_app. split.
  - pose proof (ins_list_units hp c m) as U. eapply Forall_impl; [|exact U]. cbn beta. intros y (k & -> & Hk).
    apply fmt_unit; auto; lia.
  - repeat constructor. apply fmt_lo_up; [exact Sx|cbn; lia|exact HmB|now apply fmt_with_hi].
Qed.

(* one trip keeps the order invariant *)
Lemma coalesce_step_ord W T h i1 st' : Inv T (h, S i1) -> Ord W (h, S i1) ->
  coalesce_step (h, S i1) = Ok (inl st') -> Ord W st'.
Proof.
  intros (Hwf & H31 & HT & Hi) (Hf & Hs & Ha) Hstep. cbn [fst snd] in *.
  assert (Hi' : (S i1 < length h)%nat) by lia.
  destruct (coalesce_step_shape h i1 Hwf H31 Hi') as (pre & hprev & hnext & post & nw & hp & hx & Eh & Epre & Hint & Fp & Fx & Hshape).
  assert (Hg : Forall (good W) h).
  { apply Forall_forall. intros r Hr. split; [exact (proj1 (Forall_forall _ _) Hwf r Hr)|].
    split; [exact (proj1 (Forall_forall _ _) H31 r Hr)|exact (proj1 (Forall_forall _ _) Hf r Hr)]. }
  assert (Hg' := Hg). rewrite Eh in Hg'. apply Forall_app in Hg' as [Gpre Gmid].
  pose proof (Forall_inv Gmid) as Gp. pose proof (Forall_inv (Forall_inv_tail Gmid)) as Gx.
  pose proof (Forall_inv_tail (Forall_inv_tail Gmid)) as Gpost. clear Gmid.
  assert (Hs' := Hs). unfold ksorted in Hs'. rewrite Eh in Hs'. apply SS_app_inv in Hs' as (Spre & Smid & Scross).
  assert (Hsk : skipn (S (length pre)) (pre ++ hprev :: hnext :: post) = hnext :: post).
  { change (pre ++ hprev :: hnext :: post) with (pre ++ [hprev] ++ hnext :: post). rewrite app_assoc.
    apply skipn_app_exact. rewrite app_length. cbn [length]. lia. }
  rewrite <- Epre in Ha. rewrite Eh, Hsk in Ha.
  destruct (intersect_fmt W _ _ _ _ _ Hint Gp Gx) as (Fhp & Fhx & Hnone).
  destruct (rkey_same_fields _ _ Fp) as [Kp Tp]. destruct (rkey_same_fields _ _ Fx) as [Kx Tx].
  assert (Hpx : kle (rkey hprev) (rkey hnext)).
  { apply StronglySorted_inv in Smid as [_ Hp]. exact (Forall_inv Hp). }
  assert (Hf' := Hf). rewrite Eh in Hf'. apply Forall_app in Hf' as [Fpre Fmid].
  pose proof (Forall_inv_tail (Forall_inv_tail Fmid)) as Fpost. clear Fmid.
  destruct nw as [nw|].
  - (* split *)
    destruct Hshape as [SF Hshape]. cbn zeta in Hshape.
    assert (Est : st' = (pre ++ split_mid hp hx (hr_lo hnext) (mn (hr_hi hprev) (hr_hi hnext)) (mx (hr_hi hprev) (hr_hi hnext)) ++ post,
                         (length (pre ++ split_mid hp hx (hr_lo hnext) (mn (hr_hi hprev) (hr_hi hnext)) (mx (hr_hi hprev) (hr_hi hnext)) ++ post) - 1)%nat))
      by congruence.
    subst st'. clear Hstep.
    destruct SF as [Sp Sx Epfx (Fp1 & Fp2 & Fp3 & Fp4) (Fx1 & Fx2 & Fx3 & Fx4) Ew Hac Hcb Hcd].
    set (c := hr_lo hnext) in *. set (m := mn (hr_hi hprev) (hr_hi hnext)) in *. set (M := mx (hr_hi hprev) (hr_hi hnext)) in *.
    destruct Gp as (_ & Bp & _). destruct Gx as (Wx & Bx & _). unfold num31 in Bp, Bx.
    assert (Hm : c <= m /\ m <= hr_hi hnext /\ m < B31).
    { unfold m, mn, c. destruct (N.ltb_spec (hr_hi hnext) (hr_hi hprev)); lia. }
    destruct Hm as (Hcm & Hmd & HmB).
    assert (Shp : hr_single hp = false) by congruence. assert (Shx : hr_single hx = false) by congruence.
    assert (Ephx : hr_prefix hx = hr_prefix hp) by congruence.
    assert (Hlo : hr_lo hp <= c) by (rewrite Fp2; exact Hac).
    unfold Ord. unfold fst, snd. split; [|split].
    + apply Forall_app. split; [exact Fpre|]. apply Forall_app. split; [|exact Fpost].
      apply split_mid_fmt; auto. rewrite Fx2. unfold c. lia.
    + (* keys: pre <= hprev's first key <= every piece <= hnext's last key <= post *)
      pose proof (top_le_later hnext post) as Htop.
      assert (Sxp : ksorted (hnext :: post)) by (apply StronglySorted_inv in Smid as [Smid _]; exact Smid).
      specialize (Htop Sxp Ha Wx).
      apply SS_app; [exact Spre| |].
      * apply SS_app; [now apply split_mid_ksorted| |].
        -- apply StronglySorted_inv in Sxp as [Sxp _]. exact Sxp.
        -- intros y q Hy Hq. destruct (split_mid_keys hp hx c m M y Shp Shx Ephx Hlo Hcm Hy) as (k & -> & Hk).
           rewrite Forall_forall in Htop. specialize (Htop q Hq). eapply kle_trans; [|exact Htop].
           unfold top. rewrite Sx. cbn [negb]. rewrite Fp1, <- Epfx. cbn. right. split; [reflexivity|]. right. split; [reflexivity|lia].
      * intros p y Hp Hy. apply in_app_or in Hy as [Hy|Hy].
        -- destruct (split_mid_keys hp hx c m M y Shp Shx Ephx Hlo Hcm Hy) as (k & -> & Hk).
           eapply kle_trans; [apply (Scross p hprev Hp (or_introl eq_refl))|].
           unfold rkey. rewrite Sp. cbn [negb]. rewrite Fp1. cbn. right. split; [reflexivity|]. right. split; [reflexivity|lia].
        -- apply (Scross p y Hp). right. right. exact Hy.
    + apply adjsep_short. rewrite skipn_length. lia.
  - (* no split *)
    assert (Est : st' = (pre ++ hp :: hx :: post, i1)) by congruence. subst st'. clear Hstep.
    unfold Ord. unfold fst, snd. split; [|split].
    + apply Forall_app. split; [exact Fpre|]. constructor; [exact Fhp|]. constructor; [exact Fhx|exact Fpost].
    + apply (ksorted_ext h); [|exact Hs]. rewrite Eh. apply Forall2_app; [apply Forall2_refl; reflexivity|].
      constructor; [exact Kp|]. constructor; [exact Kx|apply Forall2_refl; reflexivity].
    + rewrite <- Epre. rewrite skipn_app_exact by reflexivity. cbn [adjsep].
      split; [|split].
      * specialize (Hnone eq_refl Hpx). destruct Fp as (A1 & A2 & A3 & A4). destruct Fx as (B1 & B2 & B3 & B4).
        unfold sep in *. rewrite A1, A3, A4, B1, B2, B4. exact Hnone.
      * destruct Ha as [Ha _]. destruct post as [|q post]; [exact I|]. destruct Fx as (B1 & B2 & B3 & B4).
        unfold sep in *. rewrite B1, B3, B4. exact Ha.
      * destruct Ha as [_ Ha]. exact Ha.
Qed.

(* ================================================================ from sorted, separated ranges to sorted names *)
Lemma names_render W r : good W r -> names r = map (render W) (keys r).
Proof.
  intros (Wr & Br & Fr). unfold keys, fmt_ok, wf_range, num31 in *. destruct (hr_single r) eqn:Sr.
  - rewrite names_single by assumption. reflexivity.
  - rewrite names_nonsingle by assumption. rewrite map_map. apply map_ext_in. intros k Hk. unfold rng in Hk. apply nseq_In in Hk.
    cbn [render]. f_equal. apply pad_zp. unfold zp.
    assert (Hlk : hr_lo r <= k) by lia. assert (Hkb : k < B31) by lia.
    pose proof (ndigits_mono _ _ Hlk (B31_fits _ Hkb)). lia.
Qed.

Lemma nseq_sorted n : forall s, StronglySorted N.le (nseq s n).
Proof.
  induction n as [|n IH]; intros s; cbn [nseq]; constructor; [apply IH|].
  apply Forall_forall. intros k Hk. apply nseq_In in Hk. lia.
Qed.

Lemma keys_sorted r : StronglySorted kle (keys r).
Proof.
  unfold keys. destruct (hr_single r); [repeat constructor|]. apply SS_map.
  unfold rng. generalize (nseq_sorted (N.to_nat (hr_hi r + 1 - hr_lo r)) (hr_lo r)).
  apply StronglySorted_ind; [constructor|]. intros a l Hl IH Ha. constructor; [exact IH|].
  eapply Forall_impl; [|exact Ha]. cbn beta. intros k Hk. cbn. right. split; [reflexivity|]. right. split; [reflexivity|exact Hk].
Qed.

Lemma key_bounds r k : wf_range r -> In k (keys r) -> kle (rkey r) k /\ kle k (top r).
Proof.
  unfold keys, wf_range, rkey, top. destruct (hr_single r) eqn:Sr; cbn [negb].
  - intros [L H] [<-|[]]. rewrite L, H. split; apply kle_refl.
  - intros [L H] Hk. apply in_map_iff in Hk as (j & <- & Hj). unfold rng in Hj. apply nseq_In in Hj.
    split; cbn; right; (split; [reflexivity|]); right; (split; [reflexivity|]); lia.
Qed.

Lemma adjsep_tail x l : adjsep (x :: l) -> adjsep l.
Proof. intros [_ H]. exact H. Qed.

Lemma ekeys_sorted h : wf h -> ksorted h -> adjsep h -> StronglySorted kle (ekeys h).
Proof.
  induction h as [|x l IH]; intros Hwf Hs Ha; [constructor|].
  pose proof (Forall_inv Hwf) as Wx. pose proof (Forall_inv_tail Hwf) as Wl.
  pose proof (top_le_later x l Hs Ha Wx) as Htop.
  apply StronglySorted_inv in Hs as [Hs _]. unfold ekeys. cbn [flat_map].
  apply SS_app; [apply keys_sorted|apply IH; [exact Wl|exact Hs|exact (adjsep_tail _ _ Ha)]|].
  intros k k' Hk Hk'. apply in_flat_map in Hk' as (y & Hy & Hk').
  destruct (key_bounds x k Wx Hk) as [_ K1].
  assert (Wy : wf_range y) by (eapply Forall_forall; [exact Wl|exact Hy]).
  destruct (key_bounds y k' Wy Hk') as [K2 _].
  rewrite Forall_forall in Htop. eapply kle_trans; [exact K1|]. eapply kle_trans; [apply (Htop y Hy)|exact K2].
Qed.

Lemma expand_render W h : Forall (good W) h -> expand h = map (render W) (ekeys h).
Proof.
  induction 1 as [|x l Hx Hl IH]; [reflexivity|]. unfold ekeys. rewrite expand_cons. cbn [flat_map]. rewrite map_app.
  rewrite <- (names_render W x Hx). f_equal. exact IH.
Qed.

(* hostlist_collapse joins neighbours: the keys stay the same *)
Lemma try_join_keys t r t' r' : try_join t r = Some (t', r') -> wf_range t -> wf_range r -> keys t' = keys t ++ keys r.
Proof.
  unfold try_join. destruct ((prefix_cmp t r =? 0)%Z) eqn:Ep; cbn [andb]; [|discriminate].
  destruct (hr_hi t =? sub64 (hr_lo r) 1) eqn:Eh; [|discriminate].
  destruct (width_combine t r) as [[t1 r1]|] eqn:Ew; [|discriminate].
  intros H Ht Hr. injection H as <- <-.
  apply prefix_cmp_0 in Ep as [Epfx Esg]. apply N.eqb_eq in Eh.
  destruct (width_combine_shape _ _ _ _ Ew) as (Ht1 & Hr1 & _).
  unfold wf_range in Ht, Hr. rewrite Esg in Ht.
  destruct (hr_single r) eqn:Esr.
  { destruct Ht as [_ Hth]. destruct Hr as [Hrl _]. rewrite Hth, Hrl in Eh. change (sub64 0 1) with ULONG_MAX in Eh. discriminate. }
  destruct Ht as [Htl Hth]. destruct Hr as [Hrl Hrh].
  assert (Hlo : hr_lo r = hr_hi t + 1).
  { destruct (N.eq_dec (hr_lo r) 0) as [Hz|Hz].
    - rewrite Hz in Eh. change (sub64 0 1) with ULONG_MAX in Eh. lia.
    - unfold sub64, ULONG_MAX, W64 in *. rewrite Eh. assert (hr_lo r < 18446744073709551616) by lia.
      replace (hr_lo r + 18446744073709551616 - 1) with ((hr_lo r - 1) + 1 * 18446744073709551616) by lia.
      rewrite N.mod_add by lia. rewrite N.mod_small by lia. lia. }
  rewrite Ht1, Hr1. unfold keys, with_hi, with_width; cbn [hr_single hr_prefix hr_lo hr_hi]. rewrite Esg, Esr, Epfx.
  rewrite <- map_app. f_equal. unfold rng.
  replace (N.to_nat (hr_hi r + 1 - hr_lo t)) with (N.to_nat (hr_hi t + 1 - hr_lo t) + N.to_nat (hr_hi r + 1 - hr_lo r))%nat by lia.
  rewrite nseq_app. f_equal. f_equal. lia.
Qed.

Lemma collapse_keys h : wf h -> ekeys (collapse h) = ekeys h.
Proof.
  induction 1 as [|x rest Hx Hrest IH]; cbn [collapse]; [reflexivity|].
  destruct (collapse_sound rest Hrest) as [_ Hw].
  destruct (collapse rest) as [|y rest'] eqn:Ec.
  - unfold ekeys in *. cbn [flat_map]. now rewrite <- IH.
  - pose proof (Forall_inv Hw) as Hy.
    destruct (try_join x y) as [[x' y']|] eqn:Ej.
    + unfold ekeys in *. cbn [flat_map] in *. rewrite <- IH. rewrite (try_join_keys _ _ _ _ Ej Hx Hy). now rewrite app_assoc.
    + unfold ekeys in *. cbn [flat_map] in *. rewrite <- IH. reflexivity.
Qed.

(* hostlist_collapse keeps the array sorted and its neighbours apart *)
Lemma try_join_fields t r t' r' : try_join t r = Some (t', r') ->
  hr_prefix t' = hr_prefix t /\ hr_single t' = hr_single t /\ hr_lo t' = hr_lo t /\ hr_hi t' = hr_hi r /\
  hr_prefix r = hr_prefix t /\ hr_single r = hr_single t.
Proof.
  unfold try_join. destruct ((prefix_cmp t r =? 0)%Z) eqn:Ep; cbn [andb]; [|discriminate].
  destruct (hr_hi t =? sub64 (hr_lo r) 1); [|discriminate].
  destruct (width_combine t r) as [[t1 r1]|] eqn:Ew; [|discriminate].
  intros H. injection H as <- <-. apply prefix_cmp_0 in Ep as [Epfx Esg].
  destruct (width_combine_shape _ _ _ _ Ew) as (Ht1 & Hr1 & _). rewrite Ht1, Hr1. cbn. repeat split; congruence.
Qed.

Lemma collapse_transfer (Q : key -> Prop) h : Forall (fun z => Q (rkey z)) h -> Forall (fun z => Q (rkey z)) (collapse h).
Proof.
  induction 1 as [|x rest Hx Hrest IH]; cbn [collapse]; [constructor|].
  destruct (collapse rest) as [|y rest']; [constructor; [exact Hx|constructor]|].
  destruct (try_join x y) as [[x' y']|] eqn:Ej.
  - destruct (try_join_fields _ _ _ _ Ej) as (A & B & C & _). constructor; [|exact (Forall_inv_tail IH)].
    unfold rkey. rewrite A, B, C. exact Hx.
  - constructor; [exact Hx|exact IH].
Qed.

Lemma collapse_head x rest : exists x' rest', collapse (x :: rest) = x' :: rest' /\ rkey x' = rkey x.
Proof.
  cbn [collapse]. destruct (collapse rest) as [|y rest']; [eauto|].
  destruct (try_join x y) as [[x' y']|] eqn:Ej; [|eauto].
  destruct (try_join_fields _ _ _ _ Ej) as (A & B & C & _). exists x', rest'. split; [reflexivity|]. unfold rkey. now rewrite A, B, C.
Qed.

Lemma sep_rkey x y y' : rkey y' = rkey y -> sep x y -> sep x y'.
Proof.
  unfold rkey, sep. intros E H. injection E as E1 E2 E3. rewrite E1, E3.
  assert (E4 : hr_single y' = hr_single y) by (destruct (hr_single y'), (hr_single y); cbn in E2; congruence). rewrite E4. exact H.
Qed.

Lemma collapse_ord h : ksorted h -> adjsep h -> ksorted (collapse h) /\ adjsep (collapse h).
Proof.
  induction h as [|x rest IH]; intros Hs Ha; [split; [constructor|exact I]|].
  apply StronglySorted_inv in Hs as [Hs Hx]. destruct Ha as [Hsep Ha]. destruct (IH Hs Ha) as [Sc Ac].
  pose proof (collapse_transfer (fun k => kle (rkey x) k) rest Hx) as Tx.
  cbn [collapse]. destruct (collapse rest) as [|y rest'] eqn:Ec; [split; [repeat constructor|cbn; auto]|].
  assert (Hxy : sep x y).
  { destruct rest as [|y0 rest0]; [discriminate|]. destruct (collapse_head y0 rest0) as (y1 & r1 & E1 & K1).
    rewrite Ec in E1. injection E1 as <- <-. eapply sep_rkey; eauto. }
  apply StronglySorted_inv in Sc as [Sc Hy]. destruct Ac as [Hyz Ac].
  destruct (try_join x y) as [[x' y']|] eqn:Ej.
  - destruct (try_join_fields _ _ _ _ Ej) as (A & B & C & D & E & F).
    assert (K : rkey x' = rkey x) by (unfold rkey; now rewrite A, B, C).
    split.
    + constructor; [exact Sc|]. rewrite K. exact (Forall_inv_tail Tx).
    + cbn [adjsep]. split; [|exact Ac]. destruct rest' as [|z rest'']; [exact I|].
      unfold sep in *. rewrite A, B, D, <- E, <- F. exact Hyz.
  - split.
    + constructor; [constructor; assumption|exact Tx].
    + cbn [adjsep]. split; [exact Hxy|]. split; [exact Hyz|exact Ac].
Qed.

(* ================================================================ hostlist_sort sorts *)
Definition InvOrd (W : text -> nat) (T : N) (st : hostlist * nat) : Prop := Inv T st /\ Ord W st.

Lemma coalesce_step_progress_ord W T st : InvOrd W T st ->
  (exists h', coalesce_step st = Ok (inr h') /\ st = (h', 0%nat)) \/
  (exists st', coalesce_step st = Ok (inl st') /\ InvOrd W T st' /\ mu T st' + 1 <= mu T st).
Proof.
  intros [HI HO]. destruct (coalesce_step_progress T st HI) as [H|(st' & E & HI' & Hm)]; [left; exact H|].
  right. exists st'. split; [exact E|]. split; [|exact Hm]. split; [exact HI'|].
  destruct st as [h [|i1]]; [discriminate|]. eapply coalesce_step_ord; eauto.
Qed.

Lemma good_all W h : wf h -> nums31 h -> Forall (fmt_ok W) h -> Forall (good W) h.
Proof.
  intros A B C. apply Forall_forall. intros r Hr. split; [exact (proj1 (Forall_forall _ _) A r Hr)|].
  split; [exact (proj1 (Forall_forall _ _) B r Hr)|exact (proj1 (Forall_forall _ _) C r Hr)].
Qed.
Lemma good_fmt W h : Forall (good W) h -> Forall (fmt_ok W) h.
Proof. intros H. eapply Forall_impl; [|exact H]. intros r (_ & _ & F). exact F. Qed.

Theorem coalesce_sorted W h : wf h -> nums31 h -> nnames h <= SORT_MAX_NAMES -> Forall (fmt_ok W) h -> ksorted h ->
  exists h', coalesce h = Ok h' /\ Permutation (expand h') (expand h) /\ wf h' /\
    expand h' = map (render W) (ekeys h') /\ StronglySorted kle (ekeys h') /\ ksorted h' /\ adjsep h'.
Proof.
  intros Hwf H31 HT Hf Hs.
  assert (HI : InvOrd W (nnames h) (h, (length h - 1)%nat)).
  { split; [repeat split; cbn [fst snd]; auto|]. split; [exact Hf|]. split; [exact Hs|]. cbn [fst snd].
    apply adjsep_short. rewrite skipn_length. lia. }
  destruct (coalesce_pow_finishes (InvOrd W (nnames h)) (mu (nnames h)) (coalesce_step_progress_ord W (nnames h)) COALESCE_LOG_FUEL _ HI)
    as (h1 & E & ((W1 & B1 & _ & _) & (F1 & S1 & A1))).
  { eapply N.le_lt_trans; [apply mu_start; auto|]. apply sort_bound. exact HT. }
  cbn [fst snd skipn] in *.
  assert (Ec : coalesce h = Ok (collapse h1)) by (unfold coalesce; rewrite E; reflexivity).
  exists (collapse h1). split; [exact Ec|]. destruct (coalesce_sound _ _ Ec Hwf) as [P Wc]. split; [exact P|]. split; [exact Wc|].
  destruct (collapse_sound h1 W1) as [Ee _]. rewrite (collapse_keys h1 W1). split; [|split].
  - rewrite Ee. apply expand_render. now apply good_all.
  - now apply ekeys_sorted.
  - now apply collapse_ord.
Qed.

Theorem sort_sorted W h : wf h -> nums31 h -> nnames h <= SORT_MAX_NAMES -> Forall (fmt_ok W) h ->
  exists h', sort h = Ok h' /\ Permutation (expand h') (expand h) /\ wf h' /\
    (exists ks, expand h' = map (render W) ks /\ StronglySorted kle ks) /\ ksorted h' /\ adjsep h'.
Proof.
  intros Hwf H31 HT Hf. unfold sort. destruct (length h <=? 1)%nat eqn:El.
  - exists h. split; [reflexivity|]. split; [apply Permutation_refl|]. split; [exact Hwf|].
    apply Nat.leb_le in El.
    assert (Hk : ksorted h) by (destruct h as [|x [|y l]]; [constructor|repeat constructor|cbn [length] in El; lia]).
    split; [|split; [exact Hk|now apply adjsep_short]].
    exists (ekeys h). split; [apply expand_render; now apply good_all|].
    apply ekeys_sorted; [exact Hwf|exact Hk|now apply adjsep_short].
  - destruct (isort_sound h Hwf) as [P Wi].
    destruct (isort_sorted W h (good_all W h Hwf H31 Hf)) as [Ss Gs].
    destruct (coalesce_sorted W (isort h) Wi (isort_nums31 h H31)) as (h' & E & P' & W' & Er & Sk & Sr & Ar); auto.
    { unfold nnames in *. rewrite (Permutation_length P). exact HT. }
    { now apply good_fmt. }
    exists h'. split; [exact E|]. split; [eapply Permutation_trans; eauto|]. split; [exact W'|].
    split; [exists (ekeys h'); auto|]. split; assumption.
Qed.

(* ---------------------------------------------------------------- without one format per prefix the result need not be sorted *)
Definition names_of (s : String.string) : outcome (list text) :=
  bind (create (bs s)) (fun o => match o with Some h => omap expand (sort h) | None => Ok [] end).

(* t01 (width 2) after t10: hostrange_cmp orders t9 < t01 by width, t9 < t10 and t01 < t10 by number *)
Example sort_unsorted_mixed_width :
  names_of "t01,t[9-10],t[9-10]"%string = Ok [bs "t9"%string; bs "t9"%string; bs "t10"%string; bs "t10"%string; bs "t01"%string].
Proof. vm_compute. reflexivity. Qed.

(* the OPEN statement of C14_sort (sortedness for every well-formed list) is false of the faithful model: in the result below
   t10 stands before t01, both printed with width 2, and hostrange_cmp itself says t10 > t01 *)
Theorem sort_order_refuted : exists h h' pre x y post,
  create (bs "t01,t[9-10],t[9-10]"%string) = Ok (Some h) /\ wf h /\ nums31 h /\ nnames h <= SORT_MAX_NAMES /\
  sort h = Ok h' /\ h' = pre ++ x :: y :: post /\
  names x = [bs "t10"%string] /\ names y = [bs "t01"%string] /\ (0 < fst (fst (hostrange_cmp x y)))%Z.
Proof.
  exists [mk_range (bs "t"%string) 1 1 2; mk_range (bs "t"%string) 9 10 1; mk_range (bs "t"%string) 9 10 1].
  exists [mk_range (bs "t"%string) 9 9 1; mk_range (bs "t"%string) 9 10 1; mk_range (bs "t"%string) 10 10 2; mk_range (bs "t"%string) 1 1 2].
  exists [mk_range (bs "t"%string) 9 9 1; mk_range (bs "t"%string) 9 10 1], (mk_range (bs "t"%string) 10 10 2), (mk_range (bs "t"%string) 1 1 2), [].
  split; [vm_compute; reflexivity|].
  split; [repeat (apply Forall_cons || apply Forall_nil); vm_compute; (split; [discriminate|reflexivity])|].
  split; [apply nums31_forallb; vm_compute; reflexivity|].
  split; [vm_compute; discriminate|].
  repeat split; vm_compute; reflexivity.
Qed.

(* ---------------------------------------------------------------- boolean form of the hypotheses *)
Corollary sort_sorted_b W h : sortable h = true -> forallb (fmt_okb W) h = true ->
  exists h', sort h = Ok h' /\ Permutation (expand h') (expand h) /\ wf h' /\
    (exists ks, expand h' = map (render W) ks /\ StronglySorted kle ks) /\ ksorted h' /\ adjsep h'.
Proof.
  unfold sortable. intros H F. apply andb_true_iff in H as [H C]. apply andb_true_iff in H as [A B].
  apply sort_sorted; [now apply wf_forallb|now apply nums31_forallb|now apply N.leb_le|now apply fmt_forallb].
Qed.
