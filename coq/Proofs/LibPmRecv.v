(* C16: the receive loop of _server_recv_response -- totality (no access outside the buffer) and independence of
   the segmentation *)
From Coq Require Import List NArith ZArith Bool Lia.
From PM Require Import Base.Bytes Base.Outcome Gen.GenConsts Gen.GenLibPm Model.LibPm Spec.ReplySpec Proofs.LibPmBase.
Import ListNotations.
Local Open Scope Z_scope.

(* the bytes received so far, oldest first *)
Definition data (b : rbuf) : text := rev (rb_rev b).
Definition wf (b : rbuf) : Prop := rb_count b = zlen (rb_rev b) /\ rb_count b <= rb_cap b.

Lemma linemax_pos : 0 < CP_LINEMAX.
Proof. reflexivity. Qed.

Lemma wf_empty : wf rb_empty.
Proof. split; cbn; lia. Qed.

Lemma data_len b : wf b -> zlen (data b) = rb_count b.
Proof. intros [H _]. unfold data. rewrite zlen_rev. auto. Qed.

Lemma grow_wf b : wf b -> wf (rb_grow b) /\ data (rb_grow b) = data b /\ rb_count (rb_grow b) < rb_cap (rb_grow b).
Proof.
  intros [H1 H2]. unfold rb_grow. pose proof linemax_pos.
  destruct (rb_cap b - rb_count b =? 0) eqn:E; unfold wf, data; cbn [rb_rev rb_count rb_cap].
  - apply Z.eqb_eq in E. repeat split; auto; lia.
  - apply Z.eqb_neq in E. repeat split; auto; lia.
Qed.

Lemma push_ok b x : wf b -> rb_count b < rb_cap b ->
  exists b', rb_push b x = Ok b' /\ wf b' /\ data b' = data b ++ [x] /\ rb_cap b' = rb_cap b /\ rb_count b' = rb_count b + 1.
Proof.
  intros [H1 H2] H3. unfold rb_push. destruct (rb_cap b <=? rb_count b) eqn:E; [apply Z.leb_le in E; lia|].
  eexists. split; [reflexivity|]. unfold wf, data; cbn [rb_rev rb_count rb_cap rev]. rewrite zlen_cons. repeat split; auto; lia.
Qed.

(* buf[|pre|] when the content is pre ++ x :: post *)
Lemma get_at b pre x post : wf b -> data b = pre ++ x :: post -> rb_get b (zlen pre) = Ok x.
Proof.
  intros W E. pose proof (data_len b W) as L. destruct W as [H1 H2].
  rewrite E, zlen_app, zlen_cons in L. pose proof (zlen_nonneg pre). pose proof (zlen_nonneg post).
  unfold rb_get.
  destruct (zlen pre <? 0) eqn:E1; [apply Z.ltb_lt in E1; lia|].
  destruct (rb_cap b <=? zlen pre) eqn:E2; [apply Z.leb_le in E2; lia|].
  destruct (rb_count b <=? zlen pre) eqn:E3; [apply Z.leb_le in E3; lia|].
  assert (R : rb_rev b = rev post ++ x :: rev pre).
  { unfold data in E. apply (f_equal (@rev byte)) in E. rewrite rev_involutive, rev_app_distr in E. cbn [rev] in E.
    rewrite <- app_assoc in E. exact E. }
  replace (Z.to_nat (rb_count b - 1 - zlen pre)) with (length (rev post)).
  - rewrite R, nth_error_app2, Nat.sub_diag by lia. reflexivity.
  - rewrite rev_length. rewrite zlen_length in L. rewrite !zlen_length in *. lia.
Qed.

(* strncmp against a NUL-free string wholly inside the received bytes *)
Lemma strncmp_eq_spec b s2 : wf b -> no_nul s2 ->
  forall pre rest, data b = pre ++ rest -> zlen s2 <= zlen rest ->
  strncmp_eq b (zlen pre) s2 = Ok (is_prefix s2 rest).
Proof.
  intros W. induction s2 as [|c s2 IH]; intros NN pre rest E L; cbn [strncmp_eq is_prefix]; [reflexivity|].
  destruct rest as [|x rest]; [rewrite zlen_cons in L; cbn [zlen] in L; pose proof (zlen_nonneg s2); lia|].
  rewrite (get_at b pre x rest W E). cbn [bind].
  unfold beq at 1. rewrite N.eqb_sym. destruct (N.eqb c x) eqn:Ecx; cbn [andb]; [|reflexivity].
  apply N.eqb_eq in Ecx. subst x.
  destruct (beq c NUL) eqn:EN.
  - apply beq_eq in EN. exfalso. apply NN. left. auto.
  - replace (zlen pre + 1) with (zlen (pre ++ [c])) by (rewrite zlen_app; reflexivity).
    apply IH.
    + intros I. apply NN. right. exact I.
    + rewrite <- app_assoc. exact E.
    + rewrite !zlen_cons in L. lia.
Qed.

Lemma prompt_no_nul : no_nul CP_PROMPT.
Proof. unfold no_nul. cbv. intuition discriminate. Qed.

Definition ends_prompt (s : text) : bool := is_prefix (rev CP_PROMPT) (rev s).

Lemma ends_prompt_spec s : ends_prompt s = true <-> ends_with s CP_PROMPT.
Proof. apply is_prefix_rev_ends_with. Qed.

(* split a list at a distance from its end *)
Lemma split_tail (s : text) n : (n <= length s)%nat -> exists pre rest, s = pre ++ rest /\ length rest = n.
Proof.
  intros H. exists (firstn (length s - n) s), (skipn (length s - n) s). split.
  - symmetry. apply firstn_skipn.
  - rewrite skipn_length. lia.
Qed.

Lemma is_prefix_same_len p s : length p = length s -> is_prefix p s = true <-> p = s.
Proof.
  intros L. rewrite is_prefix_spec. split.
  - intros [r ->]. rewrite app_length in L. destruct r; [now rewrite app_nil_r|]. cbn in L. lia.
  - intros ->. exists []. now rewrite app_nil_r.
Qed.

Lemma strncmpend_spec b : wf b -> strncmpend b CP_PROMPT = Ok (ends_prompt (data b)).
Proof.
  intros W. unfold strncmpend. pose proof (data_len b W) as L.
  destruct (rb_count b <? zlen CP_PROMPT) eqn:E.
  - apply Z.ltb_lt in E. f_equal. symmetry. apply not_true_iff_false. intros H. apply ends_prompt_spec in H as [a H].
    rewrite H, zlen_app in L. pose proof (zlen_nonneg a). lia.
  - apply Z.ltb_ge in E.
    destruct (split_tail (data b) (length CP_PROMPT)) as (pre & rest & E1 & E2).
    { rewrite !zlen_length in *. lia. }
    replace (rb_count b - zlen CP_PROMPT) with (zlen pre).
    2:{ rewrite <- L, E1, zlen_app, (zlen_length rest), E2, !zlen_length. lia. }
    rewrite (strncmp_eq_spec b CP_PROMPT W prompt_no_nul pre rest E1).
    2:{ rewrite !zlen_length, E2. lia. }
    f_equal. apply eq_true_iff_eq. rewrite is_prefix_same_len by (symmetry; exact E2). rewrite ends_prompt_spec, E1. split.
    + intros ->. exists pre. reflexivity.
    + intros [a H]. apply (f_equal (@rev byte)) in H. rewrite !rev_app_distr in H.
      assert (LL : length (rev rest) = length (rev CP_PROMPT)) by (rewrite !rev_length; exact E2).
      apply app_eq_len in H; [|exact LL]. destruct H as [H _].
      apply (f_equal (@rev byte)) in H. rewrite !rev_involutive in H. auto.
Qed.

(* ------------------------------------------------------------------ feed: one chunk *)
Ltac splits := repeat match goal with |- _ /\ _ => split end.
Lemma feed_spec c : forall b, wf b -> rb_count b < rb_cap b ->
  exists m b' rem, feed b c = Ok (m, b', rem) /\ wf b' /\ data b' ++ rem = data b ++ c /\
    (m = true -> ends_with (data b') CP_PROMPT) /\
    (m = false -> rem = [] /\ (c <> [] -> ~ ends_with (data b ++ c) CP_PROMPT)).
Proof.
  induction c as [|x c IH]; intros b W S; cbn [feed].
  - exists false, b, []. split; [reflexivity|]. split; [exact W|]. split; [reflexivity|]. split; [discriminate|].
    intros _. split; [reflexivity|]. intros H; congruence.
  - destruct (push_ok b x W S) as (b1 & P & W1 & D1 & C1 & N1). rewrite P. cbn [bind].
    destruct c as [|y c].
    + rewrite (strncmpend_spec b1 W1). cbn [bind]. exists (ends_prompt (data b1)), b1, [].
      split; [reflexivity|]. split; [exact W1|]. split; [rewrite app_nil_r; exact D1|]. split.
      * intros H. apply ends_prompt_spec. exact H.
      * intros H. split; [reflexivity|]. intros _ H2. rewrite <- D1 in H2. apply ends_prompt_spec in H2. congruence.
    + destruct (rb_cap b1 - rb_count b1 =? 0) eqn:E.
      * rewrite (strncmpend_spec b1 W1). cbn [bind]. destruct (ends_prompt (data b1)) eqn:EP.
        -- exists true, b1, (y :: c). split; [reflexivity|]. split; [exact W1|].
           split; [rewrite D1, <- app_assoc; reflexivity|]. split; [|discriminate].
           intros _. apply ends_prompt_spec. exact EP.
        -- destruct (grow_wf b1 W1) as (W2 & D2 & S2).
           destruct (IH (rb_grow b1) W2 S2) as (m & b' & rem & F & W' & D' & M1 & M0).
           exists m, b', rem. rewrite F. split; [reflexivity|]. split; [exact W'|].
           split; [rewrite D', D2, D1, <- app_assoc; reflexivity|]. split; [exact M1|].
           intros Hm. destruct (M0 Hm) as [Hr M]. split; [exact Hr|]. intros _.
           rewrite D2, D1, <- app_assoc in M. apply M. discriminate.
      * apply Z.eqb_neq in E. destruct W1 as [W1a W1b].
        destruct (IH b1 (conj W1a W1b)) as (m & b' & rem & F & W' & D' & M1 & M0); [lia|].
        exists m, b', rem. rewrite F. split; [reflexivity|]. split; [exact W'|].
        split; [rewrite D', D1, <- app_assoc; reflexivity|]. split; [exact M1|].
        intros Hm. destruct (M0 Hm) as [Hr M]. split; [exact Hr|]. intros _.
        rewrite D1, <- app_assoc in M. apply M. discriminate.
Qed.

(* ------------------------------------------------------------------ the loop *)
(* the loop always returns; at EOF with PM_ESERVEREOF, otherwise with a buffer that ends with the prompt and holds
   exactly the bytes taken from the chunks *)
Lemma recv_loop_total chunks : forall b, wf b ->
  exists err b' rest, recv_loop b chunks = Ok (err, b', rest) /\ wf b' /\
    ((err = PM_ESERVEREOF) \/
     (err = PM_ESUCCESS /\ ends_with (data b') CP_PROMPT /\ data b' ++ concat rest = data b ++ concat chunks)).
Proof.
  induction chunks as [|c chunks IH]; intros b W; cbn [recv_loop].
  - exists PM_ESERVEREOF, b, []. auto.
  - destruct c as [|x c].
    + exists PM_ESERVEREOF, (rb_grow b), chunks. split; [reflexivity|]. split; [apply grow_wf; auto|]. auto.
    + destruct (grow_wf b W) as (W2 & D2 & S2).
      destruct (feed_spec (x :: c) (rb_grow b) W2 S2) as (m & b1 & rem & F & W1 & D1 & M1 & M0).
      rewrite F. cbn [bind]. destruct m.
      * eexists PM_ESUCCESS, b1, _. split; [reflexivity|]. split; [auto|]. right. split; [reflexivity|]. split; [auto|].
        rewrite D2 in D1. cbn [concat]. rewrite app_assoc, <- D1, <- app_assoc. f_equal.
        destruct rem; reflexivity.
      * destruct (M0 eq_refl) as [-> _]. rewrite app_nil_r, D2 in D1.
        destruct (IH b1 W1) as (err & b' & rest & R & W' & P). exists err, b', rest. rewrite R. splits; auto.
        destruct P as [P|(P1 & P2 & P3)]; [left; auto|right]. splits; auto.
        rewrite P3, D1. cbn [concat]. rewrite <- app_assoc. reflexivity.
Qed.

(* what recv makes of the bytes once the loop is over *)
Definition finish_recv (s : text) : Z * list text :=
  let resp := parse_response s in
  let err := retcode resp in (err, if err =? PM_ESUCCESS then resp else []).

Lemma eof_not_success : (PM_ESERVEREOF =? PM_ESUCCESS) = false.
Proof. reflexivity. Qed.

Lemma recv_total chunks :
  exists err resp rest, recv chunks = Ok (err, resp, rest) /\
    ((err = PM_ESERVEREOF /\ resp = []) \/
     (exists consumed, ends_with consumed CP_PROMPT /\ consumed ++ concat rest = concat chunks /\
                       (err, resp) = finish_recv consumed)).
Proof.
  destruct (recv_loop_total chunks rb_empty wf_empty) as (err & b' & rest & R & W' & P).
  unfold recv. rewrite R. cbn [bind].
  destruct P as [->|(-> & P2 & P3)].
  - rewrite eof_not_success. eexists _, _, _. split; [reflexivity|]. left. auto.
  - rewrite Z.eqb_refl. eexists _, _, _. split; [reflexivity|]. right. exists (data b'). split; [auto|]. split; [exact P3|].
    unfold finish_recv, data. rewrite frev_rev. reflexivity.
Qed.

(* ------------------------------------------------------------------ segmentation *)
Definition nonempty_chunks (chunks : list text) : Prop := Forall (fun c => c <> []) chunks.

Lemma concat_nil_nonempty chunks : nonempty_chunks chunks -> concat chunks = [] -> chunks = [].
Proof.
  intros H E. destruct chunks as [|c r]; [reflexivity|]. inversion H; subst. cbn [concat] in E.
  apply app_eq_nil in E as [E _]. contradiction.
Qed.

(* under the hypothesis, the loop stops exactly when everything has been read and it ends with the prompt *)
Lemma recv_loop_seg chunks : forall b, wf b -> nonempty_chunks chunks ->
  prompt_only_at_end (data b ++ concat chunks) ->
  exists b', recv_loop b chunks =
    Ok (if ends_prompt (data b ++ concat chunks) && negb (match chunks with [] => true | _ => false end)
        then (PM_ESUCCESS, b', []) else (PM_ESERVEREOF, b', [])) /\
    (ends_prompt (data b ++ concat chunks) && negb (match chunks with [] => true | _ => false end) = true ->
     data b' = data b ++ concat chunks).
Proof.
  induction chunks as [|c chunks IH]; intros b W NE H; cbn [recv_loop].
  - exists b. rewrite andb_false_r. split; [reflexivity|discriminate].
  - inversion NE as [|? ? Hc NE']; subst. destruct c as [|x c]; [contradiction|].
    destruct (grow_wf b W) as (W2 & D2 & S2).
    destruct (feed_spec (x :: c) (rb_grow b) W2 S2) as (m & b1 & rem & F & W1 & D1 & M1 & M0).
    rewrite F. cbn [bind]. rewrite D2 in *. cbn [negb andb]. rewrite andb_true_r. cbn [concat].
    destruct m.
    + (* the prompt was seen: by hypothesis nothing can follow *)
      specialize (M1 eq_refl).
      assert (Q : rem ++ concat chunks = []).
      { destruct (rem ++ concat chunks) eqn:EQ; [reflexivity|]. exfalso.
        apply (H (data b1) (rem ++ concat chunks)).
        - cbn [concat]. rewrite app_assoc, <- D1, <- app_assoc. reflexivity.
        - rewrite EQ. discriminate.
        - exact M1. }
      apply app_eq_nil in Q as [-> Q]. apply concat_nil_nonempty in Q; [|exact NE']. subst chunks.
      cbn [concat]. rewrite !app_nil_r in *. exists b1.
      assert (EP : ends_prompt (data b ++ x :: c) = true) by (apply ends_prompt_spec; rewrite <- D1; exact M1).
      rewrite EP. split; [reflexivity|]. intros _. exact D1.
    + destruct (M0 eq_refl) as [-> M]. rewrite app_nil_r in D1.
      specialize (M ltac:(discriminate)).
      assert (H' : prompt_only_at_end (data b1 ++ concat chunks)).
      { rewrite D1, <- app_assoc. exact H. }
      destruct (IH b1 W1 NE' H') as (b' & R & DD). rewrite R.
      rewrite D1, <- app_assoc in *. cbn [concat] in *.
      destruct chunks as [|c2 chunks].
      * cbn [concat] in *. rewrite app_nil_r in *. rewrite andb_false_r.
        assert (EP : ends_prompt (data b ++ x :: c) = false).
        { apply not_true_iff_false. intros EP. apply ends_prompt_spec in EP. contradiction. }
        rewrite EP. exists b'. split; [reflexivity|discriminate].
      * cbn [negb andb] in *. rewrite andb_true_r in *. exists b'. split; [reflexivity|exact DD].
Qed.

(* the function of the whole stream that recv computes under the hypothesis *)
Definition recv_stream (s : text) : Z * list text * list text :=
  if ends_prompt s then (let '(e, r) := finish_recv s in (e, r, [])) else (PM_ESERVEREOF, [], []).

Lemma ends_prompt_nil : ends_prompt [] = false.
Proof. reflexivity. Qed.

Lemma recv_seg chunks : nonempty_chunks chunks -> prompt_only_at_end (concat chunks) ->
  recv chunks = Ok (recv_stream (concat chunks)).
Proof.
  intros NE H.
  destruct (recv_loop_seg chunks rb_empty wf_empty NE H) as (b' & R & DD).
  unfold recv, recv_stream. rewrite R. cbn [bind]. change (data rb_empty) with (@nil byte) in *. cbn [app] in *.
  destruct chunks as [|c chunks].
  - cbn [concat]. rewrite ends_prompt_nil. cbn [andb]. rewrite eof_not_success. reflexivity.
  - cbn [negb] in *. rewrite andb_true_r in *. destruct (ends_prompt (concat (c :: chunks))) eqn:EP.
    + rewrite Z.eqb_refl. specialize (DD eq_refl). unfold finish_recv. rewrite frev_rev. fold (data b'). rewrite DD. reflexivity.
    + rewrite eof_not_success. reflexivity.
Qed.
