(* Facts about the per-device state machine model (Model/Device.v). *)
From Coq Require Import List NArith ZArith Bool Lia.
From PM Require Import Base.Bytes Base.Outcome Gen.GenConsts Model.ScriptAst Model.Enqueue Model.Script Model.Device.
Import ListNotations.
Local Open Scope Z_scope.

(* ---------- C12: the regenerated back-off schedule never lets two attempts come closer than one second ---------- *)
Lemma backoff_table_ge_1s : forallb (fun x => 1000000 <=? x) backoff_table = true /\ backoff_table <> [] /\ backoff_zero_immediate = true.
Proof. vm_compute. repeat split; try reflexivity. discriminate. Qed.

Lemma backoff_ge_1s rc : 1000000 <= backoff rc.
Proof.
  unfold backoff. destruct backoff_table_ge_1s as [H [Hne _]]. rewrite forallb_forall in H.
  destruct (nth_in_or_default (Z.to_nat (rc - 1)) backoff_table (last backoff_table 0)) as [Hin|Hd].
  - apply Z.leb_le. now apply H.
  - rewrite Hd. apply Z.leb_le. apply H.
    destruct backoff_table as [|x l]; [congruence|]. apply (exists_last) in Hne as [l' [y E]].
    rewrite E. rewrite last_last. apply in_or_app. right. left. reflexivity.
Qed.

(* monotone: the schedule only escalates *)
Lemma backoff_table_sorted :
  (fix sorted (l : list Z) : bool := match l with x :: ((y :: _) as r) => (x <=? y) && sorted r | _ => true end) backoff_table = true.
Proof. vm_compute. reflexivity. Qed.

(* _time_to_reconnect: after at least one attempt, the next one is allowed only once the back-off has elapsed,
   and otherwise a strictly positive time-out is requested (no busy loop) *)
Lemma upd_tmo_pos tmo v :
  (forall x, tmo = Some x -> 0 < x) -> 0 < v -> exists t, upd_tmo tmo v = Some t /\ 0 < t /\ t <= v.
Proof.
  intros Hp Hv. unfold upd_tmo. destruct tmo as [x|].
  - destruct (v <? x) eqn:E.
    + exists v. repeat split; lia.
    + apply Z.ltb_ge in E. exists x. repeat split; [apply Hp; reflexivity|lia].
  - exists v. repeat split; lia.
Qed.

Lemma time_to_reconnect_spec now d tmo go tmo' :
  time_to_reconnect now d tmo = (go, tmo') ->
  0 < dv_retry_count d ->
  (go = true -> dv_last_retry d + backoff (dv_retry_count d) <= now /\ tmo' = tmo)
  /\ (go = false -> now < dv_last_retry d + backoff (dv_retry_count d)
                   /\ tmo' = upd_tmo tmo (dv_last_retry d + backoff (dv_retry_count d) - now)).
Proof.
  unfold time_to_reconnect. intros H Hrc.
  destruct (0 <? dv_retry_count d) eqn:E; [|apply Z.ltb_ge in E; lia].
  destruct (dv_last_retry d + backoff (dv_retry_count d) <=? now) eqn:El; inversion H; subst.
  - apply Z.leb_le in El. split; [auto|discriminate].
  - apply Z.leb_gt in El. split; [discriminate|]. intros _. split; [lia|reflexivity].
Qed.

Lemma time_to_reconnect_first now d tmo : dv_retry_count d <= 0 -> time_to_reconnect now d tmo = (true, tmo).
Proof. unfold time_to_reconnect. intros H. destruct (0 <? dv_retry_count d) eqn:E; [apply Z.ltb_lt in E; lia|reflexivity]. Qed.

(* ---------- C12 / C02: when the head action fails, every queued action is completed with a failure code ---------- *)
Lemma complete_spec d a : a_hascb a = true -> complete d a = [EvComplete (a_client a) (a_err a) (completion_msg d (a_err a))].
Proof. unfold complete. now intros ->. Qed.

Lemma fail_queue_all d h rest :
  a_err h <> ACT_ESUCCESS ->
  forall a, In a (h :: rest) -> a_hascb a = true ->
  exists e, e <> ACT_ESUCCESS /\ In (EvComplete (a_client a) e (completion_msg d e)) (fail_queue d h rest).
Proof.
  intros Hh a [<-|Hin] Hcb; unfold fail_queue.
  - exists (a_err h). split; [exact Hh|]. apply in_or_app. left. rewrite complete_spec by exact Hcb. left. reflexivity.
  - set (e := if Z.eqb (a_err h) ACT_EEXPFAIL then ACT_EABORT else a_err h).
    exists e. split.
    + unfold e. destruct (Z.eqb (a_err h) ACT_EEXPFAIL); [|exact Hh]. intros E. vm_compute in E. discriminate.
    + apply in_or_app. right. apply in_flat_map. exists a. split; [exact Hin|].
      unfold complete. cbn [a_hascb set_err a_client a_err]. rewrite Hcb. left. reflexivity.
Qed.

(* nothing else is reported: exactly one completion per action that has a callback *)
Lemma fail_queue_count d h rest :
  length (fail_queue d h rest) = length (filter a_hascb (h :: rest)).
Proof.
  unfold fail_queue. rewrite app_length. cbn [filter]. unfold complete at 1.
  assert (H : forall l e, length (flat_map (fun a => complete d (set_err e a)) l) = length (filter a_hascb l)).
  { induction l as [|a r IH]; intros e; cbn [flat_map filter]; [reflexivity|].
    rewrite app_length, IH. unfold complete. cbn [a_hascb set_err]. destruct (a_hascb a); cbn; lia. }
  rewrite H. destruct (a_hascb h); cbn; lia.
Qed.

(* ---------- C12 / C08: a rewound action starts again from its first statement in the initial context state ---------- *)
Lemma rewind_action_spec a :
  a_exec a <> [] ->
  exists outer, last (a_exec a) outer = outer /\ In outer (a_exec a) /\
    a_exec (rewind_action a) = [mkCtx (c_plugs outer) (c_block outer) 0 None (c_pluglist outer) false]
    /\ a_com (rewind_action a) = a_com a /\ a_args (rewind_action a) = a_args a /\ a_client (rewind_action a) = a_client a
    /\ a_stamp (rewind_action a) = a_stamp a.
Proof.
  intros Hne. unfold rewind_action.
  destruct (exists_last Hne) as [l [outer E]]. rewrite E, rev_app_distr. cbn [rev app].
  exists outer. repeat split; cbn; auto.
  - now rewrite last_last.
  - apply in_or_app. right. left. reflexivity.
Qed.

Section D.
  (* ---------- C10: login is first on every connection, and a stale login never survives a disconnect ---------- *)
  Lemma enqueue_login_head d d' :
    enqueue_login d = Ok d' ->
    exists s, assoc_script PM_LOG_IN (dv_scripts d) = Some s /\
      d' = set_acts (create_action s PM_LOG_IN None 0 false false false None
                   :: (match dv_acts d with [] => [] | h :: r => rewind_action h :: r end)) d.
  Proof.
    unfold enqueue_login. destruct (assoc_script PM_LOG_IN (dv_scripts d)) as [s|]; [|discriminate].
    intros H; inversion H; subst. exists s. auto.
  Qed.

  Lemma disconnect_spec d d' evs :
    disconnect d = (d', evs) ->
    dv_cstate d' = DEV_NOT_CONNECTED /\ dv_logged_in d' = false /\ dv_has_fd d' = false /\
    sd_from (dv d') = [] /\ sd_to (dv d') = [] /\ evs = [EvDisconnect] /\
    dv_acts d' = (match dv_acts d with h :: r => if Z.eqb (a_com h) PM_LOG_IN then r else h :: r | [] => [] end) /\
    dv_retry_count d' = dv_retry_count d /\ dv_last_retry d' = dv_last_retry d.
  Proof.
    unfold disconnect. intros H. inversion H; subst; clear H. cbn.
    destruct (dv_acts d) as [|h r] eqn:Ea; cbn; rewrite ?Ea; [intuition|].
    destruct (Z.eqb (a_com h) PM_LOG_IN); cbn; rewrite ?Ea; intuition.
  Qed.

  (* a connect attempt stamps the time, counts the attempt, and on success makes the login action the head *)
  Lemma connect_spec now d plans d' evs plans' :
    connect now d plans = Ok (d', evs, plans') ->
    dv_last_retry d' = now /\ dv_retry_count d' = dv_retry_count d + 1 /\
    (dv_cstate d' = DEV_CONNECTED ->
       exists l r, dv_acts d' = l :: r /\ a_com l = PM_LOG_IN /\ dv_logged_in d' = false).
  Proof.
    unfold connect. destruct (dv_has_fd d || negb (Z.eqb (dv_cstate d) DEV_NOT_CONNECTED)) eqn:E0; [discriminate|].
    apply orb_false_iff in E0 as [_ E0]. apply negb_false_iff in E0. apply Z.eqb_eq in E0.
    destruct plans as [|[| |] r].
    - intros H; inversion H; subst. cbn. split; [reflexivity|]. split; [reflexivity|].
      intros Hc. rewrite E0 in Hc. vm_compute in Hc. discriminate.
    - destruct (enqueue_login _) as [d3| | | |] eqn:El; try discriminate.
      intros H; inversion H; subst. apply enqueue_login_head in El as [s [Es Ed]]. subst d'.
      cbn. split; [reflexivity|]. split; [reflexivity|].
      intros _. eexists _, _. split; [reflexivity|]. split; reflexivity.
    - intros H; inversion H; subst. cbn. split; [reflexivity|]. split; [reflexivity|].
      intros Hc. vm_compute in Hc. discriminate.
    - intros H; inversion H; subst. cbn. split; [reflexivity|]. split; [reflexivity|].
      intros Hc. rewrite E0 in Hc. vm_compute in Hc. discriminate.
  Qed.
End D.
