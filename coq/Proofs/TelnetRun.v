(* Any run of a Device: POLLIN events (the descriptor returns whatever it returns: full, short, EOF, EAGAIN),
   consumptions by expects and POLLOUT events (short writes), on real circular buffers.  While the unconsumed
   data and the unanswered replies fit their buffers, consumed ++ unread is the decoding of the bytes taken from
   the descriptor and delivered ++ queued are its replies. *)
From Coq Require Import List ZArith NArith Bool Lia.
From PM Require Import Base.Bytes Gen.GenConsts Gen.GenCbuf Model.Cbuf Model.Telnet Spec.Fifo Spec.TelnetSpec
  Proofs.CbufList Proofs.CbufInv Proofs.CbufRead Proofs.CbufWrite Proofs.TelnetProofs Proofs.TelnetDevice.
Import ListNotations.
Local Open Scope Z_scope.

Inductive devent :=
| DRead (fd : list fdres)        (* POLLIN with this descriptor content: _handle_read + preprocess *)
| DConsume (n : Z)               (* an expect matched up to offset n: cbuf_peek + cbuf_drop *)
| DWrite (script : list Z).      (* POLLOUT: _handle_write with these accept counts *)

(* what one run has seen: device, bytes taken from the descriptor, bytes consumed by expects, bytes delivered to
   the device, and whether everything stayed within capacity so far *)
Record rstate := mkR { r_dev : dev; r_taken : list byte; r_consumed : list byte; r_delivered : list byte; r_within : bool }.

Definition rstep (st : rstate) (e : devent) : rstate :=
  let d := r_dev st in
  match e with
  | DRead fd =>
      match handle_read d fd with
      | (d', _, _, fd') =>
          let w := ztake (zlen (fd_bytes fd) - zlen (fd_bytes fd')) (fd_bytes fd) in
          mkR d' (r_taken st ++ w) (r_consumed st) (r_delivered st)
              (r_within st && (cb_used (d_from d) + zlen w <=? cb_maxsize (d_from d))
                           && (cb_used (d_to d) + 3 * zlen w <=? cb_maxsize (d_to d)))
      end
  | DConsume n =>
      match Cbuf.drop (d_from d) n with
      | (from', _) =>
          mkR (mkDev from' (d_to d) (d_tcp d) (d_errs d)) (r_taken st)
              (r_consumed st ++ snd (Cbuf.peek (d_from d) n)) (r_delivered st) (r_within st && (0 <=? n))
      end
  | DWrite fd =>
      match handle_write d fd with
      | (d', _, bytes, _) => mkR d' (r_taken st) (r_consumed st) (r_delivered st ++ bytes) (r_within st)
      end
  end.

(* e0 = the number of err() diagnostics before the run (0 on a fresh device): the run adds none *)
Definition rinvE (e0 : Z) (st : rstate) : Prop :=
  r_within st = true ->
  exists s, drel (r_dev st) s /\ linv s (r_taken st) /\ l_consumed s = r_consumed st
            /\ r_delivered st ++ abs (d_to (r_dev st)) = l_replies s /\ d_errs (r_dev st) = e0.
Definition rinv := rinvE 0.

Lemma taken_prefix (w rest : list byte) : ztake (zlen (w ++ rest) - zlen rest) (w ++ rest) = w.
Proof. rewrite zlen_app. replace (zlen w + zlen rest - zlen rest) with (zlen w) by lia. apply ztake_app_exact. Qed.

Lemma rstep_invE e0 st e : rinvE e0 st -> rinvE e0 (rstep st e).
Proof.
  intros Hinv. destruct st as [d taken consumed delivered within]. unfold rinvE in *. cbn [r_dev r_taken r_consumed r_delivered r_within] in *.
  destruct e as [fd|n|script]; cbn [rstep r_dev r_taken r_consumed r_delivered r_within].
  - destruct (handle_read d fd) as [[[d' err] dropped] fd'] eqn:Eh.
    cbn [r_dev r_taken r_consumed r_delivered r_within]. intros Hw.
    apply andb_true_iff in Hw. destruct Hw as (Hw & C2). apply andb_true_iff in Hw. destruct Hw as (Hw & C1).
    apply Z.leb_le in C1, C2.
    destruct (Hinv Hw) as (s & Dr & Li & Lc & Ld & Le).
    destruct (handle_read_refines _ _ _ _ _ _ _ Dr Eh) as (w & B & K).
    rewrite B, taken_prefix in *.
    destruct Dr as (DI & Ac & Tc). pose proof DI as (If & It & _).
    rewrite <- (zlen_abs _ If) in C1. rewrite <- (zlen_abs _ It) in C2.
    destruct (K C1 C2) as (_ & Dr' & At & Er & _).
    exists (lstep s (Read w)).
    split; [assumption|]. split; [apply (lstep_inv s taken (Read w)); assumption|].
    assert (Lr : l_replies (lstep s (Read w)) = l_replies s ++ skipn (length (l_replies s)) (l_replies (lstep s (Read w)))).
    { cbn [lstep]. destruct (preprocess (l_tcp s) (l_content s ++ w) (zlen w)) as [[t' c'] r]. cbn [l_replies].
      rewrite skipn_app, skipn_all, Nat.sub_diag. reflexivity. }
    split.
    { cbn [lstep]. destruct (preprocess (l_tcp s) (l_content s ++ w) (zlen w)) as [[t' c'] r]. assumption. }
    split; [rewrite At, app_assoc, Ld; symmetry; exact Lr | congruence].
  - destruct (Cbuf.drop (d_from d) n) as [from' r] eqn:Ed.
    cbn [r_dev r_taken r_consumed r_delivered r_within]. intros Hw.
    apply andb_true_iff in Hw. destruct Hw as (Hw & Hn). apply Z.leb_le in Hn.
    destruct (Hinv Hw) as (s & Dr & Li & Lc & Ld & Le).
    destruct (consume_refines _ _ _ _ _ Dr Hn Ed) as (Dr' & _ & Pb & _).
    exists (lstep s (Consume n)).
    split; [assumption|]. split.
    { pose proof (lstep_inv s taken (Consume n) Li) as L. rewrite app_nil_r in L. exact L. }
    cbn [lstep l_consumed l_replies d_to d_errs]. rewrite Pb, Lc.
    split; [reflexivity|]. split; assumption.
  - destruct (handle_write d script) as [[[d' err] bytes] fd'] eqn:Eh.
    cbn [r_dev r_taken r_consumed r_delivered r_within]. intros Hw.
    destruct (Hinv Hw) as (s & Dr & Li & Lc & Ld & Le).
    destruct Dr as (DI & Ac & Tc).
    destruct (handle_write_refines _ _ _ _ _ _ DI Eh) as (DI' & Bt & Ef & Et & Ee & _).
    exists s. split; [unfold drel; split; [assumption|split; [rewrite Ef; assumption | rewrite Et; assumption]]|].
    split; [assumption|]. split; [assumption|].
    split; [rewrite <- app_assoc, Bt; assumption | congruence].
Qed.

Lemma rstep_inv st e : rinv st -> rinv (rstep st e).
Proof. apply rstep_invE. Qed.

Lemma rrun_invE e0 evs : forall st, rinvE e0 st -> rinvE e0 (fold_left rstep evs st).
Proof. induction evs as [|e evs IH]; intros st H; cbn [fold_left]; [assumption|]. apply IH, rstep_invE, H. Qed.

Lemma rrun_inv evs : forall st, rinv st -> rinv (fold_left rstep evs st).
Proof. apply rrun_invE. Qed.

(* the state right after a connect on freshly created buffers *)
Definition rinit (d : dev) : rstate := mkR (connected d) [] [] [] true.

Theorem telnet_device_run mn mx d evs :
  dev_create mn mx = Some d -> Z.max mn mx <= MAX_DEV_BUF ->
  let st := fold_left rstep evs (rinit d) in
  r_within st = true ->
  r_consumed st ++ abs (d_from (r_dev st)) = data (r_taken st)
  /\ r_delivered st ++ abs (d_to (r_dev st)) = replies (r_taken st)
  /\ d_errs (r_dev st) = 0.
Proof.
  intros Ec Hm. cbv zeta. intros Hw.
  destruct (dev_create_spec _ _ _ Ec Hm) as (Dr & At & Ee).
  assert (I0 : rinv (rinit d)).
  { intros _. exists linit. cbn [rinit r_dev r_taken r_consumed r_delivered].
    split; [assumption|]. split; [apply linit_inv|]. split; [reflexivity|].
    split; [unfold connected; cbn [d_to app]; assumption | unfold connected; cbn [d_errs]; assumption]. }
  destruct (rrun_inv evs _ I0 Hw) as (s & (DI & Ac & Tc) & (dst & D & _) & Lc & Ld & Le).
  apply decode_none_parse in D. destruct D as (Dd & Dr').
  rewrite Dd, Dr', <- Lc, Ac, Ld. split; [reflexivity|]. split; [reflexivity|assumption].
Qed.
