(* Statement-level facts about the script interpreter model (Model/Script.v). *)
From Coq Require Import List NArith ZArith Bool Lia.
From PM Require Import Base.Bytes Base.Outcome Gen.GenConsts Model.ScriptAst Model.Enqueue Model.Script.
Import ListNotations.
Local Open Scope Z_scope.

Section P.
  Variable rmatch : text -> text -> option pmatch.
  Variable compress : list text -> text.
  Variable sc : bool.

  (* ---------- send ---------- *)

  (* what `%s` stands for: the single plug's configured name, or the compressed list of exactly the
     context's plug names, or nothing *)
  Lemma send_arg_spec e :
    send_arg compress e =
      match c_plugs e with
      | None | Some [] => None
      | Some [p] => Some (pl_name p)
      | Some ps => Some (compress (map pl_name ps))
      end.
  Proof. unfold send_arg. destruct (c_plugs e) as [[|p [|q r]]|]; reflexivity. Qed.

  Lemma lastn_all {A} n (l : list A) : (length l <= n)%nat -> lastn n l = l.
  Proof. intros H. unfold lastn. replace (length l - n)%nat with O by lia. reflexivity. Qed.

  (* first visit of a send: exactly the formatted string is appended to the device's output queue, once (when the 64 KiB
     queue would overflow, the oldest unsent bytes are overwritten: since the repair of F38 this no longer aborts);
     later visits (processing = true) append nothing and finish when the queue has drained *)
  Lemma process_send_first now d a store e rest fmt fin d' a' store' evs :
    c_processing e = false -> (length (sd_to d) <= Z.to_nat MAX_DEV_BUF)%nat ->
    process_send compress now d a store e rest fmt = Ok (fin, d', a', store', evs) ->
    exists str, hsprintf1 fmt (send_arg compress e) = Some str
      /\ sd_to d' = lastn (Z.to_nat MAX_DEV_BUF) (sd_to d ++ str)
      /\ ((length (sd_to d ++ str) <= Z.to_nat MAX_DEV_BUF)%nat -> sd_to d' = sd_to d ++ str)
      /\ sd_from d' = sd_from d
      /\ In (EvSent str) evs /\ store' = store
      /\ fin = (match sd_to d' with [] => true | _ => false end).
  Proof.
    intros Hp Hcap. unfold process_send. rewrite Hp.
    assert (Hfix : SEND_OVERRUN_ASSERT = false) by reflexivity.      (* source fact: the assert is gone (F38) *)
    destruct (hsprintf1 fmt (send_arg compress e)) as [str|]; [|discriminate].
    destruct (Nat.ltb_spec (Z.to_nat MAX_DEV_BUF - length (sd_to d)) (length str)) as [Hlt|Hge].
    - rewrite Hfix. cbn [sd_to set_to].
      destruct (lastn (Z.to_nat MAX_DEV_BUF) (sd_to d ++ str)) eqn:E; intros H; inversion H; subst; exists str; cbn [sd_to sd_from set_to];
        rewrite ?E; (split; [reflexivity|]); (split; [reflexivity|]); (split; [intros Hl; rewrite app_length in Hl; lia|]); intuition.
    - cbn [sd_to set_to]. assert (Hl : (length (sd_to d ++ str) <= Z.to_nat MAX_DEV_BUF)%nat) by (rewrite app_length; lia).
      destruct (sd_to d ++ str) eqn:E; intros H; inversion H; subst; exists str; cbn [sd_to sd_from set_to];
        rewrite ?E; rewrite (lastn_all _ _ Hl); intuition.
  Qed.

  Lemma process_send_again now d a store e rest fmt fin d' a' store' evs :
    c_processing e = true ->
    process_send compress now d a store e rest fmt = Ok (fin, d', a', store', evs) ->
    d' = d /\ evs = [] /\ store' = store /\ fin = (match sd_to d with [] => true | _ => false end).
  Proof.
    intros Hp. unfold process_send. rewrite Hp.
    destruct (sd_to d) eqn:E; intros H; inversion H; subst; intuition.
  Qed.

  (* hsprintf1: with exactly the conversions %s (at most once) and %%, the result is the format with the
     argument substituted *)
  Fixpoint subst_spec (fmt : text) (a : text) : text :=
    match fmt with
    | 37%N :: 115%N :: r => a ++ subst_spec r a
    | 37%N :: 37%N :: r => 37%N :: subst_spec r a
    | c :: r => c :: subst_spec r a
    | [] => []
    end.

  Lemma fmt_subst_spec : forall fuel fmt a str,
    (length fmt < fuel)%nat -> fmt_subst fuel fmt (Some a) = Some str -> str = subst_spec fmt a.
  Proof.
    induction fuel as [|f IH]; intros fmt a str Hl H; [lia|].
    destruct fmt as [|c r]; cbn [fmt_subst] in H.
    - inversion H. reflexivity.
    - destruct (N.eq_dec c 37) as [->|Hc].
      + destruct r as [|c2 r2]; [discriminate|].
        destruct (N.eq_dec c2 115) as [->|Hs].
        * destruct (fmt_subst f r2 (Some a)) eqn:E; [|discriminate]. inversion H; subst.
          cbn [subst_spec]. f_equal. apply (IH r2 a t); [cbn in Hl; lia|exact E].
        * destruct (N.eq_dec c2 37) as [->|Hp].
          -- destruct (fmt_subst f r2 (Some a)) eqn:E; [|discriminate]. inversion H; subst.
             cbn [subst_spec]. f_equal. apply (IH r2 a t); [cbn in Hl; lia|exact E].
          -- exfalso. destruct c2 as [|p]; [discriminate|].
             repeat (destruct p as [p|p|]; try discriminate; try (now apply Hs); try (now apply Hp)).
      + assert (Hgen : match fmt_subst f r (Some a) with Some x => Some (c :: x) | None => None end = Some str).
        { destruct c as [|p]; [exact H|].
          repeat (destruct p as [p|p|]; try exact H; try (exfalso; now apply Hc)). }
        destruct (fmt_subst f r (Some a)) eqn:E; [|discriminate]. inversion Hgen; subst.
        assert (Hs : subst_spec (c :: r) a = c :: subst_spec r a).
        { destruct c as [|p]; [reflexivity|].
          repeat (destruct p as [p|p|]; try reflexivity; try (exfalso; now apply Hc)). }
        rewrite Hs. f_equal. apply (IH r a t); [cbn in Hl; lia|exact E].
  Qed.

  Lemma hsprintf1_spec fmt a str : hsprintf1 fmt (Some a) = Some str -> str = subst_spec fmt a.
  Proof.
    unfold hsprintf1. destruct (Nat.ltb 1 (count_pct_s fmt)); [discriminate|].
    apply fmt_subst_spec. lia.
  Qed.

  (* ---------- expect ---------- *)

  (* an expect finishes only on a regex match against the unread device bytes (NUL shown as 0xFF), and then
     consumes exactly the bytes from the start of the buffer to the end of the match; a stalled expect
     leaves the buffer untouched *)
  Lemma process_expect_spec now d a store re fin d' a' store' evs :
    process_expect rmatch now d a store re = Ok (fin, d', a', store', evs) ->
    a' = a /\ store' = store /\ sd_to d' = sd_to d /\
    (fin = true ->
       exists pm so eo, rmatch re (nul_to_ff (sd_from d)) = Some pm /\ nth_error pm 0 = Some (Some (so, eo))
         /\ sd_from d' = skipn eo (sd_from d) /\ sd_xm d' = Some (nul_to_ff (sd_from d), pm) /\ sd_xm_used d' = true)
    /\ (fin = false -> sd_from d' = sd_from d).
  Proof.
    unfold process_expect. cbn [sd_from set_xm].
    destruct (sd_from d) as [|b r] eqn:Ef.
    - intros H; inversion H; subst. cbn. intuition discriminate.
    - destruct (rmatch re (nul_to_ff (b :: r))) as [pm|] eqn:Em.
      + destruct (nth_error pm 0) as [[[so eo]|]|] eqn:E0; intros H; inversion H; subst; cbn;
          try (intuition discriminate).
        repeat split; auto; try discriminate. intros _. exists pm, so, eo. intuition.
      + intros H; inversion H; subst. cbn. intuition discriminate.
  Qed.

  (* ---------- delay ---------- *)
  Lemma process_delay_spec now d a store e rest usec fin d' a' store' evs dt :
    process_delay sc now d a store e rest usec = Ok ((fin, d', a', store', evs), dt) ->
    d' = d /\ store' = store /\
    (fin = true -> sc = true \/ (if c_processing e then a_delay_start a else now) + usec <= now) /\
    (c_processing e = false -> a_delay_start a' = now) /\
    (c_processing e = true -> a_delay_start a' = a_delay_start a).
  Proof.
    unfold process_delay. destruct (c_processing e) eqn:Ep.
    - destruct (sc || (a_delay_start a + usec <=? now)) eqn:C; intros H; inversion H; subst; cbn;
        repeat split; auto; try discriminate.
      intros _. apply orb_true_iff in C as [C|C]; [left; exact C|right; lia].
    - cbn [a_delay_start set_delay_start].
      destruct (sc || (now + usec <=? now)) eqn:C; intros H; inversion H; subst; cbn;
        repeat split; auto; try discriminate.
      intros _. apply orb_true_iff in C as [C|C]; [left; exact C|right; lia].
  Qed.

  (* ---------- foreach ---------- *)

  (* successive next_plug calls enumerate, in list order, exactly the plugs of the list (foreachplug) or
     exactly its mapped plugs (foreachnode) *)
  Fixpoint enumerate (fuel : nat) (onlynodes : bool) (l : list plug) (i : nat) : list plug :=
    match fuel with
    | O => []
    | S f => match next_plug onlynodes l i with
             | Some (p, i') => p :: enumerate f onlynodes l i'
             | None => []
             end
    end.

  Lemma skipn_S_cons {A} : forall i (l : list A) p r, skipn i l = p :: r -> skipn (S i) l = r.
  Proof.
    induction i as [|i IH]; intros l p r H.
    - cbn in H. subst. reflexivity.
    - destruct l as [|x l]; [discriminate|]. cbn [skipn] in H. cbn [skipn]. destruct l as [|y l'].
      + destruct i; discriminate.
      + exact (IH (y :: l') p r H).
  Qed.

  Lemma enumerate_all : forall l fuel i, (length l - i < fuel)%nat -> (i <= length l)%nat ->
    enumerate fuel false l i = skipn i l.
  Proof.
    intros l fuel. induction fuel as [|f IH]; intros i Hf Hi; [lia|].
    cbn [enumerate]. unfold next_plug.
    destruct (skipn i l) as [|p r] eqn:E; cbn [next_plug_from andb]; [reflexivity|].
    f_equal. rewrite IH.
    - exact (skipn_S_cons i l p r E).
    - assert (i < length l)%nat by (destruct (Nat.lt_ge_cases i (length l)); auto; rewrite skipn_all2 in E by lia; discriminate). lia.
    - assert (i < length l)%nat by (destruct (Nat.lt_ge_cases i (length l)); auto; rewrite skipn_all2 in E by lia; discriminate). lia.
  Qed.

  (* ---------- interpretation: the FIRST matching pattern decides ---------- *)
  Lemma first_interp_spec interps str dflt :
    first_interp rmatch interps str dflt =
      match find (fun cr => rtest rmatch (snd cr) str) interps with
      | Some (code, _) => code
      | None => dflt
      end.
  Proof.
    induction interps as [|[code re] r IH]; cbn [first_interp find snd]; [reflexivity|].
    destruct (rtest rmatch re str); [reflexivity|exact IH].
  Qed.

  (* ---------- ifon / ifoff ---------- *)

  (* the state recorded (by an earlier setplugstate of this request) for the context's plug *)
  Definition plug_state (store : list arglist) (a : action) (e : ctx) : Z :=
    match c_plugs e with
    | Some (p :: _) =>
        match pl_node p with
        | Some n => match get_args store a with
                    | Some al => match arg_find al n with Some x => ar_state x | None => ST_UNKNOWN end
                    | None => ST_UNKNOWN end
        | None => ST_UNKNOWN
        end
    | _ => ST_UNKNOWN
    end.

  (* first visit of ifon/ifoff: the body is entered (with the same plug list) exactly when the plug's recorded
     state is the wanted one; an unknown state fails the action; otherwise the block is skipped *)
  Lemma process_ifonoff_closed d a store e rest want body :
    c_processing e = false ->
    process_ifonoff d a store e rest want body =
      let st := plug_state store a e in
      let cond := (want && Z.eqb st ST_ON) || (negb want && Z.eqb st ST_OFF) in
      let a1 := if negb cond && Z.eqb st ST_UNKNOWN then set_err ACT_EEXPFAIL a else a in
      if cond
      then Ok (true, d, set_exec (new_ctx body (match c_plugs e with Some ps => Some ps | None => Some [] end)
                                    :: set_processing true e :: rest) a1, store, [])
      else Ok (true, d, a1, store, []).
  Proof.
    intros Hp. unfold process_ifonoff, plug_state. rewrite Hp.
    destruct (c_plugs e) as [[|p ps]|]; try reflexivity.
    destruct (pl_node p) as [n|]; reflexivity.
  Qed.

  (* returning from the body (processing = true): the statement is finished, nothing else changes *)
  Lemma process_ifonoff_return d a store e rest want body :
    c_processing e = true ->
    process_ifonoff d a store e rest want body = Ok (true, d, put_top (set_processing false e) rest a, store, []).
  Proof. intros Hp. unfold process_ifonoff. rewrite Hp. reflexivity. Qed.
End P.

(* ---------- dbg_memstr: only printable ASCII comes out, never more than 4 bytes per input byte ---------- *)
Lemma memstr_byte_len b : (length (memstr_byte b) <= 4)%nat.
Proof. unfold memstr_byte. repeat (destruct (N.eqb _ _)); cbn; try lia. destruct (is_print b); cbn; lia. Qed.

Lemma memstr_len t : (length (memstr t) <= 4 * length t)%nat.
Proof.
  unfold memstr. induction t as [|b r IH]; cbn [flat_map length]; [lia|].
  rewrite app_length. pose proof (memstr_byte_len b). lia.
Qed.

Lemma octal_digit_printable (x : N) : (x < 8)%N -> is_print (48 + x)%N = true.
Proof. intros H. unfold is_print. apply andb_true_iff; split; apply N.leb_le; lia. Qed.

Lemma memstr_byte_printable b : Forall (fun c => is_print c = true) (memstr_byte b).
Proof.
  unfold memstr_byte.
  destruct (N.eqb b 13); [repeat constructor|].
  destruct (N.eqb b 10); [repeat constructor|].
  destruct (N.eqb b 9); [repeat constructor|].
  destruct (is_print b) eqn:P; [repeat constructor; exact P|].
  unfold octal3. constructor; [reflexivity|].
  constructor; [apply octal_digit_printable; apply N.mod_lt; lia|].
  constructor; [apply octal_digit_printable; apply N.mod_lt; lia|].
  constructor; [apply octal_digit_printable; apply N.mod_lt; lia|constructor].
Qed.

Lemma memstr_printable t : Forall (fun c => is_print c = true) (memstr t).
Proof.
  unfold memstr. induction t as [|b r IH]; cbn [flat_map]; [constructor|].
  apply Forall_app; split; [apply memstr_byte_printable|exact IH].
Qed.
