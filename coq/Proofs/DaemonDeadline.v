(* C04, daemon level: the deadline of the device layer (Proofs/DeviceDeadline.v) carried through dev_post_poll.

   due now st pins i id     every device (index >= i) that still holds an action of client `id` starts this pass with its head
                            action past its deadline (hypothesis of DeviceDeadline.deadline_pass) and the front part of its pass
                            keeps its queue (DeviceDeadline.steady: no login dropped by a disconnect, no connection established)
   dev_pass_deadline        DPInv st -> due .. 0 id -> after dev_loop (the whole device pass of the round): no device holds an
                            action of `id` any more, hence (cross-layer invariant) the client has no command in progress and its
                            output holds one terminal reply per request line: the reply of the command has been produced
   dstep_deadline           the same for a whole round (client pass, then device pass): the hypothesis is taken in the state the
                            client pass leaves
   Both always return Ok (no Hang case): DPInv carries the Hang-free device invariant Proofs/DeviceHang.DInvH. *)
From Coq Require Import List NArith ZArith Bool Lia Permutation.
From PM Require Import Base.Bytes Base.Outcome Gen.GenConsts Model.ScriptAst Model.Enqueue Model.Script Model.Device Model.DevHarness
                       Model.Client Model.CliWorld Model.Daemon Spec.Proto
                       Proofs.ClientProofs Proofs.ClientProto Proofs.ClientStream Proofs.ClientStreamQ Proofs.DeviceInv Proofs.DeviceRun Proofs.DeviceInvG Proofs.DeviceRunG Proofs.DeviceHang
                       Proofs.DeviceSlots Proofs.DaemonLedger Proofs.DaemonFrame Proofs.DaemonSlots Proofs.DaemonPending Proofs.DeviceMask Proofs.DeviceDeadline.
Import ListNotations.
Local Open Scope Z_scope.

Lemma nth_tl {A} (l : list A) k d : nth k (tl l) d = nth (S k) l d.
Proof. destruct l; [destruct k; reflexivity|reflexivity]. Qed.
Lemma nth_0_hd {A} (l : list A) d : nth 0 l d = hd d l.
Proof. destruct l; reflexivity. Qed.
Lemma nth_upd_nth_ne {A} (f : A -> A) d : forall (l : list A) i j, i <> j -> nth j (upd_nth l i f) d = nth j l d.
Proof. induction l as [|a l IH]; intros i j H; destruct i, j; cbn [upd_nth nth]; try reflexivity; try congruence. apply IH. congruence. Qed.
Lemma length_upd_nth {A} (f : A -> A) : forall (l : list A) i, length (upd_nth l i f) = length l.
Proof. induction l as [|a l IH]; intros [|i]; cbn [upd_nth length]; auto. Qed.

Section DD.
  Variable expand_str : text -> option (list text).
  Variable ranged_sorted : list text -> text.
  Variable ranged_plain : list text -> text.
  Variable sorted : list text -> list text.
  Variable rmatch : text -> text -> option pmatch.
  Variable compress : list text -> text.
  Variable short_circuit : bool.

  Lemma route_static st e st' : route ranged_sorted st e = Ok st' ->
    dm_devs st' = dm_devs st /\ dm_pipe st' = dm_pipe st /\ dm_tel st' = dm_tel st.
  Proof.
    unfold route. intros H. destruct e; try (inversion H; subst; auto; fail).
    all: destruct (find_cli (dm_clients st) client 0) as [[i x]|]; [|inversion H; subst; auto].
    1-2: inversion H; subst; auto.
    destruct (act_finish _ _ _ _ _) as [c| | | |]; try discriminate. inversion H; subst; auto.
  Qed.
  Lemma route_all_static evs : forall st st', route_all ranged_sorted st evs = Ok st' ->
    dm_devs st' = dm_devs st /\ dm_pipe st' = dm_pipe st /\ dm_tel st' = dm_tel st.
  Proof.
    induction evs as [|e r IH]; intros st st' H; cbn [route_all] in H; [inversion H; subst; auto|].
    destruct (route ranged_sorted st e) as [st1| | | |] eqn:E1; try discriminate.
    destruct (route_static _ _ _ E1) as (A1 & A2 & A3). destruct (IH _ _ H) as (B1 & B2 & B3). repeat split; congruence.
  Qed.

  Definition expired_head (now : Z) (d : device) : Prop :=
    exists act0 rest, dv_acts d = act0 :: rest /\ hstamp now act0 + dv_timeout d <= now.
  (* the transport answers device i sees in this pass: the round's answers after the transport's preprocess method *)
  Definition dev_pin (st : daemon) (i : nat) (pin : passin) : passin :=
    fst (with_pre (nth i (dm_pipe st) true) (nth i (dm_tel st) Telnet.telnet_init) pin).
  Definition due (now : Z) (st : daemon) (pins : list passin) (off : nat) (id : Z) : Prop :=
    forall j d, (off <= j)%nat -> nth_error (dm_devs st) j = Some d -> In id (queued d) ->
      expired_head now d /\ forall t, tmo_pos t -> steady now d t (dev_pin st j (nth (j - off) pins passin0)).

  Lemma dev_loop_due n : forall now st i pins tmo acc id, DPInv compress st -> tmo_pos tmo -> due now st pins i id ->
    (length (dm_devs st) <= n + i)%nat ->
    match dev_loop ranged_sorted rmatch compress short_circuit n now st i pins tmo acc with
    | Ok (st', _, _) => (forall j d, (i <= j)%nat -> nth_error (dm_devs st') j = Some d -> ~ In id (queued d)) /\
                        (forall j, (j < i)%nat -> nth_error (dm_devs st') j = nth_error (dm_devs st) j)
    | _ => False
    end.
  Proof.
    induction n as [|n IH]; intros now st i pins tmo acc id I Hp Hdue Hlen.
    - cbn [dev_loop]. split; [|reflexivity]. intros j d Hj Hn. exfalso.
      assert (nth_error (dm_devs st) j = None) by (apply nth_error_None; lia). congruence.
    - pose proof (dev_loop_inv expand_str ranged_sorted ranged_plain sorted rmatch compress short_circuit 1 now st i pins tmo acc I Hp) as H1.
      cbn [dev_loop] in H1 |- *.
      destruct (nth_error (dm_devs st) i) as [d|] eqn:En.
      2:{ split; [|reflexivity]. intros j d Hj Hn. exfalso. apply nth_error_None in En.
          assert (nth_error (dm_devs st) j = None) by (apply nth_error_None; lia). congruence. }
      destruct (with_pre (nth i (dm_pipe st) true) (nth i (dm_tel st) Telnet.telnet_init) (hd passin0 pins)) as [pin t1] eqn:Ew.
      assert (Hd : DInvRG compress d) by (pose proof (dp_devs _ _ I) as H; rewrite Forall_forall in H; apply DInvH_RG, H; eapply nth_error_In; exact En).
      destruct Hd as [Hd Hrc].
      pose proof (post_poll_one_inv_pre rmatch compress short_circuit now d (dm_store st) tmo pin Hd Hp Hrc) as HG.
      assert (HD : In id (queued d) -> flushes rmatch compress short_circuit now d (dm_store st) tmo pin).
      { intros Hin. destruct (Hdue i d (Nat.le_refl i) En Hin) as ((act0 & rest & Ea & Hl) & Hst).
        specialize (Hst tmo Hp). unfold dev_pin in Hst. rewrite Nat.sub_diag, nth_0_hd, Ew in Hst. cbn [fst] in Hst.
        exact (deadline_pass_steady rmatch compress short_circuit now d (dm_store st) tmo pin act0 rest Hd Hp Hrc Ea Hl Hst). }
      destruct (post_poll_one rmatch compress short_circuit now d (dm_store st) tmo pin) as [[[[d' store'] tmo'] evs]| | | |] eqn:EP; try contradiction.
      match goal with |- context [route_all ranged_sorted ?s evs] => set (st1 := s) in * end.
      destruct (route_all ranged_sorted st1 evs) as [st2| | | |] eqn:ER; try contradiction.
      destruct H1 as (I2 & P2 & _).
      destruct (route_all_static _ _ _ ER) as (A1 & A2 & A3). unfold st1 in A1, A2, A3. cbn [dm_devs dm_pipe dm_tel] in A1, A2, A3.
      assert (Hno : ~ In id (queued d')).
      { destruct (in_dec Z.eq_dec id (queued d)) as [Hin|Hnin].
        - destruct (HD Hin) as (d'' & st'' & t'' & e'' & E'' & _ & Q & _). rewrite EP in E''. injection E'' as <- _ _ _. rewrite Q. intros [].
        - destruct HG as [SP _]. intros Hin. apply Hnin. rewrite <- (tg_fifo _ _ _ _ _ _ _ _ _ SP). apply in_or_app. right. exact Hin. }
      assert (Hdue2 : due now st2 (tl pins) (S i) id).
      { intros j dj Hj Hnj Hin. rewrite A1, nth_error_upd_nth_ne in Hnj by lia.
        destruct (Hdue j dj ltac:(lia) Hnj Hin) as [He Hs]. split; [exact He|]. intros t Ht. specialize (Hs t Ht).
        unfold dev_pin in *. rewrite A2, A3, nth_tl.
        replace (S (j - S i)) with (j - i)%nat by lia.
        assert (Et : nth j (if Nat.ltb i (length (dm_tel st)) then upd_nth (dm_tel st) i (fun _ => if connected d' && (negb (connected d) || did_connect evs) then Telnet.telnet_init else if did_read evs then t1 else nth i (dm_tel st) Telnet.telnet_init) else dm_tel st) Telnet.telnet_init
                     = nth j (dm_tel st) Telnet.telnet_init).
        { destruct (Nat.ltb i (length (dm_tel st))); [|reflexivity]. apply nth_upd_nth_ne. lia. }
        rewrite Et. exact Hs. }
      assert (Hlen2 : (length (dm_devs st2) <= n + S i)%nat) by (rewrite A1, length_upd_nth; lia).
      specialize (IH now st2 (S i) (tl pins) tmo' (acc ++ map (SysDev i) evs) id I2 P2 Hdue2 Hlen2).
      destruct (dev_loop ranged_sorted rmatch compress short_circuit n now st2 (S i) (tl pins) tmo' (acc ++ map (SysDev i) evs)) as [[[st3 tmo3] evs3]| | | |]; try contradiction.
      destruct IH as [B1 B2]. split.
      + intros j dj Hj Hnj. destruct (Nat.eq_dec j i) as [->|Hne].
        * rewrite (B2 i ltac:(lia)), A1, (nth_error_upd_nth_eq _ _ _ _ En) in Hnj. injection Hnj as <-. exact Hno.
        * apply (B1 j dj ltac:(lia) Hnj).
      + intros j Hj. rewrite (B2 j ltac:(lia)), A1. apply nth_error_upd_nth_ne. lia.
  Qed.

  (* the client with this id has no command in progress and every request line it sent has its terminal reply *)
  Definition answered (st : daemon) (id : Z) : Prop :=
    forall y, In y (dm_clients st) -> cid y = id ->
      busy (dc y) = false /\ exists toks, cl_out (dc y) = render toks /\ terminals toks = dc_lines y.

  Theorem dev_pass_deadline now st pins id : DPInv compress st -> due now st pins 0 id ->
    match dev_loop ranged_sorted rmatch compress short_circuit (length (dm_devs st)) now st 0 pins None [] with
    | Ok (st', _, _) => DPInv compress st' /\ ~ In id (qall (dm_devs st')) /\ answered st' id
    | _ => False
    end.
  Proof.
    intros I Hdue.
    assert (Hn : tmo_pos None) by (intros x Hx; discriminate).
    pose proof (dev_loop_inv expand_str ranged_sorted ranged_plain sorted rmatch compress short_circuit (length (dm_devs st)) now st 0 pins None [] I Hn) as H1.
    pose proof (dev_loop_due (length (dm_devs st)) now st 0 pins None [] id I Hn Hdue ltac:(lia)) as H2.
    destruct (dev_loop ranged_sorted rmatch compress short_circuit (length (dm_devs st)) now st 0 pins None []) as [[[st' tmo'] evs]| | | |]; try contradiction.
    destruct H1 as (I' & _). destruct H2 as [B _]. split; [exact I'|].
    assert (Hq : ~ In id (qall (dm_devs st'))).
    { unfold qall. intros Hin. apply in_flat_map in Hin as (d & Hd & Hin). apply In_nth_error in Hd as (j & Hj). exact (B j d ltac:(lia) Hj Hin). }
    split; [exact Hq|]. intros y Hy Hid.
    pose proof (dp_cinv _ _ I') as C. unfold CInv in C. rewrite Forall_forall in C. destruct (C y Hy) as [K P]. cbn [app] in P.
    rewrite Hid, (cnt_notin _ _ Hq) in P.
    assert (Hb : busy (dc y) = false).
    { destruct (busy (dc y)) eqn:E; [|reflexivity]. pose proof (pend_busy (dc y) (proj1 K) E). lia. }
    split; [exact Hb|]. destruct K as (_ & toks & Eo & Et & _). exists toks. split; [exact Eo|]. rewrite Hb in Et. cbn [b2n] in Et. lia.
  Qed.

  (* the client pass of a round re-establishes the cross-layer invariant (first half of DaemonPending.dstep_inv) *)
  Lemma cli_post_poll_inv st r : DPInv compress st -> NL st -> 1 <= dm_seq st < INT_MAX ->
    exists st1 e1, cli_post_poll expand_str ranged_sorted ranged_plain sorted st r = Ok (st1, e1) /\ DPInv compress st1 /\ NL st1.
  Proof.
    intros I Hnl Hseq. unfold cli_post_poll.
    set (sa := if r_accept r then _ else _).
    assert (Ha : DPInv compress (fst sa) /\ NL (fst sa)).
    { unfold sa. destruct (r_accept r); [|cbn [fst]; split; [exact I|exact Hnl]].
      unfold next_id. fold INT_MAX. destruct (dm_seq st <? INT_MAX) eqn:E; [|apply Z.ltb_ge in E; lia]. cbn [fst].
      split.
      2:{ intros p x. cbn [dm_clients]. destruct (Nat.lt_ge_cases p (length (dm_clients st))) as [Hlt|Hge].
          - rewrite nth_error_app1 by exact Hlt. apply Hnl.
          - rewrite nth_error_app2 by exact Hge. destruct (p - length (dm_clients st))%nat as [|k]; cbn; [|destruct k; discriminate].
            intros H; inversion H; subst. reflexivity. }
      pose proof (dp_qseq _ _ I) as Hq. rewrite Forall_forall in Hq.
      constructor; cbn [dm_devs dm_clients dm_seq].
      - exact (dp_devs _ _ I).
      - unfold ids. cbn [dm_clients]. rewrite map_app. cbn [map]. apply NoDup_app_single_fresh; [exact (dp_nodup _ _ I)|].
        intros Hin. unfold cid in Hin. cbn in Hin. specialize (Hq (dm_seq st)). assert (1 <= dm_seq st < dm_seq st) by (apply Hq; apply in_or_app; now right). lia.
      - unfold CInv. apply Forall_app. split; [exact (dp_cinv _ _ I)|]. constructor; [|constructor]. split.
        + split; [exact Logic.I|]. exists [TLine 1 (dm_version st); TPrompt]. cbn [dc new_client cl_out dc_lines busy cl_cmd].
          split; [rewrite fmt_version; cbn [render flat_map render1]; now rewrite !app_nil_r|]. split; [reflexivity|].
          intros _. split; [|reflexivity]. exists (PReady false), false. split; [reflexivity|]. split; [split; [left; reflexivity|reflexivity]|reflexivity].
        + cbn [dc new_client pend cl_cmd app]. unfold cid. cbn [dc new_client cl_id]. symmetry. apply cnt_notin.
          intros Hin. assert (1 <= dm_seq st < dm_seq st) by (apply Hq; apply in_or_app; now left). lia.
      - rewrite Forall_forall. intros z Hz. unfold ids in Hz. cbn [dm_clients] in Hz. rewrite map_app in Hz. cbn [map] in Hz.
        rewrite app_assoc in Hz. apply in_app_or in Hz as [Hz|[<-|[]]].
        + specialize (Hq z Hz). lia.
        + unfold cid. cbn. lia.
      - apply SInv_accept; [exact (dp_slots _ _ I)|reflexivity|].
        intros Hin. unfold cid in Hin. cbn in Hin. assert (1 <= dm_seq st < dm_seq st) by (apply Hq; apply in_or_app; now left). lia. }
    destruct sa as [sta e1]. cbn [fst] in Ha. destruct Ha as (Ia & Na).
    destruct (cli_loop_inv expand_str ranged_sorted ranged_plain sorted rmatch compress (pad_cins (length (dm_clients sta)) (r_cli r)) sta 0 e1 Ia Na) as (stb & e2 & El & Ib & _ & Nb).
    exists stb, e2. auto.
  Qed.

  (* a whole round of the select loop *)
  Theorem dstep_deadline st r id : DPInv compress st -> NL st -> 1 <= dm_seq st < INT_MAX ->
    (forall st1 e1, cli_post_poll expand_str ranged_sorted ranged_plain sorted st r = Ok (st1, e1) -> due (r_now r) st1 (r_dev r) 0 id) ->
    match dstep expand_str ranged_sorted ranged_plain sorted rmatch compress short_circuit st r with
    | Ok (st', _) => DPInv compress st' /\ ~ In id (qall (dm_devs st')) /\ answered st' id
    | _ => False
    end.
  Proof.
    intros I Hnl Hseq Hdue. unfold dstep.
    destruct (cli_post_poll_inv st r I Hnl Hseq) as (st1 & e1 & E & I1 & N1). rewrite E.
    pose proof (dev_pass_deadline (r_now r) st1 (r_dev r) id I1 (Hdue _ _ E)) as HD.
    destruct (dev_loop ranged_sorted rmatch compress short_circuit (length (dm_devs st1)) (r_now r) st1 0 (r_dev r) None []) as [[[st2 tmo] e2]| | | |]; try contradiction.
    exact HD.
  Qed.
End DD.
