(* Which shared result lists (ArgList slots of the store) the actions queued on a device refer to, and which of them
   one device's share of dev_post_poll can touch (C11 / C20: the reference-counted per-request result list, arglist.c).

     dslots d   = the (client id, slot) pairs of the actions queued on d (login and ping actions carry no list)
     SlotRel    : a step never makes a device refer to a NEW list (incl), an action that carries a list also carries a
                  completion callback, the store keeps its length, and only lists referred to by the device before the
                  step are written.
   Proved for every function of Model/Device.v that changes the queue, for any transport behaviour. *)
From Coq Require Import List NArith ZArith Bool Lia.
From PM Require Import Base.Bytes Base.Outcome Base.Dec Gen.GenConsts Gen.GenCbuf Model.ScriptAst Model.Enqueue Model.Script Model.Device
  Proofs.DeviceProofs Proofs.DeviceStmt Proofs.DeviceStmtG Proofs.DeviceInv Proofs.DeviceInvG.
Import ListNotations.
Local Open Scope Z_scope.

Definition slot_of (a : action) : list (Z * nat) := match a_args a with Some s => [(a_client a, s)] | None => [] end.
Definition slots_of (acts : list action) : list (Z * nat) := flat_map slot_of acts.
Definition dslots (d : device) : list (Z * nat) := slots_of (dv_acts d).
Definition args_cb (a : action) : Prop := a_args a <> None -> a_hascb a = true.
Definition ArgsCb (d : device) : Prop := Forall args_cb (dv_acts d).

Lemma slot_of_same_id a a' : same_id a a' -> slot_of a' = slot_of a.
Proof. intros (_ & Hc & _ & _ & _ & _ & Ha). unfold slot_of. now rewrite Ha, Hc. Qed.
Lemma args_cb_same_id a a' : same_id a a' -> args_cb a -> args_cb a'.
Proof. intros (_ & _ & Hh & _ & _ & _ & Ha) H. unfold args_cb in *. now rewrite Ha, Hh. Qed.
Lemma slot_of_rewind a : slot_of (rewind_action a) = slot_of a.
Proof. unfold rewind_action. destruct (rev (a_exec a)); reflexivity. Qed.
Lemma args_cb_rewind a : args_cb a -> args_cb (rewind_action a).
Proof. unfold rewind_action. destruct (rev (a_exec a)); auto. Qed.
Lemma slot_of_stamp s a : slot_of (set_stamp s a) = slot_of a. Proof. reflexivity. Qed.

Lemma slots_app a b : slots_of (a ++ b) = slots_of a ++ slots_of b.
Proof. unfold slots_of. now rewrite flat_map_app. Qed.

(* the queue after a reconnect-like step: the old one, the old one without its login head, or a fresh login in front
   of it with the head rewound *)
Definition login_front (s : list stmt) (acts : list action) : list action :=
  create_action s PM_LOG_IN None 0 false false false None :: (match acts with [] => [] | h :: r => rewind_action h :: r end).
Lemma slots_login_front s acts : slots_of (login_front s acts) = slots_of acts.
Proof. unfold login_front. destruct acts as [|h r]; cbn; [reflexivity|]. unfold slots_of. cbn [flat_map]. now rewrite slot_of_rewind. Qed.
Lemma args_cb_login_front s acts : Forall args_cb acts -> Forall args_cb (login_front s acts).
Proof.
  intros H. unfold login_front. constructor; [intros E; cbn in E; congruence|].
  destruct acts as [|h r]; [constructor|]. inversion H; subst. constructor; [now apply args_cb_rewind|assumption].
Qed.

Record SlotRel (d : device) (store : list arglist) (d' : device) (store' : list arglist) : Prop := {
  sr_incl : incl (dslots d') (dslots d);
  sr_cb : ArgsCb d';
  sr_len : length store' = length store;
  sr_store : forall j, (forall c, ~ In (c, j) (dslots d)) -> nth_error store' j = nth_error store j
}.

Lemma SlotRel_refl d store : ArgsCb d -> SlotRel d store d store.
Proof. intros H. constructor; auto. apply incl_refl. Qed.
Lemma SlotRel_trans d0 s0 d1 s1 d2 s2 : SlotRel d0 s0 d1 s1 -> SlotRel d1 s1 d2 s2 -> SlotRel d0 s0 d2 s2.
Proof.
  intros A B. constructor.
  - eapply incl_tran; [exact (sr_incl _ _ _ _ B)|exact (sr_incl _ _ _ _ A)].
  - exact (sr_cb _ _ _ _ B).
  - rewrite (sr_len _ _ _ _ B). exact (sr_len _ _ _ _ A).
  - intros j Hj. rewrite (sr_store _ _ _ _ B j); [exact (sr_store _ _ _ _ A j Hj)|].
    intros c Hin. apply (Hj c). exact (sr_incl _ _ _ _ A _ Hin).
Qed.
(* a step that only changes the queue *)
Lemma SlotRel_acts d store d' : incl (dslots d') (dslots d) -> ArgsCb d' -> SlotRel d store d' store.
Proof. intros A B. constructor; auto. Qed.

Section Slots.
  Variable rmatch : text -> text -> option pmatch.
  Variable compress : list text -> text.
  Variable sc : bool.

  Lemma enqueue_login_slots d d' : enqueue_login d = Ok d' ->
    exists s, dv_acts d' = login_front s (dv_acts d).
  Proof.
    unfold enqueue_login. destruct (assoc_script PM_LOG_IN (dv_scripts d)) as [s|]; [|discriminate].
    intros H; inversion H; subst. exists s. reflexivity.
  Qed.

  Lemma disconnect_slots d d' evs : disconnect d = (d', evs) ->
    dv_acts d' = dv_acts d \/ exists h, dv_acts d = h :: dv_acts d'.
  Proof.
    unfold disconnect. intros H; inversion H; subst; clear H. destruct d as [sd scr to pp cs li fd acts lr rc lp sc0 sa fs].
    cbn [dv_acts set_conn upd_sdev dv dv_scripts dv_timeout dv_ping_period dv_cstate dv_logged_in dv_has_fd].
    destruct acts as [|h r]; [left; reflexivity|].
    destruct (Z.eqb (a_com h) PM_LOG_IN); cbn; [right; exists h; reflexivity|left; reflexivity].
  Qed.

  Lemma incl_slots_tail h r : incl (slots_of r) (slots_of (h :: r)).
  Proof. unfold slots_of. cbn [flat_map]. apply incl_appr, incl_refl. Qed.

  Lemma connect_slots now d plans d' evs pl : connect now d plans = Ok (d', evs, pl) ->
    dv_acts d' = dv_acts d \/ exists s, dv_acts d' = login_front s (dv_acts d).
  Proof.
    unfold connect. destruct (dv_has_fd d || negb (Z.eqb (dv_cstate d) DEV_NOT_CONNECTED)); [discriminate|].
    destruct plans as [|[| |] r].
    - intros H; inversion H; subst. left. reflexivity.
    - match goal with |- match enqueue_login ?x with _ => _ end = _ -> _ => destruct (enqueue_login x) as [d3| | | |] eqn:E; try discriminate end.
      intros H; inversion H; subst. right. apply enqueue_login_slots in E. exact E.
    - intros H; inversion H; subst. left. reflexivity.
    - intros H; inversion H; subst. left. reflexivity.
  Qed.

  Lemma reconnect_slots now d tmo plans d' evs tmo' pl store : ArgsCb d ->
    reconnect now d tmo plans = Ok (d', evs, tmo', pl) -> SlotRel d store d' store.
  Proof.
    intros Hcb. unfold reconnect.
    destruct (if Z.eqb (dv_cstate d) DEV_NOT_CONNECTED then (d, []) else disconnect d) as [d1 e1] eqn:E1.
    assert (H1 : incl (dslots d1) (dslots d) /\ ArgsCb d1).
    { destruct (Z.eqb (dv_cstate d) DEV_NOT_CONNECTED); [inversion E1; subst; split; [apply incl_refl|exact Hcb]|].
      apply disconnect_slots in E1. unfold dslots, ArgsCb. destruct E1 as [->|(h & Eh)]; [split; [apply incl_refl|exact Hcb]|].
      unfold ArgsCb in Hcb. rewrite Eh in *. split; [apply incl_slots_tail|inversion Hcb; assumption]. }
    destruct H1 as [Hi1 Hc1].
    destruct (time_to_reconnect now d1 tmo) as [go tmo1]. destruct go.
    - destruct (connect now d1 plans) as [[[d2 e2] pl2]| | | |] eqn:E2; try discriminate.
      intros H; inversion H; subst. apply connect_slots in E2. apply SlotRel_acts.
      + unfold dslots in *. destruct E2 as [->|(s & ->)]; [exact Hi1|rewrite slots_login_front; exact Hi1].
      + unfold ArgsCb in *. destruct E2 as [->|(s & ->)]; [exact Hc1|apply args_cb_login_front; exact Hc1].
    - intros H; inversion H; subst. apply SlotRel_acts; assumption.
  Qed.

  Lemma enqueue_ping_slots now d tmo d' tmo' store : ArgsCb d -> enqueue_ping now d tmo = (d', tmo') -> SlotRel d store d' store.
  Proof.
    intros Hcb. unfold enqueue_ping. destruct (assoc_script PM_PING (dv_scripts d)) as [s|]; [|intros H; inversion H; subst; now apply SlotRel_refl].
    destruct (Z.eqb (dv_ping_period d) 0); [intros H; inversion H; subst; now apply SlotRel_refl|].
    destruct (dv_last_ping d + dv_ping_period d <=? now); intros H; inversion H; subst; [|now apply SlotRel_refl].
    apply SlotRel_acts.
    - unfold dslots. cbn [dv_acts set_last_ping set_acts]. rewrite slots_app. cbn. rewrite app_nil_r. apply incl_refl.
    - unfold ArgsCb. cbn [dv_acts set_last_ping set_acts]. apply Forall_app. split; [exact Hcb|]. constructor; [intros E; cbn in E; congruence|constructor].
  Qed.

  Lemma handle_ready_slots d pin ioerr d' evs store : ArgsCb d -> handle_ready d pin = Ok (ioerr, d', evs) -> SlotRel d store d' store.
  Proof.
    intros Hcb. unfold handle_ready.
    destruct (Z.eqb (dv_cstate d) DEV_NOT_CONNECTED); [discriminate|].
    destruct (negb (dv_has_fd d)); [discriminate|].
    destruct (pi_hup pin || pi_err pin || pi_nval pin); [intros H; inversion H; subst; now apply SlotRel_refl|].
    (* every remaining branch either keeps the queue or puts a fresh login in front *)
    assert (K : forall d1 : device, (dv_acts d1 = dv_acts d \/ exists s, dv_acts d1 = login_front s (dv_acts d)) -> SlotRel d store d1 store).
    { intros d1 [E|(s & E)]; apply SlotRel_acts; unfold dslots, ArgsCb; rewrite E;
        [apply incl_refl|exact Hcb|rewrite slots_login_front; apply incl_refl|apply args_cb_login_front; exact Hcb]. }
    destruct (pi_out pin).
    - destruct (Z.eqb (dv_cstate d) DEV_CONNECTING).
      + destruct (pi_finish_ok pin).
        * match goal with |- context [enqueue_login ?x] => destruct (enqueue_login x) as [d2| | | |] eqn:E; try discriminate end.
          intros H; inversion H; subst. apply K. right. apply enqueue_login_slots in E. exact E.
        * intros H; inversion H; subst. apply K. left. reflexivity.
      + destruct (pi_wrote pin) as [[|n]|].
        * intros H; inversion H; subst. apply K. left. reflexivity.
        * destruct (pi_in pin).
          -- destruct (pi_read pin) as [[|b0 br]|]; intros H; inversion H; subst; apply K; left; try reflexivity.
             destruct (pi_pre pin) as [[kept reply]|]; reflexivity.
          -- intros H; inversion H; subst. apply K. left. reflexivity.
        * intros H; inversion H; subst. apply K. left. reflexivity.
    - destruct (pi_in pin).
      + destruct (pi_read pin) as [[|b0 br]|]; intros H; inversion H; subst; apply K; left; try reflexivity.
        destruct (pi_pre pin) as [[kept reply]|]; reflexivity.
      + intros H; inversion H; subst. apply K. left. reflexivity.
  Qed.

  Lemma fail_and_reconnect_slots now d act rest store tmo plans pre r : ArgsCb d ->
    fail_and_reconnect now d act rest store tmo plans pre = Ok r ->
    match r with
    | PaDone d' store' _ _ _ => SlotRel d store d' store'
    | PaNext d' store' _ _ => SlotRel d store d' store'
    end.
  Proof.
    intros Hcb. unfold fail_and_reconnect.
    assert (H0 : SlotRel d store (set_acts [] d) store).
    { apply SlotRel_acts; [intros x Hx; destruct Hx|constructor]. }
    destruct (connected (set_acts [] d)).
    - destruct (reconnect now (set_acts [] d) tmo plans) as [[[[d2 e2] tmo2] pl]| | | |] eqn:E; try discriminate.
      intros H; inversion H; subst. eapply SlotRel_trans; [exact H0|]. eapply reconnect_slots; [constructor|exact E].
    - intros H; inversion H; subst. exact H0.
  Qed.

  Lemma in_slots_head a r c j : a_args a = Some j -> c = a_client a -> In (c, j) (slots_of (a :: r)).
  Proof. intros Ha ->. unfold slots_of. cbn [flat_map]. apply in_or_app. left. unfold slot_of. rewrite Ha. now left. Qed.

  Lemma pa_step_slots now d store tmo plans : DInvG compress d -> ArgsCb d ->
    match pa_step rmatch compress sc now d store tmo plans with
    | Ok (PaDone d' store' _ _ _) => SlotRel d store d' store'
    | Ok (PaNext d' store' _ _) => SlotRel d store d' store'
    | _ => True
    end.
  Proof.
    intros I Hcb. unfold pa_step. destruct (dv_acts d) as [|act0 rest] eqn:Ea; [now apply SlotRel_refl|].
    pose proof (dg_acts _ d I) as Hw. rewrite Ea in Hw. inversion Hw as [|? ? Hw0 Hwr]; subst.
    unfold ArgsCb in Hcb. pose proof Hcb as Hcb'. rewrite Ea in Hcb'. inversion Hcb' as [|? ? Hc0 Hcr]; subst.
    destruct (a_exec act0) as [|e0 er] eqn:Eex; [exact Logic.I|].
    set (stamp := match a_stamp act0 with Some t => t | None => now end).
    set (act := set_stamp (Some stamp) act0).
    assert (Hs0 : slot_of act = slot_of act0) by reflexivity.
    assert (Hcba : args_cb act) by exact Hc0.
    destruct (stamp + dv_timeout d <=? now).
    { match goal with |- match ?e with _ => _ end => destruct e as [r| | | |] eqn:E; try exact Logic.I end.
      apply (fail_and_reconnect_slots _ _ _ _ _ _ _ _ _ Hcb) in E. exact E. }
    destruct (negb (connected d)).
    { apply SlotRel_acts.
      - unfold dslots. cbn [dv_acts set_acts]. rewrite Ea. unfold slots_of. cbn [flat_map]. rewrite Hs0. apply incl_refl.
      - unfold ArgsCb. cbn [dv_acts set_acts]. constructor; assumption. }
    assert (Hwa : wf_action compress (sd_plugs (dv d)) act) by exact Hw0.
    pose proof (do_while_propsG rmatch compress sc 8 now (dv d) act store [] None Hwa) as Hdw.
    destruct (do_while rmatch compress sc 8 now (dv d) act store [] None) as [[[[[[fin sd'] act'] store'] evs] dt]| | | |]; try exact Logic.I.
    destruct Hdw as (evs1 & t1 & _ & _ & SP).
    pose proof (sg_id _ _ _ _ _ _ _ _ _ _ SP) as Hid.
    pose proof (sg_store _ _ _ _ _ _ _ _ _ _ SP) as [Hlen Hst].
    assert (Hs' : slot_of act' = slot_of act0) by (rewrite (slot_of_same_id _ _ Hid); exact Hs0).
    assert (Hc' : args_cb act') by (eapply args_cb_same_id; [exact Hid|exact Hcba]).
    (* only the head's own list is written *)
    assert (Hstore : forall j, (forall c, ~ In (c, j) (dslots d)) -> nth_error store' j = nth_error store j).
    { intros j Hj. apply Hst. intros E. apply (Hj (a_client act0)). unfold dslots. rewrite Ea. apply in_slots_head; [exact E|reflexivity]. }
    set (d1 := upd_sdev (fun _ => sd') d).
    assert (Hcb1 : ArgsCb (set_acts (act' :: rest) d1)) by (unfold ArgsCb; cbn [dv_acts set_acts]; constructor; assumption).
    assert (R1 : SlotRel d store (set_acts (act' :: rest) d1) store').
    { constructor; [|exact Hcb1|exact Hlen|exact Hstore].
      unfold dslots. cbn [dv_acts set_acts]. rewrite Ea. unfold slots_of. cbn [flat_map]. rewrite Hs'. apply incl_refl. }
    destruct (negb fin); [exact R1|].
    destruct (Z.eqb (a_err act') ACT_ESUCCESS).
    - destruct (advance_props compress (sd_plugs (dv d)) act') as (Hida & _ & _); [exact (sg_wf _ _ _ _ _ _ _ _ _ _ SP)|].
      destruct (a_exec (advance act')) eqn:Eadv.
      + constructor; [|unfold ArgsCb; cbn; exact Hcr|exact Hlen|exact Hstore].
        unfold dslots. cbn [dv_acts set_stats set_acts]. rewrite Ea. apply incl_slots_tail.
      + constructor; [|unfold ArgsCb; cbn [dv_acts set_acts]; constructor; [eapply args_cb_same_id; [exact Hida|exact Hc']|exact Hcr]|exact Hlen|exact Hstore].
        unfold dslots. cbn [dv_acts set_acts]. rewrite Ea. unfold slots_of. cbn [flat_map]. rewrite (slot_of_same_id _ _ Hida), Hs'. apply incl_refl.
    - match goal with |- match ?e with _ => _ end => destruct e as [r| | | |] eqn:E; try exact Logic.I end.
      assert (Hcbd1 : ArgsCb d1) by (unfold ArgsCb, d1; cbn [dv_acts upd_sdev]; exact Hcb).
      apply (fail_and_reconnect_slots _ _ _ _ _ _ _ _ _ Hcbd1) in E.
      assert (R0 : SlotRel d store d1 store') by (constructor; [unfold dslots, d1; cbn [dv_acts upd_sdev]; apply incl_refl|exact Hcbd1|exact Hlen|exact Hstore]).
      destruct r; eapply SlotRel_trans; eauto.
  Qed.

  Lemma process_action_slots : forall fuel now d store tmo plans acc, DInvG compress d -> ArgsCb d -> tmo_pos tmo ->
    match process_action rmatch compress sc fuel now d store tmo plans acc with
    | Ok (d', store', _, _, _) => SlotRel d store d' store'
    | _ => True
    end.
  Proof.
    induction fuel as [|f IH]; intros now d store tmo plans acc I Hcb Hp; cbn [process_action]; [exact Logic.I|].
    pose proof (pa_step_slots now d store tmo plans I Hcb) as H1.
    pose proof (pa_step_invG rmatch compress sc now d store tmo plans I Hp) as H2.
    destruct (pa_step rmatch compress sc now d store tmo plans) as [[d' store' tmo' pl' evs|d' store' tmo' evs]| | | |]; try exact Logic.I; [exact H1|].
    specialize (IH now d' store' tmo' plans (acc ++ evs) (tg_inv _ _ _ _ _ _ _ _ _ H2) (sr_cb _ _ _ _ H1) (tg_pos _ _ _ _ _ _ _ _ _ H2)).
    destruct (process_action rmatch compress sc f now d' store' tmo' plans (acc ++ evs)) as [[[[[d'' store''] t''] p''] e'']| | | |]; try exact Logic.I.
    eapply SlotRel_trans; eauto.
  Qed.

  (* one device's share of dev_post_poll *)
  Theorem post_poll_one_slots now d store tmo pin : DInvG compress d -> ArgsCb d -> tmo_pos tmo -> 0 <= dv_retry_count d ->
    match post_poll_one rmatch compress sc now d store tmo pin with
    | Ok (d', store', _, _) => SlotRel d store d' store'
    | _ => True
    end.
  Proof.
    intros I Hcb Hp Hrc. unfold post_poll_one.
    (* 1. the descriptor *)
    assert (H0 : match (if dv_has_fd d && any_flag pin then handle_ready d pin else Ok (false, d, [])) with
                 | Ok (ioerr, d1, e1) => SlotRel d store d1 store /\ DInvG compress d1 /\ 0 <= dv_retry_count d1
                 | _ => True end).
    { destruct (dv_has_fd d) eqn:Efd; cbn [andb]; [|split; [now apply SlotRel_refl|split; assumption]].
      destruct (any_flag pin); [|split; [now apply SlotRel_refl|split; assumption]].
      destruct (handle_ready_invG compress d pin I Efd) as (io & d1 & e1 & E & I1 & _ & _ & _ & _ & R1 & _).
      rewrite E. split; [eapply handle_ready_slots; eauto|split; [exact I1|lia]]. }
    destruct (if dv_has_fd d && any_flag pin then handle_ready d pin else Ok (false, d, [])) as [[[ioerr d1] e1]| | | |]; try exact Logic.I.
    destruct H0 as (R1 & I1 & Hrc1).
    (* 2. reconnect *)
    assert (H2 : match (if ioerr || Z.eqb (dv_cstate d1) DEV_NOT_CONNECTED then reconnect now d1 tmo (pi_plans pin) else Ok (d1, [], tmo, pi_plans pin)) with
                 | Ok (d2, e2, tmo2, pl) => SlotRel d1 store d2 store /\ DInvG compress d2 /\ tmo_pos tmo2
                 | _ => True end).
    { destruct (ioerr || Z.eqb (dv_cstate d1) DEV_NOT_CONNECTED); [|split; [apply SlotRel_refl; exact (sr_cb _ _ _ _ R1)|split; assumption]].
      destruct (reconnect_invG compress now d1 tmo (pi_plans pin) (DInvG_QInvG compress d1 I1) (fun _ => I1) Hp) as (d2 & e2 & tmo2 & pl & E & I2 & _ & _ & _ & P2 & _).
      rewrite E. split; [eapply reconnect_slots; [exact (sr_cb _ _ _ _ R1)|exact E]|split; assumption]. }
    destruct (if ioerr || Z.eqb (dv_cstate d1) DEV_NOT_CONNECTED then reconnect now d1 tmo (pi_plans pin) else Ok (d1, [], tmo, pi_plans pin)) as [[[[d2 e2] tmo2] pl]| | | |]; try exact Logic.I.
    destruct H2 as (R2 & I2 & P2).
    (* 3. ping *)
    assert (H3 : forall d3 tmo3, (if connected d2 then enqueue_ping now d2 tmo2 else (d2, tmo2)) = (d3, tmo3) ->
                 SlotRel d2 store d3 store /\ DInvG compress d3 /\ tmo_pos tmo3).
    { intros d3 tmo3. destruct (connected d2) eqn:Ec; [|intros H; inversion H; subst; split; [apply SlotRel_refl; exact (sr_cb _ _ _ _ R2)|split; assumption]].
      intros E. destruct (enqueue_ping_invG compress now d2 tmo2 d3 tmo3 I2 P2 E) as (I3 & _ & _ & P3 & _).
      split; [eapply enqueue_ping_slots; [exact (sr_cb _ _ _ _ R2)|exact E]|split; assumption]. }
    destruct (if connected d2 then enqueue_ping now d2 tmo2 else (d2, tmo2)) as [d3 tmo3].
    destruct (H3 d3 tmo3 eq_refl) as (R3 & I3 & P3).
    pose proof (process_action_slots (pa_fuel d3) now d3 store tmo3 pl (e1 ++ e2) I3 (sr_cb _ _ _ _ R3) P3) as H4.
    destruct (process_action rmatch compress sc (pa_fuel d3) now d3 store tmo3 pl (e1 ++ e2)) as [[[[[d4 store4] tmo4] pl4] evs]| | | |]; try exact Logic.I.
    eapply SlotRel_trans; [exact R1|]. eapply SlotRel_trans; [exact R2|]. eapply SlotRel_trans; [exact R3|exact H4].
  Qed.
End Slots.
