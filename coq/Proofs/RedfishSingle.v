(* C19: one target at any depth of an acyclic plug forest: the helper walks the ancestor chain root-first with one
   silent query per level, answers the target exactly once, and is back at its prompt -- for every release
   schedule of the delayed status poll.  Stated first in the model's own vocabulary (final_line / final_ts). *)
From Coq Require Import List NArith ZArith Bool Lia.
From PM Require Import Base.Bytes Base.Outcome Gen.GenRfp Model.Redfish Spec.RedfishSpec Model.RedfishView
  Proofs.RedfishBase Proofs.RedfishSteps.
Import ListNotations.

Section Single.
Variable b : state.          (* the configuration: hosts, failing hosts, verbosity, plug table, default paths *)
Variable c : cmd.
Variable x : name.
Variable pdx : plug.
Variable l : list name.      (* the ancestors of x, nearest first *)
Hypothesis Lx : lookup (s_tab b) x = Some pdx.
Hypothesis Ch : chain (s_tab b) x l.
Hypothesis Len : length l <= length (s_tab b).
Hypothesis StatPaths : forall a pda, In a l -> lookup (s_tab b) a = Some pda -> exists lp, get_path b CStat pda = Some lp.
Hypothesis StatX : exists lp, get_path b CStat pdx = Some lp.

Definition tmsg : pmsg := mkMsg c (p_host pdx) x (p_parent pdx) true false.
Definition qmsg (pda : plug) (a : name) : pmsg := mkMsg CStat (p_host pda) a (p_parent pda) false false.

(* the status a query of plug a sees *)
Definition qs (ts : list (name * status)) (a : name) : status :=
  match lookup (s_tab b) a with
  | Some pda => match seen b ts (p_host pda) a with Some s => s | None => SOff end
  | None => SErr
  end.

Definition blocker_m ts (rest : list name) : option name := find (fun a => negb (status_is_on (qs ts a))) rest.
Definition own_line ts : text :=
  if mem (p_host pdx) (s_fail b) then fmt f_shell_error [x]
  else match c with CStat => fmt f_stat_result [x; status_text (qs ts x)] | _ => fmt f_onoff_ok [x] end.
Definition own_ts (ts : list (name * status)) : list (name * status) :=
  if mem (p_host pdx) (s_fail b) then ts else flip_ts b ts c x.
Definition final_line ts rest : text :=
  match blocker_m ts rest with
  | Some a => match lookup (s_tab b) a with Some pda => blocked_line tmsg pda (qs ts a) | None => [] end
  | None => own_line ts
  end.
Definition final_ts ts rest := match blocker_m ts rest with Some _ => ts | None => own_ts ts end.

Definition cover (ts : list (name * status)) : Prop := forall a, In a (x :: l) -> ts_lookup ts a <> None.

Lemma seen_some ts a pda : cover ts -> In a (x :: l) -> lookup (s_tab b) a = Some pda -> seen b ts (p_host pda) a = Some (qs ts a).
Proof.
  intros CV I L. unfold qs. rewrite L. unfold seen. destruct (mem _ _); [reflexivity|].
  destruct (ts_lookup ts a) eqn:E; [reflexivity|]. exfalso. now apply (CV a I).
Qed.

(* the target's own turn: stat prints, on/off is carried out, polled once, confirmed *)
Lemma finish ts out log fuel sched : 3 <= fuel -> cover ts ->
  exists out' log', drain fuel sched (St b ts [tmsg] [] [] out log) = Ok (St b (own_ts ts) [] [] [] out' log') /\
                    res out' = res out ++ [(TResult x, own_line ts)].
Proof.
  intros F3 CV. destruct fuel as [|[|[|f]]]; try lia.
  pose proof (seen_some ts x pdx CV (or_introl eq_refl) Lx) as SN.
  rewrite drain_step, pass_one. cbv zeta.
  unfold own_ts, own_line. unfold seen in SN. unfold tmsg.
  destruct (mem (p_host pdx) (s_fail b)) eqn:FH.
  - (* failing host *)
    rewrite pm_fail by exact FH. stw. cbn [skipn]. rewrite drain_done. eexists; eexists. split; [reflexivity|]. now rewrite res_app.
  - destruct (cmd_is_stat c) eqn:EC.
    + (* stat *)
      assert (c = CStat) as -> by (destruct c; [reflexivity | discriminate | discriminate]).
      rewrite (pm_stat _ _ _ _ _ _ _ _ _ _ _ FH SN). stw. cbn [skipn]. rewrite drain_done.
      eexists; eexists. split; [reflexivity|]. now rewrite res_app.
    + (* on / off: carried out, then the poll confirms *)
      assert (NC : c <> CStat) by (intros ->; discriminate).
      destruct StatX as [lp SP].
      rewrite (pm_op_first _ _ _ _ _ _ _ _ _ _ _ _ NC FH Lx SP). stw. cbn [skipn app].
      rewrite drain_step_delayed, pass_one. cbv zeta.
      destruct (flip_ts_confirms b ts c x NC) as [s [T SC]].
      rewrite (pm_op_poll _ _ _ _ _ _ _ _ _ _ _ NC FH T SC). stw. cbn [skipn]. rewrite drain_done.
      eexists; eexists. split; [reflexivity|]. rewrite res_app.
      destruct c; [congruence | reflexivity | reflexivity].
Qed.

Lemma parent_head : match l with [] => p_parent pdx = None | a :: _ => p_parent pdx = Some a end.
Proof. inversion Ch as [x0 pd0 L0 P0 | x0 pd0 par l0 L0 P0 C0]; subst; rewrite Lx in L0; inversion L0; subst; assumption. Qed.

(* the walk down the chain: a silent query of ancestor a is active, the target waits *)
Lemma walk : forall l1 a l2 pda ts out log fuel sched,
  l = l1 ++ a :: l2 -> lookup (s_tab b) a = Some pda -> cover ts -> length l1 + 4 <= fuel ->
  exists out' log', drain fuel sched (St b ts [qmsg pda a] [tmsg] [] out log) = Ok (St b (final_ts ts (a :: rev l1)) [] [] [] out' log') /\
                    res out' = res out ++ [(TResult x, final_line ts (a :: rev l1))].
Proof.
  induction l1 as [|ch l1 IH] using rev_ind; intros a l2 pda ts out log fuel sched EL La CV FU.
  - (* a is the parent of the target *)
    destruct fuel as [|f]; [cbn in FU; lia|].
    assert (Ia : In a (x :: l)) by (right; rewrite EL; now left).
    pose proof (seen_some ts a pda CV Ia La) as SN.
    assert (D : is_desc (s_tab b) x a = true) by (apply (is_desc_chain _ _ _ _ Ch Len); rewrite EL; now left).
    rewrite drain_step, pass_one. cbv zeta. unfold qmsg. rewrite (process_msg_silent _ _ _ _ _ _ _ _ _ _ _ SN).
    unfold final_ts, final_line, blocker_m. cbn [rev app find].
    destruct (status_is_on (qs ts a)) eqn:ON; cbn [negb].
    + assert (P : parent_is tmsg a = true).
      { unfold parent_is, tmsg. cbn [m_parent]. pose proof parent_head as PH. rewrite EL in PH. cbn [app] in PH. rewrite PH. apply text_eqb_refl. }
      rewrite (pw_moved b ts _ tmsg [] out log a _ D ON P). stw. cbn [app skipn].
      apply finish; [cbn in FU; lia | exact CV].
    + rewrite (pw_blocked b ts _ tmsg [] out log a _ pda D ON eq_refl La). stw. cbn [skipn]. rewrite drain_done.
      rewrite La. eexists; eexists. split; [reflexivity | now rewrite res_app].
  - (* a deeper level follows: ch is the child of a on the way to the target *)
    destruct fuel as [|f]; [lia|].
    assert (Ia : In a (x :: l)) by (right; rewrite EL; apply in_or_app; right; now left).
    pose proof (seen_some ts a pda CV Ia La) as SN.
    assert (D : is_desc (s_tab b) x a = true) by (apply (is_desc_chain _ _ _ _ Ch Len); rewrite EL; apply in_or_app; right; now left).
    rewrite drain_step, pass_one. cbv zeta. unfold qmsg. rewrite (process_msg_silent _ _ _ _ _ _ _ _ _ _ _ SN).
    assert (EL' : l = l1 ++ ch :: a :: l2) by (rewrite EL, <- app_assoc; reflexivity).
    assert (ND : NoDup l) by (eapply chain_nodup; exact Ch).
    assert (NEa : ch <> a).
    { intros ->. rewrite EL' in ND. apply NoDup_remove_2 in ND. apply ND. apply in_or_app. right. now left. }
    unfold final_ts, final_line, blocker_m. rewrite rev_app_distr. cbn [rev app find].
    destruct (status_is_on (qs ts a)) eqn:ON; cbn [negb].
    + assert (P : parent_is tmsg a = false).
      { unfold parent_is, tmsg. cbn [m_parent]. pose proof parent_head as PH. rewrite EL' in PH.
        destruct l1 as [|h l1']; cbn [app] in PH; rewrite PH; apply text_eqb_neq.
        - exact NEa.
        - intros ->. rewrite EL' in ND. cbn [app] in ND. inversion ND as [|? ? NI _]. apply NI. apply in_or_app. right. right. now left. }
      assert (C : child_of_ancestor (s_tab b) x a = WFound ch).
      { rewrite EL in Ch, Len. rewrite (child_of_ancestor_chain _ _ _ _ _ Ch Len). now rewrite last_last. }
      assert (Cch : chain (s_tab b) ch (a :: l2)) by (rewrite EL' in Ch; eapply chain_suffix; exact Ch).
      destruct (chain_lookup _ _ _ Cch) as [pdc Lc].
      assert (Ich : In ch l) by (rewrite EL'; apply in_or_app; right; now left).
      destruct (StatPaths ch pdc Ich Lc) as [lp GP].
      assert (PA : plugname_active [mkMsg CStat (p_host pda) a (p_parent pda) false false] ch (m_cmd tmsg) = false).
      { unfold plugname_active. cbn [existsb m_plug]. assert (text_eqb a ch = false) as -> by (apply text_eqb_neq; congruence). reflexivity. }
      destruct (pw_deeper b ts _ tmsg [] out log a _ ch pdc lp D ON P C PA Lc GP) as [out1 [E R]].
      rewrite E. stw. cbn [app skipn].
      destruct (IH ch (a :: l2) pdc ts out1 log f (tl sched) EL' Lc CV) as [out' [log' [DR RS]]]; [rewrite app_length in FU; cbn [length] in FU; lia|].
      exists out', log'. unfold qmsg in DR. rewrite DR. split; [reflexivity|]. rewrite RS, R. reflexivity.
    + rewrite (pw_blocked b ts _ tmsg [] out log a _ pda D ON eq_refl La). stw. cbn [skipn]. rewrite drain_done.
      rewrite La. eexists; eexists. split; [reflexivity | now rewrite res_app].
Qed.

End Single.
