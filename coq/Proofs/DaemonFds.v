(* descriptors and children held for devices, in every reachable state of the whole-daemon model (C20) *)
From Coq Require Import List NArith ZArith Bool Lia.
From PM Require Import Base.Bytes Base.Outcome Gen.GenConsts Model.ScriptAst Model.Enqueue Model.Script Model.Device Model.Client Model.Daemon
                       Proofs.DeviceInv Proofs.DeviceRun Proofs.DeviceInvG Proofs.DeviceRunG Proofs.DaemonLedger Proofs.DaemonPending.
Import ListNotations.
Local Open Scope Z_scope.

Definition attached (d : device) : bool := negb (Z.eqb (dv_cstate d) DEV_NOT_CONNECTED).     (* connected or connecting *)

Lemma has_fd_attached compress d : DInvRG compress d -> dv_has_fd d = attached d.
Proof.
  intros [I _]. pose proof (dg_fd compress d I) as H. unfold attached.
  destruct (dv_has_fd d) eqn:E; destruct (Z.eqb_spec (dv_cstate d) DEV_NOT_CONNECTED) as [Hc|Hc]; cbn; auto.
  - apply H in Hc. congruence.
  - exfalso. apply Hc. now apply H.
Qed.

Lemma dev_fds_attached compress devs : Forall (DInvRG compress) devs -> length (filter dv_has_fd devs) = length (filter attached devs).
Proof.
  induction 1 as [|d r Hd Hr IH]; [reflexivity|]. cbn [filter]. rewrite (has_fd_attached compress d Hd).
  destruct (attached d); cbn [length]; now rewrite IH.
Qed.

Lemma kids_all_pipe : forall devs pipes, (forall i, nth i pipes true = true) -> kids_of pipes devs = length (filter dv_has_fd devs).
Proof.
  induction devs as [|d r IH]; intros pipes Hp; cbn [kids_of filter]; [reflexivity|].
  assert (H0 : hd true pipes = true) by (destruct pipes as [|b p]; [reflexivity|exact (Hp O)]).
  assert (Htl : forall i, nth i (tl pipes) true = true).
  { intros i. destruct pipes as [|b p]; [destruct i; reflexivity|exact (Hp (S i))]. }
  rewrite (IH (tl pipes) Htl), H0. cbn [andb]. destruct (dv_has_fd d); cbn [length]; lia.
Qed.
