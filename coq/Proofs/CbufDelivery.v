(* In-order, exactly-once delivery through a cbuf, for every history of operations and every way the
   descriptors split the reads and writes: a ledger records, per connection epoch (a flush starts a new one),
   every byte that entered the buffer and every byte that left it to a consumer; as long as the lost-byte
   counter did not move, left ++ still-unread = entered. *)
From Coq Require Import List ZArith Bool Lia.
From PM Require Import Base.Bytes Gen.GenCbuf Model.Cbuf Spec.Fifo
  Proofs.CbufList Proofs.CbufInv Proofs.CbufRead Proofs.CbufWrite Proofs.CbufLine Proofs.CbufStep.
Import ListNotations.
Local Open Scope Z_scope.

Record ledger := mkLg { lg_in : list byte; lg_out : list byte; lg_lost : Z }.

(* what operation [o], performed on buffer [cb] with observable result [r], adds to the ledger.
   in : cbuf_write: the first [ret] bytes of the caller's data; cbuf_write_from_fd: the bytes that disappeared
        from the descriptor.
   out: cbuf_read / cbuf_read_to_fd: the bytes handed to the caller / accepted by the descriptor;
        cbuf_drop, cbuf_read_line: the bytes a cbuf_peek of the returned length shows immediately before
        (what _getregex_buf does: peek, match, drop).
   lost: the *ndropped out-parameter, summed.       cbuf_flush starts a new epoch. *)
Definition ledger_step (cb : cbuf) (o : op) (r : out) (lg : ledger) : ledger :=
  match o with
  | OWrite bs => mkLg (lg_in lg ++ ztake (o_ret r) bs) (lg_out lg) (lg_lost lg + o_dropped r)
  | OWriteFd fd _ =>
      mkLg (lg_in lg ++ ztake (zlen (fd_bytes fd) - zlen (fd_bytes (o_fd r))) (fd_bytes fd)) (lg_out lg)
           (lg_lost lg + o_dropped r)
  | ORead _ | OReadFd _ _ => mkLg (lg_in lg) (lg_out lg ++ o_bytes r) (lg_lost lg)
  | ODrop _ | OReadLine _ _ => mkLg (lg_in lg) (lg_out lg ++ snd (peek cb (o_ret r))) (lg_lost lg)
  | OFlush => mkLg [] [] (lg_lost lg)
  | OPeek _ | OPeekLine _ _ | OUsed => lg
  end.

Fixpoint lrun (cb : cbuf) (lg : ledger) (ops : list op) : cbuf * ledger :=
  match ops with
  | [] => (cb, lg)
  | o :: rest => match step cb o with (cb1, r) => lrun cb1 (ledger_step cb o r lg) rest end
  end.

Lemma taken_prefix' (w rest : list byte) : ztake (zlen (w ++ rest) - zlen rest) (w ++ rest) = w.
Proof. rewrite zlen_app. replace (zlen w + zlen rest - zlen rest) with (zlen w) by lia. apply ztake_app_exact. Qed.

Lemma peek_drop_split (q : list byte) k : fifo_peek q k ++ fifo_drop q k = q.
Proof. unfold fifo_peek, fifo_drop. change qtake with (@ztake byte). change qskip with (@zdrop byte). apply ztake_zdrop. Qed.

Definition J (l0 : Z) (cb : cbuf) (lg : ledger) : Prop :=
  Rep cb /\ l0 <= lg_lost lg /\ (lg_lost lg = l0 -> lg_out lg ++ abs cb = lg_in lg).

Lemma ledger_step_inv l0 cb lg o cb1 r : J l0 cb lg -> step cb o = (cb1, r) -> J l0 cb1 (ledger_step cb o r lg).
Proof.
  intros (R & L & Q) Es. destruct (step_refines _ _ _ _ R Es) as (R1 & M1 & F).
  pose proof R as (I & W). pose proof (Rep_bound _ R) as QB.
  unfold J. split; [assumption|].
  destruct o as [bs|fd len|len|len|len|len lines|len lines|script len| |];
    cbn [fifo_step] in F; cbn [ledger_step lg_in lg_out lg_lost].
  - destruct F as (F1 & F2 & F3). pose proof (fifo_dropped_nonneg (cb_maxsize cb) (abs cb) bs).
    split; [lia|]. intros E. assert (D0 : fifo_dropped (cb_maxsize cb) (abs cb) bs = 0) by lia.
    apply fifo_dropped_0 in D0. rewrite F1, F2. change qlen with (@zlen byte) in *.
    rewrite fifo_write_fits by lia. rewrite ztake_all by lia. rewrite app_assoc, Q by lia. reflexivity.
  - destruct F as (w & F1 & F2 & F3 & F4 & F5). pose proof (fifo_dropped_nonneg (cb_maxsize cb) (abs cb) w).
    split; [lia|]. intros E. assert (D0 : fifo_dropped (cb_maxsize cb) (abs cb) w = 0) by lia.
    apply fifo_dropped_0 in D0. rewrite F1, taken_prefix', F2. change qlen with (@zlen byte) in *.
    rewrite fifo_write_fits by lia. rewrite app_assoc, Q by lia. reflexivity.
  - destruct F as (F1 & _). split; [assumption|]. rewrite F1. assumption.
  - split; [assumption|]. intros E. specialize (Q E).
    destruct (len <? -1) eqn:E1.
    + destruct F as (F1 & F2). rewrite F1, F2. unfold peek. change (-1 <? 0) with true. cbn [snd]. rewrite app_nil_r. assumption.
    + apply Z.ltb_ge in E1. destruct F as (F1 & F2).
      assert (P : 0 <= o_ret r).
      { rewrite F1. pose proof (zlen_nonneg (abs cb)). change (@zlen byte) with qlen in *. destruct (len =? -1) eqn:E2; [lia|]. apply Z.eqb_neq in E2. lia. }
      destruct (peek cb (o_ret r)) as [pn pb] eqn:Ep. apply peek_spec in Ep; [|assumption].
      destruct Ep as [(? & _)|(_ & _ & Pb)]; [lia|]. cbn [snd]. rewrite Pb, F2, <- app_assoc, peek_drop_split. assumption.
  - split; [assumption|]. intros E. specialize (Q E).
    destruct (len <? 0).
    + destruct F as (F1 & _ & F3). rewrite F1, F3, app_nil_r. assumption.
    + destruct F as (_ & F2 & F3). rewrite F2, F3, <- app_assoc, peek_drop_split. assumption.
  - destruct F as (F1 & _). split; [assumption|]. rewrite F1. assumption.
  - split; [assumption|]. intros E. specialize (Q E).
    destruct ((len <? 0) || (lines <? -1)).
    + destruct F as (F1 & F2 & _). rewrite F1, F2. unfold peek. change (-1 <? 0) with true. cbn [snd]. rewrite app_nil_r. assumption.
    + destruct F as (F1 & _ & F3).
      pose proof (fifo_line_count_bound (abs cb) len lines) as FB. rewrite <- F1 in FB.
      destruct (peek cb (o_ret r)) as [pn pb] eqn:Ep. apply peek_spec in Ep; [|assumption].
      destruct Ep as [(? & _)|(_ & _ & Pb)]; [lia|]. cbn [snd]. rewrite Pb, F3, <- app_assoc, peek_drop_split. assumption.
  - cbv zeta in F. destruct F as (_ & _ & _ & F4 & F5). split; [assumption|]. intros E. specialize (Q E).
    rewrite F4, F5, <- app_assoc, peek_drop_split. assumption.
  - split; [assumption|]. intros _. rewrite F. reflexivity.
  - destruct F as (F1 & _). split; [assumption|]. rewrite F1. assumption.
Qed.

Lemma lrun_inv l0 ops : forall cb lg cb' lg', J l0 cb lg -> lrun cb lg ops = (cb', lg') -> J l0 cb' lg'.
Proof.
  induction ops as [|o rest IH]; intros cb lg cb' lg' HJ; cbn [lrun].
  - intros E; inversion E; subst. assumption.
  - destruct (step cb o) as [cb1 r] eqn:Es. intros E. eapply IH; [|exact E]. eapply ledger_step_inv; eassumption.
Qed.

(* for every history on a buffer fresh from cbuf_create: the lost counter never decreases, and while it is 0
   the bytes that left the buffer since the last flush, followed by the bytes still unread, are exactly the
   bytes that entered it since the last flush: nothing lost, nothing duplicated, nothing reordered, whatever
   the short counts of the descriptors were *)
Theorem delivery_in_order_once mn mx cb0 ops cb lg :
  create mn mx = Some cb0 -> lrun cb0 (mkLg [] [] 0) ops = (cb, lg) ->
  0 <= lg_lost lg /\ (lg_lost lg = 0 -> lg_out lg ++ abs cb = lg_in lg).
Proof.
  intros Ec Er. destruct (create_Rep _ _ _ Ec) as (R0 & A0 & _).
  assert (J0 : J 0 cb0 (mkLg [] [] 0)).
  { split; [assumption|]. cbn [lg_lost lg_out lg_in]. split; [lia|]. intros _. rewrite A0. reflexivity. }
  destruct (lrun_inv 0 ops _ _ _ _ J0 Er) as (_ & L & Q). split; assumption.
Qed.

(* the same from any reachable state (e.g. in the middle of a connection) *)
Theorem delivery_from cb lg ops cb' lg' :
  Rep cb -> lg_out lg ++ abs cb = lg_in lg -> lrun cb lg ops = (cb', lg') ->
  lg_lost lg <= lg_lost lg' /\ (lg_lost lg' = lg_lost lg -> lg_out lg' ++ abs cb' = lg_in lg').
Proof.
  intros R Q Er.
  assert (J0 : J (lg_lost lg) cb lg) by (split; [assumption|]; split; [lia|]; intros _; assumption).
  destruct (lrun_inv _ ops _ _ _ _ J0 Er) as (_ & L & Q'). split; assumption.
Qed.

(* ---- the write side on its own: daemon -> device / client ---------------------------------------------- *)
(* a history made only of cbuf_write (the daemon queues text) and cbuf_read_to_fd with arbitrary accept scripts
   (the poll loop flushes what the descriptor takes): the concatenation of what the descriptor accepted,
   followed by what is still queued, is the concatenation of what was queued *)
Definition is_write_side (o : op) : bool := match o with OWrite _ | OReadFd _ _ => true | _ => false end.
Definition queued (ops : list op) : list byte := flat_map (fun o => match o with OWrite bs => bs | _ => [] end) ops.

Fixpoint accepted (outs : list out) : list byte :=
  match outs with [] => [] | r :: rest => o_bytes r ++ accepted rest end.

Lemma write_side_gen ops : forall cb cb' outs, Rep cb -> forallb is_write_side ops = true ->
  run cb ops = (cb', outs) -> qlen (abs cb) + qlen (queued ops) <= cb_maxsize cb ->
  accepted outs ++ abs cb' = abs cb ++ queued ops.
Proof.
  induction ops as [|o rest IH]; intros cb cb' outs R Hw; cbn [run queued flat_map].
  - intros E; inversion E; subst. cbn [accepted app]. rewrite app_nil_r. reflexivity.
  - cbn [forallb] in Hw. apply andb_true_iff in Hw. destruct Hw as (Ho & Hr).
    destruct (step cb o) as [cb1 r] eqn:Es. destruct (run cb1 rest) as [cb2 rs] eqn:Er.
    intros E; inversion E; subst; clear E. fold (queued rest). intros Hc. cbn [accepted].
    destruct (step_refines _ _ _ _ R Es) as (R1 & M1 & F).
    change qlen with (@zlen byte) in *.
    destruct o; try discriminate; cbn [fifo_step] in F.
    + destruct F as (F1 & F2 & F3). rewrite zlen_app in Hc. pose proof (zlen_nonneg (queued rest)).
      rewrite fifo_write_fits in F1 by lia.
      assert (Eb : o_bytes r = []) by (cbn [step] in Es; destruct (write cb bs) as [[? ?] ?]; inversion Es; reflexivity).
      rewrite Eb. cbn [app].
      rewrite (IH _ _ _ R1 Hr Er) by (rewrite F1, zlen_app, M1; lia). rewrite F1, <- app_assoc. reflexivity.
    + cbv zeta in F. destruct F as (_ & _ & _ & F4 & F5). cbn [app] in *.
      assert (L : zlen (abs cb1) <= zlen (abs cb)).
      { rewrite F5. unfold fifo_drop. change qskip with (@zdrop byte). rewrite zlen_zdrop. lia. }
      rewrite <- app_assoc. rewrite (IH _ _ _ R1 Hr Er) by (rewrite M1; lia).
      rewrite app_assoc. rewrite F4, F5, peek_drop_split. reflexivity.
Qed.

Theorem write_side_in_order_once mn mx cb0 ops cb outs :
  create mn mx = Some cb0 -> forallb is_write_side ops = true -> run cb0 ops = (cb, outs) ->
  qlen (queued ops) <= Z.max mn mx ->
  accepted outs ++ abs cb = queued ops.
Proof.
  intros Ec Hw Er Hc. destruct (create_Rep _ _ _ Ec) as (R0 & A0 & M0).
  rewrite (write_side_gen ops _ _ _ R0 Hw Er) by (rewrite A0, M0; cbn; lia). rewrite A0. reflexivity.
Qed.

(* the history used by the non-vacuity examples of Properties/C09.v *)
Definition ex_ops : list op :=
  [OWrite [1;2;3]%N; ORead 2; OWrite [4;5;6]%N; OWriteFd [FdData [7;8]%N; FdAgain; FdData [9]%N] (-1); OPeek 3; ODrop 1;
   OReadFd [2; 1] (-1); OWrite [10;11;12;13;14;15;16;17;18;19;20;21]%N; OUsed; OReadLine 8 1; OFlush; OUsed].

