(* C14: hostlist_sort never adds, drops or renames a name (permutation of the expansion);
        hostlist_create never hangs (F33: the expansion loop of _push_range_list_with_suffix now breaks after j == hi,
        GenHL.SUFFIX_LOOP_BREAKS = 1) *)
From Coq Require Import List Arith NArith ZArith Lia Bool Permutation.
From PM Require Import Base.Bytes Base.Outcome Gen.GenHL Model.HL Spec.HLSpec Proofs.HLArith Proofs.HLProofs Proofs.HLIndex.
From Coq Require Import ZifyBool ZifyNat ZifyN.
Import ListNotations.
Local Open Scope N_scope.
Ltac Zify.zify_post_hook ::= Z.div_mod_to_equations.

(* ================================================================ create never hangs *)
Lemma bind_no_hang {A B} (x : outcome A) (f : A -> outcome B) site :
  (forall s, x <> Hang s) -> (forall a s, f a <> Hang s) -> bind x f <> Hang site.
Proof. intros Hx Hf. destruct x; cbn [bind]; try discriminate; [apply Hf|]. intros E. now apply (Hx site0). Qed.

Lemma parse_range_list_no_hang f : forall s cnt site, parse_range_list f s cnt <> Hang site.
Proof.
  induction f as [|f IH]; intros s cnt site; cbn [parse_range_list]; [discriminate|].
  destruct (cnt =? GenHL.RANGES_LEN_ARG); [discriminate|].
  destruct (GenHL.RANGES_ARRAY <=? cnt); [discriminate|].
  destruct (match split_first 44 s with Some (a, b) => (a, Some b) | None => (s, None) end) as [cur rest].
  destruct (parse_single_range cur); [|discriminate].
  destruct rest; [|discriminate].
  apply bind_no_hang; [intros s0; apply IH | intros a s0; discriminate].
Qed.

Lemma suffix_loop_breaks : (GenHL.SUFFIX_LOOP_BREAKS =? 0) = false.
Proof. reflexivity. Qed.

Lemma push_range_list_with_suffix_no_hang pfx sfx rs : forall h site, push_range_list_with_suffix h pfx sfx rs <> Hang site.
Proof.
  induction rs as [|r rs IH]; intros h site; cbn [push_range_list_with_suffix]; [discriminate|].
  destruct (GenHL.HOST_BUF_SIZE <? GenHL.HOST_BUF_LIMIT); [discriminate|].
  rewrite suffix_loop_breaks. cbn [andb]. apply IH.
Qed.

Lemma create_token_no_hang h tok site : create_token h tok <> Hang site.
Proof.
  unfold create_token. destruct (split_first 91 tok) as [[pfx p]|].
  - destruct (split_first 93 p) as [[lst q]|]; [|discriminate].
    apply bind_no_hang; [intros s; apply parse_range_list_no_hang|].
    intros [rs|] s; [|discriminate]. destruct q; [discriminate|].
    apply bind_no_hang; [intros s0; apply push_range_list_with_suffix_no_hang | intros a s0; discriminate].
  - destruct (split_first 93 tok); [discriminate|].
    destruct (_ <? _); [discriminate|]. destruct (_ && _); discriminate.
Qed.

Lemma drop_seps_length s : (length (drop_seps s) <= length s)%nat.
Proof. induction s as [|b s IH]; cbn [drop_seps length]; [lia|]. destruct (is_sep b); cbn [length]; lia. Qed.

Lemma drop_seps_head s : match drop_seps s with [] => True | b :: _ => is_sep b = false end.
Proof. induction s as [|b s IH]; cbn [drop_seps]; [exact I|]. destruct (is_sep b) eqn:E; [exact IH|exact E]. Qed.

Lemma scan_tok_length s : forall lvl, (length (snd (scan_tok lvl s)) <= length s)%nat.
Proof.
  induction s as [|b s IH]; intros lvl; cbn [scan_tok snd length]; [lia|].
  destruct ((lvl =? 0)%Z && is_sep b); cbn [snd length]; [lia|].
  match goal with |- context [scan_tok ?l s] => specialize (IH l); destruct (scan_tok l s) as [t r] end.
  cbn [snd] in *. lia.
Qed.

Lemma next_tok_shorter s tok rest : next_tok s = Some (tok, rest) -> (length rest < length s)%nat.
Proof.
  unfold next_tok. pose proof (drop_seps_length s) as Hl. pose proof (drop_seps_head s) as Hh.
  destruct (drop_seps s) as [|b s1]; [discriminate|].
  cbn [scan_tok]. rewrite Hh, andb_false_r.
  match goal with |- context [scan_tok ?l s1] => pose proof (scan_tok_length s1 l) as Hs; destruct (scan_tok l s1) as [t r] end.
  intros E. inversion E; subst. pose proof (drop_seps_length r). cbn [snd length] in *. lia.
Qed.

Lemma create_loop_no_hang fuel : forall h s site, (length s < fuel)%nat -> create_loop fuel h s <> Hang site.
Proof.
  induction fuel as [|f IH]; intros h s site Hl; [lia|]. cbn [create_loop].
  destruct (next_tok s) as [[tok rest]|] eqn:E; [|discriminate].
  apply next_tok_shorter in E.
  apply bind_no_hang; [intros s0; apply create_token_no_hang|].
  intros [h'|] s0; [|discriminate]. apply IH. lia.
Qed.

Theorem create_no_hang s site : create s <> Hang site.
Proof. unfold create. apply create_loop_no_hang. lia. Qed.

(* ================================================================ sort: the comparator and the insertion sort *)
Lemma hostrange_cmp_sound y x c y' x' : hostrange_cmp y x = (c, y', x') -> wf_range y -> wf_range x ->
  names y' = names y /\ names x' = names x /\ wf_range y' /\ wf_range x'.
Proof.
  unfold hostrange_cmp. intros H Hy Hx. destruct (prefix_cmp y x =? 0)%Z.
  - destruct (width_combine y x) as [[y1 x1]|] eqn:E.
    + inversion H; subst. destruct (width_combine_sound _ _ _ _ E Hy Hx) as (A & B & C & D & _). auto.
    + inversion H; subst. auto.
  - inversion H; subst. auto.
Qed.

Lemma ins_rev_sound revp : forall x, wf revp -> wf_range x ->
  Permutation (expand (ins_rev x revp)) (names x ++ expand revp) /\ wf (ins_rev x revp).
Proof.
  induction revp as [|y rest IH]; intros x Hw Hx; cbn [ins_rev].
  - split; [apply Permutation_refl | now constructor].
  - inversion Hw as [|? ? Hy Hrest]; subst.
    destruct (hostrange_cmp y x) as [[c y'] x'] eqn:E.
    destruct (hostrange_cmp_sound _ _ _ _ _ E Hy Hx) as (Ny & Nx & Wy & Wx).
    destruct (0 <? c)%Z.
    + destruct (IH x' Hrest Wx) as [HP HW]. split; [|now constructor].
      rewrite !expand_cons, Ny. rewrite HP, Nx. apply Permutation_app_swap_app.
    + split; [|repeat constructor; auto]. rewrite !expand_cons, Ny, Nx. apply Permutation_refl.
Qed.

Lemma isort_fold l : forall acc, wf acc -> wf l ->
  Permutation (expand (fold_left (fun acc x => ins_rev x acc) l acc)) (expand acc ++ expand l)
  /\ wf (fold_left (fun acc x => ins_rev x acc) l acc).
Proof.
  induction l as [|x l IH]; intros acc Ha Hl; cbn [fold_left].
  - rewrite app_nil_r. split; [apply Permutation_refl|assumption].
  - inversion Hl as [|? ? Hx Hl']; subst. destruct (ins_rev_sound acc x Ha Hx) as [HP HW].
    destruct (IH _ HW Hl') as [HP2 HW2]. split; [|exact HW2].
    rewrite HP2, HP, expand_cons. rewrite app_assoc. apply Permutation_app_tail. apply Permutation_app_comm.
Qed.

Lemma expand_rev h : Permutation (expand (rev h)) (expand h).
Proof. unfold expand. apply Permutation_flat_map. apply Permutation_sym, Permutation_rev. Qed.

Lemma isort_sound h : wf h -> Permutation (expand (isort h)) (expand h) /\ wf (isort h).
Proof.
  intros Hw. unfold isort. destruct (isort_fold h [] (Forall_nil _) Hw) as [HP HW]. split.
  - rewrite expand_rev. exact HP.
  - apply Forall_rev. exact HW.
Qed.

(* ================================================================ collapse *)
Lemma collapse_sound h : wf h -> expand (collapse h) = expand h /\ wf (collapse h).
Proof.
  induction 1 as [|x rest Hx Hrest IH]; cbn [collapse]; [split; [reflexivity|constructor]|].
  destruct IH as [He Hw]. destruct (collapse rest) as [|y rest'] eqn:Ec.
  - split; [now rewrite !expand_cons, <- He | repeat constructor; auto].
  - inversion Hw as [|? ? Hy Hr']; subst.
    destruct (try_join x y) as [[x' y']|] eqn:Ej.
    + destruct (try_join_sound _ _ _ _ Ej Hx Hy) as (Hn & _ & Hwx & _).
      split; [|now constructor]. rewrite !expand_cons, Hn, <- He, expand_cons. now rewrite app_assoc.
    + split; [|repeat constructor; auto]. now rewrite (expand_cons x rest), <- He.
Qed.

(* ================================================================ coalesce: the numbers *)
Lemma nseq_join x n1 y n2 n3 : y = x + N.of_nat n1 -> n3 = (n1 + n2)%nat -> nseq x n1 ++ nseq y n2 = nseq x n3.
Proof. intros -> ->. symmetry. apply nseq_app. Qed.

Lemma flat_map_keep (p : N -> bool) l : (forall k, In k l -> p k = true) -> flat_map (fun k => if p k then [k] else []) l = l.
Proof.
  induction l as [|x l IH]; intros H; cbn [flat_map]; [reflexivity|].
  rewrite (H x (or_introl eq_refl)). cbn [app]. f_equal. apply IH. intros k Hk. apply H. now right.
Qed.

Lemma flat_map_split {A B} (f g : A -> list B) l :
  Permutation (flat_map (fun k => f k ++ g k) l) (flat_map f l ++ flat_map g l).
Proof.
  induction l as [|x l IH]; cbn [flat_map]; [apply Permutation_refl|].
  rewrite IH. rewrite <- !app_assoc. apply Permutation_app_head. apply Permutation_app_swap_app.
Qed.

(* members of [c..m] above c, then members below m *)
Lemma flat_map_gt c n : flat_map (fun k => if c <? k then [k] else []) (nseq c (S n)) = nseq (c + 1) n.
Proof.
  cbn [nseq flat_map]. rewrite N.ltb_irrefl. cbn [app]. apply flat_map_keep.
  intros k Hk. apply nseq_In in Hk. apply N.ltb_lt. lia.
Qed.

Lemma flat_map_lt c n : flat_map (fun k => if k <? c + N.of_nat n then [k] else []) (nseq c (S n)) = nseq c n.
Proof.
  replace (S n) with (n + 1)%nat by lia. rewrite nseq_app, flat_map_app. cbn [nseq flat_map].
  rewrite N.ltb_irrefl. cbn [app]. rewrite app_nil_r. apply flat_map_keep.
  intros k Hk. apply nseq_In in Hk. apply N.ltb_lt. lia.
Qed.

Definition rng (x y : N) : list N := nseq x (N.to_nat (y + 1 - x)).

Lemma coalesce_numbers a b c d : a <= c -> c < b -> c <= d ->
  let m := if d <? b then d else b in
  let M := if m <? b then b else d in
  Permutation (rng a c ++ flat_map (fun k => (if c <? k then [k] else []) ++ (if k <? m then [k] else [])) (rng c m) ++ rng m M)
              (rng a b ++ rng c d).
Proof.
  intros Hac Hcb Hcd m M.
  assert (Hm : c <= m /\ m <= b /\ m <= d) by (unfold m; destruct (N.ltb_spec d b); lia).
  rewrite flat_map_split.
  assert (E1 : rng c m = nseq c (S (N.to_nat (m - c)))) by (unfold rng; f_equal; lia).
  rewrite E1. rewrite flat_map_gt.
  assert (E2 : flat_map (fun k => if k <? m then [k] else []) (nseq c (S (N.to_nat (m - c)))) = nseq c (N.to_nat (m - c))).
  { pose proof (flat_map_lt c (N.to_nat (m - c))) as L. replace (c + N.of_nat (N.to_nat (m - c))) with m in L by lia. exact L. }
  rewrite E2.
  (* rng a c ++ (nseq (c+1) _ ++ nseq c _) ++ rng m M  =  (rng a c ++ nseq (c+1) _) ++ (nseq c _ ++ rng m M) *)
  rewrite <- !app_assoc. rewrite (app_assoc (rng a c)).
  unfold rng.
  rewrite (nseq_join a _ (c + 1) _ (N.to_nat (m + 1 - a))) by lia.
  unfold M, m in *. destruct (N.ltb_spec d b) as [Hdb|Hbd].
  - destruct (N.ltb_spec d b); [|lia].
    rewrite (nseq_join c _ d _ (N.to_nat (b + 1 - c))) by lia.
    rewrite <- (nseq_join a (N.to_nat (d + 1 - a)) (d + 1) (N.to_nat (b - d)) (N.to_nat (b + 1 - a))) by lia.
    rewrite <- (nseq_join c (N.to_nat (d + 1 - c)) (d + 1) (N.to_nat (b - d)) (N.to_nat (b + 1 - c))) by lia.
    rewrite <- app_assoc. apply Permutation_app_head. apply Permutation_app_comm.
  - destruct (N.ltb_spec b b); [lia|].
    rewrite (nseq_join c _ b _ (N.to_nat (d + 1 - c))) by lia. apply Permutation_refl.
Qed.

(* ================================================================ coalesce: one step *)
Lemma with_width_self r : with_width r (hr_width r) = r.
Proof. destruct r; reflexivity. Qed.

Lemma hostrange_cmp_shape y x c y' x' : hostrange_cmp y x = (c, y', x') ->
  y' = with_width y (hr_width y') /\ x' = with_width x (hr_width x').
Proof.
  unfold hostrange_cmp, width_combine. intros H. destruct (prefix_cmp y x =? 0)%Z.
  - destruct (width_equiv _ _ _ _) as [[a b]|]; inversion H; subst.
    + split; reflexivity.
    + split; symmetry; apply with_width_self.
  - inversion H; subst. split; symmetry; apply with_width_self.
Qed.

Lemma width_combine_shape t r t' r' : width_combine t r = Some (t', r') ->
  t' = with_width t (hr_width t') /\ r' = with_width r (hr_width r') /\ hr_width t' = hr_width r'.
Proof.
  unfold width_combine. destruct (width_equiv _ _ _ _) as [[a b]|] eqn:E; [|discriminate]. intros H. inversion H; subst.
  apply width_equiv_sound in E as (Hab & _). cbn [with_width hr_width]. auto.
Qed.

Definition same_fields (r r' : hrange) : Prop :=
  hr_prefix r' = hr_prefix r /\ hr_lo r' = hr_lo r /\ hr_hi r' = hr_hi r /\ hr_single r' = hr_single r.

Lemma same_fields_with_width r w : same_fields r (with_width r w).
Proof. unfold same_fields, with_width; cbn. auto. Qed.

Lemma same_fields_trans a b c : same_fields a b -> same_fields b c -> same_fields a c.
Proof. unfold same_fields. intros (A1 & A2 & A3 & A4) (B1 & B2 & B3 & B4). repeat split; congruence. Qed.

(* the comparison of hostrange_intersect is evaluated (F36: as an `if`, before that as a compiled-in assert) *)
Lemma intersect_cmp_evaluated : ((GenHL.INTERSECT_ORDER_CHECK =? 1) || (GenHL.NDEBUG =? 0)) = true.
Proof. reflexivity. Qed.
Lemma intersect_order_check : (GenHL.INTERSECT_ORDER_CHECK =? 1) = true.
Proof. reflexivity. Qed.

Lemma intersect_sound h1 h2 nw h1' h2' : intersect h1 h2 = Ok (nw, h1', h2') -> wf_range h1 -> wf_range h2 ->
  names h1' = names h1 /\ names h2' = names h2 /\ wf_range h1' /\ wf_range h2' /\ same_fields h1 h1' /\ same_fields h2 h2' /\
  match nw with
  | None => True
  | Some n => hr_single h1 = false /\ hr_single h2 = false /\ hr_prefix h2 = hr_prefix h1 /\ hr_width h2' = hr_width h1' /\
              hr_lo h2 < hr_hi h1 /\
              n = with_hi (with_lo h1' (hr_lo h2)) (if hr_hi h2 <? hr_hi h1 then hr_hi h2 else hr_hi h1)
  end.
Proof.
  unfold intersect. intros H W1 W2.
  assert (Hrefl : forall r, same_fields r r) by (intros r; unfold same_fields; auto).
  destruct (hr_single h1 || hr_single h2) eqn:Es; [inversion H; subst; repeat split; auto; apply Hrefl|].
  apply orb_false_iff in Es as [Es1 Es2].
  rewrite intersect_cmp_evaluated in H.
  destruct (hostrange_cmp h1 h2) as [[c h1a] h2a] eqn:Ec.
  destruct (hostrange_cmp_sound _ _ _ _ _ Ec W1 W2) as (N1 & N2 & Wa1 & Wa2).
  destruct (hostrange_cmp_shape _ _ _ _ _ Ec) as [S1 S2].
  assert (F1 : same_fields h1 h1a) by (rewrite S1; apply same_fields_with_width).
  assert (F2 : same_fields h2 h2a) by (rewrite S2; apply same_fields_with_width).
  destruct (0 <? c)%Z.
  { destruct (GenHL.INTERSECT_ORDER_CHECK =? 1); [|discriminate].
    inversion H; subst. destruct F1 as (? & ? & ? & ?); destruct F2 as (? & ? & ? & ?). repeat split; auto. }
  destruct ((prefix_cmp h1a h2a =? 0)%Z && (hr_lo h2a <? hr_hi h1a)) eqn:Ei.
  2:{ inversion H; subst. destruct F1 as (? & ? & ? & ?); destruct F2 as (? & ? & ? & ?). repeat split; auto. }
  apply andb_true_iff in Ei as [Ep El]. apply prefix_cmp_0 in Ep as [Epfx _]. apply N.ltb_lt in El.
  destruct (width_combine h1a h2a) as [[h1b h2b]|] eqn:Ew.
  2:{ inversion H; subst. destruct F1 as (? & ? & ? & ?); destruct F2 as (? & ? & ? & ?). repeat split; auto. }
  inversion H; subst; clear H.
  destruct (width_combine_sound _ _ _ _ Ew Wa1 Wa2) as (M1 & M2 & Wb1 & Wb2 & _).
  destruct (width_combine_shape _ _ _ _ Ew) as (T1 & T2 & Tw).
  assert (G1 : same_fields h1a h1') by (rewrite T1; apply same_fields_with_width).
  assert (G2 : same_fields h2a h2') by (rewrite T2; apply same_fields_with_width).
  pose proof (same_fields_trans _ _ _ F1 G1) as (A1 & A2 & A3 & A4).
  pose proof (same_fields_trans _ _ _ F2 G2) as (B1 & B2 & B3 & B4).
  destruct F1 as (F11 & F12 & F13 & F14). destruct F2 as (F21 & F22 & F23 & F24).
  repeat split; try congruence.
  rewrite B2, B3, A3. reflexivity.
Qed.

Lemma nth_error_split2 {A} (l : list A) i x y : nth_error l i = Some x -> nth_error l (S i) = Some y ->
  l = firstn i l ++ x :: y :: skipn (S (S i)) l.
Proof.
  revert i; induction l as [|z l IH]; intros i Hx Hy; [destruct i; discriminate|].
  destruct i as [|i].
  - cbn in Hx. inversion Hx; subst. destruct l as [|w l]; [discriminate|]. cbn in Hy. inversion Hy; subst. reflexivity.
  - cbn [nth_error] in Hx, Hy. cbn [firstn skipn app]. f_equal. now apply IH.
Qed.

Lemma names_nonsingle r : hr_single r = false ->
  names r = map (fun k => hr_prefix r ++ pad (hr_width r) k) (rng (hr_lo r) (hr_hi r)).
Proof. intros Es. unfold names, rng. now rewrite Es. Qed.

Lemma expand_ones (nw : hrange) (p q : N -> bool) ks : hr_single nw = false ->
  expand (flat_map (fun k => (if p k then [with_hi (with_lo nw k) k] else []) ++ (if q k then [with_hi (with_lo nw k) k] else [])) ks)
  = map (fun k => hr_prefix nw ++ pad (hr_width nw) k) (flat_map (fun k => (if p k then [k] else []) ++ (if q k then [k] else [])) ks).
Proof.
  intros Es. induction ks as [|k ks IH]; [reflexivity|]. cbn [flat_map]. rewrite expand_app, map_app, IH. f_equal.
  assert (E : names (with_hi (with_lo nw k) k) = [hr_prefix nw ++ pad (hr_width nw) k]).
  { unfold names, with_hi, with_lo; cbn [hr_single hr_prefix hr_width hr_lo hr_hi]. rewrite Es.
    replace (N.to_nat (k + 1 - k)) with 1%nat by lia. reflexivity. }
  destruct (p k), (q k); cbn [app expand flat_map map]; rewrite ?E; reflexivity.
Qed.

Lemma wf_ones (nw : hrange) (p q : N -> bool) ks : hr_single nw = false -> (forall k, In k ks -> k < ULONG_MAX) ->
  wf (flat_map (fun k => (if p k then [with_hi (with_lo nw k) k] else []) ++ (if q k then [with_hi (with_lo nw k) k] else [])) ks).
Proof.
  intros Es Hk. unfold wf. apply Forall_forall. intros r Hr. apply in_flat_map in Hr as (k & Hin & Hr).
  assert (r = with_hi (with_lo nw k) k) as ->.
  { apply in_app_or in Hr as [Hr|Hr]; [destruct (p k)|destruct (q k)]; cbn [In] in Hr; intuition congruence. }
  unfold wf_range, with_hi, with_lo; cbn [hr_single hr_lo hr_hi]. rewrite Es. split; [lia|now apply Hk].
Qed.

Lemma coalesce_step_sound h i r : coalesce_step (h, i) = Ok r -> wf h ->
  match r with
  | inl (h', _) => Permutation (expand h') (expand h) /\ wf h'
  | inr h' => h' = h
  end.
Proof.
  unfold coalesce_step. intros H Hwf. destruct i as [|i1]; [now inversion H|].
  destruct (nth_error h i1) as [hprev|] eqn:E1; [|now inversion H].
  destruct (nth_error h (S i1)) as [hnext|] eqn:E2; [|now inversion H].
  pose proof (nth_error_split2 h i1 _ _ E1 E2) as Hsplit.
  set (pre := firstn i1 h) in *. set (post := skipn (S (S i1)) h) in *. clearbody pre post.
  assert (Hwf' : wf pre /\ wf_range hprev /\ wf_range hnext /\ wf post).
  { unfold wf in Hwf. rewrite Hsplit in Hwf. apply Forall_app in Hwf as [A B].
    pose proof (Forall_inv B) as B1. pose proof (Forall_inv_tail B) as B2.
    pose proof (Forall_inv B2) as B3. pose proof (Forall_inv_tail B2) as B4. auto. }
  clear E1 E2 Hwf.
  destruct Hwf' as (Wpre & Wp & Wx & Wpost).
  apply bind_ok in H as ([[nw hp] hx] & Hi & H).
  destruct (intersect_sound _ _ _ _ _ Hi Wp Wx) as (Np & Nx & Whp & Whx & Fp & Fx & Hnw).
  assert (Hexp : expand h = expand pre ++ names hprev ++ names hnext ++ expand post).
  { rewrite Hsplit at 1. rewrite expand_app, !expand_cons. reflexivity. }
  destruct nw as [nw|].
  2:{ inversion H; subst. split.
      - rewrite expand_app, !expand_cons, Np, Nx, Hexp. apply Permutation_refl.
      - apply Forall_app. split; [exact Wpre|]. repeat constructor; auto. }
  destruct Hnw as (Sp & Sx & Epfx & Ew & Hlt & ->).
  destruct Fp as (Fp1 & Fp2 & Fp3 & Fp4). destruct Fx as (Fx1 & Fx2 & Fx3 & Fx4).
  set (a := hr_lo hprev) in *. set (b := hr_hi hprev) in *. set (c := hr_lo hnext) in *. set (d := hr_hi hnext) in *.
  set (m := if d <? b then d else b) in *.
  cbn [with_hi with_lo hr_hi hr_lo] in H. rewrite Fp3 in H.
  unfold wf_range in Wp, Wx. rewrite Sp in Wp. rewrite Sx in Wx. fold a b in Wp. fold c d in Wx.
  destruct Wp as [Wp1 Wp2]. destruct Wx as [Wx1 Wx2].
  set (hx1 := if m <? b then with_hi hx b else hx) in *.
  destruct (hr_empty _) eqn:Eemp in H; [discriminate|].
  unfold hr_empty in Eemp; cbn [hr_hi hr_lo with_hi] in Eemp. rewrite Fp2 in Eemp. fold a in Eemp.
  apply orb_false_iff in Eemp as [Ee1 Ee2]. apply N.ltb_ge in Ee1. apply N.eqb_neq in Ee2.
  destruct ((m =? ULONG_MAX) || _) in H; [discriminate|].
  inversion H; subst; clear H.
  assert (Hm : c <= m /\ m <= b /\ m <= d) by (unfold m; destruct (N.ltb_spec d b); lia).
  assert (HM : hr_hi hx1 = if m <? b then b else d).
  { unfold hx1. destruct (m <? b); cbn [with_hi hr_hi]; [reflexivity|exact Fx3]. }
  assert (Shx1 : hr_single hx1 = false /\ hr_prefix hx1 = hr_prefix hp /\ hr_width hx1 = hr_width hp).
  { unfold hx1. destruct (m <? b); cbn [with_hi hr_single hr_prefix hr_width]; repeat split; congruence. }
  destruct Shx1 as (Shx1 & Phx1 & Whx1).
  set (Nm := fun k => hr_prefix hp ++ pad (hr_width hp) k).
  assert (Nhp1 : names (with_hi hp c) = map Nm (rng a c)).
  { rewrite names_nonsingle by (cbn; congruence). cbn [with_hi hr_prefix hr_width hr_lo hr_hi]. now rewrite Fp2. }
  assert (Nhx2 : names (with_lo hx1 m) = map Nm (rng m (if m <? b then b else d))).
  { rewrite names_nonsingle by (cbn; congruence). cbn [with_lo hr_prefix hr_width hr_lo hr_hi]. now rewrite Phx1, Whx1, HM. }
  assert (Nhp : names hprev = map Nm (rng a b)).
  { rewrite <- Np. rewrite names_nonsingle by congruence. now rewrite Fp2, Fp3. }
  assert (Nhx : names hnext = map Nm (rng c d)).
  { rewrite <- Nx. rewrite names_nonsingle by congruence. rewrite Fx2, Fx3, Ew, Fx1, Epfx, <- Fp1. reflexivity. }
  split.
  - rewrite expand_app, expand_cons, expand_app, expand_cons, Hexp.
    apply Permutation_app_head. rewrite !app_assoc. apply Permutation_app_tail. rewrite <- !app_assoc.
    rewrite expand_ones by (cbn; congruence). cbn [with_hi with_lo hr_prefix hr_width].
    rewrite Nhp1, Nhx2, Nhp, Nhx. rewrite <- !map_app. apply Permutation_map.
    change (N.to_nat (m + 1 - c)) with (N.to_nat (m + 1 - c)). fold (rng c m).
    apply (coalesce_numbers a b c d); lia.
  - apply Forall_app. split; [exact Wpre|]. constructor.
    + unfold wf_range; cbn [with_hi hr_single hr_lo hr_hi]. rewrite Fp4, Sp, Fp2. fold a. unfold ULONG_MAX in *. lia.
    + apply Forall_app. split.
      * apply wf_ones; [cbn; congruence|]. intros k Hk. apply nseq_In in Hk. unfold ULONG_MAX in *. lia.
      * constructor; [|exact Wpost]. unfold wf_range; cbn [with_lo hr_single hr_lo hr_hi]. rewrite Shx1, HM.
        destruct (N.ltb_spec m b); unfold ULONG_MAX in *; lia.
Qed.

Lemma coalesce_pow_sound k : forall st r, coalesce_pow k st = Ok r -> wf (fst st) ->
  match r with
  | inl st' => Permutation (expand (fst st')) (expand (fst st)) /\ wf (fst st')
  | inr h' => Permutation (expand h') (expand (fst st)) /\ wf h'
  end.
Proof.
  induction k as [|k IH]; intros [h i] r H Hwf; cbn [coalesce_pow fst] in *.
  - pose proof (coalesce_step_sound h i r H Hwf) as Hs. destruct r as [[h' i']|h']; cbn [fst]; [exact Hs|].
    subst. split; [apply Permutation_refl|exact Hwf].
  - apply bind_ok in H as (r1 & H1 & H2). pose proof (IH _ _ H1 Hwf) as I1. cbn [fst] in I1.
    destruct r1 as [st'|h1].
    + destruct I1 as [P1 W1]. pose proof (IH _ _ H2 W1) as I2.
      destruct r as [st''|h'']; destruct I2 as [P2 W2]; split; auto; eapply Permutation_trans; eauto.
    + inversion H2; subst. exact I1.
Qed.

Lemma coalesce_sound h h' : coalesce h = Ok h' -> wf h -> Permutation (expand h') (expand h) /\ wf h'.
Proof.
  unfold coalesce. intros H Hwf. apply bind_ok in H as (r & H1 & H2).
  pose proof (coalesce_pow_sound _ _ _ H1 Hwf) as I. cbn [fst] in I.
  destruct r as [st|h1]; [discriminate|]. inversion H2; subst. destruct I as [P W].
  destruct (collapse_sound h1 W) as [E W']. split; [now rewrite E | exact W'].
Qed.

(* hostlist_sort: whenever it returns, the names are a permutation of the names before *)
Theorem sort_permutation h h' : wf h -> sort h = Ok h' -> Permutation (expand h') (expand h) /\ wf h'.
Proof.
  intros Hwf. unfold sort. destruct (length h <=? 1)%nat.
  - intros H. inversion H; subst. split; [apply Permutation_refl|exact Hwf].
  - intros H. destruct (isort_sound h Hwf) as [P W]. destruct (coalesce_sound _ _ H W) as [P2 W2].
    split; [eapply Permutation_trans; eauto | exact W2].
Qed.

(* ================================================================ F36 (fixed): hostlist_sort never aborts *)
Lemma intersect_no_abort h1 h2 site : intersect h1 h2 <> Abort site.
Proof.
  unfold intersect. destruct (hr_single h1 || hr_single h2); [discriminate|].
  rewrite intersect_cmp_evaluated. destruct (hostrange_cmp h1 h2) as [[c h1a] h2a].
  destruct (0 <? c)%Z; [rewrite intersect_order_check; discriminate|].
  destruct (_ && _); [|discriminate]. destruct (width_combine h1a h2a) as [[? ?]|]; discriminate.
Qed.

Lemma bind_no_abort {A B} (x : outcome A) (f : A -> outcome B) site :
  (forall s, x <> Abort s) -> (forall a s, f a <> Abort s) -> bind x f <> Abort site.
Proof. intros Hx Hf. destruct x; cbn [bind]; try discriminate; [apply Hf|]. intros E. now apply (Hx site0). Qed.

Lemma coalesce_step_no_abort st site : coalesce_step st <> Abort site.
Proof.
  destruct st as [h i]. unfold coalesce_step. destruct i as [|i1]; [discriminate|].
  destruct (nth_error h i1); [|discriminate]. destruct (nth_error h (S i1)); [|discriminate].
  apply bind_no_abort; [intros s; apply intersect_no_abort|].
  intros [[nw hp] hx] s. destruct nw as [nw|]; [|discriminate].
  destruct (hr_empty _); [discriminate|]. destruct (_ || _); discriminate.
Qed.

Lemma coalesce_pow_no_abort k : forall st site, coalesce_pow k st <> Abort site.
Proof.
  induction k as [|k IH]; intros st site; cbn [coalesce_pow]; [apply coalesce_step_no_abort|].
  apply bind_no_abort; [intros s; apply IH|]. intros [st'|h] s; [apply IH|discriminate].
Qed.

(* the former witness of the assertion failure: a name listed twice next to a zero-padded name of another width *)
Theorem sort_no_abort h site : sort h <> Abort site.
Proof.
  unfold sort. destruct (length h <=? 1)%nat; [discriminate|]. unfold coalesce.
  apply bind_no_abort; [intros s; apply coalesce_pow_no_abort|]. intros [st|h'] s; discriminate.
Qed.

Example sort_former_abort_witness :
  bind (create (bs "t01,t[9-10],t[9-10]"%string)) (fun o => match o with Some h => omap expand (sort h) | None => Ok [] end)
  = Ok [bs "t9"%string; bs "t9"%string; bs "t10"%string; bs "t10"%string; bs "t01"%string].
Proof. vm_compute. reflexivity. Qed.
