(* C18, token layer: the lexer model is total (Ok or Exit 1), the string buffer index stays inside string_buf,
   the include stack index stays inside its arrays, the scanning loop never runs out of fuel.
   Every fact about the source (buffer size, presence and slack of the bound check, include depth test, name-length
   check) is taken from Gen/GenLex.v by computation, so a source edit that invalidates one breaks these proofs. *)
From Coq Require Import List NArith ZArith Bool Lia.
From PM Require Import Base.Bytes Base.Outcome Gen.GenLex Model.Lexer.
Import ListNotations.
Local Open Scope N_scope.

(* ------------------------------------------------------------------ facts read from the current source *)
Lemma gen_string_checked : string_checked = true.
Proof. reflexivity. Qed.

Lemma gen_string_slack : 1 <= string_slack /\ string_slack <= string_buf_size.
Proof. split; apply N.leb_le; reflexivity. Qed.

Lemma gen_include_bound : include_refuse_at + 1 <= max_include_depth.
Proof. apply N.leb_le; reflexivity. Qed.

Lemma gen_include_len_checked : include_len_checked = true.
Proof. reflexivity. Qed.

(* ------------------------------------------------------------------ list helpers *)
Lemma span_length p l : forall a b, span p l = (a, b) -> (length b <= length l)%nat.
Proof.
  induction l as [|c r IH]; intros a b H; cbn [span] in H.
  - inversion H; subst. apply le_n.
  - destruct (p c).
    + destruct (span p r) as [a' b'] eqn:E. inversion H; subst. specialize (IH _ _ eq_refl). cbn [length]. lia.
    + inversion H; subst. apply le_n.
Qed.

Lemma span_forall p l : forall a b, span p l = (a, b) -> forallb p a = true.
Proof.
  induction l as [|c r IH]; intros a b H; cbn [span] in H.
  - inversion H; reflexivity.
  - destruct (p c) eqn:E.
    + destruct (span p r) as [a' b'] eqn:E2. inversion H; subst. cbn [forallb]. rewrite E. exact (IH _ _ eq_refl).
    + inversion H; reflexivity.
Qed.

Lemma after_lf_length l : forall r, after_lf l = Some r -> (length r < length l)%nat.
Proof.
  induction l as [|c t IH]; intros r H; cbn [after_lf] in H; [discriminate|].
  destruct (N.eqb c 10).
  - inversion H; subst. cbn [length]. lia.
  - specialize (IH _ H). cbn [length]. lia.
Qed.

Lemma skipn_length {A} n (l : list A) : (length (skipn n l) <= length l)%nat.
Proof. rewrite skipn_length. lia. Qed.

(* ------------------------------------------------------------------ the string-buffer invariant *)
(* well-formed token payloads: a number token is a non-empty run of digits and dots (its own text, which is what
   _strtolong / _strtodouble later read), a string token holds no NUL byte *)
Definition num_char (b : byte) : bool := is_digit b || N.eqb b 46.
Definition tok_wf (t : token) : Prop :=
  match t with
  | TNum s => s <> [] /\ forallb num_char s = true
  | TStr s => forallb (fun b => negb (N.eqb b 0)) s = true
  | _ => True
  end.

Definition sinv (st : lstate) : Prop :=
  l_idx st <= string_buf_size - string_slack /\ l_maxidx st < string_buf_size /\ Forall tok_wf (l_out st).

Lemma sinv_init : sinv lex_init.
Proof. split; [apply N.leb_le; reflexivity | split; [apply N.ltb_lt; reflexivity | constructor]]. Qed.

Lemma sinv_set_sc st sc : sinv st -> sinv (set_sc st sc).
Proof. intros (H1 & H2 & H3); repeat split; assumption. Qed.

Lemma sinv_emit st t : tok_wf t -> sinv st -> sinv (emit st t).
Proof. intros W (H1 & H2 & H3); repeat split; try assumption. cbn [emit l_out]. constructor; assumption. Qed.

Lemma digits_num l : forallb is_digit l = true -> forallb num_char l = true.
Proof.
  induction l as [|c r IH]; cbn [forallb]; [reflexivity|]. intros H. apply andb_true_iff in H as [H1 H2].
  unfold num_char at 1. rewrite H1, (IH H2). reflexivity.
Qed.

Lemma sb_add_spec st b :
  sinv st ->
  match sb_add st b with
  | inl st' => sinv st' /\ l_sc st' = l_sc st
  | inr e => e = EndExit S_STR_TOOLONG
  end.
Proof.
  intros (H1 & H2 & H3). unfold sb_add. rewrite gen_string_checked. cbn [andb].
  destruct (string_buf_size - string_slack <=? l_idx st) eqn:E; [reflexivity|].
  apply N.leb_gt in E.
  destruct gen_string_slack as [S1 S2].
  destruct (string_buf_size <=? l_idx st) eqn:E2.
  - apply N.leb_le in E2. lia.
  - split; [|reflexivity]. repeat split; cbn [l_idx l_maxidx l_out].
    + lia.
    + apply N.max_lub_lt; [assumption | lia].
    + assumption.
Qed.

Lemma sb_add_list_spec l : forall st,
  sinv st ->
  match sb_add_list st l with
  | inl st' => sinv st' /\ l_sc st' = l_sc st
  | inr e => e = EndExit S_STR_TOOLONG
  end.
Proof.
  induction l as [|b r IH]; intros st H; cbn [sb_add_list].
  - split; [assumption | reflexivity].
  - pose proof (sb_add_spec st b H) as A. destruct (sb_add st b) as [st1|e]; [|assumption].
    destruct A as [A1 A2]. specialize (IH st1 A1). destruct (sb_add_list st1 r); [|assumption].
    destruct IH as [I1 I2]. split; [assumption | congruence].
Qed.

Lemma sb_finish_spec st : sinv st -> exists st', sb_finish st = inl st' /\ sinv st'.
Proof.
  intros (H1 & H2 & H3). unfold sb_finish. destruct gen_string_slack as [S1 S2].
  destruct (string_buf_size <=? l_idx st) eqn:E.
  - apply N.leb_le in E. lia.
  - eexists; split; [reflexivity|]. repeat split; cbn [l_idx l_maxidx l_out].
    + lia.
    + apply N.leb_gt in E. apply N.max_lub_lt; [assumption | lia].
    + constructor; [|assumption]. cbn [tok_wf]. unfold until_nul.
      destruct (span (fun b => negb (N.eqb b 0)) (rev (l_buf st))) as [a b] eqn:E2. cbn [fst].
      eapply span_forall; eassumption.
Qed.

(* ------------------------------------------------------------------ one flex match *)
Definition exit_end (e : lex_end) : Prop := exists s, e = EndExit s.

Definition step_good (rest : text) (r : step_res) : Prop :=
  match r with
  | StCont st' rest' => sinv st' /\ (length rest' <= length rest)%nat
  | StInclude st' _ rest' => sinv st' /\ (length rest' <= length rest)%nat
  | StEnd st' e => sinv st' /\ exit_end e
  end.

Lemma cont_add_good st bytes rest0 rest :
  sinv st -> (length rest <= length rest0)%nat -> step_good rest0 (cont_add st bytes rest).
Proof.
  intros H L. unfold cont_add. pose proof (sb_add_list_spec bytes st H) as A.
  destruct (sb_add_list st bytes) as [st'|e]; cbn [step_good].
  - destruct A; split; assumption.
  - split; [assumption|]. eexists; eassumption.
Qed.

Lemma step_str_good st c rest : sinv st -> step_good rest (step_str st c rest).
Proof.
  intros H. unfold step_str.
  destruct (N.eqb c 34).
  { destruct (sb_finish_spec st H) as [st' [E I]]. rewrite E. cbn [step_good]. split; [assumption | apply le_n]. }
  destruct (N.eqb c 10).
  { cbn [step_good]. split; [assumption|]. eexists; reflexivity. }
  destruct (N.eqb c 92).
  { destruct rest as [|x r1]; [cbn [step_good]; split; [assumption | apply le_n]|].
    destruct r1 as [|y [|z r3]].
    - apply cont_add_good; [assumption | cbn [length]; lia].
    - apply cont_add_good; [assumption | cbn [length]; lia].
    - destruct (is_digit x && is_digit y && is_digit z); apply cont_add_good; try assumption; cbn [length]; lia. }
  destruct (span str_plain rest) as [run r] eqn:E.
  apply cont_add_good; [assumption|]. eapply span_length; eassumption.
Qed.

Lemma step_incl_good st c rest : sinv st -> step_good rest (step_incl st c rest).
Proof.
  intros H. unfold step_incl.
  destruct (N.eqb c 32 || N.eqb c 9 || N.eqb c 10) eqn:Sep.
  { cbn [step_good]. split; [assumption | apply le_n]. }
  destruct (span not_incl_sep (c :: rest)) as [tok r] eqn:E.
  assert (L : (length r <= length rest)%nat).
  { cbn [span] in E. unfold not_incl_sep at 1 in E. rewrite Sep in E. cbn [negb] in E.
    destruct (span not_incl_sep rest) as [a b] eqn:E2. inversion E; subst. eapply span_length; eassumption. }
  rewrite gen_include_len_checked.
  destruct (until_nul tok) as [|a [|b t']]; cbn [step_good].
  - split; [assumption|]. eexists; reflexivity.
  - split; [assumption|]. eexists; reflexivity.
  - split; assumption.
Qed.

Lemma step_init_good st c rest : sinv st -> step_good rest (step_init st c rest).
Proof.
  intros H. unfold step_init.
  assert (U : step_good rest (StCont (emit st TUnrec) rest)).
  { cbn [step_good]. split; [apply sinv_emit; [exact I | assumption] | apply le_n]. }
  destruct (N.eqb c 35).
  { destruct (after_lf rest) as [r|] eqn:E; [|exact U]. cbn [step_good].
    split; [assumption|]. apply after_lf_length in E. lia. }
  destruct (is_blank c || N.eqb c 13 || N.eqb c 10).
  { cbn [step_good]. split; [assumption | apply le_n]. }
  destruct (is_digit c) eqn:Dc.
  { destruct (span is_digit rest) as [ds r1] eqn:E1. pose proof (span_length _ _ _ _ E1) as L1.
    pose proof (digits_num _ (span_forall _ _ _ _ E1)) as F1.
    assert (W1 : tok_wf (TNum (c :: ds))).
    { cbn [tok_wf]. split; [discriminate|]. cbn [forallb]. unfold num_char at 1. rewrite Dc, F1. reflexivity. }
    destruct r1 as [|dot r2].
    - cbn [step_good]. split; [apply sinv_emit; assumption | assumption].
    - destruct (N.eqb dot 46).
      + destruct (span is_digit r2) as [fs r3] eqn:E2. pose proof (span_length _ _ _ _ E2) as L2.
        pose proof (digits_num _ (span_forall _ _ _ _ E2)) as F2.
        cbn [step_good]. split; [|cbn [length] in L1; lia].
        apply sinv_emit; [|assumption]. cbn [tok_wf]. split; [discriminate|].
        cbn [forallb]. unfold num_char at 1. rewrite Dc. cbn [orb andb]. rewrite forallb_app, F1. cbn [forallb andb].
        rewrite F2. reflexivity.
      + cbn [step_good]. split; [apply sinv_emit; assumption | assumption]. }
  destruct (N.eqb c 46).
  { destruct rest as [|d r0]; [exact U|].
    destruct (is_digit d); [|exact U].
    destruct (span is_digit (d :: r0)) as [fs r] eqn:E. pose proof (span_length _ _ _ _ E) as L.
    pose proof (digits_num _ (span_forall _ _ _ _ E)) as F.
    cbn [step_good]. split; [|assumption]. apply sinv_emit; [|assumption].
    cbn [tok_wf]. split; [discriminate|]. cbn [forallb]. rewrite F. reflexivity. }
  destruct (N.eqb c 36). { cbn [step_good]. split; [apply sinv_emit; [exact I | assumption] | apply le_n]. }
  destruct (N.eqb c 34).
  { cbn [step_good]. split; [|apply le_n]. destruct H as (H1 & H2 & H3).
    repeat split; cbn [l_idx l_maxidx l_out]; [apply N.le_0_l | assumption | assumption]. }
  destruct (N.eqb c 123). { cbn [step_good]. split; [apply sinv_emit; [exact I | assumption] | apply le_n]. }
  destruct (N.eqb c 125). { cbn [step_good]. split; [apply sinv_emit; [exact I | assumption] | apply le_n]. }
  destruct (N.eqb c 61). { cbn [step_good]. split; [apply sinv_emit; [exact I | assumption] | apply le_n]. }
  destruct (longest_word (c :: rest)) as [[[|n] w]|]; try exact U.
  destruct w; cbn [step_good];
    (split; [first [apply sinv_emit; [exact I | assumption] | apply sinv_set_sc; assumption] | apply skipn_length]).
Qed.

Lemma step_good_all st c rest : sinv st -> step_good rest (step st c rest).
Proof.
  intros H. unfold step. destruct (l_sc st); [apply step_init_good | apply step_incl_good | apply step_str_good]; assumption.
Qed.

(* ------------------------------------------------------------------ the scanning loop and the include stack *)
Definition good_end (e : option lex_end) : Prop :=
  match e with
  | Some (EndMem _) | Some (EndHang _) => False
  | _ => True
  end.

Definition good_res (r : lstate * option lex_end) : Prop := sinv (fst r) /\ good_end (snd r).

Lemma lex_loop_good rec files ptr :
  (ptr < include_refuse_at -> forall st bs, sinv st -> good_res (rec (ptr + 1) st bs)) ->
  forall n st bs, sinv st -> (length bs < n)%nat -> good_res (lex_loop rec files ptr n st bs).
Proof.
  intros Hrec. induction n as [|n IH]; intros st bs H L; [lia|].
  cbn [lex_loop]. destruct bs as [|c rest].
  { split; [assumption | exact I]. }
  pose proof (step_good_all st c rest H) as G. cbn [length] in L.
  destruct (step st c rest) as [st' rest'|st' name rest'|st' e]; cbn [step_good] in G.
  - destruct G as [G1 G2]. apply IH; [assumption | lia].
  - destruct G as [G1 G2].
    destruct (include_refuse_at <=? ptr) eqn:E1; [split; [assumption | exact I]|].
    apply N.leb_gt in E1. pose proof gen_include_bound as B.
    destruct ((max_include_depth <=? ptr) || (max_include_depth <=? ptr + 1)) eqn:E2.
    { apply orb_true_iff in E2. destruct E2 as [E2|E2]; apply N.leb_le in E2; lia. }
    destruct (files name) as [content|]; [|split; [assumption | exact I]].
    pose proof (Hrec E1 (set_sc st' SInit) content (sinv_set_sc _ _ G1)) as R.
    destruct (rec (ptr + 1) (set_sc st' SInit) content) as [st'' [e|]]; destruct R as [R1 R2]; cbn [fst snd] in *.
    + split; assumption.
    + apply IH; [assumption | lia].
  - destruct G as [G1 [s ->]]. split; [assumption | exact I].
Qed.

Lemma lex_file_good files : forall d ptr,
  (N.to_nat include_refuse_at < d + N.to_nat ptr)%nat -> ptr <= include_refuse_at ->
  forall st bs, sinv st -> good_res (lex_file d files ptr st bs).
Proof.
  induction d as [|d IH]; intros ptr D P st bs H.
  - lia.
  - cbn [lex_file]. apply lex_loop_good; [|assumption | lia].
    intros Lt st1 bs1 H1. apply IH; [lia | lia | assumption].
Qed.

Lemma lex_run_good files main : sinv (fst (lex_run files main)) /\
  (snd (lex_run files main) = EndEOF \/ exists s, snd (lex_run files main) = EndExit s).
Proof.
  unfold lex_run.
  pose proof (lex_file_good files lex_depth 0 ltac:(unfold lex_depth; lia) ltac:(apply N.le_0_l) lex_init main sinv_init) as G.
  destruct (lex_file lex_depth files 0 lex_init main) as [st [e|]]; destruct G as [G1 G2]; cbn [fst snd] in *.
  - split; [assumption|]. destruct e; try contradiction; [left; reflexivity | right; eexists; reflexivity].
  - split; [assumption | left; reflexivity].
Qed.

(* ------------------------------------------------------------------ the statements Properties/C18.v exports *)
Theorem lexer_total : forall (files : text -> option text) (main : text),
  (exists toks, tokens files main = Ok toks) \/ (exists site, tokens files main = Exit 1 site).
Proof.
  intros files main. unfold tokens, lex_all.
  destruct (lex_run_good files main) as [_ G].
  destruct (lex_run files main) as [st e]; cbn [snd] in G.
  destruct G as [-> | [s ->]]; [left | right]; eexists; reflexivity.
Qed.

Lemma lex_all_end_ok files main : snd (lex_all files main) = EndEOF \/ exists s, snd (lex_all files main) = EndExit s.
Proof.
  unfold lex_all. destruct (lex_run_good files main) as [_ G]. destruct (lex_run files main) as [st e]; exact G.
Qed.

(* every index of string_buf the lexer stores into -- including the terminating NUL of the closing quote -- is
   below the capacity read from the current source *)
Theorem string_bound : forall (files : text -> option text) (main : text),
  l_maxidx (fst (lex_run files main)) < string_buf_size /\
  l_idx (fst (lex_run files main)) <= string_buf_size - string_slack.
Proof.
  intros files main. destruct (lex_run_good files main) as [(H1 & H2 & H3) _]. split; assumption.
Qed.

(* payloads of the tokens handed to the parser *)
Theorem tokens_wf : forall (files : text -> option text) (main : text), Forall tok_wf (fst (lex_all files main)).
Proof.
  intros files main. unfold lex_all. destruct (lex_run_good files main) as [(H1 & H2 & H3) _].
  destruct (lex_run files main) as [st e]; cbn [fst] in *. apply Forall_rev. assumption.
Qed.
