(* C19: what one shell-loop pass does to explicit states (one waiter, one active message): the building blocks of
   the single-target theorems. *)
From Coq Require Import List NArith ZArith Bool Lia.
From PM Require Import Base.Bytes Base.Outcome Gen.GenRfp Model.Redfish Spec.RedfishSpec Model.RedfishView Proofs.RedfishBase.
Import ListNotations.

(* the answer of process_waiters to a waiter below an ancestor that is not on *)
Definition blocked_line (w : pmsg) (pda : plug) (s : status) : text :=
  if cmd_is_stat (m_cmd w) then fmt f_pw_stat [m_plug w; status_text s]
  else if cmd_is_off (m_cmd w) && status_is_off s then fmt f_pw_off_ok [m_plug w]
  else fmt f_pw_dependency [m_plug w; cmd_text (m_cmd w); status_text s; p_host pda; p_name pda].

Lemma firstn_nil' {A} n : firstn n (@nil A) = [].
Proof. destruct n; reflexivity. Qed.
Lemma skipn_nil' {A} n : skipn n (@nil A) = [].
Proof. destruct n; reflexivity. Qed.

(* explicit states stay folded: projections and setters by rewriting *)
Section StRewrites.
Variables (b : state) (ts : list (name * status)) (act wt dl : list pmsg) (out : list (tag * text)) (log : list event).
Let S0 := St b ts act wt dl out log.
Lemma St_hosts : s_hosts S0 = s_hosts b. Proof. reflexivity. Qed.
Lemma St_fail : s_fail S0 = s_fail b. Proof. reflexivity. Qed.
Lemma St_verbose : s_verbose S0 = s_verbose b. Proof. reflexivity. Qed.
Lemma St_tab : s_tab S0 = s_tab b. Proof. reflexivity. Qed.
Lemma St_initial : s_initial S0 = s_initial b. Proof. reflexivity. Qed.
Lemma St_tstat : s_tstat S0 = ts. Proof. reflexivity. Qed.
Lemma St_statpath : s_statpath S0 = s_statpath b. Proof. reflexivity. Qed.
Lemma St_onpath : s_onpath S0 = s_onpath b. Proof. reflexivity. Qed.
Lemma St_offpath : s_offpath S0 = s_offpath b. Proof. reflexivity. Qed.
Lemma St_active : s_active S0 = act. Proof. reflexivity. Qed.
Lemma St_wait : s_wait S0 = wt. Proof. reflexivity. Qed.
Lemma St_delayed : s_delayed S0 = dl. Proof. reflexivity. Qed.
Lemma St_out : s_out S0 = out. Proof. reflexivity. Qed.
Lemma St_log : s_log S0 = log. Proof. reflexivity. Qed.
Lemma St_fault : s_fault S0 = None. Proof. reflexivity. Qed.
Lemma St_set_active v : set_active S0 v = St b ts v wt dl out log. Proof. reflexivity. Qed.
Lemma St_set_wait v : set_wait S0 v = St b ts act v dl out log. Proof. reflexivity. Qed.
Lemma St_set_delayed v : set_delayed S0 v = St b ts act wt v out log. Proof. reflexivity. Qed.
Lemma St_set_out v : set_out S0 v = St b ts act wt dl v log. Proof. reflexivity. Qed.
Lemma St_set_log v : set_log S0 v = St b ts act wt dl out v. Proof. reflexivity. Qed.
Lemma St_set_tstat v : set_tstat S0 v = St b v act wt dl out log. Proof. reflexivity. Qed.
Lemma St_emit t l : emit S0 t l = St b ts act wt dl (out ++ [(t, l)]) log. Proof. reflexivity. Qed.
Lemma St_emitf t f a : emitf S0 t f a = St b ts act wt dl (out ++ [(t, fmt f a)]) log. Proof. reflexivity. Qed.
Lemma St_add_active m : add_active S0 m = St b ts (act ++ [m]) wt dl out log. Proof. reflexivity. Qed.
Lemma St_add_wait m : add_wait S0 m = St b ts act (wt ++ [m]) dl out log. Proof. reflexivity. Qed.
Lemma St_add_delayed m : add_delayed S0 m = St b ts act wt (dl ++ [m]) out log. Proof. reflexivity. Qed.
End StRewrites.
Lemma St_get_path b ts act wt dl out log c pd : get_path (St b ts act wt dl out log) c pd = get_path b c pd.
Proof. destruct c; reflexivity. Qed.
#[export] Hint Rewrite St_hosts St_fail St_verbose St_tab St_initial St_tstat St_statpath St_onpath St_offpath St_active St_wait St_delayed
  St_out St_log St_fault St_set_active St_set_wait St_set_delayed St_set_out St_set_log St_set_tstat St_emit St_emitf St_add_active
  St_add_wait St_add_delayed St_get_path : rfst.
Ltac stw := autorewrite with rfst.

Lemma pw_second_S f st anc k : pw_second (S f) st anc k =
  match nth_error (s_wait st) k with
  | None => st
  | Some w =>
    match child_of_ancestor (s_tab st) (m_plug w) anc with
    | WFound child =>
      if plugname_active (s_active st) child (m_cmd w) then pw_second f st anc (S k)
      else match stat_cmd_plug st child false with
           | (st', Some q) => pw_second f (add_active st' q) anc (S k)
           | (st', None) =>
             if fail_waiters_second_pass then pw_second f (pw_first st' child SErr) anc O
             else pw_second f st' anc (S k)
           end
    | _ => pw_second f st anc (S k)
    end
  end.
Proof. reflexivity. Qed.

Lemma sipq_S f st k : sipq (S f) st k =
  match nth_error (s_wait st) k with
  | None => st
  | Some w =>
    match find_root (s_tab st) (m_plug w) with
    | WFound root =>
      if plugname_active (s_active st) root (m_cmd w) then sipq f st (S k)
      else match stat_cmd_plug st root false with
           | (st', Some q) => sipq f (add_active st' q) (S k)
           | (st', None) =>
             if fail_waiters_initial then sipq f (process_waiters st' root SErr) O
             else sipq f st' (S k)
           end
    | _ =>
      match f_dangling_parent with
      | Some fm => sipq f (set_wait (emitf st (if m_out w then TResult (m_plug w) else TDiag) fm [m_plug w]) (remove_nth k (s_wait st))) k
      | None => raise st (FAbort site_root_assert)
      end
    end
  end.
Proof. reflexivity. Qed.

(* ------------------------------------------------------------------ process_waiters, one waiter *)
Lemma pw_first_one b ts act w dl out log a s :
  pw_first (St b ts act [w] dl out log) a s =
  if is_desc (s_tab b) (m_plug w) a then
    if status_is_on s then
      if parent_is w a then St b ts (act ++ [w]) [] dl out log else St b ts act [w] dl out log
    else set_wait (pw_answer (St b ts act [w] dl out log) w a s) []
  else St b ts act [w] dl out log.
Proof.
  unfold pw_first. stw. cbn [pw_first_go]. stw.
  destruct (is_desc (s_tab b) (m_plug w) a); [|reflexivity].
  destruct (status_is_on s); [destruct (parent_is w a); reflexivity | reflexivity].
Qed.

Lemma pw_first_none b ts act dl out log a s : pw_first (St b ts act [] dl out log) a s = St b ts act [] dl out log.
Proof. reflexivity. Qed.

Lemma pw_blocked b ts act w dl out log a s pda :
  is_desc (s_tab b) (m_plug w) a = true -> status_is_on s = false -> m_out w = true -> lookup (s_tab b) a = Some pda ->
  process_waiters (St b ts act [w] dl out log) a s = St b ts act [] dl (out ++ [(TResult (m_plug w), blocked_line w pda s)]) log.
Proof.
  intros D S O L. unfold process_waiters. rewrite pw_first_one, D, S.
  unfold pw_answer. rewrite O. stw. rewrite L. unfold blocked_line.
  destruct (cmd_is_stat (m_cmd w)); [reflexivity|]. destruct (cmd_is_off (m_cmd w) && status_is_off s); reflexivity.
Qed.

Lemma pw_moved b ts act w dl out log a s :
  is_desc (s_tab b) (m_plug w) a = true -> status_is_on s = true -> parent_is w a = true ->
  process_waiters (St b ts act [w] dl out log) a s = St b ts (act ++ [w]) [] dl out log.
Proof.
  intros D S P. unfold process_waiters. rewrite pw_first_one, D, S, P.
  unfold scan_fuel. rewrite pw_second_S. stw. reflexivity.
Qed.

Lemma pw_empty b ts act dl out log a s :
  process_waiters (St b ts act [] dl out log) a s = St b ts act [] dl out log.
Proof.
  unfold process_waiters. rewrite pw_first_none.
  destruct (status_is_on s); [|reflexivity]. unfold scan_fuel. rewrite pw_second_S. stw. reflexivity.
Qed.

Lemma stat_cmd_plug_silent b ts act wt dl out log a pda lp :
  lookup (s_tab b) a = Some pda -> get_path b CStat pda = Some lp ->
  exists out', stat_cmd_plug (St b ts act wt dl out log) a false =
               (St b ts act wt dl out' log, Some (mkMsg CStat (p_host pda) a (p_parent pda) false false)) /\ res out' = res out.
Proof.
  intros L P. unfold stat_cmd_plug. stw. rewrite L. stw. rewrite P. stw.
  destruct (s_verbose b).
  - stw. eexists. split; [reflexivity|]. rewrite res_app. cbn. now rewrite app_nil_r.
  - eexists. split; reflexivity.
Qed.

Lemma pw_deeper b ts act w dl out log a s ch pdc lp :
  is_desc (s_tab b) (m_plug w) a = true -> status_is_on s = true -> parent_is w a = false ->
  child_of_ancestor (s_tab b) (m_plug w) a = WFound ch -> plugname_active act ch (m_cmd w) = false ->
  lookup (s_tab b) ch = Some pdc -> get_path b CStat pdc = Some lp ->
  exists out', process_waiters (St b ts act [w] dl out log) a s =
               St b ts (act ++ [mkMsg CStat (p_host pdc) ch (p_parent pdc) false false]) [w] dl out' log /\ res out' = res out.
Proof.
  intros D S P C PA L GP. unfold process_waiters. rewrite pw_first_one, D, S, P.
  unfold scan_fuel. stw. cbn [length Nat.mul Nat.add]. rewrite pw_second_S. stw. cbn [nth_error]. rewrite C, PA.
  destruct (stat_cmd_plug_silent b ts act [w] dl out log ch pdc lp L GP) as [out' [E R]]. rewrite E. stw.
  rewrite pw_second_S. stw. cbn [nth_error].
  exists out'. split; [reflexivity | exact R].
Qed.

(* ------------------------------------------------------------------ process_msg *)
(* a silent ancestor query: only process_waiters happens, with the status the query sees *)
Definition seen (b : state) (ts : list (name * status)) (host : text) (p : name) : option status :=
  if mem host (s_fail b) then Some SErr else ts_lookup ts p.

Lemma process_msg_silent b ts act wt dl out log host a par s :
  seen b ts host a = Some s ->
  process_msg (St b ts act wt dl out log) (mkMsg CStat host a par false false) = process_waiters (St b ts act wt dl out log) a s.
Proof.
  unfold seen, process_msg. cbn [m_host m_out m_plug m_cmd]. stw. destruct (mem host (s_fail b)).
  - intros H; inversion H. reflexivity.
  - intros H. change (cmd_is_stat CStat) with true. cbv iota. unfold stat_process. cbn [m_plug m_out]. stw. now rewrite H.
Qed.

(* one test-mode pass over a single active message *)
Lemma pass_one b ts m wt dl out log :
  pass (St b ts [m] wt dl out log) =
  let st' := process_msg (St b ts [m] wt dl out log) m in set_active st' (skipn 1 (s_active st')).
Proof. reflexivity. Qed.

Lemma drain_step fuel sched b ts m wt out log :
  drain (S fuel) sched (St b ts [m] wt [] out log) = drain fuel (tl sched) (pass (St b ts [m] wt [] out log)).
Proof.
  cbn [drain]. stw. cbn [idle]. stw. unfold release. stw. rewrite firstn_nil', skipn_nil'. reflexivity.
Qed.

Lemma drain_step_delayed fuel sched b ts m out log :
  drain (S fuel) sched (St b ts [] [] [m] out log) = drain fuel (tl sched) (pass (St b ts [m] [] [] out log)).
Proof.
  cbn [drain]. stw. cbn [idle]. stw. unfold release. stw.
  destruct (match sched with r :: _ => r | [] => length [m] end) as [|n]; cbn [Nat.max firstn skipn app]; [reflexivity|].
  rewrite firstn_nil', skipn_nil'. reflexivity.
Qed.

Lemma drain_done fuel sched b ts out log : drain fuel sched (St b ts [] [] [] out log) = Ok (St b ts [] [] [] out log).
Proof. destruct fuel; reflexivity. Qed.

(* ------------------------------------------------------------------ process_msg on a target, nobody waiting *)
Definition flip_ts (b : state) (ts : list (name * status)) (c : cmd) (p : name) : list (name * status) :=
  match c with
  | CStat => ts
  | COn => ts_update ts p SOn
  | COff => map (fun e => if is_desc (s_tab b) (fst e) p then (fst e, SOff) else e) (ts_update ts p SOff)
  end.

Lemma pm_fail b ts act dl out log c host p par o pl :
  mem host (s_fail b) = true ->
  process_msg (St b ts act [] dl out log) (mkMsg c host p par o pl) =
  St b ts act [] dl (if o then out ++ [(TResult p, fmt f_shell_error [p])] else out) log.
Proof.
  intros F. unfold process_msg. cbn [m_host m_out m_plug m_cmd]. stw. rewrite F.
  destruct o; stw; now rewrite pw_empty.
Qed.

Lemma pm_stat b ts act dl out log host p par pl s :
  mem host (s_fail b) = false -> ts_lookup ts p = Some s ->
  process_msg (St b ts act [] dl out log) (mkMsg CStat host p par true pl) =
  St b ts act [] dl (out ++ [(TResult p, fmt f_stat_result [p; status_text s])]) log.
Proof.
  intros F T. unfold process_msg. cbn [m_host m_out m_plug m_cmd]. stw. rewrite F.
  change (cmd_is_stat CStat) with true. cbv iota. unfold stat_process. cbn [m_plug m_out]. stw. rewrite T. stw. now rewrite pw_empty.
Qed.

Lemma pm_op_first b ts act dl out log c host p par pd lp :
  c <> CStat -> mem host (s_fail b) = false -> lookup (s_tab b) p = Some pd -> get_path b CStat pd = Some lp ->
  process_msg (St b ts act [] dl out log) (mkMsg c host p par true false) =
  St b (flip_ts b ts c p) act [] (dl ++ [mkMsg c host p par true true]) out (log ++ [EvOp c p]).
Proof.
  intros NC F L GP. unfold process_msg. cbn [m_host m_out m_plug m_cmd]. stw. rewrite F.
  destruct c; [congruence | |].
  - change (cmd_is_stat COn) with false. cbv iota. unfold on_off_process. cbn [m_poll].
    unfold poll_or_fail, send_status_poll. cbn [m_plug m_cmd m_host m_parent]. stw. rewrite L. stw. rewrite GP. stw. cbv iota.
    unfold flip. cbn [m_plug m_cmd]. stw. change (cmd_is_on COn) with true. cbv iota. stw. reflexivity.
  - change (cmd_is_stat COff) with false. cbv iota. unfold on_off_process. cbn [m_poll].
    unfold poll_or_fail, send_status_poll. cbn [m_plug m_cmd m_host m_parent]. stw. rewrite L. stw. rewrite GP. stw. cbv iota.
    unfold flip. cbn [m_plug m_cmd]. stw. change (cmd_is_on COff) with false. cbv iota. stw. reflexivity.
Qed.

Lemma pm_op_poll b ts act dl out log c host p par s :
  c <> CStat -> mem host (s_fail b) = false -> ts_lookup ts p = Some s -> status_is_cmd s c = true ->
  process_msg (St b ts act [] dl out log) (mkMsg c host p par true true) =
  St b ts act [] dl (out ++ [(TResult p, fmt f_onoff_ok [p])]) log.
Proof.
  intros NC F T SC. unfold process_msg. cbn [m_host m_out m_plug m_cmd]. stw. rewrite F.
  assert (cmd_is_stat c = false) as -> by (destruct c; [congruence | reflexivity | reflexivity]).
  unfold on_off_process. cbn [m_poll m_plug m_cmd]. stw. rewrite T, SC. stw. now rewrite pw_empty.
Qed.

(* the test status after the simulated operation is what the follow-up poll waits for *)
Lemma flip_ts_confirms b ts c p : c <> CStat -> exists s, ts_lookup (flip_ts b ts c p) p = Some s /\ status_is_cmd s c = true.
Proof.
  intros NC. destruct c; [congruence | |]; unfold flip_ts.
  - exists SOn. split; [apply ts_lookup_update_same | reflexivity].
  - rewrite (ts_lookup_map_off (fun n => is_desc (s_tab b) n p)), ts_lookup_update_same. exists SOff. split; [destruct (is_desc _ _ _); reflexivity | reflexivity].
Qed.
