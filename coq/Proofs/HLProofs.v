(* C14: the range array denotes the pushed names (push / push_list / copy / count / nth / delete) *)
From Coq Require Import List Arith NArith ZArith Lia Bool.
From PM Require Import Base.Bytes Base.Outcome Gen.GenHL Model.HL Spec.HLSpec Proofs.HLArith.
From Coq Require Import ZifyBool ZifyNat ZifyN.
Import ListNotations.
Local Open Scope N_scope.
Ltac Zify.zify_post_hook ::= Z.div_mod_to_equations.

(* ---------------------------------------------------------------- generic list facts *)
Lemma span_app p s : let (a, r) := span p s in s = a ++ r /\ Forall (fun b => p b = true) a.
Proof.
  induction s as [|b s IH]; cbn [span]; [split; [reflexivity|constructor]|].
  destruct (p b) eqn:E; [|split; [reflexivity|constructor]].
  destruct (span p s) as [a r]. destruct IH as [-> HF]. split; [reflexivity|now constructor].
Qed.

Lemma span_all p s : Forall (fun b => p b = true) s -> span p s = (s, []).
Proof. induction 1 as [|b s Hb _ IH]; cbn [span]; [reflexivity|]. now rewrite Hb, IH. Qed.

Lemma span_head_false p b s : p b = false -> span p (b :: s) = ([], b :: s).
Proof. intros H. cbn [span]. now rewrite H. Qed.

Lemma span_rest_head p s : match snd (span p s) with [] => True | b :: _ => p b = false end.
Proof.
  induction s as [|b s IH]; cbn [span]; [exact I|].
  destruct (p b) eqn:E; [|cbn [snd]; exact E]. destruct (span p s) as [a r]. exact IH.
Qed.

Lemma nseq_length lo n : length (nseq lo n) = n.
Proof. revert lo; induction n; intros; cbn [nseq length]; auto. Qed.

Lemma nseq_In lo n k : In k (nseq lo n) <-> lo <= k < lo + N.of_nat n.
Proof.
  revert lo; induction n as [|n IH]; intros lo; cbn [nseq In]; [lia|].
  rewrite IH. lia.
Qed.

Lemma nseq_app lo a b : nseq lo (a + b) = nseq lo a ++ nseq (lo + N.of_nat a) b.
Proof.
  revert lo; induction a as [|a IH]; intros lo; cbn [nseq plus app].
  - f_equal. lia.
  - f_equal. rewrite IH. f_equal. f_equal. lia.
Qed.

Lemma nseq_nth lo n i : (i < n)%nat -> nth_error (nseq lo n) i = Some (lo + N.of_nat i).
Proof.
  revert lo i; induction n as [|n IH]; intros lo i Hi; [lia|].
  destruct i as [|i]; cbn [nseq nth_error]; [f_equal; lia|]. rewrite IH by lia. f_equal. lia.
Qed.

(* ---------------------------------------------------------------- names of a range *)
Definition rcount (r : hrange) : nat := N.to_nat (hr_hi r + 1 - hr_lo r).

Lemma names_single r : hr_single r = true -> names r = [hr_prefix r].
Proof. unfold names. now intros ->. Qed.

Lemma names_range r : hr_single r = false ->
  names r = map (fun k => hr_prefix r ++ pad (hr_width r) k) (nseq (hr_lo r) (rcount r)).
Proof. unfold names. now intros ->. Qed.

Lemma names_length r : wf_range r -> length (names r) = if hr_single r then 1%nat else rcount r.
Proof.
  unfold wf_range, names. destruct (hr_single r); intros H; [reflexivity|].
  now rewrite map_length, nseq_length.
Qed.

Lemma expand_app a b : expand (a ++ b) = expand a ++ expand b.
Proof. unfold expand. apply flat_map_app. Qed.

Lemma expand_cons r h : expand (r :: h) = names r ++ expand h.
Proof. reflexivity. Qed.

Lemma wf_single_fields name : wf_range (mk_single name).
Proof. unfold wf_range, mk_single; cbn. split; reflexivity. Qed.

Lemma ULONG_MAX_W64 : ULONG_MAX + 1 = W64.
Proof. reflexivity. Qed.

(* a width may be replaced when no member's spelling changes *)
Lemma names_with_width r w' :
  wf_range r ->
  (forall k, hr_lo r <= k -> k < W64 -> pad w' k = pad (hr_width r) k) ->
  names (with_width r w') = names r.
Proof.
  intros Hwf Hp. unfold names, with_width; cbn [hr_single hr_prefix hr_width hr_lo hr_hi].
  destruct (hr_single r) eqn:Es; [reflexivity|].
  unfold wf_range in Hwf. rewrite Es in Hwf. destruct Hwf as [Hlo Hhi].
  apply map_ext_in. intros k Hk. apply nseq_In in Hk. f_equal. apply Hp; [lia|].
  unfold ULONG_MAX, W64 in *. lia.
Qed.

Lemma wf_with_width r w : wf_range r -> wf_range (with_width r w).
Proof. unfold wf_range, with_width; cbn. auto. Qed.

Lemma text_cmp_eq a : forall b, text_cmp a b = Eq -> a = b.
Proof.
  induction a as [|x a IH]; intros [|y b]; cbn [text_cmp]; intros H; try discriminate; [reflexivity|].
  destruct (N.compare_spec x y); try discriminate. subst. f_equal. now apply IH.
Qed.

Lemma text_cmp_refl a : text_cmp a a = Eq.
Proof. induction a as [|x a IH]; cbn [text_cmp]; [reflexivity|]. now rewrite N.compare_refl. Qed.

Lemma prefix_cmp_0 t r : (prefix_cmp t r =? 0)%Z = true -> hr_prefix t = hr_prefix r /\ hr_single t = hr_single r.
Proof.
  unfold prefix_cmp. destruct (text_cmp (hr_prefix t) (hr_prefix r)) eqn:E; intros H; try discriminate.
  split; [now apply text_cmp_eq|]. destruct (hr_single t), (hr_single r); cbn in H; congruence.
Qed.

Lemma width_combine_sound t r t' r' :
  width_combine t r = Some (t', r') -> wf_range t -> wf_range r ->
  names t' = names t /\ names r' = names r /\ wf_range t' /\ wf_range r' /\ hr_width t' = hr_width r'
  /\ t' = with_width t (hr_width t') /\ r' = with_width r (hr_width r').
Proof.
  unfold width_combine. destruct (width_equiv _ _ _ _) as [[a b]|] eqn:E; [|discriminate].
  intros H Ht Hr. inversion H; subst; clear H.
  apply width_equiv_sound in E as (Hab & _ & _ & Hn & Hm).
  repeat split; auto using wf_with_width.
  - apply names_with_width; auto.
  - apply names_with_width; auto.
Qed.

(* joining [lo1..hi1] with [hi1+1..hi2] *)
Lemma try_join_sound t r t' r' :
  try_join t r = Some (t', r') -> wf_range t -> wf_range r ->
  names t' = names t ++ names r /\ names r' = names r /\ wf_range t' /\ wf_range r'.
Proof.
  unfold try_join. destruct ((prefix_cmp t r =? 0)%Z) eqn:Ep; cbn [andb]; [|discriminate].
  destruct (hr_hi t =? sub64 (hr_lo r) 1) eqn:Eh; [|discriminate].
  destruct (width_combine t r) as [[t1 r1]|] eqn:Ew; [|discriminate].
  intros H Ht Hr. inversion H; subst; clear H.
  apply prefix_cmp_0 in Ep as [Epfx Esg]. apply N.eqb_eq in Eh.
  destruct (width_combine_sound _ _ _ _ Ew Ht Hr) as (Hn1 & Hn2 & Hw1 & Hw2 & Hww & Ht1 & Hr1).
  pose proof Ht as Ht0. pose proof Hr as Hr0.
  unfold wf_range in Ht, Hr. rewrite Esg in Ht.
  destruct (hr_single r) eqn:Esr.
  { (* two plain names never join: 0 <> ULONG_MAX *)
    destruct Ht as [_ Hth]. destruct Hr as [Hrl _]. rewrite Hth, Hrl in Eh. change (sub64 0 1) with ULONG_MAX in Eh. discriminate. }
  destruct Ht as [Htl Hth]. destruct Hr as [Hrl Hrh].
  assert (Hlo : hr_lo r = hr_hi t + 1).
  { destruct (N.eq_dec (hr_lo r) 0) as [Hz|Hz].
    - rewrite Hz in Eh. change (sub64 0 1) with ULONG_MAX in Eh. lia.
    - unfold sub64, ULONG_MAX, W64 in *. rewrite Eh. assert (hr_lo r < 18446744073709551616) by lia.
      replace (hr_lo r + 18446744073709551616 - 1) with ((hr_lo r - 1) + 1 * 18446744073709551616) by lia.
      rewrite N.mod_add by lia. rewrite N.mod_small by lia. lia. }
  repeat split; auto.
  - rewrite <- Hn1, <- Hn2.
    rewrite Ht1, Hr1. unfold names, with_hi, with_width; cbn [hr_single hr_prefix hr_lo hr_hi hr_width].
    rewrite Esg, Esr. rewrite <- Hww, Epfx.
    replace (N.to_nat (hr_hi r + 1 - hr_lo t)) with (N.to_nat (hr_hi t + 1 - hr_lo t) + N.to_nat (hr_hi r + 1 - hr_lo r))%nat by lia.
    rewrite nseq_app, map_app. f_equal. f_equal. f_equal. lia.
  - rewrite Ht1, Hr1. unfold wf_range, with_hi, with_width; cbn [hr_single hr_lo hr_hi]. rewrite Esg. lia.
Qed.

Lemma push_range_sound h : forall r h' r' a,
  push_range h r = (h', r', a) -> wf h -> wf_range r ->
  expand h' = expand h ++ names r /\ wf h' /\ names r' = names r /\ wf_range r'.
Proof.
  induction h as [|x h IH]; intros r h' r' a H Hwf Hr.
  - cbn [push_range] in H. inversion H; subst. repeat split; auto.
    + cbn [expand flat_map app]. now rewrite app_nil_r.
    + now constructor.
  - destruct h as [|y h].
    + cbn [push_range] in H. inversion Hwf as [|? ? Hx _]; subst.
      destruct (try_join x r) as [[t1 r1]|] eqn:Ej; inversion H; subst; clear H.
      * destruct (try_join_sound _ _ _ _ Ej Hx Hr) as (Hn & Hn2 & Hw & Hw2).
        repeat split; auto. -- cbn [expand flat_map]. now rewrite !app_nil_r. -- now constructor.
      * repeat split; auto.
        -- cbn [expand flat_map app]. now rewrite !app_nil_r.
        -- repeat constructor; auto.
    + change (push_range (x :: y :: h) r) with (let '(h'', r1, a1) := push_range (y :: h) r in (x :: h'', r1, a1)) in H.
      destruct (push_range (y :: h) r) as [[h'' r1] a1] eqn:E. inversion H; subst; clear H.
      inversion Hwf as [|? ? Hx Hrest]; subst.
      destruct (IH _ _ _ _ E Hrest Hr) as (He & Hw & Hn & Hwr).
      repeat split; auto.
      * rewrite !expand_cons, He. now rewrite app_assoc.
      * now constructor.
Qed.

(* ---------------------------------------------------------------- hostname_create *)
Lemma is_digit_not_space b : is_digit b = true -> is_space b = false.
Proof. unfold is_digit, is_space. intros H. apply andb_true_iff in H as [H1 H2]. apply N.leb_le in H1, H2.
  destruct (N.eqb_spec b 32); [lia|]. cbn [orb]. apply andb_false_iff. right. apply N.leb_gt. lia. Qed.

Lemma strip_sign_digit (d : byte) (ds : text) : d <> 43 -> d <> 45 -> strip_sign (d :: ds) = (false, 0%nat, d :: ds).
Proof.
  intros H43 H45. unfold strip_sign. destruct d as [|p]; [reflexivity|].
  do 7 (try (destruct p as [p|p|]; try reflexivity; try congruence)).
Qed.

Lemma strtoul_digits ds : ds <> [] -> all_digit ds ->
  strtoul ds = ((if ULONG_MAX <? digit_val ds then ULONG_MAX else digit_val ds), length ds).
Proof.
  intros Hne Hd. destruct ds as [|d ds]; [congruence|].
  inversion Hd as [|? ? Hd0 Hds]; subst. unfold strtoul.
  rewrite (span_head_false is_space d ds (is_digit_not_space _ Hd0)).
  assert (d <> 43 /\ d <> 45) as [H43 H45]. { apply is_digit_range in Hd0. lia. }
  rewrite (strip_sign_digit d ds H43 H45).
  rewrite (span_all is_digit (d :: ds) Hd). cbn [length plus]. reflexivity.
Qed.

Lemma MAX_HOST_SUFFIX_small : GenHL.MAX_HOST_SUFFIX < ULONG_MAX /\ fits GenHL.MAX_HOST_SUFFIX.
Proof. split; vm_compute; reflexivity. Qed.

Lemma range_of_name_sound n : names (range_of_name n) = [n] /\ wf_range (range_of_name n).
Proof.
  unfold range_of_name, hostname_create, hostname_create_at, prefix_len.
  pose proof (span_app is_digit (rev n)) as Hs. destruct (span is_digit (rev n)) as [rd rp] eqn:Esp.
  destruct Hs as [Hrev Hrd]. cbn [fst].
  assert (Hn : n = rev rp ++ rev rd). { rewrite <- rev_app_distr, <- Hrev. now rewrite rev_involutive. }
  assert (Hlen : (length n - length rd)%nat = length (rev rp)).
  { rewrite Hn at 1. rewrite app_length, !rev_length. lia. }
  rewrite Hlen.
  destruct (Nat.eqb (length (rev rp)) (length n)) eqn:Ek.
  - cbn [hn_suffix]. split; [apply names_single; reflexivity | apply wf_single_fields].
  - apply Nat.eqb_neq in Ek.
    assert (Hsk : skipn (length (rev rp)) n = rev rd). { rewrite Hn. now rewrite skipn_app, skipn_all, Nat.sub_diag. }
    assert (Hfi : firstn (length (rev rp)) n = rev rp). { rewrite Hn. now rewrite firstn_app, firstn_all, Nat.sub_diag, app_nil_r. }
    rewrite Hsk.
    assert (Hne : rev rd <> []). { intros E. apply Ek. rewrite Hn, E, app_nil_r. reflexivity. }
    assert (Hda : all_digit (rev rd)). { apply Forall_rev. exact Hrd. }
    rewrite (strtoul_digits _ Hne Hda). rewrite Nat.eqb_refl. cbn [andb].
    destruct MAX_HOST_SUFFIX_small as [Hm1 Hm2].
    destruct (_ <=? GenHL.MAX_HOST_SUFFIX) eqn:Ev; cbn [hn_suffix hn_prefix hn_num].
    + apply N.leb_le in Ev.
      destruct (ULONG_MAX <? digit_val (rev rd)) eqn:Eo; [lia|]. apply N.ltb_ge in Eo.
      rewrite Hfi. split.
      * rewrite names_range by reflexivity. unfold rcount, mk_range; cbn [hr_lo hr_hi hr_prefix hr_width].
        replace (N.to_nat (digit_val (rev rd) + 1 - digit_val (rev rd))) with 1%nat by lia.
        cbn [nseq map]. rewrite digits_roundtrip; auto; [now rewrite <- Hn|].
        unfold fits in *. lia.
      * unfold wf_range, mk_range; cbn. lia.
    + split; [apply names_single; reflexivity | apply wf_single_fields].
Qed.

(* ---------------------------------------------------------------- C14_push, C14_push_list, C14_copy *)
Theorem push_host_sound h n : wf h -> expand (push_host h n) = expand h ++ [n] /\ wf (push_host h n).
Proof.
  intros Hwf. unfold push_host. destruct (range_of_name_sound n) as [Hn Hw].
  destruct (push_range h (range_of_name n)) as [[h' r'] a] eqn:E. cbn [fst].
  destruct (push_range_sound _ _ _ _ _ E Hwf Hw) as (He & Hw' & _). rewrite He, Hn. auto.
Qed.

Lemma push_list_mut_sound h2 : forall h1 a b, push_list_mut h1 h2 = (a, b) -> wf h1 -> wf h2 ->
  expand a = expand h1 ++ expand h2 /\ wf a /\ expand b = expand h2 /\ wf b.
Proof.
  induction h2 as [|r rest IH]; intros h1 a b H H1 H2; cbn [push_list_mut] in H.
  - inversion H; subst. rewrite app_nil_r. repeat split; auto.
  - destruct (push_range h1 r) as [[h1' r'] ap] eqn:E.
    destruct (push_list_mut h1' rest) as [h1'' rest'] eqn:E2. inversion H; subst; clear H.
    inversion H2 as [|? ? Hr Hrest]; subst.
    destruct (push_range_sound _ _ _ _ _ E H1 Hr) as (He & Hw & Hn & Hwr).
    destruct (IH _ _ _ E2 Hw Hrest) as (He2 & Hw2 & He3 & Hw3).
    repeat split; auto.
    + rewrite He2, He, expand_cons. now rewrite app_assoc.
    + now rewrite !expand_cons, Hn, He3.
    + now constructor.
Qed.

Theorem push_list_sound h1 h2 : wf h1 -> wf h2 ->
  expand (push_list h1 h2) = expand h1 ++ expand h2 /\ wf (push_list h1 h2).
Proof.
  intros H1 H2. unfold push_list. destruct (push_list_mut h1 h2) as [a b] eqn:E. cbn [fst].
  destruct (push_list_mut_sound _ _ _ _ E H1 H2) as (Ha & Hw & _). auto.
Qed.

Lemma fold_push_host ns : forall h, wf h ->
  expand (fold_left push_host ns h) = expand h ++ ns /\ wf (fold_left push_host ns h).
Proof.
  induction ns as [|n ns IH]; intros h Hwf; cbn [fold_left]; [now rewrite app_nil_r|].
  destruct (push_host_sound h n Hwf) as [He Hw]. destruct (IH _ Hw) as [He2 Hw2].
  split; auto. rewrite He2, He. now rewrite <- app_assoc.
Qed.
