(* Non-vacuity of Proofs/DaemonE2ETerminal.v (C02_terminal_only_from_completions, C03_terminal_only_from_completions) on the daemon of
   Proofs/DaemonE2EEx.v (one coprocess device d0, plug p1 = node n1):
     busy_rounds     client 1 sends `on n1`; while the command is in progress it sends `status n1`: the CLIENT half of the third pass
                     answers `208` (no prompt) and the command stays as it is; the fifth pass delivers the completion and the stream
                     gains `102 Command completed successfully` and the prompt - the only terminal token of the command;
     vanish_rounds   the same request; in the third pass poll reports POLLERR for the client's descriptor: the record is destroyed
                     with the command in progress, nothing is written; in the fifth pass the completion event EvComplete 1 finds
                     no client. *)
From Coq Require Import List NArith ZArith Bool Lia.
From PM Require Import Base.Bytes Base.Outcome Gen.GenConsts Gen.GenClient Model.ScriptAst Model.Enqueue Model.Script Model.Device Model.DevHarness
                       Model.Client Model.CliWorld Model.Daemon Spec.Proto Proofs.ClientStream Proofs.DaemonLedger Proofs.DaemonPending Proofs.DaemonE2E Proofs.DaemonE2EEx
                       Proofs.DaemonE2ETerminal.
From PM Require Properties.C07.
Import ListNotations.
Local Open Scope Z_scope.

Definition busy_rounds : list round :=
  [ mkRound 1000000 true [] [pin_wr 100];
    mkRound 1100000 false [line_in (bslit "on n1")] [pin_rd (bslit "ok")];
    mkRound 1200000 false [line_in (bslit "status n1")] [pin_wr 100];
    mkRound 1300000 false [] [pin_rd (bslit "done")];
    mkRound 1400000 false [] [pin_wr 100] ].
Definition vanish_rounds : list round :=
  [ mkRound 1000000 true [] [pin_wr 100];
    mkRound 1100000 false [line_in (bslit "on n1")] [pin_rd (bslit "ok")];
    mkRound 1200000 false [mkCin true false false None None] [pin_wr 100];
    mkRound 1300000 false [] [pin_rd (bslit "done")];
    mkRound 1400000 false [] [pin_wr 100] ].

(* the last pass of a history: the clients (id, command word, output so far) when the pass begins, after its client half and
   when it ends; the device events of the pass *)
Definition pass_view (rs : list round) :=
  match dinit e2e_st 1000000 [[ConnNow; ConnNow; ConnNow]] with
  | Ok (st1, _) =>
    let pre := removelast rs in let r := last rs r_none in
    match erun st1 pre [] with
    | Ok (st, _) =>
      match ecpp st r, estep st r with
      | Ok (sta, _), Ok (stb, o) =>
          let view := map (fun x => (cid x, option_map k_com (cl_cmd (dc x)), cl_out (dc x))) in
          Some (view (dm_clients st), view (dm_clients sta), view (dm_clients stb),
                flat_map (fun s => match s with SysDev _ (EvComplete c e _) => [(c, e)] | _ => [] end) (do_evs o))
      | _, _ => None
      end
    | _ => None
    end
  | _ => None
  end.

Lemma busy_example :
  pass_view (firstn 3 busy_rounds) =
    Some ([(1, Some PM_POWER_ON, banner)], [(1, Some PM_POWER_ON, banner ++ render [busy_tok])], [(1, Some PM_POWER_ON, banner ++ render [busy_tok])], []) /\
  pass_view busy_rounds =
    Some ([(1, Some PM_POWER_ON, banner ++ render [busy_tok])], [(1, Some PM_POWER_ON, banner ++ render [busy_tok])],
          [(1, None, banner ++ render [busy_tok] ++ render [TLine 102 (bslit "Command completed successfully"); TPrompt])], [(1, ACT_ESUCCESS)]) /\
  render [busy_tok] = CP_ERR_CLIBUSY.
Proof. vm_compute. repeat split. Qed.

Lemma vanish_example :
  pass_view (firstn 3 vanish_rounds) = Some ([(1, Some PM_POWER_ON, banner)], [], [], []) /\
  pass_view vanish_rounds = Some ([], [], [], [(1, ACT_ESUCCESS)]).
Proof. vm_compute. repeat split. Qed.
