(* C13, part 3: the statements exported to Properties/C13.v *)
From Coq Require Import List NArith ZArith Bool Lia Permutation FinFun.
From PM Require Import Base.Bytes Base.Outcome Gen.GenLex Model.Lexer Spec.ConfSpec Proofs.LexerLoad Proofs.ConfMap Proofs.ConfMapLoad.
Import ListNotations.

Definition devplug (e : entry) : text * text := (e_dev e, e_plug e).

(* ------------------------------------------------------------------ injectivity of a device list *)
Lemma assigned_plugs_nodup : forall pl, NoDup (map fst pl) -> NoDup (map snd (assigned pl)).
Proof.
  induction pl as [|[p v] r IH]; intros ND; [constructor|]. cbn [map fst] in ND. inversion ND; subst.
  rewrite assigned_cons. cbn [fst snd]. destruct v as [n|]; cbn [app map snd]; [|auto].
  constructor; [|auto]. intros I. apply in_map_iff in I as ([m q] & E & I). cbn [snd] in E. subst q.
  apply H1. eapply assigned_plugs_in. exact I.
Qed.

Lemma in_dev_entries e d : In e (dev_entries d) <-> exists n p, e = (n, d_name d, p) /\ In (n, p) (assigned (d_plugs d)).
Proof.
  unfold dev_entries. rewrite in_map_iff. split.
  - intros ([n p] & E & I). exists n, p. cbn [fst snd] in E. auto.
  - intros (n & p & E & I). exists (n, p). cbn [fst snd]. auto.
Qed.

Lemma in_entries e devs : In e (entries_of devs) <-> exists d, In d devs /\ In e (dev_entries d).
Proof. unfold entries_of. rewrite in_flat_map. reflexivity. Qed.

Lemma dev_entries_pairs_nodup d : NoDup (map fst (d_plugs d)) -> NoDup (map devplug (dev_entries d)).
Proof.
  intros ND. unfold dev_entries. rewrite map_map. unfold devplug, e_dev, e_plug. cbn [fst snd].
  rewrite <- (map_map snd (fun p => (d_name d, p))). apply Injective_map_NoDup; [|apply assigned_plugs_nodup, ND].
  intros x y E. inversion E. reflexivity.
Qed.

Lemma entries_pairs_nodup : forall devs, (forall d, In d devs -> NoDup (map fst (d_plugs d))) -> shadow_ok devs ->
  NoDup (map devplug (entries_of devs)).
Proof.
  induction devs as [|d r IH]; intros ND S; [constructor|]. cbn [shadow_ok] in S. destruct S as [S1 S2].
  rewrite entries_cons, map_app. apply nodup_app.
  - apply dev_entries_pairs_nodup, ND. left; reflexivity.
  - apply IH; [intros x I; apply ND; right; assumption | assumption].
  - intros x I J. apply in_map_iff in I as (e1 & E1 & I1). apply in_map_iff in J as (e2 & E2 & I2).
    apply in_dev_entries in I1 as (n1 & p1 & -> & A1). apply in_entries in I2 as (d2 & Id2 & I2).
    apply in_dev_entries in I2 as (n2 & p2 & -> & A2). subst x. unfold devplug, e_dev, e_plug in E2. cbn [fst snd] in E2.
    inversion E2; subst. rewrite (S1 d2 Id2 H0) in A2. destruct A2.
Qed.

(* ------------------------------------------------------------------ the three rules with indices *)
Theorem rule_zip : forall hard pl nodes plugs pl' d, map_nodes_plugs hard pl nodes plugs = inr pl' ->
  length nodes = length plugs /\ forall i, (i < length nodes)%nat -> In (nth i plugs d, Some (nth i nodes d)) pl'.
Proof.
  intros hard pl nodes plugs pl' d H. split; [apply (map_nodes_plugs_ok _ _ _ _ _ H) | apply map_nodes_plugs_nth with (hard := hard) (pl := pl); exact H].
Qed.

Theorem rule_next_free : forall pl nodes,
  map_nodes_noplugs true pl nodes = (if Nat.leb (length nodes) (length (free_names pl)) then inr (fill pl nodes) else inl S_NOPLUGS) /\
  ((length nodes <= length (free_names pl))%nat ->
     map fst (fill pl nodes) = map fst pl /\
     forall d i, (i < length nodes)%nat -> In (nth i (free_names pl) d, Some (nth i nodes d)) (fill pl nodes)).
Proof.
  intros pl nodes. split; [apply map_nodes_noplugs_hard|]. intros L. split; [apply fill_names|]. intros d i Li. apply fill_nth; assumption.
Qed.

Theorem rule_same_name : forall pl nodes pl', map_nodes_noplugs false pl nodes = inr pl' ->
  forall n, In n nodes -> In (n, Some n) pl'.
Proof.
  intros pl nodes pl' H n I. rewrite map_nodes_noplugs_soft in H. apply In_nth with (d := n) in I as (i & Li & E).
  pose proof (map_nodes_plugs_nth false nodes nodes pl pl' n H i Li) as K. rewrite E in K. exact K.
Qed.

(* ------------------------------------------------------------------ load-level statements *)
Section Final.
  Variable hl_expand : text -> option (list text).
  Variable regcomp_ok : bool -> text -> bool.
  Variable resolves : text -> text -> bool.
  Variable is_chardev : text -> bool.
  Variable stale_erange : text -> bool.

  Notation load := (load hl_expand regcomp_ok resolves is_chardev stale_erange).
  Notation parse_items := (parse_items hl_expand regcomp_ok resolves is_chardev stale_erange).

  Lemma load_minv toks c : load toks = Ok c -> minv c /\ aliases_ok c /\ c_nodes c <> [].
  Proof.
    intros H. unfold Lexer.load, load_stream in H.
    pose proof (parse_items_minv hl_expand regcomp_ok resolves is_chardev stale_erange EndEOF I (S (length toks)) cfg_empty toks minv_empty (Nat.lt_succ_diag_r _)) as S.
    rewrite H in S. exact S.
  Qed.

  (* every node has exactly one entry; the nodes of the map are exactly conf_nodes *)
  Theorem map_functional toks c : load toks = Ok c ->
    NoDup (map e_node (map_of c)) /\ Permutation (map e_node (map_of c)) (c_nodes c) /\ NoDup (c_nodes c).
  Proof.
    intros H. apply load_minv in H as ((I1 & I2 & _ & _ & _) & _). split; [|split; assumption].
    eapply Permutation_NoDup; [apply Permutation_sym; exact I2 | exact I1].
  Qed.

  Lemma dev_names_nodup c : minv c -> forall d, In d (c_devs c) -> NoDup (map fst (d_plugs d)).
  Proof.
    intros (_ & _ & I3 & _ & I5) d Id. destruct (I3 d Id) as [A B]. destruct (d_hardwired d) eqn:HW.
    - destruct (B eq_refl) as (sp & F & P). eapply (I5 sp); [eapply find_spec_in; exact F | exact P].
    - apply A; reflexivity.
  Qed.

  (* no plug carries two nodes.  Uses the fact, read from the current source by gen_lex.py, that a specification naming
     a plug twice is refused (GenLex.plugnames_checked, fix F34) *)
  Theorem map_injective toks c : load toks = Ok c -> NoDup (map devplug (map_of c)).
  Proof.
    intros H. apply load_minv in H as (M & _). rewrite map_of_devs. apply entries_pairs_nodup.
    - apply dev_names_nodup; assumption.
    - apply M.
  Qed.

  Theorem spec_plugs_nodup toks c : load toks = Ok c -> forall sp l, In sp (c_specs c) -> ss_plugs sp = Some l -> NoDup l.
  Proof. intros H sp l I. apply load_minv in H as ((_ & _ & _ & _ & I5) & _). apply (I5 sp I). Qed.

  (* hard-wired plug names are respected: a hard-wired device has exactly the plug names of its specification, in
     specification order; a device without hard-wired plugs has only plugs that carry a node, with distinct names *)
  Theorem map_hardwired toks c : load toks = Ok c -> forall d, In d (c_devs c) ->
    (d_hardwired d = true -> exists sp, find_spec (d_spec d) (c_specs c) = Some sp /\ ss_plugs sp = Some (map fst (d_plugs d))) /\
    (d_hardwired d = false -> all_assigned (d_plugs d) /\ NoDup (map fst (d_plugs d))).
  Proof.
    intros H d Id. apply load_minv in H as ((_ & _ & I3 & _ & _) & _). destruct (I3 d Id) as [A B]. split; assumption.
  Qed.

  Theorem map_aliases toks c : load toks = Ok c -> aliases_ok c /\ c_nodes c <> [].
  Proof. intros H. apply load_minv in H as (_ & A & N). split; assumption. Qed.

  (* ---- a node line met in ANY parser state: accepted iff make_node accepts; its pairs reach the final map *)
  Definition node_toks (a b : text) (p : option text) : list token :=
    TKw TOK_NODE :: TStr a :: TStr b :: match p with Some q => [TStr q] | None => [] end.

  Definition not_str (r : list token) : Prop := match r with TStr _ :: _ => False | _ => True end.

  Lemma parse_items_node_some lend n c a b q r :
    parse_items lend (S n) c (node_toks a b (Some q) ++ r) = bind (make_node hl_expand c a b (Some q)) (fun c' => parse_items lend n c' r).
  Proof. reflexivity. Qed.

  Lemma parse_items_node_none n c a b t r : not_str (t :: r) ->
    parse_items EndEOF (S n) c (node_toks a b None ++ t :: r) = bind (make_node hl_expand c a b None) (fun c' => parse_items EndEOF n c' (t :: r)).
  Proof. intros H. cbn [node_toks app parse_items next bind expect_str]. destruct t; try reflexivity. destruct H. Qed.

  Lemma parse_items_node_none_eof n c a b :
    parse_items EndEOF (S n) c (node_toks a b None) = bind (make_node hl_expand c a b None) (fun c' => parse_items EndEOF n c' []).
  Proof. reflexivity. Qed.

  Theorem node_line_final lend n c a b q r cf : lend_ok lend ->
    parse_items lend (S n) c (node_toks a b (Some q) ++ r) = Ok cf -> (length r < n)%nat ->
    exists c', make_node hl_expand c a b (Some q) = Ok c' /\ incl (map_of c') (map_of cf).
  Proof.
    intros Hl H L. rewrite parse_items_node_some in H. destruct (make_node hl_expand c a b (Some q)) as [c'| | | |] eqn:E; try discriminate H.
    cbn [bind] in H. exists c'. split; [reflexivity|].
    pose proof (parse_items_ext hl_expand regcomp_ok resolves is_chardev stale_erange lend Hl c' n c' r (ext_refl c') L) as X.
    rewrite H in X. apply X.
  Qed.

  (* ---- refusals *)
  Theorem refuse_unknown_device c a b p : (forall x, In x (c_devs c) -> d_name x <> b) ->
    make_node hl_expand c a b p = fail c S_NO_DEVICE.
  Proof. intros H. unfold make_node. rewrite (proj2 (update_dev_none b (fun d => inr d) (c_devs c)) H). reflexivity. Qed.

  Theorem refuse_unknown_spec c name spec host flags : find_spec spec (c_specs c) = None ->
    make_device regcomp_ok resolves is_chardev stale_erange c name spec host flags = fail c S_NO_SPEC.
  Proof. intros H. unfold make_device. rewrite H. reflexivity. Qed.

  Theorem refuse_bad_nodelist c a b p : (exists x, In x (c_devs c) /\ d_name x = b) -> hl_expand a = None ->
    make_node hl_expand c a b p = fail c S_BAD_NODELIST.
  Proof.
    intros (x & Ix & Nx) H. unfold make_node. destruct (update_dev b (fun d => inr d) (c_devs c)) eqn:U.
    - rewrite H. reflexivity.
    - exfalso. apply (proj1 (update_dev_none _ _ _) U x Ix Nx).
  Qed.

  (* the first device named b *)
  Definition first_dev (c : cfg) (b : text) (d : dev_s) : Prop :=
    exists l1 l2, c_devs c = l1 ++ d :: l2 /\ d_name d = b /\ (forall x, In x l1 -> d_name x <> b).

  Lemma make_node_ok_first c a b p c' d : make_node hl_expand c a b p = Ok c' -> first_dev c b d ->
    exists nodes plugs pl', hl_expand a = Some nodes /\ expand_opt hl_expand p = Some plugs /\
                            line_result d nodes plugs = inr pl' /\ add_nodes (c_nodes c) nodes = Some (c_nodes c').
  Proof.
    intros H (l1 & l2 & E1 & E2 & E3).
    apply make_node_ok in H as (l1' & d' & l2' & nodes & plugs & pl' & F1 & F2 & F3 & F4 & F5 & F6 & _ & F8 & _).
    rewrite E1 in F1. destruct (first_split_unique b _ _ _ _ _ _ F1 E2 F2 E3 F3) as (_ & -> & _).
    exists nodes, plugs, pl'. auto.
  Qed.

  (* duplicate node: a name of the line is already a node, or occurs twice in the line *)
  Theorem refuse_dup_node c a b p nodes : hl_expand a = Some nodes ->
    (~ NoDup nodes \/ exists n, In n nodes /\ In n (c_nodes c)) -> forall c', make_node hl_expand c a b p <> Ok c'.
  Proof.
    intros Hn D c' H. apply make_node_rule in H as (_ & _ & _ & nodes' & _ & _ & _ & _ & _ & E & _ & _ & _ & _ & _ & A2 & A3).
    rewrite Hn in E. inversion E; subst nodes'. destruct D as [D|(n & I & J)]; [contradiction | apply (A3 n I J)].
  Qed.

  (* more nodes than plugs or vice versa *)
  Theorem refuse_length c a b q nodes plugs : hl_expand a = Some nodes -> hl_expand q = Some plugs ->
    length nodes <> length plugs -> forall c', make_node hl_expand c a b (Some q) <> Ok c'.
  Proof.
    intros Hn Hp L c' H. apply make_node_ok in H as (l1 & d & l2 & nodes' & plugs' & pl' & _ & _ & _ & F4 & F5 & F6 & _).
    rewrite Hn in F4. inversion F4; subst nodes'. cbn [expand_opt] in F5. rewrite Hp in F5. inversion F5; subst plugs'.
    cbn [line_result] in F6. apply map_nodes_plugs_ok in F6 as (E & _). contradiction.
  Qed.

  (* unknown plug of a hard-wired device *)
  Theorem refuse_unknown_plug c a b q d plugs x : first_dev c b d -> d_hardwired d = true -> hl_expand q = Some plugs ->
    In x plugs -> ~ In x (map fst (d_plugs d)) -> forall c', make_node hl_expand c a b (Some q) <> Ok c'.
  Proof.
    intros Fd HW Hp Ix Nx c' H. destruct (make_node_ok_first _ _ _ _ _ _ H Fd) as (nodes & plugs' & pl' & _ & F5 & F6 & _).
    cbn [expand_opt] in F5. rewrite Hp in F5. inversion F5; subst plugs'. cbn [line_result] in F6.
    apply map_nodes_plugs_ok in F6 as (_ & _ & _ & _ & _ & U & _). apply Nx, (U HW x Ix).
  Qed.

  (* doubly assigned plug: the plug already carries a node, or is named twice in the line *)
  Theorem refuse_taken_plug c a b q d plugs : first_dev c b d -> NoDup (map fst (d_plugs d)) -> hl_expand q = Some plugs ->
    (~ NoDup plugs \/ exists x n, In x plugs /\ In (x, Some n) (d_plugs d)) -> forall c', make_node hl_expand c a b (Some q) <> Ok c'.
  Proof.
    intros Fd ND Hp D c' H. destruct (make_node_ok_first _ _ _ _ _ _ H Fd) as (nodes & plugs' & pl' & _ & F5 & F6 & _).
    cbn [expand_opt] in F5. rewrite Hp in F5. inversion F5; subst plugs'. cbn [line_result] in F6.
    apply map_nodes_plugs_ok in F6 as (_ & _ & _ & _ & _ & _ & T). destruct (T ND) as [T1 T2].
    destruct D as [D|(x & n & Ix & Jx)]; [contradiction | apply (T2 x n Ix Jx)].
  Qed.

  (* hard-wired device without plug list: more nodes than free plugs *)
  Theorem refuse_no_free_plug c a b d nodes : first_dev c b d -> d_hardwired d = true -> hl_expand a = Some nodes ->
    (length (free_names (d_plugs d)) < length nodes)%nat -> forall c', make_node hl_expand c a b None <> Ok c'.
  Proof.
    intros Fd HW Hn L c' H. destruct (make_node_ok_first _ _ _ _ _ _ H Fd) as (nodes' & plugs' & pl' & F4 & F5 & F6 & _).
    rewrite Hn in F4. inversion F4; subst nodes'. cbn [expand_opt] in F5. inversion F5; subst plugs'.
    cbn [line_result] in F6. rewrite HW, map_nodes_noplugs_hard in F6.
    destruct (Nat.leb (length nodes) (length (free_names (d_plugs d)))) eqn:E; [apply Nat.leb_le in E; lia | discriminate F6].
  Qed.

  (* a device without hard-wired plugs, no plug list: a plug named like one of the nodes already exists *)
  Theorem refuse_same_name_taken c a b d nodes n : first_dev c b d -> d_hardwired d = false -> all_assigned (d_plugs d) ->
    NoDup (map fst (d_plugs d)) -> hl_expand a = Some nodes -> In n nodes -> In n (map fst (d_plugs d)) ->
    forall c', make_node hl_expand c a b None <> Ok c'.
  Proof.
    intros Fd HW AA ND Hn In1 In2 c' H. destruct (make_node_ok_first _ _ _ _ _ _ H Fd) as (nodes' & plugs' & pl' & F4 & F5 & F6 & _).
    rewrite Hn in F4. inversion F4; subst nodes'. cbn [expand_opt] in F5. inversion F5; subst plugs'.
    cbn [line_result] in F6. rewrite HW, map_nodes_noplugs_soft in F6.
    apply map_nodes_plugs_ok in F6 as (_ & _ & _ & _ & _ & _ & T). destruct (T ND) as [_ T2].
    apply in_map_iff in In2 as ([p v] & E & I). cbn [fst] in E. subst p. destruct v as [m|]; [apply (T2 n m In1 I)|].
    apply (AA _ I). reflexivity.
  Qed.

  (* _validate_config *)
  Theorem refuse_invalid c : (~ aliases_ok c \/ c_nodes c = []) -> validate c = fail c S_INVALID.
  Proof.
    intros D. unfold validate. destruct (forallb _ (c_aliases c) && _) eqn:V; [|reflexivity]. exfalso.
    assert (E : validate c = Ok c) by (unfold validate; rewrite V; reflexivity).
    apply validate_ok in E as (_ & A & N). destruct D; contradiction.
  Qed.

  (* an error of the line is the error of the whole load, whatever follows *)
  Theorem refuse_propagates lend n c a b q r s : make_node hl_expand c a b (Some q) = Exit 1 s ->
    parse_items lend (S n) c (node_toks a b (Some q) ++ r) = Exit 1 s.
  Proof. intros H. rewrite parse_items_node_some, H. reflexivity. Qed.
End Final.
