(* C05 at the level of the whole daemon, frame form: whatever one device does in its share of dev_post_poll - silence,
   garbage, floods, hang-ups, refused or flapping connections, time-outs - the callbacks it produces carry only the ids
   of clients that have an action queued on THAT device; so the record of every other client (protocol state, command,
   pending counter, buffers) is left exactly as it was by that device's step, as are the other devices (they are not
   touched at all) and every result list its queue does not refer to (C11_result_list_writes).  The only value shared
   between devices in a pass is the poll time-out, which a device can only lower (C05_tmo_independent). *)
From Coq Require Import List NArith ZArith Bool Lia.
From PM Require Import Base.Bytes Base.Outcome Gen.GenConsts Model.ScriptAst Model.Enqueue Model.Script Model.Device Model.Client Model.Daemon
                       Proofs.DeviceProofs Proofs.DeviceStmt Proofs.DeviceInv Proofs.DeviceInvG Proofs.DaemonLedger Proofs.DaemonFrame.
Import ListNotations.
Local Open Scope Z_scope.

Section F.
  Variable ranged_sorted : list text -> text.
  Variable rmatch : text -> text -> option pmatch.
  Variable compress : list text -> text.
  Variable sc : bool.

  (* the ids a device's callbacks of one pass can carry *)
  Lemma step_events_ids now d store tmo pin d' store' tmo' evs id :
    DInvG compress d -> tmo_pos tmo -> 0 <= dv_retry_count d ->
    post_poll_one rmatch compress sc now d store tmo pin = Ok (d', store', tmo', evs) ->
    ~ In id (queued d) -> existsb (ev_for id) evs = false.
  Proof.
    intros I Hp Hrc E Hq. pose proof (post_poll_one_inv_pre rmatch compress sc now d store tmo pin I Hp Hrc) as H. rewrite E in H.
    destruct H as [SP _]. pose proof (tg_fifo _ _ _ _ _ _ _ _ _ SP) as Hf. pose proof (tg_live _ _ _ _ _ _ _ _ _ SP) as Hl.
    destruct (existsb (ev_for id) evs) eqn:Ex; [|reflexivity]. exfalso. apply Hq.
    apply existsb_exists in Ex as (e & Hin & He). apply in_split in Hin as (e1 & e2 & ->).
    destruct e; try discriminate He; cbn [ev_for] in He; apply Z.eqb_eq in He; subst.
    - (* telemetry *) specialize (Hl e1 (EvTele id msg) e2 id eq_refl eq_refl). rewrite <- Hf. rewrite completions_app.
      apply in_app_or in Hl as [Hl|Hl]; apply in_or_app; [left; apply in_or_app; right; cbn [completions flat_map app]; exact Hl|right; exact Hl].
    - (* diagnostics *) specialize (Hl e1 (EvDiag id msg) e2 id eq_refl eq_refl). rewrite <- Hf. rewrite completions_app.
      apply in_app_or in Hl as [Hl|Hl]; apply in_or_app; [left; apply in_or_app; right; cbn [completions flat_map app]; exact Hl|right; exact Hl].
    - (* completion *) rewrite <- Hf. apply in_or_app. left. rewrite completions_app. apply in_or_app. right. cbn. now left.
  Qed.

  (* one device's step inside dev_loop: a client with nothing queued on the device keeps its record *)
  Theorem dev_step_client_frame now st i d pin tmo d' store' tmo' evs st1 st2 p x :
    nth_error (dm_devs st) i = Some d -> DInvG compress d -> tmo_pos tmo -> 0 <= dv_retry_count d ->
    post_poll_one rmatch compress sc now d (dm_store st) tmo pin = Ok (d', store', tmo', evs) ->
    dm_clients st1 = dm_clients st ->
    route_all ranged_sorted st1 evs = Ok st2 ->
    nth_error (dm_clients st) p = Some x -> ~ In (cid x) (queued d) ->
    nth_error (dm_clients st2) p = Some x.
  Proof.
    intros En I Hp Hrc E Hc Hr Hx Hq.
    eapply route_all_frame; [exact Hr|rewrite Hc; exact Hx|]. eapply step_events_ids; eauto.
  Qed.
End F.
