(* C16: elementary facts about the helpers of Model/LibPm.v *)
From Coq Require Import List NArith ZArith Bool Lia.
From PM Require Import Base.Bytes Base.Outcome Gen.GenConsts Gen.GenLibPm Model.LibPm Spec.ReplySpec.
Import ListNotations.
Local Open Scope Z_scope.

Lemma frev_rev {A} (l : list A) : frev l = rev l.
Proof. unfold frev. symmetry. apply rev_alt. Qed.

Lemma zlen_length t : zlen t = Z.of_nat (length t).
Proof. induction t as [|c t IH]; cbn [zlen length]; [reflexivity|]. rewrite IH. lia. Qed.

Lemma zlen_nonneg t : 0 <= zlen t.
Proof. rewrite zlen_length. lia. Qed.

Lemma zlen_app a b : zlen (a ++ b) = zlen a + zlen b.
Proof. rewrite !zlen_length, app_length. lia. Qed.

Lemma zlen_rev a : zlen (rev a) = zlen a.
Proof. rewrite !zlen_length, rev_length. reflexivity. Qed.

Lemma zlen_cons c a : zlen (c :: a) = 1 + zlen a.
Proof. reflexivity. Qed.

Lemma take_all n t : zlen t <= n -> take n t = t.
Proof.
  revert n. induction t as [|c t IH]; intros n H; cbn [take]; [reflexivity|].
  rewrite zlen_cons in H. pose proof (zlen_nonneg t).
  destruct (n <=? 0) eqn:E; [lia|]. f_equal. apply IH. lia.
Qed.

Lemma beq_eq a b : beq a b = true <-> a = b.
Proof. unfold beq. apply N.eqb_eq. Qed.

Lemma beq_neq a b : beq a b = false <-> a <> b.
Proof. unfold beq. apply N.eqb_neq. Qed.

Lemma beq_refl a : beq a a = true.
Proof. apply beq_eq. reflexivity. Qed.

(* ------------------------------------------------------------------ C strings *)
Lemma cstr_no_nul t : no_nul t -> cstr t = t.
Proof.
  unfold no_nul. induction t as [|c t IH]; intros H; cbn [cstr]; [reflexivity|].
  destruct (beq c NUL) eqn:E.
  - apply beq_eq in E. exfalso. apply H. left. auto.
  - f_equal. apply IH. intros I. apply H. right. exact I.
Qed.

Lemma cstr_app_no_nul a b : no_nul a -> cstr (a ++ b) = a ++ cstr b.
Proof.
  unfold no_nul. induction a as [|c a IH]; intros H; cbn [cstr app]; [reflexivity|].
  destruct (beq c NUL) eqn:E.
  - apply beq_eq in E. exfalso. apply H. left. auto.
  - f_equal. apply IH. intros I. apply H. right. exact I.
Qed.

Lemma cstr_len t : zlen (cstr t) <= zlen t.
Proof.
  induction t as [|c t IH]; cbn [cstr]; [lia|]. destruct (beq c NUL); rewrite ?zlen_cons; cbn [zlen]; pose proof (zlen_nonneg t); lia.
Qed.

Lemma cstr_is_no_nul t : no_nul (cstr t).
Proof.
  unfold no_nul. induction t as [|c t IH]; cbn [cstr]; [auto|].
  destruct (beq c NUL) eqn:E; [auto|]. intros [H|H]; [|auto]. apply beq_neq in E. congruence.
Qed.

Lemma clean_no_nul l : clean l -> no_nul l.
Proof.
  unfold clean, no_nul. intros H I. rewrite Forall_forall in H. apply H in I. destruct I as (_ & _ & I). congruence.
Qed.

Lemma no_nul_app a b : no_nul a -> no_nul b -> no_nul (a ++ b).
Proof. unfold no_nul. intros Ha Hb I. apply in_app_or in I. tauto. Qed.

(* ------------------------------------------------------------------ no_crlf *)
Lemma no_crlf_tail c l : no_crlf (c :: l) -> no_crlf l.
Proof. intros H a b E. apply (H (c :: a) b). rewrite E. reflexivity. Qed.

Lemma no_crlf_head c d l : no_crlf (c :: d :: l) -> ~ (c = CR /\ d = LF).
Proof. intros H [-> ->]. apply (H [] l). reflexivity. Qed.

Lemma no_cr_lf_no_crlf l : Forall (fun c => c <> LF) l -> no_crlf l.
Proof.
  intros H a b E. rewrite E in H. apply Forall_app in H as [_ H]. inversion H as [|? ? _ H2]; subst.
  inversion H2; subst. congruence.
Qed.

Lemma clean_no_crlf l : clean l -> no_crlf l.
Proof.
  intros H. apply no_cr_lf_no_crlf. eapply Forall_impl; [|exact H]. intros c (_ & Hc & _). exact Hc.
Qed.

(* ------------------------------------------------------------------ ends_with *)
Lemma ends_with_refl s : ends_with s s.
Proof. exists []. reflexivity. Qed.

Lemma ends_with_app a s p : ends_with s p -> ends_with (a ++ s) p.
Proof. intros [x ->]. exists (a ++ x). now rewrite app_assoc. Qed.

(* a == b ++ p decided on the reversed strings *)
Lemma is_prefix_rev_ends_with s p : is_prefix (rev p) (rev s) = true <-> ends_with s p.
Proof.
  rewrite is_prefix_spec. split.
  - intros [r H]. exists (rev r). apply (f_equal (@rev byte)) in H. rewrite rev_involutive, rev_app_distr, rev_involutive in H. exact H.
  - intros [a ->]. exists (rev a). now rewrite rev_app_distr.
Qed.

Lemma poe_go_sound s : forall pre_rev,
  poe_go pre_rev s = true ->
  forall p q, s = p ++ q -> q <> [] -> ~ ends_with (rev pre_rev ++ p) CP_PROMPT.
Proof.
  induction s as [|c s IH]; intros pre H p q E Hq.
  - destruct p; destruct q; try discriminate. congruence.
  - cbn [poe_go] in H. apply andb_true_iff in H as [H1 H2].
    destruct p as [|x p].
    + rewrite app_nil_r. intros W. apply is_prefix_rev_ends_with in W. rewrite rev_involutive in W. rewrite W in H1. discriminate.
    + cbn [app] in E. inversion E; subst x. specialize (IH (c :: pre) H2 p q H3 Hq).
      cbn [rev] in IH. rewrite <- app_assoc in IH. exact IH.
Qed.

Lemma prompt_only_at_end_b_sound s : prompt_only_at_end_b s = true -> prompt_only_at_end s.
Proof. intros H p q E Hq. apply (poe_go_sound s [] H p q E Hq). Qed.

(* ------------------------------------------------------------------ assoc / memz *)
Lemma assoc_in k v l : assoc k l = Some v -> In (k, v) l.
Proof.
  induction l as [|[a b] l IH]; cbn [assoc]; [discriminate|].
  destruct (a =? k) eqn:E; intros H.
  - apply Z.eqb_eq in E. inversion H; subst. left. reflexivity.
  - right. auto.
Qed.

Lemma memz_in k l : memz k l = true <-> In k l.
Proof.
  induction l as [|a l IH]; cbn [memz In]; [split; [discriminate|tauto]|].
  rewrite orb_true_iff, Z.eqb_eq, IH. tauto.
Qed.

Lemma app_eq_len {A} (a c b d : list A) : length a = length c -> a ++ b = c ++ d -> a = c /\ b = d.
Proof.
  revert c. induction a as [|x a IH]; intros [|y c] L E; cbn in *; try discriminate; auto.
  inversion E; subst. destruct (IH c) as [-> ->]; auto.
Qed.
