(* C03, end to end over histories: WHOSE expect the reported states stem from (the gap C03_end_to_end_reported left open).

   The ghost of Proofs/DeviceWritesExpect.v - per device, "the sub-matches the device holds were set by this successful expect of the
   action now at the head of the queue, in its current run" - is threaded along a run of Model/Daemon.v next to the report ledger
   of Proofs/DaemonE2EWrites.v, by functions that only CALL the model (dl_x walks dev_loop one device at a time exactly as
   dl_reports does; the client half leaves the ghosts alone: it only appends actions behind the queues).  Proved, by induction over
   ANY run from `boot` whose devices' scripts pass the static check DeviceWritesExpect.own_ok (true of every shipped specification:
   shipped_own_ok, a sweep over the regenerated Gen/GenSpecs.v; implied by C17's spec_ok: spec_ok_own_ok):

     the extended ledger holds the SAME write events, in the same order, as the report ledger of C03_end_to_end_reported, and every
     event is paired with Some pv: a successful expect of the SAME action (pv carries the event's client id and result list), whose
     sub-matches are the ones the event's setplugstate / setresult statement read (XGood). *)
From Coq Require Import List NArith ZArith Bool Lia Permutation.
From PM Require Import Base.Bytes Base.Outcome Gen.GenConsts Gen.GenClient Model.ScriptAst Model.Enqueue Model.Script Model.Device Model.DevHarness
                       Model.Client Model.CliWorld Model.Daemon Spec.Proto
                       Proofs.ClientProofs Proofs.ClientProto Proofs.ClientStream Proofs.ClientStreamQ Proofs.DeviceInv Proofs.DeviceRun Proofs.DeviceInvG
                       Proofs.DeviceRunG Proofs.DeviceHang Proofs.DeviceSlots Proofs.DaemonLedger Proofs.DaemonFrame Proofs.DaemonSlots Proofs.DaemonPending
                       Proofs.DaemonE2E Proofs.DeviceWrites Proofs.DaemonE2EWrites Proofs.DeviceWritesExpect.
From PM Require Proofs.ClientReply Model.Telnet.
Import ListNotations.
Local Open Scope Z_scope.

Lemma Forall2_nth {A B} (R : A -> B -> Prop) : forall l1 l2 i b, Forall2 R l1 l2 -> nth_error l2 i = Some b ->
  exists a, nth_error l1 i = Some a /\ R a b.
Proof.
  induction l1 as [|x r IH]; intros l2 i b H Hn; inversion H; subst; [destruct i; discriminate|].
  destruct i as [|i]; cbn [nth_error] in *; [injection Hn as <-; eauto|eauto].
Qed.
Lemma Forall2_upd {A B} (R : A -> B -> Prop) : forall l1 l2 i a b, Forall2 R l1 l2 -> R a b ->
  Forall2 R (upd_nth l1 i (fun _ => a)) (upd_nth l2 i (fun _ => b)).
Proof.
  induction l1 as [|x r IH]; intros l2 i a b H Hab; inversion H; subst; [destruct i; constructor|].
  destruct i as [|i]; cbn [upd_nth]; constructor; auto.
Qed.
Lemma nth_of_nth_error_opt {A} (l : list A) i a d : nth_error l i = Some a -> nth i l d = a.
Proof. intros H. exact (nth_error_nth _ _ d H). Qed.

Section D.
  Variable expand_str : text -> option (list text).
  Variable ranged_sorted : list text -> text.
  Variable ranged_plain : list text -> text.
  Variable sorted : list text -> list text.
  Variable rmatch : text -> text -> option pmatch.
  Variable compress : list text -> text.
  Variable short_circuit : bool.

  Notation parse := (parse_input expand_str ranged_sorted ranged_plain sorted).
  Notation handle_input := (handle_input expand_str ranged_sorted ranged_plain sorted).
  Notation cli_one := (cli_one expand_str ranged_sorted ranged_plain sorted).
  Notation cli_loop := (cli_loop expand_str ranged_sorted ranged_plain sorted).
  Notation cli_post_poll := (cli_post_poll expand_str ranged_sorted ranged_plain sorted).
  Notation dev_loop := (dev_loop ranged_sorted rmatch compress short_circuit).
  Notation dstep := (dstep expand_str ranged_sorted ranged_plain sorted rmatch compress short_circuit).
  Notation drun := (drun expand_str ranged_sorted ranged_plain sorted rmatch compress short_circuit).
  Notation DPInv := (DPInv compress).
  Notation EInv := (EInv compress).
  Notation XI := (XI rmatch).
  Notation XGood := (XGood rmatch).
  Notation pp_x := (pp_x rmatch compress short_circuit).
  Notation dl_reports := (dl_reports ranged_sorted rmatch compress short_circuit).
  Notation dstep_rep := (dstep_rep expand_str ranged_sorted ranged_plain sorted rmatch compress short_circuit).
  Notation drun_rep := (drun_rep expand_str ranged_sorted ranged_plain sorted rmatch compress short_circuit).
  Notation dstep_led := (dstep_led expand_str ranged_sorted ranged_plain sorted rmatch compress short_circuit).

  (* ---------------------------------------------------------------- the client half leaves the ghosts alone *)
  Definition XDevs (G : list (option xprov)) (devs : list device) : Prop := Forall2 XI G devs.

  Lemma fold_append_err {E} (f : outcome device -> E -> outcome device) (Hf : forall o e, (forall x, o <> Ok x) -> forall x, f o e <> Ok x) :
    forall l o, (forall x, o <> Ok x) -> forall x, fold_left f l o <> Ok x.
  Proof. induction l as [|e r IH]; intros o Ho x; cbn [fold_left]; [apply Ho|]. apply IH. now apply Hf. Qed.

  Lemma fold_append_X g client tele args : forall acts d d', XI g d ->
    fold_left (fun od a => match od with Ok x => append_client_action x a client tele args | e => e end) acts (Ok d) = Ok d' -> XI g d'.
  Proof.
    induction acts as [|a r IH]; intros d d' Hx; cbn [fold_left]; [intros H; injection H as <-; exact Hx|].
    destruct (append_client_action d a client tele args) as [d1| | | |] eqn:Ea.
    - apply IH. exact (append_X rmatch g d a client tele args d1 Hx Ea).
    - intros H. exfalso. revert H. apply fold_append_err; [|discriminate]. intros o e Ho x. destruct o; [exfalso; exact (Ho _ eq_refl)|discriminate..].
    - intros H. exfalso. revert H. apply fold_append_err; [|discriminate]. intros o e Ho x. destruct o; [exfalso; exact (Ho _ eq_refl)|discriminate..].
    - intros H. exfalso. revert H. apply fold_append_err; [|discriminate]. intros o e Ho x. destruct o; [exfalso; exact (Ho _ eq_refl)|discriminate..].
    - intros H. exfalso. revert H. apply fold_append_err; [|discriminate]. intros o e Ho x. destruct o; [exfalso; exact (Ho _ eq_refl)|discriminate..].
  Qed.

  Lemma enq_all_X client tele args : forall devs q G devs', XDevs G devs -> enq_all devs q client tele args = Ok devs' -> XDevs G devs'.
  Proof.
    induction devs as [|d r IH]; intros q G devs' Hx; cbn [enq_all]; [intros H; injection H as <-; exact Hx|].
    destruct q as [|[nm acts] qr]; [intros H; injection H as <-; exact Hx|].
    inversion Hx as [|g ? G' ? Hg Hr]; subst.
    destruct (fold_left _ acts (Ok d)) as [d1| | | |] eqn:Ef; try discriminate.
    pose proof (fold_append_X g client tele args acts d d1 Hg Ef) as H1.
    destruct (enq_all r qr client tele args) as [r'| | | |] eqn:Er; try discriminate.
    intros H; injection H as <-. constructor; [|exact (IH _ _ _ Hr Er)].
    destruct acts; [exact H1|apply expedite_X; exact H1].
  Qed.

  Lemma handle_input_X G fuel : forall st i acc st' evs, handle_input fuel st i acc = Ok (st', evs) -> XDevs G (dm_devs st) -> XDevs G (dm_devs st').
  Proof.
    induction fuel as [|f IH]; intros st i acc st' evs; cbn [Daemon.handle_input]; [intros H; injection H as <- _; auto|].
    destruct (nth_error (dm_clients st) i) as [x|]; [|intros H; injection H as <- _; auto].
    destruct (take_line [] (dc_from x)) as [[line rest]|]; [|intros H; injection H as <- _; auto].
    destruct (parse (cconf_of st) (dm_store st) (dc x) line) as [[[cf' store'] c'] q].
    match goal with |- match ?e with _ => _ end = _ -> _ => destruct e as [devs'| | | |] eqn:Ee; try discriminate end.
    intros H Hx. apply (IH _ _ _ _ _ H). cbn [dm_devs].
    destruct q as [|q0 qr]; [injection Ee as <-; exact Hx|exact (enq_all_X _ _ _ _ _ _ _ Hx Ee)].
  Qed.

  Lemma cli_one_X G st i ci st' evs dead : cli_one st i ci = Ok (st', evs, dead) -> XDevs G (dm_devs st) -> XDevs G (dm_devs st').
  Proof.
    rewrite (cli_one_eq expand_str ranged_sorted ranged_plain sorted).
    destruct (nth_error (dm_clients st) i) as [x|]; [|intros H; injection H as <- _ _; auto].
    destruct (ci_bad ci); [intros H; injection H as <- _ _; auto|]. cbv zeta.
    match goal with |- match ?e with _ => _ end = _ -> _ => destruct e as [[st2 evs2]| | | |] eqn:Eh; try discriminate end.
    intros H; injection H as <- _ _. intros Hx. exact (handle_input_X G _ _ _ _ _ _ Eh Hx).
  Qed.

  Lemma cli_loop_X G : forall cins st i acc st' evs, cli_loop st i cins acc = Ok (st', evs) -> XDevs G (dm_devs st) -> XDevs G (dm_devs st').
  Proof.
    induction cins as [|ci r IH]; intros st i acc st' evs; cbn [Daemon.cli_loop]; [intros H; injection H as <- _; auto|].
    destruct (cli_one st i ci) as [[[st1 evs1] dead]| | | |] eqn:E1; try discriminate.
    destruct dead; intros H Hx; apply (IH _ _ _ _ _ H); exact (cli_one_X G _ _ _ _ _ _ E1 Hx).
  Qed.

  Lemma cli_post_poll_X G st r sta e1 : cli_post_poll st r = Ok (sta, e1) -> XDevs G (dm_devs st) -> XDevs G (dm_devs sta).
  Proof.
    rewrite (cli_post_poll_eq expand_str ranged_sorted ranged_plain sorted). intros H Hx. apply (cli_loop_X G _ _ _ _ _ _ H).
    unfold accept_state. destruct (r_accept r); [destruct (next_id (dm_seq st))|]; exact Hx.
  Qed.

  (* ---------------------------------------------------------------- the device half *)
  (* the extended events of dev_post_poll from device i on, and the ghosts afterwards (cf. DaemonE2EWrites.dl_reports) *)
  Fixpoint dl_x (n : nat) (now : Z) (st : daemon) (i : nat) (pins : list passin) (tmo : option Z) (G : list (option xprov))
    : list xrep * list (option xprov) :=
    match n with
    | O => ([], G)
    | S n' =>
      match nth_error (dm_devs st) i with
      | None => ([], G)
      | Some d =>
        let x1 := pp_x now d (dm_store st) tmo (fst (with_pre (nth i (dm_pipe st) true) (nth i (dm_tel st) Telnet.telnet_init) (hd passin0 pins)))
                       (nth i G None) in
        let G1 := upd_nth G i (fun _ => snd x1) in
        match dev_loop 1 now st i pins tmo [] with
        | Ok (st2, tmo', _) => let x2 := dl_x n' now st2 (S i) (tl pins) tmo' G1 in (fst x1 ++ fst x2, snd x2)
        | _ => (fst x1, G1)
        end
      end
    end.

  Lemma dl_x_inv n : forall now st i pins tmo acc G, DPInv st -> tmo_pos tmo -> XDevs G (dm_devs st) ->
    match dev_loop n now st i pins tmo acc with
    | Ok (st', _, _) =>
        XDevs (snd (dl_x n now st i pins tmo G)) (dm_devs st') /\ Forall XGood (fst (dl_x n now st i pins tmo G)) /\
        map fst (fst (dl_x n now st i pins tmo G)) = dl_reports n now st i pins tmo
    | _ => False
    end.
  Proof.
    induction n as [|n IH]; intros now st i pins tmo acc G I Hp Hx.
    - cbn [Daemon.dev_loop dl_x DaemonE2EWrites.dl_reports fst snd map]. split; [exact Hx|split; [constructor|reflexivity]].
    - pose proof (dev_loop_inv expand_str ranged_sorted ranged_plain sorted rmatch compress short_circuit 1 now st i pins tmo acc I Hp) as H1.
      pose proof (dev_loop_inv expand_str ranged_sorted ranged_plain sorted rmatch compress short_circuit 1 now st i pins tmo [] I Hp) as H0.
      cbn [Daemon.dev_loop dl_x DaemonE2EWrites.dl_reports] in H1, H0 |- *.
      destruct (nth_error (dm_devs st) i) as [d|] eqn:En; [|cbn [fst snd map]; split; [exact Hx|split; [constructor|reflexivity]]].
      destruct (with_pre (nth i (dm_pipe st) true) (nth i (dm_tel st) Telnet.telnet_init) (hd passin0 pins)) as [pin t1]. cbn [fst].
      assert (HdH : DInvH compress d) by (pose proof (dp_devs _ _ I) as H; rewrite Forall_forall in H; apply H; eapply nth_error_In; exact En).
      destruct (post_poll_one_invH rmatch compress short_circuit now d (dm_store st) tmo pin HdH Hp) as (d' & store' & tmo' & evs & EP & _ & _ & _).
      destruct (Forall2_nth _ _ _ _ _ Hx En) as (g & Hg & Xg). rewrite (nth_of_nth_error_opt _ _ _ None Hg).
      destruct (pp_x_inv rmatch compress short_circuit now d (dm_store st) tmo pin g d' store' tmo' evs Xg EP) as (X1 & G1 & M1).
      rewrite EP in H1, H0 |- *.
      match goal with |- context [route_all ranged_sorted ?s evs] => set (st1 := s) in * end.
      destruct (route_all ranged_sorted st1 evs) as [st2| | | |] eqn:E2; try contradiction.
      destruct (route_all_ids ranged_sorted evs st1 st2 E2) as (_ & A2 & _ & _).
      destruct H1 as (I2 & T2 & _).
      assert (Hx2 : XDevs (upd_nth G i (fun _ => snd (pp_x now d (dm_store st) tmo pin g))) (dm_devs st2)).
      { rewrite A2. unfold st1. cbn [dm_devs]. apply Forall2_upd; [exact Hx|exact X1]. }
      specialize (IH now st2 (S i) (tl pins) tmo' (acc ++ map (SysDev i) evs) _ I2 T2 Hx2).
      destruct (dev_loop n now st2 (S i) (tl pins) tmo' (acc ++ map (SysDev i) evs)) as [[[st3 tmo3] evs3]| | | |]; try contradiction.
      destruct IH as (X3 & G3 & M3). cbn [fst snd].
      split; [exact X3|]. split; [apply Forall_app; split; assumption|]. rewrite map_app. f_equal; assumption.
  Qed.

  (* ---------------------------------------------------------------- the extended ledger along a run *)
  Definition xstate : Type := (list xrep * list (option xprov))%type.
  Definition dstep_x (st : daemon) (r : round) (X : xstate) : xstate :=
    match cli_post_poll st r with
    | Ok (sta, _) => let x := dl_x (length (dm_devs sta)) (r_now r) sta O (r_dev r) None (snd X) in (fst X ++ fst x, snd x)
    | _ => X
    end.
  Fixpoint drun_x (st : daemon) (rs : list round) (X : xstate) : xstate :=
    match rs with
    | [] => X
    | r :: rest => match dstep st r with Ok (st1, _) => drun_x st1 rest (dstep_x st r X) | _ => X end
    end.

  (* the ghosts fit the devices; the extended ledger is the report ledger R with a good ghost on every event *)
  Definition XRun (X : xstate) (R : list report) (st : daemon) : Prop :=
    XDevs (snd X) (dm_devs st) /\ Forall XGood (fst X) /\ map fst (fst X) = R.

  Lemma pass_x st r L X R : EInv L st -> 1 <= dm_seq st < INT_MAX -> XRun X R st ->
    match dstep st r with
    | Ok (stb, _) => XRun (dstep_x st r X) (dstep_rep st r R) stb
    | _ => False
    end.
  Proof.
    intros E Hseq (Hx & Hg & Hm).
    destruct (pass_e2e expand_str ranged_sorted ranged_plain sorted rmatch compress short_circuit st r L E Hseq)
      as (sta & e1 & stb & tmo & e2 & Ea & Eb & Es & _ & _ & Ia & _).
    rewrite Es. unfold dstep_x, DaemonE2EWrites.dstep_rep, pass_reports. rewrite Ea.
    assert (Hn : tmo_pos None) by (intros x Hx0; discriminate).
    pose proof (dl_x_inv (length (dm_devs sta)) (r_now r) sta 0%nat (r_dev r) None [] (snd X) Ia Hn (cli_post_poll_X _ _ _ _ _ Ea Hx)) as Hd.
    rewrite Eb in Hd. destruct Hd as (X1 & G1 & M1). cbv zeta. unfold XRun. cbn [fst snd].
    split; [exact X1|]. split; [apply Forall_app; split; assumption|]. rewrite map_app. f_equal; assumption.
  Qed.

  Lemma drun_x_inv : forall rs st L X R acc, EInv L st -> 1 <= dm_seq st -> dm_seq st + Z.of_nat (length rs) <= INT_MAX -> XRun X R st ->
    match drun st rs acc with
    | Ok (st', _) => XRun (drun_x st rs X) (drun_rep st rs R) st'
    | _ => False
    end.
  Proof.
    induction rs as [|r rs IH]; intros st L X R acc E H1 Hn Hx; cbn [Daemon.drun drun_x DaemonE2EWrites.drun_rep]; [exact Hx|].
    cbn [length] in Hn.
    pose proof (pass_x st r L X R E ltac:(lia) Hx) as Hp.
    destruct (pass_e2e expand_str ranged_sorted ranged_plain sorted rmatch compress short_circuit st r L E ltac:(lia))
      as (sta & e1 & stb & tmo & e2 & Ea & _ & Es & _ & _ & _ & Eb & Sb & _ & _).
    rewrite Es in Hp |- *.
    exact (IH stb (dstep_led st r L) _ _ (acc ++ [mkDout (e1 ++ e2) tmo]) Eb ltac:(lia) ltac:(lia) Hp).
  Qed.

  (* ---------------------------------------------------------------- start-up *)
  Lemma init_loop_X now : forall devs plans i devs' evs,
    Forall (fun d => own_ok (dv_scripts d) = true /\ dv_acts d = []) devs ->
    init_loop now devs plans i = Ok (devs', evs) -> XDevs (map (fun _ => None) devs') devs'.
  Proof.
    induction devs as [|d r IH]; intros plans i devs' evs H; cbn [init_loop]; [intros E; injection E as <- _; constructor|].
    inversion H as [|? ? (Ho & Ha) Hr]; subst.
    destruct (connect now d (hd [] plans)) as [[[d1 ev1] pl]| | | |] eqn:Ec; try discriminate.
    destruct (init_loop now r (tl plans) (S i)) as [[r' ev2]| | | |] eqn:Er; try discriminate.
    intros E; injection E as <- _. cbn [map]. constructor; [|exact (IH _ _ _ _ Hr Er)].
    exact (connect_XI rmatch now d (hd [] plans) d1 ev1 pl (XI_boot d Ho Ha) Ec).
  Qed.

  (* the scripts of every configured device pass the static check *)
  Definition own_conf (st : daemon) : Prop := Forall (fun d => own_ok (dv_scripts d) = true) (dm_devs st).

  Lemma dinit_X st0 now plans st1 o1 : boot compress st0 -> own_conf st0 -> dinit st0 now plans = Ok (st1, o1) ->
    XDevs (map (fun _ => None) (dm_devs st1)) (dm_devs st1).
  Proof.
    intros (_ & _ & Hb) Ho. unfold dinit. destruct (init_loop now (dm_devs st0) plans 0) as [[devs evs]| | | |] eqn:Ei; try discriminate.
    intros H; injection H as <- _. cbn [dm_devs]. refine (init_loop_X now (dm_devs st0) plans 0%nat devs evs _ Ei).
    unfold own_conf in Ho. rewrite Forall_forall in *. intros d Hd. split; [exact (Ho d Hd)|]. exact (proj2 (proj2 (proj2 (Hb d Hd)))).
  Qed.

  (* ---------------------------------------------------------------- the closed statement (quoted by Properties/C03.v) *)
  Theorem c03_reported_by_own_expect st0 now plans rs r : boot compress st0 -> own_conf st0 -> Z.of_nat (length rs) < INT_MAX - 1 ->
    exists st1 o1, dinit st0 now plans = Ok (st1, o1) /\
      match drun st1 rs [] with
      | Ok (st, _) =>
        match dstep st r with
        | Ok (stb, _) =>
            let X := drun_x st1 rs ([], map (fun _ => None) (dm_devs st1)) in
            let Xb := dstep_x st r X in
            map fst (fst Xb) = dstep_rep st r (drun_rep st1 rs []) /\ Forall XGood (fst Xb)
        | _ => False
        end
      | _ => False
      end.
  Proof.
    intros Hb Ho Hn. destruct (boot_e2e compress st0 now plans Hb) as (st1 & o1 & E1 & I1 & S1). exists st1, o1. split; [exact E1|].
    pose proof (dinit_X st0 now plans st1 o1 Hb Ho E1) as X0.
    pose proof (drun_e2e expand_str ranged_sorted ranged_plain sorted rmatch compress short_circuit rs st1 lzero [] I1 ltac:(lia) ltac:(rewrite S1; unfold INT_MAX in *; lia)) as Hr.
    pose proof (drun_x_inv rs st1 lzero ([], map (fun _ => None) (dm_devs st1)) [] [] I1 ltac:(lia) ltac:(rewrite S1; unfold INT_MAX in *; lia)
                  (conj X0 (conj (Forall_nil _) eq_refl))) as Hx.
    destruct (drun st1 rs []) as [[st outs]| | | |]; try contradiction. destruct Hr as (E & Hs).
    assert (Hseq : 1 <= dm_seq st < INT_MAX) by (unfold INT_MAX in *; lia).
    pose proof (pass_x st r _ _ _ E Hseq Hx) as Hp.
    destruct (dstep st r) as [[stb o]| | | |]; try contradiction. cbv zeta. destruct Hp as (_ & Hg & Hm). split; assumption.
  Qed.

  (* the same with XGood spelled out *)
  Theorem c03_reported_by_own_expect_spelled st0 now plans rs r : boot compress st0 -> own_conf st0 -> Z.of_nat (length rs) < INT_MAX - 1 ->
    exists st1 o1, dinit st0 now plans = Ok (st1, o1) /\
      match drun st1 rs [] with
      | Ok (st, _) =>
        match dstep st r with
        | Ok (stb, _) =>
            let Rb := dstep_rep st r (drun_rep st1 rs []) in
            let Xb := dstep_x st r (drun_x st1 rs ([], map (fun _ => None) (dm_devs st1))) in
            map fst (fst Xb) = Rb /\
            forall w og, In (w, og) (fst Xb) ->
              exists pv, og = Some pv /\ xp_client pv = rp_client w /\ xp_slot pv = Some (rp_slot w) /\
                (xp_buf pv <> [] /\ rmatch (xp_re pv) (nul_to_ff (xp_buf pv)) = Some (xp_pm pv)) /\
                exists sdk ak storek, stmt_reports rmatch sdk ak storek w /\
                  ScriptRefine.model_xm sdk = Some (nul_to_ff (xp_buf pv), xp_pm pv) /\ a_com ak = xp_com pv
        | _ => False
        end
      | _ => False
      end.
  Proof.
    intros Hb Ho Hn. destruct (c03_reported_by_own_expect st0 now plans rs r Hb Ho Hn) as (st1 & o1 & E1 & H). exists st1, o1. split; [exact E1|].
    destruct (drun st1 rs []) as [[st outs]| | | |]; try contradiction. destruct (dstep st r) as [[stb o]| | | |]; try contradiction.
    cbv zeta in *. destruct H as [Hm Hg]. split; [exact Hm|]. intros w og Hin. rewrite Forall_forall in Hg. exact (Hg (w, og) Hin).
  Qed.
End D.
