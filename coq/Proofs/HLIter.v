(* C14: a fresh (or reset) iterator yields exactly the expansion, in order (hostlist_next) *)
From Coq Require Import List Arith NArith ZArith Lia Bool.
From PM Require Import Base.Bytes Base.Outcome Gen.GenHL Model.HL Spec.HLSpec Proofs.HLArith Proofs.HLProofs Proofs.HLIndex.
From Coq Require Import ZifyBool ZifyNat ZifyN.
Import ListNotations.
Local Open Scope N_scope.
Ltac Zify.zify_post_hook ::= Z.div_mod_to_equations.

(* the two halves of hostlist_next: advance, then format *)
Definition stage1 (h : hostlist) (it : iter) : outcome iter :=
  let nr := Z.of_nat (length h) in
  if (nr - 1 <? it_idx it)%Z then Ok it
  else if it_stale it then MemErr site_iter_null
  else match nth_error h (Z.to_nat (it_idx it)) with
       | None => MemErr site_iter_null
       | Some r => let d := (it_depth it + 1)%Z in
                   if sub64 (hr_hi r) (hr_lo r) <? wrap64 d
                   then Ok {| it_idx := it_idx it + 1; it_depth := 0; it_stale := false |}
                   else Ok {| it_idx := it_idx it; it_depth := d; it_stale := false |}
       end.

Definition stage2 (h : hostlist) (a : iter) : outcome (iter * option text) :=
  let nr := Z.of_nat (length h) in
  if (nr - 1 <? it_idx a)%Z then Ok (a, None)
  else if GenHL.NEXT_SUFFIX_SIZE <? GenHL.NEXT_SUFFIX_LIMIT then MemErr site_next_suffix
  else match nth_error h (Z.to_nat (it_idx a)) with
       | None => MemErr site_iter_null
       | Some r =>
         let suffix := if hr_single r then []
                       else firstn (N.to_nat GenHL.NEXT_SUFFIX_LIMIT - 1)
                                   (pad (hr_width r) (add64 (hr_lo r) (wrap64 (it_depth a)))) in
         Ok (a, Some (hr_prefix r ++ suffix))
       end.

Lemma iter_next_unfold h it : iter_next h it = bind (stage1 h it) (stage2 h).
Proof. reflexivity. Qed.

Definition at_pos (pre : hostlist) (d : Z) : iter := {| it_idx := Z.of_nat (length pre); it_depth := d; it_stale := false |}.

(* the printed number fits hostlist_next's suffix[16] (snprintf limit NEXT_SUFFIX_LIMIT = 15: at most 14 digits) *)
Definition iter_ok (r : hrange) : Prop :=
  hr_single r = false -> (Nat.max (hr_width r) (ndigits (hr_hi r)) <= N.to_nat GenHL.NEXT_SUFFIX_LIMIT - 1)%nat.

Lemma NEXT_consts : (GenHL.NEXT_SUFFIX_SIZE <? GenHL.NEXT_SUFFIX_LIMIT) = false.
Proof. reflexivity. Qed.

Lemma nth_error_mid {A} (pre : list A) r rest : nth_error (pre ++ r :: rest) (length pre) = Some r.
Proof. rewrite nth_error_app2 by lia. now rewrite Nat.sub_diag. Qed.

Lemma names_count r : wf_range r -> (1 <= length (names r))%nat /\
  (hr_single r = false -> length (names r) = N.to_nat (hr_hi r + 1 - hr_lo r) /\ hr_lo r <= hr_hi r /\ hr_hi r < ULONG_MAX)
  /\ (hr_single r = true -> length (names r) = 1%nat /\ hr_lo r = 0 /\ hr_hi r = 0).
Proof.
  intros Hwf. rewrite names_length by assumption. unfold wf_range, rcount in *.
  destruct (hr_single r); (split; [lia|]); split; intros; try discriminate; auto; lia.
Qed.

Lemma stage2_at pre r rest d : wf_range r -> iter_ok r -> (0 <= d)%Z -> (Z.to_nat d < length (names r))%nat ->
  stage2 (pre ++ r :: rest) (at_pos pre d) = Ok (at_pos pre d, nth_error (names r) (Z.to_nat d)).
Proof.
  intros Hwf Hok Hd Hlt. unfold stage2, at_pos. cbn [it_idx it_depth].
  destruct (Z.ltb_spec (Z.of_nat (length (pre ++ r :: rest)) - 1) (Z.of_nat (length pre))) as [Hc|_].
  { rewrite app_length in Hc. cbn [length] in Hc. lia. }
  rewrite NEXT_consts, Nat2Z.id, nth_error_mid.
  rewrite (names_nth r (Z.to_nat d) Hwf Hlt). do 3 f_equal. f_equal.
  destruct (names_count r Hwf) as (_ & Hns & _).
  destruct (hr_single r) eqn:Es; [reflexivity|].
  destruct (Hns eq_refl) as (Hlen & Hlo & Hhi). unfold ULONG_MAX in Hhi.
  rewrite wrap64_small by lia. rewrite add64_small by (unfold W64; lia).
  replace (Z.to_N d) with (N.of_nat (Z.to_nat d)) by lia.
  apply firstn_all2.
  assert (Hf : fits (hr_lo r + N.of_nat (Z.to_nat d))) by (apply W64_fits; unfold W64; lia).
  rewrite pad_len by assumption.
  assert ((ndigits (hr_lo r + N.of_nat (Z.to_nat d)) <= ndigits (hr_hi r))%nat).
  { apply ndigits_mono; [lia|]. apply W64_fits; unfold W64; lia. }
  specialize (Hok Es). lia.
Qed.

Lemma stage2_end h : stage2 h (at_pos h 0) = Ok (at_pos h 0, None).
Proof.
  unfold stage2, at_pos. cbn [it_idx].
  destruct (Z.ltb_spec (Z.of_nat (length h) - 1) (Z.of_nat (length h))); [reflexivity|lia].
Qed.

Lemma at_pos_snoc pre r : {| it_idx := Z.of_nat (length pre) + 1; it_depth := 0; it_stale := false |} = at_pos (pre ++ [r]) 0.
Proof. unfold at_pos. f_equal. rewrite app_length. cbn [length]. lia. Qed.

Lemma stage1_at pre r rest d : wf_range r -> (-1 <= d)%Z -> (Z.to_nat (d + 1) <= length (names r))%nat ->
  stage1 (pre ++ r :: rest) (at_pos pre d)
  = Ok (if (Z.to_nat (d + 1) <? length (names r))%nat then at_pos pre (d + 1) else at_pos (pre ++ [r]) 0).
Proof.
  intros Hwf Hd Hle. unfold stage1. unfold at_pos at 1 2 3 4 5. cbn [it_idx it_depth it_stale].
  destruct (Z.ltb_spec (Z.of_nat (length (pre ++ r :: rest)) - 1) (Z.of_nat (length pre))) as [Hc|_].
  { rewrite app_length in Hc. cbn [length] in Hc. lia. }
  rewrite Nat2Z.id, nth_error_mid. cbv zeta.
  destruct (names_count r Hwf) as (_ & Hns & Hs).
  assert (Hw : wrap64 (d + 1) = Z.to_N (d + 1)).
  { apply wrap64_small. destruct (hr_single r) eqn:Es.
    - destruct (Hs eq_refl) as (Hl & _). lia.
    - destruct (Hns eq_refl) as (Hl & Hlo & Hhi). unfold ULONG_MAX in Hhi. lia. }
  rewrite Hw.
  destruct (hr_single r) eqn:Es.
  - destruct (Hs eq_refl) as (Hl & Hlo & Hhi). rewrite Hlo, Hhi, Hl in *. change (sub64 0 0) with 0.
    destruct (N.ltb_spec 0 (Z.to_N (d + 1))); destruct (Nat.ltb_spec (Z.to_nat (d + 1)) 1); try lia.
    + unfold at_pos; cbn [it_idx it_depth]; do 2 f_equal; rewrite app_length; cbn [length]; lia.
    + unfold at_pos; cbn [it_idx it_depth]; reflexivity.
  - destruct (Hns eq_refl) as (Hl & Hlo & Hhi). unfold ULONG_MAX in Hhi.
    rewrite sub64_small by (unfold W64; lia). rewrite Hl in *.
    destruct (N.ltb_spec (hr_hi r - hr_lo r) (Z.to_N (d + 1)));
      destruct (Nat.ltb_spec (Z.to_nat (d + 1)) (N.to_nat (hr_hi r + 1 - hr_lo r))); try lia.
    + unfold at_pos; cbn [it_idx it_depth]; do 2 f_equal; rewrite app_length; cbn [length]; lia.
    + unfold at_pos; cbn [it_idx it_depth]; reflexivity.
Qed.

Lemma skipn_nth_error {A} (l : list A) i x : nth_error l i = Some x -> skipn i l = x :: skipn (S i) l.
Proof.
  revert i; induction l as [|y l IH]; intros i H; [destruct i; discriminate|].
  destruct i; cbn [nth_error] in H; [inversion H; reflexivity|]. cbn [skipn]. now apply IH.
Qed.

Lemma iterate_from_sound fuel : forall pre r rest d, wf (pre ++ r :: rest) -> Forall iter_ok (pre ++ r :: rest) ->
  (-1 <= d)%Z -> (Z.to_nat (d + 1) <= length (names r))%nat ->
  (length (names r) - Z.to_nat (d + 1) + length (expand rest) < fuel)%nat ->
  iterate_from fuel (pre ++ r :: rest) (at_pos pre d) = Ok (skipn (Z.to_nat (d + 1)) (names r) ++ expand rest).
Proof.
  induction fuel as [|f IH]; intros pre r rest d Hwf Hok Hd Hle Hfuel; [lia|].
  pose proof Hwf as Hwf0. pose proof Hok as Hok0.
  unfold wf in Hwf0. apply Forall_app in Hwf0 as [_ Hwf0]. apply Forall_app in Hok0 as [_ Hok0].
  pose proof (Forall_inv Hwf0) as Wr. pose proof (Forall_inv_tail Hwf0) as Wrest.
  pose proof (Forall_inv Hok0) as Or. pose proof (Forall_inv_tail Hok0) as Orest.
  cbn [iterate_from]. rewrite iter_next_unfold, (stage1_at pre r rest d Wr Hd Hle).
  destruct (Nat.ltb_spec (Z.to_nat (d + 1)) (length (names r))) as [Hlt|Hge]; cbn [bind].
  - (* next name of the same range *)
    rewrite (stage2_at pre r rest (d + 1) Wr Or ltac:(lia) Hlt). cbn [bind snd fst].
    destruct (nth_error (names r) (Z.to_nat (d + 1))) as [s|] eqn:En; [|apply nth_error_None in En; lia].
    rewrite (IH pre r rest (d + 1)%Z Hwf Hok ltac:(lia)); [|lia|lia]. cbn [bind].
    rewrite (skipn_nth_error _ _ _ En). replace (Z.to_nat (d + 1 + 1)) with (S (Z.to_nat (d + 1))) by lia. reflexivity.
  - (* the range is exhausted *)
    assert (Hall : skipn (Z.to_nat (d + 1)) (names r) = []) by (apply skipn_all2; lia). rewrite Hall. cbn [app].
    destruct rest as [|r2 rest'].
    + rewrite stage2_end. cbn [bind snd]. reflexivity.
    + assert (Hh : pre ++ r :: r2 :: rest' = (pre ++ [r]) ++ r2 :: rest') by (now rewrite <- app_assoc).
      rewrite Hh in *.
      pose proof (Forall_inv Wrest) as W2. pose proof (Forall_inv Orest) as O2.
      destruct (names_count r2 W2) as (H1 & _).
      rewrite (stage2_at (pre ++ [r]) r2 rest' 0 W2 O2 ltac:(lia) ltac:(cbn; lia)). cbn [bind snd fst].
      change (Z.to_nat 0) with 0%nat.
      destruct (nth_error (names r2) 0) as [s|] eqn:En; [|apply nth_error_None in En; lia].
      rewrite expand_cons, app_length in Hfuel.
      rewrite (IH (pre ++ [r]) r2 rest' 0%Z Hwf Hok ltac:(lia)); [|cbn; lia|cbn; lia]. cbn [bind].
      change (Z.to_nat (0 + 1)) with 1%nat. rewrite expand_cons. f_equal.
      pose proof (skipn_nth_error _ _ _ En) as Hsk. change (skipn 0 (names r2)) with (names r2) in Hsk.
      change (s :: skipn 1 (names r2) ++ expand rest') with ((s :: skipn 1 (names r2)) ++ expand rest'). now rewrite <- Hsk.
Qed.

Lemma count_total h : forall acc, wf h -> fold_left (fun a r => a + hr_count r) h acc = acc + N.of_nat (length (expand h)).
Proof.
  induction h as [|r h IH]; intros acc Hwf; cbn [fold_left]; [cbn; lia|].
  inversion Hwf as [|? ? Hr Hh]; subst. rewrite IH by assumption. rewrite (hr_count_wf r Hr), expand_cons, app_length. lia.
Qed.

(* hostlist_iterator_create + hostlist_next until NULL (also after hostlist_iterator_reset): the expansion, in order *)
Theorem iterate_sound h : wf h -> Forall iter_ok h -> iterate h = Ok (expand h).
Proof.
  intros Hwf Hok. unfold iterate. rewrite (count_total h 0 Hwf). rewrite N.add_0_l, Nat2N.id.
  destruct h as [|r rest]; [reflexivity|].
  change iter_new with (at_pos [] (-1)). change (r :: rest) with ([] ++ r :: rest) at 1.
  rewrite (iterate_from_sound _ [] r rest (-1)%Z Hwf Hok ltac:(lia)); [reflexivity|cbn; lia|].
  cbn [app]. rewrite expand_cons, app_length. change (Z.to_nat (-1 + 1)) with 0%nat. lia.
Qed.
