(* Bridge between C17 and C03_reported_by_own_expect: every specification shipped in etc/devices and t/etc, as regenerated into
   Gen/GenSpecs.v on every run, passes the static check DeviceWritesExpect.own_ok ("every setplugstate / setresult is preceded, in its
   own script, on every path, by an expect") - a sweep over the regenerated data (shipped_own_ok) - and so does EVERY specification
   that passes C17's checker (spec_ok_own_ok: rule R_NOEXPECT of Model/SpecCheck.v threads the same "an expect has run" bit through
   blocks, joining it over the skipped / taken paths of foreach and ifon / ifoff).  Hence the hypothesis `own_conf` of
   Proofs/DaemonE2EExpect.c03_reported_by_own_expect holds of every daemon configured with shipped specifications only. *)
From Coq Require Import List NArith ZArith Bool Lia Arith.
From PM Require Import Base.Bytes Gen.GenConsts Gen.GenSpecs Model.ScriptAst Model.RegexSyn Model.Fmt Model.SpecCheck Model.Enqueue Model.Script Model.Device Model.DevHarness
  Spec.SpecCheckSpec Proofs.SpecCheckProofs Proofs.DeviceWritesExpect.
Import ListNotations.

(* the sweep over the regenerated data *)
Lemma shipped_scripts_own : forallb (fun p => own_ok (sp_scripts (snd p))) all_specs = true.
Proof. vm_compute. reflexivity. Qed.

Theorem shipped_own_ok file s name plugs timeout ping :
  In (file, s) all_specs -> own_ok (dv_scripts (mk_device name plugs (sp_scripts s) timeout ping)) = true.
Proof. intros Hin. pose proof shipped_scripts_own as H. rewrite forallb_forall in H. exact (H (file, s) Hin). Qed.

(* ... and C17's checker implies it *)
Lemma body_of_loop s b : loop_body s = Some b -> body_of s = Some b.
Proof. destruct s; cbn; congruence. Qed.
Lemma body_of_if s b : if_body s = Some b -> body_of s = Some b.
Proof. destruct s; cbn; congruence. Qed.
Lemma has_expect_join a b : has_expect (xjoin a b) = true -> has_expect a = true.
Proof. destruct a, b; cbn; congruence. Qed.

Lemma own_of_check idx : forall n l, (block_size l <= n)%nat ->
  forall arg x path i h, (has_expect x = true -> h = true) -> check_block idx arg x path i l = [] -> ck_block h l = true.
Proof.
  induction n as [|n IH]; intros l Hn arg x path i h Hh Hc.
  - destruct l as [|s r]; [reflexivity|]. cbn [block_size] in Hn. pose proof (stmt_size_pos s). lia.
  - destruct l as [|s r]; [reflexivity|].
    cbn [block_size] in Hn. cbn [check_block] in Hc. apply app_eq_nil in Hc as [H1 H2].
    pose proof (stmt_size_pos s) as Hp. cbn [ck_block]. apply andb_true_iff.
    destruct (loop_body s) as [b|] eqn:EL.
    + rewrite (check_stmt_loop idx arg x (path ++ [i]) s b EL) in H1.
      apply app_eq_nil in H1 as [_ H1]. apply app_eq_nil in H1 as [_ H1]. apply app_eq_nil in H1 as [_ Hb].
      pose proof (stmt_size_body s b (or_introl EL)) as Sz.
      rewrite (xout_stmt_body x s b (or_introl EL)) in H2.
      split.
      * rewrite (ck_stmt_body h s b (body_of_loop s b EL)). refine (IH _ _ _ _ _ _ _ _ Hb); [lia|intros K; apply Hh; exact (has_expect_join _ _ K)].
      * refine (IH _ _ _ _ _ _ _ _ H2); [lia|]. intros K. apply has_expect_join in K. destruct s; cbn [loop_body] in EL; try discriminate; cbn [xo]; auto.
    + destruct (if_body s) as [b|] eqn:EI.
      * rewrite (check_stmt_if idx arg x (path ++ [i]) s b EI) in H1.
        apply app_eq_nil in H1 as [_ H1]. apply app_eq_nil in H1 as [_ Hb].
        pose proof (stmt_size_body s b (or_intror EI)) as Sz.
        rewrite (xout_stmt_body x s b (or_intror EI)) in H2.
        split.
        -- rewrite (ck_stmt_body h s b (body_of_if s b EI)). refine (IH _ _ _ _ _ _ _ Hh Hb). lia.
        -- refine (IH _ _ _ _ _ _ _ _ H2); [lia|]. intros K. apply has_expect_join in K. destruct s; cbn [if_body] in EI; try discriminate; cbn [xo]; auto.
      * destruct s as [fmt|re|lit p q ints|p q ints|us|bd|bd|bd|bd]; cbn [loop_body if_body] in EL, EI; try discriminate; cbn [ck_stmt xo xout_stmt] in *.
        -- split; [reflexivity|]. refine (IH _ _ _ _ _ _ _ Hh H2); lia.
        -- split; [reflexivity|]. refine (IH _ _ _ _ _ _ _ _ H2); [lia|reflexivity].
        -- apply app_eq_nil in H1 as [He _]. apply fail_if_nil in He. split; [exact (Hh He)|]. refine (IH _ _ _ _ _ _ _ Hh H2); lia.
        -- apply app_eq_nil in H1 as [_ H1]. apply app_eq_nil in H1 as [He _]. apply fail_if_nil in He. split; [exact (Hh He)|]. refine (IH _ _ _ _ _ _ _ Hh H2); lia.
        -- split; [reflexivity|]. refine (IH _ _ _ _ _ _ _ Hh H2); lia.
Qed.

Theorem spec_ok_own_ok s : spec_ok s = true -> own_ok (sp_scripts s) = true.
Proof.
  intros H. unfold own_ok. apply forallb_forall. intros [idx body] Hin. cbn [snd].
  destruct (spec_ok_script s idx body H Hin) as (Hc & _ & _).
  refine (own_of_check idx _ _ (Nat.le_refl _) _ _ _ _ _ _ Hc). cbn. discriminate.
Qed.
