(* C14: hostlist_find against the expansion -- soundness (no hypothesis on the name) and completeness (suffix_small) *)
From Coq Require Import List Arith NArith ZArith Lia Bool.
From PM Require Import Base.Bytes Base.Outcome Gen.GenHL Model.HL Spec.HLSpec Proofs.HLArith Proofs.HLProofs Proofs.HLIndex.
From Coq Require Import ZifyBool ZifyNat ZifyN.
Import ListNotations.
Local Open Scope N_scope.
Ltac Zify.zify_post_hook ::= Z.div_mod_to_equations.

(* what hostname_create guarantees about a name with a valid suffix *)
Definition hn_ok (hn : hostname) : Prop :=
  match hn_suffix hn with
  | Some suf => hn_name hn = hn_prefix hn ++ suf /\ suf <> [] /\ all_digit suf
                /\ hn_num hn = digit_val suf /\ digit_val suf <= GenHL.MAX_HOST_SUFFIX
  | None => True
  end.

Lemma hostname_create_at_ok name k : (k <= length name)%nat -> all_digit (skipn k name) ->
  hn_ok (hostname_create_at name k) /\ hn_name (hostname_create_at name k) = name.
Proof.
  intros Hk Hd. unfold hostname_create_at.
  destruct (Nat.eqb k (length name)) eqn:Ek; [split; [exact I|reflexivity]|].
  apply Nat.eqb_neq in Ek.
  assert (Hne : skipn k name <> []).
  { intros E. apply (f_equal (@length _)) in E. rewrite skipn_length in E. cbn in E. lia. }
  rewrite (strtoul_digits _ Hne Hd). rewrite Nat.eqb_refl. cbn [andb].
  destruct (_ <=? GenHL.MAX_HOST_SUFFIX) eqn:Ev; [|split; [exact I|reflexivity]].
  apply N.leb_le in Ev. destruct MAX_HOST_SUFFIX_small as [Hm _].
  destruct (ULONG_MAX <? digit_val (skipn k name)) eqn:Eo; [lia|].
  split; [|reflexivity]. unfold hn_ok; cbn [hn_suffix hn_name hn_prefix hn_num].
  repeat split; auto. now rewrite firstn_skipn.
Qed.

Lemma prefix_len_split name :
  exists p d, name = p ++ d /\ prefix_len name = length p /\ all_digit d
              /\ rev p = snd (span is_digit (rev name)) /\ rev d = fst (span is_digit (rev name)).
Proof.
  unfold prefix_len. pose proof (span_app is_digit (rev name)) as Hs.
  destruct (span is_digit (rev name)) as [rd rp] eqn:E. destruct Hs as [Hrev Hrd]. cbn [fst snd].
  exists (rev rp), (rev rd).
  assert (Hn : name = rev rp ++ rev rd). { rewrite <- rev_app_distr, <- Hrev. now rewrite rev_involutive. }
  repeat split; auto.
  - rewrite Hn at 1. rewrite app_length, !rev_length. lia.
  - apply Forall_rev. exact Hrd.
  - now rewrite rev_involutive.
  - now rewrite rev_involutive.
Qed.

Lemma hostname_create_ok name : hn_ok (hostname_create name) /\ hn_name (hostname_create name) = name.
Proof.
  unfold hostname_create. destruct (prefix_len_split name) as (p & d & Hn & Hl & Hd & _).
  rewrite Hl. apply hostname_create_at_ok.
  - rewrite Hn, app_length. lia.
  - rewrite Hn. now rewrite skipn_app, skipn_all, Nat.sub_diag.
Qed.

Lemma hn_within_unfold fuel r hn :
  hn_within fuel r hn =
  if hr_single r then ((if text_eqb (hn_name hn) (hr_prefix r) then 0 else -1)%Z, r)
  else match hn_suffix hn with
  | None => ((-1)%Z, r)
  | Some suf =>
    let len_hn := length (hn_prefix hn) in
    let len_hr := length (hr_prefix r) in
    if negb (text_eqb (firstn len_hn (hr_prefix r)) (hn_prefix hn)) then ((-1)%Z, r)
    else
      if (len_hn <? len_hr)%nat && (1 <? length suf)%nat
         && is_digit (List.nth (len_hr - 1) (hr_prefix r) 0)
         && (List.nth len_hn (hr_prefix r) 0 =? List.nth 0 suf 0)
      then match fuel with
           | O => ((-1)%Z, r)
           | S f => hn_within f r (hostname_create_at (hn_name hn) (S len_hn))
           end
      else if Nat.eqb len_hr len_hn && text_eqb (hn_prefix hn) (hr_prefix r)
              && (hn_num hn <=? hr_hi r) && (hr_lo r <=? hn_num hn)
      then match width_equiv (hr_lo r) (hr_width r) (hn_num hn) (length suf) with
           | None => ((-1)%Z, r)
           | Some (w', _) => (int_of_ulong (sub64 (hn_num hn) (hr_lo r)), with_width r w')
           end
      else ((-1)%Z, r)
  end.
Proof. destruct fuel; reflexivity. Qed.

Lemma hn_resplit_ok hn suf : hn_ok hn -> hn_suffix hn = Some suf -> (1 < length suf)%nat ->
  let hn' := hostname_create_at (hn_name hn) (S (length (hn_prefix hn))) in
  hn_ok hn' /\ hn_name hn' = hn_name hn.
Proof.
  intros Hok Hs Hl. unfold hn_ok in Hok. rewrite Hs in Hok. destruct Hok as (Hn & Hne & Hd & Hnum & Hmax).
  destruct suf as [|c suf']; [congruence|]. cbn [length] in Hl.
  apply hostname_create_at_ok.
  - rewrite Hn, app_length. cbn [length]. lia.
  - rewrite Hn. rewrite skipn_app. rewrite skipn_all2 by lia. cbn [app].
    replace (S (length (hn_prefix hn)) - length (hn_prefix hn))%nat with 1%nat by lia. cbn [skipn].
    now inversion Hd.
Qed.

(* soundness of one range test; the range may come back with a rewritten width that spells every member as before *)
Lemma hn_within_sound fuel : forall r hn off r',
  hn_within fuel r hn = (off, r') -> wf_range r -> hn_ok hn -> (Z.of_nat (length (names r)) < 2147483648)%Z ->
  names r' = names r /\ wf_range r' /\
  ((0 <= off)%Z -> nth_error (names r) (Z.to_nat off) = Some (hn_name hn)).
Proof.
  induction fuel as [|f IH]; intros r hn off r' H Hwf Hok Hsm; rewrite hn_within_unfold in H.
  all: destruct (hr_single r) eqn:Es;
    [ destruct (text_eqb (hn_name hn) (hr_prefix r)) eqn:Et; inversion H; subst; clear H;
      (split; [reflexivity|]; split; [assumption|]; intros Ho; try lia);
      apply text_eqb_eq in Et; rewrite names_single by assumption; cbn; now rewrite Et | ].
  all: destruct (hn_suffix hn) as [suf|] eqn:Esuf; [|inversion H; subst; repeat split; auto; lia].
  all: cbv zeta in H.
  all: destruct (negb (text_eqb (firstn (length (hn_prefix hn)) (hr_prefix r)) (hn_prefix hn))); [inversion H; subst; repeat split; auto; lia|].
  all: match type of H with (if ?c then _ else _) = _ => destruct c eqn:Ec end.
  1: { inversion H; subst; repeat split; auto; lia. }
  2: { apply andb_true_iff in Ec as [Ec _]. apply andb_true_iff in Ec as [Ec _]. apply andb_true_iff in Ec as [_ Hl].
       apply Nat.ltb_lt in Hl.
       destruct (hn_resplit_ok hn suf Hok Esuf Hl) as [Hok' Hname'].
       destruct (IH _ _ _ _ H Hwf Hok' Hsm) as (A & B & C). rewrite Hname' in C. auto. }
  all: clear Ec.
  all: match type of H with (if ?c then _ else _) = _ => destruct c eqn:Ec end; [|inversion H; subst; repeat split; auto; lia].
  all: destruct (width_equiv (hr_lo r) (hr_width r) (hn_num hn) (length suf)) as [[w' w'']|] eqn:Ew; [|inversion H; subst; repeat split; auto; lia].
  all: inversion H; subst; clear H.
  all: apply andb_true_iff in Ec as [Ec Hlo]; apply andb_true_iff in Ec as [Ec Hhi]; apply andb_true_iff in Ec as [_ Hpfx].
  all: apply N.leb_le in Hlo, Hhi; apply text_eqb_eq in Hpfx.
  all: unfold hn_ok in Hok; rewrite Esuf in Hok; destruct Hok as (Hn & Hne & Hd & Hnum & Hmax).
  all: pose proof Hwf as Hwf0; unfold wf_range in Hwf0; rewrite Es in Hwf0; destruct Hwf0 as [Hrl Hrh]; unfold ULONG_MAX in Hrh.
  all: destruct MAX_HOST_SUFFIX_small as [_ Hfit].
  all: apply width_equiv_sound in Ew as (Hww & _ & Hpm & Hk & _).
  all: (split; [apply names_with_width; auto|]); (split; [now apply wf_with_width|]); intros _.
  all: pose proof Hsm as Hsm'; rewrite names_length in Hsm' by assumption; rewrite Es in Hsm'; unfold rcount in Hsm'.
  all: unfold int_of_ulong; rewrite sub64_small by (unfold W64; lia); rewrite to_int_small by lia.
  all: rewrite names_nth; [| assumption | rewrite names_length by assumption; rewrite Es; unfold rcount; lia].
  all: rewrite Es; f_equal; rewrite Hn, Hpfx; f_equal.
  all: replace (hr_lo r + N.of_nat (Z.to_nat (Z.of_N (hn_num hn - hr_lo r)))) with (hn_num hn) by lia.
  all: rewrite <- (Hk (hn_num hn)) by (unfold W64; lia); rewrite Hww, Hpm, Hnum.
  all: apply digits_roundtrip; auto; unfold fits in *; lia.
Qed.

Lemma find_loop_sound h : forall hn cnt res h',
  find_loop h hn cnt = (res, h') -> wf h -> hn_ok hn -> (0 <= cnt)%Z ->
  (cnt + Z.of_nat (length (expand h)) < 2147483648)%Z ->
  expand h' = expand h /\ wf h' /\ (res = (-1)%Z \/ (cnt <= res)%Z) /\
  ((0 <= res)%Z -> nth_error (expand h) (Z.to_nat (res - cnt)) = Some (hn_name hn)).
Proof.
  induction h as [|r h IH]; intros hn cnt res h' H Hwf Hok Hc Hs; cbn [find_loop] in H.
  - inversion H; subst. repeat split; auto; lia.
  - inversion Hwf as [|? ? Hr Hh]; subst. rewrite expand_cons, app_length in Hs.
    destruct (hn_within (S (length (hr_prefix r))) r hn) as [off r1] eqn:Ew.
    destruct (hn_within_sound _ _ _ _ _ Ew Hr Hok ltac:(lia)) as (Hn1 & Hw1 & Hnth).
    destruct (Z.leb_spec 0 off) as [Hoff|Hoff].
    + inversion H; subst; clear H. specialize (Hnth Hoff).
      assert (Hlt : (Z.to_nat off < length (names r))%nat). { apply nth_error_Some. congruence. }
      rewrite to_int_small by lia. repeat split.
      * now rewrite !expand_cons, Hn1.
      * now constructor.
      * right; lia.
      * intros _. replace (cnt + off - cnt)%Z with off by lia. rewrite expand_cons, nth_error_app1 by assumption. exact Hnth.
    + destruct (find_loop h hn (to_int (cnt + Z.of_N (hr_count r1)))) as [res1 rest'] eqn:El.
      inversion H; subst; clear H.
      assert (Hc1 : hr_count r1 = N.of_nat (length (names r))). { rewrite hr_count_wf by assumption. now rewrite Hn1. }
      rewrite Hc1 in El. rewrite to_int_small in El by lia.
      destruct (IH _ _ _ _ El Hh Hok ltac:(lia) ltac:(lia)) as (He & Hw & Hres & Hnth2).
      repeat split.
      * now rewrite !expand_cons, Hn1, He.
      * now constructor.
      * destruct Hres; [now left | right; lia].
      * intros Hr0. specialize (Hnth2 Hr0). destruct Hres as [->|Hres]; [lia|].
        rewrite expand_cons, nth_error_app2 by lia.
        replace (Z.to_nat (res - cnt) - length (names r))%nat with (Z.to_nat (res - (cnt + Z.of_N (N.of_nat (length (names r))))))%nat by lia.
        exact Hnth2.
Qed.

(* hostlist_find never answers a position that holds another name; the list it leaves behind spells the same names *)
Theorem find_sound h n : wf h -> small h ->
  let (i, h') := find_mut h n in
  expand h' = expand h /\ wf h' /\ (i = (-1)%Z \/ (0 <= i)%Z) /\
  ((0 <= i)%Z -> nth_error (expand h) (Z.to_nat i) = Some n).
Proof.
  intros Hwf Hs. unfold find_mut. destruct (hostname_create_ok n) as [Hok Hname].
  destruct (find_loop h (hostname_create n) 0%Z) as [i h'] eqn:E.
  destruct (find_loop_sound _ _ _ _ _ E Hwf Hok ltac:(lia) ltac:(unfold small in Hs; lia)) as (A & B & C & D).
  repeat split; auto. intros Hi. specialize (D Hi). rewrite Z.sub_0_r, Hname in D. exact D.
Qed.

(* ---------------------------------------------------------------- completeness *)
Lemma span_app_all p x s : Forall (fun b => p b = true) x ->
  span p (x ++ s) = let (a, r) := span p s in (x ++ a, r).
Proof.
  induction 1 as [|b x Hb _ IH]; cbn [app span]; [now destruct (span p s)|].
  rewrite Hb, IH. now destruct (span p s).
Qed.

Lemma digit_val_cons_ge d s : is_digit d = true -> digit_val s <= digit_val (d :: s).
Proof.
  intros Hd. apply is_digit_range in Hd.
  change (d :: s) with ([d] ++ s). rewrite digit_val_app.
  unfold digit_val at 2. cbn [fold_left].
  assert (G : forall l a b, a <= b -> fold_left (fun x c => 10 * x + (c - 48)) l a <= fold_left (fun x c => 10 * x + (c - 48)) l b).
  { induction l as [|c l IHl]; intros a b Hab; cbn [fold_left]; [exact Hab|]. apply IHl. lia. }
  unfold digit_val. apply G. lia.
Qed.

Lemma width_equiv_member lo w k : lo <= k -> fits k ->
  exists a b, width_equiv lo w k (Nat.max w (ndigits k)) = Some (a, b).
Proof.
  intros Hk Hf. pose proof (ndigits_mono _ _ Hk Hf) as Hm. unfold width_equiv, zp.
  destruct (Nat.eqb (w - ndigits lo) (Nat.max w (ndigits k) - ndigits lo)) eqn:E1;
  destruct (Nat.eqb (Nat.max w (ndigits k) - ndigits k) (w - ndigits k)) eqn:E2; cbn [negb andb]; eauto.
  apply Nat.eqb_neq in E1, E2. lia.
Qed.

(* the state of the re-split recursion on a member  P ++ pad w k  of range r: the name is split after j bytes of P *)
Definition resplit_state (r : hrange) (k : N) (j : nat) (hn : hostname) : Prop :=
  let P := hr_prefix r in
  hn_name hn = P ++ pad (hr_width r) k /\ (j <= length P)%nat /\ hn_prefix hn = firstn j P
  /\ hn_suffix hn = Some (skipn j P ++ pad (hr_width r) k) /\ all_digit (skipn j P)
  /\ hn_num hn = digit_val (skipn j P ++ pad (hr_width r) k)
  /\ digit_val (skipn j P ++ pad (hr_width r) k) <= GenHL.MAX_HOST_SUFFIX.

Lemma skipn_cons_nth {A} (l : list A) j d : (j < length l)%nat -> skipn j l = List.nth j l d :: skipn (S j) l.
Proof.
  revert j; induction l as [|x l IH]; intros j Hj; cbn [length] in Hj; [lia|].
  destruct j; [reflexivity|]. cbn [skipn List.nth]. apply IH. lia.
Qed.

Lemma last_of_skipn (l : text) j : (j < length l)%nat -> all_digit (skipn j l) -> is_digit (List.nth (length l - 1) l 0) = true.
Proof.
  intros Hj Hd. rewrite <- (firstn_skipn j l) at 2.
  rewrite app_nth2 by (rewrite firstn_length; lia). rewrite firstn_length.
  replace (Nat.min j (length l)) with j by lia.
  unfold all_digit in Hd. rewrite Forall_forall in Hd. apply Hd. apply nth_In. rewrite skipn_length. lia.
Qed.

Lemma hn_within_complete fuel : forall r k j hn,
  wf_range r -> hr_single r = false -> hr_lo r <= k <= hr_hi r ->
  (Z.of_nat (length (names r)) < 2147483648)%Z ->
  resplit_state r k j hn -> (length (hr_prefix r) - j <= fuel)%nat ->
  fst (hn_within fuel r hn) = Z.of_N (k - hr_lo r).
Proof.
  induction fuel as [|f IH]; intros r k j hn Hwf Es Hk Hsm (Hn & Hj & Hp & Hs & Hd & Hnum & Hmax) Hfuel;
    rewrite hn_within_unfold, Es, Hs; cbv zeta.
  all: pose proof Hwf as Hwf0; unfold wf_range in Hwf0; rewrite Es in Hwf0; destruct Hwf0 as [Hrl Hrh]; unfold ULONG_MAX in Hrh.
  all: assert (Hfk : fits k) by (apply W64_fits; unfold W64; lia).
  all: assert (Hlp : length (hn_prefix hn) = j) by (rewrite Hp, firstn_length; lia).
  all: rewrite Hlp; rewrite <- Hp; rewrite text_eqb_refl; cbn [negb].
  all: destruct (Nat.eq_dec j (length (hr_prefix r))) as [Ej|Ej].
  (* the split has reached the range's prefix: compare numbers *)
  1,3: rewrite Ej, Nat.ltb_irrefl; cbn [andb]; rewrite Nat.eqb_refl;
       assert (Hpp : hn_prefix hn = hr_prefix r) by (rewrite Hp, Ej; apply firstn_all);
       rewrite Hpp, text_eqb_refl; cbn [andb];
       rewrite Ej, skipn_all in Hnum; cbn [app] in Hnum;
       assert (Hnk : hn_num hn = k) by (rewrite Hnum; unfold pad; rewrite digit_val_zeros; now apply digit_val_dec);
       rewrite Hnk;
       destruct (N.leb_spec k (hr_hi r)); [|lia]; destruct (N.leb_spec (hr_lo r) k); [|lia]; cbn [andb];
       rewrite skipn_all; cbn [app]; rewrite pad_len by assumption;
       destruct (width_equiv_member (hr_lo r) (hr_width r) k ltac:(lia) Hfk) as (a & b & Hw); rewrite Hw; cbn [fst];
       rewrite names_length in Hsm by assumption; rewrite Es in Hsm; unfold rcount in Hsm;
       unfold int_of_ulong; rewrite sub64_small by (unfold W64; lia); apply to_int_small; lia.
  (* still inside the digits of the range's prefix: one more byte goes to the prefix *)
  all: assert (Hjl : (j < length (hr_prefix r))%nat) by lia.
  all: apply Nat.ltb_lt in Hjl as Hjl'; rewrite Hjl'; apply Nat.ltb_lt in Hjl'.
  all: assert (Hpadne : (1 <= length (pad (hr_width r) k))%nat)
         by (destruct (pad (hr_width r) k) eqn:E; [now apply pad_nonempty in E | cbn; lia]).
  all: assert (Hl1 : (1 <? length (skipn j (hr_prefix r) ++ pad (hr_width r) k))%nat = true)
         by (apply Nat.ltb_lt; rewrite app_length, skipn_length; lia).
  all: rewrite Hl1, (last_of_skipn _ j Hjl Hd).
  all: rewrite (skipn_cons_nth (hr_prefix r) j 0 Hjl) at 1; cbn [app List.nth]; rewrite N.eqb_refl; cbn [andb].
  1: lia.
  (* recursive call *)
  apply (IH r k (S j)); auto; [|lia].
  unfold resplit_state; cbv zeta.
  rewrite (skipn_cons_nth (hr_prefix r) j 0 Hjl) in Hd, Hmax.
  pose proof (Forall_inv Hd) as Hd0. pose proof (Forall_inv_tail Hd) as Hd1. cbv beta in Hd0.
  assert (Hmax' : digit_val (skipn (S j) (hr_prefix r) ++ pad (hr_width r) k) <= GenHL.MAX_HOST_SUFFIX).
  { eapply N.le_trans; [apply (digit_val_cons_ge _ _ Hd0)|]. exact Hmax. }
  assert (Hsk : skipn (S j) (hn_name hn) = skipn (S j) (hr_prefix r) ++ pad (hr_width r) k).
  { rewrite Hn, skipn_app. replace (S j - length (hr_prefix r))%nat with 0%nat by lia. reflexivity. }
  assert (Hall : all_digit (skipn (S j) (hr_prefix r) ++ pad (hr_width r) k)).
  { apply Forall_app; split; [exact Hd1 | now apply all_digit_pad]. }
  assert (Hne : skipn (S j) (hr_prefix r) ++ pad (hr_width r) k <> []).
  { intros E. apply app_eq_nil in E as [_ E]. now apply pad_nonempty in E. }
  unfold hostname_create_at.
  assert (Hlen : Nat.eqb (S j) (length (hn_name hn)) = false).
  { apply Nat.eqb_neq. rewrite Hn, app_length. lia. }
  rewrite Hlen, Hsk, (strtoul_digits _ Hne Hall), Nat.eqb_refl. cbn [andb].
  destruct MAX_HOST_SUFFIX_small as [Hm _].
  destruct (ULONG_MAX <? _) eqn:Eo; [apply N.ltb_lt in Eo; lia|].
  apply N.leb_le in Hmax' as Hmax''. rewrite Hmax''. cbn [hn_name hn_prefix hn_suffix hn_num].
  repeat split; auto.
  rewrite Hn. rewrite firstn_app. replace (S j - length (hr_prefix r))%nat with 0%nat by lia.
  cbn [firstn]. now rewrite app_nil_r.
Qed.

(* ---------------------------------------------------------------- index_of *)
Lemma index_of_ge_m1 n l : (-1 <= index_of n l)%Z.
Proof. induction l as [|x l IH]; cbn [index_of]; [lia|]. destruct (text_eqb x n); [lia|]. destruct (index_of n l <? 0)%Z; lia. Qed.

Lemma index_of_notin n l : ~ In n l -> index_of n l = (-1)%Z.
Proof.
  induction l as [|x l IH]; intros H; cbn [index_of]; [reflexivity|].
  destruct (text_eqb x n) eqn:E; [apply text_eqb_eq in E; subst; exfalso; apply H; now left|].
  rewrite IH by (intros Hin; apply H; now right). reflexivity.
Qed.

Lemma index_of_nth l : forall i n, nth_error l i = Some n -> (forall j, (j < i)%nat -> nth_error l j <> Some n) ->
  index_of n l = Z.of_nat i.
Proof.
  induction l as [|x l IH]; intros i n Hi Hj; [destruct i; discriminate|].
  cbn [index_of]. destruct i as [|i].
  - cbn in Hi. inversion Hi; subst. now rewrite text_eqb_refl.
  - destruct (text_eqb x n) eqn:E.
    + apply text_eqb_eq in E; subst. exfalso. apply (Hj 0%nat); [lia|reflexivity].
    + cbn in Hi. rewrite (IH i n Hi) by (intros j Hlt; apply (Hj (S j)); lia).
      destruct (Z.ltb_spec (Z.of_nat i) 0); lia.
Qed.

Lemma index_of_app_in n a b : In n a -> index_of n (a ++ b) = index_of n a.
Proof.
  induction a as [|x a IH]; intros H; [destruct H|]. cbn [app index_of].
  destruct (text_eqb x n) eqn:E; [reflexivity|].
  destruct H as [->|H]; [now rewrite text_eqb_refl in E|]. now rewrite IH.
Qed.

Lemma index_of_app_notin n a b : ~ In n a ->
  index_of n (a ++ b) = if (index_of n b <? 0)%Z then (-1)%Z else (Z.of_nat (length a) + index_of n b)%Z.
Proof.
  induction a as [|x a IH]; intros H; cbn [app index_of length].
  - destruct (Z.ltb_spec (index_of n b) 0); [pose proof (index_of_ge_m1 n b); lia | lia].
  - destruct (text_eqb x n) eqn:E; [apply text_eqb_eq in E; subst; exfalso; apply H; now left|].
    rewrite IH by (intros Hin; apply H; now right).
    pose proof (index_of_ge_m1 n b).
    destruct (Z.ltb_spec (index_of n b) 0); [reflexivity|].
    destruct (Z.ltb_spec (Z.of_nat (length a) + index_of n b) 0); lia.
Qed.

Lemma names_member_index r k : wf_range r -> hr_single r = false -> hr_lo r <= k <= hr_hi r ->
  index_of (hr_prefix r ++ pad (hr_width r) k) (names r) = Z.of_N (k - hr_lo r).
Proof.
  intros Hwf Es Hk. pose proof Hwf as Hwf0. unfold wf_range in Hwf0. rewrite Es in Hwf0. destruct Hwf0 as [Hl Hh]. unfold ULONG_MAX in Hh.
  assert (Hlen : length (names r) = rcount r) by (rewrite names_length by assumption; now rewrite Es).
  unfold rcount in Hlen.
  rewrite (index_of_nth _ (N.to_nat (k - hr_lo r))); [lia| |].
  - rewrite names_nth by (auto; lia). rewrite Es. do 3 f_equal. lia.
  - intros j Hj. rewrite names_nth by (auto; lia). rewrite Es. intros E. inversion E as [E'].
    apply app_inv_head in E'. apply pad_inj_num in E'; [lia| |]; apply W64_fits; unfold W64; lia.
Qed.

Lemma find_loop_complete h : forall hn n cnt,
  wf h -> hn_ok hn -> hn_name hn = n -> hn = hostname_create n -> suffix_small n -> (0 <= cnt)%Z ->
  (cnt + Z.of_nat (length (expand h)) < 2147483648)%Z ->
  fst (find_loop h hn cnt) = if (index_of n (expand h) <? 0)%Z then (-1)%Z else (cnt + index_of n (expand h))%Z.
Proof.
  induction h as [|r h IH]; intros hn n cnt Hwf Hok Hname Hcreate Hss Hc Hs; cbn [find_loop].
  - reflexivity.
  - inversion Hwf as [|? ? Hr Hh]; subst hn. rewrite expand_cons, app_length in Hs. rewrite expand_cons.
    destruct (hn_within (S (length (hr_prefix r))) r (hostname_create n)) as [off r1] eqn:Ew.
    destruct (hn_within_sound _ _ _ _ _ Ew Hr Hok ltac:(lia)) as (Hn1 & Hw1 & Hnth). rewrite Hname in Hnth.
    destruct (in_dec text_eq_dec n (names r)) as [Hin|Hnin].
    + (* the name is in this range: the range test finds its (first) position *)
      rewrite index_of_app_in by assumption.
      assert (Hoff : off = index_of n (names r) /\ (0 <= off)%Z).
      { destruct (hr_single r) eqn:Es.
        - rewrite names_single in * by assumption. destruct Hin as [Hin|[]]. subst n.
          rewrite hn_within_unfold, Es, Hname, text_eqb_refl in Ew. inversion Ew; subst.
          cbn [index_of]. rewrite text_eqb_refl. lia.
        - rewrite names_range in Hin by assumption. apply in_map_iff in Hin as (k & Hk & Hkin). apply nseq_In in Hkin.
          pose proof Hr as Hr0. unfold wf_range in Hr0. rewrite Es in Hr0. destruct Hr0 as [Hl Hh']. unfold ULONG_MAX in Hh'.
          unfold rcount in Hkin.
          assert (Hkr : hr_lo r <= k <= hr_hi r) by lia.
          rewrite <- Hk. rewrite names_member_index by assumption.
          (* initial state of the re-split recursion *)
          assert (Hst : resplit_state r k (prefix_len n) (hostname_create n)).
          { assert (Hfk : fits k) by (apply W64_fits; unfold W64; lia).
            unfold resplit_state; cbv zeta. unfold hostname_create, prefix_len, suffix_small in *.
            rewrite <- Hk in *. rewrite rev_app_distr in *.
            rewrite (span_app_all is_digit (rev (pad (hr_width r) k)) (rev (hr_prefix r))) in * by (apply Forall_rev; now apply all_digit_pad).
            pose proof (span_app is_digit (rev (hr_prefix r))) as Hsp.
            destruct (span is_digit (rev (hr_prefix r))) as [a rp] eqn:Esp. destruct Hsp as [Hrev Ha]. cbn [fst snd] in *.
            assert (HP : hr_prefix r = rev rp ++ rev a). { rewrite <- rev_app_distr, <- Hrev. now rewrite rev_involutive. }
            rewrite rev_app_distr, rev_involutive in Hss.
            assert (Hj : (length (hr_prefix r ++ pad (hr_width r) k) - length (rev (pad (hr_width r) k) ++ a))%nat = length (rev rp)).
            { rewrite HP. rewrite !app_length, !rev_length. lia. }
            rewrite Hj.
            assert (Hsk : skipn (length (rev rp)) (hr_prefix r) = rev a). { rewrite HP. now rewrite skipn_app, skipn_all, Nat.sub_diag. }
            assert (Hfi : firstn (length (rev rp)) (hr_prefix r) = rev rp). { rewrite HP. now rewrite firstn_app, firstn_all, Nat.sub_diag, app_nil_r. }
            assert (Hda : all_digit (rev a)) by (apply Forall_rev; exact Ha).
            assert (Hsk2 : skipn (length (rev rp)) (hr_prefix r ++ pad (hr_width r) k) = rev a ++ pad (hr_width r) k).
            { rewrite skipn_app, Hsk. replace (length (rev rp) - length (hr_prefix r))%nat with 0%nat; [reflexivity|].
              rewrite HP, app_length. lia. }
            assert (Hall : all_digit (rev a ++ pad (hr_width r) k)) by (apply Forall_app; split; [exact Hda | now apply all_digit_pad]).
            assert (Hne : rev a ++ pad (hr_width r) k <> []). { intros E. apply app_eq_nil in E as [_ E]. now apply pad_nonempty in E. }
            unfold hostname_create_at.
            assert (Hlen : Nat.eqb (length (rev rp)) (length (hr_prefix r ++ pad (hr_width r) k)) = false).
            { apply Nat.eqb_neq. rewrite HP, !app_length. destruct (pad (hr_width r) k) eqn:E; [now apply pad_nonempty in E|]. cbn [length]. lia. }
            rewrite Hlen, Hsk2, (strtoul_digits _ Hne Hall), Nat.eqb_refl. cbn [andb].
            destruct MAX_HOST_SUFFIX_small as [Hm _].
            destruct (ULONG_MAX <? _) eqn:Eo; [apply N.ltb_lt in Eo; lia|].
            apply N.leb_le in Hss as Hss'. rewrite Hss'. cbn [hn_name hn_prefix hn_suffix hn_num].
            rewrite Hsk. repeat split; auto.
            - rewrite HP, app_length. lia.
            - rewrite firstn_app, Hfi. replace (length (rev rp) - length (hr_prefix r))%nat with 0%nat; [now rewrite app_nil_r|].
              rewrite HP, app_length. lia. }
          pose proof (hn_within_complete (S (length (hr_prefix r))) r k _ _ Hr Es Hkr ltac:(lia) Hst ltac:(lia)) as Hc'.
          rewrite Ew in Hc'. cbn [fst] in Hc'. subst off. lia. }
      destruct Hoff as [Hoff Hge]. destruct (Z.leb_spec 0 off); [|lia]. cbn [fst].
      assert (Hlt : (Z.to_nat off < length (names r))%nat). { apply nth_error_Some. rewrite (Hnth Hge). congruence. }
      rewrite <- Hoff. destruct (Z.ltb_spec off 0); [lia|]. apply to_int_small. lia.
    + (* not in this range: the range test must fail, the search goes on *)
      assert (Hoff : (off < 0)%Z).
      { destruct (Z.ltb_spec off 0); [assumption|]. exfalso. apply Hnin. eapply nth_error_In. apply Hnth. lia. }
      destruct (Z.leb_spec 0 off); [lia|].
      assert (Hc1 : hr_count r1 = N.of_nat (length (names r))). { rewrite hr_count_wf by assumption. now rewrite Hn1. }
      rewrite Hc1, to_int_small by lia.
      destruct (find_loop h (hostname_create n) (cnt + Z.of_N (N.of_nat (length (names r))))) as [res rest'] eqn:El. cbn [fst].
      pose proof (IH (hostname_create n) n (cnt + Z.of_N (N.of_nat (length (names r))))%Z Hh Hok Hname eq_refl Hss ltac:(lia) ltac:(lia)) as IH'.
      rewrite El in IH'. cbn [fst] in IH'. rewrite IH'. rewrite index_of_app_notin by assumption.
      pose proof (index_of_ge_m1 n (expand h)).
      destruct (Z.ltb_spec (index_of n (expand h)) 0); [reflexivity|].
      destruct (Z.ltb_spec (Z.of_nat (length (names r)) + index_of n (expand h)) 0); lia.
Qed.

(* hostlist_find answers the first position of the name, or -1 when it is absent *)
Theorem find_complete h n : wf h -> small h -> suffix_small n -> find h n = index_of n (expand h).
Proof.
  intros Hwf Hs Hss. unfold find, find_mut. destruct (hostname_create_ok n) as [Hok Hname].
  rewrite (find_loop_complete h _ n 0%Z Hwf Hok Hname eq_refl Hss ltac:(lia) ltac:(unfold small in Hs; lia)).
  pose proof (index_of_ge_m1 n (expand h)). destruct (Z.ltb_spec (index_of n (expand h)) 0); lia.
Qed.

(* F11: without suffix_small the full statement is false of the faithful model *)
Theorem find_refuted : exists h n, wf h /\ small h /\ In n (expand h) /\ find h n = (-1)%Z.
Proof.
  exists [mk_range (bs "n"%string) 99999998 99999999 8], (bs "n99999998"%string).
  split; [constructor; [vm_compute; split; [discriminate | reflexivity] | constructor]|].
  split; [vm_compute; reflexivity|]. split; [vm_compute; now left | vm_compute; reflexivity].
Qed.

(* ---------------------------------------------------------------- delete_host *)
Lemma index_of_in n l : In n l -> (0 <= index_of n l < Z.of_nat (length l))%Z.
Proof.
  induction l as [|x l IH]; intros H; [destruct H|]. cbn [index_of length].
  destruct (text_eqb x n) eqn:E; [lia|].
  destruct H as [->|H]; [now rewrite text_eqb_refl in E|]. specialize (IH H).
  destruct (Z.ltb_spec (index_of n l) 0); lia.
Qed.

Theorem delete_host_sound h n : wf h -> small h -> suffix_small n ->
  exists r h', delete_host h n = Ok (r, h') /\ wf h' /\
    ((In n (expand h) /\ r = 1%Z /\ expand h' = remove_at (Z.to_nat (index_of n (expand h))) (expand h))
     \/ (~ In n (expand h) /\ r = 0%Z /\ expand h' = expand h)).
Proof.
  intros Hwf Hs Hss. unfold delete_host, delete_host_ev.
  pose proof (find_sound h n Hwf Hs) as Hfs. pose proof (find_complete h n Hwf Hs Hss) as Hfc. unfold find in Hfc.
  destruct (find_mut h n) as [i h1]. cbn [fst] in Hfc. destruct Hfs as (He & Hw1 & _ & _). subst i.
  destruct (in_dec text_eq_dec n (expand h)) as [Hin|Hnin].
  - pose proof (index_of_in n _ Hin) as Hi. destruct (Z.leb_spec 0 (index_of n (expand h))); [|lia].
    unfold delete_nth_ev. rewrite NDEBUG_0. cbn [andb]. rewrite (count_sound h Hwf Hs).
    destruct (Z.ltb_spec (index_of n (expand h)) 0); [lia|].
    destruct (Z.ltb_spec (Z.of_nat (length (expand h))) (index_of n (expand h))); [lia|]. cbn [orb].
    destruct (delete_loop_sound h1 (Z.to_nat (index_of n (expand h))) 0%Z 0%Z Hw1) as (h' & ev & Hd1 & Hd2 & Hd3);
      try (rewrite ?He; unfold small in Hs; lia).
    replace (0 + Z.of_nat (Z.to_nat (index_of n (expand h))))%Z with (index_of n (expand h)) in Hd1 by lia.
    rewrite Hd1. cbn [bind fst snd]. exists 1%Z, h'. split; [reflexivity|]. split; [assumption|].
    left. rewrite Hd2, He. auto.
  - rewrite (index_of_notin n _ Hnin). cbn [Z.leb bind fst]. exists 0%Z, h1. split; [reflexivity|]. split; [assumption|].
    right. auto.
Qed.
