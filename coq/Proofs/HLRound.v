(* C14: compress, then expand -- hostlist_create (hostlist_ranged_string h) denotes the names of h, in order.
   Uses the generated facts GenHL.separators (',' separates tokens; digits, '-' do not), MAX_RANGE, RANGES_LEN_ARG,
   RANGES_ARRAY, CUR_TOK_COPY: an edit of the source that changes one of them re-checks (and may break) this file. *)
From Coq Require Import List Arith NArith ZArith Lia Bool.
From PM Require Import Base.Bytes Base.Outcome Gen.GenHL Model.HL Spec.HLSpec Proofs.HLArith Proofs.HLProofs Proofs.HLIndex.
From Coq Require Import ZifyBool ZifyNat ZifyN.
Import ListNotations.
Local Open Scope N_scope.
Ltac Zify.zify_post_hook ::= Z.div_mod_to_equations.

(* ---------------------------------------------------------------- the guard *)
(* bytes a node name may contain so that the notation can carry it: no token separator, no bracket *)
Definition name_char (b : byte) : bool := negb (is_sep b) && negb (b =? 91) && negb (b =? 93).
Definition cleanb (p : text) : bool := forallb name_char p.

(* a range the notation can carry: prefix free of separators / brackets; a plain name is non-empty and fits cur_tok;
   a numbered range is non-empty, stays below ULONG_MAX, spans fewer than MAX_RANGE numbers, and its first name fits cur_tok *)
Definition printable_range (r : hrange) : bool :=
  cleanb (hr_prefix r) &&
  (if hr_single r then negb (Nat.eqb (length (hr_prefix r)) 0) && (N.of_nat (length (hr_prefix r)) <? GenHL.CUR_TOK_COPY)
   else (hr_lo r <=? hr_hi r) && (hr_hi r <? ULONG_MAX) && (hr_hi r - hr_lo r <? GenHL.MAX_RANGE)
        && (N.of_nat (length (hr_prefix r) + Nat.max (hr_width r) (ndigits (hr_lo r))) <? GenHL.CUR_TOK_COPY)).

(* ... and no more ranges than one bracket may hold *)
Definition printable (h : hostlist) : bool :=
  forallb printable_range h && (N.of_nat (length h) <=? GenHL.RANGES_LEN_ARG).

Definition clean (p : text) : Prop := Forall (fun b => name_char b = true) p.

Definition range_ok (r : hrange) : Prop :=
  clean (hr_prefix r) /\
  if hr_single r then hr_prefix r <> [] /\ N.of_nat (length (hr_prefix r)) < GenHL.CUR_TOK_COPY
  else hr_lo r <= hr_hi r /\ hr_hi r < ULONG_MAX /\ hr_hi r - hr_lo r < GenHL.MAX_RANGE
       /\ N.of_nat (length (hr_prefix r) + Nat.max (hr_width r) (ndigits (hr_lo r))) < GenHL.CUR_TOK_COPY.

Lemma forallb_Forall {A} (p : A -> bool) l : forallb p l = true <-> Forall (fun x => p x = true) l.
Proof. rewrite forallb_forall, Forall_forall. tauto. Qed.

Lemma printable_range_ok r : printable_range r = true -> range_ok r.
Proof.
  unfold printable_range, range_ok. intros H. apply andb_true_iff in H as [Hc H].
  split; [now apply forallb_Forall|].
  destruct (hr_single r).
  - apply andb_true_iff in H as [H1 H2]. apply N.ltb_lt in H2. split; [|exact H2].
    intros E. rewrite E in H1. discriminate.
  - apply andb_true_iff in H as [H H4]. apply andb_true_iff in H as [H H3]. apply andb_true_iff in H as [H1 H2].
    apply N.leb_le in H1. apply N.ltb_lt in H2, H3, H4. auto.
Qed.

Lemma printable_ok h : printable h = true -> Forall range_ok h /\ N.of_nat (length h) <= GenHL.RANGES_LEN_ARG.
Proof.
  unfold printable. intros H. apply andb_true_iff in H as [H1 H2]. apply N.leb_le in H2. split; [|exact H2].
  apply forallb_Forall in H1. eapply Forall_impl; [|exact H1]. intros r. apply printable_range_ok.
Qed.

(* ---------------------------------------------------------------- facts read from Gen/GenHL.v *)
Lemma is_sep_comma : is_sep 44 = true.
Proof. reflexivity. Qed.
Lemma is_sep_brackets : is_sep 91 = false /\ is_sep 93 = false.
Proof. split; reflexivity. Qed.
Lemma ranges_array_holds_len_arg : GenHL.RANGES_LEN_ARG <= GenHL.RANGES_ARRAY.
Proof. vm_compute. discriminate. Qed.
Lemma max_range_pos : 0 < GenHL.MAX_RANGE.
Proof. reflexivity. Qed.

Lemma is_sep_false_iff b : is_sep b = false <-> ~ In b GenHL.separators.
Proof.
  unfold is_sep. split.
  - intros H Hin. assert (existsb (N.eqb b) GenHL.separators = true); [|congruence].
    apply existsb_exists. exists b. split; [exact Hin | apply N.eqb_refl].
  - intros H. destruct (existsb (N.eqb b) GenHL.separators) eqn:E; [|reflexivity].
    apply existsb_exists in E as (x & Hx & Hb). apply N.eqb_eq in Hb. subst. contradiction.
Qed.

(* digits and '-' never separate tokens and are not brackets *)
Definition numchar (b : byte) : Prop := is_digit b = true \/ b = 45.

Lemma numchar_facts b : numchar b -> is_sep b = false /\ b <> 91 /\ b <> 93 /\ b <> 44.
Proof.
  intros H. assert (Hr : 45 <= b <= 57) by (destruct H as [H| ->]; [apply is_digit_range in H|]; lia).
  split; [|lia]. apply is_sep_false_iff. unfold GenHL.separators. cbn [In]. lia.
Qed.

Lemma digit_name_char b : is_digit b = true -> name_char b = true.
Proof.
  intros H. destruct (numchar_facts b (or_introl H)) as (H1 & H2 & H3 & _). unfold name_char. rewrite H1.
  apply N.eqb_neq in H2, H3. now rewrite H2, H3.
Qed.

Lemma name_char_facts b : name_char b = true -> is_sep b = false /\ b <> 91 /\ b <> 93.
Proof.
  unfold name_char. intros H. apply andb_true_iff in H as [H H3]. apply andb_true_iff in H as [H1 H2].
  apply negb_true_iff in H1, H2, H3. apply N.eqb_neq in H2, H3. auto.
Qed.

Lemma clean_app a b : clean a -> clean b -> clean (a ++ b).
Proof. intros; apply Forall_app; auto. Qed.

Lemma clean_digits d : all_digit d -> clean d.
Proof. intros H. eapply Forall_impl; [|exact H]. intros b. apply digit_name_char. Qed.

(* ---------------------------------------------------------------- strchr *)
Lemma split_first_app c a r : ~ In c a -> split_first c (a ++ c :: r) = Some (a, r).
Proof.
  induction a as [|b a IH]; intros H; cbn [app split_first].
  - now rewrite N.eqb_refl.
  - destruct (N.eqb_spec b c) as [->|Hn]; [exfalso; apply H; now left|].
    rewrite IH by (intros Hin; apply H; now right). reflexivity.
Qed.

Lemma split_first_none c a : ~ In c a -> split_first c a = None.
Proof.
  induction a as [|b a IH]; intros H; cbn [split_first]; [reflexivity|].
  destruct (N.eqb_spec b c) as [->|Hn]; [exfalso; apply H; now left|].
  rewrite IH by (intros Hin; apply H; now right). reflexivity.
Qed.

Lemma clean_no_bracket p : clean p -> ~ In 91 p /\ ~ In 93 p.
Proof.
  intros H. unfold clean in H. rewrite Forall_forall in H.
  split; intros Hin; apply H in Hin; apply name_char_facts in Hin; tauto.
Qed.

(* ---------------------------------------------------------------- the tokenizer *)
Lemma scan_tok_cons level b s : scan_tok level (b :: s) =
  if (level =? 0)%Z && is_sep b then ([], b :: s)
  else let level' := if b =? 91 then (level + 1)%Z else if b =? 93 then (level - 1)%Z else level in
       let (t, r) := scan_tok level' s in (b :: t, r).
Proof. reflexivity. Qed.

Definition sep_headed (X : text) : Prop := match X with [] => True | b :: _ => is_sep b = true end.

Lemma scan_tok_end X : sep_headed X -> scan_tok 0 X = ([], X).
Proof. destruct X as [|b X]; intros H; [reflexivity|]. rewrite scan_tok_cons. unfold sep_headed in H. rewrite H. reflexivity. Qed.

Lemma scan_tok_clean p X : clean p -> scan_tok 0 (p ++ X) = let (t, r) := scan_tok 0 X in (p ++ t, r).
Proof.
  induction 1 as [|b p Hb _ IH]; cbn [app]; [now destruct (scan_tok 0 X)|].
  rewrite scan_tok_cons. destruct (name_char_facts b Hb) as (H1 & H2 & H3).
  apply N.eqb_neq in H2, H3. rewrite H1, H2, H3. cbn [andb Z.eqb]. cbv zeta. rewrite IH.
  now destruct (scan_tok 0 X).
Qed.

Lemma scan_tok_inner l X : Forall (fun b => b <> 91 /\ b <> 93) l ->
  scan_tok 1 (l ++ X) = let (t, r) := scan_tok 1 X in (l ++ t, r).
Proof.
  induction 1 as [|b l [H2 H3] _ IH]; cbn [app]; [now destruct (scan_tok 1 X)|].
  rewrite scan_tok_cons. apply N.eqb_neq in H2, H3. rewrite H2, H3. cbn [andb Z.eqb]. cbv zeta. rewrite IH.
  now destruct (scan_tok 1 X).
Qed.

(* a closed token: starts with a byte that is not a separator, and the scanner stops exactly at its end *)
Definition tok_ok (t : text) : Prop :=
  (exists c t', t = c :: t' /\ is_sep c = false) /\ forall X, sep_headed X -> scan_tok 0 (t ++ X) = (t, X).

Lemma tok_ok_plain t : clean t -> t <> [] -> tok_ok t.
Proof.
  intros Hc Hne. split.
  - destruct t as [|c t']; [congruence|]. exists c, t'. split; [reflexivity|].
    inversion Hc as [|? ? Hb _]; subst. now apply name_char_facts in Hb.
  - intros X HX. rewrite scan_tok_clean by assumption. rewrite scan_tok_end by assumption. now rewrite app_nil_r.
Qed.

Lemma tok_ok_bracket p l : clean p -> Forall (fun b => b <> 91 /\ b <> 93) l -> tok_ok (p ++ 91 :: l ++ [93]).
Proof.
  intros Hc Hl. destruct is_sep_brackets as [S1 S2]. split.
  - destruct p as [|c p']; [exists 91, (l ++ [93]); split; [reflexivity|exact S1]|].
    exists c, (p' ++ 91 :: l ++ [93]). split; [reflexivity|].
    inversion Hc as [|? ? Hb _]; subst. now apply name_char_facts in Hb.
  - intros X HX. rewrite <- app_assoc. rewrite scan_tok_clean by assumption.
    cbn [app]. rewrite scan_tok_cons. rewrite S1. cbn [andb]. cbv zeta.
    replace (91 =? 91) with true by reflexivity. change (0 + 1)%Z with 1%Z.
    rewrite <- app_assoc. rewrite scan_tok_inner by assumption. cbn [app].
    rewrite scan_tok_cons. cbn [Z.eqb andb]. cbv zeta.
    replace (93 =? 91) with false by reflexivity. replace (93 =? 93) with true by reflexivity. change (1 - 1)%Z with 0%Z.
    rewrite scan_tok_end by assumption. reflexivity.
Qed.

Lemma drop_seps_tok t X : tok_ok t -> drop_seps (t ++ X) = t ++ X.
Proof. intros [(c & t' & -> & Hc) _]. cbn [app drop_seps]. now rewrite Hc. Qed.

Lemma next_tok_tok t X : tok_ok t -> sep_headed X -> next_tok (t ++ X) = Some (t, drop_seps X).
Proof.
  intros Ht HX. unfold next_tok. rewrite (drop_seps_tok t X Ht).
  destruct Ht as [(c & t' & E & Hc) Hs]. specialize (Hs X HX). subst t. cbn [app] in *. now rewrite Hs.
Qed.

Lemma join_commas_cons2 (x y : text) l : join_commas (x :: y :: l) = x ++ 44 :: join_commas (y :: l).
Proof. reflexivity. Qed.

Lemma join_commas_head (y : text) l : exists Y, join_commas (y :: l) = y ++ Y /\ sep_headed Y.
Proof.
  destruct l as [|z l]; [exists []; split; [now rewrite app_nil_r | exact I]|].
  exists (44 :: join_commas (z :: l)). split; [reflexivity | exact is_sep_comma].
Qed.

(* the token loop of _hostlist_create_bracketed as a fold over the tokens *)
Fixpoint create_toks (h : hostlist) (ts : list text) : outcome (option hostlist) :=
  match ts with
  | [] => Ok (Some h)
  | t :: ts' => bind (create_token h t) (fun o => match o with None => Ok None | Some h' => create_toks h' ts' end)
  end.

Lemma create_loop_nil fuel h : (0 < fuel)%nat -> create_loop fuel h [] = Ok (Some h).
Proof. destruct fuel; [lia|]. reflexivity. Qed.

Lemma create_loop_toks ts : forall fuel h0, Forall tok_ok ts -> (length (join_commas ts) < fuel)%nat ->
  create_loop fuel h0 (join_commas ts) = create_toks h0 ts.
Proof.
  induction ts as [|t ts IH]; intros fuel h0 Hts Hf.
  - now apply create_loop_nil.
  - inversion Hts as [|? ? Ht Hts']; subst.
    destruct fuel as [|f]; [lia|].
    destruct ts as [|t2 l].
    + cbn [join_commas] in *. cbn [create_loop create_toks].
      rewrite <- (app_nil_r t) at 1. rewrite (next_tok_tok t [] Ht I). cbn [drop_seps].
      assert (Hl : (0 < length t)%nat) by (destruct Ht as [(c & t' & -> & _) _]; cbn; lia).
      destruct (create_token h0 t) as [[h'|]| | | |]; cbn [bind]; try reflexivity.
      apply create_loop_nil. lia.
    + rewrite join_commas_cons2 in *. cbn [create_loop create_toks].
      rewrite (next_tok_tok t (44 :: join_commas (t2 :: l)) Ht is_sep_comma).
      inversion Hts' as [|? ? Ht2 _]; subst.
      assert (Hd : drop_seps (44 :: join_commas (t2 :: l)) = join_commas (t2 :: l)).
      { cbn [drop_seps]. rewrite is_sep_comma. destruct (join_commas_head t2 l) as (Y & HY & _). rewrite HY. apply (drop_seps_tok t2 Y Ht2). }
      rewrite Hd.
      rewrite app_length in Hf. cbn [length] in Hf.
      destruct (create_token h0 t) as [[h'|]| | | |]; cbn [bind]; try reflexivity.
      apply IH; [assumption|lia].
Qed.

(* ---------------------------------------------------------------- hostlist_ranged_string as a list of tokens *)
Fixpoint toks (f : nat) (h : hostlist) : list text :=
  match f, h with
  | _, [] => []
  | O, _ => []
  | S f', r :: rest => let (g, o) := take_group r rest in bracketed r g (hd_error rest) :: toks f' o
  end.

Lemma toks_nil f : toks f [] = [].
Proof. destruct f; reflexivity. Qed.

Lemma within_range_fields a b : within_range a b = true ->
  hr_prefix a = hr_prefix b /\ hr_single a = false /\ hr_single b = false.
Proof.
  unfold within_range. intros H. apply andb_true_iff in H as [H1 H2]. apply prefix_cmp_0 in H1 as [Hp Hs].
  apply negb_true_iff in H2. apply orb_false_iff in H2 as [Ha Hb]. auto.
Qed.

Lemma within_range_of_fields a b : hr_prefix a = hr_prefix b -> hr_single a = false -> hr_single b = false -> within_range a b = true.
Proof.
  intros Hp Ha Hb. unfold within_range, prefix_cmp. rewrite Hp, text_cmp_refl, Ha, Hb. reflexivity.
Qed.

Lemma take_group_spec : forall rest prev g o, take_group prev rest = (g, o) ->
  rest = g ++ o /\ Forall (fun x => hr_prefix x = hr_prefix prev /\ hr_single x = false) g
  /\ (g <> [] -> hr_single prev = false)
  /\ (g = [] -> match rest with x :: _ => within_range x prev = false | [] => True end).
Proof.
  induction rest as [|r rest IH]; intros prev g o H; cbn [take_group] in H.
  - inversion H; subst. repeat split; auto. congruence.
  - destruct (within_range r prev) eqn:Ew.
    + destruct (take_group r rest) as [g1 o1] eqn:E. inversion H; subst; clear H.
      destruct (IH _ _ _ E) as (H1 & H2 & _ & _). apply within_range_fields in Ew as (Hp & Hr & Hpv).
      repeat split; auto.
      * cbn [app]. now f_equal.
      * constructor; [auto|]. eapply Forall_impl; [|exact H2]. cbv beta. intros x [Hx1 Hx2]. split; congruence.
      * discriminate.
    + inversion H; subst. repeat split; auto. congruence.
Qed.

Lemma ranged_acc_toks f : forall h acc, (length h <= f)%nat -> Forall (fun t => t <> []) (toks f h) ->
  ranged_acc f h acc = acc ++ join_commas (toks f h).
Proof.
  induction f as [|f IH]; intros h acc Hl Hne.
  - destruct h; [|cbn in Hl; lia]. cbn. now rewrite app_nil_r.
  - destruct h as [|r rest]; [cbn; now rewrite app_nil_r|].
    cbn [ranged_acc toks] in *. destruct (take_group r rest) as [g o] eqn:E.
    destruct (take_group_spec _ _ _ _ E) as (Hrest & _).
    inversion Hne as [|? ? Htok Hne']; subst.
    destruct o as [|x o'].
    + rewrite toks_nil. reflexivity.
    + assert (Hlo : (length (x :: o') <= f)%nat).
      { cbn [length] in Hl. rewrite app_length in Hl. lia. }
      assert (Hpos : (0 <? length (acc ++ bracketed r g (hd_error (g ++ x :: o'))))%nat = true).
      { apply Nat.ltb_lt. rewrite app_length. destruct (bracketed r g (hd_error (g ++ x :: o'))); [congruence|cbn; lia]. }
      rewrite Hpos. rewrite IH by assumption.
      destruct f as [|f']; [cbn in Hlo; lia|].
      destruct (toks (S f') (x :: o')) as [|y l] eqn:Et.
      { cbn [toks] in Et. destruct (take_group x o'). discriminate. }
      rewrite join_commas_cons2. rewrite <- !app_assoc. reflexivity.
Qed.

(* ---------------------------------------------------------------- numbers inside brackets *)
Lemma digit_val_pad w n : fits n -> digit_val (pad w n) = n.
Proof. intros H. unfold pad. rewrite digit_val_zeros. now apply digit_val_dec. Qed.

Lemma numchar_pad w n : fits n -> Forall numchar (pad w n).
Proof. intros H. eapply Forall_impl; [|apply (all_digit_pad w n H)]. intros b Hb. now left. Qed.

Lemma pad_no c w n : fits n -> (c < 48 \/ 57 < c) -> ~ In c (pad w n).
Proof.
  intros Hf Hc Hin. pose proof (all_digit_pad w n Hf) as H. unfold all_digit in H. rewrite Forall_forall in H.
  apply H in Hin. apply is_digit_range in Hin. lia.
Qed.

Lemma strtoul_pad w n : n < ULONG_MAX -> strtoul (pad w n) = (n, length (pad w n)).
Proof.
  intros Hn. assert (Hf : fits n) by (apply W64_fits; unfold W64, ULONG_MAX in *; lia).
  rewrite strtoul_digits; [|apply pad_nonempty|now apply all_digit_pad]. rewrite digit_val_pad by assumption.
  destruct (N.ltb_spec ULONG_MAX n); [lia|reflexivity].
Qed.

Definition starts45 (p : option text) : bool := match p with Some (45 :: _) => true | _ => false end.

Lemma starts45_cons c pr : c <> 45 -> starts45 (Some (c :: pr)) = false.
Proof.
  intros H. unfold starts45. destruct c as [|p]; [reflexivity|].
  do 7 (try (destruct p as [p|p|]; try reflexivity; try congruence)).
Qed.

Lemma parse_single_range_unfold s : parse_single_range s =
  let (str, p) := match split_first 45 s with
                  | Some (a, b) => (a, Some b)
                  | None => (s, None)
                  end in
  if starts45 p then None
  else
    let (lo, used) := strtoul str in
    if Nat.eqb used 0 then None
    else
      let (hi, endok) := match p with
                         | Some (c :: pr) => let (v, u) := strtoul (c :: pr) in
                                             (v, negb (Nat.eqb u 0) && Nat.eqb u (length (c :: pr)))
                         | _ => (lo, Nat.eqb used (length str))
                         end in
      if negb endok then None
      else if hi <? lo then None
      else if GenHL.MAX_RANGE <=? sub64 hi lo then None
      else Some {| pr_lo := lo; pr_hi := hi; pr_width := length str |}.
Proof. reflexivity. Qed.

Definition item_ok (r : hrange) : Prop :=
  hr_single r = false /\ hr_lo r <= hr_hi r /\ hr_hi r < ULONG_MAX /\ hr_hi r - hr_lo r < GenHL.MAX_RANGE.

Definition to_prange (r : hrange) : prange :=
  {| pr_lo := hr_lo r; pr_hi := hr_hi r; pr_width := Nat.max (hr_width r) (ndigits (hr_lo r)) |}.

Lemma pad_length_pos w n : (0 < length (pad w n))%nat.
Proof. destruct (pad w n) eqn:E; [now apply pad_nonempty in E | cbn; lia]. Qed.

Lemma parse_single_range_pad w lo hi : lo <= hi -> hi < ULONG_MAX -> hi - lo < GenHL.MAX_RANGE ->
  parse_single_range (pad w lo ++ (if lo <? hi then 45 :: pad w hi else []))
  = Some {| pr_lo := lo; pr_hi := hi; pr_width := Nat.max w (ndigits lo) |}.
Proof.
  intros Hl Hh Hm.
  assert (Hlo : lo < ULONG_MAX) by lia.
  assert (Hlo64 : lo < W64) by (unfold W64, ULONG_MAX in *; lia).
  assert (Hhi64 : hi < W64) by (unfold W64, ULONG_MAX in *; lia).
  assert (Hflo : fits lo) by (now apply W64_fits).
  assert (Hfhi : fits hi) by (now apply W64_fits).
  pose proof (strtoul_pad w lo Hlo) as Slo. pose proof (strtoul_pad w hi Hh) as Shi.
  assert (Hn : Nat.eqb (length (pad w lo)) 0 = false) by (apply Nat.eqb_neq; pose proof (pad_length_pos w lo); lia).
  assert (Hw : length (pad w lo) = Nat.max w (ndigits lo)) by (now apply pad_len).
  rewrite parse_single_range_unfold.
  destruct (N.ltb_spec lo hi) as [Hlt|Hge].
  - rewrite split_first_app by (apply pad_no; [assumption|lia]). cbv beta iota.
    destruct (pad w hi) as [|c pr] eqn:Ep; [now apply pad_nonempty in Ep|].
    assert (Hc : c <> 45).
    { pose proof (all_digit_pad w hi Hfhi) as Hd. rewrite Ep in Hd. inversion Hd as [|? ? Hc _]; subst. apply is_digit_range in Hc. lia. }
    rewrite starts45_cons by exact Hc. rewrite Slo, Hn. rewrite Shi.
    cbn [length Nat.eqb negb andb]. rewrite Nat.eqb_refl. cbn [negb].
    destruct (N.ltb_spec hi lo); [lia|].
    rewrite sub64_small by assumption.
    destruct (N.leb_spec GenHL.MAX_RANGE (hi - lo)); [lia|]. now rewrite Hw.
  - assert (E : hi = lo) by lia. subst hi. rewrite app_nil_r.
    rewrite split_first_none by (apply pad_no; [assumption|lia]). cbv beta iota.
    cbn [starts45]. rewrite Slo, Hn. rewrite Nat.eqb_refl. cbn [negb].
    destruct (N.ltb_spec lo lo); [lia|].
    rewrite sub64_small by (assumption || lia).
    destruct (N.leb_spec GenHL.MAX_RANGE (lo - lo)); [lia|]. now rewrite Hw.
Qed.

Lemma parse_single_range_numstr r : item_ok r -> parse_single_range (numstr r) = Some (to_prange r).
Proof.
  intros (Es & Hl & Hh & Hm). unfold numstr, to_prange. rewrite Es. now apply parse_single_range_pad.
Qed.

Lemma numstr_chars r : item_ok r -> Forall numchar (numstr r) /\ numstr r <> [].
Proof.
  intros (Es & Hl & Hh & _). unfold numstr. rewrite Es.
  assert (Hflo : fits (hr_lo r)) by (apply W64_fits; unfold W64, ULONG_MAX in *; lia).
  assert (Hfhi : fits (hr_hi r)) by (apply W64_fits; unfold W64, ULONG_MAX in *; lia).
  split.
  - apply Forall_app. split; [now apply numchar_pad|].
    destruct (hr_lo r <? hr_hi r); [|constructor]. constructor; [now right | now apply numchar_pad].
  - intros E. apply app_eq_nil in E as [E _]. now apply pad_nonempty in E.
Qed.

Lemma numchar_not c l : Forall numchar l -> (c = 44 \/ c = 91 \/ c = 93) -> ~ In c l.
Proof.
  intros H Hc Hin. rewrite Forall_forall in H. apply H in Hin. apply numchar_facts in Hin. lia.
Qed.

Lemma parse_range_list_items : forall rs fuel cnt, rs <> [] -> Forall item_ok rs -> (length rs <= fuel)%nat ->
  cnt + N.of_nat (length rs) <= GenHL.RANGES_LEN_ARG ->
  parse_range_list fuel (join_commas (map numstr rs)) cnt = Ok (Some (map to_prange rs)).
Proof.
  induction rs as [|r rs IH]; intros fuel cnt Hne Hok Hf Hc; [congruence|].
  inversion Hok as [|? ? Hr Hrs]; subst.
  destruct fuel as [|f]; [cbn in Hf; lia|].
  pose proof ranges_array_holds_len_arg as Harr.
  cbn [length] in Hc, Hf.
  cbn [parse_range_list].
  destruct (N.eqb_spec cnt GenHL.RANGES_LEN_ARG) as [?|_]; [lia|].
  destruct (N.leb_spec GenHL.RANGES_ARRAY cnt) as [?|_]; [lia|].
  destruct (numstr_chars r Hr) as [Hch _].
  destruct rs as [|r2 l].
  - cbn [map join_commas]. rewrite split_first_none by (apply numchar_not; auto).
    now rewrite (parse_single_range_numstr r Hr).
  - cbn [map]. rewrite join_commas_cons2. rewrite split_first_app by (apply numchar_not; auto).
    rewrite (parse_single_range_numstr r Hr).
    change (numstr r2 :: map numstr l) with (map numstr (r2 :: l)).
    rewrite IH; [reflexivity|discriminate|assumption|cbn [length] in *; lia|cbn [length] in *; lia].
Qed.

Lemma join_commas_chars (l : list text) (P : byte -> Prop) : P 44 -> Forall (Forall P) l -> Forall P (join_commas l).
Proof.
  intros H44. induction 1 as [|x l Hx Hl IH]; [constructor|].
  destruct l as [|y l']; [exact Hx|]. rewrite join_commas_cons2. apply Forall_app. split; [exact Hx|].
  constructor; [exact H44|exact IH].
Qed.

Lemma join_commas_length (l : list text) : Forall (fun x => x <> []) l -> (length l <= S (length (join_commas l)))%nat.
Proof.
  induction 1 as [|x l Hx Hl IH]; [cbn; lia|].
  destruct l as [|y l']; [cbn; lia|]. rewrite join_commas_cons2, app_length. cbn [length] in *.
  destruct x; [congruence|]. cbn [length]. unfold text, byte in *. lia.
Qed.

(* ---------------------------------------------------------------- one token *)
Lemma CUR_TOK_consts : (GenHL.CUR_TOK_TERMINATED =? 1) = true /\ GenHL.CUR_TOK_COPY < GenHL.CUR_TOK_SIZE.
Proof. split; reflexivity. Qed.

Lemma create_token_plain h t : clean t -> N.of_nat (length t) < GenHL.CUR_TOK_COPY ->
  create_token h t = Ok (Some (push_host h t)).
Proof.
  intros Hc Hl. destruct (clean_no_bracket t Hc) as [H1 H2]. unfold create_token.
  rewrite (split_first_none 91 t H1), (split_first_none 93 t H2).
  destruct (N.ltb_spec (N.of_nat (length t)) GenHL.CUR_TOK_COPY); [reflexivity|lia].
Qed.

Lemma create_token_bracket h (p lst : text) : clean p -> ~ In 93 lst ->
  create_token h (p ++ 91 :: lst ++ [93]) =
  bind (parse_range_list (S (length lst)) lst 0) (fun o =>
    match o with None => Ok None | Some rs => Ok (Some (push_range_list h p rs)) end).
Proof.
  intros Hc Hl. destruct (clean_no_bracket p Hc) as [H1 _]. unfold create_token.
  rewrite (split_first_app 91 p _ H1). cbv beta iota. rewrite split_first_app by exact Hl. reflexivity.
Qed.

(* the parser takes the printed length of lo as the width: no member changes its spelling *)
Lemma zp_max_width w lo k : lo <= k -> fits k -> zp k (Nat.max w (ndigits lo)) = zp k w.
Proof. intros Hk Hf. pose proof (ndigits_mono _ _ Hk Hf). unfold zp. lia. Qed.

Lemma names_to_prange pfx r : item_ok r ->
  names (mk_range pfx (pr_lo (to_prange r)) (pr_hi (to_prange r)) (pr_width (to_prange r)))
  = names (mk_range pfx (hr_lo r) (hr_hi r) (hr_width r))
  /\ wf_range (mk_range pfx (pr_lo (to_prange r)) (pr_hi (to_prange r)) (pr_width (to_prange r))).
Proof.
  intros (Es & Hl & Hh & _). unfold to_prange; cbn [pr_lo pr_hi pr_width]. split.
  - unfold names, mk_range; cbn [hr_single hr_prefix hr_lo hr_hi hr_width].
    apply map_ext_in. intros k Hk. apply nseq_In in Hk. f_equal. apply pad_zp. apply zp_max_width; [lia|].
    apply W64_fits. unfold W64, ULONG_MAX in *. lia.
  - unfold wf_range, mk_range; cbn [hr_single hr_lo hr_hi]. auto.
Qed.

Lemma push_hr_sound pfx r h0 : wf h0 -> item_ok r ->
  expand (push_hr h0 pfx (to_prange r)) = expand h0 ++ names (mk_range pfx (hr_lo r) (hr_hi r) (hr_width r))
  /\ wf (push_hr h0 pfx (to_prange r)).
Proof.
  intros Hwf Hr. destruct (names_to_prange pfx r Hr) as [Hn Hw]. unfold push_hr.
  destruct (push_range h0 _) as [[h1 r1] a] eqn:E. cbn [fst].
  destruct (push_range_sound _ _ _ _ _ E Hwf Hw) as (He & Hw1 & _). split; [|exact Hw1]. now rewrite He, Hn.
Qed.

Lemma push_range_list_sound pfx : forall rs h0, wf h0 -> Forall item_ok rs ->
  expand (push_range_list h0 pfx (map to_prange rs))
  = expand h0 ++ flat_map (fun r => names (mk_range pfx (hr_lo r) (hr_hi r) (hr_width r))) rs
  /\ wf (push_range_list h0 pfx (map to_prange rs)).
Proof.
  unfold push_range_list.
  induction rs as [|r rs IH]; intros h0 Hwf Hok; cbn [map fold_left flat_map].
  - now rewrite app_nil_r.
  - inversion Hok as [|? ? Hr Hrs]; subst.
    destruct (push_hr_sound pfx r h0 Hwf Hr) as [He Hw1].
    destruct (IH _ Hw1 Hrs) as [He2 Hw2]. split; [|exact Hw2].
    rewrite He2, He. now rewrite app_assoc.
Qed.

Lemma mk_range_self r : hr_single r = false -> mk_range (hr_prefix r) (hr_lo r) (hr_hi r) (hr_width r) = r.
Proof. destruct r; cbn. now intros ->. Qed.

(* ---------------------------------------------------------------- one group of ranges = one token *)
Lemma range_ok_item r : range_ok r -> hr_single r = false -> item_ok r.
Proof. intros [_ H] Es. rewrite Es in H. unfold item_ok. tauto. Qed.

Lemma bracket_needed_single r next : hr_single r = true -> bracket_needed r next = false.
Proof.
  intros Es. unfold bracket_needed, hr_count, within_range. rewrite Es. cbn [orb negb].
  destruct next; [now rewrite andb_false_r | reflexivity].
Qed.

Lemma flat_map_ext_Forall {A B} (f g : A -> list B) l : Forall (fun x => f x = g x) l -> flat_map f l = flat_map g l.
Proof. induction 1 as [|x l Hx _ IH]; cbn [flat_map]; [reflexivity|]. now rewrite Hx, IH. Qed.

Lemma numchar_not_brackets l : Forall numchar l -> Forall (fun b : byte => b <> 91 /\ b <> 93) l.
Proof. intros H. eapply Forall_impl; [|exact H]. intros b Hb. apply numchar_facts in Hb. tauto. Qed.

Lemma token_sound r g next h0 :
  range_ok r -> Forall range_ok g ->
  Forall (fun x => hr_prefix x = hr_prefix r /\ hr_single x = false) g ->
  (bracket_needed r next = false -> g = []) ->
  N.of_nat (S (length g)) <= GenHL.RANGES_LEN_ARG -> wf h0 ->
  tok_ok (bracketed r g next) /\
  exists h1, create_token h0 (bracketed r g next) = Ok (Some h1) /\ expand h1 = expand h0 ++ names r ++ expand g /\ wf h1.
Proof.
  intros Hr Hg Hgrp Hnb Hlen Hwf. unfold bracketed.
  pose proof Hr as [Hclean Hrk].
  destruct (bracket_needed r next) eqn:Eb.
  - (* prefix[items] *)
    destruct (hr_single r) eqn:Es; [rewrite (bracket_needed_single r next Es) in Eb; discriminate|].
    assert (Hitems : Forall item_ok (r :: g)).
    { constructor; [now apply range_ok_item|]. rewrite Forall_forall in *. intros x Hx.
      apply range_ok_item; [now apply Hg | now apply Hgrp]. }
    assert (Hchars : Forall (Forall numchar) (map numstr (r :: g))).
    { apply Forall_map. eapply Forall_impl; [|exact Hitems]. intros x Hx. now apply numstr_chars. }
    assert (Hne : Forall (fun x : text => x <> []) (map numstr (r :: g))).
    { apply Forall_map. eapply Forall_impl; [|exact Hitems]. intros x Hx. now apply numstr_chars. }
    set (lst := join_commas (map numstr (r :: g))) in *.
    assert (Hlst : Forall (fun b : byte => b <> 91 /\ b <> 93) lst).
    { apply join_commas_chars; [split; discriminate|].
      eapply Forall_impl; [|exact Hchars]. intros x. apply numchar_not_brackets. }
    split; [now apply tok_ok_bracket|].
    assert (H93 : ~ In 93 lst). { intros Hin. rewrite Forall_forall in Hlst. apply Hlst in Hin. tauto. }
    rewrite (create_token_bracket h0 (hr_prefix r) lst Hclean H93).
    pose proof (join_commas_length _ Hne) as Hfuel. rewrite map_length in Hfuel. fold lst in Hfuel.
    unfold lst at 2. rewrite parse_range_list_items; [|discriminate|exact Hitems|exact Hfuel|cbn [length] in *; lia].
    cbn [bind]. eexists. split; [reflexivity|].
    destruct (push_range_list_sound (hr_prefix r) (r :: g) h0 Hwf Hitems) as [He Hw]. split; [|exact Hw].
    rewrite He. f_equal. change (names r ++ expand g) with (flat_map names (r :: g)).
    apply flat_map_ext_Forall. constructor.
    + now rewrite mk_range_self.
    + eapply Forall_impl; [|exact Hgrp]. cbv beta. intros x [Hp Hs]. rewrite <- Hp. now rewrite mk_range_self.
  - (* a lone name: the plain prefix, or prefix ++ number *)
    rewrite (Hnb eq_refl). cbn [expand flat_map]. rewrite app_nil_r.
    assert (Htok : clean (hr_prefix r ++ numstr r) /\ hr_prefix r ++ numstr r <> []
                   /\ N.of_nat (length (hr_prefix r ++ numstr r)) < GenHL.CUR_TOK_COPY /\ names r = [hr_prefix r ++ numstr r]).
    { unfold numstr, names. destruct (hr_single r) eqn:Es.
      - rewrite app_nil_r. destruct Hrk as [Hne Hl]. auto.
      - destruct Hrk as (Hl & Hh & Hm & Hlen').
        assert (Hwr : wf_range r) by (unfold wf_range; rewrite Es; auto).
        assert (Hcnt : hr_hi r = hr_lo r).
        { unfold bracket_needed in Eb. apply orb_false_iff in Eb as [Eb _]. apply N.ltb_ge in Eb.
          rewrite (hr_count_wf r Hwr), names_length in Eb by assumption. rewrite Es in Eb. unfold rcount in Eb. lia. }
        rewrite Hcnt. rewrite N.ltb_irrefl, app_nil_r.
        assert (Hf : fits (hr_lo r)) by (apply W64_fits; unfold W64, ULONG_MAX in *; lia).
        replace (N.to_nat (hr_lo r + 1 - hr_lo r)) with 1%nat by lia. cbn [nseq map].
        repeat split.
        + apply clean_app; [assumption|]. apply clean_digits. now apply all_digit_pad.
        + intros E. apply app_eq_nil in E as [_ E]. now apply pad_nonempty in E.
        + rewrite app_length, pad_len by assumption. exact Hlen'. }
    destruct Htok as (Hc & Hne & Hl & Hn).
    split; [now apply tok_ok_plain|].
    rewrite (create_token_plain h0 _ Hc Hl). eexists. split; [reflexivity|].
    destruct (push_host_sound h0 (hr_prefix r ++ numstr r) Hwf) as [He Hw]. split; [|exact Hw]. now rewrite He, Hn.
Qed.

Lemma toks_sound f : forall h h0, (length h <= f)%nat -> Forall range_ok h ->
  N.of_nat (length h) <= GenHL.RANGES_LEN_ARG -> wf h0 ->
  Forall tok_ok (toks f h) /\
  exists h1, create_toks h0 (toks f h) = Ok (Some h1) /\ expand h1 = expand h0 ++ expand h /\ wf h1.
Proof.
  induction f as [|f IH]; intros h h0 Hl Hok Hlen Hwf.
  - destruct h; [|cbn in Hl; lia]. cbn. split; [constructor|]. exists h0. now rewrite app_nil_r.
  - destruct h as [|r rest].
    { cbn. split; [constructor|]. exists h0. now rewrite app_nil_r. }
    cbn [toks]. destruct (take_group r rest) as [g o] eqn:E.
    destruct (take_group_spec _ _ _ _ E) as (Hrest & Hgrp & Hrs & _).
    inversion Hok as [|? ? Hr Hrest_ok]; subst rest. apply Forall_app in Hrest_ok as [Hg Ho].
    cbn [length] in Hl, Hlen. rewrite app_length in Hl, Hlen.
    assert (Hnb : bracket_needed r (hd_error (g ++ o)) = false -> g = []).
    { intros Eb. destruct g as [|y g']; [reflexivity|]. exfalso.
      pose proof (Forall_inv Hgrp) as [Hp Hs]. cbn [app hd_error] in Eb. unfold bracket_needed in Eb.
      rewrite (within_range_of_fields r y) in Eb; [now rewrite orb_true_r in Eb|congruence|apply Hrs; discriminate|assumption]. }
    destruct (token_sound r g (hd_error (g ++ o)) h0 Hr Hg Hgrp Hnb ltac:(lia) Hwf) as (Htok & h1 & Hct & He1 & Hw1).
    destruct (IH o h1 ltac:(lia) Ho ltac:(lia) Hw1) as (Htoks & h2 & Hct2 & He2 & Hw2).
    split; [now constructor|]. exists h2. split; [|split; [|exact Hw2]].
    + cbn [create_toks]. rewrite Hct. cbn [bind]. exact Hct2.
    + rewrite He2, He1, expand_cons, expand_app. now rewrite <- !app_assoc.
Qed.

(* ---------------------------------------------------------------- C14_roundtrip *)
Theorem roundtrip h : printable h = true ->
  exists h', create (ranged_string h) = Ok (Some h') /\ expand h' = expand h /\ wf h'.
Proof.
  intros Hp. apply printable_ok in Hp as [Hok Hlen].
  destruct (toks_sound (length h) h [] (le_n _) Hok Hlen (Forall_nil _)) as (Htoks & h1 & Hct & He & Hw).
  assert (Hne : Forall (fun t : text => t <> []) (toks (length h) h)).
  { eapply Forall_impl; [|exact Htoks]. intros t [(c & t' & -> & _) _]. discriminate. }
  exists h1. split; [|split; [exact He | exact Hw]].
  unfold create, ranged_string. rewrite (ranged_acc_toks (length h) h [] (le_n _) Hne). cbn [app].
  rewrite create_loop_toks; [exact Hct | exact Htoks | lia].
Qed.

(* the same guard stated on the names alone: every name is non-empty, free of separators and brackets and fits
   cur_tok; there are at most min(MAX_RANGE, RANGES_LEN_ARG) of them *)
Definition legal (n : text) : bool :=
  cleanb n && negb (Nat.eqb (length n) 0) && (N.of_nat (length n) <? GenHL.CUR_TOK_COPY).

Lemma legal_facts n : legal n = true -> clean n /\ n <> [] /\ N.of_nat (length n) < GenHL.CUR_TOK_COPY.
Proof.
  unfold legal. intros H. apply andb_true_iff in H as [H H3]. apply andb_true_iff in H as [H1 H2].
  apply N.ltb_lt in H3. apply forallb_Forall in H1. repeat split; auto. intros E. rewrite E in H2. discriminate.
Qed.

Lemma clean_cleanb p : clean p -> cleanb p = true.
Proof. intros H. now apply forallb_Forall. Qed.

Lemma names_nonempty r : wf_range r -> (1 <= length (names r))%nat.
Proof.
  intros Hwf. rewrite names_length by assumption. unfold wf_range, rcount in *. destruct (hr_single r); [lia|]. lia.
Qed.

Lemma length_le_expand h : wf h -> (length h <= length (expand h))%nat.
Proof.
  induction 1 as [|r h Hr _ IH]; [cbn; lia|]. rewrite expand_cons, app_length. cbn [length].
  pose proof (names_nonempty r Hr). lia.
Qed.

Lemma printable_of_names h : wf h -> Forall (fun n => legal n = true) (expand h) ->
  N.of_nat (length (expand h)) <= GenHL.MAX_RANGE -> N.of_nat (length (expand h)) <= GenHL.RANGES_LEN_ARG ->
  printable h = true.
Proof.
  intros Hwf Hleg Hmr Hml. unfold printable. apply andb_true_iff. split.
  2:{ apply N.leb_le. pose proof (length_le_expand h Hwf). lia. }
  apply forallb_Forall. clear Hml.
  induction Hwf as [|r h Hr Hwf IH]; [constructor|].
  rewrite expand_cons in Hleg, Hmr. apply Forall_app in Hleg as [Hlr Hlh]. rewrite app_length in Hmr.
  constructor; [|apply IH; [assumption|lia]].
  pose proof (names_length r Hr) as Hnl.
  unfold printable_range. unfold wf_range in Hr. unfold names in Hlr. destruct (hr_single r) eqn:Es.
  - inversion Hlr as [|? ? Hl0 _]; subst. apply legal_facts in Hl0 as (Hc & Hne & Hl).
    rewrite (clean_cleanb _ Hc). cbn [andb]. apply andb_true_iff. split; [|now apply N.ltb_lt].
    apply negb_true_iff, Nat.eqb_neq. destruct (hr_prefix r); [congruence|cbn; lia].
  - destruct Hr as [Hlo Hhi]. unfold rcount in Hnl.
    assert (Hf : fits (hr_lo r)) by (apply W64_fits; unfold W64, ULONG_MAX in *; lia).
    replace (N.to_nat (hr_hi r + 1 - hr_lo r)) with (S (N.to_nat (hr_hi r - hr_lo r))) in Hlr by lia.
    cbn [nseq map] in Hlr. inversion Hlr as [|? ? Hl0 _]; subst. apply legal_facts in Hl0 as (Hc & _ & Hl).
    apply Forall_app in Hc as [Hc _]. rewrite (clean_cleanb _ Hc). cbn [andb].
    rewrite app_length, pad_len in Hl by assumption.
    repeat (apply andb_true_iff; split); [now apply N.leb_le | now apply N.ltb_lt | apply N.ltb_lt; lia | now apply N.ltb_lt].
Qed.

Theorem roundtrip_names h : wf h -> Forall (fun n => legal n = true) (expand h) ->
  N.of_nat (length (expand h)) <= GenHL.MAX_RANGE -> N.of_nat (length (expand h)) <= GenHL.RANGES_LEN_ARG ->
  exists h', create (ranged_string h) = Ok (Some h') /\ expand h' = expand h /\ wf h'.
Proof. intros. apply roundtrip. now apply printable_of_names. Qed.

(* compress a list of names, expand the result: the same names in the same order *)
Theorem compress_expand ns : Forall (fun n => legal n = true) ns ->
  N.of_nat (length ns) <= GenHL.MAX_RANGE -> N.of_nat (length ns) <= GenHL.RANGES_LEN_ARG ->
  exists h', create (ranged_string (fold_left push_host ns [])) = Ok (Some h') /\ expand h' = ns /\ wf h'.
Proof.
  intros Hl H1 H2. destruct (fold_push_host ns [] (Forall_nil _)) as [He Hw]. cbn [expand flat_map app] in He.
  destruct (roundtrip_names _ Hw) as (h' & Hc & He' & Hw'); try (rewrite He; assumption).
  exists h'. rewrite He in He'. auto.
Qed.

(* expanded notation a,b,c (no brackets) denotes exactly the names written *)
Lemma create_toks_plain ns : forall h0, wf h0 -> Forall (fun n => legal n = true) ns ->
  exists h1, create_toks h0 ns = Ok (Some h1) /\ expand h1 = expand h0 ++ ns /\ wf h1.
Proof.
  induction ns as [|n ns IH]; intros h0 Hwf Hl; cbn [create_toks].
  - exists h0. now rewrite app_nil_r.
  - inversion Hl as [|? ? Hn Hns]; subst. destruct (legal_facts n Hn) as (Hc & _ & Hlen).
    rewrite (create_token_plain h0 n Hc Hlen). cbn [bind].
    destruct (push_host_sound h0 n Hwf) as [He Hw]. destruct (IH _ Hw Hns) as (h1 & H1 & H2 & H3).
    exists h1. split; [exact H1|]. split; [|exact H3]. rewrite H2, He. now rewrite <- app_assoc.
Qed.

Theorem create_plain_list ns : Forall (fun n => legal n = true) ns ->
  exists h', create (join_commas ns) = Ok (Some h') /\ expand h' = ns /\ wf h'.
Proof.
  intros Hl. destruct (create_toks_plain ns [] (Forall_nil _) Hl) as (h1 & H1 & H2 & H3).
  exists h1. split; [|auto]. unfold create. rewrite create_loop_toks; [exact H1| |lia].
  eapply Forall_impl; [|exact Hl]. intros n Hn. destruct (legal_facts n Hn) as (Hc & Hne & _). now apply tok_ok_plain.
Qed.

(* F35: a run of more than MAX_RANGE consecutively numbered names compresses to prefix[lo-hi], which
   hostlist_create refuses (ERANGE): the guard on the number of names cannot be dropped *)
Theorem roundtrip_refuted_long_run : exists h h0,
  create (bs "t[1-16384]"%string) = Ok (Some h0) /\ h = push_host h0 (bs "t16385"%string) /\
  wf h /\ small h /\ length h = 1%nat /\ N.of_nat (length (expand h)) = GenHL.MAX_RANGE + 1 /\
  create (ranged_string h) = Ok None.
Proof.
  exists [mk_range (bs "t"%string) 1 16385 1], [mk_range (bs "t"%string) 1 16384 1].
  split; [vm_compute; reflexivity|]. split; [vm_compute; reflexivity|].
  split; [constructor; [vm_compute; split; [discriminate|reflexivity]|constructor]|].
  split; [vm_compute; reflexivity|]. split; [reflexivity|]. split; [vm_compute; reflexivity|]. vm_compute. reflexivity.
Qed.

(* the three hops of a target list in powerman: the client compresses the names typed at the CLI (powerman.c), the
   daemon expands that text and acts on it (client.c), the daemon compresses the nodes it acted on into the reply and the
   client / a script expands the reply: every hop denotes the same names in the same order *)
Theorem three_hops ns : Forall (fun n => legal n = true) ns ->
  N.of_nat (length ns) <= GenHL.MAX_RANGE -> N.of_nat (length ns) <= GenHL.RANGES_LEN_ARG ->
  exists cli daemon reply,
    create (join_commas ns) = Ok (Some cli) /\ expand cli = ns /\
    create (ranged_string cli) = Ok (Some daemon) /\ expand daemon = ns /\
    create (ranged_string daemon) = Ok (Some reply) /\ expand reply = ns.
Proof.
  intros Hl H1 H2.
  destruct (create_plain_list ns Hl) as (cli & Hc & Ec & Wc).
  destruct (roundtrip_names cli Wc) as (daemon & Hd & Ed & Wd); try (rewrite Ec; assumption).
  destruct (roundtrip_names daemon Wd) as (reply & Hr & Er & Wr); try (rewrite Ed, Ec; assumption).
  exists cli, daemon, reply. rewrite Ec in Ed. rewrite Ed in Er. auto 10.
Qed.
