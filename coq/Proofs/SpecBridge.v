(* Bridge between C17 and the run-time theorems (C04, C07, C10, C12, C20): every specification shipped in etc/devices and
   t/etc, as regenerated into Gen/GenSpecs.v on every run, satisfies the configuration hypothesis `cfg_ok` of the
   device-layer invariant (Proofs/DeviceInv.v: a login script exists, no block is empty, every send format is one on
   which hsprintf is defined for whatever argument the plug list gives) - whatever device name, plug list, time-out and
   ping period the configuration file attaches to it.  Hence `boot` (Proofs/DaemonPending.v) holds of every daemon
   configured with shipped specifications only, and the whole-daemon theorems apply to it unconditionally. *)
From Coq Require Import List NArith ZArith Bool Lia.
From PM Require Import Base.Bytes Base.Outcome Gen.GenConsts Gen.GenSpecs Model.ScriptAst Model.Enqueue Model.Script Model.Device Model.DevHarness
                       Proofs.DeviceProofs Proofs.DeviceStmt Proofs.DeviceInv Model.DeviceFuel Proofs.DeviceFuel Proofs.DeviceHang.
Import ListNotations.

(* every % is followed by s or % *)
Fixpoint fmt_syntax_ok (fmt : text) : bool :=
  match fmt with
  | 37%N :: 115%N :: r => fmt_syntax_ok r
  | 37%N :: 37%N :: r => fmt_syntax_ok r
  | 37%N :: _ => false
  | _ :: r => fmt_syntax_ok r
  | [] => true
  end.
Definition fmt_b (fmt : text) : bool := fmt_syntax_ok fmt && Nat.leb (count_pct_s fmt) 1.

Lemma fmt_subst_total a : forall fuel fmt, (length fmt < fuel)%nat -> fmt_syntax_ok fmt = true -> exists str, fmt_subst fuel fmt a = Some str.
Proof.
  induction fuel as [|f IH]; intros fmt Hl Hs; [lia|].
  destruct fmt as [|c r]; [exists []; reflexivity|].
  cbn [length] in Hl.
  destruct (N.eq_dec c 37) as [->|Hc].
  - destruct r as [|c2 r2]; [cbn in Hs; discriminate|].
    cbn [length] in Hl.
    destruct (N.eq_dec c2 115) as [->|H115].
    + cbn [fmt_syntax_ok] in Hs. destruct (IH r2 ltac:(lia) Hs) as [x Hx]. cbn [fmt_subst]. rewrite Hx. eexists; reflexivity.
    + destruct (N.eq_dec c2 37) as [->|H37].
      * cbn [fmt_syntax_ok] in Hs. destruct (IH r2 ltac:(lia) Hs) as [x Hx]. cbn [fmt_subst]. rewrite Hx. eexists; reflexivity.
      * exfalso. clear -Hs H115 H37. cbn [fmt_syntax_ok] in Hs.
        destruct c2 as [|p]; [discriminate|]. do 8 (try destruct p as [p|p|]; try discriminate; try congruence).
  - assert (Hs' : fmt_syntax_ok r = true).
    { clear -Hs Hc. cbn [fmt_syntax_ok] in Hs. destruct c as [|p]; [exact Hs|]. do 8 (try destruct p as [p|p|]; try exact Hs; try congruence). }
    destruct (IH r ltac:(lia) Hs') as [x Hx]. exists (c :: x).
    clear -Hx Hc. cbn [fmt_subst]. destruct c as [|p]; [now rewrite Hx|]. do 8 (try destruct p as [p|p|]; try (now rewrite Hx); try congruence).
Qed.

Lemma fmt_b_sound fmt : fmt_b fmt = true -> forall a, exists str, hsprintf1 fmt a = Some str.
Proof.
  unfold fmt_b, hsprintf1. intros H a. apply andb_true_iff in H as [H1 H2]. apply Nat.leb_le in H2.
  destruct (Nat.ltb_spec 1 (count_pct_s fmt)); [lia|]. apply fmt_subst_total; [lia|exact H1].
Qed.

Fixpoint stmt_b (s : stmt) : bool :=
  match s with
  | Send fmt => fmt_b fmt
  | ForeachPlug b | ForeachNode b | IfOn b | IfOff b =>
      negb (match b with [] => true | _ => false end) && (fix go (l : list stmt) : bool := match l with [] => true | x :: r => stmt_b x && go r end) b
  | _ => true
  end.
Definition block_b (b : list stmt) : bool := negb (match b with [] => true | _ => false end) && forallb stmt_b b.
Definition scripts_b (l : list (Z * list stmt)) : bool :=
  (match assoc_script PM_LOG_IN l with Some _ => true | None => false end) && forallb (fun p => block_b (snd p)) l.

Section B.
  Variable compress : list text -> text.

  Lemma stmt_b_sound plugs : forall s, stmt_b s = true -> wf_stmt compress plugs s.
  Proof.
    fix IH 1. intros s.
    assert (Blk : forall l : list stmt,
              negb (match l with [] => true | _ => false end) &&
              (fix go (l0 : list stmt) : bool := match l0 with [] => true | x :: r => stmt_b x && go r end) l = true ->
              l <> [] /\ (fix go (l0 : list stmt) : Prop := match l0 with [] => True | x :: r => wf_stmt compress plugs x /\ go r end) l).
    { intros l H. apply andb_true_iff in H as [H1 H2]. split; [destruct l; [discriminate|congruence]|].
      clear H1. induction l as [|x r IHr]; [exact Logic.I|]. apply andb_true_iff in H2 as [A B]. split; [exact (IH x A)|exact (IHr B)]. }
    destruct s as [fmt|re|lit pm sm it|pm sm it|us|body|body|body|body]; cbn [stmt_b wf_stmt]; try (intros _; exact Logic.I).
    - intros H ps _. apply fmt_b_sound. exact H.
    - apply Blk.
    - apply Blk.
    - apply Blk.
    - apply Blk.
  Qed.

  Lemma block_b_sound plugs b : block_b b = true -> wf_block compress plugs b.
  Proof.
    unfold block_b, wf_block. intros H. apply andb_true_iff in H as [H1 H2]. split; [destruct b; [discriminate|congruence]|].
    rewrite forallb_forall in H2. apply Forall_forall. intros s Hs. apply stmt_b_sound. exact (H2 s Hs).
  Qed.

  Lemma assoc_script_In i : forall l b, assoc_script i l = Some b -> In (i, b) l.
  Proof. induction l as [|[j c] r IH]; intros b H; cbn in H; [discriminate|]. destruct (Z.eqb_spec i j) as [->|]; [inversion H; now left|right; auto]. Qed.

  Theorem scripts_b_cfg_ok scripts name plugs timeout ping :
    scripts_b scripts = true -> cfg_ok compress (mk_device name plugs scripts timeout ping).
  Proof.
    unfold scripts_b, cfg_ok. intros H. apply andb_true_iff in H as [H1 H2]. cbn [mk_device dv_scripts dv sd_plugs]. split.
    - destruct (assoc_script PM_LOG_IN scripts) as [s|]; [exists s; reflexivity|discriminate].
    - intros i s Hs. apply block_b_sound. rewrite forallb_forall in H2. exact (H2 (i, s) (assoc_script_In i scripts s Hs)).
  Qed.
End B.

(* the sweep over the regenerated data *)
Lemma shipped_scripts_ok : forallb (fun p => scripts_b (sp_scripts (snd p))) all_specs = true.
Proof. vm_compute. reflexivity. Qed.

Theorem shipped_cfg_ok compress file s name plugs timeout ping :
  In (file, s) all_specs -> cfg_ok compress (mk_device name plugs (sp_scripts s) timeout ping).
Proof.
  intros Hin. apply scripts_b_cfg_ok. pose proof shipped_scripts_ok as H. rewrite forallb_forall in H. exact (H (file, s) Hin).
Qed.

(* ---------- nesting depth (C07: the model's do..while round of _process_action has fuel 8; Proofs/DeviceHang.v needs every script of a
   device to nest its blocks at most DeviceFuel.DMAX = 7 deep: nest_ok).  The sweep below re-checks it for every shipped specification
   on every run; no shipped script nests a block inside a block: the maximum is 1 (shipped_max_depth). ---------- *)
Lemma shipped_scripts_nest : forallb (fun p => nest_b (sp_scripts (snd p))) all_specs = true.
Proof. vm_compute. reflexivity. Qed.

Theorem shipped_nest_ok file s : In (file, s) all_specs -> nest_ok (sp_scripts s).
Proof.
  intros Hin. apply nest_b_ok. pose proof shipped_scripts_nest as H. rewrite forallb_forall in H. exact (H (file, s) Hin).
Qed.

Definition max_depth (specs : list (text * spec)) : nat :=
  fold_right (fun p m => fold_right (fun q m' => Nat.max (depths (snd q)) m') m (sp_scripts (snd p))) O specs.
Lemma shipped_max_depth : max_depth all_specs = 1%nat.
Proof. vm_compute. reflexivity. Qed.

(* a device configured with a shipped specification starts in the Hang-free invariant DInvH, whatever name, plug list, time-out and ping
   period the configuration file gives it *)
Theorem shipped_invH compress file s name plugs timeout ping :
  In (file, s) all_specs ->
  DInvH compress (mk_device name plugs (sp_scripts s) timeout ping) /\ dv_cstate (mk_device name plugs (sp_scripts s) timeout ping) = DEV_NOT_CONNECTED.
Proof.
  intros Hin. apply mk_device_invH; [exact (shipped_cfg_ok compress file s name plugs timeout ping Hin)|exact (shipped_nest_ok file s Hin)].
Qed.
