(* list lemmas for the cbuf proofs: Z-indexed take/drop, rotation of the ring, the "window" view of a ring
   write (the ring read from the write cursor is the last S bytes of everything ever written), and the
   two-case normal form of x mod S for 0 <= x < 2S that makes the index arithmetic linear. *)
From Coq Require Import List ZArith Bool Lia.
From PM Require Import Base.Bytes Model.Cbuf Spec.Fifo.
Import ListNotations.
Local Open Scope Z_scope.

Ltac zlia := unfold zlen in *; lia.

Lemma zlen_nonneg {A} (l : list A) : 0 <= zlen l.
Proof. unfold zlen. zlia. Qed.

Lemma zlen_nil {A} : zlen (@nil A) = 0.
Proof. reflexivity. Qed.

Lemma zlen_cons {A} (x : A) l : zlen (x :: l) = zlen l + 1.
Proof. unfold zlen. cbn [length]. zlia. Qed.

Lemma zlen_app {A} (a b : list A) : zlen (a ++ b) = zlen a + zlen b.
Proof. unfold zlen. rewrite app_length. zlia. Qed.

Lemma zlen_0_nil {A} (l : list A) : zlen l = 0 -> l = [].
Proof. destruct l; [reflexivity|]. rewrite zlen_cons. pose proof (zlen_nonneg l). zlia. Qed.

Lemma zlen_zeros n : zlen (zeros n) = Z.max 0 n.
Proof. unfold zlen, zeros. rewrite repeat_length. zlia. Qed.

Lemma zlen_ztake {A} n (l : list A) : zlen (ztake n l) = Z.max 0 (Z.min n (zlen l)).
Proof. unfold zlen, ztake. rewrite firstn_length. zlia. Qed.

Lemma zlen_zdrop {A} n (l : list A) : zlen (zdrop n l) = zlen l - Z.max 0 (Z.min n (zlen l)).
Proof. unfold zlen, zdrop. rewrite skipn_length. zlia. Qed.

Lemma ztake_zdrop {A} n (l : list A) : ztake n l ++ zdrop n l = l.
Proof. apply firstn_skipn. Qed.

Lemma ztake_neg {A} n (l : list A) : n <= 0 -> ztake n l = [].
Proof. intros. unfold ztake. replace (Z.to_nat n) with 0%nat by zlia. reflexivity. Qed.

Lemma zdrop_neg {A} n (l : list A) : n <= 0 -> zdrop n l = l.
Proof. intros. unfold zdrop. replace (Z.to_nat n) with 0%nat by zlia. reflexivity. Qed.

Lemma ztake_all {A} n (l : list A) : zlen l <= n -> ztake n l = l.
Proof. intros. unfold ztake. apply firstn_all2. unfold zlen in *. zlia. Qed.

Lemma zdrop_all {A} n (l : list A) : zlen l <= n -> zdrop n l = [].
Proof. intros. unfold zdrop. apply skipn_all2. unfold zlen in *. zlia. Qed.

Lemma ztake_app_l {A} n (a b : list A) : n <= zlen a -> ztake n (a ++ b) = ztake n a.
Proof.
  intros. unfold ztake. rewrite firstn_app.
  replace (Z.to_nat n - length a)%nat with 0%nat by (unfold zlen in *; zlia).
  cbn [firstn]. apply app_nil_r.
Qed.

Lemma ztake_app_r {A} n (a b : list A) : zlen a <= n -> ztake n (a ++ b) = a ++ ztake (n - zlen a) b.
Proof.
  intros. unfold ztake. rewrite firstn_app. f_equal.
  - apply firstn_all2. unfold zlen in *. zlia.
  - f_equal. unfold zlen in *. zlia.
Qed.

Lemma zdrop_app_l {A} n (a b : list A) : n <= zlen a -> zdrop n (a ++ b) = zdrop n a ++ b.
Proof.
  intros. unfold zdrop. rewrite skipn_app.
  replace (Z.to_nat n - length a)%nat with 0%nat by (unfold zlen in *; zlia).
  reflexivity.
Qed.

Lemma zdrop_app_r {A} n (a b : list A) : zlen a <= n -> zdrop n (a ++ b) = zdrop (n - zlen a) b.
Proof.
  intros. unfold zdrop. rewrite skipn_app.
  rewrite (skipn_all2 a) by (unfold zlen in *; zlia).
  cbn [app]. f_equal. unfold zlen in *. zlia.
Qed.

Lemma ztake_app_exact {A} (a b : list A) : ztake (zlen a) (a ++ b) = a.
Proof. rewrite ztake_app_r by zlia. rewrite Z.sub_diag, ztake_neg by zlia. apply app_nil_r. Qed.

Lemma zdrop_app_exact {A} (a b : list A) : zdrop (zlen a) (a ++ b) = b.
Proof. rewrite zdrop_app_r by zlia. rewrite Z.sub_diag. apply zdrop_neg. zlia. Qed.

Lemma skipn_skipn' {A} (a b : nat) (l : list A) : skipn a (skipn b l) = skipn (b + a) l.
Proof.
  revert l. induction b as [|b IH]; intros l; [reflexivity|].
  destruct l; cbn [skipn Nat.add]; [destruct a; reflexivity|]. apply IH.
Qed.

Lemma zdrop_zdrop {A} a b (l : list A) : 0 <= a -> 0 <= b -> zdrop a (zdrop b l) = zdrop (a + b) l.
Proof.
  intros. unfold zdrop. rewrite skipn_skipn'. f_equal. zlia.
Qed.

Lemma ztake_ztake {A} a b (l : list A) : ztake a (ztake b l) = ztake (Z.min a b) l.
Proof.
  unfold ztake. rewrite firstn_firstn. f_equal. zlia.
Qed.

Lemma firstn_add' {A} (n m : nat) (l : list A) : firstn (n + m) l = firstn n l ++ firstn m (skipn n l).
Proof.
  revert l. induction n as [|n IH]; intros l; [reflexivity|].
  destruct l; cbn [firstn skipn Nat.add app]; [destruct m; reflexivity|]. f_equal. apply IH.
Qed.

Lemma ztake_split {A} a b (l : list A) : 0 <= a -> 0 <= b -> ztake (a + b) l = ztake a l ++ ztake b (zdrop a l).
Proof.
  intros. unfold ztake, zdrop. rewrite Z2Nat.inj_add by zlia. apply firstn_add'.
Qed.

Lemma zdrop_ztake {A} a b (l : list A) : 0 <= a -> 0 <= b -> zdrop a (ztake (a + b) l) = ztake b (zdrop a l).
Proof.
  intros. rewrite ztake_split by zlia.
  destruct (Z_le_gt_dec (zlen l) a).
  - rewrite (zdrop_all a l) by zlia. rewrite (ztake_all a l) by zlia.
    replace (ztake b []) with (@nil A) by (unfold ztake; destruct (Z.to_nat b); reflexivity).
    rewrite app_nil_r. apply zdrop_all. zlia.
  - assert (E : zlen (ztake a l) = a) by (rewrite zlen_ztake; zlia).
    rewrite <- E at 1. apply zdrop_app_exact.
Qed.

Lemma ztake_clip {A} n (l : list A) : ztake n l = ztake (Z.max 0 (Z.min n (zlen l))) l.
Proof.
  destruct (Z_le_gt_dec n 0); [rewrite !ztake_neg by zlia; reflexivity|].
  destruct (Z_le_gt_dec (zlen l) n); [rewrite !ztake_all by zlia; reflexivity|].
  f_equal. zlia.
Qed.

(* decomposition of a list at two cut points *)
Lemma split3 {A} (l : list A) i n : 0 <= i -> 0 <= n -> i + n <= zlen l ->
  exists a b c, l = a ++ b ++ c /\ zlen a = i /\ zlen b = n /\ b = ztake n (zdrop i l) /\ a = ztake i l /\ c = zdrop (i + n) l.
Proof.
  intros. exists (ztake i l), (ztake n (zdrop i l)), (zdrop (i + n) l). repeat split.
  - rewrite (Z.add_comm i n). rewrite <- (zdrop_zdrop n i l) by zlia.
    rewrite ztake_zdrop, ztake_zdrop. reflexivity.
  - rewrite zlen_ztake. zlia.
  - rewrite zlen_ztake, zlen_zdrop. zlia.
Qed.

(* ---- splice ---- *)
Lemma splice_app (a b c x : list byte) : zlen x = zlen b -> splice (a ++ b ++ c) (zlen a) x = a ++ x ++ c.
Proof.
  intros. unfold splice. rewrite ztake_app_exact. f_equal. f_equal.
  rewrite zdrop_app_r by zlia. replace (zlen a + zlen x - zlen a) with (zlen b) by zlia.
  apply zdrop_app_exact.
Qed.

Lemma zlen_splice data i x : 0 <= i -> i + zlen x <= zlen data -> zlen (splice data i x) = zlen data.
Proof.
  intros. unfold splice. rewrite !zlen_app, zlen_ztake, zlen_zdrop. pose proof (zlen_nonneg x). zlia.
Qed.

(* ---- rotation ---- *)
Definition rot (i : Z) (l : list byte) : list byte := zdrop i l ++ ztake i l.

Lemma zlen_rot i l : zlen (rot i l) = zlen l.
Proof. unfold rot. rewrite zlen_app, zlen_zdrop, zlen_ztake. zlia. Qed.

Lemma rot_app a r : rot (zlen a) (a ++ r) = r ++ a.
Proof. unfold rot. rewrite zdrop_app_exact, ztake_app_exact. reflexivity. Qed.

Lemma rot_0 l : rot 0 l = l.
Proof. unfold rot. rewrite zdrop_neg, ztake_neg by zlia. apply app_nil_r. Qed.

Lemma rot_full l : rot (zlen l) l = l.
Proof. unfold rot. rewrite zdrop_all, ztake_all by zlia. reflexivity. Qed.

(* x mod S for 0 <= x < 2S *)
Lemma mod_cases x s : 0 <= x < 2 * s -> (x < s /\ x mod s = x) \/ (s <= x /\ x mod s = x - s).
Proof.
  intros. destruct (Z_lt_ge_dec x s).
  - left. split; [zlia|]. apply Z.mod_small. zlia.
  - right. split; [zlia|]. replace x with ((x - s) + 1 * s) at 1 by zlia. rewrite Z.mod_add by zlia. apply Z.mod_small. zlia.
Qed.

Lemma rot_rot a b l : 0 <= a < zlen l -> 0 <= b < zlen l -> rot b (rot a l) = rot ((a + b) mod zlen l) l.
Proof.
  intros Ha Hb. set (S := zlen l) in *.
  destruct (mod_cases (a + b) S ltac:(zlia)) as [[Hlt E]|[Hge E]]; rewrite E.
  - destruct (split3 l a b) as (x & y & z & El & Lx & Ly & _); try zlia.
    rewrite El. rewrite <- Lx at 1. rewrite rot_app.
    replace (a + b) with (zlen (x ++ y)) by (rewrite zlen_app; zlia).
    rewrite (app_assoc x y z). rewrite rot_app.
    rewrite <- Ly at 1. rewrite <- app_assoc. rewrite rot_app. rewrite app_assoc. reflexivity.
  - (* wraps: b > S - a *)
    destruct (split3 l (a + b - S) (S - b)) as (x & y & z & El & Lx & Ly & _); try zlia.
    assert (Lz : zlen z = S - a). { subst S. rewrite El, !zlen_app in *. zlia. }
    rewrite El. replace a with (zlen (x ++ y)) at 1 by (rewrite zlen_app; zlia).
    rewrite (app_assoc x y z). rewrite rot_app.
    replace b with (zlen (z ++ x)) at 1 by (rewrite zlen_app; zlia).
    rewrite (app_assoc z x y). rewrite rot_app.
    rewrite <- Lx at 1. rewrite <- app_assoc. rewrite rot_app. rewrite app_assoc. reflexivity.
Qed.

(* writing a chunk that does not cross the array end, seen from the write cursor after it:
   the window slides by |c| *)
Lemma splice_rot data i c : 0 <= i -> i + zlen c <= zlen data -> 0 < zlen data ->
  rot ((i + zlen c) mod zlen data) (splice data i c) = zdrop (zlen c) (rot i data ++ c).
Proof.
  intros Hi Hle Hpos. pose proof (zlen_nonneg c) as Hc.
  destruct (split3 data i (zlen c)) as (a & b & z & El & La & Lb & _); try zlia.
  assert (Lz : zlen z = zlen data - i - zlen c). { rewrite El at 1. rewrite !zlen_app. zlia. }
  rewrite El at 2 3. rewrite <- La at 2 3. rewrite splice_app by zlia. rewrite rot_app.
  rewrite <- app_assoc. rewrite <- Lb at 2. rewrite <- app_assoc. rewrite zdrop_app_exact.
  destruct (Z.eq_dec (i + zlen c) (zlen data)) as [E|NE].
  - rewrite E, Z.mod_same by zlia. rewrite rot_0.
    assert (z = []) by (apply zlen_0_nil; zlia). subst z. rewrite !app_nil_r. cbn [app]. reflexivity.
  - rewrite Z.mod_small by zlia.
    replace (i + zlen c) with (zlen (a ++ c)) by (rewrite zlen_app; zlia).
    rewrite (app_assoc a c z). rewrite rot_app. rewrite app_assoc. reflexivity.
Qed.

(* the unread bytes are the last [used] bytes of the window at the write cursor *)
Lemma abs_window data i_out used : 0 <= i_out < zlen data -> 0 <= used < zlen data ->
  ztake used (rot i_out data) = zdrop (zlen data - used) (rot ((i_out + used) mod zlen data) data).
Proof.
  intros. rewrite <- rot_rot by zlia.
  unfold rot at 2. rewrite zdrop_app_r by (rewrite zlen_zdrop, zlen_rot; zlia).
  rewrite zlen_zdrop, zlen_rot. replace (zlen data - used - (zlen data - Z.max 0 (Z.min used (zlen data)))) with 0 by zlia.
  symmetry. apply zdrop_neg. zlia.
Qed.

Lemma qlast_eq (n : Z) (q : list byte) : Fifo.qlast n q = zdrop (zlen q - n) q.
Proof. reflexivity. Qed.

(* the spec's list functions are the same functions *)
Lemma qtake_ztake n (q : list byte) : qtake n q = ztake n q.
Proof. reflexivity. Qed.
Lemma qskip_zdrop n (q : list byte) : qskip n q = zdrop n q.
Proof. reflexivity. Qed.
Lemma qlen_zlen (q : list byte) : qlen q = zlen q.
Proof. reflexivity. Qed.

Lemma zdrop_clip {A} n (l : list A) : zdrop n l = zdrop (Z.max 0 (Z.min n (zlen l))) l.
Proof.
  destruct (Z_le_gt_dec n 0); [rewrite !zdrop_neg by zlia; reflexivity|].
  destruct (Z_le_gt_dec (zlen l) n); [rewrite !zdrop_all by zlia; reflexivity|].
  f_equal. zlia.
Qed.
