(* The CLIENT half of a pass never ends a command (C02, C03): the gap that Proofs/DaemonE2E.v left "by reading".

   c02_end_to_end / c03_end_to_end speak about the terminal token a client's stream gains in the CALLBACK half of a pass
   (dev_post_poll: the completion callbacks), when its command goes from Some to None.  Here:

     parse_busy_toks   _parse_input on a line of a client with a command in progress: nothing is enqueued, store and configuration
                       stay, the command is the SAME record (pending counter, error flag, result list), and the output gains
                       exactly one REFUSAL: `208 busy` (no prompt), or - for a line of CP_LINEMAX bytes or more - `203 too long`
                       followed by the prompt (no prompt once the client has quit);
     line_busy / hi_busy / cli_one_busy / cli_loop_busy / cli_post_poll_busy
                       the same for one line of _handle_input, for _handle_input, for one visit of cli_post_poll's loop (read,
                       write, _handle_input), for the loop and for the whole client half, from ANY state with the cross-layer
                       invariant DPInv and NL, for ANY poll answer: a client with a command in progress when the client half
                       begins either is destroyed because poll reported POLLERR / POLLNVAL on its descriptor (then nothing at all
                       is written to it; no record carries its id afterwards) or is still there with the same command, its
                       output having gained refusals only (BRel);
     pass_terminal     one pass from an EInv state: the two halves composed;
     c02_terminal_only_from_completions / c03_terminal_only_from_completions
                       every pass of every run from boot: see Properties/C02.v, C03.v.

   Refusals are not terminal lines of the command in progress (refusals_codes: their codes are 208 and 203 only). *)
From Coq Require Import List NArith ZArith Bool Lia Permutation.
From PM Require Import Base.Bytes Base.Outcome Gen.GenConsts Gen.GenClient Model.ScriptAst Model.Enqueue Model.Script Model.Device Model.DevHarness
                       Model.Client Model.CliWorld Model.Daemon Spec.Proto
                       Proofs.ClientProofs Proofs.ClientProto Proofs.ClientStream Proofs.ClientStreamQ Proofs.DeviceInv Proofs.DeviceRun Proofs.DeviceInvG
                       Proofs.DeviceRunG Proofs.DeviceHang Proofs.DeviceSlots Proofs.DaemonLedger Proofs.DaemonFrame Proofs.DaemonSlots Proofs.DaemonPending
                       Proofs.DaemonE2E.
From PM Require Proofs.ClientReply Model.Telnet.
Import ListNotations.
Local Open Scope Z_scope.

(* ------------------------------------------------------------------------------------------------ refusals *)
Definition busy_tok : tok := TLine 208 (payload_of CP_ERR_CLIBUSY).
Definition long_tok : tok := TLine 203 (payload_of CP_ERR_TOOLONG).
(* what one request line of a client with a command in progress is answered with *)
Definition refusal1 (d : list tok) : Prop := d = [busy_tok] \/ d = [long_tok; TPrompt] \/ d = [long_tok].
Definition refusals (l : list tok) : Prop := exists gs, l = concat gs /\ Forall refusal1 gs.

Lemma refusals_nil : refusals [].
Proof. exists []. split; [reflexivity|constructor]. Qed.
Lemma refusals_one d : refusal1 d -> refusals d.
Proof. intros H. exists [d]. split; [cbn; now rewrite app_nil_r|constructor; [exact H|constructor]]. Qed.
Lemma refusals_app a b : refusals a -> refusals b -> refusals (a ++ b).
Proof. intros (ga & -> & Fa) (gb & -> & Fb). exists (ga ++ gb). split; [now rewrite concat_app|apply Forall_app; split; assumption]. Qed.

(* the codes of a refusal: 208 and 203 only - never a terminal line of a command (102 / 210 / 103 / 211), never informational *)
Lemma refusals_codes l : refusals l -> forall c p, In (TLine c p) l -> c = 208%N \/ c = 203%N.
Proof.
  intros (gs & -> & F) c p Hin. apply in_concat in Hin as (d & Hd & Hin). rewrite Forall_forall in F.
  destruct (F d Hd) as [->|[->| ->]]; unfold busy_tok, long_tok in Hin; cbn [In] in Hin.
  - destruct Hin as [H|[]]. injection H as <- _. now left.
  - destruct Hin as [H|[H|[]]]; [injection H as <- _; now right|discriminate H].
  - destruct Hin as [H|[]]. injection H as <- _. now right.
Qed.
Definition cmd_term_code (c : N) : Prop := c = 102%N \/ c = 210%N \/ c = 103%N \/ c = 211%N.
Lemma refusals_not_terminal l : refusals l -> forall c p, In (TLine c p) l -> ~ cmd_term_code c.
Proof. intros H c p Hin [E|[E|[E|E]]]; destruct (refusals_codes l H c p Hin) as [X|X]; rewrite X in E; discriminate E. Qed.
Lemma infos_not_terminal l : Forall info_tok l -> forall c p, In (TLine c p) l -> ~ cmd_term_code c.
Proof.
  intros F c p Hin. rewrite Forall_forall in F. specialize (F _ Hin). cbn [info_tok] in F. unfold info_code in F.
  apply andb_true_iff in F as [_ I]. unfold is_info in I. apply andb_true_iff in I as [I _]. apply N.leb_le in I.
  intros [E|[E|[E|E]]]; subst c; vm_compute in I; apply I; reflexivity.
Qed.

(* ------------------------------------------------------------------------------------------------ one record across (part of) a client half *)
(* x0: the record at the beginning, with command k0 in progress; x: the record later; rf: the tokens its output gained *)
Definition BRel (x0 : dcli) (k0 : command) (x : dcli) (rf : list tok) : Prop :=
  cid x = cid x0 /\ cl_cmd (dc x) = Some k0 /\ cl_exp (dc x) = cl_exp (dc x0) /\ cl_tele (dc x) = cl_tele (dc x0) /\
  refusals rf /\ cl_out (dc x) = cl_out (dc x0) ++ render rf /\
  (forall toks0, cli_okT x0 toks0 -> cli_okT x (toks0 ++ rf)).

Lemma BRel_refl x k : cl_cmd (dc x) = Some k -> BRel x k x [].
Proof.
  intros H. split; [reflexivity|]. split; [exact H|]. split; [reflexivity|]. split; [reflexivity|]. split; [apply refusals_nil|].
  split; [cbn; now rewrite app_nil_r|]. intros toks0 K. now rewrite app_nil_r.
Qed.
Lemma BRel_trans x0 k x1 r1 x2 r2 : BRel x0 k x1 r1 -> BRel x1 k x2 r2 -> BRel x0 k x2 (r1 ++ r2).
Proof.
  intros (A1 & A2 & A3 & A4 & A5 & A6 & A7) (B1 & B2 & B3 & B4 & B5 & B6 & B7).
  split; [congruence|]. split; [exact B2|]. split; [congruence|]. split; [congruence|]. split; [now apply refusals_app|].
  split; [rewrite B6, A6, render_app, <- app_assoc; reflexivity|].
  intros toks0 K. rewrite app_assoc. apply B7, A7, K.
Qed.

(* a record whose output, command and stream bookkeeping are those of another one keeps its accepted token lists
   (cf. DaemonPending.cli_ok_same, with the token list explicit) *)
Lemma cli_okT_same x y toks :
  cl_cmd (dc y) = cl_cmd (dc x) -> cl_out (dc y) = cl_out (dc x) ->
  (dc_bad y = false -> dc_bad x = false /\ dc_sent y ++ dc_to y = dc_sent x ++ dc_to x /\ (forall q, rq_ok x q -> rq_ok y q)) ->
  cli_okT x toks -> cli_okT y toks.
Proof.
  intros Hk Ho Hb [H1 H3]. split; [now rewrite Ho|].
  intros Hy. destruct (Hb Hy) as (Hx & Hs & Hq). destruct (H3 Hx) as [(st & q & R & [O A] & Q) Hsent]. split.
  - exists st, q. split; [exact R|]. split; [split; [exact O|unfold busy in *; now rewrite Hk]|exact (Hq q Q)].
  - now rewrite Ho, Hs.
Qed.

Section T.
  Variable expand_str : text -> option (list text).
  Variable ranged_sorted : list text -> text.
  Variable ranged_plain : list text -> text.
  Variable sorted : list text -> list text.
  Variable rmatch : text -> text -> option pmatch.
  Variable compress : list text -> text.
  Variable short_circuit : bool.

  Notation parse := (parse_input expand_str ranged_sorted ranged_plain sorted).
  Notation handle_input := (handle_input expand_str ranged_sorted ranged_plain sorted).
  Notation cli_one := (cli_one expand_str ranged_sorted ranged_plain sorted).
  Notation cli_loop := (cli_loop expand_str ranged_sorted ranged_plain sorted).
  Notation cli_post_poll := (cli_post_poll expand_str ranged_sorted ranged_plain sorted).
  Notation dev_loop := (dev_loop ranged_sorted rmatch compress short_circuit).
  Notation dstep := (dstep expand_str ranged_sorted ranged_plain sorted rmatch compress short_circuit).
  Notation drun := (drun expand_str ranged_sorted ranged_plain sorted rmatch compress short_circuit).
  Notation DPInv := (DPInv compress).
  Notation EInv := (EInv compress).
  Notation cpp_led := (cpp_led expand_str ranged_sorted ranged_plain sorted).
  Notation dstep_led := (dstep_led expand_str ranged_sorted ranged_plain sorted rmatch compress short_circuit).
  Notation drun_led := (drun_led expand_str ranged_sorted ranged_plain sorted rmatch compress short_circuit).
  Notation dstep_wr := (dstep_wr expand_str ranged_sorted ranged_plain sorted rmatch compress short_circuit).
  Notation drun_wr := (drun_wr expand_str ranged_sorted ranged_plain sorted rmatch compress short_circuit).
  Notation Done := (Done ranged_sorted).

  (* ---------------------------------------------------------------- _parse_input with a command in progress *)
  Lemma parse_busy_toks cf store c line cf' store' c' q k :
    cl_cmd c = Some k -> parse cf store c line = (cf', store', c', q) ->
    q = [] /\ store' = store /\ cf' = cf /\ cl_cmd c' = Some k /\ cl_id c' = cl_id c /\ cl_exp c' = cl_exp c /\ cl_tele c' = cl_tele c /\
    cl_quit c' = cl_quit c /\
    exists d, refusal1 d /\ cl_out c' = cl_out c ++ render d /\
      (forall st, compat c st -> exists st', run st d = Some st' /\ compat c' st').
  Proof.
    intros Hk. unfold parse_input. cbv zeta. destruct (CP_LINEMAX <=? _).
    - (* 203, then the prompt unless the client has quit *)
      intros H. inversion H; subst; clear H.
      assert (R : reply_of CP_ERR_TOOLONG [TLine 203 (payload_of CP_ERR_TOOLONG)]) by (apply (mk_reply0 _ _ c_toolong); reflexivity).
      destruct (answered c c CP_ERR_TOOLONG _ eq_refl eq_refl eq_refl R) as (A1 & A2 & _ & A4).
      cbv zeta in A1, A2, A4.
      set (c1 := if cl_quit (emit CP_ERR_TOOLONG c) then emit CP_ERR_TOOLONG c else emit CP_PROMPT (emit CP_ERR_TOOLONG c)) in *.
      assert (F : cl_id c1 = cl_id c /\ cl_exp c1 = cl_exp c /\ cl_tele c1 = cl_tele c /\ cl_quit c1 = cl_quit c)
        by (unfold c1; cbn [emit cl_quit]; destruct (cl_quit c) eqn:Eq; repeat split; cbn [emit cl_quit]; auto).
      destruct F as (F1 & F2 & F3 & F4).
      change (if cl_quit c then emit CP_ERR_TOOLONG c else emit CP_PROMPT (emit CP_ERR_TOOLONG c)) with c1.
      split; [reflexivity|]. split; [reflexivity|]. split; [reflexivity|]. split; [rewrite A4; exact Hk|].
      split; [exact F1|]. split; [exact F2|]. split; [exact F3|]. split; [exact F4|].
      exists ([TLine 203 (payload_of CP_ERR_TOOLONG)] ++ (if cl_quit c then [] else [TPrompt])).
      split; [unfold refusal1, long_tok; destruct (cl_quit c); cbn [app]; auto|]. split; [exact A1|exact A2].
    - rewrite Hk. intros H. inversion H; subst; clear H.
      repeat (split; [first [reflexivity|exact Hk]|]).
      destruct c_clibusy as [Eb Pb].
      exists [busy_tok]. split; [now left|]. unfold busy_tok. cbn [emit cl_out]. rewrite <- Eb. split; [reflexivity|].
      intros st [O A]. destruct (step_busy (cl_quit c) st (payload_of CP_ERR_CLIBUSY) O) as [st' [S1 [S2 S3]]].
      exists st'. cbn [run]. rewrite S1. split; [reflexivity|]. unfold compat, busy. cbn [emit cl_quit cl_cmd]. rewrite Hk. split; [exact S2|discriminate].
  Qed.

  (* ---------------------------------------------------------------- one line of _handle_input *)
  Lemma line_busy st i acc st1 a1 : handle_input 1 st i acc = Ok (st1, a1) ->
    forall p x0 k0, nth_error (dm_clients st) p = Some x0 -> cl_cmd (dc x0) = Some k0 ->
      exists x rf, nth_error (dm_clients st1) p = Some x /\ BRel x0 k0 x rf.
  Proof.
    intros E p x0 k0 Hp Hk.
    destruct (Nat.eq_dec p i) as [->|Hne].
    2:{ exists x0, []. split; [rewrite (handle_input_frame _ _ _ _ _ _ _ _ _ _ E p Hne); exact Hp|exact (BRel_refl _ _ Hk)]. }
    revert E. cbn [Daemon.handle_input]. rewrite Hp.
    destruct (take_line [] (dc_from x0)) as [[line rest]|] eqn:Et.
    2:{ intros E; inversion E; subst. exists x0, []. split; [exact Hp|exact (BRel_refl _ _ Hk)]. }
    destruct (parse (cconf_of st) (dm_store st) (dc x0) line) as [[[cf' store'] c'] q] eqn:Ep.
    destruct (parse_busy_toks _ _ _ _ _ _ _ _ k0 Hk Ep) as (-> & -> & -> & Hk' & Hid & Hexp & Htele & Hquit & d & Hd & Ho' & Hr').
    intros E. injection E as <- _.
    cbn [dm_clients]. rewrite (nth_error_upd_nth_eq _ _ _ _ Hp).
    eexists. exists d. split; [reflexivity|].
    split; [unfold cid; cbn [set_dc dc]; exact Hid|]. split; [cbn [set_dc dc]; exact Hk'|]. split; [cbn [set_dc dc]; exact Hexp|].
    split; [cbn [set_dc dc]; exact Htele|]. split; [exact (refusals_one _ Hd)|]. split; [cbn [set_dc dc]; exact Ho'|].
    intros toks0 [Ho Hs]. split; [cbn [set_dc dc]; rewrite Ho', Ho, render_app; reflexivity|].
    cbn [set_dc dc_bad]. intros Hb. apply orb_false_iff in Hb as [Hb Hov]. cbn [dc dc_to dc_bad] in Hb, Hov.
    destruct (Hs Hb) as [(st0 & q0 & R & C & Q) Hsent]. unfold rq_ok in Q.
    destruct (dc_eof x0) eqn:Ee; [destruct Q as [_ Q]; unfold no_line in Q; rewrite Et in Q; discriminate|]. subst q0.
    destruct (Hr' st0 C) as (st2 & R1 & C1). split.
    - exists st2, (cl_quit c'). split; [rewrite run_app, R; exact R1|]. split; [exact C1|]. unfold rq_ok. cbn [set_dc dc dc_eof]. try rewrite Ee. reflexivity.
    - cbn [set_dc dc dc_sent dc_to]. rewrite (cbuf_put_fits _ _ Hov). rewrite Ho', skipn_length_app, Hsent, <- app_assoc. reflexivity.
  Qed.

  (* the line that CREATES a command writes nothing: the record's output is what it was, the command starts with a clear error flag and
     a pending counter equal to the number of actions handed to dev_enqueue_actions - the ledger entry of the id is reset to
     (that number, 0, 0) - and from then on line_busy / hi_busy apply to the rest of _handle_input *)
  Lemma line_creates st i acc st1 a1 x0 L : handle_input 1 st i acc = Ok (st1, a1) ->
    nth_error (dm_clients st) i = Some x0 -> cl_cmd (dc x0) = None ->
    forall x k, nth_error (dm_clients st1) i = Some x -> cl_cmd (dc x) = Some k ->
      cid x = cid x0 /\ cl_out (dc x) = cl_out (dc x0) /\ k_error k = false /\ 0 < k_pending k /\ k_args k = length (dm_store st) /\
      line_led expand_str ranged_sorted ranged_plain sorted st i L (cid x0) = mkL (k_pending k) 0 0.
  Proof.
    intros E Hp Hn x k. revert E. unfold line_led. cbn [Daemon.handle_input]. rewrite Hp.
    destruct (take_line [] (dc_from x0)) as [[line rest]|] eqn:Et.
    2:{ intros E; inversion E; subst. rewrite Hp. intros H; injection H as <-. congruence. }
    destruct (parse (cconf_of st) (dm_store st) (dc x0) line) as [[[cf' store'] c'] q] eqn:Ep.
    destruct (parse_idle expand_str ranged_sorted ranged_plain sorted _ _ _ _ _ _ _ _ Hn Ep) as [(-> & Hn' & _)|(k1 & al & Hk' & Hst' & Hpk & Htot & Hka & _ & Hout & Hid & Hq)].
    - intros E. injection E as <- _. cbn [dm_clients]. rewrite (nth_error_upd_nth_eq _ _ _ _ Hp). intros H; injection H as <-. cbn [set_dc dc]. congruence.
    - destruct q as [|q0 qr]; [cbn in Htot; lia|].
      match goal with |- match ?e with _ => _ end = _ -> _ => destruct e as [devs'| | | |]; try discriminate end.
      intros E. injection E as <- _. cbn [dm_clients]. rewrite (nth_error_upd_nth_eq _ _ _ _ Hp). intros H; injection H as <-. cbn [set_dc dc].
      rewrite Hk'. intros H; injection H as <-.
      split; [unfold cid; cbn [set_dc dc]; exact Hid|]. split; [exact Hout|].
      split; [exact (parse_queued_err expand_str ranged_sorted ranged_plain sorted rmatch _ _ _ _ _ _ _ _ k1 Hn Ep Hk')|].
      split; [lia|]. split; [exact Hka|]. unfold led_enq, cid. rewrite lset_eq, Hpk. reflexivity.
  Qed.

  (* ---------------------------------------------------------------- _handle_input *)
  Lemma hi_busy fuel : forall st i acc st' a', handle_input fuel st i acc = Ok (st', a') ->
    forall p x0 k0, nth_error (dm_clients st) p = Some x0 -> cl_cmd (dc x0) = Some k0 ->
      exists x rf, nth_error (dm_clients st') p = Some x /\ BRel x0 k0 x rf.
  Proof.
    induction fuel as [|f IH]; intros st i acc st' a'.
    - cbn [Daemon.handle_input]. intros E p x0 k0 Hp Hk. injection E as <- _. exists x0, []. split; [exact Hp|exact (BRel_refl _ _ Hk)].
    - rewrite handle_input_S. destruct (handle_input 1 st i acc) as [[st1 a1]| | | |] eqn:E1; try discriminate.
      intros E p x0 k0 Hp Hk. destruct (line_busy _ _ _ _ _ E1 p x0 k0 Hp Hk) as (x1 & r1 & H1 & B1).
      destruct (IH _ _ _ _ _ E p x1 k0 H1 (proj1 (proj2 B1))) as (x & r2 & H2 & B2).
      exists x, (r1 ++ r2). split; [exact H2|exact (BRel_trans _ _ _ _ _ _ B1 B2)].
  Qed.

  (* ---------------------------------------------------------------- the read and the write of a visit *)
  Lemma rw_busy x ci k0 : no_line x -> cl_cmd (dc x) = Some k0 -> BRel x k0 (fst (cli_write (cli_read x ci) ci)) [].
  Proof.
    intros Hlx Hk.
    assert (H1 : cid (cli_read x ci) = cid x /\ cl_cmd (dc (cli_read x ci)) = cl_cmd (dc x) /\ cl_exp (dc (cli_read x ci)) = cl_exp (dc x) /\
                 cl_tele (dc (cli_read x ci)) = cl_tele (dc x) /\ cl_out (dc (cli_read x ci)) = cl_out (dc x) /\
                 (forall toks, cli_okT x toks -> cli_okT (cli_read x ci) toks)).
    { unfold cli_read. destruct (ci_in ci); [destruct (ci_read ci) as [[|b r]|]|]; (do 5 (split; [reflexivity|])); try (intros toks K; exact K).
      - intros toks. apply cli_okT_same; try reflexivity. cbn [set_eof set_quit dc_bad dc dc_sent dc_to]. intros Hb. split; [exact Hb|]. split; [reflexivity|].
        intros q Hq. unfold rq_ok in *. cbn [set_eof set_quit dc dc_eof cl_quit]. split; [reflexivity|].
        unfold no_line. cbn [set_eof set_quit dc_from]. exact Hlx.
      - intros toks. apply cli_okT_same; try reflexivity. cbn [dc_bad dc dc_sent dc_to]. intros Hb. apply orb_false_iff in Hb as [Hb He]. split; [exact Hb|]. split; [reflexivity|].
        intros q Hq. unfold rq_ok in *. cbn [dc dc_eof]. rewrite He in *. exact Hq.
      - intros toks. apply cli_okT_same; try reflexivity. cbn [set_eof set_quit dc_bad dc dc_sent dc_to]. intros Hb. split; [exact Hb|]. split; [reflexivity|].
        intros q Hq. unfold rq_ok in *. cbn [set_eof set_quit dc dc_eof cl_quit]. split; [reflexivity|].
        unfold no_line. cbn [set_eof set_quit dc_from]. exact Hlx. }
    destruct H1 as (A1 & A2 & A3 & A4 & A5 & A6). set (x1 := cli_read x ci) in *.
    assert (H2 : cid (fst (cli_write x1 ci)) = cid x1 /\ cl_cmd (dc (fst (cli_write x1 ci))) = cl_cmd (dc x1) /\ cl_exp (dc (fst (cli_write x1 ci))) = cl_exp (dc x1) /\
                 cl_tele (dc (fst (cli_write x1 ci))) = cl_tele (dc x1) /\ cl_out (dc (fst (cli_write x1 ci))) = cl_out (dc x1) /\
                 (forall toks, cli_okT x1 toks -> cli_okT (fst (cli_write x1 ci)) toks)).
    { unfold cli_write. destruct (ci_out ci); [destruct (ci_wrote ci) as [n|]|]; cbn [fst].
      - repeat (split; [reflexivity|]). intros toks. apply cli_okT_same; try reflexivity.
        cbn [dc_bad dc dc_sent dc_to]. intros Hb. split; [exact Hb|]. split; [rewrite <- app_assoc, firstn_skipn; reflexivity|].
        intros q Hq. exact Hq.
      - repeat (split; [reflexivity|]). intros toks. apply cli_okT_same; try reflexivity. cbn [dc_bad]. discriminate.
      - repeat (split; [reflexivity|]). auto. }
    destruct H2 as (B1 & B2 & B3 & B4 & B5 & B6).
    split; [congruence|]. split; [rewrite B2, A2; exact Hk|]. split; [congruence|]. split; [congruence|].
    split; [apply refusals_nil|]. split; [rewrite B5, A5; cbn [render flat_map]; now rewrite app_nil_r|].
    intros toks K. rewrite app_nil_r. apply B6, A6, K.
  Qed.

  (* ---------------------------------------------------------------- one visit of cli_post_poll's loop *)
  Lemma cli_one_busy st i ci st' evs dead : cli_one st i ci = Ok (st', evs, dead) -> NL st ->
    forall p x0 k0, nth_error (dm_clients st) p = Some x0 -> cl_cmd (dc x0) = Some k0 ->
      exists x rf, nth_error (dm_clients st') p = Some x /\ BRel x0 k0 x rf /\ (p = i -> dead = true -> ci_bad ci = true).
  Proof.
    rewrite cli_one_eq. intros E Hnl p x0 k0 Hp Hk.
    destruct (nth_error (dm_clients st) i) as [xi|] eqn:En.
    2:{ injection E as <- _ <-. exists x0, []. split; [exact Hp|]. split; [exact (BRel_refl _ _ Hk)|discriminate]. }
    destruct (ci_bad ci) eqn:Eb.
    { injection E as <- _ _. exists x0, []. split; [exact Hp|]. split; [exact (BRel_refl _ _ Hk)|reflexivity]. }
    cbv zeta in E. set (x2 := fst (cli_write (cli_read xi ci) ci)) in *.
    match type of E with match ?h with _ => _ end = _ => destruct h as [[st2 evs2]| | | |] eqn:Eh; try discriminate end.
    destruct (Nat.eq_dec p i) as [->|Hne].
    - assert (xi = x0) by congruence. subst xi.
      assert (H2 : nth_error (dm_clients (set_client st i x2)) i = Some x2) by (cbn [set_client dm_clients]; exact (nth_error_upd_nth_eq _ _ _ _ En)).
      pose proof (rw_busy x0 ci k0 (Hnl _ _ En) Hk) as B0. fold x2 in B0.
      destruct (hi_busy _ _ _ _ _ _ Eh i x2 k0 H2 (proj1 (proj2 B0))) as (x & rf & Hx & B).
      injection E as <- _ <-. exists x, ([] ++ rf). split; [exact Hx|]. split; [exact (BRel_trans _ _ _ _ _ _ B0 B)|].
      intros _. rewrite Hx. rewrite (proj1 (proj2 B)). rewrite !andb_false_r. discriminate.
    - assert (H2 : nth_error (dm_clients (set_client st i x2)) p = Some x0) by (cbn [set_client dm_clients]; rewrite nth_error_upd_nth_ne by congruence; exact Hp).
      destruct (hi_busy _ _ _ _ _ _ Eh p x0 k0 H2 Hk) as (x & rf & Hx & B).
      injection E as <- _ _. exists x, rf. split; [exact Hx|]. split; [exact B|]. intros ->. congruence.
  Qed.

  (* ---------------------------------------------------------------- the loop over the clients *)
  Lemma cli_loop_ids_incl : forall cins st i acc st' evs, cli_loop st i cins acc = Ok (st', evs) -> incl (ids st') (ids st).
  Proof.
    induction cins as [|ci r IH]; intros st i acc st' evs; cbn [Daemon.cli_loop]; [intros H; inversion H; apply incl_refl|].
    destruct (cli_one st i ci) as [[[st1 evs1] dead]| | | |] eqn:E1; try discriminate.
    pose proof (cli_one_ids _ _ _ _ _ _ _ _ _ _ E1) as Hids.
    destruct dead; intros H; apply IH in H; rewrite <- Hids.
    - eapply incl_tran; [exact H|]. unfold ids. cbn [dm_clients]. rewrite remove_nth_map. apply incl_remove_nth.
    - exact H.
  Qed.

  Lemma NoDup_remove_nth_notin {A} : forall (l : list A) i a, NoDup l -> nth_error l i = Some a -> ~ In a (remove_nth l i).
  Proof.
    induction l as [|b l IH]; intros [|i] a Hnd Hn; cbn [nth_error remove_nth] in *; try discriminate.
    - injection Hn as ->. now inversion Hnd.
    - inversion Hnd as [|? ? Hb Hl]; subst. intros [->|Hin]; [apply Hb; eapply nth_error_In; exact Hn|exact (IH i a Hl Hn Hin)].
  Qed.

  (* a client with a command in progress, at position p when the loop is at position i: either destroyed because of POLLERR / POLLNVAL on
     its descriptor (the answer of poll for it is number p - i of the remaining ones), or still there with the same command *)
  Lemma cli_loop_busy : forall cins st i acc st' evs, cli_loop st i cins acc = Ok (st', evs) -> NL st -> NoDup (ids st) ->
    forall p x0 k0, nth_error (dm_clients st) p = Some x0 -> cl_cmd (dc x0) = Some k0 ->
      (exists x rf, In x (dm_clients st') /\ BRel x0 k0 x rf) \/
      ((i <= p)%nat /\ ci_bad (nth (p - i) cins cin0) = true /\ ~ In (cid x0) (ids st')).
  Proof.
    induction cins as [|ci r IH]; intros st i acc st' evs; cbn [Daemon.cli_loop].
    - intros H _ _ p x0 k0 Hp Hk. injection H as <- _. left. exists x0, []. split; [eapply nth_error_In; exact Hp|exact (BRel_refl _ _ Hk)].
    - destruct (cli_one st i ci) as [[[st1 evs1] dead]| | | |] eqn:E1; try discriminate.
      intros H Hnl Hnd p x0 k0 Hp Hk.
      destruct (cli_one_busy _ _ _ _ _ _ E1 Hnl p x0 k0 Hp Hk) as (x1 & r1 & H1 & B1 & Hdead).
      pose proof (cli_one_nl _ _ _ _ _ _ _ _ _ _ Hnl E1) as N1.
      pose proof (cli_one_ids _ _ _ _ _ _ _ _ _ _ E1) as Hids.
      assert (Hnd1 : NoDup (ids st1)) by (rewrite Hids; exact Hnd).
      assert (Hk1 : cl_cmd (dc x1) = Some k0) by exact (proj1 (proj2 B1)).
      destruct dead.
      + match type of H with cli_loop ?s _ _ _ = _ => set (st2 := s) in * end.
        assert (N2 : NL st2) by exact (remove_nth_nl st1 i N1).
        assert (Hids2 : ids st2 = remove_nth (ids st1) i) by (unfold ids, st2; cbn [dm_clients]; now rewrite remove_nth_map).
        assert (Hnd2 : NoDup (ids st2)) by (rewrite Hids2; apply NoDup_remove_nth; exact Hnd1).
        destruct (lt_eq_lt_dec p i) as [[Hlt| ->]|Hgt].
        * assert (H2 : nth_error (dm_clients st2) p = Some x1) by (unfold st2; cbn [dm_clients]; rewrite nth_error_remove_lt by exact Hlt; exact H1).
          destruct (IH _ _ _ _ _ H N2 Hnd2 p x1 k0 H2 Hk1) as [(x & r2 & Hx & B2)|(Hle & _)]; [|lia].
          left. exists x, (r1 ++ r2). split; [exact Hx|exact (BRel_trans _ _ _ _ _ _ B1 B2)].
        * right. split; [lia|]. rewrite Nat.sub_diag. cbn [nth]. split; [exact (Hdead eq_refl eq_refl)|].
          intros Hin. apply (cli_loop_ids_incl _ _ _ _ _ _ H) in Hin. rewrite Hids2 in Hin.
          revert Hin. apply NoDup_remove_nth_notin; [exact Hnd1|]. unfold ids. rewrite nth_error_map, H1. cbn. f_equal. exact (proj1 B1).
        * destruct p as [|p]; [lia|].
          assert (H2 : nth_error (dm_clients st2) p = Some x1) by (unfold st2; cbn [dm_clients]; rewrite nth_error_remove_ge by lia; exact H1).
          destruct (IH _ _ _ _ _ H N2 Hnd2 p x1 k0 H2 Hk1) as [(x & r2 & Hx & B2)|(Hle & Hbad & Hgone)].
          -- left. exists x, (r1 ++ r2). split; [exact Hx|exact (BRel_trans _ _ _ _ _ _ B1 B2)].
          -- right. split; [lia|]. replace (S p - i)%nat with (S (p - i)) by lia. cbn [nth]. split; [exact Hbad|].
             rewrite <- (proj1 B1). exact Hgone.
      + destruct (IH _ _ _ _ _ H N1 Hnd1 p x1 k0 H1 Hk1) as [(x & r2 & Hx & B2)|(Hle & Hbad & Hgone)].
        * left. exists x, (r1 ++ r2). split; [exact Hx|exact (BRel_trans _ _ _ _ _ _ B1 B2)].
        * right. split; [lia|]. replace (p - i)%nat with (S (p - S i)) by lia. cbn [nth]. split; [exact Hbad|].
          rewrite <- (proj1 B1). exact Hgone.
  Qed.

  (* ---------------------------------------------------------------- the client half of a pass, from any state of the invariant *)
  Lemma accept_state_nodup st r : DPInv st -> 1 <= dm_seq st < INT_MAX -> NoDup (ids (accept_state st r)).
  Proof.
    intros I Hseq. unfold accept_state. destruct (r_accept r); [|exact (dp_nodup _ _ I)].
    unfold next_id. fold INT_MAX. destruct (dm_seq st <? INT_MAX) eqn:E; [|apply Z.ltb_ge in E; lia].
    pose proof (dp_qseq _ _ I) as Hq. rewrite Forall_forall in Hq.
    unfold ids. cbn [dm_clients]. rewrite map_app. cbn [map]. apply NoDup_app_single_fresh; [exact (dp_nodup _ _ I)|].
    intros Hin. unfold cid in Hin. cbn in Hin. specialize (Hq (dm_seq st)). assert (1 <= dm_seq st < dm_seq st) by (apply Hq; apply in_or_app; now right). lia.
  Qed.
  Lemma accept_state_nl st r : NL st -> NL (accept_state st r).
  Proof.
    intros Hnl. unfold accept_state. destruct (r_accept r); [|exact Hnl]. destruct (next_id (dm_seq st)) as [id seq'].
    intros p x. cbn [dm_clients]. intros Hx. apply nth_error_snoc in Hx as [Hx|[_ ->]]; [eapply Hnl; exact Hx|reflexivity].
  Qed.

  Theorem cli_post_poll_busy st r sta e1 : DPInv st -> NL st -> 1 <= dm_seq st < INT_MAX -> cli_post_poll st r = Ok (sta, e1) ->
    forall p x0 k0, nth_error (dm_clients st) p = Some x0 -> cl_cmd (dc x0) = Some k0 ->
      (exists x rf, In x (dm_clients sta) /\ BRel x0 k0 x rf) \/
      (ci_bad (nth p (r_cli r) cin0) = true /\ ~ In (cid x0) (ids sta)).
  Proof.
    intros I Hnl Hseq. rewrite cli_post_poll_eq. intros E p x0 k0 Hp Hk.
    assert (Hp' : nth_error (dm_clients (accept_state st r)) p = Some x0).
    { unfold accept_state. destruct (r_accept r); [|exact Hp]. destruct (next_id (dm_seq st)) as [id seq']. cbn [dm_clients].
      rewrite nth_error_app1; [exact Hp|]. apply nth_error_Some. congruence. }
    destruct (cli_loop_busy _ _ _ _ _ _ E (accept_state_nl st r Hnl) (accept_state_nodup st r I Hseq) p x0 k0 Hp' Hk) as [H|(_ & Hbad & Hgone)]; [now left|].
    right. split; [|exact Hgone]. rewrite Nat.sub_0_r, nth_pad_cins in Hbad.
    destruct (Nat.ltb p (length (dm_clients (accept_state st r)))); [exact Hbad|discriminate Hbad].
  Qed.

  (* ---------------------------------------------------------------- both halves of a pass *)
  (* a completion event for client id in the event list of a pass *)
  Definition compl_for (id : Z) (s : sysev) : bool :=
    match s with SysDev _ (EvComplete c _ _) => Z.eqb c id | _ => false end.
  Lemma led_sys_quiet id : forall evs L, existsb (compl_for id) evs = false -> led_sys L evs id = L id.
  Proof.
    induction evs as [|s r IH]; intros L H; [reflexivity|]. cbn [existsb] in H. apply orb_false_iff in H as [H1 H2].
    unfold led_sys in *. cbn [fold_left]. rewrite (IH _ H2).
    destruct s as [a|a|a b|j e]; try reflexivity. destruct e; try reflexivity.
    cbn [led_sys1 led_ev compl_for] in *. apply lset_neq. apply Z.eqb_neq in H1. congruence.
  Qed.

  (* what a pass does to the clients that have a command in progress when it BEGINS (done: the claim about the terminal token) *)
  Definition pass_busy_clients (done : dcli -> command -> list tok -> Prop) (sel : command -> Prop)
             (st : daemon) (r : round) (La : ledger) (sta stb : daemon) (e2 : list sysev) : Prop :=
    forall p x0 k0, nth_error (dm_clients st) p = Some x0 -> cl_cmd (dc x0) = Some k0 -> sel k0 ->
      (* destroyed by the client half: poll reported POLLERR / POLLNVAL for its descriptor; nothing is written, no record carries the id *)
      (ci_bad (nth p (r_cli r) cin0) = true /\ ~ In (cid x0) (ids sta) /\ ~ In (cid x0) (ids stb)) \/
      (* or: after the client half (position pa, record xa) the SAME command is in progress and the output gained refusals only; ... *)
      exists pa xa rf, nth_error (dm_clients sta) pa = Some xa /\ BRel x0 k0 xa rf /\
        (* ... after the callback half (record xb, same position): *)
        exists xb new, nth_error (dm_clients stb) pa = Some xb /\ cid xb = cid x0 /\
          cl_out (dc xb) = cl_out (dc x0) ++ render (rf ++ new) /\
          (forall toks0, cli_okT x0 toks0 -> cli_okT xb (toks0 ++ rf ++ new)) /\
          match cl_cmd (dc xb) with
          | Some k => Forall info_tok new /\ k_com k = k_com k0 /\ k_args k = k_args k0        (* goes on: informational lines only *)
          | None =>                                                                            (* ended in THIS callback half *)
              done xa k0 new /\
              l_ok (La (cid x0)) + l_fail (La (cid x0)) < l_enq (La (cid x0)) /\
              exists j err msg, In (SysDev j (EvComplete (cid x0) err msg)) e2
          end.

  Theorem pass_terminal st r L : EInv L st -> 1 <= dm_seq st < INT_MAX ->
    exists sta e1 stb tmo e2,
      cli_post_poll st r = Ok (sta, e1) /\ dev_loop (length (dm_devs sta)) (r_now r) sta O (r_dev r) None [] = Ok (stb, tmo, e2) /\
      dstep st r = Ok (stb, mkDout (e1 ++ e2) tmo) /\
      pass_busy_clients (fun xa k0 new => Done (dstep_led st r L) (dm_devs stb) (dm_store stb) xa k0 new) (fun _ => True)
                        st r (cpp_led st r L) sta stb e2.
  Proof.
    intros E Hseq.
    destruct (pass_e2e expand_str ranged_sorted ranged_plain sorted rmatch compress short_circuit st r L E Hseq)
      as (sta & e1 & stb & tmo & e2 & Ea & Eb & Es & El & La & Ia & Eb' & Sb & Db & Nb).
    exists sta, e1, stb, tmo, e2. split; [exact Ea|]. split; [exact Eb|]. split; [exact Es|].
    destruct E as (I & Hnl & Li). intros p x0 k0 Hp Hk _.
    destruct (cli_post_poll_busy st r sta e1 I Hnl Hseq Ea p x0 k0 Hp Hk) as [(xa & rf & Hin & B)|(Hbad & Hgone)].
    - right. apply In_nth_error in Hin as (pa & Hpa). exists pa, xa, rf. split; [exact Hpa|]. split; [exact B|].
      destruct B as (B1 & B2 & B3 & B4 & B5 & B6 & B7).
      destruct (Db pa xa Hpa) as (xb & Hxb & Hcb & Rb). unfold CRel in Rb. rewrite B2 in Rb. destruct Rb as (Hexp & new & Ho & Ht & Hm).
      exists xb, new. split; [exact Hxb|]. split; [congruence|]. split; [rewrite Ho, B6, render_app, <- app_assoc; reflexivity|].
      split; [intros toks0 K; rewrite app_assoc; apply Ht, B7, K|].
      destruct (cl_cmd (dc xb)) as [k|]; [exact Hm|]. split; [exact Hm|].
      (* the ledger when the callback half begins: not everything has completed *)
      assert (Hlt : l_ok (cpp_led st r L (cid x0)) + l_fail (cpp_led st r L (cid x0)) < l_enq (cpp_led st r L (cid x0))).
      { pose proof (dp_cinv _ _ Ia) as Hc. unfold CInv in Hc. rewrite Forall_forall in Hc.
        destruct (Hc xa (nth_error_In _ _ Hpa)) as [[Ix _] Px]. unfold cmd_inv in Ix. unfold pend in Px. rewrite B2 in Ix, Px.
        pose proof (li_cnt _ _ _ La (cid xa)) as Hb. rewrite <- Px in Hb. unfold bal in Hb. rewrite B1 in Hb. lia. }
      split; [exact Hlt|].
      destruct Hm as (infos & infos_r & pl & _ & _ & _ & _ & _ & H6 & _). rewrite B1 in H6.
      destruct (existsb (compl_for (cid x0)) e2) eqn:Ex.
      + apply existsb_exists in Ex as (s & Hs & Hc). destruct s as [a|a|a b|j e]; try discriminate Hc. destruct e; try discriminate Hc.
        cbn [compl_for] in Hc. apply Z.eqb_eq in Hc. subst client. eauto.
      + exfalso. rewrite El, (led_sys_quiet _ _ _ Ex) in H6. lia.
    - left. split; [exact Hbad|]. split; [exact Hgone|].
      assert (Hn : tmo_pos None) by (intros x Hx; discriminate).
      pose proof (dev_loop_inv expand_str ranged_sorted ranged_plain sorted rmatch compress short_circuit (length (dm_devs sta)) (r_now r) sta 0%nat (r_dev r) None [] Ia Hn) as Hd.
      rewrite Eb in Hd. destruct Hd as (_ & _ & Hids & _). rewrite Hids. exact Hgone.
  Qed.

  (* ---------------------------------------------------------------- every pass of every run from start-up *)
  Definition run_pass2 (st0 : daemon) (now : Z) (plans : list (list cplan)) (rs : list round) (r : round)
                       (claim : daemon -> ledger -> wledger -> daemon -> daemon -> list sysev -> Prop) : Prop :=
    exists st1 o1, dinit st0 now plans = Ok (st1, o1) /\
      match drun st1 rs [] with
      | Ok (st, _) =>
        let L := drun_led st1 rs lzero in
        let W := drun_wr st1 rs (winit (dm_store st1)) in
        match cli_post_poll st r with
        | Ok (sta, e1) =>
          match dev_loop (length (dm_devs sta)) (r_now r) sta O (r_dev r) None [] with
          | Ok (stb, tmo, e2) => dstep st r = Ok (stb, mkDout (e1 ++ e2) tmo) /\ claim st L W sta stb e2
          | _ => False
          end
        | _ => False
        end
      | _ => False
      end.

  Lemma run_pass_terminal st0 now plans rs r : boot compress st0 -> Z.of_nat (length rs) < INT_MAX - 1 ->
    run_pass2 st0 now plans rs r (fun st L W sta stb e2 =>
      WInv (dstep_wr st r W) (dm_store stb) /\
      pass_busy_clients (fun xa k0 new => Done (dstep_led st r L) (dm_devs stb) (dm_store stb) xa k0 new) (fun _ => True)
                        st r (cpp_led st r L) sta stb e2).
  Proof.
    intros Hb Hn. destruct (boot_e2e compress st0 now plans Hb) as (st1 & o1 & E1 & I1 & S1).
    exists st1, o1. split; [exact E1|].
    pose proof (drun_e2e expand_str ranged_sorted ranged_plain sorted rmatch compress short_circuit rs st1 lzero [] I1 ltac:(lia) ltac:(rewrite S1; unfold INT_MAX in *; lia)) as Hr.
    pose proof (drun_wr_inv expand_str ranged_sorted ranged_plain sorted rmatch compress short_circuit rs st1 lzero (winit (dm_store st1)) [] I1 ltac:(lia)
                  ltac:(rewrite S1; unfold INT_MAX in *; lia) (WInv_init _)) as Hw.
    destruct (drun st1 rs []) as [[st outs]| | | |]; try contradiction. destruct Hr as (E & Hs).
    cbv zeta.
    assert (Hseq : 1 <= dm_seq st < INT_MAX) by (unfold INT_MAX in *; lia).
    pose proof (pass_wr expand_str ranged_sorted ranged_plain sorted rmatch compress short_circuit st r _ _ E Hseq Hw) as Hp.
    destruct (pass_terminal st r _ E Hseq) as (sta & e1 & stb & tmo & e2 & Ea & Eb & Es & Hcl).
    rewrite Ea, Es in Hp. rewrite Ea, Eb. destruct Hp as [_ Hwb].
    split; [exact Es|]. split; [exact Hwb|exact Hcl].
  Qed.

  Lemma pass_busy_clients_impl (done done' : dcli -> command -> list tok -> Prop) (sel sel' : command -> Prop) st r La sta stb e2 :
    (forall k, sel' k -> sel k) -> (forall xa k0 new, sel' k0 -> done xa k0 new -> done' xa k0 new) ->
    pass_busy_clients done sel st r La sta stb e2 -> pass_busy_clients done' sel' st r La sta stb e2.
  Proof.
    intros Hs Hd H p x0 k0 Hp Hk Hsel. destruct (H p x0 k0 Hp Hk (Hs _ Hsel)) as [V|(pa & xa & rf & A1 & A2 & xb & new & B1 & B2 & B3 & B4 & B5)]; [now left|].
    right. exists pa, xa, rf. split; [exact A1|]. split; [exact A2|]. exists xb, new. repeat (split; [assumption|]).
    destruct (cl_cmd (dc xb)); [exact B5|]. destruct B5 as (C1 & C2 & C3). split; [exact (Hd _ _ _ Hsel C1)|split; assumption].
  Qed.

  (* C02: a POWER command *)
  Theorem c02_terminal_only_from_completions st0 now plans rs r : boot compress st0 -> Z.of_nat (length rs) < INT_MAX - 1 ->
    run_pass2 st0 now plans rs r (fun st L W sta stb e2 =>
      pass_busy_clients (fun xa k0 new => power_done (dstep_led st r L (cid xa)) (nth (k_args k0) (dm_store stb) []) new)
                        (fun k0 => existsb (Z.eqb (k_com k0)) power_coms = true)
                        st r (cpp_led st r L) sta stb e2).
  Proof.
    intros Hb Hn. destruct (run_pass_terminal st0 now plans rs r Hb Hn) as (st1 & o1 & E1 & H). exists st1, o1. split; [exact E1|].
    destruct (drun st1 rs []) as [[st outs]| | | |]; try contradiction. cbv zeta in *.
    destruct (cli_post_poll st r) as [[sta e1]| | | |]; try contradiction.
    destruct (dev_loop (length (dm_devs sta)) (r_now r) sta 0 (r_dev r) None []) as [[[stb tmo] e2]| | | |]; try contradiction.
    destruct H as (Es & _ & Hcl). split; [exact Es|].
    refine (pass_busy_clients_impl _ _ _ _ _ _ _ _ _ _ _ _ Hcl); [intros; exact Logic.I|]. intros xa k0 new Hsel Hd. exact (Done_power expand_str ranged_sorted rmatch _ _ _ _ _ _ Hsel Hd).
  Qed.

  (* C03: a QUERY *)
  Theorem c03_terminal_only_from_completions st0 now plans rs r : boot compress st0 -> Z.of_nat (length rs) < INT_MAX - 1 ->
    run_pass2 st0 now plans rs r (fun st L W sta stb e2 =>
      pass_busy_clients (fun xa k0 new => query_done ranged_sorted (dstep_led st r L (cid xa)) (dstep_wr st r W (k_args k0)) (dc xa) (k_com k0)
                                                     (nth (k_args k0) (dm_store stb) []) new)
                        (fun k0 => is_query (k_com k0) = true)
                        st r (cpp_led st r L) sta stb e2).
  Proof.
    intros Hb Hn. destruct (run_pass_terminal st0 now plans rs r Hb Hn) as (st1 & o1 & E1 & H). exists st1, o1. split; [exact E1|].
    destruct (drun st1 rs []) as [[st outs]| | | |]; try contradiction. cbv zeta in *.
    destruct (cli_post_poll st r) as [[sta e1]| | | |]; try contradiction.
    destruct (dev_loop (length (dm_devs sta)) (r_now r) sta 0 (r_dev r) None []) as [[[stb tmo] e2]| | | |]; try contradiction.
    destruct H as (Es & Hwb & Hcl). split; [exact Es|].
    refine (pass_busy_clients_impl _ _ _ _ _ _ _ _ _ _ _ _ Hcl); [intros; exact Logic.I|]. intros xa k0 new Hsel Hd. exact (Done_query expand_str ranged_sorted rmatch _ _ _ _ _ _ _ Hsel Hwb Hd).
  Qed.
End T.
