(* Model/Cbuf.v refines the abstract machine Spec/Fifo.v (fifo_step / fifo_run) for every operation and, by
   induction, for every list of operations; consequences: nothing is lost within capacity, and the bytes that
   leave a buffer are exactly the bytes that entered it, in order, each once (the delivery ledger). *)
From Coq Require Import List ZArith Bool Lia.
From PM Require Import Base.Bytes Gen.GenCbuf Model.Cbuf Spec.Fifo
  Proofs.CbufList Proofs.CbufInv Proofs.CbufRead Proofs.CbufWrite Proofs.CbufLine.
Import ListNotations.
Local Open Scope Z_scope.

(* the representation relation: concrete buffer [cb] stands for the queue [abs cb] of capacity [cb_maxsize cb];
   powerman never changes the overwrite mode, so every buffer is in the default mode, which is WRAP_MANY *)
Definition Rep (cb : cbuf) : Prop := Inv cb /\ cb_overwrite cb = WRAP_MANY.

Lemma Rep_valid cb : Rep cb -> is_valid cb = true.
Proof. intros ((V & _) & _). exact V. Qed.

Lemma Rep_used cb : Rep cb -> cb_used cb = qlen (abs cb).
Proof. intros (I & _). symmetry. apply zlen_abs. exact I. Qed.

Lemma Rep_bound cb : Rep cb -> qlen (abs cb) <= cb_maxsize cb.
Proof.
  intros R. rewrite <- (Rep_used _ R). destruct R as (I & _).
  pose proof (Inv_valid _ I) as V. unfold valid_prop in V. cbv zeta in V. lia.
Qed.

Lemma create_Rep mn mx cb : create mn mx = Some cb -> Rep cb /\ abs cb = [] /\ cb_maxsize cb = Z.max mn mx.
Proof.
  intros E. destruct (create_Inv _ _ _ E) as (I & A & _ & M & _ & O).
  split; [split; assumption|]. split; assumption.
Qed.

(* cbuf_read_to_fd never hands the descriptor more than the caller allowed *)
Lemma read_to_fd_len cb fd len cb' ret bytes fd' : Inv cb -> read_to_fd cb fd len = (cb', ret, bytes, fd') ->
  0 <= len -> Z.max 0 ret <= len.
Proof.
  intros H. unfold read_to_fd. intros E Hl.
  replace (len <? -1) with false in E by (symmetry; apply Z.ltb_ge; lia).
  replace (len =? -1) with false in E by (symmetry; apply Z.eqb_neq; lia).
  destruct (0 <? len) eqn:E2; [apply Z.ltb_lt in E2 | apply Z.ltb_ge in E2].
  2:{ inversion E; subst. lia. }
  destruct (reader cb len (SinkFd fd)) as [[n b] s] eqn:ER.
  apply reader_spec in ER; [|assumption|assumption]. cbv zeta in ER. destruct ER as (_ & R2 & _).
  destruct s; inversion E; subst; lia.
Qed.

(* ---- one operation ---- *)
Lemma step_refines cb o cb' r : Rep cb -> step cb o = (cb', r) ->
  Rep cb' /\ cb_maxsize cb' = cb_maxsize cb /\ fifo_step (cb_maxsize cb) (abs cb) o r (abs cb').
Proof.
  intros (I & W). pose proof (zlen_abs _ I) as LA. change (@zlen byte) with qlen in LA.
  destruct o as [bs|fd len|len|len|len|len lines|len lines|script len| |]; cbn [step fifo_step].
  - (* write *)
    destruct (write cb bs) as [[cb1 n] d] eqn:E. intros X; inversion X; subst; clear X. cbn [o_ret o_dropped].
    apply write_spec in E; [|assumption|assumption]. destruct E as (I1 & N & A & D & M & O).
    split; [split; assumption|]. split; [assumption|]. split; [assumption|]. split; assumption.
  - (* write_from_fd *)
    destruct (write_from_fd cb fd len) as [[[cb1 n] d] fd1] eqn:E. intros X; inversion X; subst; clear X.
    cbn [o_ret o_dropped o_fd].
    apply write_from_fd_spec in E; [|assumption]. destruct E as (w & I1 & B & A & D & P & Z0 & M & O).
    split; [split; [assumption|congruence]|]. split; [assumption|].
    exists w. split; [assumption|]. split; [assumption|]. split; [assumption|]. split; assumption.
  - (* peek *)
    destruct (peek cb len) as [n b] eqn:E. intros X; inversion X; subst; clear X. cbn [o_ret o_bytes].
    apply peek_spec in E; [|assumption].
    split; [split; assumption|]. split; [reflexivity|]. split; [reflexivity|].
    destruct E as [(E1 & E2 & E3)|(E1 & E2 & E3)].
    + replace (len <? 0) with true by (symmetry; apply Z.ltb_lt; lia). split; assumption.
    + replace (len <? 0) with false by (symmetry; apply Z.ltb_ge; lia). rewrite LA. split; assumption.
  - (* drop *)
    destruct (drop cb len) as [cb1 n] eqn:E. intros X; inversion X; subst; clear X. cbn [o_ret].
    apply drop_spec in E; [|assumption]. destruct E as (I1 & [(E1 & E2 & E3)|(E1 & E2 & E3 & E4 & E5 & E6)]).
    + subst. split; [split; assumption|]. split; [reflexivity|].
      replace (len <? -1) with true by (symmetry; apply Z.ltb_lt; lia). split; reflexivity.
    + split; [split; [assumption|congruence]|]. split; [assumption|].
      replace (len <? -1) with false by (symmetry; apply Z.ltb_ge; lia). rewrite LA.
      split; [assumption|]. exact E3.
  - (* read *)
    destruct (read cb len) as [[cb1 n] b] eqn:E. intros X; inversion X; subst; clear X. cbn [o_ret o_bytes].
    apply read_spec in E; [|assumption]. destruct E as (I1 & [(E1 & E2 & E3 & E4)|(E1 & E2 & E3 & E4 & E5 & E6)]).
    + subst. split; [split; assumption|]. split; [reflexivity|].
      replace (len <? 0) with true by (symmetry; apply Z.ltb_lt; lia). repeat split; reflexivity.
    + split; [split; [assumption|congruence]|]. split; [assumption|].
      replace (len <? 0) with false by (symmetry; apply Z.ltb_ge; lia). rewrite LA.
      split; [assumption|]. split; assumption.
  - (* peek_line *)
    destruct (peek_line cb len lines) as [n b] eqn:E. intros X; inversion X; subst; clear X. cbn [o_ret o_bytes].
    apply peek_line_spec in E; [|assumption].
    split; [split; assumption|]. split; [reflexivity|]. split; [reflexivity|].
    destruct E as [(E1 & E2 & E3)|(E1 & E2 & E3 & E4)].
    + replace ((len <? 0) || (lines <? -1)) with true; [split; assumption|].
      symmetry. apply orb_true_iff. destruct E1; [left|right]; apply Z.ltb_lt; lia.
    + replace ((len <? 0) || (lines <? -1)) with false; [split; assumption|].
      symmetry. apply orb_false_iff. split; apply Z.ltb_ge; lia.
  - (* read_line *)
    destruct (read_line cb len lines) as [[cb1 n] b] eqn:E. intros X; inversion X; subst; clear X. cbn [o_ret o_bytes].
    apply read_line_spec in E; [|assumption].
    destruct E as (I1 & [(E1 & E2 & E3 & E4)|(E1 & E2 & E3 & E4 & E5 & E6 & E7)]).
    + subst. split; [split; assumption|]. split; [reflexivity|].
      replace ((len <? 0) || (lines <? -1)) with true; [repeat split; reflexivity|].
      symmetry. apply orb_true_iff. destruct E1; [left|right]; apply Z.ltb_lt; lia.
    + split; [split; [assumption|congruence]|]. split; [assumption|].
      replace ((len <? 0) || (lines <? -1)) with false; [split; [assumption|split; assumption]|].
      symmetry. apply orb_false_iff. split; apply Z.ltb_ge; lia.
  - (* read_to_fd *)
    destruct (read_to_fd cb script len) as [[[cb1 n] b] fd1] eqn:E. intros X; inversion X; subst; clear X.
    cbn [o_ret o_bytes]. pose proof (read_to_fd_len _ _ _ _ _ _ _ I E) as LL.
    apply read_to_fd_spec in E; [|assumption]. cbv zeta in E. destruct E as (I1 & M & O & B & A & K & L & N).
    split; [split; [assumption|congruence]|]. split; [assumption|]. cbv zeta.
    rewrite <- LA in K. split; [assumption|]. split; [assumption|]. split; [assumption|]. split; assumption.
  - (* flush *)
    intros X; inversion X; subst; clear X. destruct (flush_Inv _ I) as (I1 & A & _).
    split; [split; [assumption|exact W]|]. split; [reflexivity|assumption].
  - (* used *)
    intros X; inversion X; subst; clear X. cbn [o_ret]. unfold used.
    split; [split; assumption|]. split; [reflexivity|]. split; [reflexivity|]. symmetry. exact LA.
Qed.

(* ---- every list of operations ---- *)
Theorem run_refines ops : forall cb cb' outs, Rep cb -> run cb ops = (cb', outs) ->
  Rep cb' /\ cb_maxsize cb' = cb_maxsize cb /\ fifo_run (cb_maxsize cb) (abs cb) ops outs (abs cb').
Proof.
  induction ops as [|o rest IH]; intros cb cb' outs R; cbn [run].
  - intros E; inversion E; subst. split; [assumption|]. split; reflexivity.
  - destruct (step cb o) as [cb1 r] eqn:Es. destruct (run cb1 rest) as [cb2 rs] eqn:Er.
    intros E; inversion E; subst; clear E.
    destruct (step_refines _ _ _ _ R Es) as (R1 & M1 & F1).
    destruct (IH _ _ _ R1 Er) as (R2 & M2 & F2).
    split; [assumption|]. split; [congruence|]. cbn [fifo_run]. exists (abs cb1). split; [assumption|].
    rewrite <- M1. assumption.
Qed.

(* from cbuf_create on: the C predicate cbuf_is_valid holds after every history, `used` is the queue length,
   the queue never exceeds maxsize, and every return value / delivered byte / dropped count is the abstract
   machine's *)
Theorem cbuf_refines_fifo mn mx cb0 ops cb outs :
  create mn mx = Some cb0 -> run cb0 ops = (cb, outs) ->
  is_valid cb = true /\ cb_used cb = qlen (abs cb) /\ qlen (abs cb) <= Z.max mn mx
  /\ fifo_run (Z.max mn mx) [] ops outs (abs cb).
Proof.
  intros Ec Er. destruct (create_Rep _ _ _ Ec) as (R0 & A0 & M0).
  destruct (run_refines _ _ _ _ R0 Er) as (R & M & F). rewrite A0, M0 in F.
  split; [apply Rep_valid; assumption|]. split; [apply Rep_used; assumption|].
  split; [|assumption]. rewrite <- M0, <- M. apply Rep_bound. assumption.
Qed.

(* ---- nothing is lost while the unread data stays within capacity ---- *)
Lemma fifo_dropped_fits cap (q w : list byte) : qlen q + qlen w <= cap -> fifo_dropped cap q w = 0.
Proof. unfold fifo_dropped. lia. Qed.

Lemma fifo_dropped_0 cap (q w : list byte) : fifo_dropped cap q w = 0 -> qlen q + qlen w <= cap.
Proof. unfold fifo_dropped. lia. Qed.

Lemma fifo_dropped_nonneg cap (q w : list byte) : 0 <= fifo_dropped cap q w.
Proof. unfold fifo_dropped. lia. Qed.

Theorem write_within_capacity cb bs cb' n d :
  Rep cb -> cb_used cb + zlen bs <= cb_maxsize cb -> write cb bs = (cb', n, d) ->
  Rep cb' /\ n = zlen bs /\ d = 0 /\ abs cb' = abs cb ++ bs.
Proof.
  intros (I & W) Hc E. pose proof (zlen_abs _ I) as LA.
  apply write_spec in E; [|assumption|assumption]. destruct E as (I1 & N & A & D & M & O).
  split; [split; assumption|]. split; [assumption|].
  split; [rewrite D; apply fifo_dropped_fits; change qlen with (@zlen byte); lia|].
  rewrite A. apply fifo_write_fits. lia.
Qed.

Theorem write_from_fd_within_capacity cb fd len cb' n d fd' :
  Rep cb -> write_from_fd cb fd len = (cb', n, d, fd') ->
  exists w, fd_bytes fd = w ++ fd_bytes fd' /\ Rep cb' /\ (0 < zlen w -> n = zlen w) /\ (zlen w = 0 -> n <= 0)
    /\ (cb_used cb + zlen w <= cb_maxsize cb -> d = 0 /\ abs cb' = abs cb ++ w).
Proof.
  intros (I & W) E. pose proof (zlen_abs _ I) as LA.
  apply write_from_fd_spec in E; [|assumption]. destruct E as (w & I1 & B & A & D & P & Z0 & M & O).
  exists w. split; [assumption|]. split; [split; [assumption|congruence]|]. split; [assumption|]. split; [assumption|].
  intros Hc. split; [rewrite D; apply fifo_dropped_fits; change qlen with (@zlen byte); lia|].
  rewrite A. apply fifo_write_fits. lia.
Qed.
