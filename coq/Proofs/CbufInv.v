(* The representation invariant of Model/Cbuf.v (= the C predicate cbuf_is_valid + the two facts about the
   allocation the C keeps implicitly) and the laws of the read side: flush, opt_set, dropper, reader. *)
From Coq Require Import List ZArith Bool Lia.
From PM Require Import Base.Bytes Gen.GenCbuf Model.Cbuf Spec.Fifo Proofs.CbufList.
Import ListNotations.
Local Open Scope Z_scope.

(* facts about the generated constants that the proofs rely on: a source edit that breaks one breaks the build *)
Lemma chunk_pos : 0 < CBUF_CHUNK.
Proof. reflexivity. Qed.
Lemma meta_pos : 0 < CBUF_META.
Proof. reflexivity. Qed.
Lemma default_is_wrap_many : default_mode = WRAP_MANY.
Proof. reflexivity. Qed.

Definition valid_prop (cb : cbuf) : Prop :=
  let S := cb_size cb + 1 in
  0 < cb_alloc cb /\ cb_size cb < cb_alloc cb /\ 0 < cb_size cb
  /\ cb_minsize cb <= cb_size cb /\ cb_size cb <= cb_maxsize cb
  /\ 0 < cb_minsize cb /\ 0 < cb_maxsize cb
  /\ 0 <= cb_used cb /\ cb_used cb <= cb_size cb
  /\ (cb_got_wrap cb = true \/ cb_i_rep cb = 0)
  /\ 0 <= cb_i_in cb /\ cb_i_in cb <= cb_size cb
  /\ 0 <= cb_i_out cb /\ cb_i_out cb <= cb_size cb
  /\ 0 <= cb_i_rep cb /\ cb_i_rep cb <= cb_size cb
  /\ (cb_i_out cb <= cb_i_in cb -> cb_i_in cb < cb_i_rep cb \/ cb_i_rep cb <= cb_i_out cb)
  /\ (cb_i_in cb < cb_i_out cb -> cb_i_in cb < cb_i_rep cb /\ cb_i_rep cb <= cb_i_out cb)
  /\ cb_size cb - cb_used cb = (cb_i_out cb - cb_i_in cb - 1 + S) mod S.

Lemma is_valid_iff cb : is_valid cb = true <-> valid_prop cb.
Proof.
  unfold is_valid, valid_prop. cbv zeta.
  rewrite !andb_true_iff, orb_true_iff, !Z.ltb_lt, !Z.leb_le, !Z.eqb_eq.
  destruct (cb_i_out cb <=? cb_i_in cb) eqn:E; [apply Z.leb_le in E | apply Z.leb_gt in E];
    rewrite ?andb_true_iff, ?orb_true_iff, ?Z.ltb_lt, ?Z.leb_le; intuition lia.
Qed.

(* is_valid, and: the data array has size+1 slots; alloc - size is the constant overhead *)
Definition Inv (cb : cbuf) : Prop :=
  is_valid cb = true /\ zlen (cb_data cb) = cb_size cb + 1 /\ cb_alloc cb = cb_size cb + CBUF_META.

Lemma Inv_valid cb : Inv cb -> valid_prop cb.
Proof. intros (H & _). now apply is_valid_iff. Qed.

Lemma Inv_intro cb : valid_prop cb -> zlen (cb_data cb) = cb_size cb + 1 -> cb_alloc cb = cb_size cb + CBUF_META -> Inv cb.
Proof. intros. split; [now apply is_valid_iff | split; assumption]. Qed.

(* normal form of every x mod s with 0 <= x < 2s in the goal and the hypotheses *)
Ltac mod_one x s :=
  let H := fresh "Hm" in
  assert (H : 0 <= x < 2 * s) by lia;
  let E := fresh "Em" in
  destruct (mod_cases x s H) as [[? E]|[? E]]; rewrite E in *; clear H E.

Ltac mod_split :=
  repeat match goal with
         | H : context [ ?x mod ?s ] |- _ => mod_one x s
         | |- context [ ?x mod ?s ] => mod_one x s
         end.

Ltac proj_simpl := cbn [cb_alloc cb_minsize cb_maxsize cb_size cb_used cb_overwrite cb_got_wrap cb_i_in cb_i_out cb_i_rep cb_data] in *.

Ltac inv_facts H :=
  let V := fresh "V" in
  pose proof (Inv_valid _ H) as V; unfold valid_prop in V; cbv zeta in V;
  let L := fresh "Ldata" in let Al := fresh "Halloc" in
  destruct H as (_ & L & Al).

(* ---- create, flush, opt_set ---- *)
Lemma create_Inv mn mx cb : create mn mx = Some cb ->
  Inv cb /\ abs cb = [] /\ cb_used cb = 0 /\ cb_maxsize cb = Z.max mn mx /\ cb_minsize cb = mn /\ cb_overwrite cb = WRAP_MANY.
Proof.
  unfold create. destruct (mn <=? 0) eqn:E; [discriminate|]. apply Z.leb_gt in E.
  intros H. inversion H; subst; clear H. proj_simpl.
  assert (G : (if mx >? mn then mx else mn) = Z.max mn mx).
  { destruct (mx >? mn) eqn:G; [apply Z.gtb_lt in G; lia|]. pose proof (Zgt_cases mx mn) as G'. rewrite G in G'. lia. }
  split.
  { apply Inv_intro; proj_simpl; [|rewrite zlen_zeros; lia|reflexivity].
    unfold valid_prop. proj_simpl. cbv zeta. pose proof meta_pos.
    rewrite Z.mod_small by lia. intuition lia. }
  split. { unfold abs. proj_simpl. apply ztake_neg. lia. }
  split. { reflexivity. }
  split. { exact G. }
  split. { reflexivity. }
  apply default_is_wrap_many.
Qed.

Lemma create_None mn mx : create mn mx = None <-> mn <= 0.
Proof. unfold create. destruct (mn <=? 0) eqn:E; [apply Z.leb_le in E | apply Z.leb_gt in E]; split; intros; try discriminate; try lia; reflexivity. Qed.

Lemma flush_Inv cb : Inv cb -> Inv (flush cb) /\ abs (flush cb) = [] /\ cb_used (flush cb) = 0.
Proof.
  intros H. inv_facts H. split; [|split; [|reflexivity]].
  - apply Inv_intro; unfold flush; proj_simpl; try assumption. unfold valid_prop. proj_simpl. cbv zeta.
    rewrite Z.mod_small by lia. intuition lia.
  - unfold abs, flush. cbn [cb_used]. apply ztake_neg. lia.
Qed.

Lemma opt_set_Inv cb v cb' r : Inv cb -> opt_set_overwrite cb v = (cb', r) ->
  Inv cb' /\ abs cb' = abs cb /\ (r = 0 \/ (r = -1 /\ cb' = cb)).
Proof.
  intros H. unfold opt_set_overwrite. destruct (mode_of_Z v); intros E; inversion E; subst; clear E.
  - split; [|split; [reflexivity | left; reflexivity]].
    inv_facts H. apply Inv_intro; proj_simpl; assumption.
  - split; [assumption | split; [reflexivity | right; split; reflexivity]].
Qed.

(* ---- dropper ---- *)
Lemma dropper_Inv cb len : Inv cb -> 0 < len <= cb_used cb ->
  Inv (dropper cb len) /\ abs (dropper cb len) = zdrop len (abs cb) /\ cb_used (dropper cb len) = cb_used cb - len.
Proof.
  intros H Hl. inv_facts H. split; [|split; [|reflexivity]].
  - apply Inv_intro; cbn [dropper cb_data cb_size cb_alloc]; try assumption.
    unfold valid_prop. cbn [dropper cb_alloc cb_size cb_minsize cb_maxsize cb_used cb_got_wrap cb_i_in cb_i_out cb_i_rep]. cbv zeta.
    mod_split; intuition lia.
  - unfold abs. cbn [dropper cb_used cb_i_out cb_data].
    fold (rot ((cb_i_out cb + len) mod (cb_size cb + 1)) (cb_data cb)). fold (rot (cb_i_out cb) (cb_data cb)).
    rewrite <- Ldata. rewrite <- rot_rot by lia.
    set (R := rot (cb_i_out cb) (cb_data cb)). assert (LR : zlen R = cb_size cb + 1) by (unfold R; rewrite zlen_rot; lia).
    unfold rot. rewrite ztake_app_l by (rewrite zlen_zdrop; lia).
    replace (cb_used cb) with (len + (cb_used cb - len)) at 2 by lia.
    rewrite zdrop_ztake by lia. reflexivity.
Qed.

(* ---- drop ---- *)
Lemma drop_spec cb len cb' r : Inv cb -> drop cb len = (cb', r) ->
  Inv cb' /\
  ((len < -1 /\ r = -1 /\ cb' = cb) \/
   (-1 <= len /\ r = (if len =? -1 then cb_used cb else Z.min len (cb_used cb)) /\ abs cb' = zdrop r (abs cb) /\ cb_used cb' = cb_used cb - r
    /\ cb_maxsize cb' = cb_maxsize cb /\ cb_overwrite cb' = cb_overwrite cb)).
Proof.
  intros H. pose proof (Inv_valid _ H) as V. unfold valid_prop in V. cbv zeta in V.
  unfold drop. destruct (len <? -1) eqn:E1; [apply Z.ltb_lt in E1 | apply Z.ltb_ge in E1].
  { intros E; inversion E; subst. split; [assumption|]. left. repeat split; lia. }
  destruct (len =? 0) eqn:E2; [apply Z.eqb_eq in E2 | apply Z.eqb_neq in E2].
  { intros E; inversion E; subst. split; [assumption|]. right.
    change (0 =? -1) with false. cbv iota. rewrite Z.min_l by lia. rewrite zdrop_neg by lia. repeat split; lia. }
  set (l := if len =? -1 then cb_used cb else Z.min len (cb_used cb)).
  destruct (0 <? l) eqn:E3; [apply Z.ltb_lt in E3 | apply Z.ltb_ge in E3]; intros E; inversion E; subst; clear E.
  - assert (Hl : 0 < l <= cb_used cb) by (subst l; destruct (len =? -1); lia).
    destruct (dropper_Inv cb l H Hl) as (I & A & U). split; [assumption|]. right.
    repeat split; try assumption; try reflexivity; try lia.
  - split; [assumption|]. right. rewrite zdrop_neg by lia.
    assert (l = 0) by (subst l; destruct (len =? -1) eqn:E4; [|apply Z.eqb_neq in E4]; lia).
    repeat split; try reflexivity; lia.
Qed.

(* ---- reader ---- *)
Lemma putf_spec snk bytes m deliv snk' : putf snk bytes = (m, deliv, snk') ->
  m <= zlen bytes /\ deliv = ztake m bytes /\ (snk = SinkMem -> m = zlen bytes /\ snk' = SinkMem).
Proof.
  destruct snk as [|[|a r]]; cbn [putf].
  - intros E; inversion E; subst. rewrite ztake_all by lia.
    split; [lia | split; [reflexivity | intros _; split; reflexivity]].
  - intros E; inversion E; subst. rewrite ztake_all by lia.
    split; [lia | split; [reflexivity | discriminate]].
  - destruct (a <? 0) eqn:Ea; [apply Z.ltb_lt in Ea | apply Z.ltb_ge in Ea]; intros E; inversion E; subst.
    + pose proof (zlen_nonneg bytes). rewrite ztake_neg by lia.
      split; [lia | split; [reflexivity | discriminate]].
    + rewrite zlen_ztake. rewrite <- ztake_clip. pose proof (zlen_nonneg bytes).
      split; [lia | split; [reflexivity | discriminate]].
Qed.
