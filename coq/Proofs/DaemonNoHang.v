(* Hang-free forms of the two device-level statements quoted by Properties/C04.v that still carried a `Hang _ => True` case
   (Proofs/DeviceTimer.hpass_ok, Proofs/DeviceDeadline.deadline_pass), obtained by combining them with Proofs/DeviceHang.v: under
   the Hang-free device invariant DInvH (= DInvG, 0 <= retry_count, plug lists of the queued actions no longer than the device's,
   blocks nested at most DMAX = 7 deep: the static hypothesis nest_ok on the configuration) one device's share of dev_post_poll
   ALWAYS returns Ok (post_poll_one_invH), and so does every operation of the harness world (hstep_invH). *)
From Coq Require Import List NArith ZArith Bool Lia.
From PM Require Import Base.Bytes Base.Outcome Gen.GenConsts Model.ScriptAst Model.Enqueue Model.Script Model.Device Model.DevHarness
                       Proofs.DeviceInv Proofs.DeviceRun Proofs.DeviceInvG Proofs.DeviceRunG Proofs.DeviceTimer Proofs.DeviceMask Proofs.DeviceDeadline
                       Proofs.DeviceHang.
Import ListNotations.
Local Open Scope Z_scope.

Section NH.
  Variable rmatch : text -> text -> option pmatch.
  Variable compress : list text -> text.
  Variable sc : bool.

  (* the timers of one pass of the device world: hpass_ok without the Hang case *)
  Lemma hpass_ok_H h : HInv compress h -> HInvH compress h ->
    match hstep rmatch compress sc h HPass with
    | Ok (h', o) =>
        tmo_pos (o_tmo o) /\ h_now h' = h_now h /\
        forall k d p, nth_error (h_devs h) k = Some (d, p) ->
          exists d', nth_error (h_devs h') k = Some (d', apply_evs p (evs_of k (o_evs o))) /\
                     dev_pass_ok compress (h_now h) d d' (evs_of k (o_evs o)) (o_tmo o)
    | _ => False
    end.
  Proof.
    intros Hh HhH. pose proof (hpass_ok rmatch compress sc h Hh) as H.
    destruct (hstep_invH rmatch compress sc h HPass HhH Logic.I) as (h' & o & E & _).
    rewrite E in H |- *. exact H.
  Qed.

  (* D1 (deadline_pass) without the Hang case: in the third alternative - a connection established in this very pass - the
     pass returns too *)
  Lemma deadline_pass_H now d store tmo pin act0 rest : DInvH compress d -> tmo_pos tmo ->
    dv_acts d = act0 :: rest -> hstamp now act0 + dv_timeout d <= now ->
    flushes rmatch compress sc now d store tmo pin
    \/
    (exists d' st' tmo' evs, post_poll_one rmatch compress sc now d store tmo pin = Ok (d', st', tmo', evs) /\
       is_login act0 = true /\ dv_cstate d' <> DEV_CONNECTED /\ completions evs = [] /\ queued d' = queued d /\
       exists a1 r1, rest = a1 :: r1 /\ now < hstamp now a1 + dv_timeout d /\ kept now a1 r1 (dv_acts d'))
    \/
    (exists d3 t3 pl e12 Lf new, pp_front now d tmo pin = Ok (d3, t3, pl, e12) /\ dv_cstate d3 = DEV_CONNECTED /\
       fresh_login Lf /\ pings new /\ dv_acts d3 = Lf :: rw (nolog (act0 :: rest)) ++ new /\
       ((dv_cstate d = DEV_CONNECTING /\ pi_finish_ok pin = true /\ pi_out pin = true) \/ hd ConnFail (pi_plans pin) = ConnNow) /\
       match post_poll_one rmatch compress sc now d store tmo pin with
       | Ok (d', _, _, evs) => completions evs ++ queued d' = queued d
       | _ => False
       end).
  Proof.
    intros HdH Hp Ea Hl.
    destruct (deadline_pass rmatch compress sc now d store tmo pin act0 rest (dh_inv _ _ HdH) Hp (dh_rc _ _ HdH) Ea Hl) as [H|[H|H]];
      [left; exact H|right; left; exact H|right; right].
    destruct H as (d3 & t3 & pl & e12 & Lf & new & E3 & C3 & F & Pg & A3 & Hc & HM).
    exists d3, t3, pl, e12, Lf, new. repeat (split; [assumption|]).
    destruct (post_poll_one_invH rmatch compress sc now d store tmo pin HdH Hp) as (d' & st' & t' & evs & E & _).
    rewrite E in HM |- *. exact HM.
  Qed.
End NH.
