(* Non-vacuity of Proofs/DaemonProgress.v: the daemon of DeviceDeadlineDaemonEx (one coprocess device C07.ex_dev, time-out 5 s;
   client 1 has sent `on n1` at 1.1 s; state s3 = after the round at 1.2 s: queue [login(1 s); on(client 1)], retry_count 1,
   the round asked poll for 4.8 s = wake-up at 6 s) against the FLAPPING peer of DeviceDeadlineBackoffEx.ps_flap:
   hang-ups at 5.9, 10.8, 15.7, 20.6 s, the connect the daemon's own timer asks for at 23.7 s, hang-up at 28.6 s, a last round
   at 36.1 s.  No client input.  sigma = 1 ms (poll's granularity).  All hypotheses of daemon_bounded_time hold with
   B = 1 s + 7 * 5.001 s = 36.007 s, and the theorem - not an evaluation - says client 1 has been answered. *)
From Coq Require Import List NArith ZArith Bool Lia.
From PM Require Import Base.Bytes Base.Outcome Gen.GenConsts Model.ScriptAst Model.Enqueue Model.Script Model.Device Model.DevHarness
                       Model.Client Model.CliWorld Model.Daemon Spec.Proto
                       Proofs.ClientProto Proofs.ClientStream Proofs.DeviceInv Proofs.DeviceRun Proofs.DeviceInvG Proofs.DeviceRunG Proofs.DeviceHang Proofs.DaemonLedger Proofs.DaemonFrame
                       Proofs.DaemonPending Proofs.DeviceMask Proofs.DeviceDeadline Proofs.DaemonDeadline Proofs.DeviceDeadlineDaemonEx
                       Proofs.DeviceDeadlineBackoff Proofs.DaemonProgress.
From PM Require Properties.C07.
Import ListNotations.
Local Open Scope Z_scope.

Notation xrun := (drun ex_expand ex_join ex_join (fun l => l) C07.ex_rmatch C07.ex_compress false).
Definition xhup : passin := mkPassin true false false false true None (Some O) true [ConnNow] None.
Definition xconn : passin := mkPassin false false false false false None None true [ConnNow] None.
Definition flap_rounds : list round :=
  [mkRound 5900000 false [] [xhup]; mkRound 10800000 false [] [xhup]; mkRound 15700000 false [] [xhup]; mkRound 20600000 false [] [xhup];
   mkRound 23700000 false [] [xconn]; mkRound 28600000 false [] [xhup]; mkRound 36100000 false [] []].

Definition resF := Eval vm_compute in xrun s3 flap_rounds [].
Definition sF : daemon := Eval vm_compute in match resF with Ok (s, _) => s | _ => ex_st end.
Definition oF : list dout := Eval vm_compute in match resF with Ok (_, o) => o | _ => [] end.
Lemma runF : xrun s3 flap_rounds [] = Ok (sF, oF).
Proof. vm_compute. reflexivity. Qed.

Example daemon_bounded_time_example :
  xrun s3 flap_rounds [] = Ok (sF, oF) /\
  dtimely 1000 (Some 6000000) 1200000 flap_rounds oF /\
  map do_tmo oF = [Some 5000000; Some 5000000; Some 5000000; Some 3100000; Some 5000000; Some 10100000; Some 2600000] /\
  last_rclock 1200000 flap_rounds = 36100000 /\
  ~ In 1 (qall (dm_devs sF)) /\ answered sF 1.
Proof.
  split; [exact runF|].
  assert (Ht : dtimely 1000 (Some 6000000) 1200000 flap_rounds oF) by (apply dtimely_b_ok; vm_compute; reflexivity).
  split; [exact Ht|]. split; [vm_compute; reflexivity|]. split; [reflexivity|].
  destruct s3_inv as (I3 & N3 & S3).
  (* the conclusion comes from the theorem, not from evaluating the run *)
  destruct (daemon_bounded_time ex_expand ex_join ex_join (fun l => l) C07.ex_rmatch C07.ex_compress false 1000 ltac:(lia) 1 36007000
              (mkRound 5900000 false [] [xhup]) (tl flap_rounds) s3 sF oF (Some 6000000) 1200000 I3 N3) as (_ & Hno & Ha).
  - rewrite S3. lia.
  - rewrite S3. vm_compute. discriminate.
  - apply no_input_quiet_for; [exact N3|]. repeat constructor.
  - exact runF.
  - exact Ht.
  - intros j d Hn Hin. destruct j as [|j]; [|destruct j; discriminate Hn]. vm_compute in Hn. injection Hn as <-.
    split; [|vm_compute; discriminate].
    split; [vm_compute; reflexivity|]. split; [vm_compute; reflexivity|]. split.
    + repeat constructor; intros t Et; vm_compute in Et; try discriminate Et. injection Et as <-. lia.
    + intros a r s Ea Es. exists 6000000. split; [reflexivity|]. vm_compute in Ea. injection Ea as <- <-. vm_compute in Es. injection Es as <-. vm_compute. discriminate.
  - vm_compute. discriminate.
  - split; assumption.
Qed.

(* ... and what `answered` means here: client 1 is idle again and its single request line has its terminal reply *)
Example daemon_bounded_time_example_reply :
  map (fun x => (cid x, busy (dc x), dc_lines x)) (dm_clients sF) = [(1, false, 1%nat)].
Proof. vm_compute. reflexivity. Qed.

(* ---------- daemon_bounded_time_steady: the silent peer ----------
   The same state s3, rounds at 5 s and 11 s without any event: the device keeps its queue in both passes (quiet_io), the bound is
   1 s + 2 * 5 s = 11 s, and the theorem says client 1 has been answered by then (in fact the round at 11 s finds the login
   expired and reports the whole queue). *)
Definition silent_rounds : list round := [mkRound 5000000 false [] []; mkRound 11000000 false [] []].
Definition resS := Eval vm_compute in xrun s3 silent_rounds [].
Definition sS : daemon := Eval vm_compute in match resS with Ok (s, _) => s | _ => ex_st end.
Definition oS : list dout := Eval vm_compute in match resS with Ok (_, o) => o | _ => [] end.
Lemma runS : xrun s3 silent_rounds [] = Ok (sS, oS).
Proof. vm_compute. reflexivity. Qed.
Definition s3a : daemon := Eval vm_compute in match xstep s3 (mkRound 5000000 false [] []) with Ok (s, _) => s | _ => ex_st end.
Lemma s3a_inv : DPInv C07.ex_compress s3a /\ NL s3a /\ dm_seq s3a = 2.
Proof. step_inv s3_inv (mkRound 5000000 false [] []). Qed.

Lemma steady_dev0 st now : DPInv C07.ex_compress st -> length (dm_devs st) = 1%nat ->
  (forall d, nth_error (dm_devs st) 0 = Some d -> dv_cstate d <> DEV_NOT_CONNECTED) ->
  forall j d1, nth_error (dm_devs st) j = Some d1 -> forall t, tmo_pos t -> steady now d1 t (dev_pin st j (nth j [] passin0)).
Proof.
  intros I Hl Hc j d1 Hn t Ht.
  assert (Hd : DInvRG C07.ex_compress d1) by (pose proof (dp_devs _ _ I) as H; rewrite Forall_forall in H; apply DInvH_RG, H; eapply nth_error_In; exact Hn).
  destruct j as [|j]; [|exfalso; assert (nth_error (dm_devs st) (S j) = None) by (apply nth_error_None; lia); congruence].
  apply (steady_quiet_io C07.ex_compress); [exact (proj1 Hd)|exact Ht|exact (Hc d1 Hn)|].
  unfold dev_pin, with_pre. cbn [nth]. destruct (nth 0 (dm_pipe st) true); cbn [fst pi_read passin0]; unfold quiet_io; cbn; rewrite andb_false_r; reflexivity.
Qed.

Example daemon_bounded_time_steady_example :
  xrun s3 silent_rounds [] = Ok (sS, oS) /\ last_rclock 1200000 silent_rounds = 11000000 /\
  ~ In 1 (qall (dm_devs sS)) /\ answered sS 1.
Proof.
  split; [exact runS|]. split; [reflexivity|].
  destruct s3_inv as (I3 & N3 & S3).
  destruct (daemon_bounded_time_steady ex_expand ex_join ex_join (fun l => l) C07.ex_rmatch C07.ex_compress false 0 ltac:(lia) 1 11000000
              (mkRound 5000000 false [] []) (tl silent_rounds) s3 sS oS 1200000 I3 N3) as (_ & Hno & Ha).
  - rewrite S3. lia.
  - rewrite S3. vm_compute. discriminate.
  - apply no_input_quiet_for; [exact N3|]. repeat constructor.
  - cbn [steady_for tl silent_rounds]. split.
    + intros st1 e1 E j d1 _ Hn _. vm_compute in E. injection E as <- _. cbn [r_dev r_now].
      apply (steady_dev0 s3 5000000 I3 eq_refl); [|exact Hn]. intros d Hd. vm_compute in Hd. injection Hd as <-. vm_compute. discriminate.
    + intros st2 o E. vm_compute in E. injection E as <- _. fold s3a. split; [|intros; exact I].
      intros st1 e1 E j d1 _ Hn _. vm_compute in E. injection E as <- _. fold s3a in Hn |- *. cbn [r_dev r_now].
      apply (steady_dev0 s3a 11000000 (proj1 s3a_inv) eq_refl); [|exact Hn]. intros d Hd. vm_compute in Hd. injection Hd as <-. vm_compute. discriminate.
  - exact runS.
  - vm_compute. repeat split; discriminate.
  - intros j d Hn Hin. destruct j as [|j]; [|destruct j; discriminate Hn]. vm_compute in Hn. injection Hn as <-.
    split; [vm_compute; reflexivity|]. split; [|vm_compute; discriminate].
    repeat constructor; intros t Et; vm_compute in Et; try discriminate Et. injection Et as <-. lia.
  - vm_compute. discriminate.
  - split; assumption.
Qed.
