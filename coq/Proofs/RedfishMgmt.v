(* C19: every line that is not stat/on/off returns to the prompt; the error reports of the property text
   (malformed range, bad host index, count mismatch, unknown plug, unknown command). *)
From Coq Require Import List NArith ZArith Bool Lia.
From PM Require Import Base.Bytes Base.Outcome Gen.GenRfp Model.Redfish Spec.RedfishSpec Model.RedfishView Proofs.RedfishBase.
Import ListNotations.

(* the three command lists and the fault flag are untouched *)
Definition lists_same (a b : state) : Prop :=
  s_active b = s_active a /\ s_wait b = s_wait a /\ s_delayed b = s_delayed a /\ s_fault b = s_fault a.

Lemma lists_same_refl a : lists_same a a.
Proof. repeat split. Qed.
Lemma lists_same_trans a b c : lists_same a b -> lists_same b c -> lists_same a c.
Proof. unfold lists_same. intuition congruence. Qed.
Lemma lists_same_emitf st t f a : lists_same st (emitf st t f a).
Proof. repeat split. Qed.
Lemma lists_same_emit st t l : lists_same st (emit st t l).
Proof. repeat split. Qed.

Lemma at_prompt_same a b : at_prompt a -> lists_same a b -> at_prompt b.
Proof. unfold at_prompt, lists_same. intuition congruence. Qed.

Lemma drain_idle fuel sched st : s_fault st = None -> idle st = true -> drain fuel sched st = Ok st.
Proof. intros F I. destruct fuel; cbn [drain]; rewrite F, I; reflexivity. Qed.

Lemma at_prompt_idle st : at_prompt st -> idle st = true.
Proof. intros (A & W & D & _). unfold idle. now rewrite A, W, D. Qed.

Section WithHostlist.
Variable hlc : text -> option (list text).

Lemma setup_plug_lists st p idx par : lists_same st (fst (setup_plug st p idx par)).
Proof.
  unfold setup_plug. destruct (strtol10 idx) as [[v er] rest].
  destruct (er || _ || _); [apply lists_same_emitf|].
  destruct (nth_error _ _); [repeat split | apply lists_same_emitf].
Qed.

Lemma setup_plugs_same_lists ps : forall st idx par, lists_same st (setup_plugs_same st ps idx par).
Proof.
  induction ps as [|p r IH]; intros st idx par; cbn [setup_plugs_same]; [apply lists_same_refl|].
  pose proof (setup_plug_lists st p idx par) as H. destruct (setup_plug st p idx par) as [st' ok]. cbn [fst] in H.
  destruct ok; [eapply lists_same_trans; [exact H | apply IH] | exact H].
Qed.

Lemma setup_plugs_pair_lists ps : forall st is par, lists_same st (setup_plugs_pair st ps is par).
Proof.
  induction ps as [|p r IH]; intros st is par; cbn [setup_plugs_pair]; [apply lists_same_refl|].
  destruct is as [|i ri]; [apply lists_same_refl|].
  pose proof (setup_plug_lists st p i par) as H. destruct (setup_plug st p i par) as [st' ok]. cbn [fst] in H.
  destruct ok; [eapply lists_same_trans; [exact H | apply IH] | exact H].
Qed.

Lemma remove_initial_lists st : lists_same st (remove_initial_plugs st).
Proof. unfold remove_initial_plugs. destruct (s_initial st); repeat split. Qed.

Lemma setplugs_lists st av : lists_same st (setplugs hlc st av).
Proof.
  unfold setplugs. destruct av as [|a0 [|a1 rest]]; try apply lists_same_emitf.
  destruct (hlc a0) as [ps|]; [|apply lists_same_emitf]. destruct (hlc a1) as [is|]; [|apply lists_same_emitf].
  destruct (Nat.eqb _ _).
  - eapply lists_same_trans; [apply remove_initial_lists | apply setup_plugs_pair_lists].
  - destruct (_ && _).
    + destruct is; [apply remove_initial_lists|]. eapply lists_same_trans; [apply remove_initial_lists | apply setup_plugs_same_lists].
    + eapply lists_same_trans; [apply remove_initial_lists | apply lists_same_emitf].
Qed.

Lemma setpath_go_lists ps : forall st c path, lists_same st (setpath_go st ps c path).
Proof.
  induction ps as [|p r IH]; intros st c path; cbn [setpath_go]; [apply lists_same_refl|].
  destruct (name_valid _ _); [|apply lists_same_emitf].
  eapply lists_same_trans; [|apply IH]. repeat split.
Qed.

Lemma setpath_lists st av : lists_same st (setpath hlc st av).
Proof.
  unfold setpath. destruct av as [|a0 [|a1 [|a2 rest]]]; try apply lists_same_emitf.
  destruct (cmd_of_word a1); [|apply lists_same_emitf]. destruct (hlc a0); [apply setpath_go_lists | apply lists_same_emitf].
Qed.

Lemma settimeout_lists st av : lists_same st (settimeout st av).
Proof.
  unfold settimeout. destruct av as [|a r]; [apply lists_same_refl|]. destruct (strtol10 a) as [[v er] rest].
  destruct (er || _ || _); [apply lists_same_emitf | apply lists_same_refl].
Qed.

Lemma help_lists l : forall st, lists_same st (fold_left (fun s x => emit s TDiag x) l st).
Proof. induction l as [|x r IH]; intros st; cbn [fold_left]; [apply lists_same_refl|]. eapply lists_same_trans; [apply lists_same_emit | apply IH]. Qed.

(* a line whose first word is not stat/on/off leaves the three lists alone *)
Lemma process_cmd_mgmt_lists st av :
  (forall w args, av = w :: args -> cmd_of_word w = None) -> lists_same st (fst (process_cmd hlc st av)).
Proof.
  intros NP. unfold process_cmd. destruct av as [|w args]; [apply lists_same_refl|].
  rewrite (NP w args eq_refl).
  destruct (text_eqb w _); [cbn [fst]; apply help_lists|].
  destruct (text_eqb w _); [apply lists_same_refl|].
  destruct (text_eqb w _); [cbn [fst]; destruct args; [apply lists_same_emitf | apply lists_same_refl]|].
  destruct (text_eqb w _); [apply lists_same_refl|].
  destruct (text_eqb w _); [repeat split|].
  destruct (text_eqb w _); [repeat split|].
  destruct (text_eqb w _); [repeat split|].
  destruct (text_eqb w _); [cbn [fst]; apply setplugs_lists|].
  destruct (text_eqb w _); [cbn [fst]; apply setpath_lists|].
  destruct (text_eqb w _); [cbn [fst]; apply settimeout_lists|].
  cbn [fst]. apply lists_same_emitf.
Qed.

(* C19_survives, management part: whatever is typed that is not a stat/on/off command -- bad host indices, malformed
   ranges, count mismatches, unknown words, wrong usage -- the helper is back at its prompt (or has been told to quit) *)
Theorem mgmt_line_returns st line sched :
  at_prompt st -> (forall w args, argv line = w :: args -> cmd_of_word w = None) ->
  exists st' q, run_line hlc st line sched = Ok (st', q) /\ at_prompt st'.
Proof.
  intros AP NP. unfold run_line.
  set (st0 := set_log (set_out st []) []).
  assert (AP0 : at_prompt st0) by exact AP.
  pose proof (process_cmd_mgmt_lists st0 (argv line) NP) as LS.
  destruct (process_cmd hlc st0 (argv line)) as [st1 q]. cbn [fst] in LS.
  pose proof (at_prompt_same _ _ AP0 LS) as AP1.
  destruct q; [eauto|].
  rewrite drain_idle; [eauto | apply AP1 | now apply at_prompt_idle].
Qed.

(* ------------------------------------------------------------------ stat/on/off dispatch *)
Lemma process_cmd_power st w args c : cmd_of_word w = Some c -> process_cmd hlc st (w :: args) = (power_cmd hlc st c (first_arg args), false).
Proof.
  unfold cmd_of_word. intros H.
  destruct (text_eqb w CMD_STAT) eqn:E1; [apply text_eqb_eq in E1; subst w; inversion H; reflexivity|].
  destruct (text_eqb w CMD_ON) eqn:E2; [apply text_eqb_eq in E2; subst w; inversion H; reflexivity|].
  destruct (text_eqb w CMD_OFF) eqn:E3; [apply text_eqb_eq in E3; subst w; inversion H; reflexivity|].
  discriminate.
Qed.

(* the line, up to what a command never reads *)
Definition reset (st : state) : state := set_log (set_out st []) [].

(* malformed range (F1: `stat x[2-1]`): hostlist_create fails, one message, nothing else happens *)
Theorem malformed_range_reported st line sched w a rest c :
  at_prompt st -> argv line = w :: a :: rest -> cmd_of_word w = Some c -> hlc a = None ->
  exists st', run_line hlc st line sched = Ok (st', false) /\ at_prompt st' /\ same_cfg st' st /\ s_tstat st' = s_tstat st /\
              out_text st' = [bs "illegal hosts input"%string ++ [LF]].
Proof.
  intros AP AV CW HL. unfold run_line. rewrite AV, (process_cmd_power _ _ _ _ CW). cbn [first_arg].
  unfold power_cmd. rewrite HL.
  set (st1 := emitf _ _ _ _).
  assert (AP1 : at_prompt st1) by exact AP.
  rewrite drain_idle; [|apply AP1 | now apply at_prompt_idle].
  exists st1. repeat split; try apply AP1. destruct c; reflexivity.
Qed.

(* unknown plugs: one line each, nothing else happens *)
Lemma target_one_unknown c st p : name_valid (s_tab st) p = false ->
  target_one c st p = emitf st (TUnknown p) (if cmd_is_stat c then f_stat_unknown_plug else f_power_unknown_plug) [p].
Proof. intros H. unfold target_one. now rewrite H. Qed.

Lemma unknown_line c p : fmt (if cmd_is_stat c then f_stat_unknown_plug else f_power_unknown_plug) [p] = bs "unknown plug specified: "%string ++ p ++ [LF].
Proof. destruct c; reflexivity. Qed.

Lemma fold_target_unknown c ts : forall st, forallb (fun p => negb (name_valid (s_tab st) p)) ts = true ->
  let st' := fold_left (target_one c) ts st in
  lists_same st st' /\ same_cfg st' st /\ s_tstat st' = s_tstat st /\ s_log st' = s_log st /\
  s_out st' = s_out st ++ map (fun p => (TUnknown p, bs "unknown plug specified: "%string ++ p ++ [LF])) ts.
Proof.
  induction ts as [|p r IH]; intros st H; cbn [fold_left forallb map] in *.
  - rewrite app_nil_r. repeat split.
  - apply andb_true_iff in H as [H1 H2]. apply negb_true_iff in H1. rewrite (target_one_unknown _ _ _ H1).
    set (st1 := emitf st _ _ _). specialize (IH st1 H2). cbn zeta in IH. destruct IH as (LS & SC & TS & LG & OUT).
    split; [eapply lists_same_trans; [apply lists_same_emitf | exact LS]|].
    split; [exact SC|]. split; [exact TS|]. split; [exact LG|].
    rewrite OUT. subst st1. st_simpl. rewrite unknown_line, <- app_assoc. reflexivity.
Qed.

Theorem unknown_plugs_reported st line sched w a rest c ts :
  at_prompt st -> argv line = w :: a :: rest -> cmd_of_word w = Some c -> hlc a = Some ts -> cyclic (s_tab st) = false ->
  forallb (fun p => negb (name_valid (s_tab st) p)) ts = true ->
  exists st', run_line hlc st line sched = Ok (st', false) /\ at_prompt st' /\ same_cfg st' st /\ s_tstat st' = s_tstat st /\
              s_out st' = map (fun p => (TUnknown p, bs "unknown plug specified: "%string ++ p ++ [LF])) ts.
Proof.
  intros AP AV CW HL CY UK. unfold run_line. rewrite AV, (process_cmd_power _ _ _ _ CW). cbn [first_arg].
  unfold power_cmd. rewrite HL. change (s_tab (set_log (set_out st []) [])) with (s_tab st). rewrite CY.
  destruct (fold_target_unknown c ts (set_log (set_out st []) []) UK) as (LS & SC & TS & LG & OUT).
  set (st1 := fold_left _ _ _) in *.
  assert (AP1 : at_prompt st1) by (eapply at_prompt_same; [|exact LS]; exact AP).
  destruct AP1 as (A1 & W1 & D1 & F1). rewrite W1.
  rewrite drain_idle; [|exact F1 | apply at_prompt_idle; repeat split; assumption].
  exists st1. repeat split; try assumption; try apply SC.
Qed.

(* bad host index in setplugs: one message, the plug is not defined *)
Definition bad_index (st : state) (idx : text) : bool :=
  let '(v, erange, rest) := strtol10 idx in
  erange || (match rest with [] => false | _ => true end) || (int_of_long v <? 0)%Z ||
  (match nth_error (s_hosts st) (Z.to_nat (int_of_long v)) with None => true | Some _ => false end).

Lemma setup_plug_bad st p idx par : bad_index st idx = true ->
  exists l, setup_plug st p idx par = (emit st TDiag l, false) /\
            (l = bs "setplugs: invalid hostindex "%string ++ idx ++ bs " specified"%string ++ [LF] \/
             exists d, l = bs "setplugs: hostindex "%string ++ d ++ bs " out of range"%string ++ [LF]).
Proof.
  unfold bad_index, setup_plug. destruct (strtol10 idx) as [[v er] rest]. intros H.
  destruct (er || _ || _) eqn:E1.
  - eexists. split; [reflexivity|]. left. reflexivity.
  - cbn [orb] in H. destruct (nth_error _ _); [discriminate|].
    eexists. split; [reflexivity|]. right. eexists. reflexivity.
Qed.

Theorem bad_index_reported st line sched a0 a1 rest p ps idx :
  at_prompt st -> argv line = bs "setplugs"%string :: a0 :: a1 :: rest -> hlc a0 = Some (p :: ps) -> hlc a1 = Some [idx] ->
  bad_index st idx = true ->
  exists st' l, run_line hlc st line sched = Ok (st', false) /\ at_prompt st' /\
                s_tab st' = s_tab (remove_initial_plugs st) /\ s_tstat st' = s_tstat st /\ out_text st' = [l] /\
                (l = bs "setplugs: invalid hostindex "%string ++ idx ++ bs " specified"%string ++ [LF] \/
                 exists d, l = bs "setplugs: hostindex "%string ++ d ++ bs " out of range"%string ++ [LF]).
Proof.
  intros AP AV H0 H1 BI. unfold run_line. rewrite AV.
  change (process_cmd hlc (set_log (set_out st []) []) (bs "setplugs"%string :: a0 :: a1 :: rest))
    with (setplugs hlc (set_log (set_out st []) []) (a0 :: a1 :: rest), false).
  unfold setplugs. rewrite H0, H1.
  set (st0 := set_log (set_out st []) []).
  set (st1 := remove_initial_plugs st0).
  assert (HB : bad_index st1 idx = true).
  { unfold bad_index in *. replace (s_hosts st1) with (s_hosts st); [exact BI|]. subst st1 st0. unfold remove_initial_plugs. st_simpl. destruct (s_initial st); reflexivity. }
  assert (E : exists l, (if Nat.eqb (length (p :: ps)) (length [idx]) then setup_plugs_pair st1 (p :: ps) [idx] (match rest with p0 :: _ => Some p0 | [] => None end)
                         else if Nat.ltb 1 (length (p :: ps)) && Nat.eqb (length [idx]) 1 then setup_plugs_same st1 (p :: ps) idx (match rest with p0 :: _ => Some p0 | [] => None end)
                         else emitf st1 TDiag f_setplugs_count []) = emit st1 TDiag l /\
                        (l = bs "setplugs: invalid hostindex "%string ++ idx ++ bs " specified"%string ++ [LF] \/
                         exists d, l = bs "setplugs: hostindex "%string ++ d ++ bs " out of range"%string ++ [LF])).
  { destruct ps as [|p2 ps]; cbn [length Nat.eqb Nat.ltb Nat.leb andb].
    - cbn [setup_plugs_pair]. destruct (setup_plug_bad st1 p idx (match rest with p0 :: _ => Some p0 | [] => None end) HB) as [l [E HL]].
      rewrite E. eauto.
    - cbn [setup_plugs_same]. destruct (setup_plug_bad st1 p idx (match rest with p0 :: _ => Some p0 | [] => None end) HB) as [l [E HL]].
      rewrite E. eauto. }
  destruct E as [l [E HL]]. rewrite E.
  assert (AP1 : at_prompt (emit st1 TDiag l)).
  { eapply at_prompt_same; [exact AP|]. eapply lists_same_trans; [|apply lists_same_emit]. subst st1. apply (lists_same_trans _ st0); [repeat split | apply remove_initial_lists]. }
  rewrite drain_idle; [|apply AP1 | now apply at_prompt_idle].
  exists (emit st1 TDiag l), l. split; [reflexivity|]. split; [exact AP1|].
  split; [subst st1 st0; unfold remove_initial_plugs; st_simpl; destruct (s_initial st); reflexivity|].
  split; [subst st1 st0; unfold remove_initial_plugs; st_simpl; destruct (s_initial st); reflexivity|].
  split; [|exact HL].
  unfold out_text. subst st1 st0. unfold remove_initial_plugs. st_simpl. destruct (s_initial st); reflexivity.
Qed.

(* malformed range / count mismatch in setplugs *)
Theorem setplugs_malformed_reported st line sched a0 a1 rest :
  at_prompt st -> argv line = bs "setplugs"%string :: a0 :: a1 :: rest -> (hlc a0 = None \/ hlc a1 = None) ->
  exists st' l, run_line hlc st line sched = Ok (st', false) /\ at_prompt st' /\ same_cfg st' st /\ s_tstat st' = s_tstat st /\ out_text st' = [l] /\
                (l = bs "setplugs: illegal plugnames input"%string ++ [LF] \/ l = bs "setplugs: illegal hostindices input"%string ++ [LF]).
Proof.
  intros AP AV HN. unfold run_line. rewrite AV.
  change (process_cmd hlc (set_log (set_out st []) []) (bs "setplugs"%string :: a0 :: a1 :: rest))
    with (setplugs hlc (set_log (set_out st []) []) (a0 :: a1 :: rest), false).
  unfold setplugs.
  destruct (hlc a0) as [ps|].
  - destruct HN as [HN|HN]; [discriminate|]. rewrite HN.
    set (st1 := emitf _ _ _ _). assert (AP1 : at_prompt st1) by exact AP.
    rewrite drain_idle; [|apply AP1 | now apply at_prompt_idle].
    exists st1. eexists. split; [reflexivity|]. split; [exact AP1|]. repeat split. right. reflexivity.
  - set (st1 := emitf _ _ _ _). assert (AP1 : at_prompt st1) by exact AP.
    rewrite drain_idle; [|apply AP1 | now apply at_prompt_idle].
    exists st1. eexists. split; [reflexivity|]. split; [exact AP1|]. repeat split. left. reflexivity.
Qed.

End WithHostlist.
