(* The four host-list services the client layer (Model/Client.v; C02 C03 C06 C11 C15) uses as ORACLES, defined from the
   verified model of hostlist.c (Model/HL.v; C14), and the contract the client theorems assume of them
   (Proofs/ClientStream.oracle_ok: "no service invents a CR or LF"), PROVED of these definitions.

   Byte provenance (Section Prov): for ANY predicate P on bytes that holds of the decimal digits,
     - every byte of a name produced by hostlist_create + hostlist_next satisfies P if every byte of the argument does;
     - every byte of a ranged string satisfies P if every byte of every pushed name does and P holds of `[ ] , -`;
     - hostlist_sort only permutes names and re-splits ranges: the names after are a permutation of the names before.
   With P b := "b occurs in the input, or is a digit (or one of [ ] , -)" this is "the library never invents a byte";
   with P b := "b is neither CR nor LF" it is the contract of C15.

   What a non-Ok outcome of the model is mapped to, and when that can happen (nothing is hidden):
     hl_expand_str a     create is ALWAYS Ok (create_ok: the MemErr / Hang sites are unreachable with the constants of the
                         current source, Gen/GenHL.v), iterate is ALWAYS Ok (iterate_ok): None <-> hostlist_create answers NULL
     hl_ranged_plain l   no outcome involved (push_host and ranged_string are total functions of the model)
     hl_ranged_sorted l  non-Ok sort -> [] ;   hl_sorted l   non-Ok sort -> l (the input, unsorted).
                         sort is Ok whenever l has at most SORT_MAX_NAMES = 10240 names (hl_sort_returns: a pushed name
                         carries a number of at most MAX_HOST_SUFFIX = 2^25 < 2^31, so C14_sort_returns applies); beyond
                         that nothing is known (C14's open item: the model calls more than 2^40 coalesce trips a Hang). *)
From Coq Require Import List Arith NArith ZArith Lia Bool Permutation.
From PM Require Import Base.Bytes Base.Outcome Gen.GenHL Model.HL Spec.HLSpec Proofs.HLArith Proofs.HLProofs Proofs.HLIndex
  Proofs.HLSort Proofs.HLSortTerm Proofs.HLIter.
From PM Require Proofs.HLRound.
From PM Require Spec.Proto Proofs.ClientProto Proofs.ClientStream Proofs.ReplyRanges.
From Coq Require Import ZifyBool ZifyNat ZifyN.
Import ListNotations.
Local Open Scope N_scope.
Ltac Zify.zify_post_hook ::= Z.div_mod_to_equations.

(* ================================================================ the oracles, from the model *)
(* hostlist_create(arg), then hostlist_next until NULL.  None = hostlist_create answered NULL *)
Definition hl_expand_str (a : text) : option (list text) :=
  match create a with
  | Ok (Some h) => match iterate h with Ok l => Some l | _ => None end
  | _ => None
  end.

(* hostlist_push_host of every name, hostlist_sort, _xhostlist_ranged_string *)
Definition hl_ranged_sorted (l : list text) : text :=
  match ReplyRanges.hl_ranged_sorted l with Ok t => t | _ => [] end.

(* client.c builds the node sets of its 302 / 303 / 306 / 209 lines with hostlist_push(hl, name) - the EXPRESSION parser - rather
   than hostlist_push_host: the same list for every name free of list syntax (push_expr_legal), not for a name such as
   `t1a[2]` (push_expr_differs).  hostlist_push answers 0 and leaves the list alone when hostlist_create refuses the text. *)
Definition push_expr (h : hostlist) (n : text) : hostlist := match push h n with Ok (Some h') => h' | _ => h end.
Definition hl_ranged_sorted_expr (l : list text) : text :=
  match sort (fold_left push_expr l []) with Ok h => ranged_string h | _ => [] end.

(* hostlist_push_host of every name, _xhostlist_ranged_string *)
Definition hl_ranged_plain (l : list text) : text := ranged_string (fold_left push_host l []).

(* hostlist_push_host of every name, hostlist_sort, hostlist_next until NULL *)
Definition hl_sorted (l : list text) : list text :=
  match sort (fold_left push_host l []) with
  | Ok h => match iterate h with Ok l' => l' | _ => l end
  | _ => l
  end.

(* ================================================================ small list facts *)
Lemma Forall_firstn_keep {A} (Q : A -> Prop) n : forall l, Forall Q l -> Forall Q (firstn n l).
Proof. induction n as [|n IH]; intros l H; [constructor|]. destruct l; [constructor|]. inversion H; subst. constructor; auto. Qed.

Lemma Forall_skipn_keep {A} (Q : A -> Prop) n : forall l, Forall Q l -> Forall Q (skipn n l).
Proof. induction n as [|n IH]; intros l H; [exact H|]. destruct l; [constructor|]. inversion H; subst. cbn [skipn]. auto. Qed.

(* ================================================================ byte provenance *)
Section Prov.
  Variable P : byte -> Prop.
  Hypothesis P_digit : forall d, 48 <= d <= 57 -> P d.
  Notation good := (Forall P).

  (* every prefix stored in the range array is made of P bytes *)
  Definition pfx_ok (h : hostlist) : Prop := Forall (fun r => good (hr_prefix r)) h.

  (* ---------------------------------------------------------------- printf("%0*lu") *)
  Lemma dec_fuel_good f : forall n, good (dec_fuel f n).
  Proof.
    induction f as [|f IH]; intros n; cbn [dec_fuel].
    - constructor; [|constructor]. apply P_digit. pose proof (N.mod_upper_bound n 10 ltac:(lia)). lia.
    - destruct (N.ltb_spec n 10) as [H|H].
      + constructor; [|constructor]. apply P_digit. lia.
      + apply Forall_app. split; [apply IH|]. constructor; [|constructor]. apply P_digit.
        pose proof (N.mod_upper_bound n 10 ltac:(lia)). lia.
  Qed.

  Lemma pad_good w n : good (pad w n).
  Proof.
    unfold pad. apply Forall_app. split; [|apply dec_fuel_good].
    apply Forall_forall. intros x Hx. apply repeat_spec in Hx. subst x. apply P_digit. lia.
  Qed.

  (* ---------------------------------------------------------------- names <-> prefixes *)
  Lemma names_good_of_pfx r : good (hr_prefix r) -> Forall good (names r).
  Proof.
    intros H. unfold names. destruct (hr_single r); [constructor; [exact H|constructor]|].
    apply Forall_forall. intros x Hx. apply in_map_iff in Hx as (k & <- & _). apply Forall_app. split; [exact H|apply pad_good].
  Qed.

  Lemma pfx_of_names_good r : wf_range r -> Forall good (names r) -> good (hr_prefix r).
  Proof.
    intros Hwf H. unfold names, wf_range in *. destruct (hr_single r); [exact (Forall_inv H)|].
    destruct (N.to_nat (hr_hi r + 1 - hr_lo r)) as [|k] eqn:E; [lia|]. cbn [nseq map] in H.
    apply Forall_inv in H. apply Forall_app in H as [H _]. exact H.
  Qed.

  Lemma expand_good_of_pfx h : pfx_ok h -> Forall good (expand h).
  Proof.
    induction 1 as [|r h Hr _ IH]; [constructor|]. rewrite expand_cons. apply Forall_app. split; [apply names_good_of_pfx; exact Hr|exact IH].
  Qed.

  Lemma pfx_of_expand_good h : wf h -> Forall good (expand h) -> pfx_ok h.
  Proof.
    induction 1 as [|r h Hr _ IH]; intros H; [constructor|]. rewrite expand_cons in H. apply Forall_app in H as [A B].
    constructor; [apply pfx_of_names_good; assumption|apply IH; exact B].
  Qed.

  (* ---------------------------------------------------------------- hostlist_push_range *)
  Lemma try_join_pfx t r t' r' : try_join t r = Some (t', r') -> hr_prefix t' = hr_prefix t /\ hr_prefix r' = hr_prefix r.
  Proof.
    unfold try_join, width_combine. destruct (_ && _); [|discriminate].
    destruct (width_equiv _ _ _ _) as [[a b]|]; [|discriminate]. intros H. inversion H; subst. split; reflexivity.
  Qed.

  Lemma push_range_pfx h : forall r h' r' a, push_range h r = (h', r', a) -> pfx_ok h -> good (hr_prefix r) -> pfx_ok h'.
  Proof.
    induction h as [|x h IH]; intros r h' r' a H Hh Hr.
    - cbn [push_range] in H. inversion H; subst. constructor; [exact Hr|constructor].
    - destruct h as [|y h].
      + cbn [push_range] in H. pose proof (Forall_inv Hh) as Hx.
        destruct (try_join x r) as [[t1 r1]|] eqn:Ej; inversion H; subst; clear H.
        * destruct (try_join_pfx _ _ _ _ Ej) as [E _]. constructor; [|constructor]. cbv beta. rewrite E. exact Hx.
        * constructor; [exact Hx|]. constructor; [exact Hr|constructor].
      + change (push_range (x :: y :: h) r) with (let '(h'', r1, a1) := push_range (y :: h) r in (x :: h'', r1, a1)) in H.
        destruct (push_range (y :: h) r) as [[h'' r1] a1] eqn:E. inversion H; subst; clear H.
        inversion Hh as [|? ? Hx Hrest]; subst. constructor; [exact Hx|]. exact (IH _ _ _ _ E Hrest Hr).
  Qed.

  Lemma push_range_fst_pfx h r : pfx_ok h -> good (hr_prefix r) -> pfx_ok (fst (fst (push_range h r))).
  Proof. intros Hh Hr. destruct (push_range h r) as [[h' r'] a] eqn:E. cbn [fst]. exact (push_range_pfx _ _ _ _ _ E Hh Hr). Qed.

  (* ---------------------------------------------------------------- hostlist_push_host *)
  Lemma range_of_name_pfx n : good n -> good (hr_prefix (range_of_name n)).
  Proof.
    intros H. unfold range_of_name, hostname_create, hostname_create_at. generalize (prefix_len n) as k. intros k.
    destruct (Nat.eqb k (length n)); cbn [hn_suffix hr_prefix mk_single]; [exact H|].
    destruct (strtoul (skipn k n)) as [v used]. destruct (_ && _); cbn [hn_suffix hn_prefix hn_num hr_prefix mk_single mk_range]; [|exact H].
    apply Forall_firstn_keep. exact H.
  Qed.

  Lemma push_host_pfx h n : pfx_ok h -> good n -> pfx_ok (push_host h n).
  Proof. intros Hh Hn. unfold push_host. apply push_range_fst_pfx; [exact Hh|apply range_of_name_pfx; exact Hn]. Qed.

  Lemma fold_push_host_pfx l : forall h, pfx_ok h -> Forall good l -> pfx_ok (fold_left push_host l h).
  Proof.
    induction l as [|n l IH]; intros h Hh Hl; cbn [fold_left]; [exact Hh|]. inversion Hl; subst.
    apply IH; [apply push_host_pfx; assumption|assumption].
  Qed.

  (* ---------------------------------------------------------------- hostlist_push_list *)
  Lemma push_list_mut_pfx h2 : forall h1, pfx_ok h1 -> pfx_ok h2 -> pfx_ok (fst (push_list_mut h1 h2)).
  Proof.
    induction h2 as [|r rest IH]; intros h1 H1 H2; cbn [push_list_mut]; [exact H1|].
    destruct (push_range h1 r) as [[h1' r'] ap] eqn:E. inversion H2 as [|? ? Hr Hrest]; subst.
    specialize (IH h1' (push_range_pfx _ _ _ _ _ E H1 Hr) Hrest).
    destruct (push_list_mut h1' rest) as [h1'' rest']. exact IH.
  Qed.

  (* ---------------------------------------------------------------- hostlist_sort: only permutes and re-splits ranges *)
  Lemma ins_rev_pfx revp : forall x, pfx_ok revp -> good (hr_prefix x) -> pfx_ok (ins_rev x revp).
  Proof.
    induction revp as [|y rest IH]; intros x Hr Hx; cbn [ins_rev]; [constructor; [exact Hx|constructor]|].
    inversion Hr as [|? ? Hy Hrest]; subst.
    destruct (hostrange_cmp y x) as [[c y'] x'] eqn:E. destruct (hostrange_cmp_shape _ _ _ _ _ E) as [Sy Sx].
    assert (By : good (hr_prefix y')) by (rewrite Sy; exact Hy). assert (Bx : good (hr_prefix x')) by (rewrite Sx; exact Hx).
    destruct (0 <? c)%Z; [constructor; [exact By|apply IH; assumption]|].
    constructor; [exact Bx|]. constructor; [exact By|exact Hrest].
  Qed.

  Lemma isort_pfx h : pfx_ok h -> pfx_ok (isort h).
  Proof.
    intros H. unfold isort. apply Forall_rev.
    assert (G : forall l acc, pfx_ok acc -> pfx_ok l -> pfx_ok (fold_left (fun acc x => ins_rev x acc) l acc)).
    { induction l as [|x l IH]; intros acc Ha Hl; cbn [fold_left]; [exact Ha|].
      inversion Hl; subst. apply IH; [apply ins_rev_pfx; assumption|assumption]. }
    apply G; [constructor|exact H].
  Qed.

  Lemma collapse_pfx h : pfx_ok h -> pfx_ok (collapse h).
  Proof.
    induction 1 as [|x rest Hx Hrest IH]; cbn [collapse]; [constructor|].
    destruct (collapse rest) as [|y rest']; [constructor; [exact Hx|constructor]|].
    destruct (try_join x y) as [[x' y']|] eqn:Ej.
    - destruct (try_join_pfx _ _ _ _ Ej) as [E _]. constructor; [cbv beta; rewrite E; exact Hx|exact (Forall_inv_tail IH)].
    - constructor; [exact Hx|exact IH].
  Qed.

  Lemma intersect_pfx h1 h2 nw h1' h2' : intersect h1 h2 = Ok (nw, h1', h2') ->
    hr_prefix h1' = hr_prefix h1 /\ hr_prefix h2' = hr_prefix h2 /\ match nw with Some n => hr_prefix n = hr_prefix h1 | None => True end.
  Proof.
    unfold intersect. intros H.
    destruct (hr_single h1 || hr_single h2); [inversion H; subst; auto|].
    rewrite intersect_cmp_evaluated in H.
    destruct (hostrange_cmp h1 h2) as [[c h1a] h2a] eqn:Ec. destruct (hostrange_cmp_shape _ _ _ _ _ Ec) as [S1 S2].
    assert (F1 : hr_prefix h1a = hr_prefix h1) by (rewrite S1; reflexivity).
    assert (F2 : hr_prefix h2a = hr_prefix h2) by (rewrite S2; reflexivity).
    destruct (0 <? c)%Z; [destruct (GenHL.INTERSECT_ORDER_CHECK =? 1); [|discriminate]; inversion H; subst; auto|].
    destruct (_ && _); [|inversion H; subst; auto].
    destruct (width_combine h1a h2a) as [[h1b h2b]|] eqn:Ew; [|inversion H; subst; auto].
    destruct (width_combine_shape _ _ _ _ Ew) as (T1 & T2 & _).
    assert (G1 : hr_prefix h1b = hr_prefix h1) by (rewrite T1; exact F1).
    assert (G2 : hr_prefix h2b = hr_prefix h2) by (rewrite T2; exact F2).
    inversion H; subst. cbn [with_hi with_lo hr_prefix]. auto.
  Qed.

  Lemma coalesce_step_pfx h i r : coalesce_step (h, i) = Ok r -> pfx_ok h ->
    pfx_ok (match r with inl st => fst st | inr h' => h' end).
  Proof.
    unfold coalesce_step. intros H Hh. destruct i as [|i1]; [inversion H; subst; exact Hh|].
    destruct (nth_error h i1) as [hprev|] eqn:E1; [|inversion H; subst; exact Hh].
    destruct (nth_error h (S i1)) as [hnext|] eqn:E2; [|inversion H; subst; exact Hh].
    apply bind_ok in H as ([[nw hp] hx] & Hi & H).
    destruct (intersect_pfx _ _ _ _ _ Hi) as (Fp & Fx & Fn).
    pose proof Hh as Hh0. unfold pfx_ok in Hh0. rewrite Forall_forall in Hh0.
    assert (Gp : good (hr_prefix hp)) by (rewrite Fp; exact (Hh0 _ (nth_error_In _ _ E1))).
    assert (Gx : good (hr_prefix hx)) by (rewrite Fx; exact (Hh0 _ (nth_error_In _ _ E2))).
    pose proof (Forall_firstn_keep _ i1 h Hh) as Gpre. pose proof (Forall_skipn_keep _ (S (S i1)) h Hh) as Gpost.
    destruct nw as [nw|].
    2:{ inversion H; subst. cbn [fst]. apply Forall_app. split; [exact Gpre|]. constructor; [exact Gp|]. constructor; [exact Gx|exact Gpost]. }
    assert (Gn : good (hr_prefix nw)) by (rewrite Fn; exact (Hh0 _ (nth_error_In _ _ E1))).
    destruct (hr_empty _); [discriminate|]. destruct (_ || _); [discriminate|].
    inversion H; subst; clear H. cbn [fst].
    apply Forall_app. split; [exact Gpre|]. constructor; [exact Gp|]. apply Forall_app. split.
    - apply Forall_forall. intros q Hq. apply in_flat_map in Hq as (k & _ & Hq).
      assert (Eq : q = with_hi (with_lo nw k) k).
      { apply in_app_or in Hq as [Hq|Hq]; [destruct (_ <? k)|destruct (k <? _)]; cbn [In] in Hq; intuition congruence. }
      rewrite Eq. exact Gn.
    - constructor; [|exact Gpost]. destruct (_ <? _); exact Gx.
  Qed.

  Lemma coalesce_pow_pfx k : forall st r, coalesce_pow k st = Ok r -> pfx_ok (fst st) ->
    pfx_ok (match r with inl st' => fst st' | inr h' => h' end).
  Proof.
    induction k as [|k IH]; intros [h i] r H Hh; cbn [coalesce_pow fst] in *; [exact (coalesce_step_pfx h i r H Hh)|].
    apply bind_ok in H as (r1 & H1 & H2). pose proof (IH _ _ H1 Hh) as I1.
    destruct r1 as [st'|h1]; [exact (IH _ _ H2 I1)|]. inversion H2; subst. exact I1.
  Qed.

  (* hostlist_sort: every prefix after was a prefix before (no hypothesis on the list) *)
  Theorem sort_pfx h h' : sort h = Ok h' -> pfx_ok h -> pfx_ok h'.
  Proof.
    unfold sort. destruct (length h <=? 1)%nat; [intros H; inversion H; subst; auto|]. unfold coalesce. intros H Hh.
    apply bind_ok in H as (r & H1 & H2). pose proof (coalesce_pow_pfx _ _ _ H1 (isort_pfx h Hh)) as I.
    destruct r as [st|h1]; [discriminate|]. inversion H2; subst. apply collapse_pfx. exact I.
  Qed.

  (* ---------------------------------------------------------------- the tokens of hostlist_create *)
  Lemma split_first_good c s : forall a r, split_first c s = Some (a, r) -> good s -> good a /\ good r.
  Proof.
    induction s as [|b s IH]; intros a r H G; cbn [split_first] in H; [discriminate|]. inversion G as [|? ? Gb Gs]; subst.
    destruct (b =? c).
    - inversion H; subst. split; [constructor|exact Gs].
    - destruct (split_first c s) as [[a1 r1]|]; [|discriminate]. inversion H; subst.
      destruct (IH _ _ eq_refl Gs) as [A B]. split; [constructor; assumption|exact B].
  Qed.

  Lemma drop_seps_good s : good s -> good (drop_seps s).
  Proof. induction 1 as [|b s Hb Hs IH]; cbn [drop_seps]; [constructor|]. destruct (is_sep b); [exact IH|constructor; assumption]. Qed.

  Lemma scan_tok_good s : forall lvl t r, scan_tok lvl s = (t, r) -> good s -> good t /\ good r.
  Proof.
    induction s as [|b s IH]; intros lvl t r H G; cbn [scan_tok] in H; [inversion H; subst; split; constructor|].
    destruct (_ && _); [inversion H; subst; split; [constructor|exact G]|].
    inversion G as [|? ? Gb Gs]; subst.
    destruct (scan_tok _ s) as [t1 r1] eqn:E. inversion H; subst. destruct (IH _ _ _ E Gs) as [A B].
    split; [constructor; assumption|exact B].
  Qed.

  Lemma next_tok_good s tok rest : next_tok s = Some (tok, rest) -> good s -> good tok /\ good rest.
  Proof.
    unfold next_tok. intros H G. pose proof (drop_seps_good s G) as G1. destruct (drop_seps s) as [|b s1]; [discriminate|].
    destruct (scan_tok 0%Z (b :: s1)) as [t r] eqn:E. inversion H; subst. destruct (scan_tok_good _ _ _ _ E G1) as [A B].
    split; [exact A|apply drop_seps_good; exact B].
  Qed.

  (* ---------------------------------------------------------------- one token *)
  Lemma push_range_list_pfx pfx rs : forall h, pfx_ok h -> good pfx -> pfx_ok (push_range_list h pfx rs).
  Proof.
    unfold push_range_list. induction rs as [|r rs IH]; intros h Hh Hp; cbn [fold_left]; [exact Hh|].
    apply IH; [|exact Hp]. unfold push_hr. apply push_range_fst_pfx; [exact Hh|exact Hp].
  Qed.

  Lemma suffix_host_good pfx sfx w j : good pfx -> good sfx -> good (suffix_host pfx sfx w j).
  Proof.
    intros A B. unfold suffix_host. apply Forall_firstn_keep. apply Forall_app. split; [exact A|].
    apply Forall_app. split; [apply pad_good|exact B].
  Qed.

  Lemma push_singles_pfx (f : N -> text) ks : forall h, pfx_ok h -> (forall j, good (f j)) ->
    pfx_ok (fold_left (fun h j => fst (fst (push_range h (mk_single (f j))))) ks h).
  Proof.
    induction ks as [|k ks IH]; intros h Hh Hf; cbn [fold_left]; [exact Hh|].
    apply IH; [|exact Hf]. apply push_range_fst_pfx; [exact Hh|exact (Hf k)].
  Qed.

  Lemma push_range_list_with_suffix_pfx pfx sfx rs : forall h h', push_range_list_with_suffix h pfx sfx rs = Ok h' ->
    pfx_ok h -> good pfx -> good sfx -> pfx_ok h'.
  Proof.
    induction rs as [|r rs IH]; intros h h' H Hh Hp Hs; cbn [push_range_list_with_suffix] in H; [inversion H; subst; exact Hh|].
    destruct (GenHL.HOST_BUF_SIZE <? GenHL.HOST_BUF_LIMIT); [discriminate|]. destruct (_ && _); [discriminate|].
    refine (IH _ _ H _ Hp Hs).
    apply (push_singles_pfx (fun j => suffix_host pfx sfx (pr_width r) j)); [exact Hh|]. intros j. apply suffix_host_good; assumption.
  Qed.

  Lemma create_token_pfx h tok h' : create_token h tok = Ok (Some h') -> pfx_ok h -> good tok -> pfx_ok h'.
  Proof.
    unfold create_token. intros H Hh Ht.
    destruct (split_first 91 tok) as [[pfx p]|] eqn:E1.
    - destruct (split_first_good _ _ _ _ E1 Ht) as [Gp Gq].
      destruct (split_first 93 p) as [[lst q]|] eqn:E2; [|discriminate].
      destruct (split_first_good _ _ _ _ E2 Gq) as [_ Gs].
      apply bind_ok in H as (o & _ & H). destruct o as [rs|]; [|discriminate].
      destruct q as [|c q].
      + inversion H; subst. apply push_range_list_pfx; assumption.
      + apply bind_ok in H as (h1 & H1 & H2). inversion H2; subst.
        exact (push_range_list_with_suffix_pfx _ _ _ _ _ H1 Hh Gp Gs).
    - destruct (split_first 93 tok); [discriminate|].
      destruct (_ <? GenHL.CUR_TOK_COPY).
      + inversion H; subst. apply push_host_pfx; assumption.
      + destruct (_ && _); [|discriminate].
        assert (E : h' = push_host h (firstn (N.to_nat GenHL.CUR_TOK_COPY) tok)) by congruence. rewrite E.
        apply push_host_pfx; [exact Hh|]. apply Forall_firstn_keep. exact Ht.
  Qed.

  Lemma create_loop_pfx fuel : forall h s h', create_loop fuel h s = Ok (Some h') -> pfx_ok h -> good s -> pfx_ok h'.
  Proof.
    induction fuel as [|f IH]; intros h s h' H Hh Hs; cbn [create_loop] in H; [discriminate|].
    destruct (next_tok s) as [[tok rest]|] eqn:E; [|inversion H; subst; exact Hh].
    destruct (next_tok_good _ _ _ E Hs) as [Gt Gr].
    apply bind_ok in H as (o & H1 & H2). destruct o as [h1|]; [|discriminate].
    exact (IH _ _ _ H2 (create_token_pfx _ _ _ H1 Hh Gt) Gr).
  Qed.

  (* hostlist_create: every stored prefix is made of bytes of the argument and digits *)
  Theorem create_pfx s h : create s = Ok (Some h) -> good s -> pfx_ok h.
  Proof. unfold create. intros H Hs. exact (create_loop_pfx _ _ _ _ H ltac:(constructor) Hs). Qed.

  (* ---------------------------------------------------------------- hostlist_next *)
  Lemma iter_next_good h it it' s : pfx_ok h -> iter_next h it = Ok (it', Some s) -> good s.
  Proof.
    intros Hh H. rewrite iter_next_unfold in H. apply bind_ok in H as (a & _ & H). unfold stage2 in H.
    destruct (_ <? _)%Z; [discriminate|]. destruct (GenHL.NEXT_SUFFIX_SIZE <? GenHL.NEXT_SUFFIX_LIMIT); [discriminate|].
    destruct (nth_error h (Z.to_nat (it_idx a))) as [r|] eqn:En; [|discriminate].
    assert (Es : s = hr_prefix r ++ (if hr_single r then [] else firstn (N.to_nat GenHL.NEXT_SUFFIX_LIMIT - 1)
                                       (pad (hr_width r) (add64 (hr_lo r) (wrap64 (it_depth a)))))) by (cbv zeta in H; congruence).
    rewrite Es. clear H Es.
    apply nth_error_In in En. unfold pfx_ok in Hh. rewrite Forall_forall in Hh. apply Forall_app. split; [exact (Hh r En)|].
    destruct (hr_single r); [constructor|]. apply Forall_firstn_keep. apply pad_good.
  Qed.

  Lemma iterate_from_good h fuel : forall it l, pfx_ok h -> iterate_from fuel h it = Ok l -> Forall good l.
  Proof.
    induction fuel as [|f IH]; intros it l Hh H; cbn [iterate_from] in H; [inversion H; constructor|].
    apply bind_ok in H as ([it' o] & H1 & H2). cbn [snd fst] in H2. destruct o as [s|]; [|inversion H2; constructor].
    apply bind_ok in H2 as (l' & H3 & H4). inversion H4; subst.
    constructor; [exact (iter_next_good _ _ _ _ Hh H1)|exact (IH _ _ Hh H3)].
  Qed.

  Theorem iterate_good h l : pfx_ok h -> iterate h = Ok l -> Forall good l.
  Proof. unfold iterate. intros Hh H. exact (iterate_from_good _ _ _ _ Hh H). Qed.

  (* ---------------------------------------------------------------- hostlist_ranged_string *)
  Hypothesis P_lbracket : P 91.
  Hypothesis P_rbracket : P 93.
  Hypothesis P_comma : P 44.
  Hypothesis P_dash : P 45.

  Lemma numstr_good r : good (numstr r).
  Proof.
    unfold numstr. destruct (hr_single r); [constructor|]. apply Forall_app. split; [apply pad_good|].
    destruct (_ <? _); [constructor; [exact P_dash|apply pad_good]|constructor].
  Qed.

  Lemma join_commas_good l : Forall good l -> good (join_commas l).
  Proof.
    induction 1 as [|x l Hx Hl IH]; [constructor|]. destruct l as [|y l]; [exact Hx|].
    change (join_commas (x :: y :: l)) with (x ++ 44 :: join_commas (y :: l)).
    apply Forall_app. split; [exact Hx|]. constructor; [exact P_comma|exact IH].
  Qed.

  Lemma bracketed_good r g next : good (hr_prefix r) -> good (bracketed r g next).
  Proof.
    intros Hr. unfold bracketed. destruct (bracket_needed r next).
    - apply Forall_app. split; [exact Hr|]. constructor; [exact P_lbracket|]. apply Forall_app. split; [|constructor; [exact P_rbracket|constructor]].
      apply join_commas_good. apply Forall_forall. intros x Hx. apply in_map_iff in Hx as (q & <- & _). apply numstr_good.
    - apply Forall_app. split; [exact Hr|apply numstr_good].
  Qed.

  Lemma take_group_rest rest : forall prev g o, take_group prev rest = (g, o) -> pfx_ok rest -> pfx_ok o.
  Proof.
    induction rest as [|r rest IH]; intros prev g o H Hr; cbn [take_group] in H; [inversion H; constructor|].
    destruct (within_range r prev); [|inversion H; subst; exact Hr].
    destruct (take_group r rest) as [g1 o1] eqn:E. inversion H; subst. exact (IH _ _ _ E (Forall_inv_tail Hr)).
  Qed.

  Lemma ranged_acc_good fuel : forall h acc, pfx_ok h -> good acc -> good (ranged_acc fuel h acc).
  Proof.
    induction fuel as [|f IH]; intros h acc Hh Ha; destruct h as [|r rest]; cbn [ranged_acc]; try exact Ha.
    destruct (take_group r rest) as [g o] eqn:E.
    assert (G1 : good (acc ++ bracketed r g (hd_error rest))).
    { apply Forall_app. split; [exact Ha|]. apply bracketed_good. exact (Forall_inv Hh). }
    pose proof (take_group_rest _ _ _ _ E (Forall_inv_tail Hh)) as Ho.
    destruct o as [|r2 o]; [exact G1|]. apply IH; [exact Ho|].
    destruct (0 <? length _)%nat; [|exact G1]. apply Forall_app. split; [exact G1|constructor; [exact P_comma|constructor]].
  Qed.

  (* hostlist_ranged_string: prefixes, digits, and the four punctuation bytes *)
  Theorem ranged_string_good h : pfx_ok h -> good (ranged_string h).
  Proof. intros Hh. unfold ranged_string. apply ranged_acc_good; [exact Hh|constructor]. Qed.
End Prov.

(* ================================================================ totality: when the model's outcome is Ok *)
Lemma parse_range_list_ok f : forall s cnt, cnt <= GenHL.RANGES_LEN_ARG -> exists o, parse_range_list f s cnt = Ok o.
Proof.
  induction f as [|f IH]; intros s cnt Hc; cbn [parse_range_list]; [eexists; reflexivity|].
  destruct (N.eqb_spec cnt GenHL.RANGES_LEN_ARG) as [E|E]; [eexists; reflexivity|].
  destruct (N.leb_spec GenHL.RANGES_ARRAY cnt) as [L|L].
  { exfalso. unfold GenHL.RANGES_ARRAY, GenHL.RANGES_LEN_ARG in *. lia. }
  destruct (match split_first 44 s with Some (a, b) => (a, Some b) | None => (s, None) end) as [cur rest].
  destruct (parse_single_range cur) as [r|]; [|eexists; reflexivity].
  destruct rest as [s'|]; [|eexists; reflexivity].
  destruct (IH s' (cnt + 1)) as [o Ho]; [lia|]. rewrite Ho. cbn [bind]. eexists; reflexivity.
Qed.

Lemma push_range_list_with_suffix_ok pfx sfx rs : forall h, exists h', push_range_list_with_suffix h pfx sfx rs = Ok h'.
Proof.
  induction rs as [|r rs IH]; intros h; cbn [push_range_list_with_suffix]; [eexists; reflexivity|].
  change (GenHL.HOST_BUF_SIZE <? GenHL.HOST_BUF_LIMIT) with false. rewrite suffix_loop_breaks. cbn [andb]. apply IH.
Qed.

Lemma create_token_ok h tok : exists o, create_token h tok = Ok o.
Proof.
  unfold create_token. destruct (split_first 91 tok) as [[pfx p]|].
  - destruct (split_first 93 p) as [[lst q]|]; [|eexists; reflexivity].
    destruct (parse_range_list_ok (S (length lst)) lst 0) as [o Ho]; [unfold GenHL.RANGES_LEN_ARG; lia|]. rewrite Ho. cbn [bind].
    destruct o as [rs|]; [|eexists; reflexivity]. destruct q as [|c q]; [eexists; reflexivity|].
    destruct (push_range_list_with_suffix_ok pfx (c :: q) rs h) as [h' Hh]. rewrite Hh. cbn [bind]. eexists; reflexivity.
  - destruct (split_first 93 tok); [eexists; reflexivity|].
    destruct (_ <? GenHL.CUR_TOK_COPY); [eexists; reflexivity|].
    change ((GenHL.CUR_TOK_TERMINATED =? 1) && (GenHL.CUR_TOK_COPY <? GenHL.CUR_TOK_SIZE)) with true. eexists; reflexivity.
Qed.

Lemma create_loop_ok fuel : forall h s, (length s < fuel)%nat -> exists o, create_loop fuel h s = Ok o.
Proof.
  induction fuel as [|f IH]; intros h s Hl; [lia|]. cbn [create_loop].
  destruct (next_tok s) as [[tok rest]|] eqn:E; [|eexists; reflexivity].
  destruct (create_token_ok h tok) as [o Ho]. rewrite Ho. cbn [bind]. destruct o as [h1|]; [|eexists; reflexivity].
  apply IH. pose proof (next_tok_shorter _ _ _ E). lia.
Qed.

(* hostlist_create returns for every argument (with the constants of the current source): a list or NULL *)
Theorem create_ok s : exists o, create s = Ok o.
Proof. unfold create. apply create_loop_ok. lia. Qed.

(* hostlist_next never reaches the i->hr == NULL site from a fresh iterator on a list that is not modified meanwhile *)
Lemma iter_next_ok h it : (0 <= it_idx it)%Z -> it_stale it = false ->
  exists it' o, iter_next h it = Ok (it', o) /\ (0 <= it_idx it')%Z /\ it_stale it' = false.
Proof.
  intros Hi Hs. rewrite iter_next_unfold.
  assert (S1 : exists a, stage1 h it = Ok a /\ (0 <= it_idx a)%Z /\ it_stale a = false).
  { unfold stage1. destruct (Z.ltb_spec (Z.of_nat (length h) - 1) (it_idx it)) as [L|L]; [exists it; auto|].
    rewrite Hs. destruct (nth_error h (Z.to_nat (it_idx it))) as [r|] eqn:En.
    - cbv zeta. destruct (_ <? _); eexists; (split; [reflexivity|]); cbn [it_idx it_stale]; split; (lia || reflexivity).
    - apply nth_error_None in En. lia. }
  destruct S1 as (a & E1 & Ha & Hsa). rewrite E1. cbn [bind]. unfold stage2.
  destruct (Z.ltb_spec (Z.of_nat (length h) - 1) (it_idx a)) as [L|L]; [exists a, None; auto|].
  rewrite NEXT_consts. destruct (nth_error h (Z.to_nat (it_idx a))) as [r|] eqn:En.
  - eexists a, _. split; [reflexivity|auto].
  - apply nth_error_None in En. lia.
Qed.

Lemma iterate_from_ok h fuel : forall it, (0 <= it_idx it)%Z -> it_stale it = false -> exists l, iterate_from fuel h it = Ok l.
Proof.
  induction fuel as [|f IH]; intros it Hi Hs; cbn [iterate_from]; [eexists; reflexivity|].
  destruct (iter_next_ok h it Hi Hs) as (it' & o & E & Hi' & Hs'). rewrite E. cbn [bind snd fst].
  destruct o as [s|]; [|eexists; reflexivity]. destruct (IH it' Hi' Hs') as [l El]. rewrite El. cbn [bind]. eexists; reflexivity.
Qed.

Theorem iterate_ok h : exists l, iterate h = Ok l.
Proof. unfold iterate. apply iterate_from_ok; [cbn; lia|reflexivity]. Qed.

(* a name pushed by hostlist_push_host carries a number of at most MAX_HOST_SUFFIX: hostlist_sort's int arithmetic is safe *)
Definition hi_small (h : hostlist) : Prop := Forall (fun r => hr_hi r <= GenHL.MAX_HOST_SUFFIX) h.

Lemma try_join_hi t r t' r' : try_join t r = Some (t', r') -> hr_hi t' = hr_hi r.
Proof.
  unfold try_join, width_combine. destruct (_ && _); [|discriminate].
  destruct (width_equiv _ _ _ _) as [[a b]|]; [|discriminate]. intros H. inversion H; subst. reflexivity.
Qed.

Lemma push_range_hi h : forall r h' r' a, push_range h r = (h', r', a) -> hi_small h -> hr_hi r <= GenHL.MAX_HOST_SUFFIX -> hi_small h'.
Proof.
  induction h as [|x h IH]; intros r h' r' a H Hh Hr.
  - cbn [push_range] in H. inversion H; subst. constructor; [exact Hr|constructor].
  - destruct h as [|y h].
    + cbn [push_range] in H. pose proof (Forall_inv Hh) as Hx.
      destruct (try_join x r) as [[t1 r1]|] eqn:Ej; inversion H; subst; clear H.
      * constructor; [|constructor]. rewrite (try_join_hi _ _ _ _ Ej). exact Hr.
      * constructor; [exact Hx|]. constructor; [exact Hr|constructor].
    + change (push_range (x :: y :: h) r) with (let '(h'', r1, a1) := push_range (y :: h) r in (x :: h'', r1, a1)) in H.
      destruct (push_range (y :: h) r) as [[h'' r1] a1] eqn:E. inversion H; subst; clear H.
      inversion Hh as [|? ? Hx Hrest]; subst. constructor; [exact Hx|]. exact (IH _ _ _ _ E Hrest Hr).
Qed.

Lemma range_of_name_hi n : hr_hi (range_of_name n) <= GenHL.MAX_HOST_SUFFIX.
Proof.
  unfold range_of_name, hostname_create, hostname_create_at. generalize (prefix_len n) as k. intros k.
  destruct (Nat.eqb k (length n)); cbn [hn_suffix hr_hi mk_single]; [unfold GenHL.MAX_HOST_SUFFIX; lia|].
  destruct (strtoul (skipn k n)) as [v used]. destruct (_ && _) eqn:E; cbn [hn_suffix hn_prefix hn_num hr_hi mk_single mk_range].
  - apply andb_true_iff in E as [_ E]. apply N.leb_le in E. exact E.
  - unfold GenHL.MAX_HOST_SUFFIX; lia.
Qed.

Lemma fold_push_host_hi l : forall h, hi_small h -> hi_small (fold_left push_host l h).
Proof.
  induction l as [|n l IH]; intros h Hh; cbn [fold_left]; [exact Hh|]. apply IH. unfold push_host.
  destruct (push_range h (range_of_name n)) as [[h' r'] a] eqn:E. cbn [fst]. exact (push_range_hi _ _ _ _ _ E Hh (range_of_name_hi n)).
Qed.

Lemma hi_small_nums31 h : hi_small h -> nums31 h.
Proof.
  unfold hi_small, nums31. apply Forall_impl. intros r H. unfold num31, B31. unfold GenHL.MAX_HOST_SUFFIX in H. lia.
Qed.

(* hostlist_sort of a list built by hostlist_push_host from at most SORT_MAX_NAMES names returns *)
Theorem hl_sort_returns l : N.of_nat (length l) <= SORT_MAX_NAMES ->
  exists h, sort (fold_left push_host l []) = Ok h /\ Permutation (expand h) l /\ wf h.
Proof.
  intros Hl. destruct (fold_push_host l [] ltac:(constructor)) as [He Hw]. cbn [expand flat_map app] in He.
  destruct (sort_returns (fold_left push_host l []) Hw) as (h & Es & Hp & Hwh).
  - apply hi_small_nums31. apply fold_push_host_hi. constructor.
  - unfold nnames. rewrite He. exact Hl.
  - exists h. split; [exact Es|]. split; [rewrite <- He; exact Hp|exact Hwh].
Qed.

(* ---------------------------------------------------------------- the definitions hide nothing *)
Theorem hl_expand_str_defined a :
  (create a = Ok None /\ hl_expand_str a = None)
  \/ (exists h l, create a = Ok (Some h) /\ iterate h = Ok l /\ hl_expand_str a = Some l).
Proof.
  unfold hl_expand_str. destruct (create_ok a) as [[h|] E]; rewrite E; [|left; split; reflexivity].
  right. destruct (iterate_ok h) as [l El]. exists h, l. rewrite El. repeat split; reflexivity.
Qed.

(* ... and the names are the reference expansion whenever the list is well-formed and no printed number is cut by
   hostlist_next's suffix[16] *)
Theorem hl_expand_str_expand a h : create a = Ok (Some h) -> wf h -> Forall iter_ok h -> hl_expand_str a = Some (expand h).
Proof. intros E Hw Hi. unfold hl_expand_str. rewrite E, (iterate_sound h Hw Hi). reflexivity. Qed.

Theorem hl_ranged_plain_denotes l :
  expand (fold_left push_host l []) = l /\ wf (fold_left push_host l []) /\ hl_ranged_plain l = ranged_string (fold_left push_host l []).
Proof. destruct (fold_push_host l [] ltac:(constructor)) as [He Hw]. cbn [expand flat_map app] in He. repeat split; assumption. Qed.

Theorem hl_ranged_sorted_defined l : N.of_nat (length l) <= SORT_MAX_NAMES ->
  exists h, sort (fold_left push_host l []) = Ok h /\ Permutation (expand h) l /\ wf h
            /\ ReplyRanges.hl_ranged_sorted l = Ok (ranged_string h) /\ hl_ranged_sorted l = ranged_string h.
Proof.
  intros Hl. destruct (hl_sort_returns l Hl) as (h & Es & Hp & Hw). exists h.
  unfold hl_ranged_sorted, ReplyRanges.hl_ranged_sorted. rewrite Es. repeat split; assumption.
Qed.

Theorem hl_sorted_defined l : N.of_nat (length l) <= SORT_MAX_NAMES ->
  exists h l', sort (fold_left push_host l []) = Ok h /\ Permutation (expand h) l /\ wf h /\ iterate h = Ok l' /\ hl_sorted l = l'
               /\ (Forall iter_ok h -> l' = expand h).
Proof.
  intros Hl. destruct (hl_sort_returns l Hl) as (h & Es & Hp & Hw). destruct (iterate_ok h) as [l' El]. exists h, l'.
  unfold hl_sorted. rewrite Es, El. repeat split; try assumption.
  intros Hi. rewrite (iterate_sound h Hw Hi) in El. inversion El. reflexivity.
Qed.

(* ================================================================ provenance of the four services *)
Section Services.
  Variable P : byte -> Prop.
  Hypothesis P_digit : forall d, 48 <= d <= 57 -> P d.
  Notation good := (Forall P).

  Theorem hl_expand_str_good a l : hl_expand_str a = Some l -> good a -> Forall good l.
  Proof.
    unfold hl_expand_str. destruct (create a) as [[h|]| | | |] eqn:E; try discriminate.
    destruct (iterate h) as [l'| | | |] eqn:Ei; try discriminate. intros H Ha. inversion H; subst.
    exact (iterate_good P P_digit h l (create_pfx P P_digit a h E Ha) Ei).
  Qed.

  Lemma pushed_pfx l : Forall good l -> pfx_ok P (fold_left push_host l []).
  Proof. intros Hl. apply fold_push_host_pfx; [constructor|exact Hl]. Qed.

  Lemma sorted_pfx l h : Forall good l -> sort (fold_left push_host l []) = Ok h -> pfx_ok P h.
  Proof. intros Hl Es. exact (sort_pfx P _ _ Es (pushed_pfx l Hl)). Qed.

  Theorem hl_sorted_good l : Forall good l -> Forall good (hl_sorted l).
  Proof.
    intros Hl. unfold hl_sorted. destruct (sort (fold_left push_host l [])) as [h| | | |] eqn:Es; try exact Hl.
    destruct (iterate h) as [l'| | | |] eqn:Ei; try exact Hl.
    exact (iterate_good P P_digit h l' (sorted_pfx l h Hl Es) Ei).
  Qed.

  Hypothesis P_lbracket : P 91.
  Hypothesis P_rbracket : P 93.
  Hypothesis P_comma : P 44.
  Hypothesis P_dash : P 45.

  Theorem hl_ranged_plain_good l : Forall good l -> good (hl_ranged_plain l).
  Proof. intros Hl. unfold hl_ranged_plain. apply ranged_string_good; auto. apply pushed_pfx. exact Hl. Qed.

  Theorem hl_ranged_sorted_good l : Forall good l -> good (hl_ranged_sorted l).
  Proof.
    intros Hl. unfold hl_ranged_sorted, ReplyRanges.hl_ranged_sorted.
    destruct (sort (fold_left push_host l [])) as [h| | | |] eqn:Es; try constructor.
    apply ranged_string_good; auto. exact (sorted_pfx l h Hl Es).
  Qed.

  Lemma push_expr_pfx h n : pfx_ok P h -> good n -> pfx_ok P (push_expr h n).
  Proof.
    intros Hh Hn. unfold push_expr, push. destruct (create n) as [[h2|]| | | |] eqn:E; cbn [bind]; try exact Hh.
    unfold push_list. apply push_list_mut_pfx; [exact Hh|exact (create_pfx P P_digit n h2 E Hn)].
  Qed.

  Theorem hl_ranged_sorted_expr_good l : Forall good l -> good (hl_ranged_sorted_expr l).
  Proof.
    intros Hl. unfold hl_ranged_sorted_expr.
    destruct (sort (fold_left push_expr l [])) as [h| | | |] eqn:Es; try constructor.
    apply ranged_string_good; auto. refine (sort_pfx P _ _ Es _).
    assert (G : forall l h, pfx_ok P h -> Forall good l -> pfx_ok P (fold_left push_expr l h)).
    { clear Hl Es. intros l0. induction l0 as [|n l0 IH]; intros h0 Hh Hl; cbn [fold_left]; [exact Hh|]. inversion Hl; subst.
      apply IH; [apply push_expr_pfx; assumption|assumption]. }
    apply G; [constructor|exact Hl].
  Qed.
End Services.

(* ---------------------------------------------------------------- hostlist_push = hostlist_push_host on plain names *)
(* hostlist_push never fails (it is hostlist_create + hostlist_push_list) *)
Theorem push_ok h n : exists o, push h n = Ok o.
Proof. unfold push. destruct (create_ok n) as [o E]. rewrite E. cbn [bind]. eexists; reflexivity. Qed.

Lemma create_legal n : HLRound.legal n = true -> create n = Ok (Some (push_host [] n)).
Proof.
  intros Hn. destruct (HLRound.legal_facts n Hn) as (Hc & Hne & Hlen).
  change n with (join_commas [n]) at 1. unfold create. rewrite HLRound.create_loop_toks.
  - cbn [HLRound.create_toks]. rewrite (HLRound.create_token_plain [] n Hc Hlen). reflexivity.
  - constructor; [apply HLRound.tok_ok_plain; assumption|constructor].
  - lia.
Qed.

Theorem push_expr_legal h n : HLRound.legal n = true -> push_expr h n = push_host h n.
Proof.
  intros Hn. unfold push_expr, push. rewrite (create_legal n Hn). cbn [bind].
  unfold push_host, push_list. cbn [push_range fst push_list_mut].
  destruct (push_range h (range_of_name n)) as [[h1 r1] a]. reflexivity.
Qed.

Theorem hl_ranged_sorted_expr_legal l : Forall (fun n => HLRound.legal n = true) l -> hl_ranged_sorted_expr l = hl_ranged_sorted l.
Proof.
  intros Hl. unfold hl_ranged_sorted_expr, hl_ranged_sorted, ReplyRanges.hl_ranged_sorted.
  assert (G : forall l h, Forall (fun n => HLRound.legal n = true) l -> fold_left push_expr l h = fold_left push_host l h).
  { clear. induction l as [|n l IH]; intros h Hl; cbn [fold_left]; [reflexivity|]. inversion Hl; subst.
    rewrite push_expr_legal by assumption. apply IH. assumption. }
  rewrite (G l [] Hl). destruct (sort _); reflexivity.
Qed.

(* ... and not on a name that carries list syntax: the node name `t1a[2]` (what hostlist_create makes of `t[1]a[2]`) is re-read by
   hostlist_push as the expression `t1a[2]` = prefix t1a + range 2, i.e. the name t1a2 (the C agrees: harness/hl_h.c, R-HLO) *)
Example push_expr_differs :
  hl_expand_str (bs "t[1]a[2]"%string) = Some [bs "t1a[2]"%string]
  /\ hl_ranged_sorted [bs "t1a[2]"%string] = bs "t1a[2]"%string
  /\ hl_ranged_sorted_expr [bs "t1a[2]"%string] = bs "t1a2"%string.
Proof. repeat split; vm_compute; reflexivity. Qed.

(* "the library never invents a byte": every byte of an expanded name occurs in the argument text or is a decimal digit;
   every byte of a ranged string / of a sorted name occurs in one of the names or is a digit (or one of [ ] , -) *)
Definition is_dec (b : byte) : Prop := 48 <= b <= 57.
Definition is_punct (b : byte) : Prop := b = 91 \/ b = 93 \/ b = 44 \/ b = 45.

Theorem services_provenance :
  (forall a l, hl_expand_str a = Some l -> Forall (Forall (fun b => In b a \/ is_dec b)) l)
  /\ (forall l, Forall (fun b => In b (concat l) \/ is_dec b \/ is_punct b) (hl_ranged_sorted l))
  /\ (forall l, Forall (fun b => In b (concat l) \/ is_dec b \/ is_punct b) (hl_ranged_plain l))
  /\ (forall l, Forall (Forall (fun b => In b (concat l) \/ is_dec b)) (hl_sorted l)).
Proof.
  assert (C : forall (l : list text) (Q : byte -> Prop), (forall b, In b (concat l) -> Q b) -> Forall (Forall Q) l).
  { intros l Q H. apply Forall_forall. intros n Hn. apply Forall_forall. intros b Hb. apply H. apply in_concat. exists n. split; assumption. }
  split; [|split; [|split]].
  - intros a l H. apply (hl_expand_str_good (fun b => In b a \/ is_dec b) (fun d Hd => or_intror Hd) a l H).
    apply Forall_forall. intros b Hb. left. exact Hb.
  - intros l. apply hl_ranged_sorted_good; unfold is_punct; try (right; right; lia).
    + intros d Hd. right. left. exact Hd.
    + apply C. intros b Hb. left. exact Hb.
  - intros l. apply hl_ranged_plain_good; unfold is_punct; try (right; right; lia).
    + intros d Hd. right. left. exact Hd.
    + apply C. intros b Hb. left. exact Hb.
  - intros l. apply hl_sorted_good; [intros d Hd; right; exact Hd|]. apply C. intros b Hb. left. exact Hb.
Qed.

(* ================================================================ the contract of the client theorems *)
Definition not_eol (b : byte) : Prop := Proto.eol_byte b = false.

Lemma clean_iff t : ClientStream.clean t <-> Forall not_eol t.
Proof.
  unfold ClientStream.clean, Proto.eol_free, not_eol. rewrite forallb_forall, Forall_forall.
  split; intros H x Hx; specialize (H x Hx); [apply negb_true_iff in H|apply negb_true_iff]; exact H.
Qed.

Lemma cleans_iff l : Forall ClientStream.clean l <-> Forall (Forall not_eol) l.
Proof. split; apply Forall_impl; intros t; apply clean_iff. Qed.

Lemma not_eol_ge b : 32 <= b -> not_eol b.
Proof.
  intros H. unfold not_eol, Proto.eol_byte. destruct (N.eqb_spec b 13); [lia|]. destruct (N.eqb_spec b 10); [lia|]. reflexivity.
Qed.

(* no service of the verified host-list library invents a CR or LF *)
Theorem hl_oracle_ok : ClientStream.oracle_ok hl_expand_str hl_ranged_sorted hl_ranged_plain hl_sorted.
Proof.
  assert (D : forall d, 48 <= d <= 57 -> not_eol d) by (intros d Hd; apply not_eol_ge; lia).
  constructor.
  - intros a l H Ha. apply cleans_iff. apply (hl_expand_str_good not_eol D a l H). apply clean_iff. exact Ha.
  - intros l Hl. apply clean_iff. apply (hl_ranged_sorted_good not_eol D); try (apply not_eol_ge; lia). apply cleans_iff. exact Hl.
  - intros l Hl. apply clean_iff. apply (hl_ranged_plain_good not_eol D); try (apply not_eol_ge; lia). apply cleans_iff. exact Hl.
  - intros l Hl. apply cleans_iff. apply (hl_sorted_good not_eol D). apply cleans_iff. exact Hl.
Qed.

(* the same with the node sets of reply lines built as client.c builds them (hostlist_push) *)
Theorem hl_oracle_ok_expr : ClientStream.oracle_ok hl_expand_str hl_ranged_sorted_expr hl_ranged_plain hl_sorted.
Proof.
  assert (D : forall d, 48 <= d <= 57 -> not_eol d) by (intros d Hd; apply not_eol_ge; lia).
  destruct hl_oracle_ok as [A _ B C]. constructor; [exact A| |exact B|exact C].
  intros l Hl. apply clean_iff. apply (hl_ranged_sorted_expr_good not_eol D); try (apply not_eol_ge; lia). apply cleans_iff. exact Hl.
Qed.

(* the contract spelled out (ClientStream.clean t is Proto.eol_free t = true: no byte 13 or 10 in t) *)
Theorem services_clean :
  (forall a l, hl_expand_str a = Some l -> Proto.eol_free a = true -> Forall (fun n => Proto.eol_free n = true) l)
  /\ (forall l, Forall (fun n => Proto.eol_free n = true) l -> Proto.eol_free (hl_ranged_sorted l) = true)
  /\ (forall l, Forall (fun n => Proto.eol_free n = true) l -> Proto.eol_free (hl_ranged_sorted_expr l) = true)
  /\ (forall l, Forall (fun n => Proto.eol_free n = true) l -> Proto.eol_free (hl_ranged_plain l) = true)
  /\ (forall l, Forall (fun n => Proto.eol_free n = true) l -> Forall (fun n => Proto.eol_free n = true) (hl_sorted l)).
Proof.
  destruct hl_oracle_ok as [A B C D]. destruct hl_oracle_ok_expr as [_ B' _ _]. repeat split; assumption.
Qed.

(* when the model's outcome is Ok, i.e. what the total functions above do not hide *)
Theorem services_defined :
  (forall a, (create a = Ok None /\ hl_expand_str a = None)
             \/ (exists h l, create a = Ok (Some h) /\ iterate h = Ok l /\ hl_expand_str a = Some l))
  /\ (forall a h, create a = Ok (Some h) -> wf h -> Forall iter_ok h -> hl_expand_str a = Some (expand h))
  /\ (forall l, expand (fold_left push_host l []) = l /\ wf (fold_left push_host l [])
                /\ hl_ranged_plain l = ranged_string (fold_left push_host l []))
  /\ (forall l, N.of_nat (length l) <= SORT_MAX_NAMES ->
        exists h, sort (fold_left push_host l []) = Ok h /\ Permutation (expand h) l /\ wf h
                  /\ ReplyRanges.hl_ranged_sorted l = Ok (ranged_string h) /\ hl_ranged_sorted l = ranged_string h)
  /\ (forall l, N.of_nat (length l) <= SORT_MAX_NAMES ->
        exists h l', sort (fold_left push_host l []) = Ok h /\ Permutation (expand h) l /\ wf h /\ iterate h = Ok l' /\ hl_sorted l = l'
                     /\ (Forall iter_ok h -> l' = expand h)).
Proof.
  split; [exact hl_expand_str_defined|]. split; [exact hl_expand_str_expand|]. split; [exact hl_ranged_plain_denotes|].
  split; [exact hl_ranged_sorted_defined|exact hl_sorted_defined].
Qed.
