(* The token-level effect of the device-layer callbacks on a client record, for ANY "quit" state q of the protocol
   recogniser (Proofs/ClientStream.v states them for q = cl_quit c).  Needed by the whole-daemon invariant: a client that
   half-closed its connection (EOF: client_quit set without a 101 line) still receives the informational lines and the
   final reply + prompt of the command in progress, and the recogniser - which has not seen a 101 - is in a q = false
   state while cl_quit c = true. *)
From Coq Require Import List NArith ZArith Bool Lia.
From PM Require Import Base.Bytes Base.Outcome Base.Dec Gen.GenConsts Gen.GenClient Model.ScriptAst Model.Enqueue Model.Script Model.Client Model.CliWorld Spec.Proto
                       Proofs.ClientProofs Proofs.ClientProto Proofs.ClientStream.
Import ListNotations.
Local Open Scope N_scope.

Definition qcompat (q : bool) (c : client) (st : pstate) : Prop := open q st /\ (busy c = false -> at_rest st = true).

Lemma compat_q c st : compat c st <-> qcompat (cl_quit c) c st.
Proof. reflexivity. Qed.

Section Q.
  Variable expand_str : text -> option (list text).
  Variable ranged_sorted : list text -> text.
  Variable ranged_plain : list text -> text.
  Variable sorted : list text -> list text.
  Notation finish := (act_finish ranged_sorted).

  Lemma act_finish_toks_q c store err msg : cmd_inv c -> busy c = true ->
    exists c' d, finish c store err msg = Ok c' /\ cl_out c' = cl_out c ++ render d
      /\ (forall q st, qcompat q c st -> exists st', run st d = Some st' /\ qcompat q c' st')
      /\ (terminals d + b2n (busy c') = b2n (busy c))%nat
      /\ cmd_inv c' /\ cl_quit c' = cl_quit c.
  Proof.
    intros I Hb. rewrite busy_cmd in Hb. unfold cmd_inv in I. rewrite busy_cmd.
    destruct (cl_cmd c) as [k|] eqn:Ek; [|discriminate]. destruct I as [Hp Hv].
    unfold act_finish. rewrite Ek. cbv zeta. cbn [k_pending k_args].
    set (c1 := if Z.eqb err ACT_ESUCCESS then c else emit (cprintf CP_INFO_ACTERROR [msg]) c).
    set (d0 := if Z.eqb err ACT_ESUCCESS then [] else [TLine 308 msg]).
    set (k1 := mkCommand (k_com k) (k_targets k) (k_pending k - 1) (k_error k || negb (Z.eqb err ACT_ESUCCESS)) (k_args k)).
    assert (F1 : cl_out c1 = cl_out c ++ render d0) by (unfold c1, d0; destruct (Z.eqb err ACT_ESUCCESS); [cbn; rewrite app_nil_r; reflexivity|cbn [emit cl_out]; rewrite fmt_acterror; reflexivity]).
    assert (F2 : cl_quit c1 = cl_quit c) by (unfold c1; destruct (Z.eqb err ACT_ESUCCESS); reflexivity).
    assert (F3 : Forall info_tok d0) by (unfold d0; destruct (Z.eqb err ACT_ESUCCESS); [constructor|constructor; [reflexivity|constructor]]).
    destruct (Z.eqb (k_pending k - 1) 0) eqn:E0.
    - destruct (final_reply_ok expand_str ranged_sorted ranged_plain sorted c1 k1 (nth (k_args k) store []) Hv) as [t [dr [Ef [R W]]]].
      rewrite Ef. eexists. exists (d0 ++ dr ++ [TPrompt]). split; [reflexivity|].
      assert (Et : t = render dr) by (destruct R as [? [? [? [_ [E _]]]]]; exact E).
      split; [|split; [|split; [|split]]].
      + cbn [emit set_cmd cl_out]. rewrite F1, Et, !render_app, <- !app_assoc. cbn [render flat_map render1]. rewrite app_nil_r. reflexivity.
      + intros q st [O _]. destruct (run_infos q st d0 O F3) as [st1 [R1 [O1 _]]].
        destruct (run_reply q st1 t dr R O1) as [R2 _].
        exists (PReady q). rewrite run_app, R1, run_app, R2. split; [destruct q; reflexivity|].
        split; [left; reflexivity|reflexivity].
      + destruct (run_infos false (PReady false) d0 (or_introl eq_refl) F3) as [_ [_ [_ [_ T0]]]].
        destruct (run_reply false (PReady false) t dr R (or_introl eq_refl)) as [_ T1].
        rewrite !terminals_app, T0, T1. reflexivity.
      + exact Logic.I.
      + cbn [emit set_cmd cl_quit]. exact F2.
    - apply Z.eqb_neq in E0. eexists. exists d0. split; [reflexivity|]. split; [|split; [|split; [|split]]].
      + cbn [set_cmd cl_out]. exact F1.
      + intros q st [O _]. destruct (run_infos q st d0 O F3) as [st1 [R1 [O1 _]]].
        exists st1. split; [exact R1|]. split; [exact O1|]. cbn [set_cmd busy cl_cmd]. discriminate.
      + destruct (run_infos false (PReady false) d0 (or_introl eq_refl) F3) as [_ [_ [_ [_ T0]]]]. rewrite T0. reflexivity.
      + unfold cmd_inv. cbn [set_cmd cl_cmd k1 k_pending k_com]. split; [lia|exact Hv].
      + cbn [set_cmd cl_quit]. exact F2.
  Qed.

  Lemma callback_toks_q c code m :
    info_code code = true -> busy c = true ->
    let c' := emit (render [TLine code m]) c in
    (forall q st, qcompat q c st -> exists st', run st [TLine code m] = Some st' /\ qcompat q c' st')
    /\ (terminals [TLine code m] + b2n (busy c') = b2n (busy c))%nat.
  Proof.
    intros Hc Hb. cbv zeta. split.
    - intros q st [O _]. exists (PIn q). cbn [run]. rewrite (step_info _ _ _ _ O Hc). split; [reflexivity|].
      split; [right; left; reflexivity|]. unfold busy in *. cbn [emit cl_cmd]. rewrite Hb. discriminate.
    - unfold terminals. cbn [filter is_term_tok]. unfold info_code in Hc. apply andb_true_iff in Hc as [_ Hi].
      rewrite (info_not_terminal _ Hi). reflexivity.
  Qed.
End Q.
