(* Non-vacuity of Proofs/DeviceWritesExpect.v / Proofs/DaemonE2EExpect.v (C03_reported_by_own_expect) on the daemon of
   Proofs/DaemonE2EEx.v (one coprocess device d0, plug p1 = node n1, status script
   `send "st %s\n"; expect "(on|off)"; setplugstate $1 on="on" off="off"`):
     query_rounds   client 1 sends `status n1`, the device answers `on`: the extended ledger after the fifth pass holds the ONE write
                    event of C03_end_to_end_reported_nonvacuous paired with the expect that produced its sub-matches: executed by the
                    action of client 1 for result list 0 and command PM_STATUS_PLUGS, pattern `(on|off)`, matched on the unread
                    device bytes "on";
     late_rounds    what "its own expect" does NOT say: the device answers the first query with `onoff` (more than the script consumes);
                    a second `status n1` is answered `off` from the left-over bytes, without the device having sent anything after
                    the second query was made - the expect IS the second action's own (ghost: client 1, list 1, bytes "off"), the bytes
                    are older than the action;
     bad_rounds     a specification that fails own_ok (its status script is a bare `setplugstate $0`): the write event reads the
                    sub-matches the LOGIN action's expect left on the device; the ghost is None. *)
From Coq Require Import List NArith ZArith Bool Lia.
From PM Require Import Base.Bytes Base.Outcome Gen.GenConsts Model.ScriptAst Model.Enqueue Model.Script Model.Device Model.DevHarness
                       Model.Client Model.CliWorld Model.Daemon Spec.Proto Proofs.DaemonLedger Proofs.DaemonPending Proofs.DaemonE2E Proofs.DaemonE2EEx
                       Proofs.DeviceWrites Proofs.DaemonE2EWrites Proofs.DaemonE2EWritesEx Proofs.DeviceWritesExpect Proofs.DaemonE2EExpect.
From PM Require Properties.C07.
Import ListNotations.
Local Open Scope Z_scope.

Notation exrun := (drun_x e2e_expand e2e_join e2e_join (fun l => l) e2e_rm C07.ex_compress false).
Notation exstep := (dstep_x e2e_expand e2e_join e2e_join (fun l => l) e2e_rm C07.ex_compress false).

(* the extended ledger after the last pass of a history that starts from daemon st0, and the clients' outputs then *)
Definition x_view (st0 : daemon) (rs : list round) :=
  match dinit st0 1000000 [[ConnNow; ConnNow; ConnNow]] with
  | Ok (st1, _) =>
    let pre := removelast rs in let r := last rs r_none in
    match erun st1 pre [] with
    | Ok (st, _) =>
      match estep st r with
      | Ok (stb, _) => Some (fst (exstep st r (exrun st1 pre ([], map (fun _ => None) (dm_devs st1)))),
                             map (fun x => cl_out (dc x)) (dm_clients stb))
      | _ => None
      end
    | _ => None
    end
  | _ => None
  end.

Definition on_xprov : xprov := mkXprov 1 (Some O) PM_STATUS_PLUGS (bslit "(on|off)") (bslit "on") [Some (O, 2%nat); Some (O, 2%nat)].

Lemma own_example :
  own_ok e2e_scripts = true /\
  x_view e2e_st query_rounds =
    Some ([(on_report, Some on_xprov)],
          [banner ++ render [TLine 302 (bslit "on:      n1"); TLine 302 (bslit "off:     "); TLine 302 (bslit "unknown: ");
                             TLine 103 (bslit "Query complete"); TPrompt]]).
Proof. vm_compute. split; reflexivity. Qed.

(* left-over bytes *)
Definition late_rounds : list round :=
  [ mkRound 1000000 true [] [pin_wr 100];
    mkRound 1100000 false [line_in (bslit "status n1")] [pin_rd (bslit "ok")];
    mkRound 1200000 false [] [pin_wr 100];
    mkRound 1300000 false [] [pin_rd (bslit "onoff")];
    mkRound 1400000 false [] [pin_wr 100];
    mkRound 1500000 false [line_in (bslit "status n1")] [];
    mkRound 1600000 false [] [pin_wr 100] ].
Lemma late_example :
  x_view e2e_st late_rounds =
    Some ([(on_report, Some (mkXprov 1 (Some O) PM_STATUS_PLUGS (bslit "(on|off)") (bslit "onoff") [Some (O, 2%nat); Some (O, 2%nat)]));
           (mkReport 1 1 (bslit "d0") false (bslit "n1") ST_OFF (bslit "off"),
            Some (mkXprov 1 (Some 1%nat) PM_STATUS_PLUGS (bslit "(on|off)") (bslit "off") [Some (O, 3%nat); Some (O, 3%nat)]))],
          [banner ++ render [TLine 302 (bslit "on:      n1"); TLine 302 (bslit "off:     "); TLine 302 (bslit "unknown: ");
                             TLine 103 (bslit "Query complete"); TPrompt;
                             TLine 302 (bslit "on:      "); TLine 302 (bslit "off:     n1"); TLine 302 (bslit "unknown: ");
                             TLine 103 (bslit "Query complete"); TPrompt]]).
Proof. vm_compute. reflexivity. Qed.

(* a specification that fails the check *)
Definition bad_scripts : list (Z * list stmt) :=
  [(PM_LOG_IN, [Send (bslit "login\n"); Expect (bslit "ok")]);
   (PM_STATUS_PLUGS, [SetPlugState (Some (bslit "p1")) 0 0 [(ST_ON, bslit "ok")]])].
Definition bad_st : daemon :=
  mkDaemon [bslit "n1"] [] [bslit "spec"] [true] [mk_device (bslit "d0") [mkPlug (bslit "p1") (Some (bslit "n1"))] bad_scripts 5000000 0]
           [] 1 [] (bslit "2.4") [Telnet.telnet_init].
Definition bad_rounds : list round :=
  [ mkRound 1000000 true [] [pin_wr 100];
    mkRound 1100000 false [line_in (bslit "status n1")] [pin_rd (bslit "ok")];
    mkRound 1200000 false [] [pin_wr 100] ].
Lemma bad_example :
  own_ok bad_scripts = false /\
  x_view bad_st bad_rounds =
    Some ([(mkReport 0 1 (bslit "d0") false (bslit "n1") ST_ON (bslit "ok"), None)],
          [banner ++ render [TLine 302 (bslit "on:      n1"); TLine 302 (bslit "off:     "); TLine 302 (bslit "unknown: ");
                             TLine 103 (bslit "Query complete"); TPrompt]]).
Proof. vm_compute. split; reflexivity. Qed.
