(* C19: ANY number of targets on one stat/on/off line, any depth, any failing hosts, any release schedule of the
   delayed polls: the helper answers every targeted known plug exactly once, reports every unknown name once, and is
   back at its prompt with the model's own fuel (no hang, no abort, no lost waiter); well-formedness is kept, so the
   statement composes over arbitrary sequences of lines. *)
From Coq Require Import List NArith ZArith Bool Lia Permutation.
From PM Require Import Base.Bytes Base.Outcome Gen.GenRfp Model.Redfish Spec.RedfishSpec Model.RedfishView
  Proofs.RedfishBase Proofs.RedfishSteps Proofs.RedfishMgmt Proofs.RedfishRules Proofs.RedfishPhased
  Proofs.RedfishReach Proofs.RedfishInv Proofs.RedfishLive Proofs.RedfishDrain Proofs.RedfishStart.
Import ListNotations.

(* plug names of the result lines printed for the current command, in order of printing *)
Definition answered (st : state) : list name := tres (s_out st).
(* names reported as "unknown plug specified" *)
Definition reported_unknown (st : state) : list name := tunk (s_out st).
Definition known_targets (st : state) (ts : list name) : list name := filter (name_valid (s_tab st)) ts.
Definition unknown_targets (st : state) (ts : list name) : list name := filter (fun p => negb (name_valid (s_tab st) p)) ts.

Section WithHostlist.
Variable hlc : text -> option (list text).

Lemma power_line_run st ln c ts : power_line hlc st ln = Some (c, ts) ->
  exists w args, argv ln = w :: args /\ cmd_of_word w = Some c /\
    (match first_arg args with Some a => hlc a | None => Some (map p_name (s_tab st)) end) = Some ts.
Proof.
  unfold power_line. destruct (argv ln) as [|w args]; [discriminate|]. destruct (cmd_of_word w) as [c'|] eqn:CW; [|discriminate].
  intros H. exists w, args. split; [reflexivity|]. destruct (first_arg args) as [a|].
  - destruct (hlc a) as [ts'|]; inversion H; subst. auto.
  - inversion H; subst. auto.
Qed.

(* the model's own fuel covers the measure *)
Lemma finish st c K U st2 sched : minv st c 0 [] (s_active st2) [] st2 K U -> s_delayed st2 = [] -> s_tab st2 = s_tab st ->
  exists st', drain (fuel_for st2) sched st2 = Ok st' /\ final st c K U st'.
Proof.
  intros INV DL ET. apply (drain_final st c K U (fuel_for st2) sched st2 0 INV).
  unfold mu, lvl, fuel_for. rewrite DL, ET. cbn [app length]. rewrite wsum_app.
  pose proof (wsum_le (s_active st2)) as L1. pose proof (wsum_le (s_wait st2)) as L2.
  destruct (s_active st2) as [|m r] eqn:EA.
  - cbn [existsb length] in *. nia.
  - destruct (existsb nonpoll (m :: r)); cbn [length] in *; nia.
Qed.

Theorem always_answers st ln sched c ts :
  at_prompt st -> ts_covers st -> power_line hlc st ln = Some (c, ts) -> in_domain st c ts = true ->
  exists st', run_line hlc st ln sched = Ok (st', false) /\ at_prompt st' /\ ts_covers st' /\ same_cfg st' st /\
              Permutation (answered st') (known_targets st ts) /\ reported_unknown st' = unknown_targets st ts /\
              (c = CStat -> s_tstat st' = s_tstat st) /\
              (forall c' p, In (EvOp c' p) (s_log st') -> c' = c /\ c <> CStat /\ In p (known_targets st ts)).
Proof.
  intros AP CV PL DOM. destruct (power_line_run st ln c ts PL) as (w & args & AV & CW & TG).
  unfold in_domain in DOM. apply andb_true_iff in DOM as [CY DOM]. apply negb_true_iff in CY. rewrite forallb_forall in DOM.
  assert (DOM' : forall p, In p ts -> name_valid (s_tab st) p = false \/ target_ok st c p = true).
  { intros p I. specialize (DOM p I). apply orb_true_iff in DOM as [H|H]; [left; now apply negb_true_iff | now right]. }
  unfold run_line. rewrite AV, (process_cmd_power _ _ _ _ _ CW). unfold power_cmd.
  set (st0 := set_log (set_out st []) []).
  change (s_tab st0) with (s_tab st). rewrite TG, CY.
  destruct AP as (A0 & W0 & D0 & F0).
  assert (CFG0 : same_cfg st0 st) by (repeat split).
  destruct (targets_spec st c ts st0 CFG0 DOM') as (acts & wts & (KT & AT & WT & RT & UT) & HA & HW & CT).
  set (st1 := fold_left (target_one c) ts st0) in *.
  change (s_active st0) with (s_active st) in AT. change (s_wait st0) with (s_wait st) in WT. rewrite A0 in AT. rewrite W0 in WT. cbn [app] in AT, WT.
  change (s_out st0) with (@nil (tag * text)) in RT, UT. cbn [tres tunk flat_map app] in RT, UT.
  assert (CFG1 : same_cfg st1 st) by (eapply same_cfg_trans; [apply KT | exact CFG0]).
  assert (ET1 : s_tab st1 = s_tab st) by (destruct CFG1 as (_&_&_&E&_); exact E).
  assert (FL1 : s_fault st1 = None) by (destruct KT as (_&_&_&_&E); rewrite E; exact F0).
  assert (DL1 : s_delayed st1 = []) by (destruct KT as (_&_&E&_); rewrite E; exact D0).
  assert (TS1 : s_tstat st1 = s_tstat st) by (destruct KT as (_&E&_); exact E).
  assert (LOG1 : s_log st1 = []) by (destruct KT as (_&_&_&E&_); exact E).
  assert (COV1 : forall n, name_valid (s_tab st) n = true -> ts_lookup (s_tstat st1) n <> None) by (rewrite TS1; exact CV).
  set (K := pend (acts ++ wts)).
  (* the state after the command part satisfies the loop invariant (trivially so when everything was refused) *)
  assert (MAIN : exists st2, (match s_wait st1 with [] => st1 | _ => send_initial_parent_queries (if cmd_is_stat c then st1 else phased_power_on_check st1 c) end) = st2 /\
            minv st c 0 [] (s_active st2) [] st2 K (unknown_targets st ts) /\ s_delayed st2 = []).
  { eexists. split; [reflexivity|]. rewrite WT.
    destruct wts as [|w0 r0] eqn:EW.
    - destruct (start_assemble st c st1 acts [] _ CFG1 FL1 AT WT DL1 COV1 RT UT TS1 LOG1 HA HW) as (I & _ & _ & D); [intros _ NE; congruence|].
      cbn zeta iota in I, D. split; [exact I | exact D].
    - rewrite <- EW in *.
      set (st1' := if cmd_is_stat c then st1 else phased_power_on_check st1 c).
      assert (PH : (st1' = st1 /\ (c = COn -> any_related (s_tab st) (acts ++ wts) = false)) \/
                   (c = COn /\ any_related (s_tab st) (acts ++ wts) = true)).
      { subst st1'. destruct c.
        - left. split; [reflexivity | discriminate].
        - change (cmd_is_stat COn) with false. cbv iota. unfold phased_power_on_check. change (cmd_is_on COn) with true. cbv iota.
          rewrite ET1, AT, WT. destruct (any_related (s_tab st) (acts ++ wts)); [right; auto | left; auto].
        - left. split; [reflexivity | discriminate]. }
      destruct PH as [[-> REL] | [EC AR]].
      + destruct (start_assemble st c st1 acts wts _ CFG1 FL1 AT WT DL1 COV1 RT UT TS1 LOG1 HA HW) as (I & _ & _ & D); [intros E _; now apply REL|].
        assert (E2 : forall X Y : state, match wts with [] => X | _ :: _ => Y end = Y) by (intros; rewrite EW; reflexivity).
        cbn zeta in I, D. rewrite E2 in I, D. rewrite ?E2. unfold K. rewrite <- ?EW. split; [exact I | exact D].
      + subst st1'. subst c. change (cmd_is_stat COn) with false. cbv iota. unfold phased_power_on_check. change (cmd_is_on COn) with true. cbv iota.
        rewrite ET1, AT, WT, AR.
        destruct (refused_minv st COn st1 acts wts _ f_phased_active f_phased_wait CFG1 FL1 AT WT DL1 COV1 RT UT TS1 LOG1) as (I & _ & _ & D & SQ).
        { intros m Im. apply in_app_or in Im as [Im|Im]; [apply (HA m Im) | apply (HW m Im)]. }
        assert (E2 : forall X Y : state, match wts with [] => X | _ :: _ => Y end = Y) by (intros; rewrite EW; reflexivity).
        cbn zeta in I, D, SQ. rewrite ?E2, SQ. unfold K. rewrite <- ?EW. split; [exact I | exact D]. }
  destruct MAIN as (st2 & -> & INV & DL2).
  assert (ET2 : s_tab st2 = s_tab st) by (destruct (mi_cfg _ _ _ _ _ _ _ _ _ INV) as (_&_&_&E&_); exact E).
  destruct (finish st c K _ st2 sched INV DL2 ET2) as (st' & -> & (FA & FW & FD & FF & FC & FCOV & FCNT & FU & FTS & FLOG)).
  exists st'. split; [reflexivity|]. split; [repeat split; assumption|]. split.
  { intros n NV. apply FCOV. destruct FC as (_&_&_&E&_). now rewrite <- E. }
  split; [exact FC|]. split; [|split; [exact FU|split; [exact FTS|]]].
  - apply (Permutation_count_occ text_eq_dec). intros n. unfold answered. fold (cnt n (tres (s_out st'))). rewrite FCNT. apply CT.
  - intros c' p I. destruct (FLOG c' p I) as (E1 & E2 & IK). split; [exact E1|]. split; [exact E2|].
    apply cnt_in. fold (known_targets st ts) in CT. rewrite <- CT. unfold cnt. now apply (count_occ_In text_eq_dec).
Qed.


(* ------------------------------------------------------------------ sessions *)
(* a line the theorems speak about: anything that is not stat/on/off, or a stat/on/off line inside the domain of the rules *)
Definition admissible (st : state) (ln : text) : Prop :=
  (forall w args, argv ln = w :: args -> cmd_of_word w = None) \/
  (exists c ts, power_line hlc st ln = Some (c, ts) /\ in_domain st c ts = true).

Definition answered_line (st : state) (ln : text) (st' : state) : Prop :=
  at_prompt st' /\ ts_covers st' /\
  forall c ts, power_line hlc st ln = Some (c, ts) ->
    same_cfg st' st /\ Permutation (answered st') (known_targets st ts) /\ reported_unknown st' = unknown_targets st ts.

(* every line of the session is answered, as long as the lines so far were admissible in the states reached *)
Fixpoint session_ok (st : state) (ls : list (text * list nat)) : Prop :=
  match ls with
  | [] => True
  | (ln, sched) :: rest =>
    admissible st ln -> exists st' q, run_line hlc st ln sched = Ok (st', q) /\ answered_line st ln st' /\ session_ok st' rest
  end.

Lemma power_line_mgmt st ln : (forall w args, argv ln = w :: args -> cmd_of_word w = None) -> power_line hlc st ln = None.
Proof. intros H. unfold power_line. destruct (argv ln) as [|w args]; [reflexivity|]. now rewrite (H w args eq_refl). Qed.

Theorem wf_power st ln sched c ts st' q :
  at_prompt st -> ts_covers st -> power_line hlc st ln = Some (c, ts) -> in_domain st c ts = true ->
  run_line hlc st ln sched = Ok (st', q) -> at_prompt st' /\ ts_covers st' /\ same_cfg st' st /\ q = false.
Proof.
  intros AP CV PL DOM RL. destruct (always_answers st ln sched c ts AP CV PL DOM) as (st2 & RL2 & AP2 & CV2 & SC & _).
  rewrite RL in RL2. inversion RL2; subst. auto.
Qed.

Theorem sequence : forall ls st, at_prompt st -> ts_covers st -> session_ok st ls.
Proof.
  induction ls as [|[ln sched] rest IH]; intros st AP CV; cbn [session_ok]; [exact I|].
  intros [MG | (c & ts & PL & DOM)].
  - destruct (mgmt_line_returns hlc st ln sched AP MG) as (st' & q & RL & AP').
    pose proof (ts_covers_management hlc st ln sched st' q AP CV MG RL) as CV'.
    exists st', q. split; [exact RL|]. split; [|now apply IH].
    split; [exact AP'|]. split; [exact CV'|]. intros c ts PL. rewrite (power_line_mgmt st ln MG) in PL. discriminate.
  - destruct (always_answers st ln sched c ts AP CV PL DOM) as (st' & RL & AP' & CV' & SC & PERM & UNK & _).
    exists st', false. split; [exact RL|]. split; [|now apply IH].
    split; [exact AP'|]. split; [exact CV'|]. intros c' ts' PL'. rewrite PL in PL'. inversion PL'; subst. auto.
Qed.

End WithHostlist.
