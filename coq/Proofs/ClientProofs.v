(* Facts about the request/reply layer model (Model/Client.v). *)
From Coq Require Import List NArith ZArith Bool Lia Permutation.
From PM Require Import Base.Bytes Base.Outcome Base.Dec Gen.GenConsts Model.ScriptAst Model.Enqueue Model.Script Model.Client.
Import ListNotations.
Local Open Scope Z_scope.

(* ---------- regenerated protocol constants: the terminal lines are pairwise different ---------- *)
Lemma terminal_lines_distinct :
  text_eqb CP_RSP_COM_COMPLETE CP_ERR_COM_COMPLETE = false /\
  text_eqb CP_RSP_QRY_COMPLETE CP_ERR_QRY_COMPLETE = false /\
  text_eqb CP_RSP_COM_COMPLETE CP_ERR_UNIMPL = false.
Proof. vm_compute. repeat split; reflexivity. Qed.

Lemma act_codes_distinct :
  NoDup [ACT_ESUCCESS; ACT_EEXPFAIL; ACT_EABORT; ACT_ECONNECTTIMEOUT; ACT_ELOGINTIMEOUT] /\
  NoDup [ST_UNKNOWN; ST_OFF; ST_ON] /\ NoDup [RT_NONE; RT_UNKNOWN; RT_SUCCESS].
Proof.
  vm_compute. repeat split; repeat (constructor; [cbn; intuition discriminate|]); constructor.
Qed.

(* ---------- C03: a new command starts from a clean slate ---------- *)
Lemma new_arglist_fresh names :
  Forall (fun a => ar_state a = ST_UNKNOWN /\ ar_result a = RT_NONE /\ ar_val a = None) (new_arglist names).
Proof. unfold new_arglist. induction names as [|n r IH]; cbn [map]; constructor; auto. Qed.

Lemma new_arglist_nodes names : map ar_node (new_arglist names) = names.
Proof. unfold new_arglist. rewrite map_map. cbn. apply map_id. Qed.

(* ---------- C02: the terminal code of a power command ---------- *)
Lemma reply_power_success al error :
  reply_power al error = CP_RSP_COM_COMPLETE <->
  error = false /\ forallb (fun a => negb (Z.eqb (ar_result a) RT_UNKNOWN)) (args_iter al) = true.
Proof.
  unfold reply_power.
  assert (Hne : CP_ERR_COM_COMPLETE <> CP_RSP_COM_COMPLETE).
  { intros E. pose proof terminal_lines_distinct as [H _]. rewrite E in H. rewrite text_eqb_refl in H. discriminate. }
  assert (Hx : existsb (fun a => Z.eqb (ar_result a) RT_UNKNOWN) (args_iter al) =
               negb (forallb (fun a => negb (Z.eqb (ar_result a) RT_UNKNOWN)) (args_iter al))).
  { induction (args_iter al) as [|a r IH]; cbn [existsb forallb]; [reflexivity|].
    rewrite IH. destruct (Z.eqb (ar_result a) RT_UNKNOWN); cbn; [reflexivity|]. reflexivity. }
  rewrite Hx. destruct error; cbn [orb].
  - split; [intros E; exfalso; exact (Hne E)|intros [E _]; discriminate].
  - destruct (forallb _ (args_iter al)); cbn [negb].
    + split; auto.
    + split; [intros E; exfalso; exact (Hne E)|intros [_ E]; discriminate].
Qed.

(* the failure code otherwise *)
Lemma reply_power_cases al error :
  reply_power al error = CP_RSP_COM_COMPLETE \/ reply_power al error = CP_ERR_COM_COMPLETE.
Proof. unfold reply_power. destruct (error || _); auto. Qed.

(* ---------- C03: on / off / unknown partition the targets ---------- *)
Lemma filter_partition {A} (p : A -> bool) (l : list A) :
  Permutation l (filter p l ++ filter (fun x => negb (p x)) l).
Proof.
  induction l as [|x r IH]; cbn [filter app]; [constructor|].
  destruct (p x); cbn [negb app].
  - constructor. exact IH.
  - eapply Permutation_trans; [constructor; exact IH|]. apply Permutation_middle.
Qed.

Lemma on_off_distinct : ST_ON <> ST_OFF.
Proof. intros E. vm_compute in E. discriminate. Qed.

Lemma filter_off_after_not_on (it : list arg) :
  filter (fun a => Z.eqb (ar_state a) ST_OFF) it =
  filter (fun a => Z.eqb (ar_state a) ST_OFF) (filter (fun x => negb (Z.eqb (ar_state x) ST_ON)) it).
Proof.
  induction it as [|a r IH]; cbn [filter]; [reflexivity|].
  destruct (Z.eqb (ar_state a) ST_ON) eqn:E1; cbn [negb filter].
  - destruct (Z.eqb (ar_state a) ST_OFF) eqn:E2; [|exact IH].
    exfalso. apply Z.eqb_eq in E1, E2. apply on_off_distinct. congruence.
  - destruct (Z.eqb (ar_state a) ST_OFF); [f_equal|]; exact IH.
Qed.

Lemma filter_unknown_after_not_on (it : list arg) :
  filter (fun a => negb (Z.eqb (ar_state a) ST_ON) && negb (Z.eqb (ar_state a) ST_OFF)) it =
  filter (fun a => negb (Z.eqb (ar_state a) ST_OFF)) (filter (fun x => negb (Z.eqb (ar_state x) ST_ON)) it).
Proof.
  induction it as [|a r IH]; cbn [filter]; [reflexivity|].
  destruct (Z.eqb (ar_state a) ST_ON); cbn [negb andb filter]; [exact IH|].
  destruct (Z.eqb (ar_state a) ST_OFF); cbn [negb]; [|f_equal]; exact IH.
Qed.

Lemma status_partition (it : list arg) :
  let pick st := filter (fun a => Z.eqb (ar_state a) st) it in
  let unk := filter (fun a => negb (Z.eqb (ar_state a) ST_ON) && negb (Z.eqb (ar_state a) ST_OFF)) it in
  Permutation it (pick ST_ON ++ pick ST_OFF ++ unk).
Proof.
  cbn zeta.
  eapply Permutation_trans; [apply (filter_partition (fun a => Z.eqb (ar_state a) ST_ON))|].
  apply Permutation_app_head.
  rewrite filter_off_after_not_on, filter_unknown_after_not_on. apply filter_partition.
Qed.

Section C.
  Variable expand_str : text -> option (list text).
  Variable ranged_sorted : list text -> text.
  Variable ranged_plain : list text -> text.
  Variable sorted : list text -> list text.

  (* ---------- C02 / C04: _act_finish counts down exactly, answers once ---------- *)
  Lemma act_finish_spec c store err msg c' k :
    cl_cmd c = Some k ->
    act_finish ranged_sorted c store err msg = Ok c' ->
    (* a failure is reported at once with a 308 line carrying the device's message, and remembered *)
    let c1 := if Z.eqb err ACT_ESUCCESS then c else emit (cprintf CP_INFO_ACTERROR [msg]) c in
    let k1 := mkCommand (k_com k) (k_targets k) (k_pending k - 1) (k_error k || negb (Z.eqb err ACT_ESUCCESS)) (k_args k) in
    (k_pending k - 1 <> 0 -> c' = set_cmd (Some k1) c1)
    /\ (k_pending k - 1 = 0 ->
        exists reply, final_reply ranged_sorted c1 k1 (nth (k_args k) store []) = Ok reply
                      /\ c' = emit CP_PROMPT (set_cmd None (emit reply c1))).
  Proof.
    intros Hk. unfold act_finish. rewrite Hk. cbn zeta. cbn [k_pending k_args].
    destruct (Z.eqb (k_pending k - 1) 0) eqn:E0.
    - apply Z.eqb_eq in E0.
      match goal with |- context [final_reply ?a ?b ?c ?d] => destruct (final_reply a b c d) as [t| | | |] eqn:Ef end; try discriminate.
      intros H; inversion H; subst c'. split; [intros; lia|]. intros _. exists t. split; reflexivity.
    - apply Z.eqb_neq in E0. intros H; inversion H; subst c'. split; [reflexivity|intros; lia].
  Qed.

  (* without a command in progress _act_finish would trip assert(c->cmd != NULL) *)
  Lemma act_finish_needs_cmd c store err msg :
    cl_cmd c = None -> act_finish ranged_sorted c store err msg = Abort SITE_ACT_FINISH_NOCMD.
  Proof. intros H. unfold act_finish. now rewrite H. Qed.

  (* ---------- C11 / C04: while a command is in progress every further (short enough) line is answered 208 and
     changes nothing else ---------- *)
  Lemma parse_busy cf store c line k :
    cl_cmd c = Some k -> Z.of_nat (length (strip (cstr line))) < CP_LINEMAX ->
    parse_input expand_str ranged_sorted ranged_plain sorted cf store c line = (cf, store, emit CP_ERR_CLIBUSY c, []).
  Proof.
    intros Hk Hl. unfold parse_input. cbn zeta.
    destruct (CP_LINEMAX <=? Z.of_nat (length (strip (cstr line)))) eqn:E; [apply Z.leb_le in E; lia|].
    now rewrite Hk.
  Qed.

  (* ---------- C04 / C06: an idle client's line either is answered at once (reply, then a prompt unless it was quit),
     or queues a command with pending = number of queued actions > 0 and prints nothing yet ---------- *)
  Lemma create_command_shape cf n com arg :
    match create_command expand_str ranged_plain cf n com arg with
    | CRefused _ => True
    | CQueued k al q =>
        k_pending k = Z.of_nat (total q) /\ (0 < total q)%nat /\ k_args k = n /\ k_error k = false /\
        al = new_arglist (k_targets k) /\ k_com k = com /\
        q = enqueue (map cd_edev (cf_devs cf)) com (k_targets k) /\
        check_actions (map cd_edev (cf_devs cf)) com (k_targets k) = true
    end.
  Proof.
    unfold create_command.
    destruct arg as [a|].
    - destruct (expand_str a) as [names|]; [|exact I].
      destruct (filter (fun n0 => negb (node_exists cf n0)) (exp_aliases cf names)) eqn:Eb; [|exact I].
      destruct (check_actions _ com (exp_aliases cf names)) eqn:Ec; cbn [negb]; [|exact I].
      destruct (Nat.eqb (total _) 0) eqn:Et; [exact I|].
      apply Nat.eqb_neq in Et. cbn. repeat split; auto. lia.
    - destruct (check_actions _ com (cf_nodes cf)) eqn:Ec; cbn [negb]; [|exact I].
      destruct (Nat.eqb (total _) 0) eqn:Et; [exact I|].
      apply Nat.eqb_neq in Et. cbn. repeat split; auto. lia.
  Qed.

  Lemma parse_idle cf store c line cf' store' c' q :
    cl_cmd c = None ->
    parse_input expand_str ranged_sorted ranged_plain sorted cf store c line = (cf', store', c', q) ->
    (q = [] /\ cl_cmd c' = None /\ store' = store /\ cl_id c' = cl_id c)
    \/ (exists k al, cl_cmd c' = Some k /\ store' = store ++ [al] /\ k_pending k = Z.of_nat (total q) /\ (0 < total q)%nat
          /\ k_args k = length store /\ al = new_arglist (k_targets k) /\ cl_out c' = cl_out c /\ cl_id c' = cl_id c
          /\ q = enqueue (map cd_edev (cf_devs cf)) (k_com k) (k_targets k)).
  Proof.
    intros Hn. unfold parse_input. cbn zeta.
    (* every immediate answer: the client record only gains output (and flags), never a command *)
    Ltac immediate Hn :=
      let H := fresh "H" in
      intros H; inversion H; subst; left;
      repeat match goal with |- context [if ?b then _ else _] => destruct b end;
      cbn; rewrite ?Hn; auto.
    destruct (CP_LINEMAX <=? _); [immediate Hn|].
    rewrite Hn.
    destruct (classify (strip (cstr line))) as [| | | | | |com a|a|] eqn:Ecl; try (immediate Hn; fail).
    (* the only case left: a device command *)
    pose proof (create_command_shape cf (length store) com a) as S.
    destruct (create_command expand_str ranged_plain cf (length store) com a) as [t|k al q0].
    - immediate Hn.
    - intros H; inversion H; subst. right. destruct S as [S1 [S2 [S3 [S4 [S5 [S6 [S7 S8]]]]]]].
      exists k, al. cbn. subst com. repeat split; auto.
  Qed.
End C.
