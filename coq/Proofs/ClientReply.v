(* What the terminal reply of a command says (C02, C03): the life of ONE command of one client, from the moment it
   was queued to its last completion, in the single-client world of Model/CliWorld.v. *)
From Coq Require Import List NArith ZArith Bool Lia Permutation.
From PM Require Import Base.Bytes Base.Outcome Base.Dec Gen.GenConsts Model.ScriptAst Model.Enqueue Model.Script Model.Client Model.CliWorld
                       Proofs.EnqueueProofs Proofs.ClientProofs.
Import ListNotations.
Local Open Scope Z_scope.

(* ---------- the Args a reply iterates over ---------- *)
Lemma arg_find_node al n a : arg_find al n = Some a -> ar_node a = n.
Proof.
  induction al as [|x r IH]; [discriminate|]. cbn [arg_find]. destruct (text_eqb (ar_node x) n) eqn:E.
  - intros H; inversion H; subst. now apply text_eqb_eq.
  - exact IH.
Qed.

Lemma arg_find_some al x : In x al -> exists a, arg_find al (ar_node x) = Some a.
Proof.
  induction al as [|y r IH]; intros H; [destruct H|]. cbn [arg_find].
  destruct (text_eqb (ar_node y) (ar_node x)) eqn:E; [eauto|].
  destruct H as [->|H]; [rewrite text_eqb_refl in E; discriminate|exact (IH H)].
Qed.

(* the iteration visits one Arg per element of the target list, with that element's name *)
Lemma args_iter_nodes al : map ar_node (args_iter al) = map ar_node al.
Proof.
  unfold args_iter.
  assert (G : forall l, (forall x, In x l -> In x al) ->
              map ar_node (flat_map (fun a => match arg_find al (ar_node a) with Some x => [x] | None => [] end) l) = map ar_node l).
  { induction l as [|x l IH]; intros Hl; [reflexivity|]. cbn [flat_map map]. rewrite map_app, IH by (intros y Hy; apply Hl; right; exact Hy).
    destruct (arg_find_some al x (Hl x (or_introl eq_refl))) as [a Ea]. rewrite Ea. cbn [map app]. rewrite (arg_find_node _ _ _ Ea). reflexivity. }
  apply G. auto.
Qed.

(* ... and for one name always the same Arg (the one the hash holds) *)
Lemma args_iter_canonical al a : In a (args_iter al) -> arg_find al (ar_node a) = Some a.
Proof.
  unfold args_iter. intros H. apply in_flat_map in H as [x [_ Hx]].
  destruct (arg_find al (ar_node x)) as [y|] eqn:E; [|destruct Hx]. destruct Hx as [<-|[]].
  rewrite (arg_find_node _ _ _ E). exact E.
Qed.

Lemma args_iter_same_node al a b : In a (args_iter al) -> In b (args_iter al) -> ar_node a = ar_node b -> a = b.
Proof.
  intros Ha Hb E. apply args_iter_canonical in Ha, Hb. rewrite E in Ha. congruence.
Qed.

(* updates keep the node names, hence the target list an arglist stands for *)
Lemma arg_update_nodes al n f : (forall x, ar_node (f x) = ar_node x) -> map ar_node (arg_update al n f) = map ar_node al.
Proof.
  intros Hf. induction al as [|a r IH]; [reflexivity|]. cbn [arg_update]. destruct (text_eqb (ar_node a) n); cbn [map]; [rewrite Hf|rewrite IH]; reflexivity.
Qed.

Lemma arg_find_update_other al n m f : (forall x, ar_node (f x) = ar_node x) -> n <> m ->
  arg_find (arg_update al n f) m = arg_find al m.
Proof.
  intros Hf Hn. induction al as [|a r IH]; [reflexivity|]. cbn [arg_update].
  destruct (text_eqb (ar_node a) n) eqn:E.
  - cbn [arg_find]. rewrite Hf. apply text_eqb_eq in E. rewrite E.
    assert (text_eqb n m = false) as -> by (now apply text_eqb_neq). reflexivity.
  - cbn [arg_find]. destruct (text_eqb (ar_node a) m); [reflexivity|exact IH].
Qed.

Lemma arg_find_update_same al n f a : (forall x, ar_node (f x) = ar_node x) ->
  arg_find al n = Some a -> arg_find (arg_update al n f) n = Some (f a).
Proof.
  intros Hf. induction al as [|x r IH]; [discriminate|]. cbn [arg_find arg_update].
  destruct (text_eqb (ar_node x) n) eqn:E.
  - intros H; inversion H; subst. cbn [arg_find]. rewrite Hf, E. reflexivity.
  - intros H. cbn [arg_find]. rewrite E. exact (IH H).
Qed.

(* ---------- the store ---------- *)
Lemma store_set_nth (store : list arglist) : forall i j (al : arglist), nth j (store_set store i al) [] = if Nat.eqb i j then (if Nat.ltb i (length store) then al else ([] : arglist)) else nth j store [].
Proof.
  induction store as [|x r IH]; intros i j al.
  - cbn [store_set length]. destruct (Nat.eqb i j); destruct j; reflexivity.
  - destruct i, j; cbn [store_set nth Nat.eqb]; try reflexivity.
    rewrite IH. cbn [length]. change (Nat.ltb (S i) (S (length r))) with (Nat.ltb i (length r)). reflexivity.
Qed.

Lemma store_set_length (store : list arglist) : forall i (al : arglist), length (store_set store i al) = length store.
Proof. induction store as [|x r IH]; intros [|i] al; cbn [store_set length]; auto. Qed.

Lemma write_slot_other (store : list arglist) i j n f : i <> j -> nth j (write_slot store i n f) [] = nth j store [].
Proof. intros H. unfold write_slot. rewrite store_set_nth. apply Nat.eqb_neq in H. rewrite H. reflexivity. Qed.

Lemma write_slot_same (store : list arglist) i n f : (i < length store)%nat ->
  nth i (write_slot store i n f) [] = arg_update (nth i store []) n f.
Proof. intros H. unfold write_slot. rewrite store_set_nth, Nat.eqb_refl. apply Nat.ltb_lt in H. rewrite H. reflexivity. Qed.

Lemma fresh_slot (store : list arglist) (al : arglist) : nth (length store) (store ++ [al]) [] = al.
Proof. rewrite app_nth2 by lia. rewrite Nat.sub_diag. reflexivity. Qed.

(* ---------- C03: what a status reply lists ---------- *)
Definition on_nodes (it : list arg) : list text := map ar_node (filter (fun a => Z.eqb (ar_state a) ST_ON) it).
Definition off_nodes (it : list arg) : list text := map ar_node (filter (fun a => Z.eqb (ar_state a) ST_OFF) it).
Definition unknown_nodes (it : list arg) : list text :=
  map ar_node (filter (fun a => negb (Z.eqb (ar_state a) ST_ON) && negb (Z.eqb (ar_state a) ST_OFF)) it).

(* every mention of the target list is in exactly one of the three lists ... *)
Lemma status_lists_perm al :
  Permutation (map ar_node al) (on_nodes (args_iter al) ++ off_nodes (args_iter al) ++ unknown_nodes (args_iter al)).
Proof.
  rewrite <- args_iter_nodes. unfold on_nodes, off_nodes, unknown_nodes. rewrite <- !map_app. apply Permutation_map.
  apply status_partition.
Qed.

(* ... which name disjoint SETS of nodes, and say what the Arg of the node says *)
Lemma status_lists_sound al n :
  (In n (on_nodes (args_iter al)) <-> exists a, arg_find al n = Some a /\ In n (map ar_node al) /\ ar_state a = ST_ON) /\
  (In n (off_nodes (args_iter al)) <-> exists a, arg_find al n = Some a /\ In n (map ar_node al) /\ ar_state a = ST_OFF) /\
  (In n (unknown_nodes (args_iter al)) <-> exists a, arg_find al n = Some a /\ In n (map ar_node al) /\ ar_state a <> ST_ON /\ ar_state a <> ST_OFF).
Proof.
  assert (G : forall p, In n (map ar_node (filter p (args_iter al))) <-> exists a, arg_find al n = Some a /\ In n (map ar_node al) /\ p a = true).
  { intros p. split.
    - intros H. apply in_map_iff in H as [a [<- Ha]]. apply filter_In in Ha as [Ha Hp]. exists a. split; [exact (args_iter_canonical _ _ Ha)|].
      split; [|exact Hp]. rewrite <- args_iter_nodes. apply in_map. exact Ha.
    - intros [a [Ha [Hn Hp]]]. rewrite <- args_iter_nodes in Hn. apply in_map_iff in Hn as [b [Eb Hb]].
      pose proof (args_iter_canonical _ _ Hb) as Hc. rewrite Eb in Hc. assert (b = a) by congruence. subst b.
      apply in_map_iff. exists a. split; [exact Eb|]. apply filter_In. split; assumption. }
  unfold on_nodes, off_nodes, unknown_nodes. repeat split.
  - intros H. apply G in H as [a [H1 [H2 H3]]]. exists a. repeat split; auto. now apply Z.eqb_eq.
  - intros [a [H1 [H2 H3]]]. apply G. exists a. repeat split; auto. now apply Z.eqb_eq.
  - intros H. apply G in H as [a [H1 [H2 H3]]]. exists a. repeat split; auto. now apply Z.eqb_eq.
  - intros [a [H1 [H2 H3]]]. apply G. exists a. repeat split; auto. now apply Z.eqb_eq.
  - intros H. apply G in H as [a [H1 [H2 H3]]]. apply andb_true_iff in H3 as [A B]. apply negb_true_iff in A, B. apply Z.eqb_neq in A, B.
    exists a. repeat split; auto.
  - intros [a [H1 [H2 [H3 H4]]]]. apply G. exists a. repeat split; auto. apply andb_true_iff. split; apply negb_true_iff; now apply Z.eqb_neq.
Qed.

Lemma status_lists_disjoint al n :
  ~ (In n (on_nodes (args_iter al)) /\ In n (off_nodes (args_iter al))) /\
  ~ (In n (on_nodes (args_iter al)) /\ In n (unknown_nodes (args_iter al))) /\
  ~ (In n (off_nodes (args_iter al)) /\ In n (unknown_nodes (args_iter al))).
Proof.
  destruct (status_lists_sound al n) as [S1 [S2 S3]]. repeat split; intros [A B].
  - apply S1 in A as [a [Ea [_ Sa]]]. apply S2 in B as [b [Eb [_ Sb]]]. assert (a = b) by congruence. subst b. apply on_off_distinct. congruence.
  - apply S1 in A as [a [Ea [_ Sa]]]. apply S3 in B as [b [Eb [_ [Sb _]]]]. assert (a = b) by congruence. subst b. contradiction.
  - apply S2 in A as [a [Ea [_ Sa]]]. apply S3 in B as [b [Eb [_ [_ Sb]]]]. assert (a = b) by congruence. subst b. contradiction.
Qed.

(* temperature: every mention is listed exactly once, with its value or among the unknown *)
Definition valued (it : list arg) : list arg := filter (fun a => match ar_val a with Some _ => true | None => false end) it.
Definition unvalued (it : list arg) : list arg := filter (fun a => match ar_val a with None => true | Some _ => false end) it.
Lemma temp_lists_perm al :
  Permutation (map ar_node al) (map ar_node (valued (args_iter al)) ++ map ar_node (unvalued (args_iter al))).
Proof.
  rewrite <- args_iter_nodes, <- map_app. apply Permutation_map. unfold valued, unvalued.
  assert (E : filter (fun a => match ar_val a with None => true | Some _ => false end) (args_iter al) =
              filter (fun a => negb (match ar_val a with Some _ => true | None => false end)) (args_iter al)).
  { apply filter_ext. intros a. destruct (ar_val a); reflexivity. }
  rewrite E. apply filter_partition.
Qed.

Section R.
  Variable expand_str : text -> option (list text).
  Variable ranged_sorted : list text -> text.
  Variable ranged_plain : list text -> text.
  Variable sorted : list text -> list text.
  Notation step := (step1 expand_str ranged_sorted ranged_plain sorted).
  Notation runm := (run1 expand_str ranged_sorted ranged_plain sorted).
  Notation evs_ok := (events_ok expand_str ranged_sorted ranged_plain sorted).

  (* the text of the three replies, spelled out in terms of the lists above *)
  Lemma reply_status_text c al err :
    reply_status ranged_sorted c al err =
    (if cl_exp c
     then flat_map (fun a => cprintf CP_INFO_XSTATUS [ar_node a; state_word (ar_state a)]) (args_iter al)
     else cprintf CP_INFO_STATUS [ranged_sorted (on_nodes (args_iter al)); ranged_sorted (off_nodes (args_iter al)); ranged_sorted (unknown_nodes (args_iter al))])
    ++ (if err then CP_ERR_QRY_COMPLETE else CP_RSP_QRY_COMPLETE).
  Proof. reflexivity. Qed.

  Lemma reply_nointerp_text c al err :
    reply_nointerp ranged_sorted c al err =
    flat_map (fun a => match ar_val a with Some v => cprintf CP_INFO_XSTATUS [ar_node a; cut_eol v] | None => [] end) (args_iter al)
    ++ (match map ar_node (unvalued (args_iter al)) with [] => [] | l => cprintf CP_INFO_XSTATUS [ranged_sorted l; bslit "unknown"] end)
    ++ (if err then CP_ERR_QRY_COMPLETE else CP_RSP_QRY_COMPLETE).
  Proof. reflexivity. Qed.

  (* ---------- one command from queueing to its reply ---------- *)
  Definition failed (e : event) : bool := match e with EComplete err _ => negb (Z.eqb err ACT_ESUCCESS) | _ => false end.
  Definition any_failed (evs : list event) : bool := existsb failed evs.
  Definition no_lines (evs : list event) : Prop := Forall (fun e => is_line e = false) evs.
  (* what the callbacks print before the reply *)
  Definition info_text (e : event) : text :=
    match e with
    | EComplete err msg => if Z.eqb err ACT_ESUCCESS then [] else cprintf CP_INFO_ACTERROR [msg]
    | ETele m => cprintf CP_INFO_TELEMETRY [m]
    | EDiag m => cprintf CP_INFO_DIAG [m]
    | _ => []
    end.
  Definition completions (evs : list event) : Z := Z.of_nat (length (filter (fun e => match e with EComplete _ _ => true | _ => false end) evs)).

  Definition with_error (k : command) (b : bool) : command := mkCommand (k_com k) (k_targets k) 0 (k_error k || b) (k_args k).

  Theorem command_run evs : forall s k s',
    cl_cmd (s_cl s) = Some k -> no_lines evs -> evs_ok s evs = true ->
    runm s evs = Ok s' -> cl_cmd (s_cl s') = None ->
    exists t,
      final_reply ranged_sorted (s_cl s) (with_error k (any_failed evs)) (nth (k_args k) (s_store s') []) = Ok t
      /\ cl_out (s_cl s') = cl_out (s_cl s) ++ flat_map info_text evs ++ t ++ CP_PROMPT
      /\ completions evs = k_pending k
      /\ s_cf s' = s_cf s.
  Proof.
    induction evs as [|e evs IH]; intros s k s' Hk Hn Hev Hr Hd.
    - cbn [run1] in Hr. inversion Hr; subst. congruence.
    - inversion Hn as [|? ? Hl Hn']; subst. cbn [events_ok] in Hev. apply andb_true_iff in Hev as [_ Hev].
      cbn [run1] in Hr.
      (* events that leave the command alone *)
      assert (KEEP : forall c1 st1 (txt : text), step s e = Ok (mkCstate (s_cf s) st1 c1) -> cl_cmd c1 = Some k -> cl_out c1 = cl_out (s_cl s) ++ txt ->
                     cl_exp c1 = cl_exp (s_cl s) -> info_text e = txt -> failed e = false ->
                     (match e with EComplete _ _ => false | _ => true end) = true ->
                     exists t, final_reply ranged_sorted (s_cl s) (with_error k (any_failed (e :: evs))) (nth (k_args k) (s_store s') []) = Ok t
                       /\ cl_out (s_cl s') = cl_out (s_cl s) ++ flat_map info_text (e :: evs) ++ t ++ CP_PROMPT
                       /\ completions (e :: evs) = k_pending k /\ s_cf s' = s_cf s).
      { intros c1 st1 txt Es Ek Eo Ex Ei Ef Ec. rewrite Es in Hr, Hev.
        destruct (IH (mkCstate (s_cf s) st1 c1) k s' Ek Hn' Hev Hr Hd) as [t [F1 [F2 [F3 F4]]]].
        exists t. cbn [s_cl s_cf] in *. split; [|split; [|split]].
        - unfold any_failed in *. cbn [existsb]. rewrite Ef. cbn [orb].
          unfold final_reply in *. cbn [with_error k_com k_error] in *. unfold reply_status, reply_nointerp in *. rewrite <- Ex. exact F1.
        - rewrite F2, Eo. cbn [flat_map]. rewrite Ei, <- !app_assoc. reflexivity.
        - unfold completions in *. cbn [filter]. destruct e; try discriminate Ec; exact F3.
        - exact F4. }
      destruct e as [l|err msg|m|m|n st0 v|n r v]; try discriminate Hl.
      + (* a completion *)
        cbn [step1] in Hr, Hev.
        destruct (act_finish ranged_sorted (s_cl s) (s_store s) err msg) as [c1| | | |] eqn:Ea; try discriminate Hr.
        destruct (act_finish_spec ranged_sorted (s_cl s) (s_store s) err msg c1 k Hk Ea) as [More Last].
        destruct (Z.eq_dec (k_pending k - 1) 0) as [E0|E0].
        * (* the last one: nothing may follow *)
          destruct (Last E0) as [reply [Ef Ec1]]. subst c1.
          destruct evs as [|e2 evs].
          { cbn [run1] in Hr. inversion Hr; subst s'. cbn [s_cl s_store s_cf].
            exists reply. split; [|split; [|split]].
            - unfold any_failed. cbn [existsb failed orb]. rewrite orb_false_r.
              unfold final_reply in *. cbn [with_error k_com k_error k_pending k_args] in *.
              unfold reply_status, reply_nointerp in *. destruct (Z.eqb err ACT_ESUCCESS); exact Ef.
            - cbn [emit set_cmd cl_out flat_map info_text]. rewrite app_nil_r. destruct (Z.eqb err ACT_ESUCCESS); cbn [emit cl_out]; rewrite <- ?app_assoc; reflexivity.
            - unfold completions. cbn [filter length]. lia.
            - reflexivity. }
          { exfalso. cbn [events_ok] in Hev. apply andb_true_iff in Hev as [Hb _].
            inversion Hn' as [|? ? Hl2 _]; subst. destruct e2; try discriminate Hl2; discriminate Hb. }
        * (* more to come *)
          pose proof (More E0) as Ec1. subst c1.
          set (k1 := mkCommand (k_com k) (k_targets k) (k_pending k - 1) (k_error k || negb (Z.eqb err ACT_ESUCCESS)) (k_args k)) in *.
          set (c1 := if Z.eqb err ACT_ESUCCESS then s_cl s else emit (cprintf CP_INFO_ACTERROR [msg]) (s_cl s)) in *.
          destruct (IH (mkCstate (s_cf s) (s_store s) (set_cmd (Some k1) c1)) k1 s' eq_refl Hn' Hev Hr Hd) as [t [F1 [F2 [F3 F4]]]].
          exists t. cbn [s_cl s_cf k1 k_args k_pending] in *. split; [|split; [|split]].
          { unfold any_failed in *. cbn [existsb failed].
            unfold final_reply in *. cbn [with_error k_com k_error k1] in *. rewrite <- orb_assoc in F1.
            unfold reply_status, reply_nointerp in *. unfold c1 in F1. destruct (Z.eqb err ACT_ESUCCESS); exact F1. }
          { rewrite F2. cbn [set_cmd cl_out flat_map info_text]. unfold c1. destruct (Z.eqb err ACT_ESUCCESS); cbn [emit cl_out]; rewrite <- ?app_assoc; reflexivity. }
          { unfold completions in *. cbn [filter length]. lia. }
          { exact F4. }
      + apply (KEEP (telemetry (s_cl s) m) (s_store s) (cprintf CP_INFO_TELEMETRY [m])); auto.
      + apply (KEEP (diag (s_cl s) m) (s_store s) (cprintf CP_INFO_DIAG [m])); auto.
      + eapply (KEEP (s_cl s) _ []); auto. cbn [step1]. reflexivity. rewrite app_nil_r; reflexivity.
      + eapply (KEEP (s_cl s) _ []); auto. cbn [step1]. reflexivity. rewrite app_nil_r; reflexivity.
  Qed.
End R.

(* ---------- C02: the terminal line of a power command ---------- *)
Lemma power_not_query com : existsb (Z.eqb com) power_coms = true ->
  Z.eqb com PM_STATUS_PLUGS = false /\ Z.eqb com PM_STATUS_BEACON = false /\ Z.eqb com PM_STATUS_TEMP = false.
Proof.
  unfold power_coms. cbn [existsb]. intros H.
  repeat (apply orb_true_iff in H as [H|H]); try discriminate H; apply Z.eqb_eq in H; subst com; vm_compute; repeat split; reflexivity.
Qed.

Section R2.
  Variable expand_str : text -> option (list text).
  Variable ranged_sorted : list text -> text.
  Variable ranged_plain : list text -> text.
  Variable sorted : list text -> list text.
  Notation runm := (run1 expand_str ranged_sorted ranged_plain sorted).
  Notation evs_ok := (events_ok expand_str ranged_sorted ranged_plain sorted).

  Lemma final_reply_power c k al : existsb (Z.eqb (k_com k)) power_coms = true ->
    final_reply ranged_sorted c k al = Ok (reply_power al (k_error k)).
  Proof.
    intros H. destruct (power_not_query _ H) as [A [B C]]. unfold final_reply. cbv zeta. rewrite A, B, C, H. reflexivity.
  Qed.

  Lemma final_reply_status c k al : (Z.eqb (k_com k) PM_STATUS_PLUGS || Z.eqb (k_com k) PM_STATUS_BEACON)%bool = true ->
    final_reply ranged_sorted c k al = Ok (reply_status ranged_sorted c al (k_error k)).
  Proof. intros H. unfold final_reply. cbv zeta. rewrite H. reflexivity. Qed.

  Lemma final_reply_temp c k al : k_com k = PM_STATUS_TEMP ->
    final_reply ranged_sorted c k al = Ok (reply_nointerp ranged_sorted c al (k_error k)).
  Proof. intros H. unfold final_reply. cbv zeta. rewrite H. reflexivity. Qed.

  Definition no_unknown_result (al : arglist) : bool := forallb (fun a => negb (Z.eqb (ar_result a) RT_UNKNOWN)) (args_iter al).

  (* 102 exactly when no completion carried an error and no Arg of the command ended as RT_UNKNOWN; 210 otherwise;
     every failed completion printed its 308 line before that terminal line *)
  Theorem power_command_reply evs s k s' :
    cl_cmd (s_cl s) = Some k -> existsb (Z.eqb (k_com k)) power_coms = true -> k_error k = false ->
    no_lines evs -> evs_ok s evs = true -> runm s evs = Ok s' -> cl_cmd (s_cl s') = None ->
    exists t,
      cl_out (s_cl s') = cl_out (s_cl s) ++ flat_map info_text evs ++ t ++ CP_PROMPT
      /\ (t = CP_RSP_COM_COMPLETE \/ t = CP_ERR_COM_COMPLETE)
      /\ (t = CP_RSP_COM_COMPLETE <-> any_failed evs = false /\ no_unknown_result (nth (k_args k) (s_store s') []) = true)
      /\ completions evs = k_pending k.
  Proof.
    intros Hk Hc He Hn Hev Hr Hd.
    destruct (command_run expand_str ranged_sorted ranged_plain sorted evs s k s' Hk Hn Hev Hr Hd) as [t [F1 [F2 [F3 _]]]].
    rewrite (final_reply_power _ (with_error k (any_failed evs)) _ Hc) in F1. cbn [with_error k_error] in F1. rewrite He in F1. cbn [orb] in F1.
    injection F1 as <-.
    eexists. split; [exact F2|]. split; [apply reply_power_cases|]. split; [apply reply_power_success|exact F3].
  Qed.

  (* status / beacon / temperature: the reply is computed from the Args of THIS command as they are at the last
     completion; 211 exactly when a completion carried an error, else 103 *)
  Theorem query_command_reply evs s k s' :
    cl_cmd (s_cl s) = Some k -> k_error k = false ->
    no_lines evs -> evs_ok s evs = true -> runm s evs = Ok s' -> cl_cmd (s_cl s') = None ->
    let al := nth (k_args k) (s_store s') [] in
    ((Z.eqb (k_com k) PM_STATUS_PLUGS || Z.eqb (k_com k) PM_STATUS_BEACON)%bool = true ->
       cl_out (s_cl s') = cl_out (s_cl s) ++ flat_map info_text evs ++ reply_status ranged_sorted (s_cl s) al (any_failed evs) ++ CP_PROMPT)
    /\ (k_com k = PM_STATUS_TEMP ->
       cl_out (s_cl s') = cl_out (s_cl s) ++ flat_map info_text evs ++ reply_nointerp ranged_sorted (s_cl s) al (any_failed evs) ++ CP_PROMPT).
  Proof.
    intros Hk He Hn Hev Hr Hd. cbv zeta.
    destruct (command_run expand_str ranged_sorted ranged_plain sorted evs s k s' Hk Hn Hev Hr Hd) as [t [F1 [F2 _]]].
    split; intros Hc.
    - rewrite (final_reply_status _ (with_error k (any_failed evs)) _ Hc) in F1. cbn [with_error k_error] in F1. rewrite He in F1. cbn [orb] in F1.
      injection F1 as <-. exact F2.
    - rewrite (final_reply_temp _ (with_error k (any_failed evs)) _ Hc) in F1. cbn [with_error k_error] in F1. rewrite He in F1. cbn [orb] in F1.
      injection F1 as <-. exact F2.
  Qed.

  Lemma failed_completion_reported evs err msg :
    In (EComplete err msg) evs -> err <> ACT_ESUCCESS ->
    exists a b, flat_map info_text evs = a ++ cprintf CP_INFO_ACTERROR [msg] ++ b.
  Proof.
    intros H Hne. apply in_split in H as [l1 [l2 ->]]. rewrite flat_map_app. cbn [flat_map info_text].
    apply Z.eqb_neq in Hne. rewrite Hne. exists (flat_map info_text l1), (flat_map info_text l2). reflexivity.
  Qed.

  (* ---------- C02: 213 ---------- *)
  (* the target list a request resolves to (or the refusal it gets before any device is looked at) *)
  Definition resolve (cf : cconf) (arg : option text) : list text + text :=
    match arg with
    | None => inl (cf_nodes cf)
    | Some a =>
      match expand_str a with
      | None => inr (cprintf CP_ERR_HOSTLIST [bslit "invalid range"])
      | Some names =>
          match filter (fun n => negb (node_exists cf n)) (exp_aliases cf names) with
          | [] => inl (exp_aliases cf names)
          | bad => inr (cprintf CP_ERR_NOSUCHNODES [ranged_plain bad])
          end
      end
    end.

  Theorem create_command_resolved cf n com arg :
    create_command expand_str ranged_plain cf n com arg =
    match resolve cf arg with
    | inr t => CRefused t
    | inl tg =>
        let devs := map cd_edev (cf_devs cf) in
        if (negb (check_actions devs com tg) || Nat.eqb (total (enqueue devs com tg)) 0)%bool then CRefused CP_ERR_UNIMPL
        else CQueued (mkCommand com tg (Z.of_nat (total (enqueue devs com tg))) false n) (new_arglist tg) (enqueue devs com tg)
    end.
  Proof.
    unfold create_command, resolve. destruct arg as [a|].
    - destruct (expand_str a) as [names|]; [|reflexivity].
      destruct (filter _ (exp_aliases cf names)); [|reflexivity].
      cbv zeta. destruct (check_actions _ com _); cbn [negb orb]; reflexivity.
    - cbv zeta. destruct (check_actions _ com _); cbn [negb orb]; reflexivity.
  Qed.

  (* the other refusals carry other codes *)
  Lemma unimpl_is_213 : exists p, CP_ERR_UNIMPL = [50; 49; 51; 32]%N ++ p.
  Proof. vm_compute. eauto. Qed.
  Lemma other_refusals_not_213 x : (exists p, cprintf CP_ERR_HOSTLIST [x] = [50; 48; 53; 32]%N ++ p) /\ (exists p, cprintf CP_ERR_NOSUCHNODES [x] = [50; 48; 57; 32]%N ++ p).
  Proof. split; eexists; cbv [cprintf CP_ERR_HOSTLIST CP_ERR_NOSUCHNODES length fmt_args app]; reflexivity. Qed.

  (* ---------- C03: a state is shown only if a setplugstate of THIS command wrote it ---------- *)
  Lemma arg_update_state_other al n' f n :
    (forall x, ar_node (f x) = ar_node x) -> (n' = n -> forall x, ar_state (f x) = ar_state x) ->
    option_map ar_state (arg_find (arg_update al n' f) n) = option_map ar_state (arg_find al n).
  Proof.
    intros Hf Hs. destruct (text_eq_dec n' n) as [E|E].
    - subst n'. destruct (arg_find al n) as [a|] eqn:Ea.
      + rewrite (arg_find_update_same al n f a Hf Ea). cbn. rewrite (Hs eq_refl). reflexivity.
      + assert (G : arg_update al n f = al).
        { clear Hs. induction al as [|x r IH]; [reflexivity|]. cbn [arg_find arg_update] in *.
          destruct (text_eqb (ar_node x) n); [discriminate|]. rewrite (IH Ea). reflexivity. }
        rewrite G, Ea. reflexivity.
    - rewrite (arg_find_update_other al n' n f Hf E). reflexivity.
  Qed.

  Definition sets_state_of (n : text) (e : event) : bool := match e with ESetState n' _ _ => text_eqb n' n | _ => false end.

  Theorem state_only_if_set evs : forall s k s' n,
    cl_cmd (s_cl s) = Some k -> (k_args k < length (s_store s))%nat -> no_lines evs ->
    existsb (sets_state_of n) evs = false -> runm s evs = Ok s' ->
    option_map ar_state (arg_find (nth (k_args k) (s_store s') []) n) = option_map ar_state (arg_find (nth (k_args k) (s_store s) []) n).
  Proof.
    (* generalised: the command is either still this one or already answered *)
    assert (G : forall evs s i s' n,
              (cur_slot (s_cl s) = Some i \/ cur_slot (s_cl s) = None) -> (i < length (s_store s))%nat -> no_lines evs ->
              existsb (sets_state_of n) evs = false -> runm s evs = Ok s' ->
              option_map ar_state (arg_find (nth i (s_store s') []) n) = option_map ar_state (arg_find (nth i (s_store s) []) n)).
    { clear evs. induction evs as [|e evs IH]; intros s i s' n Hs Hi Hn He Hr.
      - cbn in Hr. inversion Hr; subst. reflexivity.
      - inversion Hn as [|? ? Hl Hn']; subst. cbn [existsb] in He. apply orb_false_iff in He as [He1 He2]. cbn [run1] in Hr.
        destruct e as [l|err msg|m|m|n' st0 v|n' r v]; try discriminate Hl; cbn [step1] in Hr.
        + destruct (act_finish ranged_sorted (s_cl s) (s_store s) err msg) as [c1| | | |] eqn:Ea; try discriminate Hr.
          rewrite (IH _ i s' n) with (5 := Hr); auto. cbn [s_cl s_store].
          unfold act_finish in Ea. unfold cur_slot in *. destruct (cl_cmd (s_cl s)) as [k|]; [|discriminate Ea].
          cbv zeta in Ea. cbn [k_pending k_args] in Ea. destruct (Z.eqb (k_pending k - 1) 0).
          * destruct (final_reply _ _ _ _); try discriminate Ea. inversion Ea; subst c1. right. reflexivity.
          * inversion Ea; subst c1. cbn [set_cmd cl_cmd k_args]. destruct Hs as [Hs|Hs]; [left; exact Hs|discriminate Hs].
        + rewrite (IH _ i s' n) with (5 := Hr); auto.
        + rewrite (IH _ i s' n) with (5 := Hr); auto.
        + rewrite (IH _ i s' n) with (5 := Hr); cbn [s_cl s_store]; auto.
          * destruct Hs as [Hs|Hs]; rewrite Hs; [|reflexivity]. rewrite write_slot_same by exact Hi.
            apply arg_update_state_other; [reflexivity|]. intros E. subst n'. cbn [sets_state_of] in He1. rewrite text_eqb_refl in He1. discriminate.
          * destruct (cur_slot (s_cl s)); [unfold write_slot; rewrite store_set_length|]; exact Hi.
        + rewrite (IH _ i s' n) with (5 := Hr); cbn [s_cl s_store]; auto.
          * destruct Hs as [Hs|Hs]; rewrite Hs; [|reflexivity]. rewrite write_slot_same by exact Hi.
            apply arg_update_state_other; reflexivity.
          * destruct (cur_slot (s_cl s)); [unfold write_slot; rewrite store_set_length|]; exact Hi. }
    intros s k s' n Hk Hi Hn He Hr. apply (G evs s (k_args k) s' n); auto. left. unfold cur_slot. rewrite Hk. reflexivity.
  Qed.
End R2.
