(* C02, device side: a SUCCESS completion (complete_fun(client, ACT_ESUCCESS)) is reported for an action only by the
   iteration of _process_action in which the action's LAST statement finished with the error code still ACT_ESUCCESS
   (the interpreter's do..while returned "finished", `advance` emptied the exec stack).  Every other way an action
   leaves the queue - time-out of the head (connect / login / expect), a failed statement, abort of the actions queued
   behind a failed head - reports a code different from ACT_ESUCCESS.  Together with C08_refines (a run whose stack
   empties is a `Done` trace of the whole script: every expect matched, every statement once) and the cross-layer
   invariant (each completion reaches exactly its client, once) this is the device half of "102 only if every script
   ran to completion". *)
From Coq Require Import List NArith ZArith Bool Lia.
From PM Require Import Base.Bytes Base.Outcome Base.Dec Gen.GenConsts Gen.GenCbuf Model.ScriptAst Model.Enqueue Model.Script Model.Device
  Proofs.DeviceProofs Proofs.DeviceStmt Proofs.DeviceStmtG Proofs.DeviceInv Proofs.DeviceInvG.
Import ListNotations.
Local Open Scope Z_scope.

Definition is_success (e : ev) : bool := match e with EvComplete _ err _ => Z.eqb err ACT_ESUCCESS | _ => false end.
Definition pa_events (r : pa_res) : list ev := match r with PaDone _ _ _ _ evs => evs | PaNext _ _ _ evs => evs end.

Lemma complete_success d a e : In e (complete d a) -> is_success e = true -> a_err a = ACT_ESUCCESS /\ a_hascb a = true /\ e = EvComplete (a_client a) ACT_ESUCCESS [].
Proof.
  unfold complete. destruct (a_hascb a); [|intros []]. intros [<-|[]] H. cbn in H. apply Z.eqb_eq in H. rewrite H. repeat split. 
Qed.

Section S.
  Variable rmatch : text -> text -> option pmatch.
  Variable compress : list text -> text.
  Variable sc : bool.

  Lemma fail_queue_no_success d h rest : a_err h <> ACT_ESUCCESS -> forall e, In e (fail_queue d h rest) -> is_success e = false.
  Proof.
    intros Hh e Hin. unfold fail_queue in Hin. apply in_app_or in Hin as [Hin|Hin].
    - destruct (is_success e) eqn:E; [|reflexivity]. destruct (complete_success _ _ _ Hin E) as (A & _). contradiction.
    - apply in_flat_map in Hin as (a & _ & Hin). destruct (is_success e) eqn:E; [|reflexivity].
      destruct (complete_success _ _ _ Hin E) as (A & _). cbn [a_err set_err] in A.
      destruct (Z.eqb (a_err h) ACT_EEXPFAIL); [discriminate A|contradiction].
  Qed.

  Lemma reconnect_no_success now d tmo plans d' evs tmo' pl : reconnect now d tmo plans = Ok (d', evs, tmo', pl) -> forall e, In e evs -> is_success e = false.
  Proof.
    unfold reconnect. destruct (if Z.eqb (dv_cstate d) DEV_NOT_CONNECTED then (d, []) else disconnect d) as [d1 e1] eqn:E1.
    assert (H1 : forall e, In e e1 -> is_success e = false).
    { destruct (Z.eqb (dv_cstate d) DEV_NOT_CONNECTED); [inversion E1; subst; intros e []|]. unfold disconnect in E1. inversion E1; subst. intros e [<-|[]]. reflexivity. }
    destruct (time_to_reconnect now d1 tmo) as [go tmo1]. destruct go.
    - destruct (connect now d1 plans) as [[[d2 e2] pl2]| | | |] eqn:E2; try discriminate.
      intros H; inversion H; subst. intros e Hin. apply in_app_or in Hin as [Hin|Hin]; [auto|].
      unfold connect in E2. destruct (dv_has_fd d1 || negb (Z.eqb (dv_cstate d1) DEV_NOT_CONNECTED)); [discriminate|].
      destruct plans as [|[| |] r]; try (inversion E2; subst; destruct Hin as [<-|[]]; reflexivity).
      match type of E2 with match enqueue_login ?x with _ => _ end = _ => destruct (enqueue_login x); try discriminate end.
      inversion E2; subst. destruct Hin as [<-|[]]. reflexivity.
    - intros H; inversion H; subst. auto.
  Qed.

  Lemma fail_and_reconnect_no_success now d act rest store tmo plans pre r :
    a_err act <> ACT_ESUCCESS -> (forall e, In e pre -> is_success e = false) ->
    fail_and_reconnect now d act rest store tmo plans pre = Ok r -> forall e, In e (pa_events r) -> is_success e = false.
  Proof.
    intros Ha Hpre. unfold fail_and_reconnect.
    assert (H0 : forall e, In e (pre ++ fail_queue d act rest) -> is_success e = false).
    { intros e Hin. apply in_app_or in Hin as [Hin|Hin]; [auto|]. eapply fail_queue_no_success; eauto. }
    destruct (connected (set_acts [] d)).
    - destruct (reconnect now (set_acts [] d) tmo plans) as [[[[d2 e2] tmo2] pl]| | | |] eqn:E; try discriminate.
      intros H; inversion H; subst. cbn [pa_events]. intros e Hin. apply in_app_or in Hin as [Hin|Hin]; [auto|].
      eapply reconnect_no_success; eauto.
    - intros H; inversion H; subst. exact H0.
  Qed.

  (* the iteration of _process_action that reports success *)
  Definition finishing (now : Z) (d : device) (store : list arglist) (act0 : action) : Prop :=
    exists sd' act' store' evs0 dt,
      do_while rmatch compress sc 8 now (dv d) (set_stamp (Some (match a_stamp act0 with Some t => t | None => now end)) act0) store [] None
        = Ok ((true, sd', act', store', evs0), dt) /\
      a_err act' = ACT_ESUCCESS /\ a_exec (advance act') = [] /\
      match a_stamp act0 with Some t => t | None => now end + dv_timeout d > now /\ connected d = true.

  Theorem pa_step_success now d store tmo plans r : DInvG compress d ->
    pa_step rmatch compress sc now d store tmo plans = Ok r ->
    forall e, In e (pa_events r) -> is_success e = true ->
    exists act0 rest, dv_acts d = act0 :: rest /\ a_hascb act0 = true /\ e = EvComplete (a_client act0) ACT_ESUCCESS [] /\ finishing now d store act0.
  Proof.
    intros I. unfold pa_step. destruct (dv_acts d) as [|act0 rest] eqn:Ea; [intros H; inversion H; subst; intros e []|].
    pose proof (dg_acts _ d I) as Hw. rewrite Ea in Hw. inversion Hw as [|? ? Hw0 Hwr]; subst.
    destruct (a_exec act0) as [|e0 er] eqn:Eex; [discriminate|].
    set (stamp := match a_stamp act0 with Some t => t | None => now end).
    set (act := set_stamp (Some stamp) act0).
    destruct (stamp + dv_timeout d <=? now) eqn:El.
    { intros H e Hin Hs. exfalso.
      assert (Hne : a_err (set_err (timeout_err d) act) <> ACT_ESUCCESS).
      { cbn [a_err set_err]. unfold timeout_err. destruct (negb (connected d)); [discriminate|]. destruct (negb (dv_logged_in d)); discriminate. }
      assert (Hpre : forall x, In x (timeout_tele d act) -> is_success x = false).
      { intros x Hx. unfold timeout_tele in Hx. destruct (a_tele act); [destruct Hx as [<-|[]]; reflexivity|destruct Hx]. }
      pose proof (fail_and_reconnect_no_success _ _ _ _ _ _ _ _ _ Hne Hpre H e Hin) as X. rewrite X in Hs. discriminate. }
    destruct (negb (connected d)) eqn:Ec; [intros H; inversion H; subst; intros e []|].
    assert (Hwa : wf_action compress (sd_plugs (dv d)) act) by exact Hw0.
    pose proof (do_while_propsG rmatch compress sc 8 now (dv d) act store [] None Hwa) as Hdw.
    destruct (do_while rmatch compress sc 8 now (dv d) act store [] None) as [[[[[[fin sd'] act'] store'] evs] dt]| | | |] eqn:Edw; try discriminate.
    destruct Hdw as (evs1 & t1 & Eevs & _ & SP). cbn [app] in Eevs. subst evs1.
    assert (Hscr : forall x, In x evs -> is_success x = false).
    { intros x Hx. pose proof (sg_evs _ _ _ _ _ _ _ _ _ _ SP) as Hf. rewrite forallb_forall in Hf. specialize (Hf x Hx). destruct x; try reflexivity; discriminate Hf. }
    pose proof (sg_id _ _ _ _ _ _ _ _ _ _ SP) as Hid.
    destruct fin; cbn [negb]; [|intros H; inversion H; subst; cbn [pa_events]; intros e Hin Hs; rewrite (Hscr e Hin) in Hs; discriminate].
    destruct (Z.eqb (a_err act') ACT_ESUCCESS) eqn:Eerr.
    - destruct (advance_props compress (sd_plugs (dv d)) act') as (Hida & Herr & _); [exact (sg_wf _ _ _ _ _ _ _ _ _ _ SP)|].
      destruct (a_exec (advance act')) eqn:Eadv.
      + intros H; inversion H; subst. cbn [pa_events]. intros e Hin Hs. apply in_app_or in Hin as [Hin|Hin]; [rewrite (Hscr e Hin) in Hs; discriminate|].
        destruct (complete_success _ _ _ Hin Hs) as (A & B & C).
        assert (Hcl : a_client (advance act') = a_client act0 /\ a_hascb (advance act') = a_hascb act0).
        { destruct Hid as (_ & C1 & C2 & _). destruct Hida as (_ & D1 & D2 & _). unfold same_id, act in *. cbn [a_client a_hascb set_stamp] in *. split; congruence. }
        destruct Hcl as [Hc1 Hc2]. exists act0, rest. split; [reflexivity|]. split; [congruence|]. split; [rewrite C, Hc1; reflexivity|].
        exists sd', act', store', evs, dt. split; [exact Edw|]. split; [now apply Z.eqb_eq|]. split; [exact Eadv|].
        split; [apply Z.leb_gt in El; fold stamp; lia|]. now apply negb_false_iff in Ec.
      + intros H; inversion H; subst. cbn [pa_events]. intros e Hin Hs. rewrite (Hscr e Hin) in Hs. discriminate.
    - intros H e Hin Hs. exfalso. apply Z.eqb_neq in Eerr.
      pose proof (fail_and_reconnect_no_success _ _ _ _ _ _ _ _ _ Eerr Hscr H e Hin) as X. rewrite X in Hs. discriminate.
  Qed.
End S.

(* the same in the vocabulary of the whole-run refinement (Proofs/ScriptSim.v, C08_refines): the reporting iteration is
   the step of the run whose status is Completed, i.e. the one that ends a `Done` trace of the whole script *)
From PM Require Import Spec.ScriptSem Proofs.ScriptSim.
Lemma finishing_step1 rmatch compress sc now d store act0 :
  finishing rmatch compress sc now d store act0 ->
  exists sd' a'' store' obs evs0,
    step1 rmatch compress sc now (dv d) (set_stamp (Some (match a_stamp act0 with Some t => t | None => now end)) act0) store
      = Ok (Completed, sd', a'', store', obs, evs0) /\ a_exec a'' = [].
Proof.
  intros (sd' & act' & store' & evs0 & dt & Edw & Eerr & Eadv & _). unfold step1. rewrite Edw. cbn [negb].
  rewrite Eerr, Z.eqb_refl, Eadv. eexists _, _, _, _, _. split; [reflexivity|exact Eadv].
Qed.
