(* Device side of C04 (time-outs) and of C12 (what a time-out does, the back-off gate), per pass and per device.
   The integrator assembles Properties/C04.v from these. *)
From Coq Require Import List NArith ZArith Bool Lia.
From PM Require Import Base.Bytes Base.Outcome Base.Dec Gen.GenConsts Gen.GenCbuf Model.ScriptAst Model.Enqueue Model.Script Model.Device
  Model.DevHarness Proofs.DeviceProofs Proofs.DeviceStmt Proofs.DeviceInv Proofs.DeviceRun.
Import ListNotations.
Local Open Scope Z_scope.

Section Timer.
  Variable rmatch : text -> text -> option pmatch.
  Variable compress : list text -> text.
  Variable sc : bool.

  (* ---------- one pass, per device ----------
     After every HPass, for every device: the invariant holds again; completions come off the front of the queue;
     at most one connect attempt was made and only through the back-off gate; and the time-out the pass requests is
     strictly positive and not later than the head action's deadline (unless nothing a client waits for is queued:
     the one exception is the fresh, not yet stamped login of a connection that came back inside _process_action). *)
  Lemma hpass_ok h : HInv compress h ->
    match hstep rmatch compress sc h HPass with
    | Ok (h', o) =>
        tmo_pos (o_tmo o) /\ h_now h' = h_now h /\
        forall k d p, nth_error (h_devs h) k = Some (d, p) ->
          exists d', nth_error (h_devs h') k = Some (d', apply_evs p (evs_of k (o_evs o))) /\
                     dev_pass_ok compress (h_now h) d d' (evs_of k (o_evs o)) (o_tmo o)
    | Hang _ => True
    | _ => False
    end.
  Proof.
    intros Hh. cbn [hstep].
    pose proof (pass_devs_inv rmatch compress sc (h_devs h) (h_now h) O (h_store h) None Hh ltac:(intros x E; discriminate E)) as H1.
    destruct (pass_devs rmatch compress sc (h_now h) 0 (h_devs h) (h_store h) None) as [[[[l' st'] tmo'] evs]| | | |]; try contradiction; [|exact Logic.I].
    destruct H1 as (P & L & Sl & N & T & K). split; [exact P|]. split; [reflexivity|].
    intros k d p Hn. destruct (K k d p Hn) as (d' & E & OK). cbn [plus] in *. exists d'. auto.
  Qed.

  (* ---------- the deadline never moves ----------
     the stamp is part of an action's identity: no statement, no do-while round, no rewind changes it *)
  Lemma stamp_kept_by_do_while fuel now sd a store acc tmo fin sd' a' store' evs t :
    wf_action compress (sd_plugs sd) a -> inv_to sd a ->
    do_while rmatch compress sc fuel now sd a store acc tmo = Ok ((fin, sd', a', store', evs), t) -> a_stamp a' = a_stamp a.
  Proof.
    intros Hw Ht E. pose proof (do_while_props rmatch compress sc fuel now sd a store acc tmo Hw Ht) as H. rewrite E in H.
    destruct H as (e1 & t1 & _ & _ & SP). destruct (sp_id _ _ _ _ _ _ _ _ _ _ SP) as (_ & _ & _ & _ & _ & Es & _). exact Es.
  Qed.
  Lemma stamp_kept_by_rewind a : a_stamp (rewind_action a) = a_stamp a.
  Proof. unfold rewind_action. destruct (rev (a_exec a)); reflexivity. Qed.
  Lemma stamp_kept_by_advance a : a_stamp (advance a) = a_stamp a.
  Proof. unfold advance. destruct (a_exec a) as [|e r]; [reflexivity|]. destruct (cur _); reflexivity. Qed.

  (* ---------- what a passed deadline does (C12: contained and reported; C04: bounded) ----------
     when _process_action finds the head action past its deadline, the SAME iteration completes it and every action
     queued behind it, in queue order, each with a failure code; nothing a client waits for is left queued *)
  Lemma all_fail_no_completions evs : completions evs = [] -> all_fail evs.
  Proof.
    unfold all_fail. induction evs as [|e r IH]; [constructor|]. unfold completions. cbn [flat_map]. intros H.
    destruct e; try (constructor; [exact Logic.I|apply IH; exact H]). discriminate H.
  Qed.

  Lemma timeout_err_fail d : timeout_err d <> ACT_ESUCCESS.
  Proof. unfold timeout_err. destruct (negb (connected d)); [discriminate|]. destruct (negb (dv_logged_in d)); discriminate. Qed.

  Lemma pa_step_timeout now d store tmo plans act0 rest :
    DInv compress d -> tmo_pos tmo -> dv_acts d = act0 :: rest ->
    (match a_stamp act0 with Some t => t | None => now end) + dv_timeout d <= now ->
    exists d2 tmo2 pl evs, pa_step rmatch compress sc now d store tmo plans = Ok (PaDone d2 store tmo2 pl evs) /\
      DInv compress d2 /\ completions evs = queued d /\ all_fail evs /\ queued d2 = [] /\
      (dv_acts d2 = [] \/ exists s, dv_acts d2 = [create_action s PM_LOG_IN None 0 false false false None] /\ dv_cstate d2 = DEV_CONNECTED) /\
      conn_rel now d d2 evs.
  Proof.
    intros I Hp Ea Hl. unfold pa_step. rewrite Ea.
    pose proof (di_acts _ d I) as Hw. rewrite Ea in Hw. inversion Hw as [|? ? Hw0 Hwr]; subst.
    destruct (a_exec act0) as [|e0 er] eqn:Eex; [destruct Hw0 as (H & _); congruence|].
    set (stamp := match a_stamp act0 with Some t => t | None => now end) in *.
    destruct (stamp + dv_timeout d <=? now) eqn:El; [|apply Z.leb_gt in El; lia].
    set (act := set_stamp (Some stamp) act0).
    destruct (fail_and_reconnect_inv compress now d act0 (set_err (timeout_err d) act) rest store tmo plans (timeout_tele d act)
                (DInv_QInv _ d I) (fun _ => I) (di_state _ d I) Ea eq_refl eq_refl)
      as (d2 & tmo2 & pl & evs & E & I2 & S2 & P2 & L2 & C2 & Q2 & LP2 & CR2 & A2 & (e2 & Eevs & Ce2)); auto.
    - unfold timeout_tele. destruct (a_tele act); reflexivity.
    - unfold timeout_tele. destruct (a_tele act); reflexivity.
    - exists d2, tmo2, pl, evs. split; [exact E|]. split; [exact I2|]. split; [exact C2|]. split; [|auto].
      rewrite Eevs. apply Forall_app. split.
      + apply all_fail_no_completions. unfold timeout_tele. destruct (a_tele act); reflexivity.
      + apply Forall_app. split; [|now apply all_fail_no_completions].
        apply fail_queue_all_fail. cbn [a_err set_err]. apply timeout_err_fail.
  Qed.

  (* ---------- reconnection is always attempted once the gate opens (no absorbing failed state in device.c) ---------- *)
  Lemma reconnect_attempts now d tmo plans : DInv compress d -> tmo_pos tmo ->
    dv_retry_count d <= 0 \/ dv_last_retry d + backoff (dv_retry_count d) <= now ->
    exists d' evs tmo' pl, reconnect now d tmo plans = Ok (d', evs, tmo', pl) /\ nconn evs = 1%nat /\
      dv_last_retry d' = now /\ dv_retry_count d' = dv_retry_count d + 1 /\
      (hd ConnFail plans = ConnNow -> dv_cstate d' = DEV_CONNECTED /\ dv_logged_in d' = false /\
         exists l r, dv_acts d' = l :: r /\ is_login l = true).
  Proof.
    intros I Hp Hg.
    destruct (reconnect_inv compress now d tmo plans (DInv_QInv _ d I) (fun _ => I) Hp) as (d' & evs & tmo' & pl & E & I' & _).
    exists d', evs, tmo', pl. split; [exact E|].
    pose proof (reconnect_conn now d tmo plans d' evs tmo' pl E) as CR.
    (* the gate is open: the attempt is made *)
    assert (Hn : nconn evs = 1%nat).
    { unfold reconnect in E.
      destruct (if Z.eqb (dv_cstate d) DEV_NOT_CONNECTED then (d, []) else disconnect d) as [d1 e1] eqn:E1.
      assert (H1 : dv_last_retry d1 = dv_last_retry d /\ dv_retry_count d1 = dv_retry_count d).
      { destruct (Z.eqb (dv_cstate d) DEV_NOT_CONNECTED); [inversion E1; subst; auto|].
        destruct (disconnect_spec d d1 e1 E1) as (_ & _ & _ & _ & _ & _ & _ & R1 & R2). auto. }
      destruct H1 as [L1 R1].
      assert (Hgo : time_to_reconnect now d1 tmo = (true, tmo)).
      { unfold time_to_reconnect. rewrite L1, R1. destruct (0 <? dv_retry_count d) eqn:E0; [|reflexivity].
        apply Z.ltb_lt in E0. destruct Hg as [Hg|Hg]; [lia|]. apply Z.leb_le in Hg. now rewrite Hg. }
      rewrite Hgo in E. destruct CR as [(N & L & R)|(N & _)]; [|exact N].
      destruct (connect now d1 plans) as [[[d2 e2] pl2]| | | |] eqn:Ec; try discriminate.
      injection E as Ed Ee Et Ep. destruct (connect_spec now d1 plans d2 e2 pl2 Ec) as (_ & R2 & _). rewrite Ed in R2. lia. }
    split; [exact Hn|].
    destruct CR as [(N & _)|(_ & _ & L & R)]; [rewrite Hn in N; discriminate N|].
    split; [exact L|]. split; [exact R|].
    intros Hplan.
    unfold reconnect in E.
    destruct (if Z.eqb (dv_cstate d) DEV_NOT_CONNECTED then (d, []) else disconnect d) as [d1 e1] eqn:E1.
    destruct (time_to_reconnect now d1 tmo) as [go tmo1]. destruct go.
    - destruct (connect now d1 plans) as [[[d2 e2] pl2]| | | |] eqn:Ec; try discriminate.
      injection E as Ed Ee Et Ep. rewrite <- Ed.
      assert (Hc : dv_cstate d2 = DEV_CONNECTED).
      { unfold connect in Ec. destruct (_ || _); [discriminate|]. destruct plans as [|[| |] r]; try discriminate Hplan.
        destruct (enqueue_login _) as [d3| | | |] eqn:El; try discriminate. injection Ec as Ec1 Ec2 Ec3. rewrite <- Ec1.
        apply enqueue_login_head in El as (s & _ & ->). reflexivity. }
      destruct (connect_spec now d1 plans d2 e2 pl2 Ec) as (_ & _ & H3). destruct (H3 Hc) as (l & r & Ea & Hl & Hli).
      split; [exact Hc|]. split; [exact Hli|]. exists l, r. split; [exact Ea|]. unfold is_login. rewrite Hl. reflexivity.
    - exfalso. injection E as Ed Ee Et Ep. rewrite <- Ee in Hn.
      destruct (Z.eqb (dv_cstate d) DEV_NOT_CONNECTED); [injection E1 as _ E1e; rewrite <- E1e in Hn; discriminate Hn|].
      destruct (disconnect_spec d d1 e1 E1) as (_ & _ & _ & _ & _ & He & _). rewrite He in Hn. discriminate Hn.
  Qed.
End Timer.
