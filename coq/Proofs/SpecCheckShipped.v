(* C17: the rules evaluated on EVERY specification the current tree ships (Gen/GenSpecs.v is regenerated from the
   .dev files on every check run, so these proofs re-run against what the files say now). *)
From Coq Require Import List NArith ZArith Bool.
From PM Require Import Base.Bytes Gen.GenConsts Model.ScriptAst Model.RegexSyn Model.Fmt Model.SpecCheck Model.SpecDigest
  Spec.SpecCheckSpec Gen.GenSpecs Proofs.SpecCheckProofs.
Import ListNotations.

Lemma shipped_all_ok : forallb (fun '(f, s) => spec_ok s) all_specs = true.
Proof. vm_compute. reflexivity. Qed.

(* the sweep is complete: every file of etc/devices and t/etc was read by the independent reader, the directory
   contents and the automake lists agree, no specification is shadowed by an earlier one of the same name, and
   every file contributes at least one specification *)
Lemma shipped_enumeration :
  unparsable_files = [] /\ unlisted_files = [] /\ missing_files = [] /\ duplicate_specs = [] /\
  forallb (fun f => existsb (fun p => text_eqb (fst p) f) all_specs) shipped_files = true /\
  forallb (fun p => existsb (text_eqb (fst p)) shipped_files) all_specs = true.
Proof. vm_compute. repeat split; reflexivity. Qed.

Definition count_scripts : nat := fold_right (fun p a => (length (sp_scripts (snd p)) + a)%nat) 0%nat all_specs.
Definition count_stmts : nat := fold_right (fun p a => (spec_nstmts (snd p) + a)%nat) 0%nat all_specs.

(* the numbers reported in the evidence are the numbers of the data the theorem ranges over *)
Lemma shipped_counts :
  length shipped_files = n_files /\ length all_specs = n_specs /\ count_scripts = n_scripts /\ count_stmts = n_stmts.
Proof. vm_compute. repeat split; reflexivity. Qed.

(* script-kind classification used by the rules agrees with the switch of device.c:_enqueue_actions on the
   script indices of the current headers *)
Lemma kinds_of_current_tree :
  map kind_of [PM_LOG_IN; PM_LOG_OUT; PM_PING; PM_RESOLVE] = [KPlain; KPlain; KPlain; KPlain] /\
  map kind_of [PM_POWER_ON; PM_POWER_OFF; PM_POWER_CYCLE; PM_RESET; PM_BEACON_ON; PM_BEACON_OFF;
               PM_STATUS_PLUGS; PM_STATUS_TEMP; PM_STATUS_BEACON]
    = [KSinglet; KSinglet; KSinglet; KSinglet; KSinglet; KSinglet; KSinglet; KSinglet; KSinglet] /\
  map kind_of [PM_POWER_ON_RANGED; PM_POWER_OFF_RANGED; PM_POWER_CYCLE_RANGED; PM_RESET_RANGED;
               PM_BEACON_ON_RANGED; PM_BEACON_OFF_RANGED]
    = [KRanged; KRanged; KRanged; KRanged; KRanged; KRanged] /\
  map kind_of [PM_POWER_ON_ALL; PM_POWER_OFF_ALL; PM_POWER_CYCLE_ALL; PM_RESET_ALL; PM_STATUS_PLUGS_ALL;
               PM_STATUS_TEMP_ALL; PM_STATUS_BEACON_ALL]
    = [KAll; KAll; KAll; KAll; KAll; KAll; KAll].
Proof. vm_compute. repeat split; reflexivity. Qed.

Lemma shipped_safe : forall f s idx body tr, In (f, s) all_specs -> In (idx, body) (sp_scripts s) ->
  run (top_arg (kind_of idx)) body tr ->
  (forall pre fmt arg post, tr = pre ++ EvSend fmt arg :: post -> fmt_safe arg fmt) /\
  (forall pre n opt post, tr = pre ++ EvSub n opt :: post -> sub_safe pre n opt) /\
  (exists login, assoc_script PM_LOG_IN (sp_scripts s) = Some login) /\ (0 < sp_timeout s)%Z.
Proof.
  intros f s idx body tr Hf Hin Hr.
  assert (Hok : spec_ok s = true).
  { pose proof shipped_all_ok as A. rewrite forallb_forall in A. exact (A (f, s) Hf). }
  split; [exact (meaning_send s idx body tr Hok Hin Hr)|].
  split; [exact (meaning_groups s idx body tr Hok Hin Hr)|].
  exact (spec_ok_login_timeout s Hok).
Qed.

(* the Coq term of every specification has the fingerprint the translator computed from the reader's tree
   (and props/C17.py recomputes from the real parser's dump): the term printer of gen_specs.py lost nothing *)
Lemma shipped_digests : map (fun p => SpecDigest.spec_digest (snd p)) all_specs = spec_digests.
Proof. vm_compute. reflexivity. Qed.
