(* cbuf_find_unread_line / cbuf_peek_line / cbuf_read_line against the spec's line functions *)
From Coq Require Import List ZArith Bool Lia.
From PM Require Import Base.Bytes Gen.GenCbuf Model.Cbuf Spec.Fifo Proofs.CbufList Proofs.CbufInv Proofs.CbufRead.
Import ListNotations.
Local Open Scope Z_scope.

(* lines > 0: all or none, chars unused (-1) *)
Lemma line_scan_lines bytes : forall n m l lines m' l' lines', 0 < lines -> 0 <= n ->
  line_scan bytes n m l (-1) lines = (m', l', lines') ->
  (lines_end bytes lines n = 0 -> 0 < lines') /\
  (0 < lines_end bytes lines n -> lines' = 0 /\ m' = lines_end bytes lines n).
Proof.
  induction bytes as [|b r IH]; intros n m l lines m' l' lines' Hl Hn; cbn [line_scan lines_end].
  - intros E; inversion E; subst. split; [intros; lia|intros; lia].
  - change (0 <? -1) with false. cbv iota. change (-1 =? 0) with false. cbn [orb].
    destruct (N.eqb b 10) eqn:Eb; cbn [andb].
    + replace (0 <? lines) with true by (symmetry; apply Z.ltb_lt; lia).
      destruct (lines - 1 =? 0) eqn:E1; [apply Z.eqb_eq in E1 | apply Z.eqb_neq in E1].
      * intros E; inversion E; subst; clear E.
        replace (lines <=? 1) with true by (symmetry; apply Z.leb_le; lia).
        split; [intros; lia|]. intros _. split; [lia|reflexivity].
      * replace (lines <=? 1) with false by (symmetry; apply Z.leb_gt; lia).
        intros E. apply IH in E; [exact E|lia|lia].
    + destruct (lines =? 0) eqn:E1; [apply Z.eqb_eq in E1; lia|].
      intros E. apply IH in E; [exact E|lia|lia].
Qed.

(* lines = -1: as many complete lines as lie within the first chars bytes *)
Lemma line_scan_chars bytes : forall n m l chars m' l' lines', 0 < chars ->
  line_scan bytes n m l chars (-1) = (m', l', lines') ->
  lines' = -1 /\ m' = last_line_end (ztake chars bytes) n m.
Proof.
  induction bytes as [|b r IH]; intros n m l chars m' l' lines' Hc; cbn [line_scan].
  - intros E; inversion E; subst. split; [reflexivity|].
    unfold ztake. destruct (Z.to_nat chars); reflexivity.
  - replace (0 <? chars) with true by (symmetry; apply Z.ltb_lt; lia).
    change (0 <? -1) with false. rewrite andb_false_r. change (-1 =? 0) with false. rewrite orb_false_r.
    assert (T : ztake chars (b :: r) = b :: ztake (chars - 1) r).
    { unfold ztake. replace (Z.to_nat chars) with (S (Z.to_nat (chars - 1))) by lia. reflexivity. }
    rewrite T. cbn [last_line_end].
    destruct (chars - 1 =? 0) eqn:E1; [apply Z.eqb_eq in E1 | apply Z.eqb_neq in E1].
    + intros E; inversion E; subst; clear E. split; [reflexivity|].
      rewrite E1. cbn [ztake Z.to_nat firstn last_line_end]. reflexivity.
    + intros E. apply IH in E; [|lia]. exact E.
Qed.

Lemma lines_end_bound q : forall k pos, 0 <= pos -> 0 <= lines_end q k pos <= pos + zlen q.
Proof.
  induction q as [|b r IH]; intros k pos Hp; cbn [lines_end].
  - change (zlen (@nil byte)) with 0. lia.
  - rewrite zlen_cons. pose proof (zlen_nonneg r).
    destruct (N.eqb b 10).
    + destruct (k <=? 1); [lia|]. specialize (IH (k - 1) (pos + 1) ltac:(lia)). lia.
    + specialize (IH k (pos + 1) ltac:(lia)). lia.
Qed.

Lemma last_line_end_bound q : forall pos best, 0 <= best <= pos -> 0 <= last_line_end q pos best <= pos + zlen q.
Proof.
  induction q as [|b r IH]; intros pos best Hb; cbn [last_line_end].
  - change (zlen (@nil byte)) with 0. lia.
  - rewrite zlen_cons. pose proof (zlen_nonneg r).
    specialize (IH (pos + 1) (if N.eqb b 10 then pos + 1 else best)).
    destruct (N.eqb b 10); lia.
Qed.

Lemma fifo_line_count_bound q len lines : 0 <= fifo_line_count q len lines <= zlen q.
Proof.
  unfold fifo_line_count. pose proof (zlen_nonneg q).
  destruct (0 <? lines); [pose proof (lines_end_bound q lines 0); lia|].
  destruct (lines =? -1); [|lia].
  pose proof (last_line_end_bound (qtake (len - 1) q) 0 0 ltac:(lia)).
  change qtake with (@ztake byte) in *. rewrite zlen_ztake in *. lia.
Qed.

Lemma find_unread_line_spec cb chars lines : Inv cb -> -1 <= lines ->
  fst (find_unread_line cb chars lines) = fifo_line_count (abs cb) (chars + 1) lines.
Proof.
  intros H Hl. pose proof (zlen_abs _ H) as LA. unfold find_unread_line, fifo_line_count.
  replace (chars + 1 - 1) with chars by lia.
  destruct (lines =? 0) eqn:E0; [apply Z.eqb_eq in E0 | apply Z.eqb_neq in E0]; cbn [orb].
  { subst. reflexivity. }
  destruct (0 <? lines) eqn:E1; [apply Z.ltb_lt in E1 | apply Z.ltb_ge in E1].
  - replace (lines <=? -1) with false by (symmetry; apply Z.leb_gt; lia). cbn [andb].
    destruct (cb_used cb =? 0) eqn:E2; [apply Z.eqb_eq in E2 | apply Z.eqb_neq in E2].
    { rewrite E2 in LA. apply zlen_0_nil in LA. rewrite LA. reflexivity. }
    destruct (line_scan (abs cb) 0 0 0 (-1) lines) as [[m l] lines'] eqn:Es.
    apply line_scan_lines in Es; [|lia|lia]. destruct Es as (S1 & S2).
    pose proof (lines_end_bound (abs cb) lines 0 ltac:(lia)).
    destruct (Z.eq_dec (lines_end (abs cb) lines 0) 0) as [Z|NZ].
    + specialize (S1 Z). replace (0 <? lines') with true by (symmetry; apply Z.ltb_lt; lia). cbn [fst]. lia.
    + destruct (S2 ltac:(lia)) as (-> & ->). reflexivity.
  - assert (lines = -1) by lia. subst lines. change (-1 <=? -1) with true. change (-1 =? -1) with true. cbn [andb].
    destruct (chars <=? 0) eqn:E2; [apply Z.leb_le in E2 | apply Z.leb_gt in E2].
    { cbn [fst]. change qtake with (@ztake byte). rewrite ztake_neg by lia. reflexivity. }
    destruct (cb_used cb =? 0) eqn:E3; [apply Z.eqb_eq in E3 | apply Z.eqb_neq in E3].
    { rewrite E3 in LA. apply zlen_0_nil in LA. rewrite LA. cbn [fst]. change qtake with (@ztake byte).
      unfold ztake. destruct (Z.to_nat chars); reflexivity. }
    change (0 <? -1) with false. cbv iota.
    destruct (line_scan (abs cb) 0 0 0 chars (-1)) as [[m l] lines'] eqn:Es.
    apply line_scan_chars in Es; [|lia]. destruct Es as (-> & ->).
    change (0 <? -1) with false. reflexivity.
Qed.

(* cbuf_peek_line / cbuf_read_line *)
Lemma peek_line_spec cb len lines ret bytes : Inv cb -> peek_line cb len lines = (ret, bytes) ->
  ((len < 0 \/ lines < -1) /\ ret = -1 /\ bytes = []) \/
  (0 <= len /\ -1 <= lines /\ ret = fifo_line_count (abs cb) len lines /\ bytes = fifo_line_text (abs cb) len lines).
Proof.
  intros H. pose proof (zlen_abs _ H) as LA. unfold peek_line.
  destruct ((len <? 0) || (lines <? -1)) eqn:E0.
  { intros E; inversion E; subst. left. apply orb_true_iff in E0.
    split; [destruct E0 as [E0|E0]; apply Z.ltb_lt in E0; lia|]. split; reflexivity. }
  apply orb_false_iff in E0. destruct E0 as (E01 & E02). apply Z.ltb_ge in E01, E02.
  pose proof (fifo_line_count_bound (abs cb) len lines) as FB.
  destruct (lines =? 0) eqn:E1; [apply Z.eqb_eq in E1 | apply Z.eqb_neq in E1].
  { intros E; inversion E; subst. right. unfold fifo_line_text, fifo_line_count. cbn.
    split; [lia|]. split; [lia|]. split; [reflexivity|].
    change qtake with (@ztake byte). rewrite ztake_neg by lia. reflexivity. }
  pose proof (find_unread_line_spec cb (len - 1) lines H ltac:(lia)) as F.
  replace (len - 1 + 1) with len in F by lia.
  destruct (find_unread_line cb (len - 1) lines) as [n l]. cbn [fst] in F. subst n.
  unfold fifo_line_text. set (n := fifo_line_count (abs cb) len lines) in *.
  change qtake with (@ztake byte).
  destruct ((0 <? n) && (0 <? len)) eqn:E2.
  - apply andb_true_iff in E2. destruct E2 as (E21 & E22). apply Z.ltb_lt in E21, E22.
    destruct (0 <? Z.min n (len - 1)) eqn:E3; [apply Z.ltb_lt in E3 | apply Z.ltb_ge in E3].
    + destruct (reader cb (Z.min n (len - 1)) SinkMem) as [[r b] s] eqn:Er.
      apply reader_spec in Er; [|assumption|lia]. cbv zeta in Er. destruct Er as (R1 & R2 & R3 & R4).
      specialize (R4 eq_refl). intros E; inversion E; subst; clear E. right.
      split; [lia|]. split; [lia|]. split; [reflexivity|].
      f_equal. lia.
    + intros E; inversion E; subst; clear E. right.
      split; [lia|]. split; [lia|]. split; [reflexivity|]. rewrite ztake_neg by lia. reflexivity.
  - intros E; inversion E; subst; clear E. right.
    split; [lia|]. split; [lia|]. split; [reflexivity|].
    apply andb_false_iff in E2. rewrite ztake_neg; [reflexivity|].
    destruct E2 as [E2|E2]; apply Z.ltb_ge in E2; lia.
Qed.

Lemma read_line_spec cb len lines cb' ret bytes : Inv cb -> read_line cb len lines = (cb', ret, bytes) ->
  Inv cb' /\
  (((len < 0 \/ lines < -1) /\ ret = -1 /\ bytes = [] /\ cb' = cb) \/
   (0 <= len /\ -1 <= lines /\ ret = fifo_line_count (abs cb) len lines /\ bytes = fifo_line_text (abs cb) len lines
    /\ abs cb' = fifo_drop (abs cb) ret /\ cb_maxsize cb' = cb_maxsize cb /\ cb_overwrite cb' = cb_overwrite cb)).
Proof.
  intros H. pose proof (zlen_abs _ H) as LA. unfold read_line.
  destruct (peek_line cb len lines) as [n b] eqn:Ep. apply peek_line_spec in Ep; [|assumption].
  intros E; inversion E; subst; clear E.
  destruct Ep as [(P1 & P2 & P3)|(P1 & P2 & P3 & P4)].
  - subst. change (0 <? -1) with false. cbv iota. split; [assumption|]. left. repeat split; assumption.
  - pose proof (fifo_line_count_bound (abs cb) len lines) as FB. rewrite <- P3 in FB.
    unfold fifo_drop. change qskip with (@zdrop byte).
    destruct (0 <? ret) eqn:E1; [apply Z.ltb_lt in E1 | apply Z.ltb_ge in E1].
    + destruct (dropper_Inv cb ret H ltac:(lia)) as (I & A & U).
      split; [assumption|]. right. repeat split; try assumption; try lia; reflexivity.
    + split; [assumption|]. right. rewrite zdrop_neg by lia. repeat split; try assumption; try lia; reflexivity.
Qed.
