(* C19: concrete states for the non-vacuity examples of Properties/C19.v: a three-level forest
   R (host h0) -> M (h1) -> L (h2), a second root S (h3) with child T (h2); host h3 fails. *)
From Coq Require Import List NArith ZArith Bool Lia.
From PM Require Import Base.Bytes Base.Outcome Gen.GenRfp Model.Redfish Spec.RedfishSpec Model.RedfishView
  Proofs.RedfishBase Proofs.RedfishRules.
Import ListNotations.

(* hostlist_create for the examples: comma-separated plain names *)
Fixpoint split_commas (s : text) (cur : text) : list text :=
  match s with
  | [] => [rev cur]
  | c :: r => if N.eqb c 44 then rev cur :: split_commas r [] else split_commas r (c :: cur)
  end.
Definition ex_hlc (a : text) : option (list text) := Some (split_commas a []).

Fixpoint feed (st : state) (lines : list text) : state :=
  match lines with
  | [] => st
  | l :: r => match run_line ex_hlc st l [] with Ok (st', _) => feed st' r | _ => st end
  end.

Definition ex_hosts : list text := [bs "h0"%string; bs "h1"%string; bs "h2"%string; bs "h3"%string].
Definition ex_config : list text :=
  [bs "setstatpath redfish/stat"%string; bs "setonpath redfish/on {on}"%string; bs "setoffpath redfish/off {off}"%string;
   bs "setplugs R 0"%string; bs "setplugs M 1 R"%string; bs "setplugs L 2 M"%string; bs "setplugs S 3"%string; bs "setplugs T 2 S"%string].
(* everything off, host h3 fails *)
Definition ex_off : state := Eval vm_compute in feed (init ex_hosts [bs "h3"%string] false) ex_config.
(* R and M on, the rest off *)
Definition ex_mid : state := Eval vm_compute in feed ex_off [bs "on R"%string; bs "on M"%string].
(* R, M, L on *)
Definition ex_on : state := Eval vm_compute in feed ex_mid [bs "on L"%string].
(* a plug whose parent was never defined (F17) and a root without stat path above a leaf (F20) *)
Definition ex_dangling : state := Eval vm_compute in feed (init ex_hosts [] false) [bs "setstatpath p"%string; bs "setplugs a 0 nosuch"%string].
Definition ex_nopath : state := Eval vm_compute in
  feed (init ex_hosts [] false) [bs "setplugs Root 0"%string; bs "setplugs Leaf 1 Root"%string; bs "setpath Leaf stat p"%string].

Lemma ts_covers_b st :
  forallb (fun p => match ts_lookup (s_tstat st) (p_name p) with Some _ => true | None => false end) (s_tab st) = true -> ts_covers st.
Proof.
  intros H n NV. apply name_valid_lookup in NV as [pd L]. rewrite forallb_forall in H.
  specialize (H pd (lookup_in _ _ _ L)). rewrite (lookup_name _ _ _ L) in H. destruct (ts_lookup _ n); [discriminate | discriminate].
Qed.

Lemma at_prompt_b st : idle st = true -> s_fault st = None -> at_prompt st.
Proof.
  unfold idle, at_prompt. destruct (s_active st); [|discriminate]. destruct (s_delayed st); [|discriminate]. destruct (s_wait st); [|discriminate]. auto.
Qed.
