(* C13, part 4: ONE end-to-end statement from the accepted token stream to the final node -> (device, plug) map.

   STATEMENT SIDE (definitions, top of this file): [spec_map] folds the line rules of Spec/ConfSpec.v (zip_rule,
   next_free_rule, same_name_rule, through ConfMapLoad.line_rule) over the node lines read off the tokens by
   ConfSpec.node_lines, in order.  It knows nothing of the parser, of pluglist.c's plug tables or of conf_nodes: its
   only state is the map built so far, and of the devices it sees only the skeleton (name; hard-wired plug names in
   specification order, or none).  "The next free plug" is a name of the skeleton that no entry of the map so far
   carries for that device.

   PROOF SIDE: [run] abstracts an accepted load into the sequence of semantic actions; parse_items_run shows that the
   make_node actions of an accepted stream are exactly ConfSpec.node_lines of its tokens, in order (token side:
   Proofs/LexerSeg.v); run_spec_map shows by induction that the map of the record stays a permutation of the map
   spec_map builds. *)
From Coq Require Import List NArith ZArith Bool Lia Permutation.
From PM Require Import Base.Bytes Base.Outcome Gen.GenLex Model.Lexer Spec.ConfSpec Proofs.LexerLoad Proofs.LexerSeg
  Proofs.ConfMap Proofs.ConfMapLoad Proofs.ConfMapThm.
Import ListNotations.

(* ================================================================== statement side *)
Definition line : Type := (text * text * option text)%type.          (* node "<nodes>" "<device>" ["<plugs>"] *)

(* what the rules need to know of a device: its name and, if its specification has `plug name { .. }`, those names *)
Definition skel : Type := (text * option (list text))%type.
Definition dev_skel (d : dev_s) : skel := (d_name d, if d_hardwired d then Some (map fst (d_plugs d)) else None).
Definition skel_of (c : cfg) : list skel := map dev_skel (c_devs c).

(* dev_findbyname: the FIRST device of that name *)
Fixpoint first_skel (b : text) (sk : list skel) : option (option (list text)) :=
  match sk with
  | [] => None
  | (n, h) :: r => if text_eqb n b then Some h else first_skel b r
  end.

(* the node that plug p of device b carries in the map m, if any *)
Fixpoint find_node (b p : text) (m : list entry) : option text :=
  match m with
  | [] => None
  | e :: r => if text_eqb (e_dev e) b && text_eqb (e_plug e) p then Some (e_node e) else find_node b p r
  end.

(* the hard-wired plug table of device b as the map m shows it *)
Definition pl_of (names : list text) (m : list entry) (b : text) : plugtab := map (fun p => (p, find_node b p m)) names.

(* the entries one node line adds to the map m *)
Definition spec_line (hl : text -> option (list text)) (sk : list skel) (m : list entry) (ln : line) : list entry :=
  let '(a, b, p) := ln in
  match first_skel b sk, hl a, expand_opt hl p with
  | Some h, Some nodes, Some plugs =>
      match line_rule (match h with Some _ => true | None => false end)
                      (match h with Some names => pl_of names m b | None => [] end) nodes plugs with
      | Some pairs => map (tag b) pairs
      | None => []
      end
  | _, _, _ => []
  end.

Fixpoint spec_map_from (hl : text -> option (list text)) (sk : list skel) (m : list entry) (ls : list line) : list entry :=
  match ls with
  | [] => m
  | l :: r => spec_map_from hl sk (m ++ spec_line hl sk m l) r
  end.

Definition spec_map (hl : text -> option (list text)) (sk : list skel) (ls : list line) : list entry :=
  spec_map_from hl sk [] ls.

(* ================================================================== proof side *)

(* ------------------------------------------------------------------ small facts *)
Lemma free_names_cons e r : free_names (e :: r) = (if is_free e then [fst e] else []) ++ free_names r.
Proof. unfold free_names. cbn [filter]. destruct (is_free e); reflexivity. Qed.

Lemma fst_unique {A B} : forall (l : list (A * B)) q v1 v2, NoDup (map fst l) -> In (q, v1) l -> In (q, v2) l -> v1 = v2.
Proof.
  induction l as [|[a b] r IH]; intros q v1 v2 ND I1 I2; [destruct I1|]. cbn [map fst] in ND. inversion ND; subst.
  destruct I1 as [I1|I1], I2 as [I2|I2].
  - congruence.
  - inversion I1; subst. exfalso. apply H1. apply in_map_iff. exists (q, v2). split; [reflexivity | assumption].
  - inversion I2; subst. exfalso. apply H1. apply in_map_iff. exists (q, v1). split; [reflexivity | assumption].
  - eapply IH; eassumption.
Qed.

Lemma find_node_in b p : forall m n, find_node b p m = Some n -> In (n, b, p) m.
Proof.
  induction m as [|[[n0 b0] p0] r IH]; intros n H; cbn [find_node] in H; [discriminate H|].
  unfold e_dev, e_plug, e_node in H. cbn [fst snd] in H.
  destruct (text_eqb b0 b) eqn:E1; cbn [andb] in H; [|right; apply IH; assumption].
  destruct (text_eqb p0 p) eqn:E2; [|right; apply IH; assumption].
  teq E1. teq E2. inversion H; subst. left; reflexivity.
Qed.

Lemma find_node_none b p : forall m, find_node b p m = None -> forall n, ~ In (n, b, p) m.
Proof.
  induction m as [|[[n0 b0] p0] r IH]; intros H n I; [destruct I|]. cbn [find_node] in H.
  unfold e_dev, e_plug, e_node in H. cbn [fst snd] in H.
  destruct I as [I|I].
  - inversion I; subst. rewrite (proj2 (text_eqb_eq b b) eq_refl), (proj2 (text_eqb_eq p p) eq_refl) in H. discriminate H.
  - destruct (text_eqb b0 b && text_eqb p0 p); [discriminate H | apply (IH H n I)].
Qed.

(* the map so far determines the free plugs of a hard-wired device *)
Lemma free_names_pl_of pl m b : NoDup (map fst pl) -> (forall n p, In (n, b, p) m <-> In (p, Some n) pl) ->
  free_names (pl_of (map fst pl) m b) = free_names pl.
Proof.
  intros ND EQ.
  assert (G : forall l, incl l pl -> free_names (pl_of (map fst l) m b) = free_names l).
  { induction l as [|[q v] r IH]; intros Hl; [reflexivity|].
    unfold pl_of in *. cbn [map fst]. rewrite !free_names_cons. cbn [fst].
    rewrite IH by (intros x Ix; apply Hl; right; assumption). f_equal.
    assert (Iq : In (q, v) pl) by (apply Hl; left; reflexivity).
    unfold is_free. cbn [snd]. destruct v as [n|].
    - destruct (find_node b q m) eqn:F; [reflexivity|]. exfalso. apply (find_node_none _ _ _ F n). apply EQ. assumption.
    - destruct (find_node b q m) as [n|] eqn:F; [|reflexivity]. exfalso. apply find_node_in, EQ in F.
      pose proof (fst_unique _ _ _ _ ND Iq F) as X. discriminate X. }
  apply G, incl_refl.
Qed.

Lemma line_rule_free hard pl1 pl2 nodes plugs : free_names pl1 = free_names pl2 ->
  line_rule hard pl1 nodes plugs = line_rule hard pl2 nodes plugs.
Proof. intros E. unfold line_rule, next_free_rule. rewrite E. reflexivity. Qed.

Lemma line_rule_soft pl1 pl2 nodes plugs : line_rule false pl1 nodes plugs = line_rule false pl2 nodes plugs.
Proof. reflexivity. Qed.

Lemma shadow_app_r : forall a b, shadow_ok (a ++ b) -> shadow_ok b.
Proof. induction a as [|x a IH]; intros b S; [exact S|]. cbn [app shadow_ok] in S. apply IH, S. Qed.

(* the entries of the map that name device b are the assigned plugs of the FIRST device named b *)
Lemma first_dev_entries devs l1 d l2 b : shadow_ok devs -> devs = l1 ++ d :: l2 -> d_name d = b ->
  (forall x, In x l1 -> d_name x <> b) -> forall n p, In (n, b, p) (entries_of devs) <-> In (p, Some n) (d_plugs d).
Proof.
  intros S E N F n p. rewrite <- in_assigned. split.
  - intros I. apply in_entries in I as (d' & Id & I). apply in_dev_entries in I as (n' & p' & X & A).
    inversion X; subst n' p'. rewrite E in Id. apply in_app_or in Id as [Id|[Id|Id]].
    + exfalso. apply (F d' Id). symmetry; assumption.
    + subst d'. assumption.
    + exfalso. rewrite E in S. apply shadow_app_r in S. cbn [shadow_ok] in S. destruct S as [S1 _].
      rewrite (S1 d' Id) in A by congruence. destruct A.
  - intros I. apply in_entries. exists d. split; [rewrite E; apply in_or_app; right; left; reflexivity|].
    apply in_dev_entries. exists n, p. rewrite N. split; [reflexivity | assumption].
Qed.

Lemma first_skel_split b : forall l1 (d : dev_s) l2 extra, d_name d = b -> (forall x, In x l1 -> d_name x <> b) ->
  first_skel b (map dev_skel (l1 ++ d :: l2) ++ extra) = Some (snd (dev_skel d)).
Proof.
  induction l1 as [|x l1 IH]; intros d l2 extra N F; cbn [app map first_skel].
  - unfold dev_skel at 1. rewrite N, (proj2 (text_eqb_eq b b) eq_refl). reflexivity.
  - unfold dev_skel at 1. destruct (text_eqb (d_name x) b) eqn:E.
    + teq E. exfalso. apply (F x); [left; reflexivity | assumption].
    + apply IH; [assumption | intros y I; apply F; right; assumption].
Qed.

(* ------------------------------------------------------------------ inversion of the other semantic actions *)
Section Text.
  Variable hl_expand : text -> option (list text).
  Variable regcomp_ok : bool -> text -> bool.
  Variable resolves : text -> text -> bool.
  Variable is_chardev : text -> bool.
  Variable stale_erange : text -> bool.

  Notation make_device := (make_device regcomp_ok resolves is_chardev stale_erange).
  Notation parse_items := (parse_items hl_expand regcomp_ok resolves is_chardev stale_erange).

  Lemma make_device_ok c name spec host flags c' : make_device c name spec host flags = Ok c' ->
    exists d, c_devs c' = c_devs c ++ [d] /\ assigned (d_plugs d) = [] /\ c_specs c' = c_specs c /\ c_nodes c' = c_nodes c.
  Proof.
    unfold Lexer.make_device, fail. destruct (find_spec spec (c_specs c)) as [s|]; [|intros X; discriminate X].
    destruct (parse_hoststr resolves is_chardev stale_erange c host flags) as [tr| | | |]; cbn [bind]; try (intros X; discriminate X).
    destruct (forallb (regex_ok regcomp_ok) _); [|intros X; discriminate X].
    intros H. inversion H; subst; clear H. eexists. cbn [c_devs c_specs c_nodes d_plugs]. repeat split.
    destruct (ss_plugs s) as [l|]; [|reflexivity]. induction l; [reflexivity | assumption].
  Qed.

  Lemma make_alias_ok c a b c' : make_alias hl_expand c a b = Ok c' ->
    c_specs c' = c_specs c /\ c_devs c' = c_devs c /\ c_nodes c' = c_nodes c.
  Proof.
    unfold make_alias, fail. destruct (alias_find a (c_aliases c)); [intros X; discriminate X|].
    destruct (hl_expand b); [|intros X; discriminate X]. intros H; inversion H; subst. auto.
  Qed.

  Lemma set_tcpwrap_ok c v c' : set_tcpwrap c v = Ok c' -> c' = c.
  Proof. unfold set_tcpwrap, fail. destruct (v && negb have_tcp_wrappers); intros H; [discriminate H | inversion H; reflexivity]. Qed.

  (* ---------------------------------------------------------------- an accepted load as a sequence of actions *)
  Inductive run : cfg -> list line -> cfg -> Prop :=
  | run_end c c' : validate c = Ok c' -> run c [] c'
  | run_node c a b p c' ls cf : make_node hl_expand c a b p = Ok c' -> run c' ls cf -> run c ((a, b, p) :: ls) cf
  | run_dev c name spec host flags c' ls cf : make_device c name spec host flags = Ok c' -> run c' ls cf -> run c ls cf
  | run_same c c' ls cf : c_specs c' = c_specs c -> c_devs c' = c_devs c -> c_nodes c' = c_nodes c -> run c' ls cf -> run c ls cf
  | run_spec c s ls cf : spec_nodup s ->
      run (mkCfg (c_specs c ++ [s]) (c_devs c) (c_nodes c) (c_aliases c) (c_listen c) (c_warned c)) ls cf -> run c ls cf.

  Ltac bind_with L := eapply okp_bind; [apply L|]; cbn beta.

  (* THE token-side lemma: the make_node actions of an accepted stream are ConfSpec.node_lines of its tokens, in order *)
  Lemma parse_items_run lend : forall n c toks, okp (run c (node_lines toks)) (parse_items lend n c toks).
  Proof.
    induction n as [|n IH]; intros c toks; [exact I|].
    cbn [Lexer.parse_items]. bind_with next_nl. intros [t r] H; cbn [fst snd] in H.
    destruct t as [t|]; cycle 1.
    { destruct H as [-> _]. pose proof (okp_self (validate c)) as V. eapply okp_weaken; [exact V|].
      intros cf E. apply run_end. exact E. }
    subst toks.
    destruct t as [k| | | | | | | |]; try exact I.
    destruct k; try exact I.
    - (* alias *)
      rewrite nl_kw by discriminate.
      bind_with expect_str_nl. intros [s1 r1] E1; cbn [fst snd] in E1. bind_with expect_str_nl. intros [s2 r2] E2; cbn [fst snd] in E2.
      eapply okp_bind; [apply okp_self|]. intros c' Ec. eapply okp_weaken; [apply IH|]. intros cf R. subst r r1.
      apply make_alias_ok in Ec as (A1 & A2 & A3). apply run_same with (c' := c'); assumption.
    - (* device *)
      rewrite nl_kw by discriminate.
      bind_with expect_str_nl. intros [s1 r1] E1; cbn [fst snd] in E1. bind_with expect_str_nl. intros [s2 r2] E2; cbn [fst snd] in E2.
      bind_with expect_str_nl. intros [s3 r3] E3; cbn [fst snd] in E3. subst r r1 r2.
      bind_with next_nl. intros [t4 r4] H4; cbn [fst snd] in H4.
      assert (D : okp (run c (node_lines (TStr s1 :: TStr s2 :: TStr s3 :: r3)))
                      (bind (make_device c s1 s2 s3 None) (fun c' => parse_items lend n c' r3))).
      { eapply okp_bind; [apply okp_self|]. intros c' Ec. eapply okp_weaken; [apply IH|]. intros cf R.
        eapply run_dev; [exact Ec | exact R]. }
      destruct t4 as [[]|]; try exact D.
      subst r3. eapply okp_bind; [apply okp_self|]. intros c' Ec. eapply okp_weaken; [apply IH|]. intros cf R.
      eapply run_dev; [exact Ec | exact R].
    - (* listen *)
      rewrite nl_kw by discriminate.
      bind_with expect_str_nl. intros [s1 r1] E1; cbn [fst snd] in E1. subst r.
      eapply okp_weaken; [apply IH|]. intros cf R. eapply run_same; [| | |exact R]; reflexivity.
    - (* node *)
      bind_with expect_str_nl. intros [s1 r1] E1; cbn [fst snd] in E1. bind_with expect_str_nl. intros [s2 r2] E2; cbn [fst snd] in E2.
      subst r r1.
      bind_with next_nl. intros [t3 r3] H3; cbn [fst snd] in H3.
      assert (D : not_str_tok r2 -> okp (run c (node_lines (TKw TOK_NODE :: TStr s1 :: TStr s2 :: r2)))
                      (bind (make_node hl_expand c s1 s2 None) (fun c' => parse_items lend n c' r2))).
      { intros NS. rewrite nl_node2 by exact NS. eapply okp_bind; [apply okp_self|]. intros c' Ec.
        eapply okp_weaken; [apply IH|]. intros cf R. eapply run_node; [exact Ec | exact R]. }
      destruct t3 as [t3|]; [|destruct H3 as [-> _]; apply D; exact I].
      subst r2.
      destruct t3; try (apply D; exact I).
      rewrite nl_node3. eapply okp_bind; [apply okp_self|]. intros c' Ec.
      eapply okp_weaken; [apply IH|]. intros cf R. eapply run_node; [exact Ec | exact R].
    - (* plug_log_level *)
      rewrite nl_kw by discriminate.
      bind_with expect_str_nl. intros [s1 r1] E1; cbn [fst snd] in E1. subst r.
      destruct (mem_text s1 level_names); [exact (IH c r1) | exact I].
    - (* specification *)
      rewrite nl_kw by discriminate.
      bind_with expect_str_nl. intros [name r1] E1; cbn [fst snd] in E1.
      bind_with expect_tok_nl. intros r2 (t2 & E2 & W2). apply begin_tok in W2. subst r r1 t2.
      pose proof (parse_spec_items_nl stale_erange lend n c r2 (mkSpecS name false None []) O) as S3.
      destruct (parse_spec_items stale_erange lend n c r2 (mkSpecS name false None []) O) as [[s r3]| | | |] eqn:E3;
        cbn [bind okp]; try exact I.
      unfold same_nl in S3; cbn [okp snd] in S3.
      apply parse_spec_items_nodup in E3; [|intros l0 X; discriminate X].
      destruct (login_required && negb (has_script pm_log_in (ss_scripts s))); [exact I|].
      eapply okp_weaken; [apply IH|]. intros cf R. apply run_spec with (s := s); [exact E3|].
      change (node_lines (TStr name :: TBegin :: r2)) with (node_lines r2). rewrite S3. exact R.
    - (* tcpwrappers *)
      rewrite nl_kw by discriminate.
      bind_with next_nl. intros [t1 r1] H1; cbn [fst snd] in H1.
      assert (D : okp (run c (node_lines r))
                      (bind (set_tcpwrap (mkCfg (c_specs c) (c_devs c) (c_nodes c) (c_aliases c) (c_listen c) true) true)
                            (fun c' => parse_items lend n c' r))).
      { eapply okp_bind; [apply okp_self|]. intros c' Ec. apply set_tcpwrap_ok in Ec. subst c'.
        eapply okp_weaken; [apply IH|]. intros cf R. eapply run_same; [| | |exact R]; reflexivity. }
      destruct t1 as [[k1| | | | | | | |]|]; try exact D.
      destruct k1; try exact D.
      all: subst r; rewrite nl_kw by discriminate;
        eapply okp_bind; [apply okp_self|]; intros c' Ec; apply set_tcpwrap_ok in Ec; subst c'; apply IH.
  Qed.

  (* ---------------------------------------------------------------- the skeleton only grows at its end *)
  Lemma make_node_skel c a b p c' : make_node hl_expand c a b p = Ok c' -> skel_of c' = skel_of c.
  Proof.
    intros H. apply make_node_ok in H as (l1 & d & l2 & nodes & plugs & pl' & E1 & _ & _ & _ & _ & E6 & E7 & _).
    apply line_result_rule in E6 as (pairs & _ & _ & _ & R4 & _).
    unfold skel_of. rewrite E7, E1, !map_app. cbn [map]. f_equal. f_equal.
    unfold dev_skel. cbn [set_plugs d_name d_hardwired d_plugs]. destruct (d_hardwired d); [rewrite R4; reflexivity | reflexivity].
  Qed.

  Lemma run_skel c ls cf : run c ls cf -> exists extra, skel_of cf = skel_of c ++ extra.
  Proof.
    induction 1 as [c c' V | c a b p c' ls cf E _ IH | c name spec host flags c' ls cf E _ IH | c c' ls cf A1 A2 A3 _ IH | c s ls cf _ _ IH].
    - apply validate_ok in V as (-> & _). exists []. rewrite app_nil_r. reflexivity.
    - destruct IH as [ex IH]. exists ex. rewrite IH, (make_node_skel _ _ _ _ _ E). reflexivity.
    - destruct IH as [ex IH]. apply make_device_ok in E as (d & E & _). exists (dev_skel d :: ex).
      rewrite IH. unfold skel_of. rewrite E, map_app, <- app_assoc. reflexivity.
    - destruct IH as [ex IH]. exists ex. rewrite IH. unfold skel_of. rewrite A2. reflexivity.
    - exact IH.
  Qed.

  (* ---------------------------------------------------------------- the map follows spec_map *)
  Lemma minv_same c c' : c_specs c' = c_specs c -> c_devs c' = c_devs c -> c_nodes c' = c_nodes c -> minv c -> minv c'.
  Proof.
    intros E1 E2 E3 (I1 & I2 & I3 & I4 & I5). unfold minv. rewrite (map_of_devs c'), E1, E2, E3.
    split; [exact I1|]. split; [exact I2|]. split; [exact I3|]. split; [exact I4 | exact I5].
  Qed.

  Lemma minv_spec c s : spec_nodup s -> minv c ->
    minv (mkCfg (c_specs c ++ [s]) (c_devs c) (c_nodes c) (c_aliases c) (c_listen c) (c_warned c)).
  Proof.
    intros Ns (I1 & I2 & I3 & I4 & I5). split; [|split; [|split; [|split]]]; auto.
    - cbn [c_devs c_specs]. intros d Id. apply dev_ok_specs, I3, Id.
    - cbn [c_specs]. intros s0 Is. apply in_app_or in Is as [Is|[<-|[]]]; [apply I5, Is | exact Ns].
  Qed.

  (* what one accepted node line adds to the record's map is what spec_line computes from the map so far *)
  Lemma make_node_spec_line c a b p c' sk m extra : make_node hl_expand c a b p = Ok c' -> minv c ->
    sk = skel_of c ++ extra -> Permutation (map_of c) m ->
    Permutation (map_of c') (m ++ spec_line hl_expand sk m (a, b, p)).
  Proof.
    intros H M Esk Pm. pose proof M as (_ & _ & _ & I4 & _).
    apply make_node_ok in H as (l1 & d & l2 & nodes & plugs & pl' & E1 & E2 & E3 & E4 & E5 & E6 & E7 & _).
    apply line_result_rule in E6 as (pairs & R1 & _ & R3 & _).
    assert (Id : In d (c_devs c)) by (rewrite E1; apply in_or_app; right; left; reflexivity).
    assert (SL : spec_line hl_expand sk m (a, b, p) = map (tag b) pairs).
    { unfold spec_line. rewrite Esk. unfold skel_of. rewrite E1, (first_skel_split b l1 d l2 extra E2 E3), E4, E5.
      unfold dev_skel. cbn [snd]. destruct (d_hardwired d) eqn:HW.
      - rewrite (line_rule_free true (pl_of (map fst (d_plugs d)) m b) (d_plugs d)), R1; [reflexivity|].
        apply free_names_pl_of; [apply (dev_names_nodup c M d Id)|].
        intros n q. rewrite <- (first_dev_entries (c_devs c) l1 d l2 b I4 E1 E2 E3 n q), <- map_of_devs. split; intros X.
        + eapply Permutation_in; [apply Permutation_sym; exact Pm | exact X].
        + eapply Permutation_in; [exact Pm | exact X].
      - rewrite (line_rule_soft [] (d_plugs d)), R1. reflexivity. }
    rewrite SL, (map_of_devs c'), E7, <- E2.
    eapply perm_trans; [apply entries_update; exact R3|].
    eapply perm_trans; [apply Permutation_app_comm|]. apply Permutation_app_tail.
    rewrite <- E1, <- map_of_devs. exact Pm.
  Qed.

  Lemma run_spec_map c ls cf : run c ls cf -> minv c -> forall m, Permutation (map_of c) m ->
    Permutation (map_of cf) (spec_map_from hl_expand (skel_of cf) m ls).
  Proof.
    induction 1 as [c c' V | c a b p c' ls cf E R IH | c name spec host flags c' ls cf E R IH | c c' ls cf A1 A2 A3 R IH | c s ls cf Ns R IH];
      intros M m Pm.
    - apply validate_ok in V as (-> & _). exact Pm.
    - cbn [spec_map_from]. destruct (run_skel _ _ _ R) as [ex Ex]. rewrite (make_node_skel _ _ _ _ _ E) in Ex.
      apply IH.
      + pose proof (make_node_minv hl_expand c a b p M) as S. rewrite E in S. exact S.
      + eapply make_node_spec_line; eassumption.
    - apply IH.
      + pose proof (make_device_minv regcomp_ok resolves is_chardev stale_erange c name spec host flags M) as S. rewrite E in S. exact S.
      + apply make_device_ok in E as (d & E & A & _). rewrite map_of_devs, E, entries_app.
        change (entries_of [d]) with (dev_entries d ++ []). unfold dev_entries. rewrite A. cbn [map app]. rewrite app_nil_r.
        rewrite <- map_of_devs. exact Pm.
    - apply IH; [apply (minv_same c c'); assumption|]. rewrite map_of_devs, A2, <- map_of_devs. exact Pm.
    - apply IH; [apply minv_spec; assumption | exact Pm].
  Qed.

  (* ================================================================ exported statements *)
  Theorem map_of_stream lend toks c :
    load_stream hl_expand regcomp_ok resolves is_chardev stale_erange lend toks = Ok c ->
    Permutation (map_of c) (spec_map hl_expand (skel_of c) (node_lines toks)).
  Proof.
    intros H. unfold load_stream in H.
    pose proof (okp_elim _ _ _ (parse_items_run lend (S (length toks)) cfg_empty toks) H) as R.
    apply (run_spec_map _ _ _ R minv_empty []). apply perm_nil.
  Qed.

  Theorem map_of_text toks c : load hl_expand regcomp_ok resolves is_chardev stale_erange toks = Ok c ->
    Permutation (map_of c) (spec_map hl_expand (skel_of c) (node_lines toks)).
  Proof. apply map_of_stream. Qed.

  Theorem map_of_file files main c : conf_init hl_expand regcomp_ok resolves is_chardev stale_erange files main = Ok c ->
    Permutation (map_of c) (spec_map hl_expand (skel_of c) (node_lines (fst (lex_all files main)))).
  Proof. unfold conf_init. destruct (lex_all files main) as [toks e]. cbn [fst]. apply map_of_stream. Qed.

  (* the skeleton is the specification's: a hard-wired device carries the plug names of its specification, in order *)
  Theorem skel_from_specs toks c : load hl_expand regcomp_ok resolves is_chardev stale_erange toks = Ok c ->
    forall d, In d (c_devs c) ->
      fst (dev_skel d) = d_name d /\
      (d_hardwired d = true -> exists sp, find_spec (d_spec d) (c_specs c) = Some sp /\ snd (dev_skel d) = ss_plugs sp) /\
      (d_hardwired d = false -> snd (dev_skel d) = None).
  Proof.
    intros H d Id. destruct (map_hardwired _ _ _ _ _ _ _ H d Id) as [A _]. unfold dev_skel. split; [reflexivity|]. split.
    - intros HW. destruct (A HW) as (sp & F & P). exists sp. rewrite HW. cbn [snd]. split; [exact F | symmetry; exact P].
    - intros HW. rewrite HW. reflexivity.
  Qed.

  (* ---- corollaries over the map computed from the TEXT of any accepted configuration *)
  Theorem text_map_unambiguous toks c : load hl_expand regcomp_ok resolves is_chardev stale_erange toks = Ok c ->
    let m := spec_map hl_expand (skel_of c) (node_lines toks) in
    NoDup (map e_node m) /\                                          (* functional: one (device, plug) per node *)
    NoDup (map devplug m) /\                                         (* injective: one node per (device, plug) *)
    Permutation (map e_node m) (c_nodes c) /\                        (* its nodes are exactly conf_nodes *)
    (forall name hosts h, In (name, hosts) (c_aliases c) -> In h hosts -> exists d p, In (h, d, p) m) /\
    m <> [].
  Proof.
    intros H m. pose proof (map_of_text toks c H) as P. fold m in P.
    destruct (map_functional _ _ _ _ _ _ _ H) as (F1 & F2 & F3).
    pose proof (map_injective _ _ _ _ _ _ _ H) as J. destruct (map_aliases _ _ _ _ _ _ _ H) as [A N].
    assert (Pn : Permutation (map e_node m) (c_nodes c)).
    { eapply perm_trans; [apply Permutation_map, Permutation_sym, P | exact F2]. }
    split; [eapply Permutation_NoDup; [apply Permutation_map; exact P | exact F1]|].
    split; [eapply Permutation_NoDup; [apply Permutation_map; exact P | exact J]|].
    split; [exact Pn|]. split.
    - intros name hosts h I1 I2. pose proof (A name hosts h I1 I2) as Ih.
      apply (Permutation_in _ (Permutation_sym Pn)) in Ih. apply in_map_iff in Ih as ([[n d] p] & E & Ie).
      unfold e_node in E. cbn [fst] in E. subst n. exists d, p. exact Ie.
    - intros X. apply N. rewrite X in Pn. apply Permutation_nil in Pn. exact Pn.
  Qed.
End Text.
