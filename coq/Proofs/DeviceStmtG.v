(* The statement-level post-condition WITHOUT any assumption on dev->to (Proofs/DeviceStmt.v assumes "dev->to is empty
   unless a send is in progress", which a telnet option reply queued by the transport's preprocess method breaks).
   Every statement handler other than `send` ignores dev->to.  `send` (first time through) used to abort at
   SITE_SEND_ASSERT when the formatted string did not fit behind what dev->to already held - finding F38: the C
   asserted `dropped == strlen(str) - written` on a wrapping buffer, and a tcp peer that stops reading while it
   floods telnet option requests fills dev->to with replies.  After the repair (source fact
   GenConsts.SEND_OVERRUN_ASSERT = false, regenerated from device.c on every run) the oldest unsent bytes are
   overwritten instead, so for an ARBITRARY dev->to every statement satisfies [stmt_postG].  [stmt_postG] also
   records which client the telemetry / diagnostic callbacks of the statement go to (needed for the ordering
   theorem post_poll_one_callbacks_live). *)
From Coq Require Import List NArith ZArith Bool Lia.
From PM Require Import Base.Bytes Base.Outcome Base.Dec Gen.GenConsts Model.ScriptAst Model.Enqueue Model.Script Proofs.DeviceStmt.
Import ListNotations.
Local Open Scope Z_scope.

(* telemetry and diagnostics of an action go to its own client, and only if the action carries that callback *)
Definition cb_of (a : action) (e : ev) : Prop :=
  match e with
  | EvTele c _ => c = a_client a /\ a_tele a = true
  | EvDiag c _ => c = a_client a /\ a_hasdiag a = true
  | _ => True
  end.
Lemma cb_of_same_id a a' e : same_id a a' -> cb_of a' e -> cb_of a e.
Proof. intros (_ & Ec & _ & Et & Ed & _) H. destruct e; cbn [cb_of] in *; try exact H; destruct H as [H1 H2]; split; congruence. Qed.

Section StmtG.
  Variable rmatch : text -> text -> option pmatch.
  Variable compress : list text -> text.
  Variable sc : bool.

  Notation wf_action := (wf_action compress).
  Notation wf_ctx := (wf_ctx compress).
  Notation wf_block := (wf_block compress).
  Notation wf_stmt := (wf_stmt compress).

  Record stmt_postG (sd : sdev) (a : action) (store : list arglist) (fin : bool) (sd' : sdev) (a' : action) (store' : list arglist)
         (evs : list ev) (t : option Z) : Prop := {
    sg_wf : wf_action (sd_plugs sd) a';
    sg_plugs : sd_plugs sd' = sd_plugs sd;
    sg_name : sd_name sd' = sd_name sd;
    sg_id : same_id a a';
    sg_evs : forallb ev_script evs = true;
    sg_tmo : forall v, t = Some v -> 0 < v;
    sg_store : length store' = length store /\ forall j, a_args a <> Some j -> nth_error store' j = nth_error store j;
    sg_cb : Forall (cb_of a) evs
  }.

  Lemma stmt_post_G sd a st f sd' a' st' evs t : stmt_post compress sd a st f sd' a' st' evs t -> Forall (cb_of a) evs -> stmt_postG sd a st f sd' a' st' evs t.
  Proof. intros [w p n _ _ i v m _ q] H. constructor; assumption. Qed.

  Lemma stmt_postG_trans sd a st f1 sd1 a1 st1 e1 t1 f2 sd2 a2 st2 e2 t2 :
    stmt_postG sd a st f1 sd1 a1 st1 e1 t1 -> stmt_postG sd1 a1 st1 f2 sd2 a2 st2 e2 t2 ->
    stmt_postG sd a st f2 sd2 a2 st2 (e1 ++ e2) (min_tmo t1 t2).
  Proof.
    intros [w1 p1 n1 i1 v1 m1 [l1 q1] c1] [w2 p2 n2 i2 v2 m2 [l2 q2] c2].
    constructor; try assumption.
    - now rewrite p1 in w2.
    - congruence. - congruence.
    - eapply same_id_trans; eassumption.
    - rewrite forallb_app, v1, v2. reflexivity.
    - apply min_tmo_pos; assumption.
    - split; [congruence|]. intros j Hj. rewrite q2, q1; auto.
      destruct i1 as (_ & _ & _ & _ & _ & _ & Ea). rewrite Ea. exact Hj.
    - apply Forall_app. split; [exact c1|]. eapply Forall_impl; [|exact c2]. intros e. now apply cb_of_same_id.
  Qed.

  Lemma tele_cb a m : Forall (cb_of a) (tele a m).
  Proof. unfold tele. destruct (a_tele a) eqn:E; [|constructor]. constructor; [split; [reflexivity|exact E]|constructor]. Qed.

  Ltac cbt := first [ exact (Forall_nil _) | apply tele_cb | (constructor; [exact I | apply tele_cb]) | (constructor; [exact I | constructor]) ].

  (* ---------- the post-condition of one statement, handler by handler ---------- *)
  Section Handlers.
    Variable now : Z.
    Variable sd : sdev.
    Variable a : action.
    Variable store : list arglist.
    Variable e : ctx.
    Variable rest : list ctx.
    Hypothesis Ex : a_exec a = e :: rest.
    Hypothesis Hwfe : wf_ctx (sd_plugs sd) (a_com a) e.
    Hypothesis Hrest : Forall (wf_ctx (sd_plugs sd) (a_com a)) rest.
    Hypothesis Hdiag : a_args a <> None -> a_hasdiag a = true.

    Definition post1 (r : outcome sres) (t : option Z) : Prop :=
      match r with Ok (fin, sd', a', store', evs) => stmt_postG sd a store fin sd' a' store' evs t | _ => False end.

    Lemma Hwa : forall e' a0, same_id a a0 -> wf_ctx (sd_plugs sd) (a_com a) e' -> wf_action (sd_plugs sd) (put_top e' rest a0).
    Proof.
      intros e' a0 (Ec & _ & _ & _ & Ed & _ & Ea) He'. unfold put_top, wf_action. cbn.
      split; [discriminate|]. rewrite Ec, Ed, Ea. split; [constructor; assumption|exact Hdiag].
    Qed.
    Lemma Hwa0 : wf_action (sd_plugs sd) a.
    Proof. unfold wf_action. rewrite Ex. split; [discriminate|]. split; [constructor; assumption|exact Hdiag]. Qed.
    Lemma Hwpush : forall c e' a0, same_id a a0 -> wf_ctx (sd_plugs sd) (a_com a) c -> wf_ctx (sd_plugs sd) (a_com a) e' ->
      wf_action (sd_plugs sd) (set_exec (c :: e' :: rest) a0).
    Proof.
      intros c e' a0 (Ec & _ & _ & _ & Ed & _ & Ea) Hc He'. unfold wf_action. cbn.
      split; [discriminate|]. rewrite Ec, Ed, Ea. split; [constructor; [assumption|constructor; assumption]|exact Hdiag].
    Qed.
    Lemma store_same : length store = length store /\ forall j, a_args a <> Some j -> nth_error store j = nth_error store j.
    Proof. split; reflexivity. Qed.
    Lemma store_set_frame i al' : a_args a = Some i ->
      length (store_set store i al') = length store /\ forall j, a_args a <> Some j -> nth_error (store_set store i al') j = nth_error store j.
    Proof.
      intros Hi. split.
      - clear. revert i. induction store as [|x r IH]; intros [|i]; cbn [store_set length]; auto.
      - intros j Hj. assert (H : i <> j) by congruence. clear - H. revert i j H.
        induction store as [|x r IH]; intros [|i] [|j] H; cbn [store_set nth_error]; auto; try congruence.
    Qed.

    Lemma send_props fmt : cur e = Some (Send fmt) ->
      post1 (process_send compress now sd a store e rest fmt) None.
    Proof.
      intros Hs. pose proof (wf_cur_stmt _ _ _ _ _ Hwfe Hs) as Hws. cbn [DeviceStmt.wf_stmt] in Hws.
      destruct Hwfe as (_ & _ & Hpl & _).
      unfold process_send, post1. destruct (c_processing e) eqn:Ep.
      - destruct (sd_to sd) as [|b0 r0] eqn:Et.
        + constructor; [apply Hwa; [apply same_id_refl|apply wf_ctx_proc, Hwfe] | reflexivity | reflexivity | repeat split | reflexivity | discriminate | apply store_same| cbt].
        + constructor; [apply Hwa; [apply same_id_refl|apply wf_ctx_proc, Hwfe] | reflexivity | reflexivity | repeat split | reflexivity | discriminate | apply store_same| cbt].
      - destruct (Hws (c_plugs e) Hpl) as (str & Hstr). rewrite send_arg_new, Hstr.
        assert (Hfix : SEND_OVERRUN_ASSERT = false) by reflexivity.      (* source fact: the assert is gone (F38) *)
        destruct (Nat.ltb (Z.to_nat MAX_DEV_BUF - length (sd_to sd)) (length str)) eqn:El.
        { rewrite Hfix. cbn [sd_to set_to].
          destruct (lastn (Z.to_nat MAX_DEV_BUF) (sd_to sd ++ str)) as [|c0 str0].
          + constructor; [apply Hwa; [apply same_id_refl|apply wf_ctx_proc, Hwfe] | reflexivity | reflexivity | repeat split | reflexivity | discriminate | apply store_same| cbt].
          + constructor; [apply Hwa; [apply same_id_refl|apply wf_ctx_proc, Hwfe] | reflexivity | reflexivity | repeat split | reflexivity | discriminate | apply store_same| cbt]. }
        cbn [sd_to set_to]. pose proof (tele_script a (msg_send sd (memstr str))) as [Ht1 Ht2].
        destruct (sd_to sd ++ str) as [|c0 str0].
        + constructor; [apply Hwa; [apply same_id_refl|apply wf_ctx_proc, Hwfe] | reflexivity | reflexivity | repeat split | cbn [forallb ev_script andb]; exact Ht1 | discriminate
                       | apply store_same| cbt].
        + constructor; [apply Hwa; [apply same_id_refl|apply wf_ctx_proc, Hwfe] | reflexivity | reflexivity | repeat split | cbn [forallb ev_script andb]; exact Ht1 | discriminate
                       | apply store_same| cbt].
    Qed.

    Lemma expect_props re : post1 (process_expect rmatch now sd a store re) None.
    Proof.
      unfold process_expect, post1. cbn [sd_from set_xm].
      assert (G : forall x u f, stmt_postG sd a store f (set_xm x u sd) a store [] None).
      { intros x u f. constructor; [apply Hwa0 | reflexivity | reflexivity | apply same_id_refl | reflexivity | discriminate | apply store_same| cbt]. }
      destruct (sd_from sd) as [|b0 r0] eqn:Ef; [apply G|].
      destruct (rmatch re (nul_to_ff (b0 :: r0))) as [pm|]; [|apply G].
      destruct (nth_error pm 0) as [[[so eo]|]|]; try apply G.
      pose proof (tele_script a (msg_recv (set_xm None false sd) (memstr (firstn eo (nul_to_ff (b0 :: r0)))))) as [Ht1 Ht2].
      constructor; [apply Hwa0 | reflexivity | reflexivity | apply same_id_refl | exact Ht1 | discriminate | apply store_same| cbt].
    Qed.

    Lemma delay_props us :
      match process_delay sc now sd a store e rest us with Ok ((fin, sd', a', store', evs), t) => stmt_postG sd a store fin sd' a' store' evs t | _ => False end.
    Proof.
      unfold process_delay.
      pose proof (tele_script a ((bslit "delay(") ++ sd_name sd ++ (bslit "): ") ++ dec_z (us / 1000000) ++ [46%N] ++ dec_pad 6 (Z.to_N (us mod 1000000)))) as [Ht1 Ht2].
      destruct (c_processing e) eqn:Ep.
      - destruct (sc || (a_delay_start a + us <=? now)) eqn:C.
        + constructor; [apply Hwa; [apply same_id_refl|apply wf_ctx_proc, Hwfe] | reflexivity | reflexivity | repeat split | reflexivity | discriminate | apply store_same| cbt].
        + apply orb_false_iff in C as [_ C]. apply Z.leb_gt in C.
          constructor; [apply Hwa; [apply same_id_refl|exact Hwfe] | reflexivity | reflexivity | repeat split | reflexivity | intros v E; inversion E; subst; lia | apply store_same| cbt].
      - cbn [a_delay_start set_delay_start].
        assert (Hid : same_id a (set_delay_start now a)) by (repeat split).
        destruct (sc || (now + us <=? now)) eqn:C.
        + constructor; [apply Hwa; [exact Hid|apply wf_ctx_proc, Hwfe] | reflexivity | reflexivity | repeat split | exact Ht1 | discriminate | apply store_same| cbt].
        + apply orb_false_iff in C as [_ C]. apply Z.leb_gt in C.
          constructor; [apply Hwa; [exact Hid|apply wf_ctx_proc, Hwfe] | reflexivity | reflexivity | repeat split | exact Ht1 | intros v E; inversion E; subst; lia | apply store_same| cbt].
    Qed.

    Lemma same_state_post st' evs :
      forallb ev_script evs = true -> Forall (cb_of a) evs ->
      (length st' = length store /\ forall j, a_args a <> Some j -> nth_error st' j = nth_error store j) ->
      stmt_postG sd a store true sd a st' evs None.
    Proof.
      intros He1 He2 Hst.
      constructor; [apply Hwa0 | reflexivity | reflexivity | apply same_id_refl | exact He1 | discriminate | exact Hst| exact He2].
    Qed.

    Lemma sub_strdup_ok d i : exists o, sub_strdup d i = Ok o.
    Proof.
      unfold sub_strdup. destruct (negb _); [eauto|]. destruct (sd_xm d) as [[s pm]|]; [|eauto].
      destruct (_ || _); [eauto|]. destruct (nth_error pm _) as [[[so eo]|]|]; eauto.
    Qed.

    Ltac fin_same :=
      cbv beta iota;
      first [ apply same_state_post; [reflexivity|constructor|apply store_same]
            | apply same_state_post; [reflexivity|constructor|eapply store_set_frame; eassumption] ].

    Lemma setplugstate_props lit pmp smp ints :
      post1 (process_setplugstate rmatch sd a store e lit pmp smp ints) None.
    Proof.
      unfold process_setplugstate, post1.
      destruct (sub_strdup_ok sd pmp) as [o1 E1]. destruct (sub_strdup_ok sd smp) as [o2 E2].
      assert (G : forall pn,
        match (match sub_strdup sd smp with
               | Ok ostr =>
                 match ostr, find_plug sd pn with
                 | Some str, Some (_, node) =>
                     let st := first_interp rmatch ints str ST_UNKNOWN in
                     match a_args a, get_args store a with
                     | Some i, Some al =>
                         let al' := arg_update al node (fun x => mkArg (ar_node x) st (ar_result x) (Some str)) in
                         Ok (true, sd, a, store_set store i al', @nil ev)
                     | _, _ => Ok (true, sd, a, store, [])
                     end
                 | _, _ => Ok (true, sd, a, store, [])
                 end
               | Exit c s => Exit c s | Abort s => Abort s | MemErr s => MemErr s | Hang s => Hang s
               end) with
        | Ok (fin, sd', a', store', evs) => stmt_postG sd a store fin sd' a' store' evs None
        | _ => False end).
      { intros pn. rewrite E2. destruct o2 as [str|]; [|fin_same].
        destruct (find_plug sd pn) as [[p node]|]; [|fin_same]. cbv zeta.
        destruct (a_args a) as [i|] eqn:Ea in |- *; [|fin_same].
        destruct (get_args store a) as [al|]; fin_same. }
      destruct lit as [l|]; [apply G|].
      rewrite E1. destruct o1 as [n|]; [apply G|].
      destruct (ctx_first_plug e) as [p|]; [apply G|fin_same].
    Qed.

    Lemma setresult_props pmp smp ints :
      post1 (process_setresult rmatch sd a store e pmp smp ints) None.
    Proof.
      unfold process_setresult, post1.
      destruct (sub_strdup_ok sd pmp) as [o1 E1]. destruct (sub_strdup_ok sd smp) as [o2 E2].
      rewrite E1. destruct o1 as [pn|]; [|fin_same].
      rewrite E2. destruct o2 as [str|]; [|fin_same].
      destruct (find_plug sd pn) as [[p node]|]; [|fin_same]. cbv zeta.
      destruct (a_args a) as [i|] eqn:Ea in |- *; [|fin_same].
      destruct (get_args store a) as [al|]; [|fin_same].
      destruct (arg_find al node); [|fin_same].
      destruct (Z.eqb _ RT_SUCCESS); [fin_same|].
      assert (Hd : a_hasdiag a = true) by (apply Hdiag; congruence). rewrite Hd. cbv beta iota.
      apply same_state_post; [reflexivity|constructor; [split; [reflexivity|exact Hd]|constructor]|eapply store_set_frame; eassumption].
    Qed.

    Lemma foreach_props onlynodes body : wf_block (sd_plugs sd) body ->
      post1 (process_foreach sd a store e rest onlynodes body) None.
    Proof.
      intros Hbody. unfold process_foreach, post1.
      destruct Hwfe as (Hcur & Hblk & Hpl & Hpll & Hrng).
      (* after initialisation: a context e0 that is well formed *)
      assert (G : forall e0, wf_ctx (sd_plugs sd) (a_com a) e0 ->
                 match (let lst := if is_ranged_com (a_com a) then match c_pluglist e0 with Some l => l | None => [] end else sd_plugs sd in
                        let i := match c_plugitr e0 with Some i => i | None => O end in
                        match next_plug onlynodes lst i with
                        | Some (p, i') => Ok (true, sd, set_exec (new_ctx body (Some [p]) :: set_plugitr (Some i') e0 :: rest) a, store, @nil ev)
                        | None => Ok (true, sd, put_top (set_plugitr None e0) rest a, store, [])
                        end) with
                 | Ok (fin, sd', a', store', evs) => stmt_postG sd a store fin sd' a' store' evs None
                 | _ => False end).
      { intros e0 He0. cbv zeta.
        set (lst := if is_ranged_com (a_com a) then match c_pluglist e0 with Some l => l | None => [] end else sd_plugs sd).
        assert (Hl : incl lst (sd_plugs sd)).
        { unfold lst. destruct (is_ranged_com (a_com a)); [|apply incl_refl].
          destruct He0 as (_ & _ & _ & Hq & _). destruct (c_pluglist e0); [exact Hq|intros x []]. }
        destruct (next_plug onlynodes lst _) as [[p i']|] eqn:En.
        - apply next_plug_in in En.
          constructor; [apply Hwpush; [apply same_id_refl| apply new_ctx_wf; [exact Hbody|intros x [<-|[]]; now apply Hl] | apply wf_ctx_itr, He0]
                       | reflexivity | reflexivity | repeat split | reflexivity | discriminate | apply store_same| cbt].
        - constructor; [apply Hwa; [apply same_id_refl|apply wf_ctx_itr, He0] | reflexivity | reflexivity | repeat split | reflexivity | discriminate | apply store_same| cbt]. }
      destruct (c_plugitr e) as [it|] eqn:Eit.
      - apply G. exact Hwfe.
      - destruct (is_ranged_com (a_com a)) eqn:Er.
        + destruct (c_plugs e) as [ps|] eqn:Ecp; [|exfalso; now apply Hrng].
          apply G. destruct (c_pluglist e) eqn:Ecl.
          * apply wf_ctx_itr; exact Hwfe.
          * unfold wf_ctx, set_plugitr, set_pluglist, cur. cbn. rewrite Ecp. repeat split; auto; try discriminate; try apply Hblk.
        + apply G. apply wf_ctx_itr; exact Hwfe.
    Qed.

    Lemma ifonoff_props want body : wf_block (sd_plugs sd) body ->
      post1 (process_ifonoff sd a store e rest want body) None.
    Proof.
      intros Hbody. unfold process_ifonoff, post1.
      destruct Hwfe as (Hcur & Hblk & Hpl & Hpll & Hrng).
      destruct (c_processing e) eqn:Ep.
      - constructor; [apply Hwa; [apply same_id_refl|apply wf_ctx_proc, Hwfe] | reflexivity | reflexivity | repeat split | reflexivity | discriminate | apply store_same| cbt].
      - assert (G : forall st : Z,
                 match (let cond := (want && Z.eqb st ST_ON) || (negb want && Z.eqb st ST_OFF) in
                        let a1 := if negb cond && Z.eqb st ST_UNKNOWN then set_err ACT_EEXPFAIL a else a in
                        if cond then Ok (true, sd, set_exec (new_ctx body (match c_plugs e with Some ps => Some ps | None => Some [] end)
                                                  :: set_processing true e :: rest) a1, store, @nil ev)
                        else Ok (true, sd, a1, store, [])) with
                 | Ok (fin, sd', a', store', evs) => stmt_postG sd a store fin sd' a' store' evs None
                 | _ => False end).
        { intros st. cbv zeta.
          set (a1 := if _ && _ then set_err ACT_EEXPFAIL a else a).
          assert (Hid : same_id a a1) by (unfold a1; destruct (_ && _); repeat split).
          assert (Hw1 : wf_action (sd_plugs sd) a1).
          { unfold a1. destruct (_ && _); [|apply Hwa0]. pose proof Hwa0 as (H1 & H2 & H3). unfold wf_action. cbn. auto. }
          destruct (_ || _).
          - constructor; [apply Hwpush; [exact Hid| | apply wf_ctx_proc, Hwfe]
                         | reflexivity | reflexivity | destruct Hid as (?&?&?&?&?&?&?); repeat split; assumption | reflexivity | discriminate | apply store_same| cbt].
            destruct (c_plugs e) as [ps|] eqn:Ecp.
            + apply new_ctx_wf; [exact Hbody|exact Hpl].
            + apply new_ctx_wf; [exact Hbody|intros x []].
          - constructor; [exact Hw1 | reflexivity | reflexivity | exact Hid | reflexivity | discriminate | apply store_same| cbt]. }
        destruct (c_plugs e) as [[|p ps]|]; try apply G.
        destruct (pl_node p); apply G.
    Qed.
  End Handlers.

  Lemma process_stmt_propsG now sd a store :
    wf_action (sd_plugs sd) a ->
    match process_stmt rmatch compress sc now sd a store with
    | Ok ((fin, sd', a', store', evs), t) => stmt_postG sd a store fin sd' a' store' evs t
    | _ => False
    end.
  Proof.
    intros (Hne & Hctx & Hdiag). unfold process_stmt.
    destruct (a_exec a) as [|e rest] eqn:Ex; [congruence|]. clear Hne.
    inversion Hctx as [|? ? Hwfe Hrest]; subst.
    pose proof Hwfe as He. destruct He as ((s & Hs) & _). rewrite Hs.
    pose proof (wf_cur_stmt _ _ _ _ _ Hwfe Hs) as Hws.
    destruct s as [fmt|re|lit pmp smp ints|pmp smp ints|us|body|body|body|body].
    - assert (H : post1 sd a store (process_send compress now sd a store e rest fmt) None) by (apply send_props; auto).
      unfold post1 in H. destruct (process_send _ _ _ _ _ _ _ _) as [[[[[? ?] ?] ?] ?]| | | |]; cbn [omap bind]; exact H.
    - assert (H : post1 sd a store (process_expect rmatch now sd a store re) None) by (apply (expect_props now sd a store e rest); auto).
      unfold post1 in H. destruct (process_expect _ _ _ _ _ _) as [[[[[? ?] ?] ?] ?]| | | |]; cbn [omap bind]; try contradiction; exact H.
    - assert (H : post1 sd a store (process_setplugstate rmatch sd a store e lit pmp smp ints) None) by (apply (setplugstate_props sd a store e rest); auto).
      unfold post1 in H. destruct (process_setplugstate _ _ _ _ _ _ _ _ _) as [[[[[? ?] ?] ?] ?]| | | |]; cbn [omap bind]; try contradiction; exact H.
    - assert (H : post1 sd a store (process_setresult rmatch sd a store e pmp smp ints) None) by (apply (setresult_props sd a store e rest); auto).
      unfold post1 in H. destruct (process_setresult _ _ _ _ _ _ _ _) as [[[[[? ?] ?] ?] ?]| | | |]; cbn [omap bind]; try contradiction; exact H.
    - apply delay_props; auto.
    - assert (H : post1 sd a store (process_foreach sd a store e rest false body) None).
      { apply foreach_props; auto. eapply wf_body; [|exact Hws]; auto. }
      unfold post1 in H. destruct (process_foreach _ _ _ _ _ _ _) as [[[[[? ?] ?] ?] ?]| | | |]; cbn [omap bind]; try contradiction; exact H.
    - assert (H : post1 sd a store (process_foreach sd a store e rest true body) None).
      { apply foreach_props; auto. eapply wf_body; [|exact Hws]; auto. }
      unfold post1 in H. destruct (process_foreach _ _ _ _ _ _ _) as [[[[[? ?] ?] ?] ?]| | | |]; cbn [omap bind]; try contradiction; exact H.
    - assert (H : post1 sd a store (process_ifonoff sd a store e rest true body) None).
      { apply ifonoff_props; auto. eapply wf_body; [|exact Hws]; auto. }
      unfold post1 in H. destruct (process_ifonoff _ _ _ _ _ _ _) as [[[[[? ?] ?] ?] ?]| | | |]; cbn [omap bind]; try contradiction; exact H.
    - assert (H : post1 sd a store (process_ifonoff sd a store e rest false body) None).
      { apply ifonoff_props; auto. eapply wf_body; [|exact Hws]; auto 6. }
      unfold post1 in H. destruct (process_ifonoff _ _ _ _ _ _ _) as [[[[[? ?] ?] ?] ?]| | | |]; cbn [omap bind]; try contradiction; exact H.
  Qed.

  (* ---------- the do-while round ---------- *)
  Lemma do_while_propsG : forall fuel now sd a store acc tmo,
    wf_action (sd_plugs sd) a ->
    match do_while rmatch compress sc fuel now sd a store acc tmo with
    | Ok ((fin, sd', a', store', evs), t) =>
        exists evs1 t1, evs = acc ++ evs1 /\ t = min_tmo tmo t1 /\ stmt_postG sd a store fin sd' a' store' evs1 t1
    | Hang _ => True
    | _ => False
    end.
  Proof.
    induction fuel as [|f IH]; intros now sd a store acc tmo Hwf; cbn [do_while]; [exact I|].
    pose proof (process_stmt_propsG now sd a store Hwf) as H1.
    destruct (process_stmt rmatch compress sc now sd a store) as [[[[[[fin sd1] a1] st1] evs1] t1]| | | |]; try contradiction.
    destruct (Nat.ltb (length (a_exec a)) (length (a_exec a1))).
    - assert (Hwf1 : wf_action (sd_plugs sd1) a1) by (rewrite (sg_plugs _ _ _ _ _ _ _ _ _ H1); apply (sg_wf _ _ _ _ _ _ _ _ _ H1)).
      specialize (IH now sd1 a1 st1 (acc ++ evs1) (min_tmo tmo t1) Hwf1).
      destruct (do_while rmatch compress sc f now sd1 a1 st1 (acc ++ evs1) (min_tmo tmo t1)) as [[[[[[fin2 sd2] a2] st2] evs2] t2]| | | |]; try contradiction; [|exact I].
      destruct IH as (e2 & t2' & -> & -> & P2).
      exists (evs1 ++ e2), (min_tmo t1 t2'). split; [now rewrite app_assoc|]. split; [apply min_tmo_assoc|].
      eapply stmt_postG_trans; eassumption.
    - exists evs1, t1. auto.
  Qed.
End StmtG.
