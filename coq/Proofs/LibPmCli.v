(* C16: the reply loop of the powerman CLI -- no access outside xreadstr's string, exit status *)
From Coq Require Import List NArith ZArith Bool Lia.
From PM Require Import Base.Bytes Base.Outcome Gen.GenConsts Gen.GenLibPm Model.LibPm Spec.ReplySpec Proofs.LibPmBase.
Import ListNotations.
Local Open Scope Z_scope.

(* ------------------------------------------------------------------ xreadstr's allocation arithmetic *)
Lemma chunk_ge2 : 2 <= XREAD_CHUNKSIZE.
Proof. unfold XREAD_CHUNKSIZE. lia. Qed.

Lemma xread_arith size len : 0 <= len <= size ->
  ((if size - len - 1 <=? 0 then size + XREAD_CHUNKSIZE else size) <=? len + 1) = false /\
  0 <= len + 1 <= (if size - len - 1 <=? 0 then size + XREAD_CHUNKSIZE else size).
Proof.
  intros H. pose proof chunk_ge2. destruct (size - len - 1 <=? 0) eqn:E.
  - apply Z.leb_le in E. split; [apply Z.leb_gt|]; lia.
  - apply Z.leb_gt in E. split; [apply Z.leb_gt|]; lia.
Qed.

Definition nomem {A} (x : couts * cres A) : Prop := forall site, snd x <> CMem site.

Lemma process_line_text_nomem o raw : nomem (process_line_text o raw).
Proof.
  unfold nomem, process_line_text. intros site. destruct (4 <? zlen (cstr raw)); cbn [snd]; discriminate.
Qed.

Lemma process_line_text_terms o raw : o_terms (fst (process_line_text o raw)) = o_terms o.
Proof.
  unfold process_line_text. destruct (4 <? zlen (cstr raw)); cbn [fst]; [|reflexivity].
  destruct (memz _ cli_suppress); [reflexivity|]. destruct (memz _ cli_stderr); reflexivity.
Qed.

Lemma prg_nomem s : forall o size len prev acc, 0 <= len <= size -> nomem (process_response_go o size len prev acc s).
Proof.
  induction s as [|c s IH]; intros o size len prev acc H site; cbn [process_response_go]; [cbn; discriminate|].
  destruct (xread_arith size len H) as [E1 E2]. rewrite E1.
  destruct ((2 <=? len + 1) && beq prev CR && beq c LF).
  - pose proof (process_line_text_nomem o (frev (tl acc))) as N.
    destruct (process_line_text o (frev (tl acc))) as [o' [num|s1|s1]].
    + destruct (cp_alldone num); [cbn; discriminate|]. apply IH. lia.
    + cbn; discriminate.
    + exfalso. apply (N s1). reflexivity.
  - apply IH. exact E2.
Qed.

Lemma xreadstr_go_nomem s : forall size len prev acc, 0 <= len <= size -> forall site, xreadstr_go size len prev acc s <> CMem site.
Proof.
  induction s as [|c s IH]; intros size len prev acc H site; cbn [xreadstr_go]; [discriminate|].
  destruct (xread_arith size len H) as [E1 E2]. rewrite E1.
  destruct ((2 <=? len + 1) && beq prev CR && beq c LF); [discriminate|]. apply IH. exact E2.
Qed.

Lemma cbind_nomem {A B} (x : couts * cres A) (f : couts -> A -> couts * cres B) :
  nomem x -> (forall o a, nomem (f o a)) -> nomem (cbind x f).
Proof.
  intros Hx Hf. unfold cbind. destruct x as [o [a|s|s]].
  - apply Hf.
  - intros site. cbn. discriminate.
  - exfalso. apply (Hx s). reflexivity.
Qed.

Lemma expect_nomem o str s : nomem (clift o (expect str s)).
Proof.
  intros site. unfold clift, expect. cbn [snd]. destruct (split_exact (length str) s) as [[got rest]|]; [|discriminate].
  destruct (text_eqb (cstr got) str); discriminate.
Qed.

Lemma process_version_nomem o s : nomem (process_version o s).
Proof.
  intros site. unfold process_version, xreadstr.
  pose proof (xreadstr_go_nomem s 0 0 NUL [] ltac:(lia)) as N.
  destruct (xreadstr_go 0 0 NUL [] s) as [[raw rest]|s1|s1].
  - destruct (sscanf_s CP_VERSION (cstr raw)); cbn; discriminate.
  - cbn; discriminate.
  - exfalso. apply (N s1). reflexivity.
Qed.

Lemma request_nomem o s : nomem (request o s).
Proof.
  unfold request. apply cbind_nomem.
  - apply prg_nomem. lia.
  - intros o1 [res s1]. apply cbind_nomem; [apply expect_nomem|]. intros o2 s2 site. cbn. discriminate.
Qed.

Lemma requests_nomem n : forall o s, nomem (requests n o s).
Proof.
  induction n as [|n IH]; intros o s; cbn [requests]; [apply request_nomem|].
  apply cbind_nomem; [apply request_nomem|]. intros o1 [res s1]. destruct (res =? 0); [apply IH|]. intros site. cbn. discriminate.
Qed.

(* the CLI never touches memory outside its objects and always terminates with an exit status *)
Lemma cli_total npre stream : exists r, cli npre stream = Ok r.
Proof.
  unfold cli.
  match goal with |- exists r, finish ?x = Ok r => assert (N : nomem x) end.
  { apply cbind_nomem; [apply process_version_nomem|]. intros o s0.
    apply cbind_nomem; [apply expect_nomem|]. intros o1 s1.
    apply cbind_nomem; [apply requests_nomem|]. intros o2 [res s2].
    apply cbind_nomem; [apply expect_nomem|]. intros o3 s3 site. cbn. discriminate. }
  match goal with |- exists r, finish ?x = Ok r => destruct x as [o [st|s|s]] end; cbn [finish]; eauto.
  exfalso. apply (N s). reflexivity.
Qed.

(* ------------------------------------------------------------------ exit status *)
Definition resp_post (o o' : couts) (res : Z) : Prop :=
  exists k, o_terms o' = k :: o_terms o /\ cp_alldone k = true /\ res = (if cp_failure k then k else 0).

Lemma prg_terms s : forall o size len prev acc o' res rest,
  process_response_go o size len prev acc s = (o', CRet (res, rest)) -> resp_post o o' res.
Proof.
  induction s as [|c s IH]; intros o size len prev acc o' res rest H; cbn [process_response_go] in H; [discriminate|].
  destruct ((if size - len - 1 <=? 0 then size + XREAD_CHUNKSIZE else size) <=? len + 1); [discriminate|].
  destruct ((2 <=? len + 1) && beq prev CR && beq c LF).
  - pose proof (process_line_text_terms o (frev (tl acc))) as T.
    destruct (process_line_text o (frev (tl acc))) as [o1 [num|s1|s1]]; try discriminate. cbn [fst] in T.
    destruct (cp_alldone num) eqn:A.
    + inversion H; subst. exists num. cbn [put_term o_terms]. rewrite T. auto.
    + apply IH in H. destruct H as (k & H1 & H2 & H3). exists k. rewrite H1, T. auto.
  - apply IH in H. exact H.
Qed.

Lemma expect_terms o str s o' rest : clift o (expect str s) = (o', CRet rest) -> o' = o.
Proof. unfold clift. intros H. inversion H. reflexivity. Qed.

Lemma request_terms o s o' res rest : request o s = (o', CRet (res, rest)) -> resp_post o o' res.
Proof.
  unfold request, process_response. intros H.
  destruct (process_response_go o 0 0 NUL [] s) as [o1 [[res1 s1]|s1|s1]] eqn:E; cbn [cbind] in H; try discriminate.
  apply prg_terms in E. unfold clift in H. destruct (expect CP_PROMPT s1); cbn [cbind] in H; try discriminate.
  inversion H; subst. exact E.
Qed.

Definition nofail (k : Z) : Prop := cp_alldone k = true /\ cp_failure k = false.

Lemma requests_terms n : forall o s o' res rest, requests n o s = (o', CRet (res, rest)) ->
  exists k ks, o_terms o' = k :: ks ++ o_terms o /\ cp_alldone k = true /\ res = (if cp_failure k then k else 0) /\ Forall nofail ks.
Proof.
  induction n as [|n IH]; intros o s o' res rest H; cbn [requests] in H.
  - apply request_terms in H as (k & H1 & H2 & H3). exists k, []. cbn [app]. auto.
  - destruct (request o s) as [o1 [[res1 s1]|s1|s1]] eqn:E; cbn [cbind] in H; try discriminate.
    apply request_terms in E as (k1 & E1 & E2 & E3).
    destruct (res1 =? 0) eqn:Z0.
    + apply IH in H as (k & ks & H1 & H2 & H3 & H4). exists k, (ks ++ [k1]). rewrite H1, E1, <- app_assoc. cbn [app].
      split; [reflexivity|]. split; [auto|]. split; [auto|]. apply Forall_app. split; [auto|]. constructor; [|constructor].
      split; [auto|]. apply Z.eqb_eq in Z0. destruct (cp_failure k1) eqn:F; [|reflexivity].
      unfold cp_failure in F. apply andb_true_iff in F as [F _]. apply Z.leb_le in F. unfold cp_failure_lo in F. lia.
    + inversion H; subst. exists k1, []. cbn [app]. auto.
Qed.

Lemma class_adjacent k : cp_alldone k = true -> cp_failure k = false -> cp_success k = true.
Proof.
  unfold cp_alldone, cp_failure, cp_success, cp_success_lo, cp_success_hi, cp_failure_lo, cp_failure_hi.
  rewrite !andb_true_iff, andb_false_iff, !Z.leb_le, !Z.leb_gt. lia.
Qed.

Lemma class_disjoint k : cp_success k = true -> cp_failure k = false.
Proof.
  unfold cp_failure, cp_success, cp_success_lo, cp_success_hi, cp_failure_lo, cp_failure_hi.
  rewrite !andb_true_iff, andb_false_iff, !Z.leb_le, !Z.leb_gt. lia.
Qed.

Lemma exit_status_zero k : cp_alldone k = true ->
  (exit_status (if cp_failure k then k else 0) = 0 <-> cp_success k = true).
Proof.
  intros A. destruct (cp_failure k) eqn:F.
  - split.
    + unfold exit_status. unfold cp_failure, cp_failure_lo, cp_failure_hi in F. apply andb_true_iff in F as [F1 F2].
      apply Z.leb_le in F1, F2. destruct (k =? 0) eqn:K0; [apply Z.eqb_eq in K0; lia|]. cbn [negb andb].
      destruct (k mod 256 =? 0) eqn:M; [discriminate|]. apply Z.eqb_neq in M. intros; contradiction.
    + intros S. apply class_disjoint in S. congruence.
  - split; [intros _; apply class_adjacent; auto|reflexivity].
Qed.

(* the terminal codes read, in order: all but the last are successes (a failing option command ends the run), and
   the exit status is 0 exactly when the last one is a success too *)
Lemma cli_exit_general npre stream r : cli npre stream = Ok r ->
  (c_fatal r <> None -> c_status r = 1) /\
  (c_fatal r = None -> exists ks k, c_terms r = ks ++ [k] /\ Forall (fun x => cp_success x = true) ks /\
                                   cp_alldone k = true /\ (c_status r = 0 <-> cp_success k = true)).
Proof.
  unfold cli. intros H.
  destruct (process_version o_empty stream) as [o0 [s0|x|x]] eqn:E0; cbn [cbind finish] in H;
    [|inversion H; subst; cbn; split; [reflexivity|intros; discriminate]|discriminate].
  assert (T0 : o_terms o0 = []).
  { unfold process_version in E0. destruct (xreadstr stream) as [[raw rest]|x|x]; try discriminate.
    destruct (sscanf_s CP_VERSION (cstr raw)); [|discriminate]. inversion E0; subst. destruct (text_eqb t PACKAGE_VERSION); reflexivity. }
  unfold clift at 1 in H. destruct (expect CP_PROMPT s0) as [s1|x|x]; cbn [cbind finish] in H;
    [|inversion H; subst; cbn; split; [reflexivity|intros; discriminate]|discriminate].
  destruct (requests npre o0 s1) as [o2 [[res s2]|x|x]] eqn:E2; cbn [cbind finish] in H;
    [|inversion H; subst; cbn; split; [reflexivity|intros; discriminate]|discriminate].
  apply requests_terms in E2 as (k & ks & H1 & H2 & H3 & H4).
  unfold clift in H. destruct (expect CP_RSP_QUIT s2) as [s3|x|x]; cbn [cbind finish] in H;
    [|inversion H; subst; cbn; split; [reflexivity|intros; discriminate]|discriminate].
  inversion H; subst r; clear H. cbn [c_fatal c_status c_terms]. split; [congruence|]. intros _.
  exists (rev ks), k. rewrite frev_rev, H1, T0, app_nil_r. cbn [rev]. split; [reflexivity|].
  split.
  - apply Forall_rev. eapply Forall_impl; [|exact H4]. intros x [A B]. apply class_adjacent; auto.
  - split; [exact H2|]. rewrite H3. apply exit_status_zero. exact H2.
Qed.

Lemma cli_exit_iff npre stream r : cli npre stream = Ok r ->
  (c_status r = 0 <-> c_fatal r = None /\ c_terms r <> [] /\ Forall (fun k => cp_success k = true) (c_terms r)).
Proof.
  intros H. destruct (cli_exit_general npre stream r H) as [F N]. split.
  - intros S. destruct (c_fatal r) eqn:E; [specialize (F ltac:(discriminate)); lia|].
    destruct (N eq_refl) as (ks & k & T & A & B & C). split; [reflexivity|]. rewrite T. split.
    + intros X. apply app_eq_nil in X as [_ X]. discriminate.
    + apply Forall_app. split; [exact A|]. constructor; [|constructor]. apply C. exact S.
  - intros (E & _ & A). destruct (N E) as (ks & k & T & _ & _ & C). apply C. rewrite T in A. apply Forall_app in A as [_ A].
    inversion A; auto.
Qed.
