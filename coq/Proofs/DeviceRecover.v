(* C12_recovery_partial: there is no absorbing failed state in the device layer.  From a not-connected device with an empty queue whose
   back-off gate is open, a connect that succeeds puts the login action in front; when the peer answers the login script's expect
   (hypothesis on the regex oracle) the device is logged in; a client action enqueued afterwards whose peer answers its expect completes
   with ACT_ESUCCESS.
   PARTIAL: proved for a login script and a client script that consist of ONE `expect` statement, no ping configured, no preprocess
   method; general scripts (send / expect sequences, blocks) need a symbolic execution lemma over script positions that is not done. *)
From Coq Require Import List NArith ZArith Bool Lia.
From PM Require Import Base.Bytes Base.Outcome Base.Dec Gen.GenConsts Gen.GenCbuf Model.ScriptAst Model.Enqueue Model.Script Model.Device
  Proofs.DeviceProofs Proofs.DeviceStmt Proofs.DeviceInv.
Import ListNotations.
Local Open Scope Z_scope.

Lemma lastn_short {A} n (l : list A) : (length l <= n)%nat -> lastn n l = l.
Proof. intros H. unfold lastn. replace (length l - n)%nat with O by lia. reflexivity. Qed.

Section Recover.
  Variable rmatch : text -> text -> option pmatch.
  Variable compress : list text -> text.
  Variable sc : bool.

  (* an action whose only remaining statement is `expect re` *)
  Definition last_expect (a : action) (re : text) : Prop :=
    exists e, a_exec a = [e] /\ c_block e = [Expect re] /\ c_pos e = O.

  Lemma create_action_last_expect re com plugs client hascb tele hasdiag args :
    last_expect (create_action [Expect re] com plugs client hascb tele hasdiag args) re.
  Proof. eexists. split; [reflexivity|]. split; reflexivity. Qed.

  (* the peer's bytes make the expect match (whatever it captures), and the match ends where the bytes end (a prompt) *)
  Definition answers (re b : text) : Prop :=
    b <> [] /\ (length b <= Z.to_nat MAX_DEV_BUF)%nat /\ exists pm so, rmatch re (nul_to_ff b) = Some pm /\ nth_error pm 0 = Some (Some (so, length b)).

  Lemma do_while_expect_empty f now sd a store re : last_expect a re -> sd_from sd = [] ->
    do_while rmatch compress sc (S f) now sd a store [] None = Ok ((false, set_xm None false sd, a, store, []), None).
  Proof.
    intros (e & Ex & Eb & Ep) Ef. cbn [do_while]. unfold process_stmt. rewrite Ex. unfold cur. rewrite Eb, Ep. cbn [nth_error].
    unfold process_expect. cbn [sd_from set_xm]. rewrite Ef. cbn [omap bind]. rewrite Ex, Nat.ltb_irrefl. reflexivity.
  Qed.

  Lemma do_while_expect_match f now sd a store re b : last_expect a re -> sd_from sd = b -> answers re b ->
    exists sd' evs, do_while rmatch compress sc (S f) now sd a store [] None = Ok ((true, sd', a, store, evs), None) /\
      forallb ev_script evs = true /\ sd_name sd' = sd_name sd /\ sd_plugs sd' = sd_plugs sd /\ sd_from sd' = [].
  Proof.
    intros (e & Ex & Eb & Ep) Ef (Hne & _ & pm & so & Hm & H0). cbn [do_while]. unfold process_stmt. rewrite Ex. unfold cur. rewrite Eb, Ep. cbn [nth_error].
    unfold process_expect. cbn [sd_from set_xm]. rewrite Ef. destruct b as [|b0 br]; [congruence|]. rewrite Hm, H0. cbn [omap bind]. rewrite Ex, Nat.ltb_irrefl.
    eexists _, _. split; [reflexivity|]. split; [|split; [reflexivity|split; [reflexivity|]]].
    - cbn [app forallb ev_script andb]. unfold tele. destruct (a_tele a); reflexivity.
    - cbn [sd_from set_xm set_from]. apply skipn_all.
  Qed.

  Lemma advance_last_expect a re : last_expect a re -> a_exec (advance a) = [] /\ a_com (advance a) = a_com a /\ a_hascb (advance a) = a_hascb a /\
    a_client (advance a) = a_client a /\ a_err (advance a) = a_err a.
  Proof. intros (e & Ex & Eb & Ep). unfold advance. rewrite Ex. unfold cur. cbn [c_block c_pos set_pos]. rewrite Eb, Ep. cbn [nth_error]. repeat split. Qed.

  Lemma process_action_S f now d store tmo plans acc :
    process_action rmatch compress sc (S f) now d store tmo plans acc =
    match pa_step rmatch compress sc now d store tmo plans with
    | Ok (PaDone d' store' tmo' pl' evs) => Ok (d', store', tmo', pl', acc ++ evs)
    | Ok (PaNext d' store' tmo' evs) => process_action rmatch compress sc f now d' store' tmo' plans (acc ++ evs)
    | Exit c s => Exit c s | Abort s => Abort s | MemErr s => MemErr s | Hang s => Hang s
    end.
  Proof. reflexivity. Qed.
  Lemma fuel_SS d : pa_fuel d = S (S (psi d)).
  Proof. reflexivity. Qed.

  Lemma ping_off now d tmo : dv_ping_period d = 0 -> enqueue_ping now d tmo = (d, tmo).
  Proof. intros H. unfold enqueue_ping. destruct (assoc_script PM_PING (dv_scripts d)); [|reflexivity]. now rewrite H. Qed.

  (* ---------- pass 1: the connect succeeds, the login waits for the peer ---------- *)
  Lemma pass_connects now d store tmo pin re pl :
    DInv compress d -> dv_cstate d = DEV_NOT_CONNECTED -> dv_acts d = [] -> sd_from (dv d) = [] ->
    (dv_retry_count d <= 0 \/ dv_last_retry d + backoff (dv_retry_count d) <= now) ->
    pi_plans pin = ConnNow :: pl -> dv_ping_period d = 0 -> 0 < dv_timeout d ->
    assoc_script PM_LOG_IN (dv_scripts d) = Some [Expect re] ->
    exists d1 tmo1, post_poll_one rmatch compress sc now d store tmo pin = Ok (d1, store, tmo1, [EvConnect]) /\
      dv_cstate d1 = DEV_CONNECTED /\ dv_has_fd d1 = true /\ dv_logged_in d1 = false /\ sd_from (dv d1) = [] /\
      (exists a, dv_acts d1 = [a] /\ last_expect a re /\ a_com a = PM_LOG_IN /\ a_stamp a = Some now /\ a_err a = ACT_ESUCCESS /\ a_hascb a = false) /\
      dv_scripts d1 = dv_scripts d /\ dv_timeout d1 = dv_timeout d /\ dv_ping_period d1 = dv_ping_period d /\ dv_retry_count d1 = dv_retry_count d + 1.
  Proof.
    intros I Hc Ha Hf Hg Hpl Hpp Hto Hs. unfold post_poll_one.
    assert (Hfd : dv_has_fd d = false) by (apply (di_fd _ d I); exact Hc).
    rewrite Hfd. cbn [andb]. rewrite Hc. cbn [orb Z.eqb DEV_NOT_CONNECTED].
    replace (false || true) with true by reflexivity.
    unfold reconnect. rewrite Hc. cbn [Z.eqb DEV_NOT_CONNECTED].
    assert (Hgo : forall t, time_to_reconnect now d t = (true, t)).
    { intros t. unfold time_to_reconnect. destruct (0 <? dv_retry_count d) eqn:E0; [|reflexivity].
      apply Z.ltb_lt in E0. destruct Hg as [Hg|Hg]; [lia|]. apply Z.leb_le in Hg. now rewrite Hg. }
    rewrite Hgo. unfold connect. rewrite Hfd, Hc. cbn [orb negb Z.eqb DEV_NOT_CONNECTED]. rewrite Hpl.
    unfold enqueue_login. cbn [dv_scripts set_stats set_conn set_retry dv_acts]. rewrite Hs, Ha.
    cbn [app]. unfold connected at 1. cbn [dv_cstate set_acts set_stats set_conn]. cbn [Z.eqb Pos.eqb DEV_CONNECTED].
    rewrite ping_off by exact Hpp. cbn [Pos.eqb]. cbv beta iota.
    rewrite fuel_SS, process_action_S. unfold pa_step. cbn [dv_acts set_acts]. cbn [a_exec create_action a_stamp].
    cbn [dv_timeout set_acts set_stats set_conn set_retry].
    destruct (now + dv_timeout d <=? now) eqn:El; [apply Z.leb_le in El; lia|].
    unfold connected. cbn [dv_cstate set_acts set_stats set_conn]. cbn [Z.eqb Pos.eqb DEV_CONNECTED negb].
    rewrite (do_while_expect_empty 7 now _ _ store re); [| |exact Hf].
    2:{ eexists. split; [reflexivity|]. split; reflexivity. }
    cbn [negb]. eexists _, _. split; [reflexivity|].
    cbn [dv_cstate dv_has_fd dv_logged_in dv dv_acts dv_scripts dv_timeout dv_ping_period dv_retry_count set_acts upd_sdev set_stats set_conn set_retry sd_from set_xm].
    repeat split; auto. eexists. split; [reflexivity|]. split; [eexists; split; [reflexivity|split; reflexivity]|]. repeat split.
  Qed.

  (* ---------- a pass in which the peer answers the head action's (last) expect ---------- *)
  Lemma pass_expect_completes now d store tmo pin a re b s :
    dv_cstate d = DEV_CONNECTED -> dv_has_fd d = true -> dv_acts d = [a] -> last_expect a re -> a_err a = ACT_ESUCCESS ->
    sd_from (dv d) = [] -> dv_ping_period d = 0 ->
    (a_stamp a = Some s \/ (a_stamp a = None /\ s = now)) -> now < s + dv_timeout d ->
    pi_hup pin = false -> pi_err pin = false -> pi_nval pin = false -> pi_out pin = false -> pi_in pin = true ->
    pi_read pin = Some b -> pi_pre pin = None -> answers re b ->
    exists d' tmo' evs, post_poll_one rmatch compress sc now d store tmo pin = Ok (d', store, tmo', evs) /\
      dv_acts d' = [] /\ dv_cstate d' = DEV_CONNECTED /\ dv_has_fd d' = true /\
      (dv_logged_in d' = true <-> (a_com a = PM_LOG_IN \/ dv_logged_in d = true)) /\
      (a_hascb a = true -> In (EvComplete (a_client a) ACT_ESUCCESS []) evs) /\
      dv_scripts d' = dv_scripts d /\ dv_timeout d' = dv_timeout d /\ dv_ping_period d' = dv_ping_period d /\
      sd_plugs (dv d') = sd_plugs (dv d) /\ sd_name (dv d') = sd_name (dv d) /\ sd_from (dv d') = [] /\ dv_retry_count d' = dv_retry_count d /\ dv_last_retry d' = dv_last_retry d.
  Proof.
    intros Hc Hfd Ha Hle Herr Hf Hpp Hst Hdl F1 F2 F3 F4 F5 Hrd Hpre Hans. unfold post_poll_one.
    rewrite Hfd. unfold any_flag. rewrite F1, F2, F3, F4, F5. cbn [andb orb].
    unfold handle_ready. rewrite Hc, Hfd, F1, F2, F3, F4, F5, Hrd, Hpre. cbn [Z.eqb Pos.eqb DEV_CONNECTED DEV_NOT_CONNECTED negb orb].
    destruct Hans as (Hne & Hlen & Hm). destruct b as [|b0 br]; [congruence|].
    cbn [dv_cstate upd_sdev set_from_size]. rewrite Hc. cbn [Z.eqb Pos.eqb DEV_CONNECTED DEV_NOT_CONNECTED orb].
    unfold connected at 1. cbn [dv_cstate upd_sdev set_from_size]. rewrite Hc. cbn [Z.eqb Pos.eqb DEV_CONNECTED].
    rewrite ping_off by exact Hpp. cbn [Pos.eqb]. cbv beta iota.
    rewrite fuel_SS, process_action_S. unfold pa_step. cbn [dv_acts upd_sdev set_from_size]. rewrite Ha.
    destruct Hle as (e & Ex & Eb & Ep). rewrite Ex.
    set (stamp := match a_stamp a with Some t => t | None => now end).
    assert (Hs : stamp = s) by (unfold stamp; destruct Hst as [->|[-> ->]]; reflexivity).
    cbn [dv_timeout upd_sdev set_from_size]. rewrite Hs.
    destruct (s + dv_timeout d <=? now) eqn:El; [apply Z.leb_le in El; lia|].
    unfold connected. cbn [dv_cstate upd_sdev set_from_size]. rewrite Hc. cbn [Z.eqb Pos.eqb DEV_CONNECTED negb].
    cbn [dv upd_sdev set_from_size]. rewrite Hf. cbn [app].
    rewrite (lastn_short _ (b0 :: br) Hlen).
    destruct (do_while_expect_match 7 now (set_from (b0 :: br) (dv d)) (set_stamp (Some s) a) store re (b0 :: br)) as (sd' & evs & Ed & Hev & Hn & Hp & Hfr).
    { exists e. split; [exact Ex|]. split; assumption. }
    { reflexivity. }
    { split; [discriminate|]. split; [exact Hlen|exact Hm]. }
    rewrite Ed. cbn [negb]. cbn [a_err set_stamp]. rewrite Herr. cbn [Z.eqb ACT_ESUCCESS].
    destruct (advance_last_expect (set_stamp (Some s) a) re) as (A1 & A2 & A3 & A4 & A5); [exists e; split; [exact Ex|split; assumption]|].
    rewrite A1, A2. cbn [a_com set_stamp]. cbv beta iota.
    rewrite process_action_S.
    set (d1 := upd_sdev (fun _ => sd') _).
    set (d2 := if Z.eqb (a_com a) PM_LOG_IN then _ else d1).
    unfold pa_step. cbn [dv_acts set_stats set_acts].
    eexists _, _, _. split; [reflexivity|].
    assert (Hd2 : dv_cstate d2 = DEV_CONNECTED /\ dv_has_fd d2 = true /\ dv_scripts d2 = dv_scripts d /\ dv_timeout d2 = dv_timeout d /\ dv_ping_period d2 = dv_ping_period d /\
                  dv d2 = sd' /\ dv_retry_count d2 = dv_retry_count d /\ dv_last_retry d2 = dv_last_retry d /\ (dv_logged_in d2 = true <-> (a_com a = PM_LOG_IN \/ dv_logged_in d = true))).
    { unfold d2, d1. destruct (Z.eqb (a_com a) PM_LOG_IN) eqn:E;
        cbn [dv_cstate dv_has_fd dv_scripts dv_timeout dv_ping_period dv dv_logged_in dv_retry_count dv_last_retry set_conn upd_sdev set_from_size]; rewrite ?Hc, ?Hfd;
        repeat (split; [reflexivity|]).
      - apply Z.eqb_eq in E. split; auto.
      - apply Z.eqb_neq in E. split; [intros H; right; exact H|intros [H|H]; [contradiction|exact H]]. }
    destruct Hd2 as (B1 & B2 & B3 & B4 & B5 & B6 & B8 & B9 & B7).
    cbn [dv_acts dv_cstate dv_has_fd dv_logged_in dv_scripts dv_timeout dv_ping_period dv dv_retry_count dv_last_retry set_stats set_acts].
    split; [reflexivity|]. split; [exact B1|]. split; [exact B2|]. split; [exact B7|]. split.
    - intros Hcb. rewrite ?app_nil_r. right. apply in_or_app. right. unfold complete. rewrite A3. cbn [a_hascb set_stamp]. rewrite Hcb.
      rewrite A4, A5. cbn [a_client a_err set_stamp]. rewrite Herr. left. reflexivity.
    - rewrite B6. repeat split; auto.
  Qed.

  Definition reads (pin : passin) (b : text) : Prop :=
    pi_hup pin = false /\ pi_err pin = false /\ pi_nval pin = false /\ pi_out pin = false /\ pi_in pin = true /\ pi_read pin = Some b /\ pi_pre pin = None.

  (* ---------- the three passes in a row ---------- *)
  Theorem recovery_partial now1 now2 now3 d store tmo1 tmo2 tmo3 pin1 pin2 pin3 re re2 b b2 pl q client tele args :
    DInv compress d -> dv_cstate d = DEV_NOT_CONNECTED -> dv_acts d = [] -> sd_from (dv d) = [] ->
    (dv_retry_count d <= 0 \/ dv_last_retry d + backoff (dv_retry_count d) <= now1) ->
    dv_ping_period d = 0 -> 0 < dv_timeout d ->
    assoc_script PM_LOG_IN (dv_scripts d) = Some [Expect re] -> assoc_script (qa_com q) (dv_scripts d) = Some [Expect re2] ->
    pi_plans pin1 = ConnNow :: pl ->                                  (* the connect succeeds at once *)
    now2 < now1 + dv_timeout d -> reads pin2 b -> answers re b ->     (* the peer answers the login's expect before the login time-out *)
    reads pin3 b2 -> answers re2 b2 ->                                (* ... and the client script's expect *)
    exists d1 t1 d2 t2 e2 d2' d3 t3 e3,
      post_poll_one rmatch compress sc now1 d store tmo1 pin1 = Ok (d1, store, t1, [EvConnect]) /\
      post_poll_one rmatch compress sc now2 d1 store tmo2 pin2 = Ok (d2, store, t2, e2) /\
      dv_cstate d2 = DEV_CONNECTED /\ dv_logged_in d2 = true /\ dv_acts d2 = [] /\
      append_client_action d2 q client tele args = Ok d2' /\
      post_poll_one rmatch compress sc now3 d2' store tmo3 pin3 = Ok (d3, store, t3, e3) /\
      In (EvComplete client ACT_ESUCCESS []) e3 /\ dv_acts d3 = [] /\ dv_logged_in d3 = true /\
      dv_retry_count d3 = dv_retry_count d + 1.
  Proof.
    intros I Hc Ha Hf Hg Hpp Hto Hs Hs2 Hpl Hdl (R1 & R2 & R3 & R4 & R5 & R6 & R7) An (Q1 & Q2 & Q3 & Q4 & Q5 & Q6 & Q7) An2.
    destruct (pass_connects now1 d store tmo1 pin1 re pl I Hc Ha Hf Hg Hpl Hpp Hto Hs)
      as (d1 & t1 & E1 & C1 & F1 & L1 & Fr1 & (a & Ha1 & Hle & Hcom & Hst & Herr & Hcb) & S1 & T1 & P1 & N1).
    destruct (pass_expect_completes now2 d1 store tmo2 pin2 a re b now1 C1 F1 Ha1 Hle Herr Fr1 ltac:(rewrite P1; exact Hpp) (or_introl Hst) ltac:(rewrite T1; exact Hdl)
                R1 R2 R3 R4 R5 R6 R7 An)
      as (d2 & t2 & e2 & E2 & A2 & C2 & F2 & L2 & _ & S2 & T2 & P2 & _ & _ & Fr2 & N2 & _).
    assert (Hli2 : dv_logged_in d2 = true) by (apply L2; left; exact Hcom).
    set (a3 := create_action [Expect re2] (qa_com q) (qa_plugs q) client true tele true (Some args)).
    assert (E3 : append_client_action d2 q client tele args = Ok (set_acts [a3] d2)).
    { unfold append_client_action. rewrite S2, S1, Hs2, A2. reflexivity. }
    destruct (pass_expect_completes now3 (set_acts [a3] d2) store tmo3 pin3 a3 re2 b2 now3) as (d3 & t3 & e3 & E4 & A4 & C4 & F4 & L4 & Hdone & _ & _ & _ & _ & _ & _ & N4 & _);
      try assumption; try reflexivity.
    - apply create_action_last_expect.
    - cbn [dv_ping_period set_acts]. rewrite P2, P1. exact Hpp.
    - right. split; reflexivity.
    - cbn [dv_timeout set_acts]. rewrite T2, T1. lia.
    - exists d1, t1, d2, t2, e2, (set_acts [a3] d2), d3, t3, e3.
      split; [exact E1|]. split; [exact E2|]. split; [exact C2|]. split; [exact Hli2|]. split; [exact A2|]. split; [exact E3|]. split; [exact E4|].
      split; [apply Hdone; reflexivity|]. split; [exact A4|]. split; [apply L4; right; exact Hli2|].
      rewrite N4. cbn [dv_retry_count set_acts]. rewrite N2. exact N1.
  Qed.
End Recover.
