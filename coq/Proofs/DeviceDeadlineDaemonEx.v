(* Non-vacuity of Proofs/DaemonDeadline.v: the daemon of Properties/C04.v's example (one coprocess device C07.ex_dev, time-out 5 s).
   A client connects (round 1 s), sends `on n1` (1.1 s), the device stays silent; in the round at 7 s the login action - head of
   the device queue, stamped 1 s - is past its deadline and the pass keeps the queue: the hypotheses of dstep_deadline hold, and
   the theorem (not an evaluation) gives: client 1 has no command in progress and one terminal reply per request line. *)
From Coq Require Import List NArith ZArith Bool Lia.
From PM Require Import Base.Bytes Base.Outcome Gen.GenConsts Model.ScriptAst Model.Enqueue Model.Script Model.Device Model.DevHarness
                       Model.Client Model.CliWorld Model.Daemon Spec.Proto
                       Proofs.ClientProto Proofs.ClientStream Proofs.DeviceInv Proofs.DeviceRun Proofs.DeviceInvG Proofs.DeviceRunG Proofs.DeviceHang Proofs.DaemonLedger Proofs.DaemonFrame
                       Proofs.DaemonPending Proofs.DeviceMask Proofs.DeviceDeadline Proofs.DaemonDeadline.
From PM Require Properties.C07.
Import ListNotations.
Local Open Scope Z_scope.

Definition ex_st : daemon :=
  mkDaemon [bslit "n1"] [] [bslit "spec"] [true] [C07.ex_dev] [] 1 [] (bslit "2.4") [Telnet.telnet_init].
Lemma ex_boot : boot C07.ex_compress ex_st.
Proof.
  split; [reflexivity|]. split; [reflexivity|]. constructor; [|constructor].
  destruct (mk_device_invH C07.ex_compress (bslit "d0") [mkPlug (bslit "p1") (Some (bslit "n1"))]
             [(PM_LOG_IN, [Send (bslit "login\n"); Expect (bslit "ok")]); (PM_POWER_ON, [Send (bslit "on %s\n"); Expect (bslit "done")])] 5000000 0
             C07.C07_cfg_ok_example (proj1 C07.C07_nest_ok_example)) as [H1 H2].
  split; [exact H1|]. split; [exact H2|]. split; reflexivity.
Qed.
Definition ex_expand (t : text) : option (list text) := Some [t].
Definition ex_join (l : list text) : text := concat l.
Notation xstep := (dstep ex_expand ex_join ex_join (fun l => l) C07.ex_rmatch C07.ex_compress false).
Notation xinv := (dstep_inv ex_expand ex_join ex_join (fun l => l) C07.ex_rmatch C07.ex_compress false).

Definition r1 : round := mkRound 1000000 true [] [].
Definition r2 : round := mkRound 1100000 false [mkCin false true false (Some (bslit "on n1" ++ [LF])) None] [].
Definition r3 : round := mkRound 1200000 false [] [].
Definition r4 : round := mkRound 7000000 false [] [].

Definition s0 : daemon := Eval vm_compute in match dinit ex_st 1000000 [[ConnNow; ConnNow; ConnNow]] with Ok (s, _) => s | _ => ex_st end.
Definition s1 : daemon := Eval vm_compute in match xstep s0 r1 with Ok (s, _) => s | _ => ex_st end.
Definition s2 : daemon := Eval vm_compute in match xstep s1 r2 with Ok (s, _) => s | _ => ex_st end.
Definition s3 : daemon := Eval vm_compute in match xstep s2 r3 with Ok (s, _) => s | _ => ex_st end.

Lemma s0_inv : DPInv C07.ex_compress s0 /\ NL s0 /\ dm_seq s0 = 1.
Proof.
  destruct (dinit_inv C07.ex_compress ex_st 1000000 [[ConnNow; ConnNow; ConnNow]] ex_boot) as (st1 & o & E & I1 & S1 & _ & C1 & _).
  vm_compute in E. injection E as <- _. split; [exact I1|]. split; [|reflexivity]. intros p x Hx. destruct p; discriminate Hx.
Qed.
Ltac step_inv H r :=
  let HS := fresh "HS" in
  pose proof (xinv _ r (proj1 H) (proj1 (proj2 H)) ltac:(rewrite (proj2 (proj2 H)); unfold INT_MAX; lia)) as HS;
  match type of HS with match ?e with _ => _ end => let E := fresh "E" in let v := eval vm_compute in e in assert (E : e = v) by (vm_compute; reflexivity); rewrite E in HS end;
  destruct HS as (I' & N' & _); split; [exact I'|split; [exact N'|reflexivity]].
Lemma s1_inv : DPInv C07.ex_compress s1 /\ NL s1 /\ dm_seq s1 = 2.
Proof. step_inv s0_inv r1. Qed.
Lemma s2_inv : DPInv C07.ex_compress s2 /\ NL s2 /\ dm_seq s2 = 2.
Proof. step_inv s1_inv r2. Qed.
Lemma s3_inv : DPInv C07.ex_compress s3 /\ NL s3 /\ dm_seq s3 = 2.
Proof. step_inv s2_inv r3. Qed.

(* before the round at 7 s: client 1 is busy, its action is queued behind the login stamped 1 s *)
Lemma s3_shape :
  map (fun x => (cid x, busy (dc x), dc_lines x)) (dm_clients s3) = [(1, true, 1%nat)] /\
  map (fun d => (queued d, map (fun a => (a_com a, a_stamp a)) (dv_acts d), dv_timeout d)) (dm_devs s3)
    = [([1], [(PM_LOG_IN, Some 1000000); (PM_POWER_ON, None)], 5000000)].
Proof. vm_compute. split; reflexivity. Qed.

Lemma s3_due : forall st1 e1, cli_post_poll ex_expand ex_join ex_join (fun l => l) s3 r4 = Ok (st1, e1) -> due 7000000 st1 (r_dev r4) 0 1.
Proof.
  intros st1 e1 E. vm_compute in E. injection E as <- _.
  intros j d _ Hn Hin. destruct j as [|j]; [|destruct j; discriminate Hn]. cbn [nth_error dm_devs] in Hn. injection Hn as <-.
  split.
  - eexists _, _. split; [vm_compute; reflexivity|vm_compute; discriminate].
  - intros t Ht. eexists _, _, _, _, []. split; [vm_compute; reflexivity|]. split; [apply pings_nil|vm_compute; reflexivity].
Qed.

Example dstep_deadline_example :
  match xstep s3 r4 with
  | Ok (st', _) => ~ In 1 (qall (dm_devs st')) /\ answered st' 1 /\ map (fun x => (cid x, dc_lines x)) (dm_clients st') = [(1, 1%nat)]
  | _ => False
  end.
Proof.
  pose proof (dstep_deadline ex_expand ex_join ex_join (fun l => l) C07.ex_rmatch C07.ex_compress false s3 r4 1
                (proj1 s3_inv) (proj1 (proj2 s3_inv)) ltac:(rewrite (proj2 (proj2 s3_inv)); unfold INT_MAX; lia) s3_due) as H.
  destruct (xstep s3 r4) as [[st' o]| | | |] eqn:E; try contradiction.
  destruct H as (_ & Q & A). split; [exact Q|]. split; [exact A|]. vm_compute in E. injection E as <- _. reflexivity.
Qed.
