(* C06 / C15 side conditions of the client layer:
   - the word sscanf("%s") copies into arg1[] fits (bounded-buffer obligation of _parse_input),
   - every line gets exactly one terminal reply (or is queued and gets it at the last completion),
   - the texts the device layer hands to the client callbacks contain no CR / LF. *)
From Coq Require Import List NArith ZArith Bool Lia.
From PM Require Import Base.Bytes Base.Outcome Base.Dec Gen.GenConsts Gen.GenClient Model.ScriptAst Model.Enqueue Model.Script Model.Client Model.CliWorld
                       Spec.Proto Proofs.ClientProto Proofs.ClientProofs Proofs.ClientStream.
Import ListNotations.
Local Open Scope Z_scope.

(* ---------- the declarations of the current client.c ---------- *)
Lemma buffer_declarations :
  LINE_GATE = CP_LINEMAX /\ LINE_GATE <= ARG1_SIZE /\ INBUF_SIZE = MAX_CLIENT_BUF /\ CP_LINEMAX < INBUF_SIZE.
Proof. vm_compute. repeat split; try reflexivity; discriminate. Qed.

Lemma drop_space_len s : (length (drop_space s) <= length s)%nat.
Proof. induction s as [|c r IH]; [cbn; lia|]. cbn [drop_space]. destruct (is_space c); cbn [length]; lia. Qed.
Lemma take_word_len s : (length (take_word s) <= length s)%nat.
Proof. induction s as [|c r IH]; [cbn; lia|]. cbn [take_word]. destruct (is_space c); cbn [length]; lia. Qed.
Lemma skipn_len {A} n (s : list A) : (length (skipn n s) <= length s)%nat.
Proof. rewrite skipn_length. lia. Qed.

Lemma scan_kw_len fmt s w : scan_kw fmt s = Some w -> (length w <= length s)%nat.
Proof.
  unfold scan_kw. destruct (is_prefix _ s); [|discriminate].
  pose proof (take_word_len (drop_space (skipn (length (kw_of fmt)) s))) as H1.
  pose proof (drop_space_len (skipn (length (kw_of fmt)) s)) as H2.
  pose proof (skipn_len (length (kw_of fmt)) s) as H3.
  destruct (take_word _) eqn:E; [discriminate|]. intros H; inversion H; subst. lia.
Qed.

(* the argument word of every request that has one is shorter than the line, and the line passed the gate:
   word + terminating NUL fit into arg1[] *)
Theorem arg1_fits s a :
  (exists com, classify s = RCommand com (Some a)) \/ classify s = RDevice (Some a) ->
  Z.of_nat (length a) + 1 <= ARG1_SIZE.
Proof.
  assert (G : forall fmt, scan_kw fmt s = Some a -> Z.of_nat (length s) < CP_LINEMAX -> Z.of_nat (length a) + 1 <= ARG1_SIZE).
  { intros fmt H Hl. apply scan_kw_len in H. destruct buffer_declarations as [E1 [E2 _]]. lia. }
  unfold classify. destruct (CP_LINEMAX <=? Z.of_nat (length s)) eqn:Eg.
  { intros [[com H]|H]; discriminate. }
  apply Z.leb_gt in Eg.
  repeat match goal with
  | |- (exists com, (if ?b then _ else _) = _) \/ _ -> _ => destruct b; [intros [[? H]|H]; try discriminate; inversion H|]
  | |- (exists com, match scan_kw ?f ?x with _ => _ end = _) \/ _ -> _ =>
      let E := fresh "E" in destruct (scan_kw f x) eqn:E; [intros [[? H]|H]; try discriminate; inversion H; subst; exact (G _ E Eg)|]
  end.
  intros [[? H]|H]; discriminate.
Qed.

(* ---------- one reply per line ---------- *)
Section T.
  Variable expand_str : text -> option (list text).
  Variable ranged_sorted : list text -> text.
  Variable ranged_plain : list text -> text.
  Variable sorted : list text -> list text.

  Theorem line_one_reply cf store c line :
    cmd_inv c ->
    exists cf' store' c' q d,
      parse_input expand_str ranged_sorted ranged_plain sorted cf store c line = (cf', store', c', q)
      /\ cl_out c' = cl_out c ++ render d
      /\ (terminals d + b2n (busy c') = 1 + b2n (busy c))%nat
      /\ (busy c = true -> q = [] /\ store' = store)
      /\ cmd_inv c'.
  Proof.
    intros I. destruct (parse_input expand_str ranged_sorted ranged_plain sorted cf store c line) as [[[cf' st'] c'] q] eqn:E.
    destruct (parse_input_toks _ _ _ _ _ _ _ _ _ _ _ _ E I) as [d [A1 [_ [A3 [A4 _]]]]].
    exists cf', st', c', q, d. split; [reflexivity|]. split; [exact A1|]. split; [exact A3|]. split; [|exact A4].
    intros Hb. rewrite busy_cmd in Hb. destruct (cl_cmd c) as [k|] eqn:Ek; [|discriminate].
    unfold parse_input in E. cbv zeta in E. rewrite Ek in E. destruct (CP_LINEMAX <=? _); split; congruence.
  Qed.
End T.

(* ---------- what the device layer passes to the callbacks ---------- *)
Lemma memstr_byte_ge b : Forall (fun c => (32 <= c)%N) (memstr_byte b).
Proof.
  unfold memstr_byte.
  destruct (N.eqb b 13); [repeat constructor; discriminate|].
  destruct (N.eqb b 10); [repeat constructor; discriminate|].
  destruct (N.eqb b 9); [repeat constructor; discriminate|].
  destruct (is_print b) eqn:E.
  - unfold is_print in E. apply andb_true_iff in E as [E _]. apply N.leb_le in E. repeat constructor. exact E.
  - unfold octal3. repeat constructor; try discriminate; lia.
Qed.

Lemma memstr_clean t : clean (memstr t).
Proof.
  unfold clean. apply eol_free_ge. unfold memstr. induction t as [|b r IH]; [constructor|].
  cbn [flat_map]. apply Forall_app. split; [apply memstr_byte_ge|exact IH].
Qed.

(* 305: "recv(dev): '...'" / "send(dev): '...'" with the bytes passed through dbg_memstr *)
Lemma telemetry_texts_clean d t : clean (sd_name d) -> clean (msg_recv d (memstr t)) /\ clean (msg_send d (memstr t)).
Proof.
  intros H. unfold msg_recv, msg_send, q1. split; repeat (apply clean_app; [first [reflexivity|exact H|apply memstr_clean]|]); reflexivity.
Qed.

Lemma cut_crlf_clean v : clean (cut_crlf v).
Proof.
  unfold cut_crlf. generalize (firstn 1023 v). intros t. unfold clean. induction t as [|c r IH]; [reflexivity|].
  destruct (N.eqb c 13 || N.eqb c 10)%bool eqn:E; [reflexivity|]. rewrite eol_free_cons. unfold eol_byte. rewrite E. exact IH.
Qed.

(* 309: "node: value" with the value cut at CR / LF by _process_setresult *)
Lemma diag_text_clean node v : clean node -> clean (node ++ bslit ": " ++ cut_crlf v).
Proof. intros H. apply clean_app; [exact H|]. apply clean_app; [reflexivity|apply cut_crlf_clean]. Qed.

(* 308: "dev: <fixed text>" *)
Lemma completion_text_clean name lit : clean name -> clean lit -> clean (name ++ lit).
Proof. apply clean_app. Qed.
