(* C03, device layer: WHO writes a result list.  Every change that one device's share of dev_post_poll (Device.post_poll_one)
   makes to an Arg of a result list is made by a `setplugstate` / `setresult` statement executed for the HEAD action of that
   device's queue, the action carrying that list (a_args = Some slot); the node written is the one the DEVICE'S plug table maps
   the statement's plug to, and the state / result written is the interpretation (first matching pattern of the statement) of
   the text the device sent (a sub-match of its last `expect`).

   Form.  A WRITE EVENT (`report`) is computed alongside the interpreter by functions that only CALL the model
   (stmt_report -> dw_reports -> pa_reports -> pas_reports -> pp_reports mirror process_stmt -> do_while -> pa_step ->
   process_action -> post_poll_one); the node / code / text of an event are computed with the deciding functions of the
   SPECIFICATION Spec/ScriptSem.v (state_effect / result_effect: capture, node_of, interp), not with the model's.  Proved:

     Writes store (pp_reports ...) store'    the store after the call is the store before it with the events replayed in order
                                             (arg_find (nth s store' []) n = replay s n events (arg_find (nth s store []) n)):
                                             NOTHING else changes an Arg;
     Forall (dev_reports d) (pp_reports ...) every event was produced by an iteration of _process_action's loop of this call
                                             (device state dk, same configuration as d) whose head action carries the event's
                                             list and client id, by the statement on top of that action's context stack
                                             (stmt_reports, spelled out by state_effect_spelled / result_effect_spelled).

   Proofs/DeviceSlots.v had only the frame half (SlotRel: lists the queue does not refer to are untouched). *)
From Coq Require Import List NArith ZArith Bool Lia.
From PM Require Import Base.Bytes Base.Outcome Base.Dec Gen.GenConsts Gen.GenCbuf Model.ScriptAst Model.Enqueue Model.Script Model.Device
  Proofs.DeviceProofs Proofs.DeviceStmt Proofs.DeviceStmtG Proofs.DeviceInv Proofs.DeviceInvG Proofs.DeviceSlots Proofs.DeviceMask.
From PM Require Spec.ScriptSem Proofs.ScriptRefine Proofs.ClientReply Proofs.ScriptSim.
Import ListNotations.
Local Open Scope Z_scope.

(* ---------------------------------------------------------------- write events *)
Record report : Type := mkReport {
  rp_slot : nat;        (* the result list written: the action's a_args = Some rp_slot *)
  rp_client : Z;        (* the action's client id *)
  rp_dev : text;        (* name of the device whose script ran *)
  rp_result : bool;     (* false: a setplugstate statement (state + text); true: a setresult statement (result + text) *)
  rp_node : text;       (* the node whose Arg is written *)
  rp_code : Z;          (* the interpreted state (an ST_ code) resp. result (an RT_ code) *)
  rp_text : text        (* the text the device sent *)
}.

(* what the statement does to the Arg (arglist.c: state / result, and the raw text in val) *)
Definition wr_arg (w : report) (a : arg) : arg :=
  if rp_result w then mkArg (ar_node a) (ar_state a) (rp_code w) (Some (rp_text w))
  else mkArg (ar_node a) (rp_code w) (ar_result a) (Some (rp_text w)).
Definition hits (s : nat) (n : text) (w : report) : bool := Nat.eqb (rp_slot w) s && text_eqb (rp_node w) n.
Definition replay (s : nat) (n : text) (ws : list report) (oa : option arg) : option arg :=
  fold_left (fun oa w => if hits s n w then option_map (wr_arg w) oa else oa) ws oa.
(* store' is store with the events ws replayed, and nothing else *)
Definition Writes (store : list arglist) (ws : list report) (store' : list arglist) : Prop :=
  length store' = length store /\ forall s n, arg_find (nth s store' []) n = replay s n ws (arg_find (nth s store []) n).

Lemma wr_arg_node w a : ar_node (wr_arg w a) = ar_node a.
Proof. unfold wr_arg. destruct (rp_result w); reflexivity. Qed.
Lemma hits_true s n w : hits s n w = true -> rp_slot w = s /\ rp_node w = n.
Proof. unfold hits. intros H. apply andb_true_iff in H as [A B]. split; [now apply Nat.eqb_eq|now apply text_eqb_eq]. Qed.
Lemma replay_app s n a b oa : replay s n (a ++ b) oa = replay s n b (replay s n a oa).
Proof. unfold replay. apply fold_left_app. Qed.
Lemma replay_nohit s n : forall ws oa, (forall w, In w ws -> hits s n w = false) -> replay s n ws oa = oa.
Proof.
  induction ws as [|w r IH]; intros oa H; [reflexivity|]. cbn [replay fold_left]. rewrite (H w (or_introl eq_refl)).
  apply IH. intros x Hx. apply H. now right.
Qed.
Lemma Writes_refl store : Writes store [] store.
Proof. split; reflexivity. Qed.
Lemma Writes_trans s0 w1 s1 w2 s2 : Writes s0 w1 s1 -> Writes s1 w2 s2 -> Writes s0 (w1 ++ w2) s2.
Proof. intros [L1 H1] [L2 H2]. split; [congruence|]. intros s n. now rewrite replay_app, H2, H1. Qed.
(* an Arg that differs was hit by an event *)
Lemma Writes_change store ws store' s n : Writes store ws store' ->
  arg_find (nth s store' []) n <> arg_find (nth s store []) n -> exists w, In w ws /\ rp_slot w = s /\ rp_node w = n.
Proof.
  intros [_ H] Hne. destruct (existsb (hits s n) ws) eqn:E.
  - apply existsb_exists in E as (w & Hin & Hw). exists w. split; [exact Hin|now apply hits_true].
  - exfalso. apply Hne. rewrite H. apply replay_nohit. intros w Hw.
    destruct (hits s n w) eqn:Eh; [|reflexivity]. rewrite <- E. symmetry. apply existsb_exists. eauto.
Qed.

Lemma store_set_id : forall (store : list arglist) i al, nth_error store i = Some al -> store_set store i al = store.
Proof. induction store as [|x r IH]; intros [|i] al H; cbn [nth_error store_set] in *; try discriminate; [now inversion H|now rewrite IH]. Qed.

(* one event = one arg_update of one list *)
Lemma Writes_one (store : list arglist) i (al : arglist) node f old w :
  nth_error store i = Some al -> arg_find al node = Some old -> (forall x, f x = wr_arg w x) -> rp_slot w = i -> rp_node w = node ->
  Writes store [w] (store_set store i (arg_update al node f)).
Proof.
  intros En Ef Hf Hs Hn. split; [apply ClientReply.store_set_length|].
  assert (Hnode : forall x, ar_node (f x) = ar_node x) by (intros x; rewrite Hf; apply wr_arg_node).
  assert (Hlt : (i < length store)%nat) by (apply nth_error_Some; congruence).
  intros s n. rewrite ClientReply.store_set_nth. cbn [replay fold_left]. unfold hits. rewrite Hs, Hn.
  destruct (Nat.eqb i s) eqn:Es.
  - apply Nat.eqb_eq in Es. subst s. apply Nat.ltb_lt in Hlt. rewrite Hlt.
    assert (Hnth : @nth arglist i store [] = al) by (apply nth_error_nth; exact En). rewrite Hnth. cbn [andb].
    destruct (text_eqb node n) eqn:Et.
    + apply text_eqb_eq in Et. subst n. rewrite (ClientReply.arg_find_update_same al node f old Hnode Ef), Ef. cbn [option_map]. now rewrite Hf.
    + apply text_eqb_neq in Et. exact (ClientReply.arg_find_update_other al node n f Hnode Et).
  - reflexivity.
Qed.

(* ---------------------------------------------------------------- the deciding functions of the specification, spelled out *)
Section Spelled.
  Variable rmatch : text -> text -> option pmatch.
  Import ScriptSem.

  Lemma node_of_plug devplugs pn node : node_of devplugs pn = Some node ->
    exists p, In p devplugs /\ pl_name p = pn /\ pl_node p = Some node.
  Proof.
    unfold node_of. destruct (find (fun p => text_eqb (pl_name p) pn) devplugs) as [p|] eqn:E; [|discriminate].
    intros H. apply find_some in E as [Hin Hp]. exists p. split; [exact Hin|]. split; [now apply text_eqb_eq|exact H].
  Qed.

  (* setplugstate: the plug is named by the literal of the statement, else by sub-match $plug_mp of the device's last expect,
     else it is the (first) plug of the block; it must be a plug of THIS device that is wired to a node; the text is sub-match
     $stat_mp; the state is the code of the first pattern of the statement that matches the text (unknown if none) *)
  Lemma state_effect_spelled devplugs ps lit pmp smp ints s node code str :
    state_effect rmatch devplugs ps lit pmp smp ints s = Some (node, code, str) ->
    exists pn p,
      (lit = Some pn \/ (lit = None /\ capture (ss_xm s) pmp = Some pn) \/ (lit = None /\ capture (ss_xm s) pmp = None /\ first_name ps = Some pn)) /\
      In p devplugs /\ pl_name p = pn /\ pl_node p = Some node /\
      capture (ss_xm s) smp = Some str /\ code = interp rmatch ints str ST_UNKNOWN.
  Proof.
    unfold state_effect.
    assert (G : forall pn, match capture (ss_xm s) smp, node_of devplugs pn with
                           | Some str0, Some node0 => Some (node0, interp rmatch ints str0 ST_UNKNOWN, str0) | _, _ => None end = Some (node, code, str) ->
                exists p, In p devplugs /\ pl_name p = pn /\ pl_node p = Some node /\ capture (ss_xm s) smp = Some str /\ code = interp rmatch ints str ST_UNKNOWN).
    { intros pn. destruct (capture (ss_xm s) smp) as [str0|]; [|discriminate]. destruct (node_of devplugs pn) as [node0|] eqn:En; [|discriminate].
      intros H. injection H as <- <- <-. destruct (node_of_plug _ _ _ En) as (p & A & B & C). exists p. auto. }
    destruct lit as [l|].
    - intros H. destruct (G l H) as (p & K). exists l, p. split; [now left|exact K].
    - destruct (capture (ss_xm s) pmp) as [n0|] eqn:Ec.
      + intros H. destruct (G n0 H) as (p & K). exists n0, p. split; [right; left; auto|exact K].
      + destruct (first_name ps) as [n0|] eqn:Ef; [|discriminate].
        intros H. destruct (G n0 H) as (p & K). exists n0, p. split; [right; right; auto|exact K].
  Qed.

  (* setresult: the plug is named by sub-match $plug_mp only *)
  Lemma result_effect_spelled devplugs pmp smp ints s node code str :
    result_effect rmatch devplugs pmp smp ints s = Some (node, code, str) ->
    exists pn p, capture (ss_xm s) pmp = Some pn /\ In p devplugs /\ pl_name p = pn /\ pl_node p = Some node /\
                 capture (ss_xm s) smp = Some str /\ code = interp rmatch ints str RT_UNKNOWN.
  Proof.
    unfold result_effect. destruct (capture (ss_xm s) pmp) as [pn|]; [|discriminate].
    destruct (capture (ss_xm s) smp) as [str0|]; [|discriminate]. destruct (node_of devplugs pn) as [node0|] eqn:En; [|discriminate].
    intros H. injection H as <- <- <-. destruct (node_of_plug _ _ _ En) as (p & A & B & C). exists pn, p. auto 7.
  Qed.
End Spelled.

Section Writes.
  Variable rmatch : text -> text -> option pmatch.
  Variable compress : list text -> text.
  Variable sc : bool.

  Notation wf_action := (wf_action compress).
  Notation model_xm := ScriptRefine.model_xm.

  (* ---------------------------------------------------------------- one statement *)
  Definition eff_report (sd : sdev) (a : action) (store : list arglist) (res : bool) (eff : option (text * Z * text)) : list report :=
    match eff, a_args a with
    | Some (node, code, str), Some i =>
        match nth_error store i with
        | Some al => match arg_find al node with Some _ => [mkReport i (a_client a) (sd_name sd) res node code str] | None => [] end
        | None => []
        end
    | _, _ => []
    end.
  (* the event (if any) of the statement on top of the context stack of a *)
  Definition stmt_report (sd : sdev) (a : action) (store : list arglist) : list report :=
    match a_exec a with
    | e :: _ =>
      match cur e with
      | Some (SetPlugState lit pmp smp ints) =>
          eff_report sd a store false
            (ScriptSem.state_effect rmatch (sd_plugs sd) (c_plugs e) lit pmp smp ints (ScriptSem.mkSst (get_args store a) (model_xm sd)))
      | Some (SetResult pmp smp ints) =>
          eff_report sd a store true
            (ScriptSem.result_effect rmatch (sd_plugs sd) pmp smp ints (ScriptSem.mkSst (get_args store a) (model_xm sd)))
      | _ => []
      end
    | [] => []
    end.

  (* "the statement on top of the context stack of action a of a device in state sd, the lists being store, is a
     setplugstate / setresult that writes w": the action carries list rp_slot w and the client id rp_client w; the list
     holds an Arg for the node; node, code and text are what the SPECIFICATION's effect functions compute from the
     statement, the block's plugs, the device's plug table and the sub-matches of the device's last expect *)
  Definition stmt_reports (sd : sdev) (a : action) (store : list arglist) (w : report) : Prop :=
    exists e rest al old,
      a_exec a = e :: rest /\
      a_args a = Some (rp_slot w) /\ a_client a = rp_client w /\ rp_dev w = sd_name sd /\
      nth_error store (rp_slot w) = Some al /\ arg_find al (rp_node w) = Some old /\
      ((exists lit pmp smp ints, cur e = Some (SetPlugState lit pmp smp ints) /\ rp_result w = false /\
          ScriptSem.state_effect rmatch (sd_plugs sd) (c_plugs e) lit pmp smp ints (ScriptSem.mkSst (Some al) (model_xm sd))
            = Some (rp_node w, rp_code w, rp_text w))
       \/
       (exists pmp smp ints, cur e = Some (SetResult pmp smp ints) /\ rp_result w = true /\
          ScriptSem.result_effect rmatch (sd_plugs sd) pmp smp ints (ScriptSem.mkSst (Some al) (model_xm sd))
            = Some (rp_node w, rp_code w, rp_text w))).

  (* the store a setplugstate / setresult leaves, from the effect *)
  Definition state_store (a : action) (store : list arglist) (eff : option (text * Z * text)) : list arglist :=
    match eff with
    | Some (node, st, str) =>
        match a_args a, get_args store a with
        | Some i, Some al => store_set store i (arg_update al node (fun x => mkArg (ar_node x) st (ar_result x) (Some str)))
        | _, _ => store
        end
    | None => store
    end.
  Definition result_store (a : action) (store : list arglist) (eff : option (text * Z * text)) : list arglist :=
    match eff with
    | Some (node, res, str) =>
        match a_args a, get_args store a with
        | Some i, Some al =>
            match arg_find al node with
            | Some _ => store_set store i (arg_update al node (fun x => mkArg (ar_node x) (ar_state x) res (Some str)))
            | None => store
            end
        | _, _ => store
        end
    | None => store
    end.

  Lemma setplugstate_closed sd a store e lit pmp smp ints :
    process_setplugstate rmatch sd a store e lit pmp smp ints =
      Ok (true, sd, a, state_store a store (ScriptSem.state_effect rmatch (sd_plugs sd) (c_plugs e) lit pmp smp ints
                                              (ScriptSem.mkSst (get_args store a) (model_xm sd))), []).
  Proof.
    unfold process_setplugstate, ScriptSem.state_effect, state_store. rewrite !ScriptRefine.sub_strdup_sem. cbn [ScriptSem.ss_xm].
    assert (G : forall pn,
              (match ScriptSem.capture (model_xm sd) smp, find_plug sd pn with
               | Some str, Some (_, node) =>
                   let st := first_interp rmatch ints str ST_UNKNOWN in
                   match a_args a, get_args store a with
                   | Some i, Some al =>
                       let al' := arg_update al node (fun x => mkArg (ar_node x) st (ar_result x) (Some str)) in
                       Ok (true, sd, a, store_set store i al', @nil ev)
                   | _, _ => Ok (true, sd, a, store, [])
                   end
               | _, _ => Ok (true, sd, a, store, [])
               end) =
        Ok (true, sd, a,
            match (match ScriptSem.capture (model_xm sd) smp, ScriptSem.node_of (sd_plugs sd) pn with
                   | Some str, Some node => Some (node, ScriptSem.interp rmatch ints str ST_UNKNOWN, str)
                   | _, _ => None end) with
            | Some (node, st, str) =>
                match a_args a, get_args store a with
                | Some i, Some al => store_set store i (arg_update al node (fun x => mkArg (ar_node x) st (ar_result x) (Some str)))
                | _, _ => store
                end
            | None => store
            end, [])).
    { intros pn. rewrite <- (ScriptRefine.find_plug_sem sd pn).
      destruct (ScriptSem.capture (model_xm sd) smp) as [str|]; [|reflexivity].
      destruct (find_plug sd pn) as [[p0 node]|]; [|reflexivity]. cbv zeta. rewrite ScriptRefine.first_interp_sem.
      destruct (a_args a); [|reflexivity]. destruct (get_args store a); reflexivity. }
    destruct lit as [l|]; [apply G|].
    destruct (ScriptSem.capture (model_xm sd) pmp) as [n|]; [apply G|].
    rewrite <- ScriptRefine.ctx_first_plug_sem. destruct (ctx_first_plug e) as [p|]; [apply G|reflexivity].
  Qed.

  Lemma setresult_closed sd a store e pmp smp ints fin sd' a' store' evs :
    process_setresult rmatch sd a store e pmp smp ints = Ok (fin, sd', a', store', evs) ->
    store' = result_store a store (ScriptSem.result_effect rmatch (sd_plugs sd) pmp smp ints (ScriptSem.mkSst (get_args store a) (model_xm sd))).
  Proof.
    unfold process_setresult, ScriptSem.result_effect, result_store. rewrite !ScriptRefine.sub_strdup_sem. cbn [ScriptSem.ss_xm].
    destruct (ScriptSem.capture (model_xm sd) pmp) as [pn|]; [|intros H; now injection H as <- <- <- <- <-].
    rewrite <- (ScriptRefine.find_plug_sem sd pn).
    destruct (ScriptSem.capture (model_xm sd) smp) as [str|]; [|intros H; now injection H as <- <- <- <- <-].
    destruct (find_plug sd pn) as [[p0 node]|]; [|intros H; now injection H as <- <- <- <- <-].
    cbv zeta. rewrite ScriptRefine.first_interp_sem.
    destruct (a_args a); [|intros H; now injection H as <- <- <- <- <-].
    destruct (get_args store a) as [al|]; [|intros H; now injection H as <- <- <- <- <-].
    destruct (arg_find al node); [|intros H; now injection H as <- <- <- <- <-].
    destruct (Z.eqb _ RT_SUCCESS); [intros H; now injection H as <- <- <- <- <-|].
    destruct (a_hasdiag a); [intros H; now injection H as <- <- <- <- <-|discriminate].
  Qed.

  Lemma state_store_writes sd a store eff : Writes store (eff_report sd a store false eff) (state_store a store eff).
  Proof.
    unfold eff_report, state_store, get_args. destruct eff as [[[node st] str]|]; [|apply Writes_refl].
    destruct (a_args a) as [i|]; [|apply Writes_refl]. destruct (nth_error store i) as [al|] eqn:En; [|apply Writes_refl].
    destruct (arg_find al node) as [old|] eqn:Ef.
    - eapply Writes_one; [exact En|exact Ef| |reflexivity|reflexivity]. intros x. reflexivity.
    - rewrite (ScriptSim.arg_update_absent _ _ _ Ef), (store_set_id _ _ _ En). apply Writes_refl.
  Qed.
  Lemma result_store_writes sd a store eff : Writes store (eff_report sd a store true eff) (result_store a store eff).
  Proof.
    unfold eff_report, result_store, get_args. destruct eff as [[[node st] str]|]; [|apply Writes_refl].
    destruct (a_args a) as [i|]; [|apply Writes_refl]. destruct (nth_error store i) as [al|] eqn:En; [|apply Writes_refl].
    destruct (arg_find al node) as [old|] eqn:Ef; [|apply Writes_refl].
    eapply Writes_one; [exact En|exact Ef| |reflexivity|reflexivity]. intros x. reflexivity.
  Qed.

  (* the statements that are not setplugstate / setresult leave the store as it is *)
  Local Ltac same_store H :=
    repeat (match type of H with context [match ?x with _ => _ end] => destruct x end; try discriminate H);
    inversion H; subst; reflexivity.
  Lemma expect_store now sd a store re fin sd' a' store' evs :
    process_expect rmatch now sd a store re = Ok (fin, sd', a', store', evs) -> store' = store.
  Proof. unfold process_expect. cbn [sd_from set_xm]. intros H. same_store H. Qed.
  Lemma send_store now sd a store e rest fmt fin sd' a' store' evs :
    process_send compress now sd a store e rest fmt = Ok (fin, sd', a', store', evs) -> store' = store.
  Proof.
    unfold process_send.
    match goal with |- match ?ft with _ => _ end = _ -> _ => destruct ft as [[d1 evs1]| | | |]; try discriminate end.
    destruct (sd_to d1); intros H; inversion H; subst; reflexivity.
  Qed.
  Lemma delay_store now sd a store e rest us fin sd' a' store' evs t :
    process_delay sc now sd a store e rest us = Ok ((fin, sd', a', store', evs), t) -> store' = store.
  Proof.
    unfold process_delay. destruct (c_processing e); cbv beta iota zeta;
      match goal with |- (if ?b then _ else _) = _ -> _ => destruct b end; intros H; inversion H; subst; reflexivity.
  Qed.
  Lemma foreach_store sd a store e rest on body fin sd' a' store' evs :
    process_foreach sd a store e rest on body = Ok (fin, sd', a', store', evs) -> store' = store.
  Proof.
    unfold process_foreach.
    match goal with |- match ?i0 with _ => _ end = _ -> _ => destruct i0 as [e0| | | |]; try discriminate end.
    cbv zeta. destruct (next_plug on _ _) as [[p i']|]; intros H; inversion H; subst; reflexivity.
  Qed.
  Lemma ifonoff_store sd a store e rest want body fin sd' a' store' evs :
    process_ifonoff sd a store e rest want body = Ok (fin, sd', a', store', evs) -> store' = store.
  Proof.
    unfold process_ifonoff. destruct (c_processing e); [intros H; inversion H; subst; reflexivity|].
    match goal with |- match ?s0 with _ => _ end = _ -> _ => destruct s0 as [st| | | |]; try discriminate end.
    cbv zeta. destruct ((want && Z.eqb st ST_ON) || (negb want && Z.eqb st ST_OFF)); intros H; inversion H; subst; reflexivity.
  Qed.

  Lemma omap_ok (r : outcome sres) x t : omap (fun y : sres => (y, @None Z)) r = Ok (x, t) -> r = Ok x.
  Proof. destruct r; cbn; intros H; inversion H; reflexivity. Qed.

  Lemma eff_report_sound (sd : sdev) (a : action) (store : list arglist) (e : ctx) (rest : list ctx) (res : bool) (eff : option (text * Z * text)) : a_exec a = e :: rest ->
    (forall al node code str, get_args store a = Some al -> eff = Some (node, code, str) ->
       if res
       then exists pmp smp ints, cur e = Some (SetResult pmp smp ints) /\
              ScriptSem.result_effect rmatch (sd_plugs sd) pmp smp ints (ScriptSem.mkSst (Some al) (model_xm sd)) = Some (node, code, str)
       else exists lit pmp smp ints, cur e = Some (SetPlugState lit pmp smp ints) /\
              ScriptSem.state_effect rmatch (sd_plugs sd) (c_plugs e) lit pmp smp ints (ScriptSem.mkSst (Some al) (model_xm sd)) = Some (node, code, str)) ->
    Forall (stmt_reports sd a store) (eff_report sd a store res eff).
  Proof.
    intros Ex H. unfold eff_report. destruct eff as [[[node code] str]|]; [|constructor].
    destruct (a_args a) as [i|] eqn:Ea; [|constructor]. destruct (nth_error store i) as [al|] eqn:En; [|constructor].
    destruct (arg_find al node) as [old|] eqn:Ef; constructor; [|constructor].
    assert (Hg : get_args store a = Some al) by (unfold get_args; rewrite Ea; exact En).
    specialize (H al node code str Hg eq_refl).
    exists e, rest, al, old. cbn [rp_slot rp_client rp_dev rp_result rp_node rp_code rp_text].
    repeat (split; [first [assumption|reflexivity]|]).
    destruct res; [right|left].
    - destruct H as (pmp & smp & ints & Hc & He). exists pmp, smp, ints. auto.
    - destruct H as (lit & pmp & smp & ints & Hc & He). exists lit, pmp, smp, ints. auto.
  Qed.

  Lemma process_stmt_writes now sd a store fin sd' a' store' evs t :
    process_stmt rmatch compress sc now sd a store = Ok ((fin, sd', a', store', evs), t) ->
    Writes store (stmt_report sd a store) store' /\ Forall (stmt_reports sd a store) (stmt_report sd a store).
  Proof.
    unfold process_stmt, stmt_report. destruct (a_exec a) as [|e rest] eqn:Ex; [discriminate|].
    destruct (cur e) as [s|] eqn:Ec; [|discriminate].
    destruct s as [fmt|re|lit pmp smp ints|pmp smp ints|us|body|body|body|body].
    - intros H. apply omap_ok, send_store in H. subst. split; [apply Writes_refl|constructor].
    - intros H. apply omap_ok, expect_store in H. subst. split; [apply Writes_refl|constructor].
    - intros H. apply omap_ok in H. rewrite setplugstate_closed in H. injection H as _ _ _ <- _.
      split; [apply state_store_writes|].
      apply (eff_report_sound sd a store e rest false _ Ex). intros al node code str Hg He. exists lit, pmp, smp, ints. split; [exact Ec|].
      rewrite <- He, Hg. reflexivity.
    - intros H. apply omap_ok, setresult_closed in H. subst store'.
      split; [apply result_store_writes|].
      apply (eff_report_sound sd a store e rest true _ Ex). intros al node code str Hg He. exists pmp, smp, ints. split; [exact Ec|].
      rewrite <- He, Hg. reflexivity.
    - intros H. apply delay_store in H. subst. split; [apply Writes_refl|constructor].
    - intros H. apply omap_ok, foreach_store in H. subst. split; [apply Writes_refl|constructor].
    - intros H. apply omap_ok, foreach_store in H. subst. split; [apply Writes_refl|constructor].
    - intros H. apply omap_ok, ifonoff_store in H. subst. split; [apply Writes_refl|constructor].
    - intros H. apply omap_ok, ifonoff_store in H. subst. split; [apply Writes_refl|constructor].
  Qed.

  (* ---------------------------------------------------------------- the do..while round *)
  Fixpoint dw_reports (fuel : nat) (now : Z) (sd : sdev) (a : action) (store : list arglist) : list report :=
    match fuel with
    | O => []
    | S f =>
      match process_stmt rmatch compress sc now sd a store with
      | Ok ((_, sd', a', store', _), _) =>
          stmt_report sd a store ++
          (if Nat.ltb (length (a_exec a)) (length (a_exec a')) then dw_reports f now sd' a' store' else [])
      | _ => []
      end
    end.

  (* w was written by a statement of a round that began with device state sd and action a *)
  Definition round_reports (sd : sdev) (a : action) (w : report) : Prop :=
    a_args a = Some (rp_slot w) /\ a_client a = rp_client w /\ rp_dev w = sd_name sd /\
    exists sdk ak storek, sd_plugs sdk = sd_plugs sd /\ stmt_reports sdk ak storek w.

  Lemma do_while_writes : forall fuel now sd a store acc tmo fin sd' a' store' evs t,
    wf_action (sd_plugs sd) a ->
    do_while rmatch compress sc fuel now sd a store acc tmo = Ok ((fin, sd', a', store', evs), t) ->
    Writes store (dw_reports fuel now sd a store) store' /\ Forall (round_reports sd a) (dw_reports fuel now sd a store).
  Proof.
    induction fuel as [|f IH]; intros now sd a store acc tmo fin sd' a' store' evs t Hwf; cbn [do_while dw_reports]; [discriminate|].
    pose proof (process_stmt_propsG rmatch compress sc now sd a store Hwf) as H1.
    destruct (process_stmt rmatch compress sc now sd a store) as [[[[[[fin1 sd1] a1] st1] evs1] t1]| | | |] eqn:Ep; try contradiction.
    destruct (process_stmt_writes _ _ _ _ _ _ _ _ _ _ Ep) as [W1 G1].
    assert (G1' : Forall (round_reports sd a) (stmt_report sd a store)).
    { eapply Forall_impl; [|exact G1]. intros w Hw. pose proof Hw as (e & rest & al & old & _ & A & B & C & _).
      split; [exact A|]. split; [exact B|]. split; [exact C|]. exists sd, a, store. split; [reflexivity|exact Hw]. }
    destruct (Nat.ltb (length (a_exec a)) (length (a_exec a1))).
    - intros H.
      assert (Hwf1 : wf_action (sd_plugs sd1) a1) by (rewrite (sg_plugs _ _ _ _ _ _ _ _ _ _ H1); apply (sg_wf _ _ _ _ _ _ _ _ _ _ H1)).
      destruct (IH _ _ _ _ _ _ _ _ _ _ _ _ Hwf1 H) as [W2 G2].
      split; [eapply Writes_trans; eassumption|]. apply Forall_app. split; [exact G1'|].
      eapply Forall_impl; [|exact G2]. intros w (A & B & C & sdk & ak & sk & P & K).
      destruct (sg_id _ _ _ _ _ _ _ _ _ _ H1) as (_ & Ic & _ & _ & _ & _ & Ia).
      split; [congruence|]. split; [congruence|]. split; [rewrite C; exact (sg_name _ _ _ _ _ _ _ _ _ _ H1)|].
      exists sdk, ak, sk. split; [rewrite P; exact (sg_plugs _ _ _ _ _ _ _ _ _ _ H1)|exact K].
    - intros H. injection H as _ _ _ <- _ _. rewrite app_nil_r. split; assumption.
  Qed.

  (* ---------------------------------------------------------------- one iteration of _process_action's loop *)
  Definition pa_reports (now : Z) (d : device) (store : list arglist) : list report :=
    match dv_acts d with
    | [] => []
    | act0 :: _ =>
      match a_exec act0 with
      | [] => []
      | _ =>
        let stamp := match a_stamp act0 with Some t => t | None => now end in
        if stamp + dv_timeout d <=? now then []
        else if negb (connected d) then []
        else dw_reports 8 now (dv d) (set_stamp (Some stamp) act0) store
      end
    end.

  (* w was written in an iteration that found the device in state d: the device is connected, the HEAD of its queue carries
     list rp_slot w and client id rp_client w, and a statement of that action's script wrote w (the plug table being d's) *)
  Definition head_reports (d : device) (w : report) : Prop :=
    exists act0 rest, dv_acts d = act0 :: rest /\ connected d = true /\
      a_args act0 = Some (rp_slot w) /\ a_client act0 = rp_client w /\ rp_dev w = sd_name (dv d) /\
      exists sdk ak storek, sd_plugs sdk = sd_plugs (dv d) /\ stmt_reports sdk ak storek w.

  Lemma pa_step_writes now d store tmo plans r : DInvG compress d ->
    pa_step rmatch compress sc now d store tmo plans = Ok r ->
    Writes store (pa_reports now d store) (store_of r) /\ Forall (head_reports d) (pa_reports now d store).
  Proof.
    intros I. unfold pa_step, pa_reports. destruct (dv_acts d) as [|act0 rest] eqn:Ea; [intros H; inversion H; subst; split; [apply Writes_refl|constructor]|].
    pose proof (dg_acts _ d I) as Hw. rewrite Ea in Hw. inversion Hw as [|? ? Hw0 Hwr]; subst.
    destruct (a_exec act0) as [|e0 er] eqn:Eex; [discriminate|].
    cbv zeta.
    set (stamp := match a_stamp act0 with Some t => t | None => now end).
    set (act := set_stamp (Some stamp) act0).
    destruct (stamp + dv_timeout d <=? now).
    { intros H. rewrite (fail_and_reconnect_same _ _ _ _ _ _ _ _ _ H). split; [apply Writes_refl|constructor]. }
    destruct (negb (connected d)) eqn:Ec; [intros H; inversion H; subst; split; [apply Writes_refl|constructor]|].
    apply negb_false_iff in Ec.
    assert (Hwa : wf_action (sd_plugs (dv d)) act) by exact Hw0.
    destruct (do_while rmatch compress sc 8 now (dv d) act store [] None) as [[[[[[fin sd'] act'] store'] evs] dt]| | | |] eqn:Edw; try discriminate.
    destruct (do_while_writes _ _ _ _ _ _ _ _ _ _ _ _ _ Hwa Edw) as [W G].
    assert (G' : Forall (head_reports d) (dw_reports 8 now (dv d) act store)).
    { eapply Forall_impl; [|exact G]. intros w (A & B & C & K). exists act0, rest. auto 7. }
    assert (Hstore : forall r0, store_of r0 = store' -> Writes store (dw_reports 8 now (dv d) act store) (store_of r0) /\
                                                        Forall (head_reports d) (dw_reports 8 now (dv d) act store)).
    { intros r0 ->. split; assumption. }
    destruct (negb fin); [intros H; inversion H; subst; apply Hstore; reflexivity|].
    destruct (Z.eqb (a_err act') ACT_ESUCCESS).
    - destruct (a_exec (advance act')); intros H; inversion H; subst; apply Hstore; reflexivity.
    - intros H. apply Hstore. exact (fail_and_reconnect_same _ _ _ _ _ _ _ _ _ H).
  Qed.

  (* ---------------------------------------------------------------- _process_action *)
  Fixpoint pas_reports (fuel : nat) (now : Z) (d : device) (store : list arglist) (tmo : option Z) (plans : list cplan) : list report :=
    match fuel with
    | O => []
    | S f =>
      match pa_step rmatch compress sc now d store tmo plans with
      | Ok (PaDone _ _ _ _ _) => pa_reports now d store
      | Ok (PaNext d' store' tmo' _) => pa_reports now d store ++ pas_reports f now d' store' tmo' plans
      | _ => []
      end
    end.

  (* w was written by some iteration of this call: the device then had the configuration of d (same name, plug table,
     scripts) and its queue referred to no list that d's does not refer to *)
  Definition dev_reports (d : device) (w : report) : Prop :=
    exists dk, same_cfg d dk /\ incl (dslots dk) (dslots d) /\ head_reports dk w.

  Lemma dev_reports_mono d d1 w : same_cfg d d1 -> incl (dslots d1) (dslots d) -> dev_reports d1 w -> dev_reports d w.
  Proof.
    intros S1 I1 (dk & S2 & I2 & H). exists dk. split; [eapply same_cfg_trans; eassumption|]. split; [|exact H].
    eapply incl_tran; eassumption.
  Qed.
  (* the event's (client id, list) is one of the pairs the queue of d refers to *)
  Lemma dev_reports_slot d w : dev_reports d w -> In (rp_client w, rp_slot w) (dslots d).
  Proof.
    intros (dk & _ & Hi & act0 & rest & Ea & _ & A & B & _). apply Hi. unfold dslots. rewrite Ea.
    apply in_slots_head; [exact A|now symmetry].
  Qed.
  Lemma dev_reports_name d w : dev_reports d w -> rp_dev w = sd_name (dv d).
  Proof. intros (dk & (_ & _ & _ & _ & En) & _ & act0 & rest & _ & _ & _ & _ & C & _). now rewrite C. Qed.

  Lemma process_action_writes : forall fuel now d store tmo plans acc d' store' tmo' pl' evs,
    DInvG compress d -> ArgsCb d -> tmo_pos tmo ->
    process_action rmatch compress sc fuel now d store tmo plans acc = Ok (d', store', tmo', pl', evs) ->
    Writes store (pas_reports fuel now d store tmo plans) store' /\ Forall (dev_reports d) (pas_reports fuel now d store tmo plans).
  Proof.
    induction fuel as [|f IH]; intros now d store tmo plans acc d' store' tmo' pl' evs I Hcb Hp; cbn [process_action pas_reports]; [discriminate|].
    pose proof (pa_step_invG rmatch compress sc now d store tmo plans I Hp) as H2.
    pose proof (pa_step_slots rmatch compress sc now d store tmo plans I Hcb) as H3.
    destruct (pa_step rmatch compress sc now d store tmo plans) as [r| | | |] eqn:Es; try discriminate.
    destruct (pa_step_writes now d store tmo plans r I Es) as [W1 G1].
    assert (G1' : Forall (dev_reports d) (pa_reports now d store)).
    { eapply Forall_impl; [|exact G1]. intros w Hw. exists d. split; [apply same_cfg_refl|]. split; [apply incl_refl|exact Hw]. }
    destruct r as [d1 st1 tmo1 pl1 e1|d1 st1 tmo1 e1]; cbn [store_of] in W1.
    - intros H. injection H as _ <- _ _ _. split; assumption.
    - intros H.
      destruct (IH _ _ _ _ _ _ _ _ _ _ _ (tg_inv _ _ _ _ _ _ _ _ _ H2) (sr_cb _ _ _ _ H3) (tg_pos _ _ _ _ _ _ _ _ _ H2) H) as [W2 G2].
      split; [eapply Writes_trans; eassumption|]. apply Forall_app. split; [exact G1'|].
      eapply Forall_impl; [|exact G2]. intros w. apply dev_reports_mono; [exact (tg_cfg _ _ _ _ _ _ _ _ _ H2)|exact (sr_incl _ _ _ _ H3)].
  Qed.

  (* ---------------------------------------------------------------- one device's share of dev_post_poll *)
  Definition pp_reports (now : Z) (d : device) (store : list arglist) (tmo : option Z) (pin : passin) : list report :=
    match pp_front now d tmo pin with
    | Ok (d3, t3, pl, _) => pas_reports (pa_fuel d3) now d3 store t3 pl
    | _ => []
    end.

  (* the part of post_poll_one in front of _process_action (descriptor, reconnect, ping) never makes the queue refer to a new list *)
  Lemma pp_front_slots now d store tmo pin d3 t3 pl e12 : DInvG compress d -> ArgsCb d -> tmo_pos tmo -> 0 <= dv_retry_count d ->
    pp_front now d tmo pin = Ok (d3, t3, pl, e12) -> SlotRel d store d3 store.
  Proof.
    intros I Hcb Hp Hrc. unfold pp_front.
    assert (H0 : match (if dv_has_fd d && any_flag pin then handle_ready d pin else Ok (false, d, [])) with
                 | Ok (ioerr, d1, e1) => SlotRel d store d1 store /\ DInvG compress d1 /\ 0 <= dv_retry_count d1
                 | _ => True end).
    { destruct (dv_has_fd d) eqn:Efd; cbn [andb]; [|split; [now apply SlotRel_refl|split; assumption]].
      destruct (any_flag pin); [|split; [now apply SlotRel_refl|split; assumption]].
      destruct (handle_ready_invG compress d pin I Efd) as (io & d1 & e1 & E & I1 & _ & _ & _ & _ & R1 & _).
      rewrite E. split; [eapply handle_ready_slots; eauto|split; [exact I1|lia]]. }
    destruct (if dv_has_fd d && any_flag pin then handle_ready d pin else Ok (false, d, [])) as [[[ioerr d1] e1]| | | |]; try discriminate.
    destruct H0 as (R1 & I1 & Hrc1).
    assert (H2 : match (if ioerr || Z.eqb (dv_cstate d1) DEV_NOT_CONNECTED then reconnect now d1 tmo (pi_plans pin) else Ok (d1, [], tmo, pi_plans pin)) with
                 | Ok (d2, e2, tmo2, pl2) => SlotRel d1 store d2 store /\ DInvG compress d2 /\ tmo_pos tmo2
                 | _ => True end).
    { destruct (ioerr || Z.eqb (dv_cstate d1) DEV_NOT_CONNECTED); [|split; [apply SlotRel_refl; exact (sr_cb _ _ _ _ R1)|split; assumption]].
      destruct (reconnect_invG compress now d1 tmo (pi_plans pin) (DInvG_QInvG compress d1 I1) (fun _ => I1) Hp) as (d2 & e2 & tmo2 & pl2 & E & I2 & _ & _ & _ & P2 & _).
      rewrite E. split; [eapply reconnect_slots; [exact (sr_cb _ _ _ _ R1)|exact E]|split; assumption]. }
    destruct (if ioerr || Z.eqb (dv_cstate d1) DEV_NOT_CONNECTED then reconnect now d1 tmo (pi_plans pin) else Ok (d1, [], tmo, pi_plans pin)) as [[[[d2 e2] tmo2] pl2]| | | |]; try discriminate.
    destruct H2 as (R2 & I2 & P2).
    assert (H3 : forall d3' tmo3, (if connected d2 then enqueue_ping now d2 tmo2 else (d2, tmo2)) = (d3', tmo3) -> SlotRel d2 store d3' store).
    { intros d3' tmo3. destruct (connected d2) eqn:Ec; [|intros H; inversion H; subst; apply SlotRel_refl; exact (sr_cb _ _ _ _ R2)].
      intros E. eapply enqueue_ping_slots; [exact (sr_cb _ _ _ _ R2)|exact E]. }
    destruct (if connected d2 then enqueue_ping now d2 tmo2 else (d2, tmo2)) as [d3' tmo3].
    intros H. injection H as <- _ _ _.
    eapply SlotRel_trans; [exact R1|]. eapply SlotRel_trans; [exact R2|exact (H3 _ _ eq_refl)].
  Qed.

  Theorem post_poll_one_writes now d store tmo pin d' store' tmo' evs :
    DInvG compress d -> ArgsCb d -> tmo_pos tmo -> 0 <= dv_retry_count d ->
    post_poll_one rmatch compress sc now d store tmo pin = Ok (d', store', tmo', evs) ->
    Writes store (pp_reports now d store tmo pin) store' /\ Forall (dev_reports d) (pp_reports now d store tmo pin).
  Proof.
    intros I Hcb Hp Hrc. rewrite pp_split. unfold pp_reports.
    destruct (pp_front_inv compress now d tmo pin I Hp Hrc) as (d3 & t3 & pl & e12 & E & I3 & S3 & P3 & _). rewrite E.
    pose proof (pp_front_slots now d store tmo pin d3 t3 pl e12 I Hcb Hp Hrc E) as R3.
    destruct (process_action rmatch compress sc (pa_fuel d3) now d3 store t3 pl e12) as [[[[[d4 st4] t4] pl4] evs4]| | | |] eqn:Epa; try discriminate.
    intros H. injection H as _ <- _ _.
    destruct (process_action_writes _ _ _ _ _ _ _ _ _ _ _ _ I3 (sr_cb _ _ _ _ R3) P3 Epa) as [W G].
    split; [exact W|]. eapply Forall_impl; [|exact G]. intros w. apply dev_reports_mono; [exact S3|exact (sr_incl _ _ _ _ R3)].
  Qed.

  (* the form asked for: an Arg that post_poll_one changed was written by a setplugstate / setresult statement of the head
     action that carries that list, for that node *)
  Corollary post_poll_one_change now d store tmo pin d' store' tmo' evs s n :
    DInvG compress d -> ArgsCb d -> tmo_pos tmo -> 0 <= dv_retry_count d ->
    post_poll_one rmatch compress sc now d store tmo pin = Ok (d', store', tmo', evs) ->
    arg_find (nth s store' []) n <> arg_find (nth s store []) n ->
    exists w, In w (pp_reports now d store tmo pin) /\ rp_slot w = s /\ rp_node w = n /\ dev_reports d w /\ In (rp_client w, s) (dslots d).
  Proof.
    intros I Hcb Hp Hrc E Hne. destruct (post_poll_one_writes _ _ _ _ _ _ _ _ _ I Hcb Hp Hrc E) as [W G].
    destruct (Writes_change _ _ _ _ _ W Hne) as (w & Hin & Hs & Hn). rewrite Forall_forall in G.
    exists w. split; [exact Hin|]. split; [exact Hs|]. split; [exact Hn|]. split; [exact (G w Hin)|].
    rewrite <- Hs. exact (dev_reports_slot _ _ (G w Hin)).
  Qed.

  (* both halves in one statement (quoted by Properties/C03.v) *)
  Theorem post_poll_one_writes_are_statements now d store tmo pin d' store' tmo' evs :
    DInvG compress d -> ArgsCb d -> tmo_pos tmo -> 0 <= dv_retry_count d ->
    post_poll_one rmatch compress sc now d store tmo pin = Ok (d', store', tmo', evs) ->
    let ws := pp_reports now d store tmo pin in
    (length store' = length store /\ forall s n, arg_find (nth s store' []) n = replay s n ws (arg_find (nth s store []) n)) /\
    (forall s n, arg_find (nth s store' []) n <> arg_find (nth s store []) n -> exists w, In w ws /\ rp_slot w = s /\ rp_node w = n) /\
    (forall w, In w ws -> dev_reports d w /\ In (rp_client w, rp_slot w) (dslots d) /\ rp_dev w = sd_name (dv d)).
  Proof.
    intros I Hcb Hp Hrc E. cbv zeta. destruct (post_poll_one_writes _ _ _ _ _ _ _ _ _ I Hcb Hp Hrc E) as [W G].
    split; [exact W|]. split; [intros s n Hne; exact (Writes_change _ _ _ _ _ W Hne)|].
    rewrite Forall_forall in G. intros w Hw. split; [exact (G w Hw)|]. split; [exact (dev_reports_slot _ _ (G w Hw))|exact (dev_reports_name _ _ (G w Hw))].
  Qed.
End Writes.
