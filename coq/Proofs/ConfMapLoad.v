(* C13, part 2: makeNode (Model/Lexer.v make_node) against the rules of Spec/ConfSpec.v, and the invariant that
   parse_items / load preserve: the node-to-plug map is functional, injective, respects hard-wired plug names, its
   nodes are exactly conf_nodes; aliases and the non-empty node list are established by _validate_config *)
From Coq Require Import List NArith ZArith Bool Lia Permutation.
From PM Require Import Base.Bytes Base.Outcome Gen.GenLex Model.Lexer Spec.ConfSpec Proofs.LexerLoad Proofs.ConfMap.
Import ListNotations.

(* ------------------------------------------------------------------ the rule of one node line *)
Definition line_rule (hard : bool) (pl : plugtab) (nodes : list text) (plugs : option (list text))
  : option (list (text * text)) :=
  match plugs with
  | Some ps => zip_rule nodes ps
  | None => if hard then next_free_rule pl nodes else Some (same_name_rule nodes)
  end.

Definition line_result (d : dev_s) (nodes : list text) (plugs : option (list text)) : nat + plugtab :=
  match plugs with
  | None => map_nodes_noplugs (d_hardwired d) (d_plugs d) nodes
  | Some ps => map_nodes_plugs (d_hardwired d) (d_plugs d) nodes ps
  end.

Definition expand_opt (hl : text -> option (list text)) (p : option text) : option (option (list text)) :=
  match p with
  | None => Some None
  | Some p => match hl p with None => None | Some l => Some (Some l) end
  end.

Definition set_plugs (d : dev_s) (pl : plugtab) : dev_s :=
  mkDev (d_name d) (d_spec d) (d_transport d) (d_hardwired d) pl (d_login d) (d_internal_args d).

Lemma combine_fst {A B} : forall (a : list A) (b : list B), (length a <= length b)%nat -> map fst (combine a b) = a.
Proof.
  induction a as [|x a IH]; intros b L; [reflexivity|]. destruct b as [|y b]; [cbn in L; lia|].
  cbn [combine map fst]. rewrite IH; [reflexivity | cbn in L; lia].
Qed.

Lemma same_name_combine nodes : same_name_rule nodes = combine nodes nodes.
Proof. unfold same_name_rule. induction nodes as [|n r IH]; [reflexivity|]. cbn [map combine]. rewrite IH. reflexivity. Qed.

(* THE per-line theorem at plug-table level: an accepted line adds exactly the pairs its rule prescribes *)
Lemma line_result_rule d nodes plugs pl' : line_result d nodes plugs = inr pl' ->
  exists pairs, line_rule (d_hardwired d) (d_plugs d) nodes plugs = Some pairs /\
                map fst pairs = nodes /\
                Permutation (assigned pl') (pairs ++ assigned (d_plugs d)) /\
                (d_hardwired d = true -> map fst pl' = map fst (d_plugs d)) /\
                (NoDup (map fst (d_plugs d)) -> NoDup (map fst pl')) /\
                (all_assigned (d_plugs d) -> d_hardwired d = false -> all_assigned pl').
Proof.
  unfold line_result, line_rule. destruct plugs as [ps|].
  - intros H. apply map_nodes_plugs_ok in H as (L & P & Hh & D & A & _).
    exists (combine nodes ps). unfold zip_rule. rewrite L, Nat.eqb_refl.
    repeat split; auto. apply combine_fst. lia.
  - destruct (d_hardwired d) eqn:HW.
    + rewrite map_nodes_noplugs_hard. unfold next_free_rule.
      destruct (Nat.leb (length nodes) (length (free_names (d_plugs d)))) eqn:L; [|discriminate].
      apply Nat.leb_le in L. intros H; inversion H; subst; clear H.
      exists (combine nodes (free_names (d_plugs d))).
      repeat split; auto using combine_fst, fill_assigned; try discriminate.
      * intros _. apply fill_names.
      * rewrite fill_names. auto.
    + rewrite map_nodes_noplugs_soft. intros H. apply map_nodes_plugs_ok in H as (L & P & Hh & D & A & _).
      exists (same_name_rule nodes). rewrite same_name_combine.
      repeat split; auto. apply combine_fst. lia.
Qed.

Lemma line_result_sites d nodes plugs e : line_result d nodes plugs = inl e ->
  e = S_UNKPLUG \/ e = S_DUPPLUG \/ e = S_NOPLUGS \/ e = S_NONODES.
Proof.
  assert (M1 : forall hard pl nd p e, map_one hard pl nd p = inl e -> e = S_UNKPLUG \/ e = S_DUPPLUG).
  { intros hard pl nd p e0. unfold map_one. destruct (plug_find p pl) as [[m|]|]; [|discriminate|destruct hard];
      intros H; inversion H; auto. }
  unfold line_result. destruct plugs as [ps|].
  - generalize (d_plugs d). revert ps. induction nodes as [|nd r IH]; intros ps pl H; cbn [map_nodes_plugs] in H.
    + destruct ps; inversion H; auto.
    + destruct ps as [|p pr]; [inversion H; auto|].
      destruct (map_one (d_hardwired d) pl nd p) as [e0|pl1] eqn:M; [inversion H; subst; destruct (M1 _ _ _ _ _ M); auto|].
      eapply IH; eassumption.
  - generalize (d_plugs d). induction nodes as [|nd r IH]; intros pl H; cbn [map_nodes_noplugs] in H; [discriminate|].
    destruct (d_hardwired d).
    + destruct (map_next pl nd); [eapply IH; eassumption | inversion H; auto].
    + destruct (map_one false pl nd nd) as [e0|pl1] eqn:M; [inversion H; subst; destruct (M1 _ _ _ _ _ M); auto|].
      eapply IH; eassumption.
Qed.

(* ------------------------------------------------------------------ update_dev: the FIRST device of that name *)
Lemma update_dev_none name f : forall l, update_dev name f l = None <-> (forall x, In x l -> d_name x <> name).
Proof.
  induction l as [|d r IH]; cbn [update_dev]; [split; [intros _ x [] | reflexivity]|].
  destruct (text_eqb (d_name d) name) eqn:E.
  - teq E. split; [discriminate | intros H; exfalso; apply (H d); [left; reflexivity | assumption]].
  - tneq E. destruct (update_dev name f r) as [[e|r']|].
    + split; [discriminate|]. intros H. assert (K : forall x, In x r -> d_name x <> name) by (intros x I; apply H; right; assumption).
      apply IH in K. discriminate.
    + split; [discriminate|]. intros H. assert (K : forall x, In x r -> d_name x <> name) by (intros x I; apply H; right; assumption).
      apply IH in K. discriminate.
    + split; [|reflexivity]. intros _ x [<-|I]; [assumption|]. apply (proj1 IH eq_refl); assumption.
Qed.

Lemma update_dev_some name f : forall l r, update_dev name f l = Some r ->
  exists l1 d l2, l = l1 ++ d :: l2 /\ d_name d = name /\ (forall x, In x l1 -> d_name x <> name) /\
                  r = match f d with inl e => inl e | inr d' => inr (l1 ++ d' :: l2) end.
Proof.
  induction l as [|d r0 IH]; intros r H; cbn [update_dev] in H; [discriminate|].
  destruct (text_eqb (d_name d) name) eqn:E.
  - teq E. inversion H; subst; clear H. exists [], d, r0. split; [reflexivity|]. split; [first [assumption | reflexivity]|]. split; [intros x []|]. destruct (f d); reflexivity.
  - tneq E. destruct (update_dev name f r0) as [r1|] eqn:U; [|discriminate].
    destruct (IH _ eq_refl) as (l1 & d0 & l2 & E1 & E2 & E3 & E4). exists (d :: l1), d0, l2. subst r0.
    split; [reflexivity|]. split; [assumption|]. split; [intros x [<-|I]; auto|].
    subst r1. destruct (f d0); inversion H; reflexivity.
Qed.

(* ------------------------------------------------------------------ make_node: inversion of an accepted line *)
Section Node.
  Variable hl : text -> option (list text).

  Lemma make_node_ok c a b p c' : make_node hl c a b p = Ok c' ->
    exists l1 d l2 nodes plugs pl',
      c_devs c = l1 ++ d :: l2 /\ d_name d = b /\ (forall x, In x l1 -> d_name x <> b) /\
      hl a = Some nodes /\ expand_opt hl p = Some plugs /\ line_result d nodes plugs = inr pl' /\
      c_devs c' = l1 ++ set_plugs d pl' :: l2 /\ add_nodes (c_nodes c) nodes = Some (c_nodes c') /\
      c_specs c' = c_specs c /\ c_aliases c' = c_aliases c /\ c_listen c' = c_listen c /\ c_warned c' = c_warned c.
  Proof.
    unfold make_node, fail. destruct (update_dev b (fun d => inr d) (c_devs c)) as [r0|]; [|intros X; discriminate X].
    destruct (hl a) as [nodes|]; [|intros X; discriminate X]. fold (expand_opt hl p).
    destruct (expand_opt hl p) as [plugs|]; [|intros X; discriminate X].
    match goal with |- context [update_dev b ?f (c_devs c)] => destruct (update_dev b f (c_devs c)) as [r|] eqn:U end; [|intros X; discriminate X].
    apply update_dev_some in U as (l1 & d & l2 & E1 & E2 & E3 & E4). cbn beta in E4.
    change (match plugs with Some ps => map_nodes_plugs (d_hardwired d) (d_plugs d) nodes ps | None => map_nodes_noplugs (d_hardwired d) (d_plugs d) nodes end)
      with (line_result d nodes plugs) in E4.
    destruct (line_result d nodes plugs) as [e|pl'] eqn:LR; subst r; [intros X; discriminate X|].
    destruct (add_nodes (c_nodes c) nodes) as [all|] eqn:A; [|intros X; discriminate X].
    intros H; inversion H; subst; clear H. exists l1, d, l2, nodes, plugs, pl'. cbn [c_devs c_nodes c_specs c_aliases c_listen c_warned].
    repeat split; auto.
  Qed.

  (* every refusal of a node line is an exit with a diagnostic that names file and line *)
  Lemma make_node_total c a b p :
    (exists c', make_node hl c a b p = Ok c') \/ (exists s, make_node hl c a b p = Exit 1 s /\ site_hasline s = true).
  Proof.
    assert (F : forall s, (s < 40)%nat -> exists s', @fail cfg c s = Exit 1 s' /\ site_hasline s' = true).
    { intros s L. unfold fail. destruct (c_warned c); eexists; (split; [reflexivity|]); unfold site_hasline.
      - apply orb_true_iff. right. apply Nat.leb_le. unfold WARNED. lia.
      - apply orb_true_iff. left. apply Nat.ltb_lt. assumption. }
    unfold make_node. destruct (update_dev b (fun d => inr d) (c_devs c)); [|right; apply F; unfold S_NO_DEVICE; lia].
    destruct (hl a) as [nodes|]; [|right; apply F; unfold S_BAD_NODELIST; lia]. fold (expand_opt hl p).
    destruct (expand_opt hl p) as [plugs|]; [|right; apply F; unfold S_BAD_PLUGLIST; lia].
    match goal with |- context [update_dev b ?f (c_devs c)] => destruct (update_dev b f (c_devs c)) as [r|] eqn:U end;
      [|right; apply F; unfold S_NO_DEVICE; lia].
    apply update_dev_some in U as (l1 & d & l2 & E1 & E2 & E3 & E4). cbn beta in E4.
    change (match plugs with Some ps => map_nodes_plugs (d_hardwired d) (d_plugs d) nodes ps | None => map_nodes_noplugs (d_hardwired d) (d_plugs d) nodes end)
      with (line_result d nodes plugs) in E4.
    destruct (line_result d nodes plugs) as [e|pl'] eqn:LR; subst r.
    - right. apply F. apply line_result_sites in LR. unfold S_UNKPLUG, S_DUPPLUG, S_NOPLUGS, S_NONODES in LR. lia.
    - destruct (add_nodes (c_nodes c) nodes); [left; eexists; reflexivity | right; apply F; unfold S_DUP_NODE; lia].
  Qed.
End Node.

(* ------------------------------------------------------------------ the map of a device list *)
Definition entries_of (devs : list dev_s) : list entry := flat_map dev_entries devs.

Lemma map_of_devs c : map_of c = entries_of (c_devs c).
Proof. reflexivity. Qed.

Lemma entries_app a b : entries_of (a ++ b) = entries_of a ++ entries_of b.
Proof. apply flat_map_app. Qed.

Lemma entries_cons d r : entries_of (d :: r) = dev_entries d ++ entries_of r.
Proof. reflexivity. Qed.

Definition tag (b : text) (np : text * text) : entry := (fst np, b, snd np).

Lemma dev_entries_set d pl : dev_entries (set_plugs d pl) = map (tag (d_name d)) (assigned pl).
Proof. reflexivity. Qed.

Lemma entries_update l1 d l2 pl' pairs : Permutation (assigned pl') (pairs ++ assigned (d_plugs d)) ->
  Permutation (entries_of (l1 ++ set_plugs d pl' :: l2)) (map (tag (d_name d)) pairs ++ entries_of (l1 ++ d :: l2)).
Proof.
  intros P. rewrite !entries_app, !entries_cons, dev_entries_set.
  eapply perm_trans; [apply Permutation_app_head, Permutation_app_tail, Permutation_map, P|].
  rewrite map_app. change (map (tag (d_name d)) (assigned (d_plugs d))) with (dev_entries d).
  rewrite <- !app_assoc. apply Permutation_app_swap_app.
Qed.

Lemma map_tag_node b pairs : map e_node (map (tag b) pairs) = map fst pairs.
Proof. rewrite map_map. reflexivity. Qed.

(* the per-line theorem at configuration level *)
Theorem make_node_rule hl c a b p c' : make_node hl c a b p = Ok c' ->
  exists l1 d l2 nodes plugs pairs,
    c_devs c = l1 ++ d :: l2 /\ d_name d = b /\ (forall x, In x l1 -> d_name x <> b) /\
    hl a = Some nodes /\ expand_opt hl p = Some plugs /\
    line_rule (d_hardwired d) (d_plugs d) nodes plugs = Some pairs /\ map fst pairs = nodes /\
    Permutation (map_of c') (map (tag b) pairs ++ map_of c) /\
    c_nodes c' = c_nodes c ++ nodes /\ NoDup nodes /\ (forall n, In n nodes -> ~ In n (c_nodes c)).
Proof.
  intros H. apply make_node_ok in H as (l1 & d & l2 & nodes & plugs & pl' & E1 & E2 & E3 & E4 & E5 & E6 & E7 & E8 & _).
  apply line_result_rule in E6 as (pairs & R1 & R2 & R3 & _). apply add_nodes_spec in E8 as (A1 & A2 & A3).
  exists l1, d, l2, nodes, plugs, pairs. repeat split; auto.
  rewrite !map_of_devs, E7, E1, <- E2. apply entries_update. assumption.
Qed.

(* ------------------------------------------------------------------ plug names of a specification are distinct (F34) *)
Lemma gen_plugnames_checked : plugnames_checked = true.
Proof. reflexivity. Qed.

Definition spec_nodup (s : spec_s) : Prop := forall l, ss_plugs s = Some l -> NoDup l.

Ltac ok_inv H :=
  repeat (match type of H with
          | bind ?x _ = Ok _ => let E := fresh "E" in destruct x as [?| | | |] eqn:E; cbn [bind] in H; try discriminate H
          | @fail _ _ _ = Ok _ => discriminate H
          | match ?x with _ => _ end = Ok _ => let E := fresh "E" in destruct x eqn:E; try discriminate H
          end).

Lemma parse_strings_nodup lend : forall n c toks acc l r,
  parse_strings lend n c toks acc = Ok (l, r) -> NoDup acc -> NoDup l.
Proof.
  induction n as [|n IH]; intros c toks acc l r H ND; cbn [parse_strings] in H; [discriminate H|].
  destruct (next lend toks) as [[t r0]| | | |]; cbn [bind] in H; try discriminate H.
  destruct t as [[k| |s| | | | | |]|]; try discriminate H.
  - rewrite gen_plugnames_checked in H. cbn [andb] in H. destruct (mem_text s acc) eqn:M; [discriminate H|].
    eapply IH; [exact H|]. apply nodup_app; [assumption | constructor; [intros [] | constructor]|].
    intros x I [<-|[]]. apply mem_text_not_in in M. contradiction.
  - destruct acc; [discriminate H|]. inversion H; subst. assumption.
Qed.

Lemma parse_spec_items_nodup stale lend : forall n c toks sp0 k s r,
  parse_spec_items stale lend n c toks sp0 k = Ok (s, r) -> spec_nodup sp0 -> spec_nodup s.
Proof.
  induction n as [|n IH]; intros c toks sp0 k s r H ND; cbn [parse_spec_items] in H; [discriminate H|].
  destruct (next lend toks) as [[t r0]| | | |]; cbn [bind] in H; try discriminate H.
  destruct t as [[kw0| | | | | | | |]|]; try discriminate H.
  - destruct kw0; try discriminate H.
    + ok_inv H. eapply IH; [exact H|]. exact ND.
    + ok_inv H. eapply IH; [exact H|]. exact ND.
    + ok_inv H. eapply IH; [exact H|]. exact ND.
  - ok_inv H. eapply IH; [exact H|]. intros lx X. cbn [ss_plugs] in X. inversion X; subst.
    match goal with E : parse_strings _ _ _ _ _ = Ok _ |- _ => eapply parse_strings_nodup; [exact E | constructor] end.
  - destruct k; [discriminate H|]. inversion H; subst. exact ND.
Qed.

(* ------------------------------------------------------------------ the configuration invariant *)
Definition dev_ok (specs : list spec_s) (d : dev_s) : Prop :=
  (d_hardwired d = false -> all_assigned (d_plugs d) /\ NoDup (map fst (d_plugs d))) /\
  (d_hardwired d = true -> exists sp, find_spec (d_spec d) specs = Some sp /\ ss_plugs sp = Some (map fst (d_plugs d))).

(* a device hidden behind an earlier device of the same name never receives a node (dev_findbyname: first match) *)
Fixpoint shadow_ok (devs : list dev_s) : Prop :=
  match devs with
  | [] => True
  | d :: r => (forall x, In x r -> d_name x = d_name d -> assigned (d_plugs x) = []) /\ shadow_ok r
  end.

Definition minv (c : cfg) : Prop :=
  NoDup (c_nodes c) /\ Permutation (map e_node (map_of c)) (c_nodes c) /\
  (forall d, In d (c_devs c) -> dev_ok (c_specs c) d) /\ shadow_ok (c_devs c) /\
  (forall s, In s (c_specs c) -> spec_nodup s).

Lemma minv_empty : minv cfg_empty.
Proof. unfold minv. split; [constructor|]. split; [apply perm_nil|]. split; [intros d []|]. split; [exact I | intros s []]. Qed.

Lemma shadow_update : forall l1 d l2 pl', (forall x, In x l1 -> d_name x <> d_name d) ->
  shadow_ok (l1 ++ d :: l2) -> shadow_ok (l1 ++ set_plugs d pl' :: l2).
Proof.
  induction l1 as [|x l1 IH]; intros d l2 pl' F S; cbn [app shadow_ok] in *.
  - destruct S as [S1 S2]. split; assumption.
  - destruct S as [S1 S2]. split.
    + intros y I E. apply in_app_or in I as [I|[<-|I]].
      * apply S1; [apply in_or_app; left; assumption | assumption].
      * exfalso. apply (F x); [left; reflexivity | symmetry; exact E].
      * apply S1; [apply in_or_app; right; right; assumption | assumption].
    + apply IH; [intros y I; apply F; right; assumption | assumption].
Qed.

Lemma shadow_snoc : forall l d, assigned (d_plugs d) = [] -> shadow_ok l -> shadow_ok (l ++ [d]).
Proof.
  induction l as [|x l IH]; intros d A S; cbn [app shadow_ok] in *; [split; [intros y [] | exact I]|].
  destruct S as [S1 S2]. split; [|apply IH; assumption].
  intros y I E. apply in_app_or in I as [I|[<-|[]]]; [apply S1; assumption | assumption].
Qed.

Lemma find_spec_app name s : forall l sp, find_spec name l = Some sp -> find_spec name (l ++ [s]) = Some sp.
Proof.
  induction l as [|x r IH]; intros sp H; cbn [find_spec app] in *; [discriminate|].
  destruct (text_eqb (ss_name x) name); [assumption | apply IH; assumption].
Qed.

Lemma dev_ok_specs specs s d : dev_ok specs d -> dev_ok (specs ++ [s]) d.
Proof.
  intros [A B]. split; [assumption|]. intros H. destruct (B H) as (sp & F & P). exists sp. split; [apply find_spec_app; assumption | assumption].
Qed.

Section Inv.
  Variable hl_expand : text -> option (list text).
  Variable regcomp_ok : bool -> text -> bool.
  Variable resolves : text -> text -> bool.
  Variable is_chardev : text -> bool.
  Variable stale_erange : text -> bool.
  Variable lend : lex_end.
  Hypothesis Hlend : lend_ok lend.

  Lemma make_node_minv c a b p : minv c -> sp minv (make_node hl_expand c a b p).
  Proof.
    intros (I1 & I2 & I3 & I4 & I5). destruct (make_node_total hl_expand c a b p) as [[c' E]|[s [E _]]]; rewrite E; [|reflexivity].
    cbn [sp]. pose proof E as E0.
    apply make_node_ok in E as (l1 & d & l2 & nodes & plugs & pl' & E1 & E2 & E3 & E4 & E5 & E6 & E7 & E8 & E9 & _).
    pose proof E6 as LR. apply line_result_rule in E6 as (pairs & R1 & R2 & R3 & R4 & R5 & R6).
    apply add_nodes_spec in E8 as (A1 & A2 & A3).
    assert (Id : In d (c_devs c)) by (rewrite E1; apply in_or_app; right; left; reflexivity).
    split; [|split; [|split; [|split]]]; [| | | |rewrite E9; exact I5].
    - rewrite A1. apply nodup_app; auto. intros x Ix Jx. apply (A3 x); assumption.
    - rewrite A1, map_of_devs, E7. rewrite map_of_devs, E1 in I2. subst b.
      eapply perm_trans; [apply Permutation_map, entries_update, R3|].
      rewrite map_app, map_tag_node, R2. eapply perm_trans; [apply Permutation_app_comm|]. apply Permutation_app_tail. assumption.
    - rewrite E9, E7. intros x Ix. apply in_app_or in Ix as [Ix|[<-|Ix]];
        [apply I3; rewrite E1; apply in_or_app; left; assumption | | apply I3; rewrite E1; apply in_or_app; right; right; assumption].
      destruct (I3 d Id) as [Ka Kb]. split; cbn [set_plugs d_hardwired d_plugs d_spec].
      + intros Hh. destruct (Ka Hh). split; auto.
      + intros Hh. destruct (Kb Hh) as (sp0 & F & P). exists sp0. split; [assumption|]. rewrite R4; assumption.
    - rewrite E7. rewrite E1 in I4. apply shadow_update; [subst b; assumption | assumption].
  Qed.

  Lemma make_device_minv c name spec host flags :
    minv c -> sp minv (make_device regcomp_ok resolves is_chardev stale_erange c name spec host flags).
  Proof.
    intros (I1 & I2 & I3 & I4 & I5). unfold make_device. destruct (find_spec spec (c_specs c)) as [s|] eqn:F; [|apply sp_fail].
    eapply sp_bind; [apply parse_hoststr_sp|]. intros tr _. cbn beta.
    destruct (forallb (regex_ok regcomp_ok) _); [|apply sp_fail]. cbn [sp].
    set (d := mkDev name spec tr _ _ _ _).
    assert (A : assigned (d_plugs d) = []).
    { subst d. cbn [d_plugs]. destruct (ss_plugs s) as [l|]; [|reflexivity]. induction l; [reflexivity | assumption]. }
    split; [|split; [|split; [|split]]]; cbn [c_nodes c_devs c_specs]; auto.
    - rewrite map_of_devs. cbn [c_devs]. rewrite entries_app. change (entries_of [d]) with (dev_entries d ++ []).
      unfold dev_entries. rewrite A. cbn [map app]. rewrite app_nil_r. rewrite map_of_devs in I2. exact I2.
    - intros x Ix. apply in_app_or in Ix as [Ix|[<-|[]]]; [apply I3; assumption|].
      subst d. split; cbn [d_hardwired d_plugs d_spec]; destruct (ss_plugs s) as [l|] eqn:P; try discriminate.
      + intros _. split; [intros e [] | constructor].
      + intros _. exists s. split; [assumption|]. rewrite P, map_map. cbn [fst]. rewrite map_id. reflexivity.
    - apply shadow_snoc; assumption.
  Qed.

  Lemma make_alias_minv c name hosts : minv c -> sp minv (make_alias hl_expand c name hosts).
  Proof.
    intros C. unfold make_alias. destruct (alias_find name (c_aliases c)); [apply sp_fail|].
    destruct (hl_expand hosts); [|apply sp_fail]. exact C.
  Qed.

  (* the generic walk over parse_items: any property of configurations that each semantic action preserves *)
  Section Walk.
    Variables P Q : cfg -> Prop.          (* P: preserved by every action; Q: what _validate_config adds at the end *)
    Hypothesis P_val : forall c, P c -> sp Q (validate c).
    Hypothesis P_dev : forall c name spec host flags, P c -> sp P (make_device regcomp_ok resolves is_chardev stale_erange c name spec host flags).
    Hypothesis P_node : forall c a b p, P c -> sp P (make_node hl_expand c a b p).
    Hypothesis P_alias : forall c a b, P c -> sp P (make_alias hl_expand c a b).
    Hypothesis P_listen : forall c s, P c -> P (mkCfg (c_specs c) (c_devs c) (c_nodes c) (c_aliases c) (c_listen c ++ [s]) (c_warned c)).
    Hypothesis P_warn : forall c, P c -> P (mkCfg (c_specs c) (c_devs c) (c_nodes c) (c_aliases c) (c_listen c) true).
    Hypothesis P_spec : forall c s, P c -> spec_nodup s -> P (mkCfg (c_specs c ++ [s]) (c_devs c) (c_nodes c) (c_aliases c) (c_listen c) (c_warned c)).

    Ltac bind_with L := eapply sp_bind; [apply L; try assumption|]; cbn beta.

    Lemma set_tcpwrap_P c v : P c -> sp P (set_tcpwrap c v).
    Proof. intros C. unfold set_tcpwrap. destruct (v && negb have_tcp_wrappers); [apply sp_fail | exact C]. Qed.

    Lemma parse_items_walk : forall n c toks, P c -> (length toks < n)%nat ->
      sp Q (parse_items hl_expand regcomp_ok resolves is_chardev stale_erange lend n c toks).
    Proof.
      induction n as [|n IH]; intros c toks C L; [lia|].
      cbn [parse_items]. bind_with next_sp. intros [t r] [H1 H2]; cbn [fst snd] in *.
      destruct t as [t|]; [|apply P_val; assumption].
      assert (R : (length r < length toks)%nat) by (apply H2; discriminate).
      destruct t as [k| | | | | | | |]; try apply sp_fail.
      destruct k; try apply sp_fail.
      - bind_with expect_str_sp. intros [s1 r1] L1; cbn [snd] in L1. bind_with expect_str_sp. intros [s2 r2] L2; cbn [snd] in L2.
        eapply sp_bind; [apply P_alias; assumption|]. intros c' C'. apply IH; [assumption | lia].
      - bind_with expect_str_sp. intros [s1 r1] L1; cbn [snd] in L1. bind_with expect_str_sp. intros [s2 r2] L2; cbn [snd] in L2.
        bind_with expect_str_sp. intros [s3 r3] L3; cbn [snd] in L3.
        bind_with next_sp. intros [t4 r4] [H3 H4]; cbn [fst snd] in *.
        assert (D : sp Q (bind (make_device regcomp_ok resolves is_chardev stale_erange c s1 s2 s3 None)
                               (fun c' => parse_items hl_expand regcomp_ok resolves is_chardev stale_erange lend n c' r3))).
        { eapply sp_bind; [apply P_dev; assumption|]. intros c' C'. apply IH; [assumption | lia]. }
        destruct t4 as [[]|]; try exact D.
        eapply sp_bind; [apply P_dev; assumption|]. intros c' C'. apply IH; [assumption | lia].
      - bind_with expect_str_sp. intros [s1 r1] L1; cbn [snd] in L1. apply IH; [apply P_listen; assumption | lia].
      - bind_with expect_str_sp. intros [s1 r1] L1; cbn [snd] in L1. bind_with expect_str_sp. intros [s2 r2] L2; cbn [snd] in L2.
        bind_with next_sp. intros [t3 r3] [H3 H4]; cbn [fst snd] in *.
        assert (D : sp Q (bind (make_node hl_expand c s1 s2 None)
                               (fun c' => parse_items hl_expand regcomp_ok resolves is_chardev stale_erange lend n c' r2))).
        { eapply sp_bind; [apply P_node; assumption|]. intros c' C'. apply IH; [assumption | lia]. }
        destruct t3 as [[]|]; try exact D.
        eapply sp_bind; [apply P_node; assumption|]. intros c' C'. apply IH; [assumption | lia].
      - bind_with expect_str_sp. intros [s1 r1] L1; cbn [snd] in L1.
        destruct (mem_text s1 level_names); [apply IH; [assumption | lia] | apply sp_fail].
      - bind_with expect_str_sp. intros [name r1] L1; cbn [snd] in L1.
        bind_with expect_tok_sp. intros r2 L2.
        assert (S3 : sp (fun p => (length (snd p) < length r2)%nat) (parse_spec_items stale_erange lend n c r2 (mkSpecS name false None []) O))
          by (apply parse_spec_items_sp; [assumption | lia]).
        destruct (parse_spec_items stale_erange lend n c r2 (mkSpecS name false None []) O) as [[s r3]| | | |] eqn:E3;
          cbn [sp] in S3; try contradiction; cbn [bind sp]; [|exact S3].
        cbn [snd] in S3. apply parse_spec_items_nodup in E3; [|intros l0 X; discriminate X].
        destruct (login_required && negb (has_script pm_log_in (ss_scripts s))); [apply sp_fail|].
        apply IH; [apply P_spec; assumption | lia].
      - bind_with next_sp. intros [t1 r1] [H3 H4]; cbn [fst snd] in *.
        assert (D : sp Q (bind (set_tcpwrap (mkCfg (c_specs c) (c_devs c) (c_nodes c) (c_aliases c) (c_listen c) true) true)
                               (fun c' => parse_items hl_expand regcomp_ok resolves is_chardev stale_erange lend n c' r))).
        { eapply sp_bind; [apply set_tcpwrap_P, P_warn; assumption|]. intros c' C'. apply IH; [assumption | lia]. }
        destruct t1 as [[k1| | | | | | | |]|]; try exact D.
        destruct k1; try exact D.
        all: eapply sp_bind; [apply set_tcpwrap_P; assumption|]; intros c' C'; apply IH; [assumption|];
          assert (length r1 < length r)%nat by (apply H4; discriminate); lia.
    Qed.
  End Walk.

  Lemma validate_ok c c' : validate c = Ok c' -> c' = c /\ aliases_ok c /\ c_nodes c <> [].
  Proof.
    unfold validate. destruct (forallb _ (c_aliases c) && _) eqn:V; [|unfold fail; intros X; discriminate X].
    intros H. assert (Ec : c' = c) by (inversion H; reflexivity). subst c'. clear H.
    apply andb_true_iff in V as [V1 V2]. split; [reflexivity|]. split.
    - intros name hosts h I J. rewrite forallb_forall in V1. specialize (V1 _ I). cbn [snd] in V1.
      rewrite forallb_forall in V1. apply mem_text_in, V1, J.
    - destruct (c_nodes c); [discriminate | intros X; discriminate X].
  Qed.

  Definition minv_final (c : cfg) : Prop := minv c /\ aliases_ok c /\ c_nodes c <> [].

  Lemma parse_items_minv n c toks : minv c -> (length toks < n)%nat ->
    sp minv_final (parse_items hl_expand regcomp_ok resolves is_chardev stale_erange lend n c toks).
  Proof.
    apply (parse_items_walk minv minv_final).
    - intros c0 C. destruct (validate c0) as [c1| | | |] eqn:V; try (unfold validate, fail in V; destruct (_ && _) in V; discriminate V).
      + apply validate_ok in V as (-> & A & N). cbn [sp]. split; [assumption | split; assumption].
      + unfold validate, fail in V. destruct (_ && _) in V; [discriminate V | inversion V; reflexivity].
    - apply make_device_minv.
    - apply make_node_minv.
    - apply make_alias_minv.
    - intros c0 s C; exact C.
    - intros c0 C; exact C.
    - intros c0 s (I1 & I2 & I3 & I4 & I5) Ns. split; [|split; [|split; [|split]]]; auto.
      + cbn [c_devs c_specs]. intros d Id. apply dev_ok_specs, I3, Id.
      + cbn [c_specs]. intros s0 Is. apply in_app_or in Is as [Is|[<-|[]]]; [apply I5, Is | exact Ns].
  Qed.

  (* ---- what is in the map stays in the map, conf_nodes only grows at its end *)
  Definition ext (c0 c : cfg) : Prop := incl (map_of c0) (map_of c) /\ exists extra, c_nodes c = c_nodes c0 ++ extra.

  Lemma ext_refl c : ext c c.
  Proof. split; [apply incl_refl | exists []; rewrite app_nil_r; reflexivity]. Qed.

  Lemma parse_items_ext c0 n c toks : ext c0 c -> (length toks < n)%nat ->
    sp (ext c0) (parse_items hl_expand regcomp_ok resolves is_chardev stale_erange lend n c toks).
  Proof.
    apply (parse_items_walk (ext c0) (ext c0)).
    - intros c1 C. unfold validate. destruct (_ && _); [exact C | apply sp_fail].
    - intros c1 name spec host flags [X1 [ex X2]]. unfold make_device. destruct (find_spec spec (c_specs c1)) as [s|]; [|apply sp_fail].
      eapply sp_bind; [apply parse_hoststr_sp|]. intros tr _. cbn beta.
      destruct (forallb (regex_ok regcomp_ok) _); [|apply sp_fail]. cbn [sp]. split; [|exists ex; exact X2].
      rewrite (map_of_devs (mkCfg _ _ _ _ _ _)). cbn [c_devs]. rewrite entries_app. intros e Ie. apply in_or_app. left. apply X1, Ie.
    - intros c1 a b p [X1 [ex X2]]. destruct (make_node_total hl_expand c1 a b p) as [[c' E]|[s [E _]]]; rewrite E; [|reflexivity].
      cbn [sp]. apply make_node_rule in E as (l1 & d & l2 & nodes & plugs & pairs & _ & _ & _ & _ & _ & _ & _ & Pm & Nn & _).
      split.
      + intros e Ie. eapply Permutation_in; [apply Permutation_sym, Pm|]. apply in_or_app. right. apply X1, Ie.
      + exists (ex ++ nodes). rewrite Nn, X2, app_assoc. reflexivity.
    - intros c1 a b C. unfold make_alias. destruct (alias_find a (c_aliases c1)); [apply sp_fail|].
      destruct (hl_expand b); [|apply sp_fail]. exact C.
    - intros c1 s C; exact C.
    - intros c1 C; exact C.
    - intros c1 s C _; exact C.
  Qed.
End Inv.

(* ------------------------------------------------------------------ uniqueness of "the first device named b" *)
Lemma first_split_unique b : forall l1 (d : dev_s) l2 l1' d' l2',
  l1 ++ d :: l2 = l1' ++ d' :: l2' -> d_name d = b -> d_name d' = b ->
  (forall x, In x l1 -> d_name x <> b) -> (forall x, In x l1' -> d_name x <> b) -> l1 = l1' /\ d = d' /\ l2 = l2'.
Proof.
  induction l1 as [|x l1 IH]; intros d l2 l1' d' l2' E N N' F F'.
  - destruct l1' as [|y l1']; cbn [app] in E; injection E as E1 E2.
    + auto.
    + exfalso. apply (F' y); [left; reflexivity | rewrite <- E1; assumption].
  - destruct l1' as [|y l1']; cbn [app] in E; injection E as E1 E2.
    + exfalso. apply (F x); [left; reflexivity | rewrite E1; assumption].
    + destruct (IH d l2 l1' d' l2' E2 N N') as (A & B & C).
      * intros z I; apply F; right; assumption.
      * intros z I; apply F'; right; assumption.
      * rewrite E1, A. auto.
Qed.
