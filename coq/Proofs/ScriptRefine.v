(* C08, whole run: the interpreter model (Model/Script.v: context stack, flags, iterators, do_while, advance)
   refines the trace semantics Spec/ScriptSem.v.

   Method (DESIGN A.5, in continuation-passing form).  For a context stack the RESIDUAL [resid stack] is the
   semantic relation "what is still to happen": for every context, top first, the rest of its statement in
   progress (read off its flags the way the handlers read them), then the statements after it in its block.
   The invariant of a run that has emitted the observations [tr] so far is
        forall tr' s' st,  resid stack s tr' s' st  ->  exec_block script ps s0 (tr ++ tr') s' st
   i.e. whatever the residual still allows, appended to what was observed, is a trace of the script.  Every
   [process_stmt] call, every push, every [advance]/pop only has to show "new residual, prefixed with the new
   observations, is included in the old residual", which is a local fact about one statement. *)
From Coq Require Import List NArith ZArith Bool Lia.
From PM Require Import Base.Bytes Base.Outcome Base.Dec Gen.GenConsts Model.ScriptAst Model.Enqueue Model.Script
  Spec.ScriptSem Proofs.ScriptProofs.
Import ListNotations.
Local Open Scope Z_scope.

(* ---------- relations on traces ---------- *)
Definition trel := sst -> list obs -> sst -> status -> Prop.
Definition tincl (R R' : trel) : Prop := forall s tr s' st, R s tr s' st -> R' s tr s' st.
Definition skip : trel := fun s tr s' st => tr = [] /\ s' = s /\ st = Done.
Definition seq (R1 R2 : trel) : trel := fun s tr s' st =>
  (exists tr1 s1 tr2, tr = tr1 ++ tr2 /\ R1 s tr1 s1 Done /\ R2 s1 tr2 s' st)
  \/ (st <> Done /\ R1 s tr s' st).

(* "R' started in s1, prefixed with o, is allowed by R started in s" *)
Definition after (R : trel) (s : sst) (o : list obs) (R' : trel) (s1 : sst) : Prop :=
  forall tr' s' st, R' s1 tr' s' st -> R s (o ++ tr') s' st.

Lemma tincl_refl R : tincl R R.
Proof. intros s tr s' st H. exact H. Qed.
Lemma tincl_trans A B C : tincl A B -> tincl B C -> tincl A C.
Proof. intros H1 H2 s tr s' st H. apply H2, H1, H. Qed.

Lemma after_tincl R s R' : tincl R' R -> after R s [] R' s.
Proof. intros H tr' s' st H1. cbn [app]. apply H, H1. Qed.
Lemma after_trans R s o1 R1 s1 o2 R2 s2 : after R s o1 R1 s1 -> after R1 s1 o2 R2 s2 -> after R s (o1 ++ o2) R2 s2.
Proof. intros H1 H2 tr' s' st H. rewrite <- app_assoc. apply H1, H2, H. Qed.
Lemma after_incl_l R R0 s o R' s1 : tincl R R0 -> after R s o R' s1 -> after R0 s o R' s1.
Proof. intros Hi H tr' s' st H1. apply Hi, H, H1. Qed.
Lemma after_incl_r R s o R' R'' s1 : tincl R'' R' -> after R s o R' s1 -> after R s o R'' s1.
Proof. intros Hi H tr' s' st H1. apply H, Hi, H1. Qed.

Lemma seq_mono A A' B B' : tincl A A' -> tincl B B' -> tincl (seq A B) (seq A' B').
Proof.
  intros HA HB s tr s' st [(tr1 & s1 & tr2 & -> & H1 & H2)|(Hn & H1)].
  - left. exists tr1, s1, tr2. auto.
  - right. auto.
Qed.
Lemma seq_assoc_l A B C : tincl (seq A (seq B C)) (seq (seq A B) C).
Proof.
  intros s tr s' st [(tr1 & s1 & tr2 & -> & H1 & [(tr21 & s2 & tr22 & -> & H21 & H22)|(Hn & H2)])|(Hn & H1)].
  - left. exists (tr1 ++ tr21), s2, tr22. split; [now rewrite app_assoc|]. split; [|exact H22].
    left. exists tr1, s1, tr21. auto.
  - right. split; [exact Hn|]. left. exists tr1, s1, tr2. auto.
  - right. split; [exact Hn|]. right. auto.
Qed.
Lemma seq_skip_l R : tincl (seq skip R) R.
Proof.
  intros s tr s' st [(tr1 & s1 & tr2 & -> & (-> & -> & _) & H2)|(Hn & (_ & _ & ->))]; [exact H2|congruence].
Qed.
Lemma seq_skip_r R : tincl (seq R skip) R.
Proof.
  intros s tr s' st [(tr1 & s1 & tr2 & -> & H1 & (-> & -> & ->))|(Hn & H1)]; [now rewrite app_nil_r|exact H1].
Qed.
Lemma skip_seq R : tincl R (seq skip R).
Proof. intros s tr s' st H. left. exists [], s, tr. repeat split; auto. Qed.

(* lifting a local step through the continuation *)
Lemma after_seq (A A' B : trel) s o s1 : after A s o A' s1 -> after (seq A B) s o (seq A' B) s1.
Proof.
  intros H tr' s' st [(tr1 & s2 & tr2 & -> & H1 & H2)|(Hn & H1)].
  - left. exists (o ++ tr1), s2, tr2. split; [now rewrite app_assoc|]. split; [apply H, H1|exact H2].
  - right. split; [exact Hn|apply H, H1].
Qed.
(* a statement that completes with observations o *)
Lemma after_done (A B : trel) s o s1 : A s o s1 Done -> after (seq A B) s o B s1.
Proof. intros H tr' s' st H1. left. exists o, s1, tr'. auto. Qed.
Lemma after_done2 (A T R : trel) s o s1 : A s o s1 Done -> after (seq (seq A T) R) s o (seq T R) s1.
Proof.
  intros H tr' s' st H1. apply seq_assoc_l. left. exists o, s1, tr'. auto.
Qed.

(* ---------- the deciding functions of the model are those of the specification ---------- *)
Section Bridge.
  Variable rmatch : text -> text -> option pmatch.
  Variable compress : list text -> text.

  Definition arg_text (a : option text) : text := match a with Some s => s | None => null_text end.

  Lemma fmt_subst_sem : forall fuel fmt a str,
    (length fmt < fuel)%nat -> fmt_subst fuel fmt a = Some str -> str = subst fmt (arg_text a).
  Proof.
    induction fuel as [|f IH]; intros fmt a str Hl H; [lia|].
    destruct fmt as [|c r]; cbn [fmt_subst] in H.
    - inversion H. reflexivity.
    - destruct (N.eq_dec c 37) as [->|Hc].
      + destruct r as [|c2 r2]; [discriminate|].
        destruct (N.eq_dec c2 115) as [->|Hs].
        * destruct (fmt_subst f r2 a) eqn:E; [|discriminate]. inversion H; subst.
          cbn [subst]. f_equal. apply (IH r2 a t); [cbn in Hl; lia|exact E].
        * destruct (N.eq_dec c2 37) as [->|Hp].
          -- destruct (fmt_subst f r2 a) eqn:E; [|discriminate]. inversion H; subst.
             cbn [subst]. f_equal. apply (IH r2 a t); [cbn in Hl; lia|exact E].
          -- exfalso. destruct c2 as [|p]; [discriminate|].
             repeat (destruct p as [p|p|]; try discriminate; try (now apply Hs); try (now apply Hp)).
      + assert (Hgen : match fmt_subst f r a with Some x => Some (c :: x) | None => None end = Some str).
        { destruct c as [|p]; [exact H|].
          repeat (destruct p as [p|p|]; try exact H; try (exfalso; now apply Hc)). }
        destruct (fmt_subst f r a) eqn:E; [|discriminate]. inversion Hgen; subst.
        assert (Hs : subst (c :: r) (arg_text a) = c :: subst r (arg_text a)).
        { destruct c as [|p]; [reflexivity|].
          repeat (destruct p as [p|p|]; try reflexivity; try (exfalso; now apply Hc)). }
        rewrite Hs. f_equal. apply (IH r a t); [cbn in Hl; lia|exact E].
  Qed.

  Lemma hsprintf1_sem fmt a str : hsprintf1 fmt a = Some str -> str = subst fmt (arg_text a).
  Proof.
    unfold hsprintf1. destruct (Nat.ltb 1 (count_pct_s fmt)); [discriminate|].
    apply fmt_subst_sem. lia.
  Qed.

  Lemma send_arg_sem e : arg_text (send_arg compress e) = sem_arg compress (c_plugs e).
  Proof. unfold send_arg, sem_arg, arg_text. destruct (c_plugs e) as [[|p [|q r]]|]; reflexivity. Qed.

  (* the sub-matches a script can see *)
  Definition model_xm (d : sdev) : option (text * pmatch) := if sd_xm_used d then sd_xm d else None.

  Lemma sub_strdup_sem d i : sub_strdup d i = Ok (capture (model_xm d) i).
  Proof.
    unfold sub_strdup, capture, model_xm. destruct (sd_xm_used d); cbn [negb]; [|reflexivity].
    destruct (sd_xm d) as [[subj pm]|]; [|reflexivity].
    destruct (i <? 0) eqn:E1; cbn [orb].
    - apply Z.ltb_lt in E1. destruct (0 <=? i) eqn:E2; [apply Z.leb_le in E2; lia|reflexivity].
    - apply Z.ltb_ge in E1. assert (E2 : (0 <=? i) = true) by (apply Z.leb_le; lia). rewrite E2. cbn [andb].
      destruct (MAX_MATCH_POS + 1 <=? i) eqn:E3.
      + apply Z.leb_le in E3. destruct (i <=? MAX_MATCH_POS) eqn:E4; [apply Z.leb_le in E4; lia|reflexivity].
      + apply Z.leb_gt in E3. assert (E4 : (i <=? MAX_MATCH_POS) = true) by (apply Z.leb_le; lia). rewrite E4.
        destruct (nth_error pm (Z.to_nat i)) as [[[so eo]|]|]; reflexivity.
  Qed.

  Lemma find_plug_any_find l name : find_plug_any l name = find (fun p => text_eqb (pl_name p) name) l.
  Proof. induction l as [|p r IH]; cbn [find_plug_any find]; [reflexivity|]. destruct (text_eqb _ _); auto. Qed.

  Lemma find_plug_sem d pn :
    match find_plug d pn with Some (_, node) => Some node | None => None end = node_of (sd_plugs d) pn.
  Proof.
    unfold find_plug, node_of. rewrite find_plug_any_find.
    destruct (find _ _) as [p|]; [|reflexivity]. destruct (pl_node p); reflexivity.
  Qed.

  Lemma first_interp_sem ints str dflt : first_interp rmatch ints str dflt = interp rmatch ints str dflt.
  Proof. rewrite first_interp_spec. reflexivity. Qed.

  Lemma ctx_first_plug_sem e :
    match ctx_first_plug e with Some p => Some (pl_name p) | None => None end = first_name (c_plugs e).
  Proof. unfold ctx_first_plug, first_name. destruct (c_plugs e) as [[|p r]|]; reflexivity. Qed.

  Lemma plug_state_sem store a e : plug_state store a e = known_state (c_plugs e) (get_args store a).
  Proof.
    unfold plug_state, known_state.
    destruct (c_plugs e) as [[|p r]|]; destruct (get_args store a); try reflexivity; destruct (pl_node p); reflexivity.
  Qed.
End Bridge.

(* ---------- iteration ---------- *)
Definition remaining (onlynodes : bool) (l : list plug) (i : nat) : list plug :=
  if onlynodes then filter mapped (skipn i l) else skipn i l.

Lemma mapped_unmapped p : mapped p = negb (unmapped p).
Proof. unfold mapped, unmapped. destruct (pl_node p); reflexivity. Qed.

Lemma next_plug_from_remaining on l : forall l' i,
  skipn i l = l' ->
  match next_plug_from on l' i with
  | Some (p, i') => remaining on l i = p :: remaining on l i'
  | None => remaining on l i = []
  end.
Proof.
  induction l' as [|x r IH]; intros i E; cbn [next_plug_from].
  - unfold remaining. rewrite E. destruct on; reflexivity.
  - pose proof (skipn_S_cons i l x r E) as E'. specialize (IH (S i) E').
    destruct (on && unmapped x) eqn:C.
    + apply andb_true_iff in C as [-> Cu].
      assert (Hr : remaining true l i = remaining true l (S i)).
      { unfold remaining. rewrite E, E'. cbn [filter]. rewrite mapped_unmapped, Cu. reflexivity. }
      rewrite Hr. exact IH.
    + unfold remaining. rewrite E, E'. destruct on; [|reflexivity]. cbn [andb] in C. cbn [filter].
      rewrite mapped_unmapped, C. reflexivity.
Qed.

Lemma next_plug_remaining on l i :
  match next_plug on l i with
  | Some (p, i') => remaining on l i = p :: remaining on l i'
  | None => remaining on l i = []
  end.
Proof. unfold next_plug. apply next_plug_from_remaining. reflexivity. Qed.

(* ---------- nesting levels ---------- *)
Lemma stmt_levels_in x b : In x b -> (stmt_levels x < block_levels b)%nat.
Proof.
  unfold block_levels. induction b as [|y r IH]; intros H; [destruct H|].
  destruct H as [->|H]; [lia|]. specialize (IH H). lia.
Qed.
Lemma body_levels x body : (x = ForeachPlug body \/ x = ForeachNode body \/ x = IfOn body \/ x = IfOff body) ->
  block_levels body = stmt_levels x.
Proof. intros [->|[->|[->| ->]]]; reflexivity. Qed.
